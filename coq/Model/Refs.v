(* MODEL of reference resolution while loading a document (the code as it stands in /repo after
   the fix: commits 2845a38, 6b4a5e3, 69708ec), for C07.

   A document is the list of the root's children in document order; each child is a library of
   one kind.  Library objects are abstracted to (uid, id, references): uid stands for Python
   object identity, id for the `id` attribute.  Collada.__init__ runs the GENERATED [load_order];
   each step walks the document's libraries of its kind in document order (findall).  A lookup
   is IndexedList.get: the last object appended with that id ([spec_lookup], C14).

   A top-level <node> is flattened: its instance_* descendants in document (depth-first) order.
   Node.load handles a failing child per child (Errors.load_children); an instance_node whose
   target is not loaded raises DaeInstanceNotLoadedError, which unwinds to the top-level loop
   and defers the WHOLE top-level node.  _loadNodes / Scene.load: first pass in document order,
   retry passes while something is pending and the previous pass loaded something, deferred nodes
   end up after the others in collada.nodes (a scene's node list is put back into document
   order at the end); leftovers are DaeBrokenRefErrors (through handleError for library
   nodes, a direct raise failing the whole scene for scene nodes).

   Not modelled: how many times an aborting error is recorded while it unwinds through nested
   boundaries (once per boundary); ids of nested (non top-level) nodes are not targets. *)
From Coq Require Import List Bool NArith Lia.
From PC Require Import Base.Outcome Base.Py Base.Libs Gen.Params Model.IndexedList Model.Errors.
Import ListNotations.

Definition uid := N.
Definition ident := N.            (* 0 = no id attribute *)

(* where a reference is written decides what a missing '#' raises *)
Inductive site := SUrl | SCtrl | SText.
Definition nohash_exn (s : site) : option exn :=
  match s with SUrl => Some DaeMalformed | SCtrl => Some DaeBrokenRef | SText => None end.

Record ref := Ref { r_lib : lib; r_id : ident; r_hash : bool; r_site : site }.

(* all library objects loaded so far, in load order, tagged with their library *)
Definition objs := list (lib * obj).
Definition lib_list (o : objs) (l : lib) : list obj :=
  map snd (filter (fun p => lib_eqb (fst p) l) o).
Definition lookup (o : objs) (l : lib) (i : ident) : option uid := spec_lookup (lib_list o l) i.

Definition resolve (o : objs) (r : ref) : outcome uid :=
  match (if r_hash r then None else nohash_exn (r_site r)) with
  | Some x => Raise x
  | None => match lookup o (r_lib r) (r_id r) with
            | Some u => Ok u
            | None => Raise DaeBrokenRef
            end
  end.

(* ---- effect-internal references (material.py: Effect.load, getEffectParameters, Surface.load,
   Sampler2D.load, Map.load).  Every effect has its OWN scope of sids (a dict: a later newparam with
   the same sid replaces the earlier one); nothing of another effect is visible.
     surface  -> image    : collada.images (DaeBrokenRef when missing)
     sampler  -> surface  : a Surface of this effect's scope (DaeBrokenRef otherwise)
     texture  -> sampler  : a Sampler2D of this effect's scope; else the first sampler of the scope
                            whose surface's image carries that id ("exporters suck"); else the
                            shading property is silently dropped (0 below) - the bump map under
                            <extra> raises DaeBrokenRef instead (since /repo f9cb138)
   Not modelled: a texture naming an IMAGE id (the loader then invents a surface and a sampler),
   effect-local <image> elements, an image id that equals a sid of the scope. *)
Inductive eparam :=
  | PSurface (sid : ident) (u : uid) (img : ident)
  | PSampler (sid : ident) (u : uid) (src : ident)
  | PValue (sid : ident).

Inductive eobj :=
  | ESurface (u : uid) (img_id : ident)
  | ESampler (u : uid) (surf_img_id : ident)
  | EValue.
Definition escope := list (ident * eobj).
Definition eget := @dget ident eobj N.eqb.
Definition eset := @dset ident eobj N.eqb.

(* getEffectParameters: bindings of the surfaces and samplers in order, and the final scope *)
Fixpoint load_params (o : objs) (ps : list eparam) (sc : escope) (acc : list uid) : outcome (escope * list uid) :=
  match ps with
  | [] => Ok (sc, acc)
  | PSurface sid u img :: r =>
      match lookup o LImages img with
      | None => Raise DaeBrokenRef
      | Some iu => load_params o r (eset sc sid (ESurface u img)) (acc ++ [iu])
      end
  | PSampler sid u src :: r =>
      match eget sc src with
      | Some (ESurface su simg) => load_params o r (eset sc sid (ESampler u simg)) (acc ++ [su])
      | _ => Raise DaeBrokenRef
      end
  | PValue sid :: r => load_params o r (eset sc sid EValue) acc
  end.

(* Map.load: the sampler a <texture texture=name> is bound to *)
Definition find_sampler (sc : escope) (name : ident) : option uid :=
  match eget sc name with
  | Some (ESampler u _) => Some u
  | _ => match List.find (fun kv => match snd kv with ESampler _ i => N.eqb i name | _ => false end) sc with
         | Some (_, ESampler u _) => Some u
         | _ => None
         end
  end.

Record effect_body := FX { fx_params : list eparam; fx_texs : list ident; fx_bump : option ident }.

Definition load_effect_body (o : objs) (b : effect_body) : outcome (list uid) :=
  match load_params o (fx_params b) [] [] with
  | Raise e => Raise e
  | Ok (sc, binds) =>
      let texs := map (fun name => match find_sampler sc name with Some u => u | None => 0%N end) (fx_texs b) in
      match fx_bump b with
      | None => Ok (binds ++ texs)
      | Some name => match find_sampler sc name with
                     | Some u => Ok (binds ++ texs ++ [u])
                     | None => Raise DaeBrokenRef
                     end
      end
  end.

(* ---- objects of the plain libraries (images ... cameras) *)
Record item := Item { it_uid : uid; it_id : ident; it_refs : list ref; it_fx : option effect_body }.
Definition lval := (uid * ident * list uid)%type.      (* loaded object and what it is bound to *)

Definition load_item (o : objs) (it : item) : outcome lval :=
  match omapM (resolve o) (it_refs it) with
  | Ok us => Ok (it_uid it, it_id it, us)
  | Raise e => Raise e
  end.

(* an effect is loaded by Effect.load, everything else through its references *)
Definition load_any (o : objs) (it : item) : outcome lval :=
  match it_fx it with
  | None => load_item o it
  | Some b => match load_effect_body o b with
              | Ok us => Ok (it_uid it, it_id it, us)
              | Raise e => Raise e
              end
  end.

(* ---- nodes *)
Inductive nchild := NInst (r : ref) (mats : list ref) | NNode (target : ident) (hash : bool).
Record tnode := TNode { n_uid : uid; n_id : ident; n_children : list nchild }.

Inductive bnd := BInst (u : uid) (ms : list uid) | BNode (u : uid).
Definition lnode := (uid * ident * list bnd)%type.
Definition lnode_obj (n : lnode) : obj := (fst (fst n), snd (fst n)).

(* localscope of Scene.load: the FIRST node registered under an id stays (`N.id not in localscope`) *)
Fixpoint first_lookup (l : list obj) (a : ident) : option uid :=
  match l with
  | [] => None
  | x :: r => if N.eqb a (oid x) then Some (ouid x) else first_lookup r a
  end.

(* how an instance_node url is looked up: library nodes - collada.nodes only;
   scene nodes - the scene's local scope (ids <> None), then collada.nodes *)
Inductive scope := InLibrary | InScene.

Definition find_node (sc : scope) (o : objs) (loaded : list lnode) (t : ident) : option uid :=
  match sc with
  | InLibrary => spec_lookup (lib_list o LNodes ++ map lnode_obj loaded) t
  | InScene =>
      match first_lookup (filter (fun x => negb (N.eqb (oid x) 0)) (map lnode_obj loaded)) t with
      | Some u => Some u
      | None => lookup o LNodes t
      end
  end.

Definition load_child (sc : scope) (o : objs) (loaded : list lnode) (c : nchild) : cres bnd :=
  match c with
  | NInst r mats =>
      match resolve o r with
      | Raise e => CRaise e
      | Ok u => match omapM (resolve o) mats with
                | Raise e => CRaise e
                | Ok ms => COk (BInst u ms)
                end
      end
  | NNode t h =>
      if negb h then CRaise DaeMalformed
      else match find_node sc o loaded t with
           | Some u => COk (BNode u)
           | None => CDefer
           end
  end.

Section Nodes.
  Variable mk : mask.
  Variable sc : scope.
  Variable o : objs.       (* the libraries loaded by earlier steps (and, for scenes, library nodes) *)

  (* one pass of the top-level loop over [nodes] *)
  Fixpoint pass (nodes : list tnode) (loaded : list lnode) (pending : list tnode)
           (errs : list exn) (succ : bool)
    : list lnode * list tnode * list exn * bool * option exn :=
    match nodes with
    | [] => (loaded, pending, errs, succ, None)
    | n :: rest =>
        let '(vals, errs', st) := load_children (load_child sc o loaded) mk (n_children n) [] errs in
        match st with
        | SDone => pass rest (loaded ++ [(n_uid n, n_id n, vals)]) pending errs' true
        | SDefer => pass rest loaded (pending ++ [n]) errs' succ
        | SAbort x => (loaded, pending, errs', succ, Some x)
        end
    end.

  Inductive nres :=
    | NFinished (loaded : list lnode) (leftover : list tnode) (errs : list exn)
    | NAborted (loaded : list lnode) (errs : list exn) (x : exn)
    | NOutOfFuel.

  (* while len(tried_loading) > 0 and succeeded: ... *)
  Fixpoint retry (fuel : nat) (loaded : list lnode) (pending : list tnode) (errs : list exn)
           (succ : bool) : nres :=
    match pending with
    | [] => NFinished loaded [] errs
    | _ :: _ =>
        if succ then
          match fuel with
          | O => NOutOfFuel
          | S f =>
              let '(loaded', pending', errs', succ', ab) := pass pending loaded [] errs false in
              match ab with
              | Some x => NAborted loaded' errs' x
              | None => retry f loaded' pending' errs' succ'
              end
          end
        else NFinished loaded pending errs
    end.

  Definition load_group (nodes : list tnode) (loaded : list lnode) (errs : list exn) : nres :=
    let '(loaded', pending, errs', succ, ab) := pass nodes loaded [] errs false in
    match ab with
    | Some x => NAborted loaded' errs' x
    | None => retry (S (length pending)) loaded' pending errs' succ
    end.
End Nodes.

(* leftovers of one library_nodes element: each is handed to handleError as DaeBrokenRefError *)
Fixpoint report_leftovers (mk : mask) (lo : list tnode) (errs : list exn) : list exn * option exn :=
  match lo with
  | [] => (errs, None)
  | _ :: r => let '(errs', ab) := handle mk errs DaeBrokenRef in
              match ab with Some x => (errs', Some x) | None => report_leftovers mk r errs' end
  end.

Record scene := Scene { s_uid : uid; s_id : ident; s_nodes : list tnode }.
Definition lscene := (uid * ident * list lnode)%type.

Inductive content :=
  | CItems (l : list item) | CNodes (l : list tnode) | CScenes (l : list scene) | CDefault (r : ref).
Definition doc := list (lib * content).

Definition contents_of (d : doc) (k : lib) : list content :=
  map snd (filter (fun p => lib_eqb (fst p) k) d).
Definition items_of (d : doc) (k : lib) : list item :=
  flat_map (fun c => match c with CItems l => l | _ => [] end) (contents_of d k).
(* since the /repo fix of round 8 the nodes of ALL <library_nodes> elements form one pool with one
   retry loop (before, every element had its own loop and a node could not instantiate a node of
   a later element) *)
Definition node_groups_of (d : doc) : list (list tnode) :=
  [flat_map (fun c => match c with CNodes l => l | _ => [] end) (contents_of d LNodes)].
Definition scenes_of (d : doc) : list scene :=
  flat_map (fun c => match c with CScenes l => l | _ => [] end) (contents_of d LScenes).
Definition default_of (d : doc) : option ref :=
  match flat_map (fun c => match c with CDefault r => [r] | _ => [] end) (contents_of d LDefaultScene) with
  | r :: _ => Some r
  | [] => None
  end.

Record state := State {
  st_objs : objs;                       (* library lists *)
  st_items : list (lib * lval);         (* loaded plain objects with their bindings *)
  st_nodes : list lnode;                (* collada.nodes with bindings *)
  st_scenes : list lscene;              (* collada.scenes with their nodes *)
  st_default : option uid;              (* collada.scene *)
  st_errs : list exn }.

Definition init_state : state := State [] [] [] [] None [].

Inductive dres := Done (s : state) | Aborted (s : state) (x : exn) | DOutOfFuel.

Definition obj_of_lval (v : lval) : obj := (fst (fst v), snd (fst v)).

(* Scene.load (since /repo c91a4c8) finally sorts the loaded top-level nodes by their position in
   the document; collada.nodes keeps load order (deferred nodes after the others) *)
Definition in_document_order (doc_nodes : list tnode) (l : list lnode) : list lnode :=
  flat_map (fun n => filter (fun ln : lnode => N.eqb (fst (fst ln)) (n_uid n)) l) doc_nodes.

(* library_nodes elements one after the other, each with its own retry loop *)
Fixpoint load_node_groups (mk : mask) (o : objs) (groups : list (list tnode)) (loaded : list lnode)
         (errs : list exn) : list lnode * list exn * option exn * bool :=
  match groups with
  | [] => (loaded, errs, None, false)
  | g :: rest =>
      match load_group mk InLibrary o g loaded errs with
      | NOutOfFuel => (loaded, errs, None, true)
      | NAborted l e x => (l, e, Some x, false)
      | NFinished l0 lo e =>
          (* since /repo e99e57c the nodes this library_nodes element contributed are put back
             into document order before the leftovers are reported *)
          let l := firstn (length loaded) l0 ++ in_document_order g (skipn (length loaded) l0) in
          let '(e', ab) := report_leftovers mk lo e in
          match ab with
          | Some x => (l, e', Some x, false)
          | None => load_node_groups mk o rest l e'
          end
      end
  end.

(* Scene.load as one item of the visual-scene library loop; errors recorded inside are kept *)
Definition load_scene (mk : mask) (o : objs) (s : scene) (errs : list exn)
  : list exn * (outcome lscene + unit (* out of fuel *)) :=
  match load_group mk InScene o (s_nodes s) [] errs with
  | NOutOfFuel => (errs, inr tt)
  | NAborted _ e x => (e, inl (Raise x))
  | NFinished l [] e => (e, inl (Ok (s_uid s, s_id s, in_document_order (s_nodes s) l)))
  | NFinished _ (_ :: _) e => (e, inl (Raise DaeBrokenRef))
  end.

Fixpoint load_scenes (mk : mask) (o : objs) (ss : list scene) (loaded : list lscene) (errs : list exn)
  : list lscene * list exn * option exn * bool :=
  match ss with
  | [] => (loaded, errs, None, false)
  | s :: rest =>
      match load_scene mk o s errs with
      | (e, inr _) => (loaded, e, None, true)
      | (e, inl (Ok v)) =>
          load_scenes mk o rest (loaded ++ [v]) e
      | (e, inl (Raise x)) =>
          match catch x with
          | None => (loaded, e, Some x, false)
          | Some x' => let '(e', ab) := handle mk e x' in
                       match ab with
                       | Some y => (loaded, e', Some y, false)
                       | None => load_scenes mk o rest loaded e'
                       end
          end
      end
  end.

Definition step (mk : mask) (d : doc) (k : lib) (s : state) : dres :=
  match k with
  | LAsset => Done s
  | LNodes =>
      let '(l, e, ab, oof) := load_node_groups mk (st_objs s) (node_groups_of d) (st_nodes s) (st_errs s) in
      let s' := State (st_objs s ++ map (fun n => (LNodes, lnode_obj n)) (skipn (length (st_nodes s)) l))
                      (st_items s) l (st_scenes s) (st_default s) e in
      if oof then DOutOfFuel else match ab with Some x => Aborted s' x | None => Done s' end
  | LScenes =>
      let '(l, e, ab, oof) := load_scenes mk (st_objs s) (scenes_of d) [] (st_errs s) in
      let s' := State (st_objs s ++ map (fun v : lscene => (LScenes, (fst (fst v), snd (fst v)))) l)
                      (st_items s) (st_nodes s) (st_scenes s ++ l) (st_default s) e in
      if oof then DOutOfFuel else match ab with Some x => Aborted s' x | None => Done s' end
  | LDefaultScene =>
      match default_of d with
      | None => Done s
      | Some r =>
          match resolve (st_objs s) r with
          | Ok u => Done (State (st_objs s) (st_items s) (st_nodes s) (st_scenes s) (Some u) (st_errs s))
          | Raise x =>
              let '(e', ab) := handle mk (st_errs s) x in
              let s' := State (st_objs s) (st_items s) (st_nodes s) (st_scenes s) None e' in
              match ab with Some y => Aborted s' y | None => Done s' end
          end
      end
  | _ =>
      let '(vals, e, ab) := load_lib (load_any (st_objs s)) mk (items_of d k) [] (st_errs s) in
      let s' := State (st_objs s ++ map (fun v => (k, obj_of_lval v)) vals)
                      (st_items s ++ map (fun v => (k, v)) vals)
                      (st_nodes s) (st_scenes s) (st_default s) e in
      match ab with Some x => Aborted s' x | None => Done s' end
  end.

Fixpoint run_steps (mk : mask) (d : doc) (steps : list lib) (s : state) : dres :=
  match steps with
  | [] => Done s
  | k :: rest => match step mk d k s with
                 | Done s' => run_steps mk d rest s'
                 | other => other
                 end
  end.

(* Collada(file, ignore=mask) *)
Definition load_doc (mk : mask) (d : doc) : dres := run_steps mk d load_order init_state.

(* ---- on save: every reference is rewritten from the current id of the object it is bound to *)
Definition saved_ref (l : lib) (current_id : uid -> ident) (target : uid) : ref :=
  Ref l (current_id target) true SUrl.
(* the library as written: its members under their current ids *)
Definition written_lib (l : lib) (current_id : uid -> ident) (members : list uid) : objs :=
  map (fun u => (l, (u, current_id u))) members.

(* ---- SPEC helpers *)
(* position of a step in the generated order *)
Definition before (a b : lib) (order : list lib) : bool :=
  match find_index (lib_eqb a) order, find_index (lib_eqb b) order with
  | Some i, Some j => Nat.ltb i j
  | _, _ => false
  end.

(* ---- SPEC: the independent reading of a node's children (no loading algorithm involved): an
   instance is what its references resolve to in the libraries; an instance_node is the node of
   the group carrying that id *)
Fixpoint node_uid (nodes : list tnode) (t : ident) : option uid :=
  match nodes with
  | [] => None
  | n :: r => if N.eqb t (n_id n) then Some (n_uid n) else node_uid r t
  end.

Definition read_child (o : objs) (nodes : list tnode) (c : nchild) : option bnd :=
  match c with
  | NInst r mats =>
      match resolve o r, omapM (resolve o) mats with
      | Ok u, Ok ms => Some (BInst u ms)
      | _, _ => None
      end
  | NNode t h => if h then option_map BNode (node_uid nodes t) else None
  end.

(* ---- the implicit-surface path of Effect.load ("whoever exported this file didn't include the
   proper references"): a shading <texture> that names no sampler of the scope but the id of a
   library IMAGE gets a surface and a sampler made for it on the spot, initialised from that
   image; otherwise the property is dropped.  (Not part of [load_effect_body]: the generators
   never write such a texture, so the correspondence does not exercise it.) *)
Inductive tex_binding := TSampler (u : uid) | TImplicit (img : uid) | TDropped.

Definition bind_texture (o : objs) (sc : escope) (name : ident) : tex_binding :=
  match find_sampler sc name with
  | Some u => TSampler u
  | None => match lookup o LImages name with
            | Some iu => TImplicit iu
            | None => TDropped
            end
  end.
