(* MODEL of the index table every primitive kind builds from its flat <p> stream.

   numpy: `index.shape = (-1, k, nind)` (triangles k = 3, lines k = 2) or `(-1, nind)`
   (polylist, k = 1) on the caller's flat array, with nind = max offset + 1.  The
   reshape fails (ValueError) unless the length is a multiple of k * nind.  The view of
   the input at offset o is `index[:, :, o]` (resp. `index[:, o]`).

   The table is kept as the list of *corners* (each corner = nind index values); the
   view of an input is one value per corner ([col]); grouping the corners k by k gives
   the rows of the N x k arrays ([row]).  No proofs here. *)
From Coq Require Import List Bool Arith NArith Lia.
From PC Require Import Base.Outcome.
Import ListNotations.

(* the first n consecutive chunks of width w of l *)
Fixpoint chunk {A} (w n : nat) (l : list A) : list (list A) :=
  match n with
  | 0 => []
  | S n' => firstn w l :: chunk w n' (skipn w l)
  end.

(* nindices = max_offset + 1 *)
Definition nind_of (offsets : list nat) : nat := S (list_max offsets).

Definition table := list (list N).

(* reshape to (-1, k, nind): all corners, or ValueError when the stream is ragged *)
Definition reshape (k nind : nat) (flat : list N) : outcome table :=
  if (length flat mod (k * nind) =? 0)%nat
  then Ok (chunk nind (length flat / nind) flat)
  else Raise PyValueError.

(* index[:, :, o] flattened: one index per corner *)
Definition col (o : nat) (t : table) : list N := map (fun corner => nth o corner 0%N) t.

(* len(index) for the (-1, k, nind) shape *)
Definition nrows (k : nat) (t : table) : nat := length t / k.

(* Python slice a[start : start+cnt] for 0 <= start (clamped at the end like Python) *)
Definition slice {A} (start cnt : nat) (l : list A) : list A := firstn cnt (skipn start l).

(* row t of an N x k view *)
Definition row (k t : nat) (v : list N) : list N := slice (t * k) k v.

(* numpy.max of a view (0 for the empty list; never asked of an empty view) *)
Definition maxN (l : list N) : N := fold_right N.max 0%N l.

(* ------------------------------------------------------------------------- *)
(* SPEC: position arithmetic on the flat stream, no reshaping at all:
   entry (t, c) of the view of the input at offset o. *)
Definition spec_at (k nind o : nat) (flat : list N) (t c : nat) : N :=
  nth ((t * k + c) * nind + o) flat 0%N.
