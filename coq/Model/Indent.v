(* MODEL of collada.xmlutil.indent (the pure-Python branch used when lxml is absent), on the
   whitespace skeleton of an ElementTree: per element a label (everything that is not
   whitespace: tag, attributes - never touched), the class of its .text and of its .tail, and
   its children.

     def indent(elem, level=0):
         i = "\n" + level * "  "
         if len(elem):
             if not elem.text or not elem.text.strip(): elem.text = i + "  "
             if not elem.tail or not elem.tail.strip(): elem.tail = i
             for elem in elem: indent(elem, level + 1)      # rebinds elem: last child after the loop
             if not elem.tail or not elem.tail.strip(): elem.tail = i
         else:
             if level and (not elem.tail or not elem.tail.strip()): elem.tail = i
*)
From Coq Require Import List Bool Arith NArith.
Import ListNotations.

(* class of a text / tail slot *)
Inductive slot :=
  | SAbsent                 (* None or "" *)
  | SBlank (w : N)          (* whitespace only, some string other than the canonical ones *)
  | SInd (n : nat)          (* exactly "\n" followed by n times two spaces *)
  | SText (a : N).          (* contains a non-whitespace character *)

Inductive wtree := WNode (lab : N) (text tail : slot) (kids : list wtree).

Definition blankish (s : slot) : bool := match s with SText _ => false | _ => true end.

(* `if not s or not s.strip(): s = mk n`; the library's indent has mk = SInd *)
Definition fill_g (mk : nat -> slot) (s : slot) (n : nat) : slot := if blankish s then mk n else s.
Definition fill := fill_g SInd.

Definition set_tail_g (mk : nat -> slot) (l : nat) (t : wtree) : wtree :=
  let 'WNode lab tx tl kk := t in WNode lab tx (fill_g mk tl l) kk.

(* the statement after the loop: the last child's tail *)
Fixpoint set_last_tail_g (mk : nat -> slot) (l : nat) (ks : list wtree) : list wtree :=
  match ks with
  | [] => []
  | k :: r => match r with [] => [set_tail_g mk l k] | _ => k :: set_last_tail_g mk l r end
  end.

(* MODEL, line by line *)
Fixpoint indent_g (mk : nat -> slot) (level : nat) (t : wtree) : wtree :=
  let 'WNode lab tx tl kids := t in
  match kids with
  | [] => WNode lab tx (if Nat.eqb level 0 then tl else fill_g mk tl level) []
  | _ :: _ => WNode lab (fill_g mk tx (S level)) (fill_g mk tl level)
                    (set_last_tail_g mk level (map (indent_g mk (S level)) kids))
  end.

Definition indent (level : nat) (t : wtree) : wtree := indent_g SInd level t.

(* SPEC side: what a tree says apart from the whitespace indent is entitled to rewrite.
   [strip] visits the tree exactly as indent does and puts SAbsent wherever indent would
   write; labels, shape, non-blank slots, leaf texts and a childless root's tail remain. *)
Definition strip (level : nat) (t : wtree) : wtree := indent_g (fun _ => SAbsent) level t.

(* the same traversal with the tail decision passed down (used by the proofs):
   tm = None: leave the tail alone; Some n: fill it with level n *)
Definition ftail_g (mk : nat -> slot) (tm : option nat) (s : slot) : slot :=
  match tm with None => s | Some n => fill_g mk s n end.

Fixpoint ind_g (mk : nat -> slot) (level : nat) (tm : option nat) (t : wtree) : wtree :=
  let 'WNode lab tx tl kids := t in
  WNode lab (match kids with [] => tx | _ :: _ => fill_g mk tx (S level) end) (ftail_g mk tm tl)
        ((fix go (ks : list wtree) : list wtree :=
            match ks with
            | [] => []
            | k :: r => match r with
                        | [] => [ind_g mk (S level) (Some level) k]
                        | _ :: _ => ind_g mk (S level) (Some (S level)) k :: go r
                        end
            end) kids).

Definition tail_mode (level : nat) (t : wtree) : option nat :=
  let 'WNode _ _ _ kids := t in
  match kids with [] => if Nat.eqb level 0 then None else Some level | _ :: _ => Some level end.

(* serialisation of a skeleton to tokens (what the bytes depend on): used only to say
   "same skeleton, same bytes" *)
Fixpoint wsize (t : wtree) : nat :=
  let 'WNode _ _ _ kids := t in S (fold_right (fun k a => wsize k + a) 0 kids).
