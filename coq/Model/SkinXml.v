(* C19 - the XML navigation of Controller.load, Source.load (as far as controllers use it),
   Skin.load and Morph.load over Base.Xml: which children are looked up (all through
   collada.tag, i.e. in the document namespace [ns]), how attributes and text are parsed, in which
   order the loaders fail - followed by the numeric decoding of Model/Skin.v.

   MODEL = [load_controller] (and its stages).  SPEC = the declarative readings [read_skin],
   [read_morph] (plain find / findall / attribute look-ups, no failure handling) and the
   well-formedness predicates [wf_skin], [wf_morph].  No proofs in this file.

   Built-in exceptions escaping from a loader are reported as DaeMalformedError by
   Collada._loadControllers (handleRawLoadError); those sites return DaeMalformed here and are
   marked (raw).  [PyOther] marks inputs the model does not cover (excluded by the wf predicates). *)
From Coq Require Import List Bool Arith ZArith NArith.
From PC Require Import Base.Atoms Base.Outcome Base.Xml Model.Skin.
Import ListNotations.

Section XmlLoad.
  Variable ns : atom.          (* namespace of the document: collada.tag(t) = {ns}t *)
  Variable nums : list Z.      (* value of the k-th non-integer number token of the case *)
  Variable geoms : list atom.  (* ids of the geometries loaded before the controllers *)

  (* float(tok): integers and numbers parse, anything else is a ValueError *)
  Definition tokZ (t : tok) : option Z :=
    match t with
    | TInt z => Some z
    | TNum k => nth_error nums (N.to_nat k)
    | TWord _ => None
    end.
  Definition tok_name (t : tok) : option atom := match t with TWord a => Some a | _ => None end.
  (* int(tok) *)
  Definition tok_count (t : tok) : outcome nat :=
    match t with
    | TInt z => if (z <? 0)%Z then Raise PyOther else Ok (Z.to_nat z)
    | _ => Raise DaeMalformed
    end.

  (* node.findall('a/b/c') *)
  Fixpoint findall_path (path : list atom) (x : xml) : list xml :=
    match path with
    | [] => [x]
    | t :: r => flat_map (findall_path r) (findall ns t x)
    end.

  Fixpoint all_some {A B} (f : A -> option B) (l : list A) : option (list B) :=
    match l with
    | [] => Some []
    | x :: r => match f x, all_some f r with Some y, Some ys => Some (y :: ys) | _, _ => None end
    end.

  (* ------------------------------------------------------------ Source.load *)
  Definition source_id (x : xml) : option atom :=
    match xattr a_id x with Some (AStr a) => Some a | _ => None end.

  Definition load_source (x : xml) : outcome (atom * src) :=
    match source_id x with
    | None => Raise PyOther
    | Some id =>
      let nparams := length (findall_path [a_technique_common; a_accessor; a_param] x) in
      match find ns a_float_array x with
      | Some arr =>
          (* text None or blank -> empty array; numpy.fromstring: ValueError -> DaeMalformedError *)
          match all_some tokZ (match xtext arr with Some l => l | None => [] end) with
          | None => Raise DaeMalformed
          | Some vals =>
              if Nat.eqb nparams 0 then Raise DaeIncomplete
              else if negb (Nat.eqb (length vals mod nparams) 0) then Raise DaeMalformed
              else Ok (id, SrcFloats nparams vals)
          end
      | None =>
      match find ns a_IDREF_array x, find ns a_Name_array x with
      | Some arr, _ =>
          match all_some tok_name (match xtext arr with Some l => l | None => [] end) with
          | None => Raise PyOther
          | Some names => if Nat.eqb nparams 0 then Raise DaeIncomplete
                          else if Nat.eqb nparams 1 then Ok (id, SrcNames true names) else Raise PyOther
          end
      | None, Some arr =>
          match all_some tok_name (match xtext arr with Some l => l | None => [] end) with
          | None => Raise PyOther
          | Some names => if Nat.eqb nparams 0 then Raise DaeIncomplete
                          else if Nat.eqb nparams 1 then Ok (id, SrcNames false names) else Raise PyOther
          end
      | None, None => Raise DaeIncomplete
      end end
    end.

  (* ------------------------------------------------------------ inputs *)
  Definition sem_of (x : xml) : sem :=
    match xattr a_semantic x with
    | Some (AStr s) =>
        if N.eqb s a_JOINT then SJoint else if N.eqb s a_INV_BIND_MATRIX then SInvBind
        else if N.eqb s a_WEIGHT then SWeight else if N.eqb s a_MORPH_TARGET then SMorphTarget
        else if N.eqb s a_MORPH_WEIGHT then SMorphWeight else SOther
    | _ => SOther
    end.

  (* `len(i[1]) < 2 or i[1][0] != '#'`: a missing attribute is len(None) (raw) *)
  Definition source_ref (x : xml) : outcome atom :=
    match xattr a_source x with
    | None => Raise DaeMalformed
    | Some (ARef true id) => Ok id
    | Some _ => Raise DaeBrokenRef
    end.

  Definition joints_input (x : xml) : outcome (sem * atom) :=
    match source_ref x with Ok id => Ok (sem_of x, id) | Raise e => Raise e end.

  (* int(i.get('offset')): missing (raw TypeError) and non-integer (ValueError) are both malformed *)
  Definition offset_of (x : xml) : outcome Z :=
    match xattr a_offset x with Some (AInt z) => Ok z | _ => Raise DaeMalformed end.

  (* ------------------------------------------------------------ Skin.load *)
  Definition text_toks (o : option xml) : list tok :=
    match o with Some x => match xtext x with Some l => l | None => [] end | None => [] end.

  (* bind_shape_matrix: float(v) for v in text.split() - an element without text is None.split (raw) *)
  Definition bind_stage (node : xml) : outcome (option (list Z)) :=
    match find ns a_bind_shape_matrix node with
    | None => Ok None
    | Some b => match xtext b with
                | None => Raise DaeMalformed
                | Some l => match all_some tokZ l with Some zs => Ok (Some zs) | None => Raise DaeMalformed end
                end
    end.

  (* <vertex_weights>: <v>, <vcount> (missing: DaeIncompleteError), then inside one try block the
     numbers of <v> (float), of <vcount> (int) and the offsets (int), then the '#' test of every input *)
  Definition vw_stage (vw : xml) : outcome (list (sem * atom * Z) * list nat * list Z) :=
    match find ns a_v vw, find ns a_vcount vw with
    | None, _ | _, None => Raise DaeIncomplete
    | Some vnode, Some vcnode =>
    let inodes := findall ns a_input vw in
    match all_some tokZ (text_toks (Some vnode)) with
    | None => Raise DaeMalformed
    | Some index =>
    match omapM tok_count (text_toks (Some vcnode)) with
    | Raise e => Raise e
    | Ok vcounts =>
    match omapM offset_of inodes with
    | Raise e => Raise e
    | Ok offs =>
    match omapM joints_input inodes with
    | Raise e => Raise e
    | Ok vins => Ok (map (fun p => (fst (fst p), snd (fst p), snd p)) (combine vins offs), vcounts, index)
    end end end end end.

  Definition skin_parts (sc : scope) (node ctrl : xml) : outcome skin_desc :=
    if Nat.ltb (count_distinct (map fst sc)) 3 then Raise DaeMalformed else
    match xattr a_source node with
    | Some (ARef true g) =>
    if negb (memN g geoms) then Raise DaeBrokenRef else
    match bind_stage node with
    | Raise e => Raise e
    | Ok bind =>
    let jnodes := findall_path [a_joints; a_input] node in
    if Nat.ltb (length jnodes) 2 then Raise DaeIncomplete else
    match omapM joints_input jnodes with
    | Raise e => Raise e
    | Ok jins =>
    match find ns a_vertex_weights node with
    | None => Raise DaeIncomplete
    | Some vw =>
    match vw_stage vw with
    | Raise e => Raise e
    | Ok (vins, vcounts, index) =>
    (* Skin.__init__: the controller needs an id *)
    match xattr a_id ctrl with
    | None => Raise DaeMalformed
    | Some _ => Ok (mk_skin_desc sc true bind jins vins vcounts index)
    end end end end end
    | _ => Raise DaeBrokenRef
    end.

  Definition load_skin_x (sc : scope) (node ctrl : xml) : outcome skin_view :=
    match skin_parts sc node ctrl with
    | Raise e => Raise e
    | Ok d => load_skin d
    end.

  (* ------------------------------------------------------------ Morph.load *)
  Definition method_ok (node : xml) : bool :=
    match xattr a_method node with
    | None => true
    | Some (AStr m) => N.eqb m a_NORMALIZED || N.eqb m a_RELATIVE
    | Some _ => false
    end.

  (* `len(i[1]) < 2 or i[1][0] != '#' or not i[1][1:] in localscope` *)
  Definition morph_input (sc : scope) (x : xml) : outcome (sem * atom) :=
    match source_ref x with
    | Raise e => Raise e
    | Ok id => match lookup sc id with Some _ => Ok (sem_of x, id) | None => Raise DaeBrokenRef end
    end.

  Definition morph_parts (sc : scope) (node : xml) : outcome morph_desc :=
    match xattr a_source node with
    | None => Raise DaeMalformed                        (* len(None) (raw) *)
    | Some (ARef true b) =>
        if negb (memN b geoms) then Raise DaeBrokenRef else
        if negb (method_ok node) then Raise DaeMalformed else
        let inodes := findall_path [a_targets; a_input] node in
        if Nat.ltb (length inodes) 2 then Raise DaeIncomplete else
        match omapM (morph_input sc) inodes with
        | Raise e => Raise e
        | Ok ins => Ok (mk_morph_desc sc (Some b) true ins geoms)
        end
    | Some _ => Raise DaeBrokenRef
    end.

  Definition load_morph_x (sc : scope) (node ctrl : xml) : outcome (atom * list (atom * Z)) :=
    match morph_parts sc node with
    | Raise e => Raise e
    | Ok d => match load_morph d with
              | Raise e => Raise e
              | Ok r => match xattr a_id ctrl with None => Raise DaeMalformed | Some _ => Ok r end
              end
    end.

  (* ------------------------------------------------------------ Controller.load *)
  Inductive loaded := LSkin (v : skin_view) | LMorph (base : atom) (pairs : list (atom * Z)).

  (* node.findall('<skin or morph tag>/source'): the sources of every child with that tag *)
  Definition controller_sources (kind : atom) (ctrl : xml) : list xml :=
    findall_path [kind; a_source] ctrl.

  Definition load_controller (ctrl : xml) : outcome loaded :=
    match find ns a_skin ctrl with
    | Some node =>
        match omapM load_source (controller_sources a_skin ctrl) with
        | Raise e => Raise e
        | Ok sc => match load_skin_x sc node ctrl with Ok v => Ok (LSkin v) | Raise e => Raise e end
        end
    | None =>
    match find ns a_morph ctrl with
    | Some node =>
        match omapM load_source (controller_sources a_morph ctrl) with
        | Raise e => Raise e
        | Ok sc => match load_morph_x sc node ctrl with Ok (b, l) => Ok (LMorph b l) | Raise e => Raise e end
        end
    | None => Raise DaeUnsupported
    end end.

  (* ------------------------------------------------------------ SPEC: declarative reading *)
  Definition ref_or_default (x : xml) : atom :=
    match xattr a_source x with Some (ARef _ id) => id | _ => a_empty end.
  Definition numbers (l : list tok) : list Z := map (fun t => match tokZ t with Some z => z | None => 0%Z end) l.

  Definition read_bind (node : xml) : option (list Z) :=
    match find ns a_bind_shape_matrix node with Some b => Some (numbers (text_toks (Some b))) | None => None end.
  Definition read_vw_inputs (vw : xml) : list (sem * atom * Z) :=
    map (fun x => (sem_of x, ref_or_default x, match xattr a_offset x with Some (AInt z) => z | _ => 0%Z end))
        (findall ns a_input vw).
  Definition read_counts (l : list tok) : list nat := map (fun t => match t with TInt z => Z.to_nat z | _ => 0 end) l.

  (* what a <skin> element says, read field by field *)
  Definition read_skin (sc : scope) (node : xml) : skin_desc :=
    let vw := find ns a_vertex_weights node in
    mk_skin_desc sc true (read_bind node)
      (map (fun x => (sem_of x, ref_or_default x)) (findall_path [a_joints; a_input] node))
      (match vw with Some w => read_vw_inputs w | None => [] end)
      (read_counts (text_toks (match vw with Some w => find ns a_vcount w | None => None end)))
      (numbers (text_toks (match vw with Some w => find ns a_v w | None => None end))).

  Definition read_morph (sc : scope) (node : xml) : morph_desc :=
    mk_morph_desc sc (match xattr a_source node with Some (ARef _ b) => Some b | _ => None end) true
      (map (fun x => (sem_of x, ref_or_default x)) (findall_path [a_targets; a_input] node)) geoms.

  (* well-formed <skin>: every piece the loader looks for is there and has the right lexical form *)
  Definition is_number (t : tok) : Prop := tokZ t <> None.
  Definition is_count (t : tok) : Prop := exists z, t = TInt z /\ (0 <= z)%Z.
  Definition has_ref (x : xml) : Prop := exists id, xattr a_source x = Some (ARef true id).
  Definition has_offset (x : xml) : Prop := exists z, xattr a_offset x = Some (AInt z).

  Record wf_skin (sc : scope) (node ctrl : xml) : Prop := {
    wfs_sources : 3 <= count_distinct (map fst sc);
    wfs_geom : exists g, xattr a_source node = Some (ARef true g) /\ memN g geoms = true;
    wfs_bind : forall b, find ns a_bind_shape_matrix node = Some b ->
                         exists l, xtext b = Some l /\ Forall is_number l;
    wfs_joints : 2 <= length (findall_path [a_joints; a_input] node) /\
                 Forall has_ref (findall_path [a_joints; a_input] node);
    wfs_vw : exists vw vnode vcnode,
               find ns a_vertex_weights node = Some vw /\ find ns a_v vw = Some vnode /\
               find ns a_vcount vw = Some vcnode /\
               Forall is_number (text_toks (Some vnode)) /\ Forall is_count (text_toks (Some vcnode)) /\
               Forall has_ref (findall ns a_input vw) /\ Forall has_offset (findall ns a_input vw);
    wfs_id : xattr a_id ctrl <> None }.

  Record wf_morph (sc : scope) (node : xml) : Prop := {
    wfm_base : exists b, xattr a_source node = Some (ARef true b) /\ memN b geoms = true;
    wfm_method : method_ok node = true;
    wfm_inputs : 2 <= length (findall_path [a_targets; a_input] node) /\
                 Forall (fun x => exists id, xattr a_source x = Some (ARef true id) /\ lookup sc id <> None)
                        (findall_path [a_targets; a_input] node) }.
End XmlLoad.
