(* C15 - the namespace a loader sees.

   pycollada takes the namespace URI from the root element's tag and builds `collada.tag`
   (common.tagger); a loader that goes through `collada.tag` can only ask of an element "are you
   <name> in the document's namespace?".  [erase] is exactly that view of a document: every element
   keeps its uid, attributes, text and children, and of its qualified tag only
     - own:  Some local-name if it is in the namespace the document's tagger uses, else None;
     - hard: Some local-name if it is in the namespace used by the tag tests of the sites that
             were found NOT to go through the document's tag function (IDRefSource.load and
             NameSource.load used the module-level `tag`, i.e. the COLLADA 1.4.1 URI, until /repo
             c73fa9d; they use collada.tag now).  The model reads this field at exactly those sites,
             so "which namespace those sites test" is a parameter of [erase], not of the loaders.
   The load model (Model/LoadDoc.v) is a function of the erased tree.

   SPEC of the namespace change: [retag ns ns'] renames the namespace of every element that is in
   namespace ns and leaves every other (foreign) element alone. *)
From Coq Require Import List Bool NArith.
From PC Require Import Base.Atoms Base.Xml.
Import ListNotations.

Inductive et := ET (uid : N) (own : option atom) (hard : option atom) (attrs : list (atom * aval))
                   (text : option (list tok)) (kids : list et).

Definition euid (e : et) := let 'ET u _ _ _ _ _ := e in u.
Definition eown (e : et) := let 'ET _ o _ _ _ _ := e in o.
Definition ehard (e : et) := let 'ET _ _ h _ _ _ := e in h.
Definition eattrs (e : et) := let 'ET _ _ _ a _ _ := e in a.
Definition etext (e : et) := let 'ET _ _ _ _ t _ := e in t.
Definition ekids (e : et) := let 'ET _ _ _ _ _ k := e in k.

(* the tag tests of a document whose tagger uses namespace [docns], with hard-wired tests using [hardns] *)
Fixpoint erase (docns hardns : atom) (x : xml) : et :=
  let 'El u n t a tx k := x in
  ET u (if N.eqb n docns then Some t else None) (if N.eqb n hardns then Some t else None) a tx
     (map (erase docns hardns) k).

(* Collada.__init__: namespace = the root tag's namespace; every site uses collada.tag (the code now) *)
Definition erase_now (x : xml) : et := erase (xns x) (xns x) x.
(* the code before the fix: the Name/IDREF source sites test the 1.4.1 namespace whatever the document says *)
Definition erase_before_fix (x : xml) : et := erase (xns x) a_ns141 x.

Fixpoint retag (ns ns' : atom) (x : xml) : xml :=
  let 'El u n t a tx k := x in
  El u (if N.eqb n ns then ns' else n) t a tx (map (retag ns ns') k).

(* the new URI is not already used by a foreign element of the document *)
Fixpoint uses_ns (ns : atom) (x : xml) : bool :=
  let 'El _ n _ _ _ k := x in
  N.eqb n ns || existsb (uses_ns ns) k.

Definition retag_doc (ns' : atom) (x : xml) : xml := retag (xns x) ns' x.
