(* C01 - the document codec at the NUMBER level, on top of the C06 family's XML-level class
   codecs (Model/Emit.v: emit_K / read_K for sources, primitives, geometries, lights, cameras,
   materials, node trees, visual scenes and the whole document).

   A number-level document is the C06 document in which the data of every float source are
   numbers (X) instead of tokens: they are written through fmt7 and read back through
   parse32 (Base/Num.v).  Every other numeric text (light colours, camera and transform
   parameters) is carried as the tokens the writer produced, as in C06.  No proofs here. *)
From Coq Require Import List ZArith NArith.
From PC Require Import Base.Atoms Base.Xml Base.Num Model.RoundTrip Model.Emit.
Import ListNotations.

Definition c06_codec {K} (emit : K -> xml) (read : xml -> option K) : codec K xml :=
  Codec emit read (fun k => k).

Section NumberLevel.
  Variable X : Type.
  Variable fmt7 : X -> tok.          (* '%.7g' % x, as a token of the written text *)
  Variable parse32 : tok -> X.
  Variable arr : atom -> atom.       (* id of the float_array of a source id *)

  Record nsource := { n_id : atom; n_data : list X; n_comps : list atom; n_count : Z; n_acount : Z }.

  Definition to_tokens (s : nsource) : source :=
    {| s_id := n_id s; s_data := emit_floats X tok fmt7 (n_data s); s_comps := n_comps s;
       s_count := n_count s; s_acount := n_acount s |}.
  Definition of_tokens (s : source) : nsource :=
    {| n_id := s_id s; n_data := parse_floats X tok parse32 (s_data s); n_comps := s_comps s;
       n_count := s_count s; n_acount := s_acount s |}.
  Definition norm_source (s : nsource) : nsource :=
    {| n_id := n_id s; n_data := map (norm X tok fmt7 parse32) (n_data s); n_comps := n_comps s;
       n_count := n_count s; n_acount := n_acount s |}.

  Definition number_source_codec : codec nsource xml :=
    Codec (fun s => emit_source arr (to_tokens s))
          (fun x => option_map of_tokens (read_source x))
          norm_source.

  Record ngeometry := { ng_id : aval; ng_name : option aval; ng_sources : list nsource; ng_vid : atom;
                        ng_vref : atom; ng_prims : list prim; ng_double_sided : bool }.
  Definition to_tok_geometry (g : ngeometry) : geometry :=
    {| g_id := ng_id g; g_name := ng_name g; g_sources := map to_tokens (ng_sources g); g_vid := ng_vid g;
       g_vref := ng_vref g; g_prims := ng_prims g; g_double_sided := ng_double_sided g |}.
  Definition of_tok_geometry (g : geometry) : ngeometry :=
    {| ng_id := g_id g; ng_name := g_name g; ng_sources := map of_tokens (g_sources g); ng_vid := g_vid g;
       ng_vref := g_vref g; ng_prims := g_prims g; ng_double_sided := g_double_sided g |}.
  Definition norm_geometry (g : ngeometry) : ngeometry :=
    {| ng_id := ng_id g; ng_name := ng_name g; ng_sources := map norm_source (ng_sources g); ng_vid := ng_vid g;
       ng_vref := ng_vref g; ng_prims := ng_prims g; ng_double_sided := ng_double_sided g |}.

  Record ndoc := { nd_geometries : list ngeometry; nd_lights : list light; nd_cameras : list camera;
                   nd_images : list aval; nd_effects : list aval; nd_materials : list material;
                   nd_nodes : list node; nd_scenes : list vscene; nd_scene : option atom }.
  Definition to_tok_doc (d : ndoc) : doc :=
    {| d_geometries := map to_tok_geometry (nd_geometries d); d_lights := nd_lights d; d_cameras := nd_cameras d;
       d_images := nd_images d; d_effects := nd_effects d; d_materials := nd_materials d;
       d_nodes := nd_nodes d; d_scenes := nd_scenes d; d_scene := nd_scene d |}.
  Definition of_tok_doc (d : doc) : ndoc :=
    {| nd_geometries := map of_tok_geometry (d_geometries d); nd_lights := d_lights d; nd_cameras := d_cameras d;
       nd_images := d_images d; nd_effects := d_effects d; nd_materials := d_materials d;
       nd_nodes := d_nodes d; nd_scenes := d_scenes d; nd_scene := d_scene d |}.
  Definition norm_doc (d : ndoc) : ndoc :=
    {| nd_geometries := map norm_geometry (nd_geometries d); nd_lights := nd_lights d; nd_cameras := nd_cameras d;
       nd_images := nd_images d; nd_effects := nd_effects d; nd_materials := nd_materials d;
       nd_nodes := nd_nodes d; nd_scenes := nd_scenes d; nd_scene := nd_scene d |}.

  (* write = C06's emit_doc of the formatted document; load = C06's read_doc, then parse *)
  Definition number_doc_codec : codec ndoc xml :=
    Codec (fun d => emit_doc arr (to_tok_doc d))
          (fun x => option_map of_tok_doc (read_doc x))
          norm_doc.
End NumberLevel.
