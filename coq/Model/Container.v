(* C16 - containers: which bytes Collada.__init__ parses and how auxiliary files are found.

   Strings never enter Coq.  A path / member name is the list of its '/'-separated
   components ([str.split('/')], so never empty; "" is [c_empty]; "/a" is [c_empty; a];
   "a/" is [a; c_empty]).  A component is an atom  16*k + 4*m + e  where k identifies the
   string (k = 0,1,2 are "", ".", ".."), e classifies its last four characters
   (0: not ".dae" in any case, 1: ".dae", 2: ".DAE", 3: mixed case) and m says whether it
   contains the substring "MACOSX" (1: exactly, 2: only in another case, 0: not at all).
   Both tests of the code ([name.upper().endswith('.DAE')], ["MACOSX" in name]) look at
   substrings without '/', so they are functions of these classes.

   MODEL: select_member, dirname, join, normpath, open_container, resolve - following
   collada/__init__.py (Collada.__init__, _getFileFromZip, _getFileFromDisk,
   _wrappedFileLoader, _nullGetFile) and posixpath.
   SPEC : first_non_decoy, walk (a stack machine over directory locations), tree-shaped
   file systems (fs_tree, tree_walk).  No proofs here. *)
From Coq Require Import List Bool NArith Lia.
From PC Require Import Base.Outcome.
Import ListNotations.
Open Scope N_scope.

Definition atom := N.
Definition name := list atom.

Definition c_empty : atom := 0.    (* ""   *)
Definition c_dot : atom := 16.     (* "."  *)
Definition c_dotdot : atom := 32.  (* ".." *)

Definition ext_kind (a : atom) : N := a mod 4.
Definition mac_kind (a : atom) : N := (a / 4) mod 4.

Definition name_eqb (a b : name) : bool := if list_eq_dec N.eq_dec a b then true else false.
Definition mem (n : name) (l : list name) : bool := existsb (name_eqb n) l.

(* ------------------------------------------------------------------ member selection *)

(* name.upper().endswith('.DAE') *)
Definition is_dae (n : name) : bool := negb (ext_kind (last n c_empty) =? 0).
(* "MACOSX" in name *)
Definition has_macosx (n : name) : bool := existsb (fun a => mac_kind a =? 1) n.

(* for name in daefiles:
       if not self.filename: self.filename = name
       elif "MACOSX" in self.filename: self.filename = name           (cur = None is '') *)
Fixpoint scan (cur : option name) (l : list name) : option name :=
  match l with
  | [] => cur
  | n :: r =>
      match cur with
      | None => scan (Some n) r
      | Some c => if has_macosx c then scan (Some n) r else scan cur r
      end
  end.

Definition is_empty_name (n : name) : bool := name_eqb n [c_empty].

Definition select_member (names : list name) (zip_filename : option name) : outcome name :=
  let cand := match zip_filename with
              | Some z => Some z
              | None => scan None (filter is_dae names)
              end in
  match cand with
  | None => Raise DaeIncomplete
  | Some n => if is_empty_name n then Raise DaeIncomplete
              else if mem n names then Ok n else Raise DaeIncomplete
  end.

(* SPEC: the first member, in archive order, that has the suffix and is not a decoy *)
Definition non_decoy_dae (n : name) : bool := is_dae n && negb (has_macosx n).
Definition first_non_decoy (names : list name) : option name := find non_decoy_dae names.

(* ------------------------------------------------------------------ posixpath *)

Definition is_empty (a : atom) : bool := a =? c_empty.
Definition all_empty (l : list atom) : bool := forallb is_empty l.

Fixpoint strip_trailing_empty (l : list atom) : list atom :=
  match l with
  | [] => []
  | a :: r => match strip_trailing_empty r with
              | [] => if is_empty a then [] else [a]
              | r' => a :: r'
              end
  end.

(* posixpath.dirname: head = p[:rfind('/')+1]; rstrip('/') unless it is all slashes *)
Definition dirname (p : name) : name :=
  match removelast p with
  | [] => [c_empty]
  | i => if all_empty i then i ++ [c_empty] else strip_trailing_empty i
  end.

Definition is_abs (p : name) : bool :=
  match p with a :: _ :: _ => is_empty a | _ => false end.

(* posixpath.join(a, b) *)
Definition join (a b : name) : name :=
  if is_abs b then b
  else if is_empty (last a c_empty) then removelast a ++ b
  else a ++ b.

(* initial_slashes of posixpath.normpath: 1 for "/", 2 for exactly "//", 1 for "///..." *)
Definition nslashes (p : name) : nat :=
  match p with
  | e1 :: e2 :: e3 :: _ :: _ =>
      if is_empty e1 then (if is_empty e2 then (if is_empty e3 then 1 else 2) else 1) else 0
  | [e1; e2; _] => if is_empty e1 then (if is_empty e2 then 2 else 1) else 0
  | [e1; _] => if is_empty e1 then 1 else 0
  | _ => 0
  end%nat.

(* the loop of normpath; [acc] is new_comps reversed *)
Fixpoint norm_loop (rooted : bool) (acc : list atom) (l : list atom) : list atom :=
  match l with
  | [] => rev acc
  | c :: r =>
      if (c =? c_empty) || (c =? c_dot) then norm_loop rooted acc r
      else if negb (c =? c_dotdot) then norm_loop rooted (c :: acc) r
      else match acc with
           | [] => if rooted then norm_loop rooted [] r else norm_loop rooted [c] r
           | t :: acc' => if t =? c_dotdot then norm_loop rooted (c :: acc) r
                          else norm_loop rooted acc' r
           end
  end.

Definition normpath (p : name) : name :=
  if is_empty_name p then [c_dot]
  else
    let k := nslashes p in
    let body := norm_loop (negb (Nat.eqb k 0)) [] p in
    match k, body with
    | O, [] => [c_dot]
    | O, _ => body
    | _, [] => repeat c_empty (S k)
    | _, _ => repeat c_empty k ++ body
    end.

(* ------------------------------------------------------------------ SPEC: locations and trees *)

(* A location is the list of directory names from the root of the container (innermost
   last).  walk follows a path from a location; [stack] is the location reversed.  In a
   container that is not rooted, ".." above the root leaves the container: None. *)
Fixpoint walk_from (rooted : bool) (stack : list atom) (p : list atom) : option (list atom) :=
  match p with
  | [] => Some (rev stack)
  | c :: r =>
      if (c =? c_empty) || (c =? c_dot) then walk_from rooted stack r
      else if c =? c_dotdot then
        match stack with
        | [] => if rooted then walk_from rooted [] r else None
        | _ :: s => walk_from rooted s r
        end
      else walk_from rooted (c :: stack) r
  end.

(* a file system = the files, each at a location (directories + file name) *)
Definition fsys := list (name * N).
Fixpoint fs_find (fs : fsys) (loc : name) : option N :=
  match fs with
  | [] => None
  | (n, d) :: r => if name_eqb loc n then Some d else fs_find r loc
  end.

(* walk fs p: the file that the relative path p designates, from the root of fs *)
Definition walk (fs : fsys) (p : name) : option N :=
  match walk_from false [] p with
  | Some loc => fs_find fs loc
  | None => None
  end.
(* the same from the directory [dir] (a clean location) *)
Definition walk_in (fs : fsys) (dir : name) (p : name) : option N :=
  match walk_from false (rev dir) p with
  | Some loc => fs_find fs loc
  | None => None
  end.

(* a tree-shaped file system, in which a directory must exist to be entered *)
Inductive tree := TFile (d : N) | TDir (kids : list (atom * tree)).

Fixpoint kid (kids : list (atom * tree)) (a : atom) : option tree :=
  match kids with
  | [] => None
  | (b, t) :: r => if a =? b then Some t else kid r a
  end.

(* strict walk with the stack of ancestors (innermost first) *)
Fixpoint tree_walk (anc : list tree) (cur : tree) (p : list atom) : option tree :=
  match p with
  | [] => Some cur
  | c :: r =>
      if (c =? c_empty) || (c =? c_dot) then
        match cur with TDir _ => tree_walk anc cur r | TFile _ => None end
      else if c =? c_dotdot then
        match cur, anc with
        | TDir _, up :: anc' => tree_walk anc' up r
        | _, _ => None
        end
      else match cur with
           | TDir kids => match kid kids c with
                          | Some t => tree_walk (cur :: anc) t r
                          | None => None
                          end
           | TFile _ => None
           end
  end.

(* descend from the root along a location *)
Fixpoint tree_at (t : tree) (loc : list atom) : option tree :=
  match loc with
  | [] => Some t
  | c :: r => match t with
              | TDir kids => match kid kids c with Some t' => tree_at t' r | None => None end
              | TFile _ => None
              end
  end.

Definition clean_atom (a : atom) : bool :=
  negb ((a =? c_empty) || (a =? c_dot) || (a =? c_dotdot)).
Definition clean (p : list atom) : bool := forallb clean_atom p.

(* ------------------------------------------------------------------ opening a container *)

(* what the bytes handed to the constructor are (H_zip: zipfile.ZipFile succeeds exactly on
   archives): a plain document with data id d, or an archive with its member list in order *)
Inductive content := Plain (d : N) | Archive (members : fsys).

Inductive source_kind := FromPath (filename : name) | FromFileObj.

Inductive resolver :=
  | RZip (members : fsys) (member : name)
  | RDisk (filename : name)
  | RNull
  | RUser.

Definition open_container (k : source_kind) (c : content) (zip_filename : option name)
           (user_loader : bool) : outcome (N * resolver) :=
  let r0 := match k with FromPath f => RDisk f | FromFileObj => RNull end in
  match c with
  | Archive ms =>
      match select_member (map fst ms) zip_filename with
      | Raise e => Raise e
      | Ok n => match fs_find ms n with
                | Some d => Ok (d, if user_loader then RUser else RZip ms n)
                | None => Raise PyKeyError   (* unreachable: n is a member *)
                end
      end
  | Plain d => Ok (d, if user_loader then RUser else r0)
  end.

(* getFileData(fname): [disk] is the file system the process sees (H_fs), [user] the
   aux_file_loader (None = it returned None) *)
Definition resolve (r : resolver) (disk : fsys) (user : name -> option N) (f : name) : outcome N :=
  match r with
  | RZip ms member => of_option DaeBrokenRef (fs_find ms (normpath (join (dirname member) f)))
  | RDisk filename => of_option DaeBrokenRef (fs_find disk (normpath (join (dirname filename) f)))
  | RNull => Raise DaeBrokenRef
  | RUser => of_option DaeBrokenRef (user f)
  end.

(* ------------------------------------------------------------------ what a load depends on *)
(* The rest of Collada.__init__ (XML parsing, the _load* passes, CImage.getData later on) sees
   the selected bytes and calls getFileData; nothing else of the container reaches it.  In the
   model: the loaded document is [loader d behaviour] for an ARBITRARY function [loader], where
   the behaviour of the resolver is the function from auxiliary path to outcome. *)
Definition behaviour (r : resolver) (disk : fsys) (user : name -> option N) : name -> outcome N :=
  fun f => resolve r disk user f.

Definition load_model {model : Type} (loader : N -> (name -> outcome N) -> model)
           (k : source_kind) (c : content) (z : option name) (user : option (name -> option N))
           (disk : fsys) : outcome model :=
  let uf := match user with Some u => u | None => fun _ => None end in
  match open_container k c z (match user with Some _ => true | None => false end) with
  | Ok (d, r) => Ok (loader d (behaviour r disk uf))
  | Raise e => Raise e
  end.
