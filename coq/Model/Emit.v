(* C06 - Stage 1 class codecs.  [emit_K : K -> xml] is what the constructor followed by
   save() writes for the content K; [read_K : xml -> option K] is an independent,
   declarative reading of a COLLADA element (find children by tag, attributes by name).
   Numbers are opaque token lists (the harness tokenises the text the runtime's formatting
   produces); ids, names and urls are attribute values; identities (uid) are 0 in emitted
   trees and ignored by the comparison.  No proofs here. *)
From Coq Require Import List Bool ZArith NArith.
From PC Require Import Base.Atoms Base.Xml.
Import ListNotations.

Definition toks := list tok.
Definition ns := a_ns141.
Definition el (t : atom) (a : list (atom * aval)) (tx : option toks) (k : list xml) : xml := El 0%N ns t a tx k.

Definition opt_attr (name : atom) (v : option aval) : list (atom * aval) :=
  match v with Some x => [(name, x)] | None => [] end.

(* ------------------------------------------------------------------ float sources *)
Record source := { s_id : atom; s_data : toks; s_comps : list atom; s_count : Z; s_acount : Z }.
(* s_count = number of values, s_acount = number of rows (written by save from the array) *)


Definition emit_param (c : atom) : xml := el a_param [(a_type, AStr a_float); (a_name, AStr c)] None [].
Definition emit_source (array_of : atom -> atom) (s : source) : xml :=
  el a_source [(a_id, AStr (s_id s))] None
    [ el a_float_array [(a_count, AInt (s_count s)); (a_id, AStr (array_of (s_id s)))] (Some (s_data s)) [];
      el a_technique_common [] None
        [ el a_accessor [(a_count, AInt (s_acount s)); (a_source, ARef true (array_of (s_id s))); (a_stride, AInt (Z.of_nat (length (s_comps s))))]
             None (map emit_param (s_comps s)) ] ].

Definition get_str (v : option aval) : option atom := match v with Some (AStr a) => Some a | _ => None end.
Definition get_ref (v : option aval) : option atom := match v with Some (ARef true a) => Some a | _ => None end.
Definition get_int (v : option aval) : option Z := match v with Some (AInt z) => Some z | _ => None end.

Fixpoint omap {A B} (f : A -> option B) (l : list A) : option (list B) :=
  match l with
  | [] => Some []
  | x :: r => match f x, omap f r with Some y, Some ys => Some (y :: ys) | _, _ => None end
  end.

(* an element without text (<p/>) holds no tokens *)
Definition text_or_nil (x : xml) : toks := match xtext x with Some t => t | None => [] end.

Definition read_param (x : xml) : option atom := get_str (xattr a_name x).
Definition read_source (x : xml) : option source :=
  match get_str (xattr a_id x), find ns a_float_array x, find_path ns [a_technique_common; a_accessor] x with
  | Some id, Some arr, Some acc =>
      match get_int (xattr a_count arr), get_int (xattr a_count acc), omap read_param (findall ns a_param acc) with
      | Some n, Some rows, Some comps =>
          Some {| s_id := id; s_data := text_or_nil arr; s_comps := comps; s_count := n; s_acount := rows |}
      | _, _, _ => None
      end
  | _, _, _ => None
  end.

(* ------------------------------------------------------------------ primitives *)
Record input := { i_off : Z; i_sem : atom; i_src : atom; i_set : option aval }.
Inductive pkind := KTriangles | KPolylist | KPolygons | KLines.
Record prim := { p_kind : pkind; p_material : option aval; p_count : Z; p_inputs : list input;
                 p_vcount : option toks; p_ps : list toks }.

Definition kind_tag (k : pkind) : atom :=
  match k with KTriangles => a_triangles | KPolylist => a_polylist | KPolygons => a_polygons | KLines => a_lines end.
Definition tag_kind (t : atom) : option pkind :=
  if N.eqb t a_triangles then Some KTriangles else if N.eqb t a_polylist then Some KPolylist
  else if N.eqb t a_polygons then Some KPolygons else if N.eqb t a_lines then Some KLines else None.

Definition emit_input (i : input) : xml :=
  el a_input ([(a_offset, AInt (i_off i)); (a_semantic, AStr (i_sem i)); (a_source, ARef true (i_src i))]
              ++ opt_attr a_set (i_set i)) None [].
Definition emit_p (t : toks) : xml := el a_p [] (Some t) [].
Definition emit_prim (p : prim) : xml :=
  el (kind_tag (p_kind p)) ((a_count, AInt (p_count p)) :: opt_attr a_material (p_material p)) None
     (map emit_input (p_inputs p)
      ++ match p_vcount p with Some v => [el a_vcount [] (Some v) []] | None => [] end
      ++ map emit_p (p_ps p)).

Definition read_input (x : xml) : option input :=
  match get_int (xattr a_offset x), get_str (xattr a_semantic x), get_ref (xattr a_source x) with
  | Some o, Some s, Some r => Some {| i_off := o; i_sem := s; i_src := r; i_set := xattr a_set x |}
  | _, _, _ => None
  end.
Definition read_prim (x : xml) : option prim :=
  match tag_kind (xtag x), get_int (xattr a_count x), omap read_input (findall ns a_input x) with
  | Some k, Some n, Some ins =>
      Some {| p_kind := k; p_material := xattr a_material x; p_count := n; p_inputs := ins;
              p_vcount := match find ns a_vcount x with Some v => Some (text_or_nil v) | None => None end;
              p_ps := map text_or_nil (findall ns a_p x) |}
  | _, _, _ => None
  end.

(* ------------------------------------------------------------------ geometry *)
(* g_vid: id of <vertices>; g_vref: the source its POSITION input names.  The primitives of
   the MODEL name sources directly; Geometry.save rewrites, in the XML, every VERTEX input
   that names g_vref so that it names g_vid. *)
Record geometry := { g_id : aval; g_name : option aval; g_sources : list source; g_vid : atom; g_vref : atom;
                     g_prims : list prim; g_double_sided : bool }.

Definition redirect (vid vref : atom) (i : input) : input :=
  if N.eqb (i_sem i) a_VERTEX && N.eqb (i_src i) vref
  then {| i_off := i_off i; i_sem := i_sem i; i_src := vid; i_set := i_set i |} else i.
Definition redirect_prim (vid vref : atom) (p : prim) : prim :=
  {| p_kind := p_kind p; p_material := p_material p; p_count := p_count p;
     p_inputs := map (redirect vid vref) (p_inputs p); p_vcount := p_vcount p; p_ps := p_ps p |}.

(* reading through the indirection: a VERTEX input naming <vertices> names its POSITION source *)
Definition deref (vid vref : atom) (i : input) : input :=
  if N.eqb (i_sem i) a_VERTEX && N.eqb (i_src i) vid
  then {| i_off := i_off i; i_sem := i_sem i; i_src := vref; i_set := i_set i |} else i.
Definition deref_prim (vid vref : atom) (p : prim) : prim :=
  {| p_kind := p_kind p; p_material := p_material p; p_count := p_count p;
     p_inputs := map (deref vid vref) (p_inputs p); p_vcount := p_vcount p; p_ps := p_ps p |}.

Definition emit_double_sided : list xml :=
  [ el a_extra [] None [ el a_technique [(a_profile, AStr a_GOOGLEEARTH)] None
                           [ el a_double_sided [] (Some [TInt 1]) [] ] ] ].

Definition emit_geometry (array_of : atom -> atom) (g : geometry) : xml :=
  el a_geometry ((a_id, g_id g) :: opt_attr a_name (g_name g)) None
    ( el a_mesh [] None
        (map (emit_source array_of) (g_sources g)
         ++ [ el a_vertices [(a_id, AStr (g_vid g))] None
                [ el a_input [(a_semantic, AStr a_POSITION); (a_source, ARef true (g_vref g))] None [] ] ]
         ++ map (fun p => emit_prim (redirect_prim (g_vid g) (g_vref g) p)) (g_prims g))
      :: (if g_double_sided g then emit_double_sided else []) ).

Definition is_prim (x : xml) : bool :=
  N.eqb (xns x) ns && match tag_kind (xtag x) with Some _ => true | None => false end.

Definition read_double_sided (x : xml) : bool :=
  match find_path ns [a_extra; a_technique; a_double_sided] x with
  | Some d => match xtext d with Some [TInt 1] => true | _ => false end
  | None => false
  end.

Definition read_geometry (x : xml) : option geometry :=
  match xattr a_id x, find ns a_mesh x with
  | Some id, Some mesh =>
      match find ns a_vertices mesh with
      | Some v =>
          match get_str (xattr a_id v),
                List.find (fun i => match xattr a_semantic i with Some (AStr s) => N.eqb s a_POSITION | _ => false end) (findall ns a_input v) with
          | Some vid, Some pin =>
              match get_ref (xattr a_source pin), omap read_source (findall ns a_source mesh),
                    omap read_prim (filter is_prim (xkids mesh)) with
              | Some vref, Some srcs, Some prims =>
                  Some {| g_id := id; g_name := xattr a_name x; g_sources := srcs; g_vid := vid; g_vref := vref;
                          g_prims := map (deref_prim vid vref) prims; g_double_sided := read_double_sided x |}
              | _, _, _ => None
              end
          | _, _ => None
          end
      | None => None
      end
  | _, _ => None
  end.

(* ------------------------------------------------------------------ transforms, nodes *)
Inductive tkind := TTranslate | TRotate | TScale | TMatrix | TLookat.
Definition tkind_tag (k : tkind) : atom :=
  match k with TTranslate => a_translate | TRotate => a_rotate | TScale => a_scale | TMatrix => a_matrix | TLookat => a_lookat end.
Definition tag_tkind (t : atom) : option tkind :=
  if N.eqb t a_translate then Some TTranslate else if N.eqb t a_rotate then Some TRotate
  else if N.eqb t a_scale then Some TScale else if N.eqb t a_matrix then Some TMatrix
  else if N.eqb t a_lookat then Some TLookat else None.
Record transform := { t_kind : tkind; t_text : toks }.
Definition emit_transform (t : transform) : xml := el (tkind_tag (t_kind t)) [] (Some (t_text t)) [].
Definition read_transform (x : xml) : option transform :=
  match tag_tkind (xtag x), xtext x with
  | Some k, Some tx => Some {| t_kind := k; t_text := tx |}
  | _, _ => None
  end.

Record bvi := { b_sem : aval; b_isem : aval; b_iset : option aval }.
Record imat := { im_symbol : aval; im_target : atom; im_inputs : list bvi }.
Definition emit_bvi (b : bvi) : xml :=
  el a_bind_vertex_input ([(a_semantic, b_sem b); (a_input_semantic, b_isem b)] ++ opt_attr a_input_set (b_iset b)) None [].
Definition emit_imat (m : imat) : xml :=
  el a_instance_material [(a_symbol, im_symbol m); (a_target, ARef true (im_target m))] None (map emit_bvi (im_inputs m)).
Definition read_bvi (x : xml) : option bvi :=
  match xattr a_semantic x, xattr a_input_semantic x with
  | Some s, Some i => Some {| b_sem := s; b_isem := i; b_iset := xattr a_input_set x |}
  | _, _ => None
  end.
Definition read_imat (x : xml) : option imat :=
  match xattr a_symbol x, get_ref (xattr a_target x), omap read_bvi (findall ns a_bind_vertex_input x) with
  | Some s, Some t, Some ins => Some {| im_symbol := s; im_target := t; im_inputs := ins |}
  | _, _, _ => None
  end.

Inductive ikind := IGeometry | IController | ILight | ICamera | INode.
Definition ikind_tag (k : ikind) : atom :=
  match k with IGeometry => a_instance_geometry | IController => a_instance_controller | ILight => a_instance_light
             | ICamera => a_instance_camera | INode => a_instance_node end.
Definition tag_ikind (t : atom) : option ikind :=
  if N.eqb t a_instance_geometry then Some IGeometry else if N.eqb t a_instance_controller then Some IController
  else if N.eqb t a_instance_light then Some ILight else if N.eqb t a_instance_camera then Some ICamera
  else if N.eqb t a_instance_node then Some INode else None.

(* a scene-graph child: a nested node or one of the five instances (material bindings only
   under geometry and controller instances) *)
Inductive node :=
  | Node (id name : option aval) (transforms : list transform) (children : list node)
  | Inst (k : ikind) (url : atom) (mats : list imat).

Definition emit_bind_material (mats : list imat) : list xml :=
  match mats with
  | [] => []
  | _ => [ el a_bind_material [] None [ el a_technique_common [] None (map emit_imat mats) ] ]
  end.

Fixpoint emit_node (n : node) : xml :=
  match n with
  | Node id name ts cs =>
      el a_node (opt_attr a_id id ++ opt_attr a_name name) None (map emit_transform ts ++ map emit_node cs)
  | Inst k url mats => el (ikind_tag k) [(a_url, ARef true url)] None (emit_bind_material mats)
  end.

Definition read_mats (x : xml) : option (list imat) :=
  match find_path ns [a_bind_material; a_technique_common] x with
  | Some tc => omap read_imat (findall ns a_instance_material tc)
  | None => Some []
  end.

Definition is_transform (x : xml) : bool :=
  N.eqb (xns x) ns && match tag_tkind (xtag x) with Some _ => true | None => false end.
Definition is_child (x : xml) : bool :=
  N.eqb (xns x) ns && (N.eqb (xtag x) a_node || match tag_ikind (xtag x) with Some _ => true | None => false end).

Fixpoint read_node (x : xml) : option node :=
  let 'El _ _ t _ _ kids := x in
  if N.eqb t a_node then
    match omap read_transform (filter is_transform kids),
          (fix go (l : list xml) : option (list node) :=
             match l with
             | [] => Some []
             | c :: r => if is_child c
                         then match read_node c, go r with Some n, Some ns' => Some (n :: ns') | _, _ => None end
                         else go r
             end) kids with
    | Some ts, Some cs => Some (Node (xattr a_id x) (xattr a_name x) ts cs)
    | _, _ => None
    end
  else
    match tag_ikind t, get_ref (xattr a_url x), read_mats x with
    | Some k, Some u, Some ms => Some (Inst k u ms)
    | _, _, _ => None
    end.

Record vscene := { sc_id : aval; sc_nodes : list node }.
Definition emit_scene (s : vscene) : xml := el a_visual_scene [(a_id, sc_id s)] None (map emit_node (sc_nodes s)).
Definition read_scene (x : xml) : option vscene :=
  match xattr a_id x, omap read_node (findall ns a_node x) with
  | Some id, Some ns' => Some {| sc_id := id; sc_nodes := ns' |}
  | _, _ => None
  end.

(* ------------------------------------------------------------------ lights, cameras, materials *)
Inductive lkind := LDirectional | LAmbient | LPoint | LSpot.
Definition lkind_tag (k : lkind) : atom :=
  match k with LDirectional => a_directional | LAmbient => a_ambient | LPoint => a_point | LSpot => a_spot end.
(* optional parameters in the order the constructor writes them *)
Definition light_params : list atom :=
  [a_constant_attenuation; a_linear_attenuation; a_quadratic_attenuation; a_zfar; a_falloff_angle; a_falloff_exponent].
Record light := { l_id : aval; l_kind : lkind; l_color : toks; l_params : list (atom * toks) }.

Definition emit_val (p : atom * toks) : xml := el (fst p) [] (Some (snd p)) [].
Definition emit_light (l : light) : xml :=
  el a_light [(a_id, l_id l); (a_name, l_id l)] None
    [ el a_technique_common [] None
        [ el (lkind_tag (l_kind l)) [] None (el a_color [] (Some (l_color l)) [] :: map emit_val (l_params l)) ] ].

Definition read_vals (names : list atom) (x : xml) : list (atom * toks) :=
  flat_map (fun n => match find ns n x with
                     | Some c => match xtext c with Some t => [(n, t)] | None => [] end
                     | None => [] end) names.
Definition read_light (x : xml) : option light :=
  match xattr a_id x, find ns a_technique_common x with
  | Some id, Some tc =>
      match xkids tc with
      | body :: _ =>
          let k := if N.eqb (xtag body) a_directional then Some LDirectional else if N.eqb (xtag body) a_ambient then Some LAmbient
                   else if N.eqb (xtag body) a_point then Some LPoint else if N.eqb (xtag body) a_spot then Some LSpot else None in
          match k, find ns a_color body with
          | Some k, Some c => match xtext c with
                              | Some col => Some {| l_id := id; l_kind := k; l_color := col; l_params := read_vals light_params body |}
                              | None => None end
          | _, _ => None
          end
      | [] => None
      end
  | _, _ => None
  end.

Inductive ckind := CPerspective | COrthographic.
Definition ckind_tag (k : ckind) : atom := match k with CPerspective => a_perspective | COrthographic => a_orthographic end.
Definition camera_params : list atom := [a_xfov; a_yfov; a_xmag; a_ymag; a_aspect_ratio; a_znear; a_zfar].
Record camera := { c_id : aval; c_kind : ckind; c_params : list (atom * toks) }.
Definition emit_camera (c : camera) : xml :=
  el a_camera [(a_id, c_id c); (a_name, c_id c)] None
    [ el a_optics [] None [ el a_technique_common [] None [ el (ckind_tag (c_kind c)) [] None (map emit_val (c_params c)) ] ] ].
Definition read_camera (x : xml) : option camera :=
  match xattr a_id x, find_path ns [a_optics; a_technique_common] x with
  | Some id, Some tc =>
      match xkids tc with
      | body :: _ =>
          let k := if N.eqb (xtag body) a_perspective then Some CPerspective
                   else if N.eqb (xtag body) a_orthographic then Some COrthographic else None in
          match k with
          | Some k => Some {| c_id := id; c_kind := k; c_params := read_vals camera_params body |}
          | None => None
          end
      | [] => None
      end
  | _, _ => None
  end.

Record material := { m_id : aval; m_name : aval; m_effect : atom }.
Definition emit_material (m : material) : xml :=
  el a_material [(a_id, m_id m); (a_name, m_name m)] None [ el a_instance_effect [(a_url, ARef true (m_effect m))] None [] ].
Definition read_material (x : xml) : option material :=
  match xattr a_id x, xattr a_name x, find ns a_instance_effect x with
  | Some id, Some nm, Some ie => match get_ref (xattr a_url ie) with
                                 | Some u => Some {| m_id := id; m_name := nm; m_effect := u |}
                                 | None => None end
  | _, _, _ => None
  end.

(* ------------------------------------------------------------------ the document *)
(* effects and images: Stage 2 - only their ids (library membership and order) are modelled *)
Record doc := { d_geometries : list geometry; d_lights : list light; d_cameras : list camera;
                d_images : list aval; d_effects : list aval; d_materials : list material;
                d_nodes : list node; d_scenes : list vscene; d_scene : option atom }.

Definition emit_lib (name : atom) (kids : list xml) : list xml :=
  match kids with [] => [] | _ => [el name [] None kids] end.
Definition emit_idonly (t : atom) (id : aval) : xml := el t [(a_id, id)] None [].

(* the managed part of the document, in the order Collada.save visits the libraries *)
Definition emit_doc (array_of : atom -> atom) (d : doc) : xml :=
  el a_COLLADA [(a_version, AStr 0%N)] None
    ( emit_lib a_library_geometries (map (emit_geometry array_of) (d_geometries d))
   ++ emit_lib a_library_lights (map emit_light (d_lights d))
   ++ emit_lib a_library_cameras (map emit_camera (d_cameras d))
   ++ emit_lib a_library_images (map (emit_idonly a_image) (d_images d))
   ++ emit_lib a_library_effects (map (emit_idonly a_effect) (d_effects d))
   ++ emit_lib a_library_materials (map emit_material (d_materials d))
   ++ emit_lib a_library_nodes (map emit_node (d_nodes d))
   ++ emit_lib a_library_visual_scenes (map emit_scene (d_scenes d))
   ++ [ el a_scene [] None (match d_scene d with
                            | Some u => [el a_instance_visual_scene [(a_url, ARef true u)] None []]
                            | None => [] end) ] ).

(* every child of every library element of that name, in document order *)
Definition lib_kids (name : atom) (x : xml) : list xml := flat_map xkids (findall ns name x).

Definition read_doc (x : xml) : option doc :=
  match omap read_geometry (lib_kids a_library_geometries x),
        omap read_light (lib_kids a_library_lights x),
        omap read_camera (lib_kids a_library_cameras x),
        omap (xattr a_id) (lib_kids a_library_images x),
        omap (xattr a_id) (lib_kids a_library_effects x),
        omap read_material (lib_kids a_library_materials x),
        omap read_node (lib_kids a_library_nodes x),
        omap read_scene (lib_kids a_library_visual_scenes x) with
  | Some gs, Some ls, Some cs, Some is', Some es, Some ms, Some ns', Some ss =>
      Some {| d_geometries := gs; d_lights := ls; d_cameras := cs; d_images := is'; d_effects := es;
              d_materials := ms; d_nodes := ns'; d_scenes := ss;
              d_scene := match find_path ns [a_scene; a_instance_visual_scene] x with
                         | Some i => get_ref (xattr a_url i) | None => None end |}
  | _, _, _, _, _, _, _, _ => None
  end.

(* ------------------------------------------------------------------ references and renames *)
(* In the MODEL an instance holds the referenced OBJECT (its identity); the url written by save
   is "#" ++ the id that object has at that moment. *)
Inductive mnode :=
  | MNode (id name : option aval) (transforms : list transform) (children : list mnode)
  | MInst (k : ikind) (target : N) (mats : list (aval * N * list bvi)).

Fixpoint resolve (ids : N -> atom) (n : mnode) : node :=
  match n with
  | MNode id name ts cs => Node id name ts (map (resolve ids) cs)
  | MInst k u mats => Inst k (ids u) (map (fun m => let '(s, t, ins) := m in {| im_symbol := s; im_target := ids t; im_inputs := ins |}) mats)
  end.

Definition rename_id (ids : N -> atom) (u : N) (new_id : atom) : N -> atom :=
  fun v => if N.eqb v u then new_id else ids v.

(* every url / target in an emitted scene-graph element *)
Fixpoint node_refs (n : node) : list atom :=
  match n with
  | Node _ _ _ cs => flat_map node_refs cs
  | Inst _ u mats => u :: map im_target mats
  end.
Fixpoint mnode_targets (n : mnode) : list N :=
  match n with
  | MNode _ _ _ cs => flat_map mnode_targets cs
  | MInst _ u mats => u :: map (fun m => snd (fst m)) mats
  end.

(* ------------------------------------------------------------------ optional value children *)
(* collada.util._correctValInNode(outernode, tagname, value, after): the first child <tagname>
   is removed when value is None, gets the text str(value) when it exists, and is created
   otherwise - behind the last sibling named in `after` (at the front if there is none), or at
   the end when `after` is not given. *)
Fixpoint remove_first_tag (t : atom) (kids : list xml) : list xml :=
  match kids with
  | [] => []
  | c :: r => if is_tag ns t c then r else c :: remove_first_tag t r
  end.
Definition set_text (v : toks) (x : xml) : xml := let 'El u n t a _ k := x in El u n t a (Some v) k.
Fixpoint set_first_text (t : atom) (v : toks) (kids : list xml) : list xml :=
  match kids with
  | [] => []
  | c :: r => if is_tag ns t c then set_text v c :: r else c :: set_first_text t v r
  end.
Definition in_tags (after : list atom) (c : xml) : bool := N.eqb (xns c) ns && existsb (N.eqb (xtag c)) after.
(* loc = i + 1 for the last child i whose tag is in `after`, 0 if there is none *)
Fixpoint insert_loc_from (i loc : nat) (after : list atom) (kids : list xml) : nat :=
  match kids with
  | [] => loc
  | c :: r => insert_loc_from (S i) (if in_tags after c then S i else loc) after r
  end.
Definition insert_loc (after : list atom) (kids : list xml) : nat := insert_loc_from 0 0 after kids.

Definition correct_val (t : atom) (value : option toks) (after : option (list atom)) (kids : list xml) : list xml :=
  match List.find (is_tag ns t) kids, value with
  | Some _, None => remove_first_tag t kids
  | Some _, Some v => set_first_text t v kids
  | None, Some v =>
      let new := el t [] (Some v) [] in
      match after with
      | None => kids ++ [new]
      | Some a => let loc := insert_loc a kids in firstn loc kids ++ new :: skipn loc kids
      end
  | None, None => kids
  end.

(* what an independent reader finds for the optional child *)
Definition read_opt (t : atom) (kids : list xml) : option toks :=
  match List.find (is_tag ns t) kids with Some c => Some (text_or_nil c) | None => None end.
