(* MODEL of collada.polylist.Polylist.triangleset, Polygon.triangles, Polylist.__getitem__'s
   row ranges and of the vcounts that collada.polygons.Polygons derives from its <p> elements
   (the code as it stands in /repo), and the declarative SPEC of C11 for triangulation.

   [triangleset] follows the numpy statements one by one:
       indexselector = numpy.zeros(nvertices) == 0
       vcounts = numpy.asarray(self.vcounts)
       indexselector[self.polyends[vcounts >= g] - d] = False      (integer-array assignment, negative
                                  for every (g, d) of Gen.Triangulate.tri_clears     indices wrap)
       indexselector = numpy.arange(nvertices)[indexselector]
       firstpolyindex = numpy.arange(nvertices) - numpy.repeat(polyends - vcounts, vcounts)
       firstpolyindex = firstpolyindex[indexselector]
       triindex = dstack((index[e0], index[e1], index[e2]))   (only if len(index) > 0; the three index
                                  expressions are Gen.Triangulate.tri_gathers)
   nvertices is sum(vcounts), or 0 when the index is empty.  The model is meant for
   sum(vcounts) = number of index rows (anything else is the subject of C09). *)
From Coq Require Import List Bool ZArith Arith.
From PC Require Import Base.Outcome Base.Py Base.PySlice Base.NpProg Gen.Triangulate Model.Strips.
Import ListNotations.
Local Open Scope nat_scope.

Fixpoint cumsum_from (s : nat) (l : list nat) : list nat :=
  match l with
  | [] => []
  | c :: r => (s + c) :: cumsum_from (s + c) r
  end.
Definition cumsum := cumsum_from 0.                       (* numpy.cumsum(vcounts) = polyends *)

Fixpoint zipwith {A B C} (f : A -> B -> C) (x : list A) (y : list B) : list C :=
  match x, y with
  | a :: x', b :: y' => f a b :: zipwith f x' y'
  | _, _ => []
  end.

Definition total (l : list nat) : nat := fold_right Nat.add 0 l.

(* positions addressed by one clearing assignment *)
Definition clear_idx (ends vcounts : list nat) (cl : clear_spec) : list Z :=
  map (fun e => (Z.of_nat e - snd cl)%Z) (np_compress (map (fun c => fst cl <=? c) vcounts) ends).

Fixpoint apply_clears (mask : list bool) (ends vcounts : list nat) (cls : list clear_spec)
  : outcome (list bool) :=
  match cls with
  | [] => Ok mask
  | cl :: r => obind (np_put mask (clear_idx ends vcounts cl) false) (fun m => apply_clears m ends vcounts r)
  end.

(* the two integer arrays computed before the index is touched: the selected positions
   (indexselector) and their offsets inside their polygon (firstpolyindex[indexselector]) *)
Definition selectors (nv : nat) (vcounts : list nat) : outcome (list Z * list Z) :=
  let ends := cumsum vcounts in
  let starts := zipwith Nat.sub ends vcounts in
  let sel0 := repeat true nv in
  obind (apply_clears sel0 ends vcounts tri_clears) (fun sel2 =>
  obind (np_mask (seq 0 nv) sel2) (fun selected =>
  let rep := np_repeat_each starts vcounts in
  if negb (Nat.eqb (length rep) nv) then Raise PyValueError else
  let first := zipwith (fun j s => (Z.of_nat j - Z.of_nat s)%Z) (seq 0 nv) rep in
  let sel := map Z.of_nat selected in
  obind (np_take first sel) (fun fp => Ok (sel, fp)))).

(* value of a gather's index expression *)
Definition gidx (g : gexpr) (sel fp : list Z) : list Z :=
  match g with
  | GSelMinusFirst => zipwith Z.sub sel fp
  | GSelPlus k => map (fun j => (j + k)%Z) sel
  end.

(* the three gathers and numpy.dstack / swapaxes: triangle i = (index[e0_i], index[e1_i], index[e2_i]) *)
Definition gather3 {A} (rows : list A) (sel fp : list Z) : outcome (list (tri A)) :=
  match rows with
  | [] => Ok []
  | _ => obind (np_take rows (gidx (fst (fst tri_gathers)) sel fp)) (fun a =>
         obind (np_take rows (gidx (snd (fst tri_gathers)) sel fp)) (fun b =>
         obind (np_take rows (gidx (snd tri_gathers) sel fp)) (fun c =>
         stack3 a b c)))
  end.

Definition triangleset {A} (vcounts : list nat) (rows : list A) : outcome (list (tri A)) :=
  let nv := match rows with [] => 0 | _ => total vcounts end in
  obind (selectors nv vcounts) (fun sf => gather3 rows (fst sf) (snd sf)).

(* Polylist.__getitem__(i): the rows polystarts[i] .. polyends[i] *)
Definition polygon_rows {A} (vcounts : list nat) (rows : list A) : list (list A) :=
  map (fun se => firstn (snd se - fst se) (skipn (fst se) rows))
      (combine (zipwith Nat.sub (cumsum vcounts) vcounts) (cumsum vcounts)).

(* Polygon.triangles(): for i in range(npts - K): (col[e0], col[e1], col[e2]) for each of the polygon's
   arrays col (indices, vertices, normals, normal_indices, each texcoord and texcoord_indices array), the
   subscripts being those of Gen.Triangulate; a subscript is an ordinary numpy integer subscript *)
Definition ieval (e : iexpr) (i : Z) : Z :=
  match e with IConst z => z | ILoop k => (i + k)%Z end.

Definition py_index {A} (l : list A) (z : Z) : outcome A :=
  match norm_index (length l) z with
  | Some k => of_option PyIndexError (nth_error l k)
  | None => Raise PyIndexError
  end.

Definition poly_col {A} (cs : corners) (col : list A) : outcome (list (tri A)) :=
  omapM (fun i => obind (py_index col (ieval (fst (fst cs)) i)) (fun a =>
                  obind (py_index col (ieval (snd (fst cs)) i)) (fun b =>
                  obind (py_index col (ieval (snd cs) i)) (fun c => Ok (a, b, c)))))
        (map Z.of_nat (seq 0 (Z.to_nat (Z.of_nat (length col) - poly_range_sub)))).

(* on whole rows (all arrays use the same subscripts: theorem C11_polygon_arrays_same_corners) *)
Definition poly_triangles {A} (poly : list A) : outcome (list (tri A)) := poly_col poly_indices poly.

(* ---- the bound path: BoundTriangleSet copies the index attributes of the unbound set as listed in
   Gen.Triangulate.bound_copies; BoundPolylist.triangleset() is original.triangleset().bind(...) *)
Definition bound_attr {V} (unbound : tsfield -> V) (f : tsfield) : option V :=
  match find (fun c => tsfield_eqb (fst c) f) bound_copies with
  | Some c => Some (unbound (snd c))
  | None => None
  end.

(* the index rows of the bound triangulation of a polylist *)
Definition bound_triangleset {A} (vcounts : list nat) (rows : list A) : outcome (option (list (tri A))) :=
  omap (fun ts => bound_attr (fun f => match f with FIndex => ts | _ => [] end) FIndex)
       (triangleset vcounts rows).

(* Polygons.__init__: vcounts[i] = len(p_i) / (max_offset + 1); index = concatenate(p_i),
   reshaped by the Polylist constructor *)
Definition polygons_vcounts {A} (k : nat) (ps : list (list A)) : list nat :=
  map (fun p => length p / k) ps.
Definition polygons_rows {A} (k : nat) (ps : list (list A)) : outcome (list (list A)) :=
  reshape k (concat ps).

(* ------------------------------------------------------------------ SPEC *)

(* the polygons of a polylist: consecutive runs of the given lengths *)
Fixpoint split_by {A} (vc : list nat) (rows : list A) : list (list A) :=
  match vc with
  | [] => []
  | c :: r => firstn c rows :: split_by r (skipn c rows)
  end.

Fixpoint pairs {A} (l : list A) : list (A * A) :=
  match l with
  | a :: t => match t with b :: _ => (a, b) :: pairs t | [] => [] end
  | [] => []
  end.

(* fan around the polygon's first corner, keeping the polygon's orientation *)
Definition fan_of {A} (poly : list A) : list (tri A) :=
  match poly with
  | [] => []
  | c :: rest => map (fun ab => (c, fst ab, snd ab)) (pairs rest)
  end.

Definition tri_spec {A} (vc : list nat) (rows : list A) : list (tri A) :=
  concat (map fan_of (split_by vc rows)).

(* on labels: polygon starting at s with c corners gives (s, s+i+1, s+i+2), i < c-2 *)
Fixpoint tri_labels_from (s : nat) (vc : list nat) : list (tri nat) :=
  match vc with
  | [] => []
  | c :: r => map (fun i => (s, s + i + 1, s + i + 2)) (seq 0 (c - 2)) ++ tri_labels_from (s + c) r
  end.
Definition tri_labels := tri_labels_from 0.

Definition tri_count (vc : list nat) : nat := total (map (fun c => c - 2) vc).
