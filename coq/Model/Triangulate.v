(* MODEL of collada.polylist.Polylist.triangleset, Polygon.triangles, Polylist.__getitem__'s
   row ranges and of the vcounts that collada.polygons.Polygons derives from its <p> elements
   (the code as it stands in /repo), and the declarative SPEC of C11 for triangulation.

   [triangleset] follows the numpy statements one by one:
       indexselector = numpy.zeros(nvertices) == 0
       vcounts = numpy.asarray(self.vcounts)
       indexselector[self.polyends[vcounts >= 1] - 1] = False      (integer-array assignment,
       indexselector[self.polyends[vcounts >= 2] - 2] = False       negative indices wrap)
       indexselector = numpy.arange(nvertices)[indexselector]
       firstpolyindex = numpy.arange(nvertices) - numpy.repeat(polyends - vcounts, vcounts)
       firstpolyindex = firstpolyindex[indexselector]
       triindex = dstack((index[indexselector - firstpolyindex], index[indexselector + 1],
                          index[indexselector + 2]))          (only if len(index) > 0)
   nvertices is sum(vcounts), or 0 when the index is empty.  The model is meant for
   sum(vcounts) = number of index rows (anything else is the subject of C09). *)
From Coq Require Import List Bool ZArith Arith.
From PC Require Import Base.Outcome Base.Py Base.PySlice Model.Strips.
Import ListNotations.
Local Open Scope nat_scope.

Fixpoint cumsum_from (s : nat) (l : list nat) : list nat :=
  match l with
  | [] => []
  | c :: r => (s + c) :: cumsum_from (s + c) r
  end.
Definition cumsum := cumsum_from 0.                       (* numpy.cumsum(vcounts) = polyends *)

Fixpoint zipwith {A B C} (f : A -> B -> C) (x : list A) (y : list B) : list C :=
  match x, y with
  | a :: x', b :: y' => f a b :: zipwith f x' y'
  | _, _ => []
  end.

Definition total (l : list nat) : nat := fold_right Nat.add 0 l.

(* the two integer arrays computed before the index is touched: the selected positions
   (indexselector) and their offsets inside their polygon (firstpolyindex[indexselector]) *)
Definition selectors (nv : nat) (vcounts : list nat) : outcome (list Z * list Z) :=
  let ends := cumsum vcounts in
  let starts := zipwith Nat.sub ends vcounts in
  let sel0 := repeat true nv in
  let last1 := map (fun e => (Z.of_nat e - 1)%Z) (np_compress (map (fun c => 1 <=? c) vcounts) ends) in
  let last2 := map (fun e => (Z.of_nat e - 2)%Z) (np_compress (map (fun c => 2 <=? c) vcounts) ends) in
  obind (np_put sel0 last1 false) (fun sel1 =>
  obind (np_put sel1 last2 false) (fun sel2 =>
  obind (np_mask (seq 0 nv) sel2) (fun selected =>
  let rep := np_repeat_each starts vcounts in
  if negb (Nat.eqb (length rep) nv) then Raise PyValueError else
  let first := zipwith (fun j s => (Z.of_nat j - Z.of_nat s)%Z) (seq 0 nv) rep in
  let sel := map Z.of_nat selected in
  obind (np_take first sel) (fun fp => Ok (sel, fp))))).

(* the three gathers and numpy.dstack / swapaxes: triangle i = (index[sel_i - fp_i], index[sel_i + 1],
   index[sel_i + 2]) *)
Definition gather3 {A} (rows : list A) (sel fp : list Z) : outcome (list (tri A)) :=
  match rows with
  | [] => Ok []
  | _ => obind (np_take rows (zipwith Z.sub sel fp)) (fun a =>
         obind (np_take rows (map (fun j => (j + 1)%Z) sel)) (fun b =>
         obind (np_take rows (map (fun j => (j + 2)%Z) sel)) (fun c =>
         stack3 a b c)))
  end.

Definition triangleset {A} (vcounts : list nat) (rows : list A) : outcome (list (tri A)) :=
  let nv := match rows with [] => 0 | _ => total vcounts end in
  obind (selectors nv vcounts) (fun sf => gather3 rows (fst sf) (snd sf)).

(* Polylist.__getitem__(i): the rows polystarts[i] .. polyends[i] *)
Definition polygon_rows {A} (vcounts : list nat) (rows : list A) : list (list A) :=
  map (fun se => firstn (snd se - fst se) (skipn (fst se) rows))
      (combine (zipwith Nat.sub (cumsum vcounts) vcounts) (cumsum vcounts)).

(* Polygon.triangles(): for i in range(npts - 2): (p[0], p[i+1], p[i+2]) *)
Definition poly_triangles {A} (poly : list A) : list (tri A) :=
  flat_map (fun i => match nth_error poly 0, nth_error poly (i + 1), nth_error poly (i + 2) with
                     | Some a, Some b, Some c => [(a, b, c)]
                     | _, _, _ => []
                     end) (seq 0 (length poly - 2)).

(* Polygons.__init__: vcounts[i] = len(p_i) / (max_offset + 1); index = concatenate(p_i),
   reshaped by the Polylist constructor *)
Definition polygons_vcounts {A} (k : nat) (ps : list (list A)) : list nat :=
  map (fun p => length p / k) ps.
Definition polygons_rows {A} (k : nat) (ps : list (list A)) : outcome (list (list A)) :=
  reshape k (concat ps).

(* ------------------------------------------------------------------ SPEC *)

(* the polygons of a polylist: consecutive runs of the given lengths *)
Fixpoint split_by {A} (vc : list nat) (rows : list A) : list (list A) :=
  match vc with
  | [] => []
  | c :: r => firstn c rows :: split_by r (skipn c rows)
  end.

Fixpoint pairs {A} (l : list A) : list (A * A) :=
  match l with
  | a :: t => match t with b :: _ => (a, b) :: pairs t | [] => [] end
  | [] => []
  end.

(* fan around the polygon's first corner, keeping the polygon's orientation *)
Definition fan_of {A} (poly : list A) : list (tri A) :=
  match poly with
  | [] => []
  | c :: rest => map (fun ab => (c, fst ab, snd ab)) (pairs rest)
  end.

Definition tri_spec {A} (vc : list nat) (rows : list A) : list (tri A) :=
  concat (map fan_of (split_by vc rows)).

(* on labels: polygon starting at s with c corners gives (s, s+i+1, s+i+2), i < c-2 *)
Fixpoint tri_labels_from (s : nat) (vc : list nat) : list (tri nat) :=
  match vc with
  | [] => []
  | c :: r => map (fun i => (s, s + i + 1, s + i + 2)) (seq 0 (c - 2)) ++ tri_labels_from (s + c) r
  end.
Definition tri_labels := tri_labels_from 0.

Definition tri_count (vc : list nat) : nat := total (map (fun c => c - 2) vc).
