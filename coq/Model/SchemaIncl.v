(* C04 - [included G S]: a decision procedure that every document conforming to the emit grammar
   G is accepted by the schema S (sound by Proofs/SchemaIncl.v, for any G and S).

   An (untrusted) traversal [infer_map] guesses, for every rule, the schema type its elements
   are assessed against (None = not declared: lax).  The decision itself is local to each rule:
   attribute uses and text type are included syntactically, and the item sequence is simulated
   on the derivative automaton of the type's content model: an item with several alternatives
   must be possible for each of them, a repeated item requires every state of the (finite,
   explicitly closed) orbit to accept the rest.  No proofs here. *)
From Coq Require Import List Bool ZArith NArith.
From PC Require Import Base.Atoms Base.Xml Model.SchemaSyntax Model.Schema Model.EmitGrammar.
Import ListNotations.

(* ---------------------------------------------------------------- syntactic inclusion of simple types *)

Fixpoint stype_eqb (a b : stype) : bool :=
  match a, b with
  | SAnyString, SAnyString => true
  | SLex x, SLex y => N.eqb x y
  | SInt l1 h1, SInt l2 h2 => opt_eqb Z.eqb l1 l2 && opt_eqb Z.eqb h1 h2
  | SFloat, SFloat => true
  | SBool, SBool => true
  | SEnum v1, SEnum v2 => list_eqb N.eqb v1 v2
  | SFragment, SFragment => true
  | SList i1 l1 h1, SList i2 l2 h2 => stype_eqb i1 i2 && Nat.eqb l1 l2 && opt_eqb Nat.eqb h1 h2
  | _, _ => false
  end.

Definition lo_incl (g s : option Z) : bool :=
  match s, g with None, _ => true | Some sl, Some gl => Z.leb sl gl | Some _, None => false end.
Definition hi_incl (g s : option Z) : bool :=
  match s, g with None, _ => true | Some sh, Some gh => Z.leb gh sh | Some _, None => false end.
Definition nhi_incl (g s : option nat) : bool :=
  match s, g with None, _ => true | Some sh, Some gh => Nat.leb gh sh | Some _, None => false end.

(* item types: g-values are s-values *)
Definition atom_incl (g s : stype) : bool :=
  match s with
  | SAnyString => match g with SList _ _ _ => false | SUnion _ => false | _ => true end
  | _ =>
    match g, s with
    | SInt gl gh, SInt sl sh => lo_incl gl sl && hi_incl gh sh
    | SEnum gv, SEnum sv => forallb (fun a => existsb (N.eqb a) sv) gv
    | SInt _ _, SFloat => true
    | SLex x, SLex y => N.eqb x y
    | SFloat, SFloat => true
    | SBool, SBool => true
    | SFragment, SFragment => true
    | _, _ => false
    end
  end.

Definition st_incl (g s : stype) : bool :=
  match s with
  | SAnyString => true
  | SList si slo shi =>
      match g with
      | SList gi glo ghi => atom_incl gi si && Nat.leb slo glo && nhi_incl ghi shi
      | _ => false
      end
  | SUnion _ => false
  | _ => match g with SList _ _ _ => false | SUnion _ => false | _ => atom_incl g s end
  end.

Definition attrs_incl (g s : list attruse) : bool :=
  forallb (fun u => match find_use (au_name u) s with
                    | Some v => st_incl (au_type u) (au_type v)
                    | None => false
                    end) g &&
  forallb (fun v => negb (au_req v) ||
                    match find_use (au_name v) g with Some u => au_req u | None => false end) s.

(* ---------------------------------------------------------------- states of the content automaton *)

Fixpoint re_eqb (a b : re) : bool :=
  match a, b with
  | RFail, RFail => true
  | REps, REps => true
  | RSym n t, RSym m u => N.eqb n m && N.eqb t u
  | RAny, RAny => true
  | RCat a1 a2, RCat b1 b2 => re_eqb a1 b1 && re_eqb a2 b2
  | RAlt a1 a2, RAlt b1 b2 => re_eqb a1 b1 && re_eqb a2 b2
  | RStar a1, RStar b1 => re_eqb a1 b1
  | _, _ => false
  end.

Definition re_mem (q : re) (l : list re) : bool := existsb (re_eqb q) l.

Section Incl.
  Variable G : grammar.
  Variable S : schema.
  Variable m : list (N * option N).        (* rule -> target type (None: lax) *)

  Definition target (r : N) : option (option N) := assoc r m.

  (* the child named t, taken in state q by a kid that follows rule r, is assessed against what
     the map says about r *)
  Definition step_ok (q : re) (alt : atom * N) : bool :=
    let '(t, r) := alt in
    match kid_ty (N.eqb t) q, target r with
    | Some (Some ty), Some (Some ty') => N.eqb ty ty'
    | Some None, Some tgt => opt_eqb N.eqb (assoc t (s_globals S)) tgt
    | _, _ => false
    end.

  Definition dstep (q : re) (alt : atom * N) : re := deriv (N.eqb (fst alt)) q.

  (* states reachable from q by children of the alternatives *)
  Fixpoint explore (fuel : nat) (alts : list (atom * N)) (todo seen : list re) : list re :=
    match fuel with
    | O => seen
    | Datatypes.S f =>
        match todo with
        | [] => seen
        | q :: rest =>
            if re_mem q seen then explore f alts rest seen
            else explore f alts (map (dstep q) alts ++ rest) (q :: seen)
        end
    end.

  (* O contains q and is closed under the alternatives, each of which is a legal step *)
  Definition closed (alts : list (atom * N)) (q : re) (O : list re) : bool :=
    re_mem q O &&
    forallb (fun q' => forallb (fun a => step_ok q' a && re_mem (dstep q' a) O) alts) O.

  Variable ef : nat.                        (* fuel of the orbit exploration *)

  Fixpoint sim (items : list item) (q : re) : bool :=
    match items with
    | [] => nullable q
    | IOne alts :: rest => forallb (fun a => step_ok q a && sim rest (dstep q a)) alts
    | IOpt alts :: rest => sim rest q && forallb (fun a => step_ok q a && sim rest (dstep q a)) alts
    | IStar alts :: rest =>
        let O := explore ef alts [q] [] in
        closed alts q O && forallb (sim rest) O
    end.

  Definition rule_ok (rr : N * grule) : bool :=
    let '(r, ru) := rr in
    match target r with
    | None => false
    | Some None => match gr_body ru with GLax => true | _ => false end
    | Some (Some ty) =>
        match nth_error (s_types S) (N.to_nat ty) with
        | None => false
        | Some ct =>
            match ct_content ct, gr_body ru with
            | CEmpty, GKids [] => attrs_incl (gr_attrs ru) (ct_attrs ct)
            | CSimple st, GText gt => attrs_incl (gr_attrs ru) (ct_attrs ct) && st_incl gt st
            | CElems p, GKids items => attrs_incl (gr_attrs ru) (ct_attrs ct) && sim items (re_of p)
            | _, _ => false
            end
        end
    end.

  Definition root_ok : bool :=
    N.eqb (gg_ns G) (s_tns S) && N.eqb (gg_root G) (s_root S) &&
    match assoc (s_root S) (s_globals S), target (gg_rootrule G) with
    | Some t, Some (Some t') => N.eqb t t'
    | _, _ => false
    end.

  Definition included_with : bool := root_ok && forallb rule_ok (gg_rules G).
  Definition bad_rules : list N := map fst (filter (fun rr => negb (rule_ok rr)) (gg_rules G)).
End Incl.

(* ---------------------------------------------------------------- the (untrusted) map *)

Definition item_alts (i : item) : list (atom * N) :=
  match i with IOne a => a | IOpt a => a | IStar a => a end.

Definition kid_targets (G : grammar) (S : schema) (r : N) (tgt : option N) : list (N * option N) :=
  match rule_of r (gg_rules G), tgt with
  | Some ru, Some ty =>
      match gr_body ru, nth_error (s_types S) (N.to_nat ty) with
      | GKids items, Some ct =>
          match ct_content ct with
          | CElems p =>
              flat_map (fun alt : atom * N =>
                          match kid_ty (N.eqb (fst alt)) (re_of p) with
                          | Some (Some ty') => [(snd alt, Some ty')]
                          | Some None => [(snd alt, assoc (fst alt) (s_globals S))]
                          | None => []
                          end) (flat_map item_alts items)
          | _ => []
          end
      | _, _ => []
      end
  | _, _ => []
  end.

Fixpoint infer (G : grammar) (S : schema) (fuel : nat) (todo acc : list (N * option N)) : list (N * option N) :=
  match fuel with
  | O => acc
  | Datatypes.S f =>
      match todo with
      | [] => acc
      | (r, tgt) :: rest =>
          match assoc r acc with
          | Some _ => infer G S f rest acc
          | None => infer G S f (kid_targets G S r tgt ++ rest) ((r, tgt) :: acc)
          end
      end
  end.

Definition infer_map (G : grammar) (S : schema) : list (N * option N) :=
  infer G S 4096 [(gg_rootrule G, assoc (s_root S) (s_globals S))] [].

Definition included (G : grammar) (S : schema) : bool := included_with G S (infer_map G S) 64.
