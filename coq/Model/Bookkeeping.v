(* C04 - the bookkeeping clauses, stated on the XML tree of a written document (SPEC side:
   what "redundant bookkeeping agrees with the data" means), and a small MODEL of what the writer
   emits for a source and for a primitive (source.py: *Source.__init__/save; triangleset.py,
   lineset.py, polylist.py, polygons.py: the E.* builders).  No proofs here. *)
From Coq Require Import List Bool ZArith NArith.
From PC Require Import Base.Atoms Base.Xml.
Import ListNotations.

Definition tns := a_ns141.

(* ---------------------------------------------------------------- SPEC: clauses on a tree *)

Definition attr_nat (n : atom) (x : xml) : option Z :=
  match xattr n x with Some (AInt z) => if Z.leb 0 z then Some z else None | _ => None end.

Definition attr_nat_default (n : atom) (d : Z) (x : xml) : option Z :=
  match xattr n x with None => Some d | _ => attr_nat n x end.

Definition ntoks (x : xml) : Z := match xtext x with Some l => Z.of_nat (length l) | None => 0%Z end.

Definition is_array (x : xml) : bool :=
  N.eqb (xns x) tns &&
  existsb (N.eqb (xtag x)) [a_float_array; a_int_array; a_bool_array; a_Name_array; a_IDREF_array].

Definition zopt_eqb (a : option Z) (b : Z) : bool := match a with Some z => Z.eqb z b | None => false end.

(* array/@count = number of values *)
Definition array_count_ok (a : xml) : bool := zopt_eqb (attr_nat a_count a) (ntoks a).

(* accessor of a source with exactly one array *)
Definition acc_source_ok (a acc : xml) : bool :=
  match xattr a_source acc, xattr a_id a with
  | Some (ARef true r), Some (AStr i) => N.eqb r i
  | _, _ => false
  end.
Definition acc_count_stride_ok (a acc : xml) : bool :=
  match attr_nat a_count acc, attr_nat_default a_stride 1 acc with
  | Some c, Some s => Z.eqb (c * s) (ntoks a)
  | _, _ => false
  end.
Definition acc_stride_params_ok (acc : xml) : bool :=
  zopt_eqb (attr_nat_default a_stride 1 acc) (Z.of_nat (length (findall tns a_param acc))).

Definition source_arrays (src : xml) : list xml := filter is_array (xkids src).
Definition source_accessor (src : xml) : option xml := find_path tns [a_technique_common; a_accessor] src.

Definition b2n (b : bool) : nat := if b then 0 else 1.
Definition sum_nat (l : list nat) : nat := fold_right Nat.add 0 l.

(* failure counts of one <source>: (array-count, accessor source, count*stride, stride=params) *)
Definition source_fails (src : xml) : nat * nat * nat * nat :=
  let arrs := source_arrays src in
  let f1 := sum_nat (map (fun a => b2n (array_count_ok a)) arrs) in
  match arrs, source_accessor src with
  | [a], Some acc => (f1, b2n (acc_source_ok a acc), b2n (acc_count_stride_ok a acc), b2n (acc_stride_params_ok acc))
  | _, _ => (f1, 0, 0, 0)
  end.

Definition source_ok (src : xml) : bool :=
  match source_fails src with (0, 0, 0, 0) => true | _ => false end.

(* primitives *)
Definition prim_tags : list atom := [a_triangles; a_lines; a_polylist; a_polygons; a_tristrips; a_trifans; a_linestrips].
Definition is_prim (x : xml) : bool := N.eqb (xns x) tns && existsb (N.eqb (xtag x)) prim_tags.

Definition input_offsets (p : xml) : list Z :=
  fold_right (fun i acc => match attr_nat a_offset i with Some o => o :: acc | None => acc end) []
             (findall tns a_input p).

(* number of index columns: largest offset + 1 (1 when there is no usable offset) *)
Definition nind (p : xml) : Z :=
  match input_offsets p with [] => 1%Z | l => (fold_right Z.max 0 l + 1)%Z end.

Definition sum_z (l : list Z) : Z := fold_right Z.add 0%Z l.

Definition p_tokens (p : xml) : Z := sum_z (map ntoks (findall tns a_p p)).

Definition vcount_values (p : xml) : list Z :=
  match find tns a_vcount p with
  | Some v => match xtext v with
              | Some l => map (fun t => match t with TInt z => z | _ => 0%Z end) l
              | None => []
              end
  | None => []
  end.

(* number of violated count clauses of one primitive *)
Definition prim_fails (p : xml) : nat :=
  let t := xtag p in
  let c := attr_nat a_count p in
  if N.eqb t a_triangles then b2n (match c with Some n => Z.eqb (n * 3 * nind p) (p_tokens p) | None => false end)
  else if N.eqb t a_lines then b2n (match c with Some n => Z.eqb (n * 2 * nind p) (p_tokens p) | None => false end)
  else if N.eqb t a_polylist then
    b2n (zopt_eqb c (Z.of_nat (length (vcount_values p)))) +
    b2n (Z.eqb (sum_z (vcount_values p) * nind p) (p_tokens p))
  else b2n (zopt_eqb c (Z.of_nat (length (findall tns a_p p) + length (findall tns a_ph p)))).

Definition prim_ok (p : xml) : bool := Nat.eqb (prim_fails p) 0.

(* VERTEX inputs of the primitives of a mesh point at a <vertices> of that mesh *)
Definition vertices_ids (mesh : xml) : list atom :=
  fold_right (fun v acc => match xattr a_id v with Some (AStr i) => i :: acc | _ => acc end) []
             (findall tns a_vertices mesh).

Definition is_vertex_input (i : xml) : bool :=
  match xattr a_semantic i with Some (AStr s) => N.eqb s a_VERTEX | _ => false end.

Definition vertex_input_ok (vids : list atom) (i : xml) : bool :=
  negb (is_vertex_input i) ||
  match xattr a_source i with Some (ARef true r) => existsb (N.eqb r) vids | _ => false end.

Definition prim_vertex_fails (vids : list atom) (p : xml) : nat :=
  sum_nat (map (fun i => b2n (vertex_input_ok vids i)) (findall tns a_input p)).

(* all elements of a tree, root first *)
Fixpoint descendants (x : xml) : list xml :=
  let 'El _ _ _ _ _ k := x in
  x :: (fix go (l : list xml) : list xml := match l with [] => [] | c :: r => descendants c ++ go r end) k.

Definition is_el (t : atom) (x : xml) : bool := N.eqb (xns x) tns && N.eqb (xtag x) t.

Definition add4 (a b : nat * nat * nat * nat) : nat * nat * nat * nat :=
  let '(a1, a2, a3, a4) := a in let '(b1, b2, b3, b4) := b in (a1 + b1, a2 + b2, a3 + b3, a4 + b4).

Definition mesh_fails (mesh : xml) : list nat :=
  let '(f1, f2, f3, f4) :=
    fold_right add4 (0, 0, 0, 0) (map source_fails (findall tns a_source mesh)) in
  let prims := filter is_prim (xkids mesh) in
  [f1; f2; f3; f4; sum_nat (map prim_fails prims);
   sum_nat (map (prim_vertex_fails (vertices_ids mesh)) prims)].

Fixpoint add_vec (a b : list nat) : list nat :=
  match a, b with
  | x :: r, y :: s => (x + y) :: add_vec r s
  | [], l => l
  | l, [] => l
  end.

(* every id attribute of the document, whatever the element *)
Definition all_ids (x : xml) : list aval :=
  fold_right (fun e acc => match xattr a_id e with Some v => v :: acc | None => acc end) [] (descendants x).

Fixpoint dup_count (l : list aval) : nat :=
  match l with
  | [] => 0
  | v :: r => (if existsb (aval_eqb v) r then 1 else 0) + dup_count r
  end.

(* failure vector of a document:
   [array-count; accessor-source; accessor-count*stride; accessor-stride=params; prim-count;
    vertex-input; ids carried more than once (0 = all distinct)] *)
Definition book_fails (doc : xml) : list nat :=
  fold_right add_vec [0; 0; 0; 0; 0; 0] (map mesh_fails (filter (is_el a_mesh) (descendants doc)))
  ++ [Nat.min 1 (dup_count (all_ids doc))].

Definition book_ok (doc : xml) : bool := forallb (Nat.eqb 0) (book_fails doc).

(* ---------------------------------------------------------------- MODEL: what the writer emits *)

(* a source as the model holds it: id, the derived array id (id ++ "-array", interned by the
   harness), the flat data (tokens: the values themselves are opaque), the component names,
   the array element and the param type *)
Record srcm := SrcM { sm_id : atom; sm_arr_id : atom; sm_vals : list tok; sm_comps : list atom;
                      sm_arrtag : atom; sm_ptype : atom }.

Definition zlen {A} (l : list A) : Z := Z.of_nat (length l).

(* Source.save: rawlen = len(flat data); data.shape = (-1, len(components)); acclen = len(data);
   the accessor is cleared and gets count, source, stride, one <param> per component *)
Definition emit_source (s : srcm) : xml :=
  let n := zlen (sm_vals s) in
  let k := zlen (sm_comps s) in
  El 0 tns a_source [(a_id, AStr (sm_id s))] None
    [ El 0 tns (sm_arrtag s) [(a_count, AInt n); (a_id, AStr (sm_arr_id s))] (Some (sm_vals s)) [];
      El 0 tns a_technique_common [] None
        [ El 0 tns a_accessor [(a_count, AInt (n / k)); (a_source, ARef true (sm_arr_id s)); (a_stride, AInt k)] None
             (map (fun c => El 0 tns a_param [(a_type, AStr (sm_ptype s)); (a_name, AStr c)] None []) (sm_comps s)) ] ].

(* numpy's reshape((-1, k)) succeeds exactly when k > 0 divides the length *)
Definition wf_src (s : srcm) : Prop :=
  (0 < zlen (sm_comps s))%Z /\ (zlen (sm_vals s) mod zlen (sm_comps s) = 0)%Z /\
  existsb (N.eqb (sm_arrtag s)) [a_float_array; a_Name_array; a_IDREF_array] = true.

(* an <input> of a primitive: offset, semantic, source reference, optional set *)
Record inpm := InpM { im_offset : Z; im_sem : atom; im_src : aval; im_set : option aval }.

Definition emit_input (i : inpm) : xml :=
  El 0 tns a_input
     ([(a_offset, AInt (im_offset i)); (a_semantic, AStr (im_sem i)); (a_source, im_src i)] ++
      match im_set i with Some s => [(a_set, s)] | None => [] end) None [].

Inductive primk :=
  | KTriangles | KLines
  | KPolylist (vcounts : list Z)
  | KPolygons.

(* index: for triangles/lines/polylist the flat index stream; polygons: one stream per polygon *)
Record primm := PrimM { pm_kind : primk; pm_inputs : list inpm; pm_index : list (list tok);
                        pm_material : option aval }.

Definition nind_m (p : primm) : Z :=
  (fold_right Z.max 0 (map im_offset (pm_inputs p)) + 1)%Z.

Definition flat (p : primm) : list tok := concat (pm_index p).

Definition mat_attr (p : primm) : list (atom * aval) :=
  match pm_material p with Some m => [(a_material, m)] | None => [] end.

Definition p_el (l : list tok) : xml := El 0 tns a_p [] (Some l) [].

(* TriangleSet._recreateXmlNode / LineSet.__init__: count = len(index reshaped (-1, per, nindices));
   Polylist.__init__: count = len(vcounts), <vcount>, one <p>; Polygons.__init__: count =
   len(polygons), one <p> per polygon *)
Definition emit_prim (p : primm) : xml :=
  let ins := map emit_input (pm_inputs p) in
  match pm_kind p with
  | KTriangles =>
      El 0 tns a_triangles ((a_count, AInt (zlen (flat p) / (3 * nind_m p))) :: mat_attr p) None
         (ins ++ [p_el (flat p)])
  | KLines =>
      El 0 tns a_lines ((a_count, AInt (zlen (flat p) / (2 * nind_m p))) :: mat_attr p) None
         (ins ++ [p_el (flat p)])
  | KPolylist vcs =>
      El 0 tns a_polylist ((a_count, AInt (zlen vcs)) :: mat_attr p) None
         (ins ++ [El 0 tns a_vcount [] (Some (map TInt vcs)) []; p_el (flat p)])
  | KPolygons =>
      El 0 tns a_polygons ((a_count, AInt (zlen (pm_index p))) :: mat_attr p) None
         (ins ++ map p_el (pm_index p))
  end.

(* what the constructors check (after /repo e70bc4e): the index stream reshapes, and a polylist's
   vcounts add up to the number of index rows; offsets are not negative *)
Definition wf_prim (p : primm) : Prop :=
  Forall (fun i => (0 <= im_offset i)%Z) (pm_inputs p) /\
  match pm_kind p with
  | KTriangles => (zlen (flat p) mod (3 * nind_m p) = 0)%Z
  | KLines => (zlen (flat p) mod (2 * nind_m p) = 0)%Z
  | KPolylist vcs => (sum_z vcs * nind_m p = zlen (flat p))%Z /\ Forall (fun v => (0 <= v)%Z) vcs
  | KPolygons => True
  end.

(* Geometry.save: every VERTEX input whose source is the POSITION source of <vertices> is
   redirected to the id of <vertices>; the other inputs are left alone *)
Definition redirect (vid vref : atom) (i : inpm) : inpm :=
  if N.eqb (im_sem i) a_VERTEX &&
     match im_src i with ARef true r => N.eqb r vref | _ => false end
  then InpM (im_offset i) (im_sem i) (ARef true vid) (im_set i) else i.

Definition redirect_prim (vid vref : atom) (p : primm) : primm :=
  PrimM (pm_kind p) (map (redirect vid vref) (pm_inputs p)) (pm_index p) (pm_material p).

(* the user-side obligation: all VERTEX inputs of a geometry name the same source, the one the
   <vertices> element reads its POSITION from (a mesh has a single <vertices>) *)
Definition vertex_sources_agree (vref : atom) (p : primm) : Prop :=
  Forall (fun i => N.eqb (im_sem i) a_VERTEX = true -> im_src i = ARef true vref) (pm_inputs p).

(* order-insensitive comparison of attributes, ignoring uids: the written element against the model's *)
Fixpoint attrs_sub (a b : list (atom * aval)) : bool :=
  match a with
  | [] => true
  | (k, v) :: r => match attr k b with Some w => aval_eqb v w | None => false end && attrs_sub r b
  end.

Fixpoint xml_eqv (a b : xml) : bool :=
  let 'El _ n1 t1 a1 x1 k1 := a in
  let 'El _ n2 t2 a2 x2 k2 := b in
  N.eqb n1 n2 && N.eqb t1 t2 && attrs_sub a1 a2 && attrs_sub a2 a1 &&
  opt_eqb (list_eqb tok_eqb) (match x1 with Some [] => None | o => o end) (match x2 with Some [] => None | o => o end) &&
  (fix go (l1 l2 : list xml) : bool :=
     match l1, l2 with
     | [], [] => true
     | x :: r1, y :: r2 => xml_eqv x y && go r1 r2
     | _, _ => false
     end) k1 k2.
