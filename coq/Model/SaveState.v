(* MODEL of Collada.save / Collada.write (collada/__init__.py) at the granularity of the
   children of the root element.

   A root child is (uid, tag, sub, kids): uid stands for the identity of the ElementTree
   element (0 = an element created during a save: nothing in save() ever tests the identity
   of such an element), sub is an atom for everything about the element that save() neither
   reads nor rewrites below this granularity (its attributes; for an unmanaged child its
   whole subtree), kids are its element children as (uid, content atom).

   The model part of the state is the Python `libraries` list of save(): per library its tag,
   whether its objects recreate their element on save() (cameras do), and the objects
   (identity, id, identity of .xmlnode, an atom for what save() emits for it).  Whether an
   object's save() raises (an invalid camera parameter combination) and whether the default
   scene has been pointed elsewhere is the *fault context* of an attempt: the edit that makes
   the attempt fail and is undone after it.  Object-level save() methods are
   deterministic emissions at this granularity; that they are is exercised by the direct
   oracle (byte-identical repeated writes), not proved.

   Documents are in the default (1.4.1) namespace; the validator is None (no lxml). *)
From Coq Require Import List Bool Arith NArith.
From PC Require Import Base.Atoms Base.Outcome.
Import ListNotations.

Record obj := Obj { ouid : N; oid : atom; onode : N; ocont : N }.

(* fault context of one attempt: which objects (by identity) have been put into a state in
   which their save() raises, and what the default scene has been set to (None: left alone) *)
Record faults := Faults { fbad : N -> option exn; fscene : option (option (N * atom)) }.
Definition no_fault : faults := Faults (fun _ => None) None.
Definition scene_in (fc : faults) (m : option (N * atom)) : option (N * atom) :=
  match fscene fc with Some sc => sc | None => m end.
Record lib := Lib { ltag : atom; lrec : bool; larr : list obj }.
(* mscene: identity and id of the default scene object (doc.scene) *)
Record model := Model { masset : N; mlibs : list lib; mscene : option (N * atom) }.

Record rchild := RC { ruid : N; rtag : atom; rsub : N; rkids : list (N * N) }.
Record state := St { smodel : model; stree : list rchild }.

(* the nine managed libraries, in the order of the `libraries` list of save() *)
Definition managed_tags : list atom :=
  [a_library_geometries; a_library_controllers; a_library_lights; a_library_cameras;
   a_library_images; a_library_effects; a_library_materials; a_library_nodes;
   a_library_visual_scenes].
Definition recreates (t : atom) : bool := N.eqb t a_library_cameras.

(* ---- ElementTree operations on the root's child list *)
Definition has_tag (t : atom) (c : rchild) : bool := N.eqb (rtag c) t.
Definition find_tag (t : atom) (root : list rchild) : option rchild := find (has_tag t) root.
(* root.remove(root.find(tag)) *)
Fixpoint remove_first (t : atom) (root : list rchild) : list rchild :=
  match root with
  | [] => []
  | c :: r => if has_tag t c then r else c :: remove_first t r
  end.
(* in-place modification of root.find(tag) *)
Fixpoint update_first (t : atom) (f : rchild -> rchild) (root : list rchild) : list rchild :=
  match root with
  | [] => []
  | c :: r => if has_tag t c then f c :: r else c :: update_first t f r
  end.
(* list.insert(n, x) *)
Fixpoint insert_at {A} (n : nat) (x : A) (l : list A) : list A :=
  match n, l with
  | O, _ => x :: l
  | S _, [] => [x]
  | S n', y :: r => y :: insert_at n' x r
  end.

(* library_loc = 0; for i, node in enumerate(root): if node.tag == asset: library_loc = i + 1 *)
Fixpoint loc_aux (i loc : nat) (root : list rchild) : nat :=
  match root with
  | [] => loc
  | c :: r => loc_aux (S i) (if has_tag a_asset c then S i else loc) r
  end.
Definition library_loc (root : list rchild) : nat := loc_aux 0 0 root.

Definition set_kids (ks : list (N * N)) (c : rchild) : rchild := RC (ruid c) (rtag c) (rsub c) ks.
Definition new_el (t : atom) : rchild := RC 0 t 0 [].        (* E(name) *)
Definition clear_el (c : rchild) : rchild := RC (ruid c) (rtag c) 0 [].   (* Element.clear() *)
Definition asset_el (m : model) : rchild := RC 0 a_asset (masset m) [].   (* Asset.save recreates it *)

(* ---- objects *)
(* o.save() of a class that recreates its element: .xmlnode is a new element *)
Definition touch (rc : bool) (o : obj) : obj :=
  if rc then Obj (ouid o) (oid o) 0 (ocont o) else o.

(* `for o in arr: o.save()`: (objects saved, objects not reached, the exception that stopped it) *)
Fixpoint save_arr (bad : N -> option exn) (rc : bool) (arr : list obj)
  : list obj * list obj * option exn :=
  match arr with
  | [] => ([], [], None)
  | o :: r => match bad (ouid o) with
              | Some e => ([], o :: r, Some e)
              | None => let '(sv, rest, x) := save_arr bad rc r in (touch rc o :: sv, rest, x)
              end
  end.

Definition nodes_of (arr : list obj) : list (N * N) := map (fun o => (onode o, ocont o)) arr.

(* an in-place save() shows in the tree at once if the object's element is a child *)
Definition refresh_kids (saved : list obj) (kids : list (N * N)) : list (N * N) :=
  map (fun k => match find (fun o => N.eqb (onode o) (fst k)) saved with
                | Some o => if N.eqb (fst k) 0 then k else (fst k, ocont o)
                | None => k
                end) kids.

(* `for extralib in findall(tag)[1:]: root.remove(extralib)`: every element of that name after
   the first goes *)
Fixpoint dedupe_from (t : atom) (seen : bool) (root : list rchild) : list rchild :=
  match root with
  | [] => []
  | c :: r => if has_tag t c then (if seen then dedupe_from t true r else c :: dedupe_from t true r)
              else c :: dedupe_from t seen r
  end.
Definition dedupe (t : atom) (root : list rchild) : list rchild := dedupe_from t false root.

(* one round of the library loop:
     later elements of that name are removed;
     node = find(tag); absent: skip if arr is empty, else insert E(name) at library_loc;
     present and arr empty: remove it; for o in arr: o.save();
     syncChildren(node, [o.xmlnode for o in arr])  - the children become exactly those *)
Definition lib_step (bad : N -> option exn) (loc : nat) (l : lib) (root : list rchild)
  : list rchild * lib * option exn :=
  let root := dedupe (ltag l) root in
  match find_tag (ltag l) root, larr l with
  | None, [] => (root, l, None)
  | Some _, [] => (remove_first (ltag l) root, l, None)
  | found, _ :: _ =>
      let root1 := match found with
                   | None => insert_at loc (new_el (ltag l)) root
                   | Some _ => root
                   end in
      let '(sv, rest, x) := save_arr bad (lrec l) (larr l) in
      let l' := Lib (ltag l) (lrec l) (sv ++ rest) in
      match x with
      | Some e =>
          (update_first (ltag l)
             (fun c => set_kids (if lrec l then rkids c else refresh_kids sv (rkids c)) c) root1,
           l', Some e)
      | None => (update_first (ltag l) (set_kids (nodes_of sv)) root1, l', None)
      end
  end.

Fixpoint libs_loop (bad : N -> option exn) (loc : nat) (libs : list lib) (root : list rchild)
  : list rchild * list lib * option exn :=
  match libs with
  | [] => (root, [], None)
  | l :: rest =>
      let '(root1, l', x) := lib_step bad loc l root in
      match x with
      | Some e => (root1, l' :: rest, Some e)
      | None => let '(root2, rest', y) := libs_loop bad loc rest root1 in (root2, l' :: rest', y)
      end
  end.

Definition scenes_of (m : model) : list obj :=
  flat_map larr (filter (fun l => N.eqb (ltag l) a_library_visual_scenes) (mlibs m)).

(* a missing <scene> is created in front of the root's first <extra> (at the end if there is none):
     loc = len(root); for i, child in enumerate(root): if child.tag == extra: loc = i; break *)
Fixpoint scene_loc (root : list rchild) : nat :=
  match root with
  | [] => 0
  | c :: r => if has_tag a_extra c then 0 else S (scene_loc r)
  end.
Definition ensure_scene (root : list rchild) : list rchild :=
  match find_tag a_scene root with
  | Some _ => root
  | None => insert_at (scene_loc root) (new_el a_scene) root
  end.

(* Collada.save, attempted in fault context fc *)
Definition save_in (fc : faults) (s : state) : state * outcome unit :=
  let m := smodel s in
  let root0 := insert_at 0 (asset_el m) (remove_first a_asset (stree s)) in
  let loc := library_loc root0 in
  let '(root1, libs', x) := libs_loop (fbad fc) loc (mlibs m) root0 in
  let m' := Model (masset m) libs' (mscene m) in
  match x with
  | Some e => (St m' root1, Raise e)
  | None =>
      let root3 := update_first a_scene clear_el (ensure_scene root1) in
      match scene_in fc (mscene m) with
      | None => (St m' root3, Ok tt)
      | Some (su, sid) =>
          (* `if self.scene not in self.scenes`: membership of the object; the url carries its id *)
          if existsb (fun o => N.eqb (ouid o) su) (scenes_of m)
          then (St m' (update_first a_scene (set_kids [(0%N, sid)]) root3), Ok tt)
          else (St m' root3, Raise DaeBrokenRef)      (* raised after the clear() *)
      end
  end.
Definition save := save_in no_fault.

(* ---- what the user can see of the model: everything but the identity of .xmlnode *)
Definition oview (o : obj) := (ouid o, oid o, ocont o).
Definition lview (l : lib) := (ltag l, lrec l, map oview (larr l)).
Definition view (m : model) := (masset m, map lview (mlibs m), mscene m).

(* ---- writing.  writeXML = indent + serialise; at this granularity the serialised bytes
   are a function of the content of the tree (tags, subs, kid contents - no identities) and
   indent is the identity on that content (Model/Indent.v: indent rewrites blank slots only,
   to values that depend on the stripped tree alone). *)
Definition ser (root : list rchild) : list N :=
  flat_map (fun c => [rtag c; rsub c; N.of_nat (length (rkids c))] ++ map snd (rkids c)) root.

Inductive dest :=
  | DSink (cap : option nat) (got : list N)   (* file-like: cap = None healthy, Some n raises after n *)
  | DPath (f : option (list N)).              (* a path: absent / a file with these bytes *)

Definition write_in (fc : faults) (d : dest) (s : state) : state * dest * outcome unit :=
  match save_in fc s with
  | (s', Raise e) => (s', d, Raise e)                  (* nothing is opened before save() returns *)
  | (s', Ok _) =>
      let b := ser (stree s') in
      match d with
      | DPath _ => (s', DPath (Some b), Ok tt)         (* open(path, 'wb'), then all of it *)
      | DSink None got => (s', DSink None (got ++ b), Ok tt)
      | DSink (Some n) got =>
          if Nat.ltb n (length b) then (s', DSink (Some n) (got ++ firstn n b), Raise PyOther)
          else (s', DSink (Some n) (got ++ b), Ok tt)
      end
  end.

Definition write := write_in no_fault.

(* the state a save() interrupted in fault context fc leaves behind (the edit is then undone:
   the fault context of the next attempt is a new one) *)
Definition save_faulted (fc : faults) (s : state) : state := fst (save_in fc s).
(* DESIGN's save_prefix: the library loop interrupted at the object with identity u *)
Definition save_prefix (u : N) (s : state) : state :=
  save_faulted (Faults (fun v => if N.eqb v u then Some DaeMalformed else None) None) s.

(* ---- histories of attempts *)
Inductive event :=
  | ESave (fc : faults)                   (* edit, doc.save(), edit back; fc = no_fault: a plain save *)
  | EWrite (fc : faults) (d : dest).      (* edit, doc.write(d), edit back; d a sink of any capacity or a path *)

Definition run_event (s : state) (e : event) : state :=
  match e with
  | ESave fc => fst (save_in fc s)
  | EWrite fc d => fst (fst (write_in fc d s))
  end.
Definition run_events (s : state) (es : list event) : state := fold_left run_event es s.

(* bytes a healthy sink receives *)
Definition healthy_bytes (s : state) : option (list N) :=
  match write (DSink None []) s with
  | (_, DSink None got, Ok _) => Some got
  | _ => None
  end.

(* ---- SPEC side *)
(* special tags: what save() manages *)
Definition managed (m : model) (t : atom) : bool :=
  N.eqb t a_asset || N.eqb t a_scene || existsb (fun l => N.eqb (ltag l) t) (mlibs m).
Definition unmanaged_children (m : model) (root : list rchild) : list rchild :=
  filter (fun c => negb (managed m (rtag c))) root.

(* the one hypothesis on the tree that confluence needs: at most one <asset> child of the root
   (the schema allows exactly one).  With two, library_loc - the index after the LAST <asset> -
   moves when a library in front of it is removed, so a library created by a later save lands
   elsewhere than in a run that never failed (Properties/C03.v, C03_two_assets_refuted; the
   implementation does the same).  Duplicate libraries need no hypothesis: save() removes them. *)
Definition count_tag (t : atom) (root : list rchild) : nat := length (filter (has_tag t) root).
Definition single_asset (root : list rchild) : Prop := count_tag a_asset root <= 1.
(* well-formed library list: distinct tags, none of them asset or scene *)
Definition wf_libs (m : model) : Prop :=
  NoDup (map ltag (mlibs m)) /\ ~ In a_asset (map ltag (mlibs m)) /\ ~ In a_scene (map ltag (mlibs m)).

(* "the tree says what the model says" at this granularity *)
Definition lib_synced (root : list rchild) (l : lib) : Prop :=
  match larr l with
  | [] => find_tag (ltag l) root = None
  | _ :: _ => exists c, find_tag (ltag l) root = Some c /\
                        rkids c = nodes_of (map (touch (lrec l)) (larr l))
  end.
Definition healthy (m : model) : Prop :=
  match mscene m with
  | None => True
  | Some (su, _) => existsb (fun o => N.eqb (ouid o) su) (scenes_of m) = true
  end.
