(* Lemmas for C05 (Model/LoadPrim.v): reshape + column selection is direct indexing, the
   <vertices> expansion buckets are the per-semantic input lists of the file, polylist ends and
   starts are prefix sums, S,T,P sources lose exactly every third value. *)
From Coq Require Import List Bool ZArith NArith Lia.
From PC Require Import Base.Atoms Base.Xml Base.Outcome Base.Py Model.LoadPrim.
Import ListNotations.
Local Open Scope nat_scope.

(* ------------------------------------------------------------------ list helpers *)

Lemma nth_firstn_lt {A} (d : A) : forall n o (l : list A), o < n -> nth o (firstn n l) d = nth o l d.
Proof.
  induction n as [|n IH]; intros o l H; [lia|].
  destruct l as [|x l]; [destruct o; reflexivity|].
  destruct o as [|o]; simpl; [reflexivity|]. apply IH. lia.
Qed.

Lemma nth_skipn_add {A} (d : A) : forall k o (l : list A), nth o (skipn k l) d = nth (k + o) l d.
Proof.
  induction k as [|k IH]; intros o l; [reflexivity|].
  destruct l as [|x l]; simpl; [destruct o; reflexivity|]. apply IH.
Qed.

Lemma firstn_app_exact {A} : forall (r x : list A), firstn (length r) (r ++ x) = r.
Proof. induction r as [|a r IH]; intro x; simpl; [destruct x; reflexivity|]. now rewrite IH. Qed.

Lemma skipn_app_exact {A} : forall (r x : list A), skipn (length r) (r ++ x) = x.
Proof. induction r as [|a r IH]; intro x; simpl; [reflexivity|]. apply IH. Qed.

Lemma filter_flat_map {A B} (p : B -> bool) (f : A -> list B) : forall l,
  filter p (flat_map f l) = flat_map (fun x => filter p (f x)) l.
Proof. induction l as [|x l IH]; simpl; [reflexivity|]. now rewrite filter_app, IH. Qed.

Lemma filter_filter {A} (p q : A -> bool) : forall l, filter p (filter q l) = filter (fun x => p x && q x) l.
Proof.
  induction l as [|x l IH]; simpl; [reflexivity|].
  destruct (q x) eqn:Q; simpl; rewrite ?IH; destruct (p x); simpl; reflexivity.
Qed.

Lemma flat_map_ext' {A B} (f g : A -> list B) : forall l, (forall x, f x = g x) -> flat_map f l = flat_map g l.
Proof. intros l H. induction l as [|x l IH]; simpl; [reflexivity|]. now rewrite H, IH. Qed.

(* ------------------------------------------------------------------ reshape / col = direct indexing *)

Lemma chunk_length {A} : forall m n (l : list A), length (chunk m n l) = m.
Proof. induction m as [|m IH]; intros; simpl; [reflexivity|]. now rewrite IH. Qed.

Lemma chunk_col : forall m n o (l : list Z), length l = m * n -> o < n ->
  col o (chunk m n l) = map (fun j => nth (j * n + o) l 0%Z) (seq 0 m).
Proof.
  induction m as [|m IH]; intros n o l HL Ho; [reflexivity|].
  simpl chunk. unfold col in *. simpl map at 1.
  rewrite nth_firstn_lt by exact Ho.
  rewrite (IH n o (skipn n l)).
  - simpl seq. simpl map. f_equal. rewrite <- seq_shift, map_map.
    apply map_ext. intro j. rewrite nth_skipn_add. f_equal. lia.
  - rewrite skipn_length. simpl in HL. lia.
  - exact Ho.
Qed.

Lemma reshape_some {A} : forall n (l : list A) rows, reshape n l = Some rows ->
  n <> 0 /\ length l = (length l / n) * n /\ rows = chunk (length l / n) n l.
Proof.
  intros n l rows H. unfold reshape in H. destruct n as [|n]; [discriminate|].
  destruct (Nat.eqb (length l mod S n) 0) eqn:E; [|discriminate].
  injection H as <-. apply Nat.eqb_eq in E. split; [lia|]. split; [|reflexivity].
  pose proof (Nat.div_mod (length l) (S n)). lia.
Qed.

Lemma reshape_none {A} : forall n (l : list A), reshape n l = None <-> n = 0 \/ length l mod n <> 0.
Proof.
  intros n l. unfold reshape. destruct n as [|n]; [split; auto|].
  destruct (Nat.eqb (length l mod S n) 0) eqn:E.
  - apply Nat.eqb_eq in E. split; [discriminate|]. intros [H|H]; [discriminate|contradiction].
  - apply Nat.eqb_neq in E. split; auto.
Qed.

(* the heart of C05_index_views: what the constructor exposes for an input at offset o is what
   direct indexing into the flat stream gives *)
Lemma reshape_col_is_direct : forall nind o (flat : list Z) rows,
  reshape nind flat = Some rows -> o < nind ->
  col o rows = spec_view nind o flat /\ length rows = length flat / nind.
Proof.
  intros nind o flat rows H Ho. destruct (reshape_some _ _ _ H) as (Hn & HL & ->).
  split; [|apply chunk_length]. unfold spec_view. apply chunk_col; assumption.
Qed.

Lemma nth_map_seq {B} (f : nat -> B) (d : B) : forall m j, j < m -> nth j (map f (seq 0 m)) d = f j.
Proof.
  intros m j H. rewrite (nth_indep _ d (f 0)) by (rewrite map_length, seq_length; exact H).
  rewrite map_nth, seq_nth by exact H. reflexivity.
Qed.

Lemma nth_map_in {A B} (f : A -> B) (d : B) (a : A) : forall l j, j < length l -> nth j (map f l) d = f (nth j l a).
Proof.
  intros l j H. rewrite (nth_indep _ d (f a)) by (rewrite map_length; exact H). apply map_nth.
Qed.

Lemma nth_spec_view : forall nind o flat j, j < length flat / nind ->
  nth j (spec_view nind o flat) 0%Z = nth (j * nind + o) flat 0%Z.
Proof. intros. unfold spec_view. now rewrite nth_map_seq. Qed.

(* rows that were concatenated come back unchanged *)
Lemma chunk_concat {A} : forall n (rs : list (list A)), Forall (fun r => length r = n) rs ->
  chunk (length rs) n (concat rs) = rs.
Proof.
  intros n rs H. induction H as [|r rs Hr _ IH]; [reflexivity|].
  simpl. subst n. rewrite firstn_app_exact, skipn_app_exact, IH. reflexivity.
Qed.

Lemma concat_length_uniform {A} : forall n (rs : list (list A)), Forall (fun r => length r = n) rs ->
  length (concat rs) = length rs * n.
Proof.
  intros n rs H. induction H as [|r rs Hr _ IH]; [reflexivity|].
  simpl. rewrite app_length, IH. lia.
Qed.

Lemma reshape_concat {A} : forall n (rs : list (list A)), n <> 0 -> Forall (fun r => length r = n) rs ->
  reshape n (concat rs) = Some rs.
Proof.
  intros n rs Hn H. unfold reshape. destruct n as [|n]; [contradiction|].
  rewrite (concat_length_uniform _ _ H).
  rewrite Nat.mod_mul by lia. simpl Nat.eqb. rewrite Nat.div_mul by lia.
  now rewrite chunk_concat.
Qed.

(* rows of a reshaped array all have the row width *)
Lemma chunk_rows_width {A} : forall m n (l : list A), length l = m * n -> Forall (fun r => length r = n) (chunk m n l).
Proof.
  induction m as [|m IH]; intros n l H; [constructor|].
  simpl. constructor.
  - rewrite firstn_length. simpl in H. lia.
  - apply IH. rewrite skipn_length. simpl in H. lia.
Qed.

Lemma nth_chunk_row : forall m n (l : list Z) i o, length l = m * n -> i < m -> o < n ->
  nth o (nth i (chunk m n l) []) 0%Z = nth (i * n + o) l 0%Z.
Proof.
  induction m as [|m IH]; intros n l i o HL Hi Ho; [lia|].
  simpl chunk. destruct i as [|i].
  - simpl. now rewrite nth_firstn_lt.
  - simpl nth at 2. rewrite IH; [|rewrite skipn_length; simpl in HL; lia|lia|exact Ho].
    rewrite nth_skipn_add. f_equal. lia.
Qed.

(* gathering whole rows of one <p> (strips, fans) and reshaping again: the column of the result
   is read directly from that <p> *)
Lemma gather_col : forall nind o (p : list Z) rows (cs : list nat),
  reshape nind p = Some rows -> o < nind -> Forall (fun c => c < length rows) cs ->
  exists rows', reshape nind (gather rows cs) = Some rows' /\
                col o rows' = map (fun c => nth (c * nind + o) p 0%Z) cs.
Proof.
  intros nind o p rows cs H Ho Hcs. destruct (reshape_some _ _ _ H) as (Hn & HL & Hrows).
  exists (map (row_at rows) cs). split.
  - unfold gather. apply reshape_concat; [exact Hn|].
    rewrite Forall_map. rewrite Forall_forall in *. intros c Hc. specialize (Hcs c Hc).
    unfold row_at. subst rows. rewrite chunk_length in Hcs.
    pose proof (chunk_rows_width _ _ _ HL) as W. rewrite Forall_forall in W. apply W.
    apply nth_In. now rewrite chunk_length.
  - unfold col. rewrite map_map. apply map_ext_in. intros c Hc.
    rewrite Forall_forall in Hcs. specialize (Hcs c Hc). unfold row_at. subst rows.
    rewrite chunk_length in Hcs. now apply nth_chunk_row.
Qed.

(* corner rows of strips and fans stay inside the <p> *)
Lemma fan_corners_in_range : forall n, Forall (fun c => c < n) (fan_corners n).
Proof.
  intro n. unfold fan_corners. rewrite Forall_forall. intros c Hc.
  apply in_flat_map in Hc. destruct Hc as (i & Hi & Hc). apply in_seq in Hi.
  simpl in Hc. intuition lia.
Qed.

Lemma strip_corners_in_range : forall n, Forall (fun c => c < n) (strip_corners n).
Proof.
  intro n. unfold strip_corners. rewrite Forall_forall. intros c Hc.
  apply in_app_or in Hc. destruct Hc as [Hc|Hc];
    apply in_flat_map in Hc; destruct Hc as (i & Hi & Hc); apply in_seq in Hi; simpl in Hc.
  - assert (2 * i + 2 < n).
    { destruct Hi as [_ Hi].
      pose proof (Nat.div_mod (n - 1) 2). pose proof (Nat.mod_upper_bound (n - 1) 2). lia. }
    intuition lia.
  - assert (2 * i + 3 < n).
    { destruct Hi as [_ Hi].
      pose proof (Nat.div_mod (n - 2) 2). pose proof (Nat.mod_upper_bound (n - 2) 2). lia. }
    intuition lia.
Qed.

Lemma concat_chunk {A} : forall m n (l : list A), length l = m * n -> concat (chunk m n l) = l.
Proof.
  induction m as [|m IH]; intros n l H.
  - destruct l; [reflexivity|discriminate].
  - simpl. rewrite IH; [apply firstn_skipn|]. rewrite skipn_length. simpl in H. lia.
Qed.

(* several <p> of whole rows (polygons; the expanded strips): the rows of the concatenation are
   the rows of the pieces *)
Lemma reshape_app {A} : forall n (a b : list A) ra rb, reshape n a = Some ra -> reshape n b = Some rb ->
  reshape n (a ++ b) = Some (ra ++ rb).
Proof.
  intros n a b ra rb Ha Hb.
  destruct (reshape_some _ _ _ Ha) as (Hn & HLa & ->). destruct (reshape_some _ _ _ Hb) as (_ & HLb & ->).
  pose proof (chunk_rows_width _ _ _ HLa) as Wa. pose proof (chunk_rows_width _ _ _ HLb) as Wb.
  pose proof (concat_chunk _ _ _ HLa) as Ea. pose proof (concat_chunk _ _ _ HLb) as Eb.
  rewrite <- Ea at 1. rewrite <- Eb at 1. rewrite <- concat_app.
  apply reshape_concat; [exact Hn|]. apply Forall_app. split; assumption.
Qed.

Lemma col_app : forall o a b, col o (a ++ b) = col o a ++ col o b.
Proof. intros. unfold col. apply map_app. Qed.

(* ------------------------------------------------------------------ <vertices> expansion *)

Lemma expand_inputs_buckets : forall sc ins l sem,
  expand_inputs sc ins = Ok l -> ibucket sem l = spec_bucket sc ins sem.
Proof.
  intros sc ins l sem H. unfold expand_inputs in H.
  destruct (forallb (expand_ok sc) ins); [|discriminate]. injection H as <-.
  unfold ibucket, spec_bucket. rewrite filter_app, filter_filter, filter_flat_map. f_equal.
  apply flat_map_ext'. intro i. unfold expand_one, spec_vertices_level.
  destruct (N.eqb (i_sem i) a_VERTEX); [|reflexivity].
  destruct (target sc (i_src i)) as [[u|d]|]; try reflexivity.
  rewrite filter_flat_map. apply flat_map_ext'. intros [s [src|]]; simpl; [|reflexivity].
  destruct (N.eqb (eff_sem s) sem) eqn:E; [|reflexivity].
  apply N.eqb_eq in E. now rewrite E.
Qed.

(* resolving keeps offsets, semantics, sets and order *)
Definition forget (r : rinput) : input := mkInput (r_off r) (r_sem r) (ARef true (r_ref r)) (r_set r).

Lemma resolve_forget : forall sc i r, resolve sc i = Ok r -> forget r = i.
Proof.
  intros sc [o s v st] r H. unfold resolve in H. simpl in H.
  destruct v as [a|h a|z]; simpl in H; try discriminate. destruct h; simpl in H; try discriminate.
  destruct (dget N.eqb sc a) as [[u|d]|]; try discriminate.
  destruct (is_known s); try discriminate. injection H as <-. reflexivity.
Qed.

Lemma omapM_map {A B} (f : A -> outcome B) (g : B -> A) : forall l r,
  (forall x y, f x = Ok y -> g y = x) -> omapM f l = Ok r -> map g r = l.
Proof.
  induction l as [|x l IH]; intros r Hf H; simpl in H.
  - injection H as <-. reflexivity.
  - destruct (f x) as [y|e] eqn:E; [|discriminate].
    destruct (omapM f l) as [ys|e]; [|discriminate]. injection H as <-.
    simpl. rewrite (Hf _ _ E), (IH ys Hf eq_refl). reflexivity.
Qed.

Lemma bucket_forget : forall sem l, map forget (bucket sem l) = ibucket sem (map forget l).
Proof.
  intros sem l. unfold bucket, ibucket. induction l as [|r l IH]; [reflexivity|].
  simpl. destruct (N.eqb (r_sem r) sem); simpl; now rewrite IH.
Qed.

Lemma get_inputs_buckets : forall sc ins l sem,
  get_inputs sc ins = Ok l -> map forget (bucket sem l) = spec_bucket sc ins sem.
Proof.
  intros sc ins l sem H. unfold get_inputs in H.
  destruct (expand_inputs sc ins) as [e|] eqn:E; [|discriminate]. simpl in H.
  rewrite bucket_forget. rewrite (omapM_map _ forget _ _ (resolve_forget sc) H).
  now apply expand_inputs_buckets.
Qed.

(* ------------------------------------------------------------------ polylist *)

Lemma sumZ_cons : forall x l, sumZ (x :: l) = (x + sumZ l)%Z.
Proof. reflexivity. Qed.

Lemma sumZ_firstn_S : forall (l : list Z) acc i, i < length l ->
  (acc + sumZ (firstn (S i) l) = nth i (cumsum_from acc l) 0)%Z.
Proof.
  induction l as [|x l IH]; intros acc i H; [simpl in H; lia|].
  destruct i as [|i].
  - simpl. destruct l; simpl; lia.
  - simpl in H. change (firstn (S (S i)) (x :: l)) with (x :: firstn (S i) l).
    rewrite sumZ_cons. simpl cumsum_from. simpl nth. rewrite <- IH by lia. lia.
Qed.

Lemma poly_ends_spec : forall vc i, i < length vc -> nth i (poly_ends vc) 0%Z = spec_end vc i.
Proof. intros vc i H. unfold poly_ends, cumsum, spec_end. rewrite <- sumZ_firstn_S by exact H. lia. Qed.

Lemma cumsum_from_length : forall l acc, length (cumsum_from acc l) = length l.
Proof. induction l as [|x l IH]; intro acc; simpl; [reflexivity|]. now rewrite IH. Qed.

Lemma sumZ_firstn_step : forall (l : list Z) i, i < length l ->
  (sumZ (firstn (S i) l) = sumZ (firstn i l) + nth i l 0)%Z.
Proof.
  induction l as [|x l IH]; intros i H; [simpl in H; lia|].
  destruct i as [|i]; [simpl; destruct l; simpl; lia|].
  simpl in H. change (firstn (S (S i)) (x :: l)) with (x :: firstn (S i) l).
  change (firstn (S i) (x :: l)) with (x :: firstn i l). rewrite !sumZ_cons. simpl nth. rewrite IH by lia. lia.
Qed.

Lemma poly_starts_spec : forall vc i, i < length vc -> nth i (poly_starts vc) 0%Z = spec_start vc i.
Proof.
  intros vc i H. unfold poly_starts.
  assert (L : length (combine (poly_ends vc) vc) = length vc).
  { rewrite combine_length. unfold poly_ends, cumsum. rewrite cumsum_from_length. lia. }
  rewrite (nth_map_in _ 0%Z (0%Z, 0%Z)) by now rewrite L.
  rewrite combine_nth by (unfold poly_ends, cumsum; now rewrite cumsum_from_length).
  simpl. rewrite poly_ends_spec by exact H. unfold spec_end, spec_start.
  rewrite sumZ_firstn_step by exact H. lia.
Qed.

(* ------------------------------------------------------------------ sources *)

Lemma delete_last_col_is_drop_third {A} : forall m (d : list A), length d = m * 3 ->
  concat (map (firstn 2) (chunk m 3 d)) = drop_third d.
Proof.
  induction m as [|m IH]; intros d H.
  - destruct d; [reflexivity|discriminate].
  - destruct d as [|a [|b [|c r]]]; try (simpl in H; lia).
    simpl. f_equal. f_equal. apply IH. simpl in H. lia.
Qed.

Lemma list_eqb_length {A} (e : A -> A -> bool) : forall a b, list_eqb e a b = true -> length a = length b.
Proof.
  induction a as [|x a IH]; intros [|y b] H; simpl in *; try discriminate; [reflexivity|].
  apply andb_true_iff in H. f_equal. apply IH. tauto.
Qed.

Lemma normalise_source_spec : forall comps data c d,
  normalise_source comps data = Ok (c, d) -> c = spec_comps comps /\ d = spec_data comps data.
Proof.
  intros comps data c d H. unfold normalise_source in H. unfold spec_comps, spec_data.
  destruct comps as [|c0 cs] eqn:EC; [discriminate|]. rewrite <- EC in *.
  unfold comps_eqb in *. destruct (list_eqb (opt_eqb aval_eqb) comps [nm a_U; nm a_V]) eqn:UV.
  - injection H as <- <-. split; [reflexivity|].
    destruct (list_eqb (opt_eqb aval_eqb) comps [nm a_S; nm a_T; nm a_P]) eqn:STP; [|reflexivity].
    exfalso. apply list_eqb_length in UV. apply list_eqb_length in STP. simpl in *. congruence.
  - destruct (list_eqb (opt_eqb aval_eqb) comps [nm a_S; nm a_T; nm a_P]) eqn:STP.
    + unfold delete_last_col in H. destruct (reshape 3 (map nan0 data)) as [rows|] eqn:R; [|discriminate].
      injection H as <- <-. split; [reflexivity|].
      destruct (reshape_some _ _ _ R) as (_ & HL & ->). now apply delete_last_col_is_drop_third.
    + injection H as <- <-. split; reflexivity.
Qed.
