(* C04 - the bookkeeping clauses hold of everything the emit model of sources and primitives
   produces (Model/Bookkeeping.v), for all models. *)
From Coq Require Import List Bool ZArith NArith Lia.
From PC Require Import Base.Atoms Base.Xml Model.Bookkeeping.
Import ListNotations.

Local Open Scope Z_scope.

Lemma zlen_nonneg : forall A (l : list A), 0 <= zlen l.
Proof. intros. unfold zlen. lia. Qed.

Lemma attr_nat_count : forall u n t z rest tx k,
  0 <= z -> attr_nat a_count (El u n t ((a_count, AInt z) :: rest) tx k) = Some z.
Proof.
  intros. unfold attr_nat, xattr. simpl. destruct (Z.leb 0 z) eqn:E; auto.
  apply Z.leb_gt in E. lia.
Qed.

(* ---------------------------------------------------------------- sources *)

Definition param_el (ty c : atom) : xml := El 0 tns a_param [(a_type, AStr ty); (a_name, AStr c)] None [].

Lemma findall_params : forall ty cs,
  findall tns a_param (El 0 tns a_accessor [] None (map (param_el ty) cs)) = map (param_el ty) cs.
Proof.
  intros ty cs. unfold findall. simpl.
  induction cs as [|c cs IH]; simpl; auto. now rewrite IH.
Qed.

Lemma length_findall_params : forall ty cs attrs,
  length (findall tns a_param (El 0 tns a_accessor attrs None (map (param_el ty) cs))) = length cs.
Proof.
  intros ty cs attrs. unfold findall. simpl.
  induction cs as [|c cs IH]; simpl; auto.
Qed.

Lemma source_fails_shape : forall sattrs arr acc,
  is_array arr = true -> is_tag tns a_technique_common arr = false -> is_tag tns a_accessor acc = true ->
  source_fails (El 0 tns a_source sattrs None [arr; El 0 tns a_technique_common [] None [acc]]) =
  ((b2n (array_count_ok arr) + 0)%nat, b2n (acc_source_ok arr acc), b2n (acc_count_stride_ok arr acc),
   b2n (acc_stride_params_ok acc)).
Proof.
  intros sattrs arr acc Ha Ht Hc.
  unfold source_fails, source_arrays, source_accessor, find_path, find. simpl xkids.
  simpl filter. rewrite Ha.
  change (is_array (El 0 tns a_technique_common [] None [acc])) with false.
  simpl List.find. rewrite Ht.
  change (is_tag tns a_technique_common (El 0 tns a_technique_common [] None [acc])) with true.
  cbv iota. simpl xkids. simpl List.find. rewrite Hc. reflexivity.
Qed.

Theorem source_counts : forall s, wf_src s -> source_ok (emit_source s) = true.
Proof.
  intros [sid aid vals comps arrtag ptype] [Hk [Hmod Htag]]. simpl in Hk, Hmod, Htag.
  set (n := zlen vals) in *. set (k := zlen comps) in *.
  assert (Hn : 0 <= n) by apply zlen_nonneg.
  assert (Hq : 0 <= n / k) by (apply Z.div_pos; lia).
  assert (Hqk : n / k * k = n).
  { rewrite Z.mul_comm. symmetry. apply Z.div_exact; lia. }
  assert (Hk0 : Z.leb 0 k = true) by (apply Z.leb_le; lia).
  assert (Hcases : arrtag = a_float_array \/ arrtag = a_Name_array \/ arrtag = a_IDREF_array).
  { apply orb_true_iff in Htag as [H|H]; [left; now apply N.eqb_eq in H|].
    apply orb_true_iff in H as [H|H]; [right; left; now apply N.eqb_eq in H|].
    apply orb_true_iff in H as [H|H]; [right; right; now apply N.eqb_eq in H| discriminate]. }
  unfold source_ok, emit_source.
  cbv beta iota zeta delta [sm_id sm_arr_id sm_vals sm_comps sm_arrtag sm_ptype].
  fold n. fold k.
  rewrite source_fails_shape.
  2:{ destruct Hcases as [-> | [-> | ->]]; reflexivity. }
  2:{ destruct Hcases as [-> | [-> | ->]]; reflexivity. }
  2:{ reflexivity. }
  assert (H1 : array_count_ok (El 0 tns arrtag [(a_count, AInt n); (a_id, AStr aid)] (Some vals) []) = true).
  { unfold array_count_ok. rewrite attr_nat_count by exact Hn.
    unfold ntoks. simpl xtext. fold (zlen vals). fold n. unfold zopt_eqb. apply Z.eqb_refl. }
  rewrite H1.
  set (acc := El 0 tns a_accessor [(a_count, AInt (n / k)); (a_source, ARef true aid); (a_stride, AInt k)] None
                 (map (fun c => El 0 tns a_param [(a_type, AStr ptype); (a_name, AStr c)] None []) comps)).
  assert (H2 : acc_source_ok (El 0 tns arrtag [(a_count, AInt n); (a_id, AStr aid)] (Some vals) []) acc = true).
  { unfold acc_source_ok, xattr, acc. simpl. apply N.eqb_refl. }
  assert (Hstride : attr_nat_default a_stride 1 acc = Some k).
  { unfold attr_nat_default, attr_nat, xattr, acc. simpl. now rewrite Hk0. }
  assert (H3 : acc_count_stride_ok (El 0 tns arrtag [(a_count, AInt n); (a_id, AStr aid)] (Some vals) []) acc = true).
  { unfold acc_count_stride_ok. rewrite Hstride. unfold acc. rewrite attr_nat_count by exact Hq.
    unfold ntoks. simpl xtext. fold (zlen vals). fold n. rewrite Hqk. apply Z.eqb_refl. }
  assert (H4 : acc_stride_params_ok acc = true).
  { unfold acc_stride_params_ok. rewrite Hstride. unfold acc.
    change (fun c : atom => El 0 tns a_param [(a_type, AStr ptype); (a_name, AStr c)] None []) with (param_el ptype).
    rewrite length_findall_params. unfold zopt_eqb. fold (zlen comps). fold k. apply Z.eqb_refl. }
  rewrite H2, H3, H4. reflexivity.
Qed.

(* ---------------------------------------------------------------- primitives *)

Lemma is_tag_input : forall i, is_tag tns a_input (emit_input i) = true.
Proof. intros. reflexivity. Qed.

Lemma findall_inputs : forall u t attrs tx ins rest,
  (forall x, In x rest -> is_tag tns a_input x = false) ->
  findall tns a_input (El u tns t attrs tx (map emit_input ins ++ rest)) = map emit_input ins.
Proof.
  intros u t attrs tx ins rest Hrest. unfold findall. cbn [xkids].
  induction ins as [|i ins IH]; cbn [map app filter].
  - induction rest as [|x rest IHr]; cbn [filter]; auto.
    rewrite (Hrest x (or_introl eq_refl)). apply IHr. intros y Hy. apply Hrest. now right.
  - rewrite is_tag_input. now rewrite IH.
Qed.

Lemma is_tag_input_other : forall i tag0, N.eqb a_input tag0 = false -> is_tag tns tag0 (emit_input i) = false.
Proof.
  intros i tag0 H. unfold is_tag, emit_input. cbn [xns xtag]. rewrite H. apply andb_false_r.
Qed.

Lemma findall_other : forall u t attrs tx ins rest tag0,
  N.eqb a_input tag0 = false ->
  findall tns tag0 (El u tns t attrs tx (map emit_input ins ++ rest)) = filter (is_tag tns tag0) rest.
Proof.
  intros u t attrs tx ins rest tag0 Hne. unfold findall. cbn [xkids].
  induction ins as [|i ins IH]; cbn [map app filter]; auto.
  rewrite is_tag_input_other by exact Hne. exact IH.
Qed.

Lemma offsets_of_inputs : forall ins,
  Forall (fun i => 0 <= im_offset i) ins ->
  fold_right (fun i acc => match attr_nat a_offset i with Some o => o :: acc | None => acc end) []
             (map emit_input ins) = map im_offset ins.
Proof.
  induction 1 as [|i ins Hi _ IH]; simpl; auto.
  unfold attr_nat at 1. unfold xattr. simpl.
  destruct (Z.leb 0 (im_offset i)) eqn:E; [now rewrite IH | apply Z.leb_gt in E; lia].
Qed.

Lemma fold_max_nonneg : forall l, 0 <= fold_right Z.max 0 l.
Proof. induction l; simpl; lia. Qed.

Lemma nind_emit : forall u t attrs tx ins rest,
  Forall (fun i => 0 <= im_offset i) ins ->
  (forall x, In x rest -> is_tag tns a_input x = false) ->
  nind (El u tns t attrs tx (map emit_input ins ++ rest)) = fold_right Z.max 0 (map im_offset ins) + 1.
Proof.
  intros u t attrs tx ins rest Hoff Hrest. unfold nind, input_offsets.
  rewrite findall_inputs by exact Hrest. rewrite offsets_of_inputs by exact Hoff.
  destruct ins; reflexivity.
Qed.

Lemma map_p_el_filter : forall ls, filter (is_tag tns a_p) (map p_el ls) = map p_el ls.
Proof. induction ls; simpl; auto. now rewrite IHls. Qed.

Lemma map_p_el_filter_ph : forall ls, filter (is_tag tns a_ph) (map p_el ls) = [].
Proof. induction ls; simpl; auto. Qed.

Lemma not_input_p_els : forall ls x, In x (map p_el ls) -> is_tag tns a_input x = false.
Proof. intros ls x H. apply in_map_iff in H as [l [<- _]]. reflexivity. Qed.

Lemma vcount_roundtrip : forall vcs,
  map (fun t => match t with TInt z => z | _ => 0 end) (map TInt vcs) = vcs.
Proof. induction vcs; simpl; auto. now rewrite IHvcs. Qed.

Lemma ntoks_p_el : forall l, ntoks (p_el l) = zlen l.
Proof. reflexivity. Qed.

Lemma p_tokens_single : forall u t attrs ins l,
  p_tokens (El u tns t attrs None (map emit_input ins ++ [p_el l])) = zlen l.
Proof.
  intros. unfold p_tokens. rewrite findall_other by reflexivity.
  change (filter (is_tag tns a_p) [p_el l]) with [p_el l].
  cbn [map sum_z fold_right]. rewrite ntoks_p_el. lia.
Qed.

Lemma fixed_prim_ok : forall t per mattrs ins l,
  (t = a_triangles /\ per = 3) \/ (t = a_lines /\ per = 2) ->
  Forall (fun i => 0 <= im_offset i) ins ->
  zlen l mod (per * (fold_right Z.max 0 (map im_offset ins) + 1)) = 0 ->
  prim_fails (El 0 tns t ((a_count, AInt (zlen l / (per * (fold_right Z.max 0 (map im_offset ins) + 1)))) :: mattrs) None
                 (map emit_input ins ++ [p_el l])) = 0%nat.
Proof.
  intros t per mattrs ins l Ht Hoff Hmod.
  set (NI := fold_right Z.max 0 (map im_offset ins) + 1) in *.
  assert (HNI : 0 < NI) by (unfold NI; pose proof (fold_max_nonneg (map im_offset ins)); lia).
  pose proof (zlen_nonneg _ l) as HL.
  assert (Hper : 0 < per) by (destruct Ht as [[_ ->]|[_ ->]]; lia).
  assert (Hq : 0 <= zlen l / (per * NI)) by (apply Z.div_pos; nia).
  assert (Hex : zlen l / (per * NI) * per * NI = zlen l).
  { replace (zlen l / (per * NI) * per * NI) with (per * NI * (zlen l / (per * NI))) by lia.
    symmetry. apply Z.div_exact; nia. }
  assert (Hnind : nind (El 0 tns t ((a_count, AInt (zlen l / (per * NI))) :: mattrs) None
                            (map emit_input ins ++ [p_el l])) = NI).
  { apply nind_emit; auto. intros x [<-|[]]. reflexivity. }
  unfold prim_fails. cbn [xtag].
  rewrite attr_nat_count by exact Hq. rewrite Hnind, p_tokens_single.
  destruct Ht as [[-> ->]|[-> ->]].
  - change (N.eqb a_triangles a_triangles) with true. cbv iota. rewrite Hex, Z.eqb_refl. reflexivity.
  - change (N.eqb a_lines a_triangles) with false. change (N.eqb a_lines a_lines) with true. cbv iota.
    rewrite Hex, Z.eqb_refl. reflexivity.
Qed.

Lemma find_vcount : forall ins vc rest,
  is_tag tns a_vcount vc = true ->
  List.find (is_tag tns a_vcount) (map emit_input ins ++ vc :: rest) = Some vc.
Proof.
  intros ins vc rest H. induction ins as [|i ins IH]; cbn [map app List.find].
  - now rewrite H.
  - rewrite is_tag_input_other by reflexivity. exact IH.
Qed.

Lemma polylist_ok : forall mattrs ins vcs l,
  Forall (fun i => 0 <= im_offset i) ins ->
  sum_z vcs * (fold_right Z.max 0 (map im_offset ins) + 1) = zlen l ->
  prim_fails (El 0 tns a_polylist ((a_count, AInt (zlen vcs)) :: mattrs) None
                 (map emit_input ins ++ [El 0 tns a_vcount [] (Some (map TInt vcs)) []; p_el l])) = 0%nat.
Proof.
  intros mattrs ins vcs l Hoff Hsum.
  set (vc := El 0 tns a_vcount [] (Some (map TInt vcs)) []).
  assert (Hnind : nind (El 0 tns a_polylist ((a_count, AInt (zlen vcs)) :: mattrs) None
                            (map emit_input ins ++ [vc; p_el l])) = fold_right Z.max 0 (map im_offset ins) + 1).
  { apply nind_emit; auto. intros x [<-|[<-|[]]]; reflexivity. }
  assert (Hvc : vcount_values (El 0 tns a_polylist ((a_count, AInt (zlen vcs)) :: mattrs) None
                            (map emit_input ins ++ [vc; p_el l])) = vcs).
  { unfold vcount_values, find. cbn [xkids]. rewrite find_vcount by reflexivity.
    unfold vc. cbn [xtext]. apply vcount_roundtrip. }
  assert (Hp : p_tokens (El 0 tns a_polylist ((a_count, AInt (zlen vcs)) :: mattrs) None
                            (map emit_input ins ++ [vc; p_el l])) = zlen l).
  { unfold p_tokens. rewrite findall_other by reflexivity.
    change (filter (is_tag tns a_p) [vc; p_el l]) with [p_el l].
    cbn [map sum_z fold_right]. rewrite ntoks_p_el. lia. }
  unfold prim_fails. cbn [xtag].
  change (N.eqb a_polylist a_triangles) with false. change (N.eqb a_polylist a_lines) with false.
  change (N.eqb a_polylist a_polylist) with true. cbv iota.
  rewrite attr_nat_count by apply zlen_nonneg. rewrite Hvc, Hnind, Hp, Hsum.
  unfold zopt_eqb, zlen. rewrite !Z.eqb_refl. reflexivity.
Qed.

Lemma polygons_ok : forall mattrs ins ls,
  prim_fails (El 0 tns a_polygons ((a_count, AInt (zlen ls)) :: mattrs) None
                 (map emit_input ins ++ map p_el ls)) = 0%nat.
Proof.
  intros. unfold prim_fails. cbn [xtag].
  change (N.eqb a_polygons a_triangles) with false. change (N.eqb a_polygons a_lines) with false.
  change (N.eqb a_polygons a_polylist) with false. cbv iota.
  rewrite attr_nat_count by apply zlen_nonneg.
  rewrite !findall_other by reflexivity.
  rewrite map_p_el_filter, map_p_el_filter_ph, map_length. cbn [length].
  rewrite Nat.add_0_r. unfold zopt_eqb, zlen. rewrite Z.eqb_refl. reflexivity.
Qed.

Theorem prim_counts : forall p, wf_prim p -> prim_ok (emit_prim p) = true.
Proof.
  intros [kind ins idx mat] [Hoff Hk]. unfold prim_ok. apply Nat.eqb_eq.
  unfold emit_prim, nind_m, flat, mat_attr in *.
  cbv beta iota zeta delta [pm_kind pm_inputs pm_index pm_material] in *.
  destruct kind as [| |vcs|].
  - apply fixed_prim_ok; auto.
  - apply fixed_prim_ok; auto.
  - destruct Hk as [Hsum _]. apply polylist_ok; auto.
  - apply polygons_ok.
Qed.

(* ---------------------------------------------------------------- VERTEX inputs *)

Lemma is_vertex_input_emit : forall i, is_vertex_input (emit_input i) = N.eqb (im_sem i) a_VERTEX.
Proof. intros. reflexivity. Qed.

Lemma source_of_emit : forall i, xattr a_source (emit_input i) = Some (im_src i).
Proof. intros. reflexivity. Qed.

Lemma redirected_input_ok : forall vid vref i,
  (N.eqb (im_sem i) a_VERTEX = true -> im_src i = ARef true vref) ->
  vertex_input_ok [vid] (emit_input (redirect vid vref i)) = true.
Proof.
  intros vid vref i H. unfold vertex_input_ok. rewrite is_vertex_input_emit, source_of_emit.
  unfold redirect. destruct (N.eqb (im_sem i) a_VERTEX) eqn:E.
  - rewrite (H eq_refl). simpl. rewrite N.eqb_refl. simpl. rewrite E. simpl.
    rewrite N.eqb_refl. reflexivity.
  - simpl. rewrite E. reflexivity.
Qed.

Lemma sum_zero : forall l, Forall (fun n => n = 0%nat) l -> sum_nat l = 0%nat.
Proof. induction 1; simpl; auto. subst. simpl. assumption. Qed.

Lemma inputs_of_emit_prim : forall p,
  findall tns a_input (emit_prim p) = map emit_input (pm_inputs p).
Proof.
  intros [kind ins idx mat]. unfold emit_prim. simpl.
  destruct kind; apply findall_inputs.
  - intros x [<-|[]]. reflexivity.
  - intros x [<-|[]]. reflexivity.
  - intros x [<-|[<-|[]]]; reflexivity.
  - apply not_input_p_els.
Qed.

Theorem vertex_inputs_point_to_vertices : forall vid vref p,
  vertex_sources_agree vref p ->
  prim_vertex_fails [vid] (emit_prim (redirect_prim vid vref p)) = 0%nat.
Proof.
  intros vid vref p H. unfold prim_vertex_fails. rewrite inputs_of_emit_prim. simpl.
  apply sum_zero. rewrite map_map, map_map. unfold vertex_sources_agree in H.
  induction H as [|i ins Hi _ IH]; simpl; constructor; auto.
  rewrite redirected_input_ok by exact Hi. reflexivity.
Qed.

(* ---------------------------------------------------------------- unique ids *)

From PC Require Import Model.SchemaSyntax Model.Schema.

Inductive subseq {A} : list A -> list A -> Prop :=
  | ss_nil : subseq [] []
  | ss_skip : forall x l1 l2, subseq l1 l2 -> subseq l1 (x :: l2)
  | ss_take : forall x l1 l2, subseq l1 l2 -> subseq (x :: l1) (x :: l2).

Lemma subseq_refl : forall A (l : list A), subseq l l.
Proof. induction l; [apply ss_nil | apply ss_take; assumption]. Qed.

Lemma subseq_nil : forall A (l : list A), subseq [] l.
Proof. induction l; [apply ss_nil | apply ss_skip; assumption]. Qed.

Lemma subseq_app : forall A (a1 a2 b1 b2 : list A), subseq a1 a2 -> subseq b1 b2 -> subseq (a1 ++ b1) (a2 ++ b2).
Proof.
  induction 1; simpl; intros; auto.
  - apply ss_skip. auto.
  - apply ss_take. auto.
Qed.

Lemma subseq_existsb : forall A (f : A -> bool) l1 l2, subseq l1 l2 -> existsb f l1 = true -> existsb f l2 = true.
Proof.
  induction 1; simpl; intros; auto.
  - rewrite IHsubseq by assumption. apply orb_true_r.
  - apply orb_true_iff in H0 as [H0|H0]; [now rewrite H0 | rewrite IHsubseq by assumption; apply orb_true_r].
Qed.

Lemma subseq_nodup : forall l1 l2, subseq l1 l2 -> nodup_b l2 = true -> nodup_b l1 = true.
Proof.
  induction 1; simpl; intros Hn; auto.
  - apply andb_true_iff in Hn as [_ Hn]. auto.
  - apply andb_true_iff in Hn as [Hx Hn]. rewrite IHsubseq by assumption.
    destruct (existsb (aval_eqb x) l1) eqn:E; auto.
    rewrite (subseq_existsb _ _ _ _ H E) in Hx. discriminate.
Qed.

Lemma dup_count_nodup : forall l, dup_count l = 0%nat -> nodup_b l = true.
Proof.
  induction l as [|v l IH]; simpl; intros H; auto.
  destruct (existsb (aval_eqb v) l); simpl in *; try discriminate. auto.
Qed.

Definition id_of (e : xml) (acc : list aval) : list aval :=
  match xattr a_id e with Some v => v :: acc | None => acc end.

Lemma fold_ids_app : forall l1 l2,
  fold_right id_of [] (l1 ++ l2) = fold_right id_of [] l1 ++ fold_right id_of [] l2.
Proof.
  induction l1 as [|e l1 IH]; simpl; intros; auto. rewrite IH. unfold id_of. destruct (xattr a_id e); reflexivity.
Qed.

Lemma ids_of_subseq : forall S x, subseq (ids_of S x) (fold_right id_of [] (descendants x)).
Proof.
  intros S. apply xml_ind'. intros u n t a tx k IH.
  cbn [ids_of descendants fold_right].
  set (gk := (fix go (l : list xml) : list aval := match l with [] => [] | c :: r => ids_of S c ++ go r end) k).
  set (dk := (fix go (l : list xml) : list xml := match l with [] => [] | c :: r => descendants c ++ go r end) k).
  assert (Hk : subseq gk (fold_right id_of [] dk)).
  { subst gk dk. induction IH as [|c r Hc _ IHr]; [apply ss_nil|].
    rewrite fold_ids_app. apply subseq_app; assumption. }
  unfold id_of at 1. unfold xattr. cbn [xattrs].
  destruct (N.eqb n (s_tns S) && existsb (N.eqb t) (s_names S)); destruct (attr a_id a); cbn [app];
    first [apply ss_take; exact Hk | apply ss_skip; exact Hk | exact Hk].
Qed.

Lemma dup0_ids_unique : forall S x, dup_count (all_ids x) = 0%nat -> ids_unique S x = true.
Proof.
  intros S x Hd. unfold ids_unique. eapply subseq_nodup; [apply ids_of_subseq | ].
  apply dup_count_nodup. exact Hd.
Qed.

Theorem distinct_ids_unique : forall S x, book_ok x = true -> ids_unique S x = true.
Proof.
  intros S x H. unfold book_ok, book_fails in H. rewrite forallb_app in H.
  apply andb_true_iff in H as [_ H]. cbn [forallb] in H. rewrite andb_true_r in H.
  apply Nat.eqb_eq in H.
  assert (Hd : dup_count (all_ids x) = 0%nat) by (destruct (dup_count (all_ids x)); [reflexivity | discriminate]).
  now apply dup0_ids_unique.
Qed.
