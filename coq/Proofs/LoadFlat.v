(* C05: the flat class loaders - camera parameters (aspect-ratio drop), references resolved through
   the id-indexed libraries (material -> effect, default scene, instances), float sources read from
   the XML. *)
From Coq Require Import List Bool ZArith NArith Lia.
From PC Require Import Base.Atoms Base.Xml Base.Outcome Base.Py Model.LoadPrim Model.Namespace Model.LoadDoc
                       Proofs.LoadPrim.
Import ListNotations.
Local Open Scope nat_scope.

Definition all_three (c : cam) : bool :=
  match c_x c, c_y c, c_ar c with Some _, Some _, Some _ => true | _, _, _ => false end.

Lemma camera_ctor_spec : forall c,
  match camera_ctor c with
  | Ok c' => c_x c' = c_x c /\ c_y c' = c_y c /\ c_near c' = c_near c /\ c_far c' = c_far c /\
             c_ar c' = (if all_three c then None else c_ar c) /\ (c_x c <> None \/ c_y c <> None)
  | Raise e => e = DaeMalformed /\ c_x c = None /\ c_y c = None
  end.
Proof.
  intros [[x|] [y|] [ar|] zn zf]; unfold camera_ctor, all_three; simpl;
    repeat split; try reflexivity; try (left; discriminate); try (right; discriminate).
Qed.

(* IndexedList.get(id): the LAST object of the library that carries the id *)
Lemma lib_get_spec : forall (l : lib) a u, lib_get l a = Some u <->
  exists pre post, l = pre ++ (Some (AStr a), u) :: post /\ lib_get post a = None.
Proof.
  induction l as [|[k v] l IH]; intros a u.
  - simpl. split; [discriminate|]. intros (pre & post & E & _). destruct pre; discriminate.
  - split.
    + intro H. simpl in H. destruct (lib_get l a) as [w|] eqn:G.
      * injection H as <-. destruct (proj1 (IH a w) G) as (pre & post & EL & N).
        exists ((k, v) :: pre), post. split; [now rewrite EL|exact N].
      * destruct k as [[b|h b|z]|]; try discriminate.
        destruct (N.eqb a b) eqn:E; [|discriminate]. apply N.eqb_eq in E. subst b. injection H as <-.
        exists [], l. split; [reflexivity|exact G].
    + intros (pre & post & E & N). destruct pre as [|x pre]; simpl in E.
      * injection E as Ek Ev El. subst k v l. simpl. rewrite N. now rewrite N.eqb_refl.
      * injection E as Ex El. simpl.
        assert (R : lib_get l a = Some u) by (apply IH; exists pre, post; split; [exact El|exact N]).
        now rewrite R.
Qed.

Lemma resolve_url_spec : forall l o u, resolve_url l o = Ok u ->
  exists a, o = Some (ARef true a) /\ lib_get l a = Some u.
Proof.
  intros l o u H. unfold resolve_url in H. destruct o as [[a|h a|z]|]; try discriminate.
  destruct h; try discriminate. destruct (lib_get l a) as [w|] eqn:G; [|discriminate].
  injection H as <-. eauto.
Qed.

(* a float source element: what FloatSource.load builds is what the file says *)
Lemma load_float_source_is_read : forall numtab e arr s,
  efind a_float_array e = Some arr -> load_float_source numtab e arr = Ok s -> read_float_source numtab e = Some s.
Proof.
  intros numtab e arr s F H. unfold load_float_source in H. unfold read_float_source. rewrite F.
  set (names := param_names (efindall_path [a_technique_common; a_accessor; a_param] e)) in *.
  assert (PD : forall tx, (match tx with None | Some [] => Ok [] | Some l => of_option DaeMalformed (classes numtab l) end)
                          = of_option DaeMalformed (classes numtab (match tx with Some l => l | None => [] end)))
    by (intros [[|t l]|]; reflexivity).
  rewrite PD in H. destruct (classes numtab (match etext arr with Some l => l | None => [] end)) as [data|];
    [|cbn [obind of_option] in H; discriminate].
  cbn [obind of_option] in H.
  destruct (normalise_source names data) as [[c d]|] eqn:N; [|cbn [obind] in H; discriminate].
  cbn [obind fst snd] in H.
  destruct (normalise_source_spec _ _ _ _ N) as [-> ->].
  destruct (negb (Nat.eqb (length (spec_data names data) mod length (spec_comps names)) 0)); [discriminate|].
  injection H as <-.
  destruct (spec_comps names) as [|c0 cs] eqn:SC; [|reflexivity].
  (* no components: normalise_source raises DaeIncomplete before *)
  exfalso. unfold normalise_source in N. destruct names as [|n0 ns]; [discriminate|].
  unfold spec_comps in SC. destruct (comps_eqb (n0 :: ns) [nm a_U; nm a_V]); [discriminate|].
  destruct (comps_eqb (n0 :: ns) [nm a_S; nm a_T; nm a_P]); discriminate.
Qed.

(* colours: the constructor's padding is "R, G, B default to 0, A to 1", and nothing else *)
Lemma pad_color_spec : forall c, pad_color c = spec_color c.
Proof. intros [|r [|g [|b [|a c']]]]; reflexivity. Qed.

Lemma pad_color_props : forall c,
  (length c <= 4 -> length (pad_color c) = 4) /\ (4 <= length c -> pad_color c = c) /\
  firstn (length c) (pad_color c) = c.
Proof.
  intros [|r [|g [|b [|a c']]]].
  1-4: (split; [reflexivity|]; split; [simpl; intro; lia|reflexivity]).
  assert (E : pad_color (r :: g :: b :: a :: c') = r :: g :: b :: a :: c') by reflexivity.
  rewrite E. split; [|split; [reflexivity|apply firstn_all]].
  intro H. simpl in H. destruct c'; [reflexivity|simpl in H; lia].
Qed.

(* lights: the class loaders give the light the file describes *)
Lemma opt_float_read : forall numtab o v, opt_float numtab o = Ok v -> read_opt_float numtab o = Some v.
Proof.
  intros numtab [n|] v H; simpl in *; [|now injection H as <-].
  unfold float_of_text in H. destruct (etext n) as [[|x [|y r]]|]; simpl in H; try discriminate.
  destruct (cls numtab x); simpl in *; [now injection H as <-|discriminate].
Qed.

Lemma has_own_eown : forall t k, has_own t k = true -> eown k = Some t.
Proof.
  intros t k H. unfold has_own in H. destruct (eown k) as [u|]; [|discriminate]. apply N.eqb_eq in H. now subst.
Qed.

Theorem load_light_is_read : forall numtab e v, load_light_t numtab e = Ok v -> read_light numtab e = Some v.
Proof.
  intros numtab e v H. unfold load_light_t in H. unfold read_light.
  destruct (efind a_technique_common e) as [tec|]; [|discriminate].
  destruct (first_kid tec) as [ln|]; [|discriminate].
  assert (K : exists k, (if has_own a_directional ln then Some a_directional else
                         if has_own a_point ln then Some a_point else
                         if has_own a_ambient ln then Some a_ambient else
                         if has_own a_spot ln then Some a_spot else None) = Some k /\ eown ln = Some k /\
                        existsb (N.eqb k) light_kinds = true).
  { destruct (has_own a_directional ln) eqn:D; [exists a_directional; split; [reflexivity|split; [now apply has_own_eown|reflexivity]]|].
    destruct (has_own a_point ln) eqn:P; [exists a_point; split; [reflexivity|split; [now apply has_own_eown|reflexivity]]|].
    destruct (has_own a_ambient ln) eqn:A; [exists a_ambient; split; [reflexivity|split; [now apply has_own_eown|reflexivity]]|].
    destruct (has_own a_spot ln) eqn:S; [exists a_spot; split; [reflexivity|split; [now apply has_own_eown|reflexivity]]|].
    discriminate. }
  destruct K as (k & K1 & K2 & K3). rewrite K1 in H. rewrite K2, K3. cbn [negb].
  destruct (efind_path [a_technique_common; k] e) as [pnode|]; [|destruct (N.eqb k a_point || N.eqb k a_spot); discriminate].
  destruct (efind a_color pnode) as [cn|]; [|discriminate].
  destruct (etext cn) as [l|]; [|discriminate].
  destruct (classes numtab l) as [color|]; [|discriminate]. cbn [obind of_option] in H.
  unfold light_param_names.
  destruct (N.eqb k a_point) eqn:EP.
  - destruct (opt_float numtab (efind a_quadratic_attenuation pnode)) as [q|] eqn:Q; [|discriminate]. cbn [obind] in H.
    destruct (opt_float numtab (efind a_constant_attenuation pnode)) as [c|] eqn:C; [|discriminate]. cbn [obind] in H.
    destruct (opt_float numtab (efind a_linear_attenuation pnode)) as [li|] eqn:L; [|discriminate]. cbn [obind] in H.
    destruct (opt_float numtab (efind a_zfar pnode)) as [z|] eqn:Z; [|discriminate]. cbn [obind] in H.
    injection H as <-. cbn [map]. rewrite (opt_float_read _ _ _ Q), (opt_float_read _ _ _ C), (opt_float_read _ _ _ L), (opt_float_read _ _ _ Z).
    reflexivity.
  - destruct (N.eqb k a_spot) eqn:ES.
    + destruct (opt_float numtab (efind a_constant_attenuation pnode)) as [c|] eqn:C; [|discriminate]. cbn [obind] in H.
      destruct (opt_float numtab (efind a_linear_attenuation pnode)) as [li|] eqn:L; [|discriminate]. cbn [obind] in H.
      destruct (opt_float numtab (efind a_quadratic_attenuation pnode)) as [q|] eqn:Q; [|discriminate]. cbn [obind] in H.
      destruct (opt_float numtab (efind a_falloff_angle pnode)) as [a|] eqn:A; [|discriminate]. cbn [obind] in H.
      destruct (opt_float numtab (efind a_falloff_exponent pnode)) as [x|] eqn:X; [|discriminate]. cbn [obind] in H.
      injection H as <-. cbn [map]. rewrite (opt_float_read _ _ _ Q), (opt_float_read _ _ _ C), (opt_float_read _ _ _ L), (opt_float_read _ _ _ A), (opt_float_read _ _ _ X).
      reflexivity.
    + cbn [obind] in H. injection H as <-. reflexivity.
Qed.

Lemma load_light_refines : forall numtab e v, load_light numtab e = Ok v -> read_light_loader numtab e = Ok v.
Proof.
  intros numtab e v H. unfold load_light in H. unfold read_light_loader.
  destruct (load_light_t numtab e) as [l|] eqn:L; [|discriminate]. now rewrite (load_light_is_read _ _ _ L).
Qed.

(* asset: the up axis is the one named in the file, Y_UP when there is none or another word *)
Lemma up_axis_spec : forall o, up_axis_of o = spec_up_axis (text_of o).
Proof.
  intro o. unfold up_axis_of, spec_up_axis. destruct (text_of o) as [[|[z|k|a] [|t r]]|];
    simpl; rewrite ?andb_false_r, ?andb_true_r; try reflexivity.
  destruct (N.eqb a a_X_UP) eqn:X; [apply N.eqb_eq in X; now subst|].
  destruct (N.eqb a a_Z_UP) eqn:Z; [apply N.eqb_eq in Z; subst; reflexivity|].
  simpl. destruct (N.eqb a a_Y_UP) eqn:Y; [apply N.eqb_eq in Y; now subst|reflexivity].
Qed.
