(* C05: the flat class loaders - camera parameters (aspect-ratio drop), references resolved through
   the id-indexed libraries (material -> effect, default scene, instances), float sources read from
   the XML. *)
From Coq Require Import List Bool ZArith NArith Lia.
From PC Require Import Base.Atoms Base.Xml Base.Outcome Base.Py Model.LoadPrim Model.Namespace Model.LoadDoc
                       Proofs.LoadPrim.
Import ListNotations.
Local Open Scope nat_scope.

Definition all_three (c : cam) : bool :=
  match c_x c, c_y c, c_ar c with Some _, Some _, Some _ => true | _, _, _ => false end.

Lemma camera_ctor_spec : forall c,
  match camera_ctor c with
  | Ok c' => c_x c' = c_x c /\ c_y c' = c_y c /\ c_near c' = c_near c /\ c_far c' = c_far c /\
             c_ar c' = (if all_three c then None else c_ar c) /\ (c_x c <> None \/ c_y c <> None)
  | Raise e => e = DaeMalformed /\ c_x c = None /\ c_y c = None
  end.
Proof.
  intros [[x|] [y|] [ar|] zn zf]; unfold camera_ctor, all_three; simpl;
    repeat split; try reflexivity; try (left; discriminate); try (right; discriminate).
Qed.

(* IndexedList.get(id): the LAST object of the library that carries the id *)
Lemma lib_get_spec : forall (l : lib) a u, lib_get l a = Some u <->
  exists pre post, l = pre ++ (Some (AStr a), u) :: post /\ lib_get post a = None.
Proof.
  induction l as [|[k v] l IH]; intros a u.
  - simpl. split; [discriminate|]. intros (pre & post & E & _). destruct pre; discriminate.
  - split.
    + intro H. simpl in H. destruct (lib_get l a) as [w|] eqn:G.
      * injection H as <-. destruct (proj1 (IH a w) G) as (pre & post & EL & N).
        exists ((k, v) :: pre), post. split; [now rewrite EL|exact N].
      * destruct k as [[b|h b|z]|]; try discriminate.
        destruct (N.eqb a b) eqn:E; [|discriminate]. apply N.eqb_eq in E. subst b. injection H as <-.
        exists [], l. split; [reflexivity|exact G].
    + intros (pre & post & E & N). destruct pre as [|x pre]; simpl in E.
      * injection E as Ek Ev El. subst k v l. simpl. rewrite N. now rewrite N.eqb_refl.
      * injection E as Ex El. simpl.
        assert (R : lib_get l a = Some u) by (apply IH; exists pre, post; split; [exact El|exact N]).
        now rewrite R.
Qed.

Lemma resolve_url_spec : forall l o u, resolve_url l o = Ok u ->
  exists a, o = Some (ARef true a) /\ lib_get l a = Some u.
Proof.
  intros l o u H. unfold resolve_url in H. destruct o as [[a|h a|z]|]; try discriminate.
  destruct h; try discriminate. destruct (lib_get l a) as [w|] eqn:G; [|discriminate].
  injection H as <-. eauto.
Qed.

(* a float source element: what FloatSource.load builds is what the file says *)
Lemma load_float_source_is_read : forall numtab e arr s,
  efind a_float_array e = Some arr -> load_float_source numtab e arr = Ok s -> read_float_source numtab e = Some s.
Proof.
  intros numtab e arr s F H. unfold load_float_source in H. unfold read_float_source. rewrite F.
  set (names := param_names (efindall_path [a_technique_common; a_accessor; a_param] e)) in *.
  assert (PD : forall tx, (match tx with None | Some [] => Ok [] | Some l => of_option DaeMalformed (classes numtab l) end)
                          = of_option DaeMalformed (classes numtab (match tx with Some l => l | None => [] end)))
    by (intros [[|t l]|]; reflexivity).
  rewrite PD in H. destruct (classes numtab (match etext arr with Some l => l | None => [] end)) as [data|];
    [|cbn [obind of_option] in H; discriminate].
  cbn [obind of_option] in H.
  destruct (normalise_source names data) as [[c d]|] eqn:N; [|cbn [obind] in H; discriminate].
  cbn [obind fst snd] in H.
  destruct (normalise_source_spec _ _ _ _ N) as [-> ->].
  destruct (negb (Nat.eqb (length (spec_data names data) mod length (spec_comps names)) 0)); [discriminate|].
  injection H as <-.
  destruct (spec_comps names) as [|c0 cs] eqn:SC; [|reflexivity].
  (* no components: normalise_source raises DaeIncomplete before *)
  exfalso. unfold normalise_source in N. destruct names as [|n0 ns]; [discriminate|].
  unfold spec_comps in SC. destruct (comps_eqb (n0 :: ns) [nm a_U; nm a_V]); [discriminate|].
  destruct (comps_eqb (n0 :: ns) [nm a_S; nm a_T; nm a_P]); discriminate.
Qed.

(* colours: the constructor's padding is "R, G, B default to 0, A to 1", and nothing else *)
Lemma pad_color_spec : forall c, pad_color c = spec_color c.
Proof. intros [|r [|g [|b [|a c']]]]; reflexivity. Qed.

Lemma pad_color_props : forall c,
  (length c <= 4 -> length (pad_color c) = 4) /\ (4 <= length c -> pad_color c = c) /\
  firstn (length c) (pad_color c) = c.
Proof.
  intros [|r [|g [|b [|a c']]]].
  1-4: (split; [reflexivity|]; split; [simpl; intro; lia|reflexivity]).
  assert (E : pad_color (r :: g :: b :: a :: c') = r :: g :: b :: a :: c') by reflexivity.
  rewrite E. split; [|split; [reflexivity|apply firstn_all]].
  intro H. simpl in H. destruct c'; [reflexivity|simpl in H; lia].
Qed.
