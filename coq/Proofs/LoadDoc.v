(* C05: Node.load's single pass over the children (dispatch by tag, appending to two lists) gives
   the node the file describes: id, name defaulting to id, the transforms in document order with
   their kind and parameters, the children in document order - at every depth. *)
From Coq Require Import List Bool ZArith NArith Lia.
From PC Require Import Base.Atoms Base.Xml Base.Outcome Base.Py Model.LoadPrim Model.Namespace Model.LoadDoc.
Import ListNotations.
Local Open Scope nat_scope.

Section EtInd.
  Variable P : et -> Prop.
  Hypothesis H : forall u o h a t k, Forall P k -> P (ET u o h a t k).
  Fixpoint et_ind' (e : et) : P e :=
    match e with
    | ET u o h a t k =>
        H u o h a t k
          ((fix go (l : list et) : Forall P l :=
              match l with
              | [] => Forall_nil P
              | c :: r => Forall_cons c (et_ind' c) (go r)
              end) k)
    end.
End EtInd.

(* the loop of Node.load as a function of its own *)
Fixpoint node_loop (en : env) (ks : list et) (ts : list tview) (cs : list nview) : outcome (list tview * list nview) :=
  match ks with
  | [] => Ok (ts, cs)
  | k :: r =>
      if has_own a_node k then
        match load_node en k with
        | Ok v => node_loop en r ts (cs ++ [v])
        | Raise x => Raise x
        end
      else
        match load_leaf en k with
        | Ok (ITransform t) => node_loop en r (ts ++ [t]) cs
        | Ok (IChild c) => node_loop en r ts (cs ++ [c])
        | Ok ISkip => node_loop en r ts cs
        | Raise x => Raise x
        end
  end.

Definition name_or_id (attrs : list (atom * aval)) : option aval :=
  match attr a_name attrs with Some n => Some n | None => attr a_id attrs end.

Lemma load_node_unfold : forall en u o h a t kids,
  load_node en (ET u o h a t kids) =
  match node_loop en kids [] [] with
  | Ok (ts, cs) => Ok (NNode u (attr a_id a) (name_or_id a) ts cs)
  | Raise x => Raise x
  end.
Proof.
  intros. simpl.
  assert (E : forall ks ts cs,
    (fix go (ks : list et) (ts : list tview) (cs : list nview) {struct ks} : outcome (list tview * list nview) :=
       match ks with
       | [] => Ok (ts, cs)
       | k :: r =>
           if has_own a_node k then
             match load_node en k with Ok v => go r ts (cs ++ [v]) | Raise x => Raise x end
           else
             match load_leaf en k with
             | Ok (ITransform t) => go r (ts ++ [t]) cs
             | Ok (IChild c) => go r ts (cs ++ [c])
             | Ok ISkip => go r ts cs
             | Raise x => Raise x
             end
       end) ks ts cs = node_loop en ks ts cs).
  { induction ks as [|k r IH]; intros; simpl; [reflexivity|].
    destruct (has_own a_node k).
    - destruct (load_node en k); [apply IH|reflexivity].
    - destruct (load_leaf en k) as [[tv|c|]|]; try apply IH; reflexivity. }
  rewrite E. destruct (node_loop en kids [] []) as [[ts cs]|]; reflexivity.
Qed.

(* the declarative lists of read_node *)
Definition spec_ts (en : env) (kids : list et) : list (option tview) :=
  flat_map (fun k => match transform_kind k with
                     | Some (t, n) => [match load_transform (e_num en) t n k with Ok v => Some v | Raise _ => None end]
                     | None => []
                     end) kids.
Definition spec_cs (en : env) (kids : list et) : list (option nview) :=
  flat_map (fun k => if has_own a_node k then [read_node en k]
                     else if is_child_tag k
                          then [match load_leaf en k with Ok (IChild c) => Some c | _ => None end]
                          else []) kids.

Lemma read_node_unfold : forall en u o h a t kids,
  read_node en (ET u o h a t kids) =
  if forallb is_known_tag kids then
    match all_some (spec_ts en kids), all_some (spec_cs en kids) with
    | Some ts, Some cs => Some (NNode u (attr a_id a) (name_or_id a) ts cs)
    | _, _ => None
    end
  else None.
Proof. intros. reflexivity. Qed.

Lemma has_own_eq : forall t k, has_own t k = true -> eown k = Some t.
Proof.
  intros t k H. unfold has_own in H. destruct (eown k) as [u|]; [|discriminate].
  apply N.eqb_eq in H. now subst.
Qed.

Lemma has_own_other : forall t t' k, eown k = Some t -> N.eqb t t' = false -> has_own t' k = false.
Proof. intros t t' k E H. unfold has_own. now rewrite E. Qed.

Lemma node_not_transform : forall k, has_own a_node k = true -> transform_kind k = None.
Proof. intros k H. unfold transform_kind. now rewrite (has_own_eq _ _ H). Qed.

Lemma transform_tags : forall t n, transform_arity t = Some n ->
  t = a_translate \/ t = a_rotate \/ t = a_scale \/ t = a_matrix \/ t = a_lookat.
Proof.
  intros t n H. unfold transform_arity in H.
  destruct (N.eqb t a_translate) eqn:E1; [apply N.eqb_eq in E1; auto|].
  destruct (N.eqb t a_rotate) eqn:E2; [apply N.eqb_eq in E2; auto|].
  destruct (N.eqb t a_scale) eqn:E3; [apply N.eqb_eq in E3; auto|].
  destruct (N.eqb t a_matrix) eqn:E4; [apply N.eqb_eq in E4; auto 6|].
  destruct (N.eqb t a_lookat) eqn:E5; [apply N.eqb_eq in E5; auto 6|discriminate].
Qed.

Lemma transform_not_child : forall k tn, transform_kind k = Some tn -> is_child_tag k = false /\ has_own a_node k = false.
Proof.
  intros k [t n] H. unfold transform_kind in H. destruct (eown k) as [u|] eqn:E; [|discriminate].
  destruct (transform_arity u) as [m|] eqn:A; [|discriminate].
  unfold is_child_tag, has_own. rewrite E.
  destruct (transform_tags _ _ A) as [->|[->|[->|[->| ->]]]]; split; reflexivity.
Qed.

Lemma load_leaf_cases : forall en k it, has_own a_node k = false -> load_leaf en k = Ok it ->
  match it with
  | ITransform tv => exists t n, transform_kind k = Some (t, n) /\ load_transform (e_num en) t n k = Ok tv
  | IChild c => transform_kind k = None /\ is_child_tag k = true
  | ISkip => transform_kind k = None /\ is_child_tag k = false /\ has_own a_asset k = true
  end.
Proof.
  intros en k it Hn H. unfold load_leaf in H.
  destruct (transform_kind k) as [[t n]|] eqn:TK.
  - destruct (load_transform (e_num en) t n k) as [tv|] eqn:L; [|discriminate].
    injection H as <-. exists t, n. auto.
  - unfold is_child_tag. rewrite Hn.
    destruct (has_own a_instance_geometry k) eqn:G.
    { destruct (load_instance en a_instance_geometry (e_geoms en) true k); [|discriminate]. injection H as <-. auto. }
    destruct (has_own a_instance_camera k) eqn:C.
    { destruct (load_instance en a_instance_camera (e_cams en) false k); [|discriminate]. injection H as <-. auto. }
    destruct (has_own a_instance_light k) eqn:L.
    { destruct (load_instance en a_instance_light (e_lights en) false k); [|discriminate]. injection H as <-. auto. }
    destruct (has_own a_instance_controller k) eqn:CT.
    { destruct (load_instance en a_instance_controller (e_ctrls en) true k); [|discriminate]. injection H as <-. auto. }
    destruct (has_own a_instance_node k) eqn:IN.
    { destruct (load_nodenode en k); [|discriminate]. injection H as <-. auto. }
    destruct (has_own a_extra k) eqn:EX.
    { injection H as <-. auto. }
    destruct (has_own a_asset k) eqn:AS; [|discriminate].
    injection H as <-. auto.
Qed.

Lemma node_loop_spec : forall en ks,
  Forall (fun k => forall v, load_node en k = Ok v -> read_node en k = Some v) ks ->
  forall ts cs ts' cs', node_loop en ks ts cs = Ok (ts', cs') ->
  exists dts dcs, ts' = ts ++ dts /\ cs' = cs ++ dcs /\
                  all_some (spec_ts en ks) = Some dts /\ all_some (spec_cs en ks) = Some dcs /\
                  forallb is_known_tag ks = true.
Proof.
  intros en ks F. induction F as [|k r Hk _ IH]; intros ts cs ts' cs' H.
  - simpl in H. injection H as <- <-. exists [], []. rewrite !app_nil_r. auto.
  - simpl in H. unfold spec_ts, spec_cs. simpl flat_map. fold (spec_ts en r). fold (spec_cs en r).
    destruct (has_own a_node k) eqn:Hn.
    + destruct (load_node en k) as [v|] eqn:L; [|discriminate].
      destruct (IH _ _ _ _ H) as (dts & dcs & -> & -> & A & B & K).
      rewrite (node_not_transform _ Hn). rewrite (Hk _ eq_refl). simpl. rewrite A, B. simpl.
      exists dts, (v :: dcs). rewrite <- app_assoc. repeat split; try reflexivity.
      unfold is_known_tag, is_child_tag. rewrite Hn. simpl. exact K.
    + destruct (load_leaf en k) as [it|] eqn:L; [|discriminate].
      pose proof (load_leaf_cases _ _ _ Hn L) as C.
      destruct it as [tv|c|].
      * destruct C as (t & n & TK & LT). destruct (IH _ _ _ _ H) as (dts & dcs & -> & -> & A & B & K).
        destruct (transform_not_child _ _ TK) as [NC _].
        rewrite TK, LT, NC. simpl. rewrite A, B. simpl.
        exists (tv :: dts), dcs. rewrite <- app_assoc. repeat split; try reflexivity.
        unfold is_known_tag. rewrite TK, NC. simpl. rewrite orb_true_r. exact K.
      * destruct C as (TK & CT). destruct (IH _ _ _ _ H) as (dts & dcs & -> & -> & A & B & K).
        rewrite TK, CT. simpl. rewrite A, B. simpl.
        exists dts, (c :: dcs). rewrite <- app_assoc. repeat split; try reflexivity.
        unfold is_known_tag. rewrite CT. simpl. exact K.
      * destruct C as (TK & CT & AS). destruct (IH _ _ _ _ H) as (dts & dcs & -> & -> & A & B & K).
        rewrite TK, CT. simpl. rewrite A, B.
        exists dts, dcs. repeat split; try reflexivity.
        unfold is_known_tag. rewrite CT, AS. simpl. exact K.
Qed.

Theorem load_node_is_read_node : forall en e v, load_node en e = Ok v -> read_node en e = Some v.
Proof.
  intros en e. induction e as [u o h a t kids IH] using et_ind'. intros v H.
  rewrite load_node_unfold in H. rewrite read_node_unfold.
  destruct (node_loop en kids [] []) as [[ts cs]|] eqn:L; [|discriminate]. injection H as <-.
  destruct (node_loop_spec en kids IH _ _ _ _ L) as (dts & dcs & -> & -> & A & B & K).
  rewrite K, A, B. reflexivity.
Qed.

(* the explicit reading of the statement *)
Theorem load_node_explicit : forall en u o h a t kids v,
  load_node en (ET u o h a t kids) = Ok v ->
  exists ts cs,
    v = NNode u (attr a_id a) (match attr a_name a with Some n => Some n | None => attr a_id a end) ts cs /\
    (* transforms: the transform elements among the children, in document order, kind and parameters *)
    map Some ts = spec_ts en kids /\
    (* children: the node / instance / extra elements among the children, in document order *)
    map Some cs = spec_cs en kids /\
    (* nested nodes are read the same way *)
    (forall k w, In k kids -> load_node en k = Ok w -> read_node en k = Some w).
Proof.
  intros en u o h a t kids v H. pose proof (load_node_is_read_node _ _ _ H) as R.
  rewrite load_node_unfold in H.
  destruct (node_loop en kids [] []) as [[ts cs]|] eqn:L; [|discriminate]. injection H as <-.
  exists ts, cs. split; [reflexivity|].
  assert (F : Forall (fun k => forall v, load_node en k = Ok v -> read_node en k = Some v) kids)
    by (rewrite Forall_forall; intros k _ w; apply load_node_is_read_node).
  destruct (node_loop_spec en kids F _ _ _ _ L) as (dts & dcs & E1 & E2 & A & B & K).
  simpl in E1, E2. subst dts dcs.
  assert (AS : forall {X} (l : list (option X)) r, all_some l = Some r -> map Some r = l).
  { intros X l. induction l as [|[x|] l IHl]; intros r Hr; simpl in Hr; try discriminate.
    - injection Hr as <-. reflexivity.
    - destruct (all_some l) as [r'|]; [|discriminate]. injection Hr as <-. simpl. now rewrite (IHl r'). }
  split; [now apply AS|]. split; [now apply AS|].
  intros k w _. apply load_node_is_read_node.
Qed.
