(* C05 / C19-adjacent: the per-vertex split of a skin's <v> stream is direct indexing with the prefix sums
   of <vcount> as row offsets. *)
From Coq Require Import List Bool ZArith NArith Lia.
From PC Require Import Base.Atoms Base.Xml Base.Outcome Base.Py Model.LoadPrim Model.Namespace Model.LoadDoc
                       Proofs.LoadPrim.
Import ListNotations.
Local Open Scope nat_scope.

Lemma skin_split_nonneg : forall nind vc idx blocks, skin_split nind vc idx = Ok blocks -> Forall (fun c => (0 <= c)%Z) vc.
Proof.
  intros nind vc. induction vc as [|c r IH]; intros idx blocks H; [constructor|].
  simpl in H. destruct (c <? 0)%Z eqn:C; [discriminate|]. apply Z.ltb_ge in C.
  destruct (Nat.ltb (length idx) (nind * Z.to_nat c)); [discriminate|].
  destruct (skin_split nind r (skipn (nind * Z.to_nat c) idx)) as [rest|] eqn:R; [|discriminate].
  constructor; [exact C|eapply IH; eauto].
Qed.

Lemma sumZ_nonneg : forall l, Forall (fun c => (0 <= c)%Z) l -> (0 <= sumZ l)%Z.
Proof. intros l F. induction F as [|x l Hx _ IH]; [simpl; lia|]. rewrite sumZ_cons. lia. Qed.

Lemma Forall_firstn {A} (P : A -> Prop) : forall n l, Forall P l -> Forall P (firstn n l).
Proof. induction n as [|n IH]; intros [|x l] F; simpl; try constructor; inversion F; subst; auto. Qed.

Theorem skin_split_spec : forall nind vc idx blocks,
  nind <> 0 -> skin_split nind vc idx = Ok blocks ->
  length blocks = length vc /\
  forall i j o, i < length vc -> j < Z.to_nat (nth i vc 0%Z) -> o < nind ->
    nth o (nth j (nth i blocks []) []) 0%Z = spec_skin_index nind o vc idx i j.
Proof.
  intros nind vc. induction vc as [|c r IH]; intros idx blocks Hn H.
  - simpl in H. destruct idx; [|discriminate]. injection H as <-. split; [reflexivity|]. intros i j o Hi. simpl in Hi. lia.
  - pose proof (skin_split_nonneg _ _ _ _ H) as NN. inversion NN as [|? ? C NR]; subst.
    simpl in H. destruct (c <? 0)%Z; [discriminate|].
    destruct (Nat.ltb (length idx) (nind * Z.to_nat c)) eqn:LT; [discriminate|]. apply Nat.ltb_ge in LT.
    destruct (skin_split nind r (skipn (nind * Z.to_nat c) idx)) as [rest|] eqn:R; [|discriminate].
    injection H as <-. destruct (IH _ _ Hn R) as [LR IHr]. split; [simpl; now rewrite LR|].
    intros i j o Hi Hj Ho. unfold spec_skin_index, skin_at. destruct i as [|i].
    + simpl nth in *. simpl firstn. simpl sumZ. simpl Z.to_nat.
      rewrite nth_chunk_row; [|rewrite firstn_length; lia|exact Hj|exact Ho].
      rewrite nth_firstn_lt; [reflexivity|]. nia.
    + simpl nth at 2. simpl nth in Hj. simpl in Hi.
      rewrite (IHr i j o) by (try assumption; lia). unfold spec_skin_index, skin_at.
      rewrite nth_skipn_add. f_equal.
      change (firstn (S i) (c :: r)) with (c :: firstn i r). rewrite sumZ_cons.
      pose proof (sumZ_nonneg _ (Forall_firstn _ i _ NR)). rewrite Z2Nat.inj_add by assumption. lia.
Qed.

(* what Skin exposes as joint_index / weight_index: the column of the input's offset *)
Corollary skin_index_views : forall nind vc idx blocks off,
  nind <> 0 -> off < nind -> skin_split nind vc idx = Ok blocks ->
  forall i j, i < length vc -> j < Z.to_nat (nth i vc 0%Z) ->
    nth j (col off (nth i blocks [])) 0%Z = spec_skin_index nind off vc idx i j.
Proof.
  intros nind vc idx blocks off Hn Ho H i j Hi Hj. destruct (skin_split_spec _ _ _ _ Hn H) as [L S].
  unfold col. rewrite <- (S i j off Hi Hj Ho).
  assert (LB : length (nth i blocks []) = Z.to_nat (nth i vc 0%Z)).
  { clear S Hj j. revert idx blocks H L i Hi. induction vc as [|c r IH]; intros idx blocks H L i Hi; [simpl in Hi; lia|].
    simpl in H. destruct (c <? 0)%Z; [discriminate|]. destruct (Nat.ltb (length idx) (nind * Z.to_nat c)); [discriminate|].
    destruct (skin_split nind r (skipn (nind * Z.to_nat c) idx)) as [rest|] eqn:R; [|discriminate]. injection H as <-.
    destruct i as [|i]; [simpl; apply chunk_length|]. simpl. apply (IH _ _ R); [simpl in L; lia|simpl in Hi; lia]. }
  rewrite (nth_map_in _ 0%Z []) by (rewrite LB; exact Hj). reflexivity.
Qed.
