(* C04 - the bookkeeping clauses at the level of a whole <mesh> as the writer model emits it
   (Model/EmitDoc.v: emit_geometry): every failure counter is zero, for all geometry models. *)
From Coq Require Import List Bool ZArith NArith Lia.
From PC Require Import Base.Atoms Base.Xml Model.Bookkeeping Model.EmitDoc Proofs.BookProofs.
Import ListNotations.

Definition mesh_of (g : geometry) : xml :=
  el a_mesh [] None
     ([emit_source (g_src0 g)] ++ map emit_source (g_sources g) ++ [emit_vertices (g_vid g) (g_vref g)] ++
      map (fun p => emit_prim (redirect_prim (g_vid g) (g_vref g) p)) (g_prims g)).

Lemma mesh_of_emitted : forall g, xkids (emit_geometry g) = mesh_of g :: (if g_ds g then [emit_ds_extra a_GOOGLEEARTH [TInt 1%Z]] else []).
Proof. reflexivity. Qed.

Lemma prim_tag_cases : forall p, xtag (emit_prim p) = a_triangles \/ xtag (emit_prim p) = a_lines \/
                                 xtag (emit_prim p) = a_polylist \/ xtag (emit_prim p) = a_polygons.
Proof. intros [k i x m]. destruct k; cbn; auto. Qed.

Lemma prim_ns : forall p, xns (emit_prim p) = tns.
Proof. intros [k i x m]. destruct k; reflexivity. Qed.

Lemma prim_not_tag : forall p t, t <> a_triangles -> t <> a_lines -> t <> a_polylist -> t <> a_polygons ->
  is_tag tns t (emit_prim p) = false.
Proof.
  intros p t H1 H2 H3 H4. unfold is_tag. destruct (N.eqb (xtag (emit_prim p)) t) eqn:E; [|apply andb_false_r].
  apply N.eqb_eq in E. destruct (prim_tag_cases p) as [Q|[Q|[Q|Q]]]; congruence.
Qed.

Lemma prim_is_prim : forall p, is_prim (emit_prim p) = true.
Proof. intros [k i x m]. destruct k; reflexivity. Qed.

Lemma filter_app4 : forall (f : xml -> bool) a b c d, filter f (a ++ b ++ c ++ d) = filter f a ++ filter f b ++ filter f c ++ filter f d.
Proof. intros. now rewrite !filter_app. Qed.

Lemma filter_all : forall A (f : A -> bool) l, (forall x, In x l -> f x = true) -> filter f l = l.
Proof. induction l as [|a l IH]; simpl; intros H; auto. rewrite (H a (or_introl eq_refl)). f_equal. auto. Qed.

Lemma filter_none : forall A (f : A -> bool) l, (forall x, In x l -> f x = false) -> filter f l = [].
Proof. induction l as [|a l IH]; simpl; intros H; auto. rewrite (H a (or_introl eq_refl)). auto. Qed.

Section Mesh.
  Variable g : geometry.
  Let prims := map (fun p => emit_prim (redirect_prim (g_vid g) (g_vref g) p)) (g_prims g).
  Let srcs := emit_source (g_src0 g) :: map emit_source (g_sources g).

  Lemma in_prims : forall x, In x prims -> exists p, In p (g_prims g) /\ x = emit_prim (redirect_prim (g_vid g) (g_vref g) p).
  Proof. intros x H. apply in_map_iff in H as [p [<- Hp]]. eauto. Qed.

  Lemma mesh_sources : findall tns a_source (mesh_of g) = srcs.
  Proof.
    unfold findall, mesh_of. cbn [xkids el]. rewrite filter_app4. fold prims.
    rewrite (filter_none _ _ prims).
    2:{ intros x Hx. destruct (in_prims x Hx) as [p [_ ->]]. apply prim_not_tag; discriminate. }
    rewrite (filter_all _ _ (map emit_source (g_sources g))).
    2:{ intros x Hx. apply in_map_iff in Hx as [s [<- _]]. reflexivity. }
    cbn. now rewrite app_nil_r.
  Qed.

  Lemma mesh_prims : filter is_prim (xkids (mesh_of g)) = prims.
  Proof.
    unfold mesh_of. cbn [xkids el]. rewrite filter_app4. fold prims.
    rewrite (filter_all _ _ prims).
    2:{ intros x Hx. destruct (in_prims x Hx) as [p [_ ->]]. apply prim_is_prim. }
    rewrite (filter_none _ _ (map emit_source (g_sources g))).
    2:{ intros x Hx. apply in_map_iff in Hx as [s [<- _]]. reflexivity. }
    reflexivity.
  Qed.

  Lemma mesh_vertices : vertices_ids (mesh_of g) = [g_vid g].
  Proof.
    unfold vertices_ids, findall, mesh_of. cbn [xkids el]. rewrite filter_app4. fold prims.
    rewrite (filter_none _ _ prims).
    2:{ intros x Hx. destruct (in_prims x Hx) as [p [_ ->]]. apply prim_not_tag; discriminate. }
    rewrite (filter_none _ _ (map emit_source (g_sources g))).
    2:{ intros x Hx. apply in_map_iff in Hx as [s [<- _]]. reflexivity. }
    reflexivity.
  Qed.
End Mesh.

Lemma source_ok_fails : forall x, source_ok x = true -> source_fails x = (0, 0, 0, 0)%nat.
Proof.
  intros x H. unfold source_ok in H. destruct (source_fails x) as [[[a b] c] d].
  destruct a, b, c, d; try discriminate. reflexivity.
Qed.

Lemma fold_add4_zero : forall l, Forall (fun v => v = (0, 0, 0, 0)%nat) l -> fold_right add4 (0, 0, 0, 0)%nat l = (0, 0, 0, 0)%nat.
Proof. induction 1; simpl; auto. subst. rewrite IHForall. reflexivity. Qed.

Lemma wf_prim_redirect : forall vid vref p, wf_prim p -> wf_prim (redirect_prim vid vref p).
Proof.
  intros vid vref [k ins idx m] [Hoff Hk].
  assert (Hmap : map im_offset (map (redirect vid vref) ins) = map im_offset ins).
  { rewrite map_map. apply map_ext. intros i. unfold redirect. destruct (_ && _); reflexivity. }
  split.
  - cbn [pm_inputs redirect_prim]. apply Forall_forall. intros i Hi. apply in_map_iff in Hi as [j [<- Hj]].
    rewrite Forall_forall in Hoff. specialize (Hoff j Hj). unfold redirect. destruct (_ && _); exact Hoff.
  - unfold nind_m, Bookkeeping.flat in *. cbn [pm_kind pm_inputs pm_index redirect_prim] in *. rewrite Hmap. exact Hk.
Qed.

Theorem mesh_bookkeeping : forall g,
  wf_src (g_src0 g) -> Forall wf_src (g_sources g) -> Forall wf_prim (g_prims g) ->
  Forall (vertex_sources_agree (g_vref g)) (g_prims g) ->
  mesh_fails (mesh_of g) = [0; 0; 0; 0; 0; 0]%nat.
Proof.
  intros g H0 Hs Hp Hv. unfold mesh_fails. rewrite mesh_sources, mesh_prims, mesh_vertices.
  rewrite fold_add4_zero.
  2:{ constructor; [apply source_ok_fails, source_counts, H0|].
      apply Forall_forall. intros v Hv'. apply in_map_iff in Hv' as [x [<- Hx]]. apply in_map_iff in Hx as [s [<- Hin]].
      apply source_ok_fails, source_counts. rewrite Forall_forall in Hs. auto. }
  rewrite !map_map. rewrite !sum_zero; [reflexivity | |].
  - apply Forall_forall. intros n Hn. apply in_map_iff in Hn as [p [<- Hin]].
    apply vertex_inputs_point_to_vertices. rewrite Forall_forall in Hv. auto.
  - apply Forall_forall. intros n Hn. apply in_map_iff in Hn as [p [<- Hin]].
    pose proof (prim_counts _ (wf_prim_redirect (g_vid g) (g_vref g) p (proj1 (Forall_forall _ _) Hp p Hin))) as Hc.
    unfold prim_ok in Hc. now apply Nat.eqb_eq in Hc.
Qed.
