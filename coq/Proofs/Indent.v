(* Proofs about Model/Indent.v: one absorption lemma,
     indent_g mk1 l (indent_g mk2 l t) = indent_g mk1 l t   (mk2 produces blank slots)
   whose three instances are idempotence of indent, "indent rewrites nothing but the slots
   strip erases", and "the result of indent depends on the stripped tree only". *)
From Coq Require Import List Bool Arith NArith Lia.
From PC Require Import Model.Indent.
Import ListNotations.

Section WInd.
  Variable P : wtree -> Prop.
  Hypothesis H : forall lab tx tl kids, Forall P kids -> P (WNode lab tx tl kids).
  Fixpoint wtree_ind' (t : wtree) : P t :=
    match t with
    | WNode lab tx tl kids =>
        H lab tx tl kids
          ((fix go (l : list wtree) : Forall P l :=
              match l with
              | [] => Forall_nil P
              | c :: r => Forall_cons c (wtree_ind' c) (go r)
              end) kids)
    end.
End WInd.

Fixpoint ind_kids (mk : nat -> slot) (level : nat) (ks : list wtree) : list wtree :=
  match ks with
  | [] => []
  | k :: r => match r with
              | [] => [ind_g mk (S level) (Some level) k]
              | _ :: _ => ind_g mk (S level) (Some (S level)) k :: ind_kids mk level r
              end
  end.

Lemma ind_g_unfold mk l tm lab tx tl kids :
  ind_g mk l tm (WNode lab tx tl kids) =
  WNode lab (match kids with [] => tx | _ :: _ => fill_g mk tx (S l) end) (ftail_g mk tm tl)
        (ind_kids mk l kids).
Proof.
  simpl. f_equal.
  induction kids as [|k r IH]; [reflexivity|].
  destruct r as [|k2 r2]; [reflexivity|].
  simpl in *. f_equal. exact IH.
Qed.

Lemma ind_kids_nil_iff mk l ks : ind_kids mk l ks = [] <-> ks = [].
Proof. destruct ks as [|k [|k2 r]]; simpl; split; intro E; try reflexivity; discriminate. Qed.

Definition blank_maker (mk : nat -> slot) := forall n, blankish (mk n) = true.

Lemma fill_fill mk1 mk2 s n m : blank_maker mk2 ->
  fill_g mk1 (fill_g mk2 s n) m = fill_g mk1 s m.
Proof.
  intro B. unfold fill_g. destruct (blankish s) eqn:E.
  - rewrite B. reflexivity.
  - rewrite E. reflexivity.
Qed.

Lemma ftail_ftail mk1 mk2 tm s : blank_maker mk2 ->
  ftail_g mk1 tm (ftail_g mk2 tm s) = ftail_g mk1 tm s.
Proof. intro B. destruct tm; simpl; [apply fill_fill; exact B|reflexivity]. Qed.

(* the absorption lemma on the tail-passing form *)
Lemma ind_absorb mk1 mk2 : blank_maker mk2 ->
  forall t l tm, ind_g mk1 l tm (ind_g mk2 l tm t) = ind_g mk1 l tm t.
Proof.
  intro B. induction t as [lab tx tl kids IH] using wtree_ind'. intros l tm.
  rewrite (ind_g_unfold mk2). rewrite !(ind_g_unfold mk1).
  f_equal.
  - destruct kids as [|k r]; [reflexivity|].
    destruct (ind_kids mk2 l (k :: r)) eqn:E.
    + apply ind_kids_nil_iff in E. discriminate.
    + apply fill_fill; exact B.
  - apply ftail_ftail; exact B.
  - clear tx tl lab. induction kids as [|k r IHr]; [reflexivity|].
    inversion IH as [|? ? Hk Hr]; subst.
    destruct r as [|k2 r2].
    + simpl. rewrite Hk. reflexivity.
    + specialize (IHr Hr).
      change (ind_kids mk2 l (k :: k2 :: r2)) with
        (ind_g mk2 (S l) (Some (S l)) k :: ind_kids mk2 l (k2 :: r2)).
      change (ind_kids mk1 l (k :: k2 :: r2)) with
        (ind_g mk1 (S l) (Some (S l)) k :: ind_kids mk1 l (k2 :: r2)).
      destruct (ind_kids mk2 l (k2 :: r2)) as [|y ys] eqn:E.
      * apply ind_kids_nil_iff in E. discriminate.
      * change (ind_kids mk1 l (ind_g mk2 (S l) (Some (S l)) k :: y :: ys)) with
          (ind_g mk1 (S l) (Some (S l)) (ind_g mk2 (S l) (Some (S l)) k) :: ind_kids mk1 l (y :: ys)).
        rewrite Hk, IHr. reflexivity.
Qed.

Lemma tail_mode_S l t : tail_mode (S l) t = Some (S l).
Proof. destruct t as [lab tx tl [|k r]]; reflexivity. Qed.

Lemma tail_mode_ind mk l tm t : tail_mode l (ind_g mk l tm t) = tail_mode l t.
Proof.
  destruct t as [lab tx tl kids]. rewrite ind_g_unfold. simpl.
  destruct kids as [|k r]; [reflexivity|].
  destruct (ind_kids mk l (k :: r)) eqn:E; [apply ind_kids_nil_iff in E; discriminate|reflexivity].
Qed.

Lemma set_tail_ind mk l k : blank_maker mk ->
  set_tail_g mk l (ind_g mk (S l) (Some (S l)) k) = ind_g mk (S l) (Some l) k.
Proof.
  intro B. destruct k as [lab tx tl kids]. rewrite !ind_g_unfold. simpl.
  f_equal. apply fill_fill; exact B.
Qed.

(* the line-by-line model is the tail-passing traversal *)
Lemma indent_is_ind mk : blank_maker mk ->
  forall t l, indent_g mk l t = ind_g mk l (tail_mode l t) t.
Proof.
  intro B. induction t as [lab tx tl kids IH] using wtree_ind'. intro l.
  rewrite ind_g_unfold.
  destruct kids as [|k r].
  - simpl. destruct (Nat.eqb l 0); reflexivity.
  - cbn [indent_g tail_mode]. f_equal.
    remember (k :: r) as ks eqn:Eks. clear Eks k r tx tl lab.
    induction ks as [|k r IHr]; [reflexivity|].
    inversion IH as [|? ? Hk Hr]; subst.
    destruct r as [|k2 r2].
    + simpl. rewrite Hk, tail_mode_S. rewrite set_tail_ind by exact B. reflexivity.
    + specialize (IHr Hr).
      change (map (indent_g mk (S l)) (k :: k2 :: r2)) with
        (indent_g mk (S l) k :: map (indent_g mk (S l)) (k2 :: r2)).
      change (ind_kids mk l (k :: k2 :: r2)) with
        (ind_g mk (S l) (Some (S l)) k :: ind_kids mk l (k2 :: r2)).
      rewrite <- IHr. rewrite Hk, tail_mode_S.
      simpl. reflexivity.
Qed.

Lemma indent_absorb mk1 mk2 : blank_maker mk1 -> blank_maker mk2 ->
  forall l t, indent_g mk1 l (indent_g mk2 l t) = indent_g mk1 l t.
Proof.
  intros B1 B2 l t.
  rewrite (indent_is_ind mk2 B2 t l).
  rewrite (indent_is_ind mk1 B1).
  rewrite tail_mode_ind. rewrite ind_absorb by exact B2.
  rewrite <- (indent_is_ind mk1 B1). reflexivity.
Qed.

Lemma blank_SInd : blank_maker SInd. Proof. intro n; reflexivity. Qed.
Lemma blank_absent : blank_maker (fun _ => SAbsent). Proof. intro n; reflexivity. Qed.

Lemma indent_idempotent l t : indent l (indent l t) = indent l t.
Proof. apply indent_absorb; apply blank_SInd. Qed.

Lemma strip_indent l t : strip l (indent l t) = strip l t.
Proof. apply indent_absorb; [apply blank_absent|apply blank_SInd]. Qed.

Lemma indent_strip l t : indent l (strip l t) = indent l t.
Proof. apply indent_absorb; [apply blank_SInd|apply blank_absent]. Qed.

Lemma indent_canonical l t1 t2 : strip l t1 = strip l t2 -> indent l t1 = indent l t2.
Proof. intro E. rewrite <- (indent_strip l t1), <- (indent_strip l t2), E. reflexivity. Qed.

(* strip is a projection, and it never touches a label, the shape, or a non-blank slot *)
Lemma strip_strip l t : strip l (strip l t) = strip l t.
Proof. apply indent_absorb; apply blank_absent. Qed.

Fixpoint texts (t : wtree) : list N :=
  let 'WNode lab tx tl kids := t in
  lab :: (match tx with SText a => [a] | _ => [] end) ++ (match tl with SText a => [a] | _ => [] end)
      ++ flat_map texts kids.

Lemma fill_text mk s n : blank_maker mk ->
  match fill_g mk s n with SText a => [a] | _ => [] end = match s with SText a => [a] | _ => [] end.
Proof.
  intro B. unfold fill_g. destruct s; simpl; try reflexivity;
  specialize (B n); destruct (mk n); try reflexivity; discriminate.
Qed.

Lemma ind_texts mk : blank_maker mk -> forall t l tm, texts (ind_g mk l tm t) = texts t.
Proof.
  intro B. induction t as [lab tx tl kids IH] using wtree_ind'. intros l tm.
  rewrite ind_g_unfold. simpl. f_equal. f_equal.
  - destruct kids; [reflexivity|apply fill_text; exact B].
  - f_equal.
    + destruct tm; simpl; [apply fill_text; exact B|reflexivity].
    + clear tx tl lab. induction kids as [|k r IHr]; [reflexivity|].
      inversion IH as [|? ? Hk Hr]; subst. specialize (IHr Hr).
      destruct r as [|k2 r2].
      * simpl. rewrite Hk. reflexivity.
      * change (ind_kids mk l (k :: k2 :: r2)) with
          (ind_g mk (S l) (Some (S l)) k :: ind_kids mk l (k2 :: r2)).
        remember (ind_kids mk l (k2 :: r2)) as X eqn:EX.
        remember (k2 :: r2) as Y eqn:EY.
        simpl. rewrite Hk, IHr. reflexivity.
Qed.

(* labels and non-blank text survive indent, in document order *)
Lemma indent_texts l t : texts (indent l t) = texts t.
Proof. unfold indent. rewrite (indent_is_ind SInd blank_SInd). apply ind_texts. apply blank_SInd. Qed.
