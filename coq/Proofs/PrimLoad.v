(* The loader's source algorithm (reshape / drop every third value) is the SPEC's positional
   reading; hence the load path composed with the constructor is the constructor on the
   independently read inputs. *)
From Coq Require Import List Bool Arith ZArith NArith Lia.
From PC Require Import Base.Outcome Model.IndexTable Model.PrimCtor Model.PrimIter Model.PrimLoad
  Proofs.IndexTable Proofs.PrimCtor Proofs.PrimIter.
Import ListNotations.

Lemma chunk_pos {A} (d : A) w n (l : list A) : n * w <= length l ->
  chunk w n l = map (fun r => map (fun c => nth (r * w + c) l d) (seq 0 w)) (seq 0 n).
Proof.
  intro H. apply (nth_ext _ _ [] []).
  - now rewrite chunk_length, map_length, seq_length.
  - intros j Hj. rewrite chunk_length in Hj. rewrite nth_chunk by exact Hj.
    rewrite (nth_map' _ 0) by (now rewrite seq_length). rewrite seq_nth by exact Hj. simpl.
    change (firstn w (skipn (j * w) l)) with (slice (j * w) w l).
    rewrite (slice_pick d) by nia. reflexivity.
Qed.

Lemma drop_third_nth (d : Z) r : forall l c, 3 * (S r) <= length l -> c < 2 ->
  nth (r * 2 + c) (drop_third l) d = nth (r * 3 + c) l d.
Proof.
  induction r as [|r IH]; intros l c Hl Hc.
  - destruct l as [|a [|b [|z rest]]]; simpl in Hl; try lia.
    destruct c as [|[|c]]; try lia; reflexivity.
  - destruct l as [|a [|b [|z rest]]]; simpl in Hl; try lia.
    change (drop_third (a :: b :: z :: rest)) with (a :: b :: drop_third rest).
    replace (S r * 2 + c) with (S (S (r * 2 + c))) by lia.
    replace (S r * 3 + c) with (S (S (S (r * 3 + c)))) by lia. simpl.
    apply IH; [simpl in *; lia|exact Hc].
Qed.

Lemma load_source_is_read x : stride_of x <> 0 -> load_source x = read_source x.
Proof.
  intro Hs. unfold load_source, read_source, float_source_load, stride_of, ncomp_of in *.
  destruct (x_stp x).
  - destruct (Nat.eqb_spec (length (x_data x) mod 3) 0) as [E|]; [|reflexivity].
    apply Nat.mod_divides in E; [|lia]. destruct E as [c Hc].
    unfold float_source. rewrite (drop_third_length c _ Hc).
    replace (2 * c mod 2) with 0 by (rewrite Nat.mul_comm, Nat.mod_mul; lia). simpl Nat.eqb. cbv iota.
    replace (2 * c / 2) with c by (rewrite Nat.mul_comm, Nat.div_mul; lia).
    replace (length (x_data x) / 3) with c by (rewrite Hc, Nat.mul_comm, Nat.div_mul; lia).
    f_equal. f_equal. rewrite (chunk_pos 0%Z) by (rewrite (drop_third_length c _ Hc); lia).
    apply map_ext_in. intros r Hr. apply in_seq in Hr.
    apply map_ext_in. intros k Hk. apply in_seq in Hk.
    apply drop_third_nth; lia.
  - unfold float_source. destruct (x_nparams x) as [|n] eqn:En; [contradiction|].
    destruct (Nat.eqb_spec (length (x_data x) mod S n) 0) as [E|]; [|reflexivity].
    f_equal. f_equal. apply chunk_pos.
    apply Nat.mod_divides in E; [|lia]. destruct E as [c Hc]. rewrite Hc.
    rewrite (Nat.mul_comm (S n) c), Nat.div_mul by lia. lia.
Qed.

Lemma omapM_ext_in {A B} (f g : A -> outcome B) l : (forall x, In x l -> f x = g x) -> omapM f l = omapM g l.
Proof.
  induction l as [|x l IH]; intro H; simpl; [reflexivity|].
  rewrite (H x) by (now left). rewrite IH by (intros; apply H; now right). reflexivity.
Qed.

Lemma load_prim_is_read kd es xins mat s :
  (forall x, In (XSrc x) es -> stride_of x <> 0) ->
  load_prim kd es xins mat s = read_prim kd es xins mat s.
Proof.
  intro H. unfold load_prim, read_prim, prim_of_document.
  assert (E : read_entries load_source es = read_entries read_source es).
  { unfold read_entries. apply omapM_ext_in. intros [x|d] Hin; [|reflexivity].
    rewrite (load_source_is_read x (H x Hin)). reflexivity. }
  rewrite E. reflexivity.
Qed.
