(* The real-number instance of the generated transform definitions: cos, sin, PI, sqrt are
   the standard library's.  (Depends on the three axioms of the stdlib reals, nothing else.) *)
From Coq Require Import List ZArith Reals Lra RealField.
From PC Require Import Base.Mat Gen.Transforms Model.Transforms Proofs.Transforms.
Import ListNotations.
Local Open Scope R_scope.

Definition Rops : ops R := Ops R 0 1 Rplus Rmult Rminus Ropp Rdiv Rinv sqrt cos sin PI IZR.
Definition Rops_ring : ring_theory (o0 Rops) (o1 Rops) (oadd Rops) (omul Rops) (osub Rops) (oopp Rops) (@eq R) := RTheory.

Lemma cos_sin_unit : forall a, cos a * cos a + sin a * sin a = 1.
Proof. intro a. pose proof (sin2_cos2 a) as H. unfold Rsqr in H. lra. Qed.

Lemma quarter_turn : 90 * PI / IZR 180 = PI / 2.
Proof. replace (IZR 180) with 180 by reflexivity. field. Qed.

(* <rotate>0 0 1 90</rotate> maps the x axis onto the y axis *)
Lemma rotate_z_90 : mapply Rplus Rmult (rotate_matrix Rops 0 0 1 90) (1, 0, 0, 0) = (0, 1, 0, 0).
Proof.
  rewrite (rotate_is_rotation_at_radians R Rops).
  rewrite (rot_z_turns_x_toward_y R Rops Rops_ring).
  cbn [ocos osin odiv omul opi oofZ o0 o1 Rops].
  change (Rdiv (90 * PI) (IZR 180)) with (90 * PI / IZR 180).
  rewrite quarter_turn, cos_PI2, sin_PI2. reflexivity.
Qed.
Lemma rotate_x_90 : mapply Rplus Rmult (rotate_matrix Rops 1 0 0 90) (0, 1, 0, 0) = (0, 0, 1, 0).
Proof.
  rewrite (rotate_is_rotation_at_radians R Rops), (rot_about_x R Rops Rops_ring).
  cbn [ocos osin odiv omul opi oofZ o0 o1 oopp Rops mapply m00 m01 m02 m03 m10 m11 m12 m13 m20 m21 m22 m23 m30 m31 m32 m33].
  change (Rdiv (90 * PI) (IZR 180)) with (90 * PI / IZR 180).
  rewrite quarter_turn, cos_PI2, sin_PI2. repeat apply f_equal2; ring.
Qed.

(* every <rotate> with a unit axis, at every angle in degrees, is a proper rotation about it *)
Lemma rotate_R_proper : forall x y z deg, x * x + y * y + z * z = 1 ->
  let M := rotate_matrix Rops x y z deg in
  mmul Rplus Rmult (mtrans M) M = mid 0 1 /\
  det3 Rplus Rmult Rminus M = 1 /\
  mapply Rplus Rmult M (x, y, z, 0) = (x, y, z, 0) /\
  trace3 Rplus M = 1 + 2 * cos (deg * PI / 180).
Proof.
  intros x y z deg Hax M. subst M. rewrite (rotate_is_rotation_at_radians R Rops).
  set (a := odiv Rops (omul Rops deg (opi Rops)) (oofZ Rops 180%Z)).
  assert (Hcs : omul Rops (ocos Rops a) (ocos Rops a) + omul Rops (osin Rops a) (osin Rops a) = 1)
    by apply cos_sin_unit.
  repeat split.
  - exact (rot_orthogonal R Rops Rops_ring x y z a Hcs Hax).
  - exact (rot_det R Rops Rops_ring x y z a Hcs Hax).
  - exact (rot_fixes_axis R Rops Rops_ring x y z a Hcs Hax).
  - transitivity (1 + (1 + 1) * cos a); [exact (rot_trace R Rops Rops_ring x y z a Hcs Hax)|].
    subst a. cbn [odiv omul opi oofZ Rops]. replace (IZR 180) with 180 by reflexivity.
    unfold Rdiv. ring.
Qed.

(* lookat: -Z goes to a POSITIVE multiple of interest - eye whenever the two differ *)
Lemma lookat_R_minus_z : forall eye interest up, eye <> interest ->
  exists k, 0 < k /\
    mapply Rplus Rmult (lookat_matrix Rops eye interest up) (0, 0, -1, 0) =
    direction 0 (vscale Rmult k (vsub Rminus interest eye)).
Proof.
  intros eye interest up Hne.
  set (d := vsub Rminus eye interest).
  exists (/ sqrt (vdot Rplus Rmult d d)). split.
  - apply Rinv_0_lt_compat. apply sqrt_lt_R0.
    destruct eye as [[e0 e1] e2], interest as [[i0 i1] i2]. subst d. cbn.
    assert (H : e0 - i0 <> 0 \/ e1 - i1 <> 0 \/ e2 - i2 <> 0).
    { destruct (Req_dec e0 i0) as [E0|]; [|left; lra].
      destruct (Req_dec e1 i1) as [E1|]; [|right; left; lra].
      destruct (Req_dec e2 i2) as [E2|]; [|right; right; lra].
      subst. elim Hne. reflexivity. }
    pose proof (Rle_0_sqr (e0 - i0)). pose proof (Rle_0_sqr (e1 - i1)). pose proof (Rle_0_sqr (e2 - i2)).
    unfold Rsqr in *.
    destruct H as [H|[H|H]]; apply Rsqr_pos_lt in H; unfold Rsqr in H; lra.
  - apply (lookat_minus_z R Rops Rops_ring). intros p q. reflexivity.
Qed.

(* ... and the frame is right-handed: the determinant of the linear part is positive whenever
   up is not parallel to the viewing direction *)
Lemma lookat_R_right_handed : forall eye interest up,
  let front := toUnitVec Rops (vsub Rminus eye interest) in
  let fu := vcross Rmult Rminus front up in
  vdot Rplus Rmult fu fu > 0 ->
  det3 Rplus Rmult Rminus (lookat_matrix Rops eye interest up) > 0.
Proof.
  intros eye interest up front fu Hpos.
  pose proof (lookat_det R Rops Rops_ring (fun p q => eq_refl) eye interest up) as H.
  cbv zeta in H. fold front in H. fold fu in H.
  change (oinv Rops) with Rinv in H. change (osqrt Rops) with sqrt in H. change (omul Rops) with Rmult in H.
  change (oadd Rops) with Rplus in H. change (osub Rops) with Rminus in H.
  rewrite H. apply Rmult_lt_0_compat; [|exact Hpos].
  apply Rinv_0_lt_compat. apply sqrt_lt_R0. exact Hpos.
Qed.
