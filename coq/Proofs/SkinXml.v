(* Lemmas about Model/SkinXml.v: the loader's navigation of a well-formed <skin> / <morph>
   element yields exactly the declarative reading. *)
From Coq Require Import List Bool Arith ZArith NArith Lia.
From PC Require Import Base.Atoms Base.Outcome Base.Xml Model.Skin Model.SkinXml.
Import ListNotations.

(* ------------------------------------------------------------------ generic *)
Lemma omapM_ok_map {A B} (f : A -> outcome B) (g : A -> B) :
  (forall x y, f x = Ok y -> y = g x) ->
  forall l ys, omapM f l = Ok ys -> ys = map g l.
Proof.
  intros Hfg. induction l as [|x l IH]; intros ys H; simpl in H.
  - inversion H. reflexivity.
  - destruct (f x) as [y|] eqn:Ex; [|discriminate].
    destruct (omapM f l) as [ys'|] eqn:El; [|discriminate].
    inversion H; subst. simpl. rewrite (Hfg _ _ Ex), (IH _ eq_refl). reflexivity.
Qed.

Lemma omapM_complete {A B} (f : A -> outcome B) (l : list A) :
  Forall (fun x => exists y, f x = Ok y) l -> exists ys, omapM f l = Ok ys.
Proof.
  induction 1 as [|x l [y Hy] _ [ys Hys]]; simpl.
  - eexists; reflexivity.
  - rewrite Hy, Hys. eexists; reflexivity.
Qed.

Lemma all_some_ok_map {A B} (f : A -> option B) (g : A -> B) :
  (forall x y, f x = Some y -> y = g x) ->
  forall l ys, all_some f l = Some ys -> ys = map g l.
Proof.
  intros Hfg. induction l as [|x l IH]; intros ys H; simpl in H.
  - inversion H. reflexivity.
  - destruct (f x) as [y|] eqn:Ex; [|discriminate].
    destruct (all_some f l) as [ys'|] eqn:El; [|discriminate].
    inversion H; subst. simpl. rewrite (Hfg _ _ Ex), (IH _ eq_refl). reflexivity.
Qed.

Lemma all_some_complete {A B} (f : A -> option B) (l : list A) :
  Forall (fun x => f x <> None) l -> exists ys, all_some f l = Some ys.
Proof.
  induction 1 as [|x l Hx _ [ys Hys]]; simpl.
  - eexists; reflexivity.
  - destruct (f x) as [y|]; [|congruence]. rewrite Hys. eexists; reflexivity.
Qed.

Lemma combine_map {A B C} (f : A -> B) (g : A -> C) (l : list A) :
  combine (map f l) (map g l) = map (fun x => (f x, g x)) l.
Proof. induction l; simpl; congruence. Qed.

Section Facts.
  Variable ns : atom.
  Variable nums : list Z.
  Variable geoms : list atom.

  Local Notation tokZ := (tokZ nums).
  Local Notation numbers := (numbers nums).

  Lemma numbers_of_all_some l zs : all_some tokZ l = Some zs -> zs = numbers l.
  Proof.
    apply all_some_ok_map. intros x y H. rewrite H. reflexivity.
  Qed.

  Lemma joints_input_read x p : joints_input x = Ok p -> p = (sem_of x, ref_or_default x).
  Proof.
    unfold joints_input, source_ref, ref_or_default.
    destruct (xattr a_source x) as [[a|[|] a|z]|]; intro H; inversion H; reflexivity.
  Qed.

  Lemma offset_of_read x z : offset_of x = Ok z ->
    z = match xattr a_offset x with Some (AInt z) => z | _ => 0%Z end.
  Proof.
    unfold offset_of. destruct (xattr a_offset x) as [[a|h a|z']|]; intro H; inversion H; reflexivity.
  Qed.

  Lemma tok_count_read t n : tok_count t = Ok n -> n = match t with TInt z => Z.to_nat z | _ => 0 end.
  Proof.
    unfold tok_count. destruct t as [z|k|a]; try discriminate.
    destruct (z <? 0)%Z; intro H; inversion H; reflexivity.
  Qed.

  (* ---------------------------------------------------------------- <skin> *)
  Lemma bind_stage_read node b : bind_stage ns nums node = Ok b -> b = read_bind ns nums node.
  Proof.
    unfold bind_stage, read_bind, text_toks.
    destruct (find ns a_bind_shape_matrix node) as [e|]; [|intro H; inversion H; reflexivity].
    destruct (xtext e) as [l|]; [|discriminate].
    destruct (all_some tokZ l) as [zs|] eqn:Ez; [|discriminate].
    intro H; inversion H. rewrite (numbers_of_all_some _ _ Ez). reflexivity.
  Qed.

  Lemma vw_stage_read vw vins vcounts index :
    vw_stage ns nums vw = Ok (vins, vcounts, index) ->
    vins = read_vw_inputs ns vw /\
    vcounts = read_counts (text_toks (find ns a_vcount vw)) /\
    index = numbers (text_toks (find ns a_v vw)).
  Proof.
    unfold vw_stage, read_vw_inputs. intro H.
    destruct (find ns a_v vw) as [vnode|]; [|discriminate].
    destruct (find ns a_vcount vw) as [vcnode|]; [|discriminate].
    destruct (all_some tokZ (text_toks (Some vnode))) as [ix|] eqn:Ei; [|discriminate].
    destruct (omapM tok_count (text_toks (Some vcnode))) as [vc|] eqn:Ec; [|discriminate].
    destruct (omapM offset_of (findall ns a_input vw)) as [offs|] eqn:Eo; [|discriminate].
    destruct (omapM joints_input (findall ns a_input vw)) as [vi|] eqn:Ev; [|discriminate].
    inversion H; subst; clear H.
    rewrite (omapM_ok_map _ _ joints_input_read _ _ Ev).
    rewrite (omapM_ok_map _ _ offset_of_read _ _ Eo).
    rewrite (omapM_ok_map _ _ tok_count_read _ _ Ec).
    rewrite (numbers_of_all_some _ _ Ei).
    rewrite combine_map, map_map. repeat split.
  Qed.

  (* soundness: whatever the loader extracts is the declarative reading *)
  Lemma skin_parts_read sc node ctrl d :
    skin_parts ns nums geoms sc node ctrl = Ok d -> d = read_skin ns nums sc node.
  Proof.
    unfold skin_parts, read_skin. intro H.
    destruct (Nat.ltb _ 3); [discriminate|].
    destruct (xattr a_source node) as [[a|[|] g|z]|]; try discriminate.
    destruct (negb (memN g geoms)); [discriminate|].
    destruct (bind_stage ns nums node) as [bind|] eqn:Eb; [|discriminate].
    destruct (Nat.ltb _ 2); [discriminate|].
    destruct (omapM joints_input (findall_path ns [a_joints; a_input] node)) as [jins|] eqn:Ej; [|discriminate].
    destruct (find ns a_vertex_weights node) as [vw|]; [|discriminate].
    destruct (vw_stage ns nums vw) as [[[vins vcounts] index]|] eqn:Ev; [|discriminate].
    destruct (xattr a_id ctrl); [|discriminate].
    inversion H; subst; clear H.
    destruct (vw_stage_read _ _ _ _ Ev) as (-> & -> & ->).
    rewrite (bind_stage_read _ _ Eb), (omapM_ok_map _ _ joints_input_read _ _ Ej). reflexivity.
  Qed.

  (* completeness: on a well-formed <skin> the loader's navigation does not fail *)
  Lemma has_ref_input x : has_ref x -> exists p, joints_input x = Ok p.
  Proof. intros [id H]. unfold joints_input, source_ref. rewrite H. eexists; reflexivity. Qed.

  Lemma skin_parts_complete sc node ctrl :
    wf_skin ns nums geoms sc node ctrl -> exists d, skin_parts ns nums geoms sc node ctrl = Ok d.
  Proof.
    intros [Hs (g & Hg & Hm) Hb (Hj2 & Hjr) (vw & vnode & vcnode & Hvw & Hv & Hvc & Nv & Nc & Rv & Ov) Hid].
    unfold skin_parts.
    assert (E1 : Nat.ltb (count_distinct (map fst sc)) 3 = false) by (apply Nat.ltb_ge; exact Hs).
    rewrite E1, Hg, Hm. simpl negb. cbv iota.
    assert (Eb : exists b, bind_stage ns nums node = Ok b).
    { unfold bind_stage. destruct (find ns a_bind_shape_matrix node) as [b|] eqn:Ef; [|eexists; reflexivity].
      destruct (Hb b eq_refl) as (l & Hl & Hn). rewrite Hl.
      destruct (all_some_complete tokZ l Hn) as [zs Hz]. rewrite Hz. eexists; reflexivity. }
    destruct Eb as [b Eb]. rewrite Eb.
    assert (E2 : Nat.ltb (length (findall_path ns [a_joints; a_input] node)) 2 = false) by (apply Nat.ltb_ge; exact Hj2).
    rewrite E2.
    destruct (omapM_complete joints_input _ (Forall_impl _ has_ref_input Hjr)) as [jins Ej]. rewrite Ej.
    rewrite Hvw.
    assert (Ev : exists r, vw_stage ns nums vw = Ok r).
    { unfold vw_stage. rewrite Hv, Hvc.
      destruct (all_some_complete tokZ _ Nv) as [ix Hix]. rewrite Hix.
      assert (Cn : Forall (fun t => exists n, tok_count t = Ok n) (text_toks (Some vcnode))).
      { eapply Forall_impl; [|exact Nc]. intros t (z & -> & Hz). unfold tok_count.
        destruct (Z.ltb_spec z 0); [lia|]. eexists; reflexivity. }
      destruct (omapM_complete _ _ Cn) as [vc Hc]. rewrite Hc.
      assert (On : Forall (fun x => exists z, offset_of x = Ok z) (findall ns a_input vw)).
      { eapply Forall_impl; [|exact Ov]. intros x (z & Hz). unfold offset_of. rewrite Hz. eexists; reflexivity. }
      destruct (omapM_complete _ _ On) as [offs Ho]. rewrite Ho.
      destruct (omapM_complete joints_input _ (Forall_impl _ has_ref_input Rv)) as [vi Hvi]. rewrite Hvi.
      eexists; reflexivity. }
    destruct Ev as [[[vins vcounts] index] Ev]. rewrite Ev.
    destruct (xattr a_id ctrl); [|congruence]. eexists; reflexivity.
  Qed.

  (* on a well-formed <skin>, loading the element is decoding its declarative reading *)
  Lemma load_skin_x_read sc node ctrl :
    wf_skin ns nums geoms sc node ctrl ->
    load_skin_x ns nums geoms sc node ctrl = load_skin (read_skin ns nums sc node).
  Proof.
    intro W. destruct (skin_parts_complete _ _ _ W) as [d Hd].
    unfold load_skin_x. rewrite Hd, (skin_parts_read _ _ _ _ Hd). reflexivity.
  Qed.

  (* ... and whenever the element loads at all, it is the decoding of the reading *)
  Lemma load_skin_x_ok sc node ctrl v :
    load_skin_x ns nums geoms sc node ctrl = Ok v -> load_skin (read_skin ns nums sc node) = Ok v.
  Proof.
    unfold load_skin_x. destruct (skin_parts ns nums geoms sc node ctrl) as [d|] eqn:Hd; [|discriminate].
    rewrite (skin_parts_read _ _ _ _ Hd). auto.
  Qed.

  (* ---------------------------------------------------------------- <morph> *)
  Lemma morph_input_read sc x p : morph_input sc x = Ok p -> p = (sem_of x, ref_or_default x).
  Proof.
    unfold morph_input, source_ref, ref_or_default.
    destruct (xattr a_source x) as [[a|[|] a|z]|]; try discriminate.
    destruct (lookup sc a); intro H; inversion H; reflexivity.
  Qed.

  Lemma morph_parts_read sc node d :
    morph_parts ns geoms sc node = Ok d -> d = read_morph ns geoms sc node.
  Proof.
    unfold morph_parts, read_morph. intro H.
    destruct (xattr a_source node) as [[a|[|] b|z]|]; try discriminate.
    destruct (negb (memN b geoms)); [discriminate|].
    destruct (negb (method_ok node)); [discriminate|].
    destruct (Nat.ltb _ 2); [discriminate|].
    destruct (omapM (morph_input sc) (findall_path ns [a_targets; a_input] node)) as [ins|] eqn:Ei; [|discriminate].
    inversion H. rewrite (omapM_ok_map _ _ (morph_input_read sc) _ _ Ei). reflexivity.
  Qed.

  Lemma morph_parts_complete sc node :
    wf_morph ns geoms sc node -> exists d, morph_parts ns geoms sc node = Ok d.
  Proof.
    intros [(b & Hb & Hm) Hk (H2 & Hr)]. unfold morph_parts. rewrite Hb, Hm, Hk. simpl negb. cbv iota.
    assert (E2 : Nat.ltb (length (findall_path ns [a_targets; a_input] node)) 2 = false) by (apply Nat.ltb_ge; exact H2).
    rewrite E2.
    assert (Fi : Forall (fun x => exists p, morph_input sc x = Ok p) (findall_path ns [a_targets; a_input] node)).
    { eapply Forall_impl; [|exact Hr]. intros x (id & Hx & Hl). unfold morph_input, source_ref. rewrite Hx.
      destruct (lookup sc id); [|congruence]. eexists; reflexivity. }
    destruct (omapM_complete _ _ Fi) as [ins Hi]. rewrite Hi. eexists; reflexivity.
  Qed.

  Lemma load_morph_x_read sc node ctrl :
    wf_morph ns geoms sc node -> xattr a_id ctrl <> None ->
    load_morph_x ns geoms sc node ctrl = load_morph (read_morph ns geoms sc node).
  Proof.
    intros W Hid. destruct (morph_parts_complete _ _ W) as [d Hd].
    unfold load_morph_x. rewrite Hd, (morph_parts_read _ _ _ Hd).
    destruct (load_morph _) as [r|]; [|reflexivity]. destruct (xattr a_id ctrl); congruence.
  Qed.

  (* Controller.load looks at <skin> first, then <morph>; the sources are the <source> children of
     that element *)
  Lemma load_controller_skin ctrl node sc :
    find ns a_skin ctrl = Some node ->
    omapM (load_source ns nums) (controller_sources ns a_skin ctrl) = Ok sc ->
    wf_skin ns nums geoms sc node ctrl ->
    load_controller ns nums geoms ctrl =
    match load_skin (read_skin ns nums sc node) with Ok v => Ok (LSkin v) | Raise e => Raise e end.
  Proof.
    intros Hf Hs W. unfold load_controller. rewrite Hf, Hs, (load_skin_x_read _ _ _ W). reflexivity.
  Qed.

  Lemma load_controller_morph ctrl node sc :
    find ns a_skin ctrl = None -> find ns a_morph ctrl = Some node ->
    omapM (load_source ns nums) (controller_sources ns a_morph ctrl) = Ok sc ->
    wf_morph ns geoms sc node -> xattr a_id ctrl <> None ->
    load_controller ns nums geoms ctrl =
    match load_morph (read_morph ns geoms sc node) with Ok (b, l) => Ok (LMorph b l) | Raise e => Raise e end.
  Proof.
    intros Hn Hf Hs W Hid. unfold load_controller. rewrite Hn, Hf, Hs, (load_morph_x_read _ _ _ W Hid). reflexivity.
  Qed.
End Facts.
