(* Lemmas for C17 (Model/Purity.v).  The Section hypotheses are the footprint discipline;
   they are what the correspondence measures on the implementation on every run. *)
From Coq Require Import List NArith Bool Lia.
From PC Require Import Model.Purity.
Import ListNotations.

Lemma loc_eqb_eq : forall a b, loc_eqb a b = true <-> a = b.
Proof.
  intros [a1 a2] [b1 b2]. unfold loc_eqb. simpl. rewrite andb_true_iff, !N.eqb_eq.
  split; [intros [H1 H2]; subst; reflexivity | intro H; inversion H; auto].
Qed.

Lemma loc_eqb_refl : forall a, loc_eqb a a = true.
Proof. intro a. apply loc_eqb_eq. reflexivity. Qed.

Lemma upd_same : forall h l v, upd h l v l = v.
Proof. intros. unfold upd. rewrite loc_eqb_refl. reflexivity. Qed.

Lemma upd_other : forall h l v l', loc_eqb l' l = false -> upd h l v l' = h l'.
Proof. intros. unfold upd. rewrite H. reflexivity. Qed.

Lemma obs_eq_refl : forall h, obs_eq h h.
Proof. intros h l _. reflexivity. Qed.

Lemma obs_eq_sym : forall h h', obs_eq h h' -> obs_eq h' h.
Proof. intros h h' H l Hl. symmetry. apply H. exact Hl. Qed.

Lemma obs_eq_trans : forall a b c, obs_eq a b -> obs_eq b c -> obs_eq a c.
Proof. intros a b c H1 H2 l Hl. rewrite (H1 l Hl). apply H2. exact Hl. Qed.

Lemma obs_eq_snapshot : forall h h', obs_eq h h' <-> (forall l, snapshot h l = snapshot h' l).
Proof.
  intros h h'. unfold snapshot. split.
  - intros H l. destruct (observable l) eqn:E; [apply H; exact E | reflexivity].
  - intros H l E. specialize (H l). rewrite E in H. exact H.
Qed.

Lemma upd_hidden_obs_eq : forall h l v, observable l = false -> obs_eq (upd h l v) h.
Proof.
  intros h l v Hh l' Hl'. unfold upd. destruct (loc_eqb l' l) eqn:E; [|reflexivity].
  apply loc_eqb_eq in E. subst. congruence.
Qed.

(* every declared class is hidden: proved, not assumed *)
Lemma declared_hidden : forall k c, In c (declared k) -> hidden_class c = true.
Proof.
  intros k c. unfold declared.
  destruct (N.eqb k k_triangleset); [simpl; intros [H|[H|[]]]; subst; reflexivity|].
  destruct (N.eqb k k_bound_triangleset); [simpl; intros [H|[H|[]]]; subst; reflexivity|].
  destruct (N.eqb k k_image_data); [simpl; intros [H|[]]; subst; reflexivity|].
  match goal with |- In c (if ?b then _ else _) -> _ => destruct b end;
    simpl; [intros [H|[]]; subst; reflexivity | intros []].
Qed.

Lemma writes_of_kind_hidden : forall k l, writes_of_kind k l = true -> observable l = false.
Proof.
  intros k l H. unfold writes_of_kind, in_classes in H. apply existsb_exists in H.
  destruct H as [c [Hin Heq]]. apply N.eqb_eq in Heq. subst c.
  unfold observable. rewrite (declared_hidden k (fst l) Hin). reflexivity.
Qed.

Section Footprint.
  Variable query : Type.
  Variable writes : query -> loc -> bool.
  Variable exec : query -> heap -> heap * val.
  Variable save : heap -> heap * val.
  Variable coherent : heap -> Prop.
  Variable owned : query -> list loc.

  (* the footprint discipline *)
  Hypothesis writes_hidden : forall q l, writes q l = true -> observable l = false.
  Hypothesis frame : forall q h l, writes q l = false -> fst (exec q h) l = h l.
  Hypothesis result_reads_observable :
    forall q h h', coherent h -> coherent h' -> obs_eq h h' -> snd (exec q h) = snd (exec q h').
  Hypothesis exec_coherent : forall q h, coherent h -> coherent (fst (exec q h)).
  Hypothesis save_reads_observable :
    forall h h', obs_eq h h' -> obs_eq (fst (save h)) (fst (save h')) /\ snd (save h) = snd (save h').
  Hypothesis save_coherent : forall h, coherent h -> coherent (fst (save h)).
  Hypothesis owned_fresh : forall q l, In l (owned q) -> fst l = c_fresh.
  Hypothesis coherent_frame_fresh : forall h l v, fst l = c_fresh -> coherent h -> coherent (upd h l v).

  Lemma exec_obs_eq : forall q h, obs_eq (fst (exec q h)) h.
  Proof.
    intros q h l Hl. apply frame. destruct (writes q l) eqn:E; [|reflexivity].
    apply writes_hidden in E. congruence.
  Qed.

  Lemma exec_snapshot : forall q h l, snapshot (fst (exec q h)) l = snapshot h l.
  Proof. intros q h. apply obs_eq_snapshot. apply exec_obs_eq. Qed.

  Lemma repeatable : forall q h, coherent h ->
    snd (exec q (fst (exec q h))) = snd (exec q h).
  Proof.
    intros q h Hc. apply result_reads_observable.
    - apply exec_coherent. exact Hc.
    - exact Hc.
    - apply exec_obs_eq.
  Qed.

  Lemma run_coherent : forall ops h, coherent h -> coherent (fst (run query exec save h ops)).
  Proof.
    induction ops as [|o r IH]; intros h Hc; simpl; [exact Hc|].
    destruct o as [q|].
    - destruct (exec q h) as [h1 v] eqn:E1.
      destruct (run query exec save h1 r) as [h2 out] eqn:E2. simpl.
      specialize (IH h1). rewrite E2 in IH. simpl in IH. apply IH.
      pose proof (exec_coherent q h Hc) as H. rewrite E1 in H. exact H.
    - destruct (save h) as [h1 v] eqn:E1.
      destruct (run query exec save h1 r) as [h2 out] eqn:E2. simpl.
      specialize (IH h1). rewrite E2 in IH. simpl in IH. apply IH.
      pose proof (save_coherent h Hc) as H. rewrite E1 in H. exact H.
  Qed.

  (* the history theorem, generalised over two observably equal starting heaps *)
  Lemma history_gen : forall ops h h', obs_eq h h' ->
    obs_eq (fst (run query exec save h ops)) (fst (run query exec save h' (saves_only query ops))) /\
    saved_outputs (snd (run query exec save h ops)) =
    saved_outputs (snd (run query exec save h' (saves_only query ops))).
  Proof.
    induction ops as [|o r IH]; intros h h' Heq; simpl.
    - split; [exact Heq | reflexivity].
    - destruct o as [q|]; simpl.
      + destruct (exec q h) as [h1 v] eqn:E1.
        assert (H1 : obs_eq h1 h').
        { apply obs_eq_trans with h; [|exact Heq].
          pose proof (exec_obs_eq q h) as H. rewrite E1 in H. exact H. }
        specialize (IH h1 h' H1).
        destruct (run query exec save h1 r) as [h2 out] eqn:E2. simpl in *.
        exact IH.
      + destruct (save h) as [h1 v] eqn:E1. destruct (save h') as [h1' v'] eqn:E1'.
        pose proof (save_reads_observable h h' Heq) as [Ho Hv].
        rewrite E1, E1' in Ho, Hv. simpl in Ho, Hv. subst v'.
        specialize (IH h1 h1' Ho).
        destruct (run query exec save h1 r) as [h2 out] eqn:E2.
        destruct (run query exec save h1' (saves_only query r)) as [h2' out'] eqn:E2'.
        simpl in *. destruct IH as [IHa IHb]. split; [exact IHa | unfold saved_outputs in *; simpl; f_equal; exact IHb].
  Qed.

  Lemma history : forall ops h,
    obs_eq (fst (run query exec save h ops)) (fst (run query exec save h (saves_only query ops))) /\
    saved_outputs (snd (run query exec save h ops)) =
    saved_outputs (snd (run query exec save h (saves_only query ops))).
  Proof. intros. apply history_gen. apply obs_eq_refl. Qed.

  (* a query answers after any history what it answers on the never-queried twin *)
  Lemma result_vs_twin : forall ops q h, coherent h ->
    snd (exec q (fst (run query exec save h ops))) =
    snd (exec q (fst (run query exec save h (saves_only query ops)))).
  Proof.
    intros ops q h Hc. apply result_reads_observable.
    - apply run_coherent. exact Hc.
    - apply run_coherent. exact Hc.
    - apply (proj1 (history ops h)).
  Qed.

  Lemma saves_only_queries : forall qs : list query, saves_only query (map Q qs) = [].
  Proof. induction qs; simpl; auto. Qed.

  (* with no save in between the answer is the one at the start *)
  Lemma result_after_queries : forall qs q h, coherent h ->
    snd (exec q (fst (run query exec save h (map Q qs)))) = snd (exec q h).
  Proof.
    intros qs q h Hc. rewrite (result_vs_twin (map Q qs) q h Hc).
    rewrite saves_only_queries. reflexivity.
  Qed.

  (* writing into the arrays a bound primitive owns *)
  Lemma owned_write : forall q h l v, In l (owned q) ->
    obs_eq (upd (fst (exec q h)) l v) h.
  Proof.
    intros q h l v Hin. apply obs_eq_trans with (fst (exec q h)); [|apply exec_obs_eq].
    apply upd_hidden_obs_eq. unfold observable. rewrite (owned_fresh q l Hin). reflexivity.
  Qed.

  Lemma owned_write_results : forall q q' h l v, coherent h -> In l (owned q) ->
    snd (exec q' (upd (fst (exec q h)) l v)) = snd (exec q' h).
  Proof.
    intros q q' h l v Hc Hin. apply result_reads_observable.
    - apply coherent_frame_fresh; [apply (owned_fresh q l Hin) | apply exec_coherent; exact Hc].
    - exact Hc.
    - apply owned_write. exact Hin.
  Qed.
End Footprint.

(* ---- the concrete instance meets every hypothesis *)
Lemma t_writes_hidden : forall q l, twrites q l = true -> observable l = false.
Proof.
  intros q l. destruct q; simpl; intro H.
  - apply loc_eqb_eq in H. subst. reflexivity.
  - apply orb_true_iff in H. destruct H as [H|H]; apply loc_eqb_eq in H; subst; reflexivity.
  - discriminate.
Qed.

Lemma t_frame : forall q h l, twrites q l = false -> fst (texec q h) l = h l.
Proof.
  intros q h l. destruct q; simpl; intro H.
  - destruct (N.eqb (h l_cache) 0); simpl; [apply upd_other; exact H | reflexivity].
  - apply orb_false_iff in H. destruct H as [H1 H2].
    rewrite upd_other by exact H2. rewrite upd_other by exact H1. reflexivity.
  - reflexivity.
Qed.

Lemma t_tri_obs : forall h h', obs_eq h h' -> tri_of h = tri_of h'.
Proof.
  intros h h' H. unfold tri_of. rewrite (H l_src eq_refl), (H l_idx eq_refl). reflexivity.
Qed.

Lemma t_result : forall q h h', tcoherent h -> tcoherent h' -> obs_eq h h' ->
  snd (texec q h) = snd (texec q h').
Proof.
  intros q h h' Hc Hc' Ho. pose proof (t_tri_obs h h' Ho) as Ht. destruct q; simpl.
  - destruct (N.eqb (h l_cache) 0) eqn:E; destruct (N.eqb (h' l_cache) 0) eqn:E'; simpl.
    + exact Ht.
    + destruct Hc' as [Hc'|Hc']; [apply N.eqb_neq in E'; contradiction | congruence].
    + destruct Hc as [Hc|Hc]; [apply N.eqb_neq in E; contradiction | congruence].
    + destruct Hc as [Hc|Hc]; [apply N.eqb_neq in E; contradiction|].
      destruct Hc' as [Hc'|Hc']; [apply N.eqb_neq in E'; contradiction | congruence].
  - rewrite (Ho l_src eq_refl). reflexivity.
  - rewrite (Ho l_src eq_refl), (Ho l_idx eq_refl). reflexivity.
Qed.

Lemma t_exec_coherent : forall q h, tcoherent h -> tcoherent (fst (texec q h)).
Proof.
  intros q h Hc. destruct q; simpl.
  - destruct (N.eqb (h l_cache) 0) eqn:E; simpl; [|exact Hc].
    right. unfold tri_of. rewrite upd_same.
    rewrite !upd_other by reflexivity. reflexivity.
  - unfold tcoherent, tri_of in *. rewrite !upd_other by reflexivity. exact Hc.
  - exact Hc.
Qed.

Lemma t_save_obs : forall h h', obs_eq h h' ->
  obs_eq (fst (tsave h)) (fst (tsave h')) /\ snd (tsave h) = snd (tsave h').
Proof.
  intros h h' Ho. unfold tsave. simpl. rewrite (Ho l_src eq_refl), (Ho l_idx eq_refl).
  split; [|reflexivity]. intros l Hl. unfold upd. destruct (loc_eqb l l_xml); [reflexivity | apply Ho; exact Hl].
Qed.

Lemma t_save_coherent : forall h, tcoherent h -> tcoherent (fst (tsave h)).
Proof.
  intros h Hc. unfold tsave, tcoherent, tri_of in *. simpl. rewrite !upd_other by reflexivity. exact Hc.
Qed.

Lemma t_owned_fresh : forall q l, In l (towned q) -> fst l = c_fresh.
Proof. intros q l. destruct q; simpl; intros H; try contradiction. destruct H as [H|[H|[]]]; subst; reflexivity. Qed.

Lemma t_coherent_frame : forall h l v, fst l = c_fresh -> tcoherent h -> tcoherent (upd h l v).
Proof.
  intros h [c i] v Hf Hc. simpl in Hf. subst c. unfold tcoherent, tri_of in *.
  rewrite !upd_other by reflexivity. exact Hc.
Qed.

Lemma t_heap0_coherent : tcoherent theap0.
Proof. left. reflexivity. Qed.
