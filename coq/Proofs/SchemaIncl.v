(* C04 - soundness of the inclusion decision: if [included G S] holds, every document that
   conforms to the grammar G (and whose declared ids are distinct) is accepted by [validate S].
   Generic in G and S: nothing here depends on the regenerated schema term. *)
From Coq Require Import List Bool ZArith NArith Lia.
From PC Require Import Base.Atoms Base.Xml Model.SchemaSyntax Model.Schema Model.EmitGrammar Model.SchemaIncl.
Import ListNotations.

(* ---------------------------------------------------------------- small facts *)

Lemma opt_eqb_N_eq : forall a b : option N, opt_eqb N.eqb a b = true -> a = b.
Proof.
  intros [a|] [b|] H; simpl in H; try discriminate; auto.
  apply N.eqb_eq in H. now subst.
Qed.

Lemma re_eqb_eq : forall a b, re_eqb a b = true -> a = b.
Proof.
  induction a as [| |n t| |a1 IH1 a2 IH2|a1 IH1 a2 IH2|a1 IH1]; destruct b; simpl; intro H; try discriminate; auto.
  - apply andb_true_iff in H as [H1 H2]. apply N.eqb_eq in H1, H2. now subst.
  - apply andb_true_iff in H as [H1 H2]. now rewrite (IH1 _ H1), (IH2 _ H2).
  - apply andb_true_iff in H as [H1 H2]. now rewrite (IH1 _ H1), (IH2 _ H2).
  - now rewrite (IH1 _ H).
Qed.

Lemma re_mem_In : forall q l, re_mem q l = true -> In q l.
Proof.
  intros q l H. unfold re_mem in H. apply existsb_exists in H as [y [Hy He]].
  apply re_eqb_eq in He. now subst.
Qed.

Lemma deriv_ext : forall m1 m2 q, (forall n, m1 n = m2 n) -> deriv m1 q = deriv m2 q.
Proof.
  intros m1 m2 q H. induction q; simpl; auto.
  - now rewrite H.
  - now rewrite IHq1, IHq2.
  - now rewrite IHq1, IHq2.
  - now rewrite IHq.
Qed.

Lemma kid_ty_ext : forall m1 m2 q, (forall n, m1 n = m2 n) -> kid_ty m1 q = kid_ty m2 q.
Proof.
  intros m1 m2 q H. induction q; simpl; auto.
  - now rewrite H.
  - now rewrite IHq1, IHq2.
  - now rewrite IHq1, IHq2.
Qed.

Lemma find_use_In : forall n l u, find_use n l = Some u -> In u l /\ au_name u = n.
Proof.
  induction l as [|a l IH]; simpl; intros u H; try discriminate.
  destruct (N.eqb (au_name a) n) eqn:E.
  - inversion H; subst. split; auto. now apply N.eqb_eq.
  - destruct (IH _ H); auto.
Qed.

Lemma rule_of_In : forall r l ru, rule_of r l = Some ru -> In (r, ru) l.
Proof.
  induction l as [|[k v] l IH]; simpl; intros ru H; try discriminate.
  destruct (N.eqb k r) eqn:E.
  - inversion H; subst. apply N.eqb_eq in E. subst. now left.
  - right. now apply IH.
Qed.

(* ---------------------------------------------------------------- simple types *)

Section Simple.
  Variable lex : atom -> N.

  Lemma atom_incl_sound : forall g s v,
    atom_incl g s = true -> atom_ok lex g v = true -> atom_ok lex s v = true.
  Proof.
    intros g s v Hi Hg.
    destruct s as [|sb|slo shi| | |sv| |si sl sh|sm]; simpl in Hi.
    - reflexivity.
    - destruct g; try discriminate. apply N.eqb_eq in Hi. now subst.
    - destruct g as [|gb|glo ghi| | |gv| |gi gl gh|gm]; try discriminate.
      apply andb_true_iff in Hi as [Hlo Hhi]. simpl in Hg |- *.
      destruct v; try discriminate. apply andb_true_iff in Hg as [G1 G2].
      apply andb_true_iff; split.
      + unfold lo_incl in Hlo. destruct slo as [sl|]; simpl; auto.
        destruct glo as [gl|]; try discriminate. simpl in G1.
        apply Z.leb_le in Hlo, G1. apply Z.leb_le. lia.
      + unfold hi_incl in Hhi. destruct shi as [sh|]; simpl; auto.
        destruct ghi as [gh|]; try discriminate. simpl in G2.
        apply Z.leb_le in Hhi, G2. apply Z.leb_le. lia.
    - destruct g; try discriminate.
      + simpl in Hg |- *. destruct v; try discriminate; auto.
      + exact Hg.
    - destruct g; try discriminate. exact Hg.
    - destruct g as [|gb|glo ghi| | |gv| |gi gl gh|gm]; try discriminate.
      simpl in Hg |- *. destruct v; try discriminate.
      apply existsb_exists in Hg as [y [Hy He]]. apply N.eqb_eq in He. subst y.
      rewrite forallb_forall in Hi. exact (Hi _ Hy).
    - destruct g; try discriminate. exact Hg.
    - destruct g; discriminate.
    - destruct g; discriminate.
  Qed.

  Lemma st_incl_sound : forall g s vs,
    st_incl g s = true -> val_ok lex g vs = true -> val_ok lex s vs = true.
  Proof.
    intros g s vs Hi Hg.
    assert (Hatomic : forall s', s' = s ->
              match s' with SAnyString | SList _ _ _ | SUnion _ => False | _ => True end ->
              val_ok lex s vs = true).
    { intros s' -> Hs.
      assert (Hi' : atom_incl g s = true /\ match g with SList _ _ _ | SUnion _ => False | _ => True end).
      { destruct s; try contradiction; simpl in Hi; destruct g; try discriminate; split; auto. }
      destruct Hi' as [Hi' Hgk].
      destruct vs as [|v [|w r]].
      - destruct g; try contradiction; simpl in Hg; try discriminate;
          destruct s; try contradiction; simpl in Hi'; discriminate.
      - assert (Hgv : atom_ok lex g v = true) by (destruct g; try contradiction; exact Hg).
        pose proof (atom_incl_sound g s v Hi' Hgv) as Hsv.
        destruct s; try contradiction; exact Hsv.
      - destruct g; try contradiction; simpl in Hg; try discriminate;
          destruct s; try contradiction; simpl in Hi'; discriminate. }
    destruct s as [|sb|slo shi| | |sv| |si sl sh|sm] eqn:Es;
      try (apply (Hatomic s); [now subst | subst; exact I]); try (subst; eapply Hatomic; [reflexivity | exact I]).
    - reflexivity.
    - simpl in Hi. destruct g as [|gb|glo ghi| | |gv| |gi gl gh|gm]; try discriminate.
      apply andb_true_iff in Hi as [Hi Hhi]. apply andb_true_iff in Hi as [Hit Hlo].
      simpl in Hg |- *. apply andb_true_iff in Hg as [Hlen Hall].
      apply andb_true_iff; split.
      + unfold len_ok in *. apply andb_true_iff in Hlen as [L1 L2].
        apply Nat.leb_le in Hlo, L1. apply andb_true_iff; split.
        * apply Nat.leb_le. lia.
        * unfold nhi_incl in Hhi. destruct sh as [h|]; auto.
          destruct gh as [h'|]; try discriminate.
          apply Nat.leb_le in Hhi, L2. apply Nat.leb_le. lia.
      + rewrite forallb_forall in Hall |- *. intros v Hv.
        eapply atom_incl_sound; eauto.
    - simpl in Hi. discriminate.
  Qed.

  Lemma attrs_incl_sound : forall g s x,
    attrs_incl g s = true -> attrs_ok_l lex g x = true -> attrs_ok_l lex s x = true.
  Proof.
    intros g s x Hi Hg. unfold attrs_incl in Hi. unfold attrs_ok_l in *.
    apply andb_true_iff in Hi as [I1 I2]. apply andb_true_iff in Hg as [G1 G2].
    rewrite forallb_forall in I1, I2, G1, G2.
    apply andb_true_iff; split; apply forallb_forall.
    - intros nv Hnv. specialize (G1 _ Hnv).
      destruct (find_use (fst nv) g) as [u|] eqn:Fu; try discriminate.
      destruct (find_use_In _ _ _ Fu) as [Hin Hname].
      specialize (I1 _ Hin). rewrite Hname in I1.
      destruct (find_use (fst nv) s) as [w|]; try discriminate.
      eapply st_incl_sound; eauto.
    - intros w Hw. specialize (I2 _ Hw).
      destruct (au_req w) eqn:R; simpl in *; auto.
      destruct (find_use (au_name w) g) as [u|] eqn:Fu; try discriminate.
      destruct (find_use_In _ _ _ Fu) as [Hin Hname].
      specialize (G2 _ Hin). rewrite I2 in G2. simpl in G2. now rewrite Hname in G2.
  Qed.
End Simple.

(* ---------------------------------------------------------------- content models and documents *)

Local Arguments explore : simpl never.
Local Arguments closed : simpl never.

Section Sound.
  Variable G : grammar.
  Variable S : schema.
  Variable m : list (N * option N).
  Variable lex : atom -> N.
  Variable ef : nat.
  Hypothesis Hinc : included_with G S m ef = true.

  Lemma Hroot : root_ok G S m = true.
  Proof. unfold included_with in Hinc. now apply andb_true_iff in Hinc as [H _]. Qed.

  Lemma Hns : gg_ns G = s_tns S.
  Proof.
    pose proof Hroot as H. unfold root_ok in H.
    apply andb_true_iff in H as [H _]. apply andb_true_iff in H as [H _]. now apply N.eqb_eq.
  Qed.

  Lemma Hrules : forall r ru, rule_of r (gg_rules G) = Some ru -> rule_ok S m ef (r, ru) = true.
  Proof.
    intros r ru H. unfold included_with in Hinc. apply andb_true_iff in Hinc as [_ Hall].
    rewrite forallb_forall in Hall. apply Hall. now apply rule_of_In.
  Qed.

  Lemma tag_is_sym : forall t k, tag_is G t k = true -> forall n, sym_match S k n = N.eqb t n.
  Proof.
    intros t k H n. unfold tag_is in H. unfold sym_match. rewrite Hns in H.
    apply andb_true_iff in H as [H1 H2]. rewrite H1. simpl. apply N.eqb_eq in H2. now rewrite H2.
  Qed.

  Lemma tag_is_glob : forall t k, tag_is G t k = true -> glob S k = assoc t (s_globals S).
  Proof.
    intros t k H. unfold tag_is in H. unfold glob. rewrite Hns in H.
    apply andb_true_iff in H as [H1 H2]. rewrite H1. apply N.eqb_eq in H2. now rewrite H2.
  Qed.

  Lemma vel_lax_glob : forall f x, vel S lex f None x = vel S lex f (glob S x) x.
  Proof. intros [|f] x; simpl; auto. destruct (glob S x); reflexivity. Qed.

  Lemma pick_spec : forall cv alts k a, pick G cv alts k = Some a ->
    In a alts /\ tag_is G (fst a) k = true /\ cv (snd a) k = true.
  Proof.
    induction alts as [|b alts IH]; simpl; intros k a H; try discriminate.
    destruct (tag_is G (fst b) k && cv (snd b) k) eqn:E.
    - inversion H; subst. apply andb_true_iff in E as [E1 E2]. auto.
    - destruct (IH _ _ H) as [H1 H2]. auto.
  Qed.

  Section Fuel.
    Variable f : nat.
    Let cv := conf_el G lex f.
    Let v := vel S lex f.
    Hypothesis IHf : forall r x tgt, cv r x = true -> target m r = Some tgt ->
                                     (tgt = None -> glob S x = None) -> v tgt x = true.

    (* one child taken by an alternative that the simulation allowed *)
    Lemma step_run : forall q a k ks,
      tag_is G (fst a) k = true -> cv (snd a) k = true -> step_ok S m q a = true ->
      run_kids S v (dstep q a) ks = true -> run_kids S v q (k :: ks) = true.
    Proof.
      intros q [t r] k ks Ht Hc Hs Hr. simpl in Ht, Hc. simpl.
      rewrite (kid_ty_ext _ (N.eqb t) q (tag_is_sym _ _ Ht)).
      rewrite (deriv_ext _ (N.eqb t) q (tag_is_sym _ _ Ht)).
      unfold step_ok in Hs. unfold dstep in Hr. simpl in Hr.
      destruct (kid_ty (N.eqb t) q) as [[ty|]|] eqn:K; try discriminate.
      - destruct (target m r) as [[ty'|]|] eqn:T; try discriminate.
        apply N.eqb_eq in Hs. subst ty'.
        rewrite (IHf r k (Some ty) Hc T); [exact Hr | discriminate].
      - destruct (target m r) as [tgt|] eqn:T; try discriminate.
        apply opt_eqb_N_eq in Hs.
        assert (Hg : glob S k = tgt) by (rewrite (tag_is_glob _ _ Ht); exact Hs).
        unfold v at 1. rewrite vel_lax_glob. rewrite Hg.
        fold v. rewrite (IHf r k tgt Hc T); [exact Hr | intros ->; exact Hg].
    Qed.

    Lemma forallb_alt : forall (P : atom * N -> bool) alts a,
      forallb P alts = true -> In a alts -> P a = true.
    Proof. intros P alts a H Hin. rewrite forallb_forall in H. auto. Qed.

    Lemma sim_sound : forall items q kids,
      sim S m ef items q = true -> gmatch G cv items kids = true -> run_kids S v q kids = true.
    Proof.
      induction items as [|it rest IH]; intros q kids Hs Hg.
      - simpl in *. destruct kids; try discriminate. exact Hs.
      - destruct it as [alts|alts|alts]; cbn [sim gmatch] in Hs, Hg.
        + (* IOne *)
          destruct kids as [|k ks]; try discriminate.
          destruct (pick G cv alts k) as [a|] eqn:P; try discriminate.
          destruct (pick_spec _ _ _ _ P) as [Hin [Ht Hc]].
          pose proof (forallb_alt _ _ _ Hs Hin) as Ha. simpl in Ha.
          apply andb_true_iff in Ha as [Hstep Hsim].
          eapply step_run; eauto.
        + (* IOpt *)
          apply andb_true_iff in Hs as [Hskip Hs].
          destruct kids as [|k ks].
          * apply IH; auto.
          * destruct (pick G cv alts k) as [a|] eqn:P.
            -- destruct (pick_spec _ _ _ _ P) as [Hin [Ht Hc]].
               pose proof (forallb_alt _ _ _ Hs Hin) as Ha. simpl in Ha.
               apply andb_true_iff in Ha as [Hstep Hsim].
               eapply step_run; eauto.
            -- apply IH; auto.
        + (* IStar *)
          revert Hs. generalize (explore ef alts [q] []). intros O Hs.
          apply andb_true_iff in Hs as [Hcl Hall].
          unfold closed in Hcl. apply andb_true_iff in Hcl as [Hq Hcl].
          rewrite forallb_forall in Hcl, Hall.
          assert (Hloop : forall ks q', In q' O -> gmatch G cv rest (star_rest G cv alts ks) = true ->
                                        run_kids S v q' ks = true).
          { induction ks as [|k ks IHk]; intros q' Hin Hm.
            - simpl in Hm. apply IH; auto.
            - simpl in Hm. destruct (pick G cv alts k) as [a|] eqn:P.
              + destruct (pick_spec _ _ _ _ P) as [Hina [Ht Hc]].
                pose proof (forallb_alt _ _ _ (Hcl _ Hin) Hina) as Ha. simpl in Ha.
                apply andb_true_iff in Ha as [Hstep Hmem].
                eapply step_run; eauto. apply IHk; auto. now apply re_mem_In.
              + apply IH; auto. }
          apply Hloop; auto. now apply re_mem_In.
    Qed.
  End Fuel.

  Lemma conf_vel : forall f r x tgt,
    conf_el G lex f r x = true -> target m r = Some tgt -> (tgt = None -> glob S x = None) ->
    vel S lex f tgt x = true.
  Proof.
    induction f as [|f IHf]; intros r x tgt Hc Ht Hl; simpl in Hc; try discriminate.
    destruct (rule_of r (gg_rules G)) as [ru|] eqn:R; try discriminate.
    pose proof (Hrules _ _ R) as Hok. unfold rule_ok in Hok. rewrite Ht in Hok.
    destruct tgt as [ty|].
    - simpl. destruct (nth_error (s_types S) (N.to_nat ty)) as [ct|]; try discriminate.
      destruct (ct_content ct) as [|st|p| |] eqn:C; destruct (gr_body ru) as [items|gt|] eqn:B; try discriminate.
      + (* CEmpty / GKids [] *)
        destruct items; try discriminate.
        apply andb_true_iff in Hc as [Hc Hk]. apply andb_true_iff in Hc as [Ha Hte].
        simpl in Hk. unfold attrs_ok. rewrite (attrs_incl_sound lex _ _ _ Hok Ha), Hte.
        destruct (xkids x); try discriminate. reflexivity.
      + (* CSimple / GText *)
        apply andb_true_iff in Hok as [Hia His].
        apply andb_true_iff in Hc as [Hc Hv]. apply andb_true_iff in Hc as [Ha Hnk].
        unfold attrs_ok. rewrite (attrs_incl_sound lex _ _ _ Hia Ha). unfold no_kids in Hnk. rewrite Hnk.
        simpl. eapply st_incl_sound; eauto.
      + (* CElems / GKids *)
        apply andb_true_iff in Hok as [Hia Hsim].
        apply andb_true_iff in Hc as [Hc Hm]. apply andb_true_iff in Hc as [Ha Hte].
        unfold attrs_ok. rewrite (attrs_incl_sound lex _ _ _ Hia Ha), Hte. simpl.
        eapply sim_sound; eauto.
    - (* lax: an undeclared element without children *)
      destruct (gr_body ru) eqn:B; try discriminate.
      simpl. rewrite (Hl eq_refl). unfold no_kids in Hc.
      destruct (xkids x); try discriminate. reflexivity.
  Qed.

  Theorem included_with_sound : forall x,
    conforms G lex x = true -> ids_unique S x = true -> validate S lex x = true.
  Proof.
    intros x Hc Hid. unfold validate. rewrite Hid, andb_true_r.
    unfold conforms in Hc. apply andb_true_iff in Hc as [Hc Hel]. apply andb_true_iff in Hc as [Hn Htag].
    pose proof Hroot as Hr. unfold root_ok in Hr.
    apply andb_true_iff in Hr as [Hr Hmap]. apply andb_true_iff in Hr as [Hr1 Hr2].
    apply N.eqb_eq in Hr1, Hr2.
    unfold struct_valid. rewrite <- Hr1, <- Hr2, Hn, Htag. simpl.
    rewrite Hr2.
    destruct (assoc (s_root S) (s_globals S)) as [t|]; try discriminate.
    destruct (target m (gg_rootrule G)) as [[t'|]|] eqn:T; try discriminate.
    apply N.eqb_eq in Hmap. subst t'.
    eapply conf_vel; eauto. discriminate.
  Qed.
End Sound.

Theorem included_sound : forall G S lex x,
  included G S = true -> conforms G lex x = true -> ids_unique S x = true -> validate S lex x = true.
Proof. intros G S lex x H. exact (included_with_sound G S (infer_map G S) lex 64 H x). Qed.
