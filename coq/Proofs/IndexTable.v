(* Lemmas about the index table: the reshaped views are the position arithmetic of the SPEC. *)
From Coq Require Import List Bool Arith NArith Lia.
From PC Require Import Base.Outcome Model.IndexTable.
Import ListNotations.

Lemma nth_skipn' {A} (d : A) s : forall l i, nth i (skipn s l) d = nth (s + i) l d.
Proof.
  induction s as [|s IH]; intros l i; simpl; [reflexivity|].
  destruct l as [|x l]; simpl; [destruct i; reflexivity|]. apply IH.
Qed.

Lemma nth_firstn' {A} (d : A) w : forall l i, i < w -> nth i (firstn w l) d = nth i l d.
Proof.
  induction w as [|w IH]; intros l i H; [lia|].
  destruct l as [|x l]; simpl; [destruct i; reflexivity|].
  destruct i as [|i]; simpl; [reflexivity|]. apply IH. lia.
Qed.

Lemma nth_map' {A B} (f : A -> B) d d' l j : j < length l -> nth j (map f l) d' = f (nth j l d).
Proof.
  intro H. rewrite (nth_indep (map f l) d' (f d)) by (now rewrite map_length). apply map_nth.
Qed.

Lemma skipn_add {A} a : forall b (l : list A), skipn a (skipn b l) = skipn (b + a) l.
Proof.
  intros b. induction b as [|b IH]; intro l; simpl; [reflexivity|].
  destruct l as [|x l]; simpl; [now rewrite skipn_nil|]. apply IH.
Qed.

Lemma nth_slice {A} (d : A) st cnt l i : i < cnt -> nth i (slice st cnt l) d = nth (st + i) l d.
Proof. intro H. unfold slice. rewrite nth_firstn' by exact H. apply nth_skipn'. Qed.

Lemma slice_length {A} st cnt (l : list A) : st + cnt <= length l -> length (slice st cnt l) = cnt.
Proof. intro H. unfold slice. rewrite firstn_length, skipn_length. lia. Qed.

Lemma chunk_length {A} w n : forall l : list A, length (chunk w n l) = n.
Proof. induction n as [|n IH]; intro l; simpl; [reflexivity|]. now rewrite IH. Qed.

Lemma nth_chunk {A} w n : forall (l : list A) j, j < n ->
  nth j (chunk w n l) [] = firstn w (skipn (j * w) l).
Proof.
  induction n as [|n IH]; intros l j H; [lia|].
  destruct j as [|j]; simpl; [reflexivity|].
  rewrite IH by lia. rewrite skipn_add. reflexivity.
Qed.

Lemma chunk_all_length {A} w n : forall l : list A, n * w <= length l ->
  Forall (fun c => length c = w) (chunk w n l).
Proof.
  induction n as [|n IH]; intros l H; simpl; constructor.
  - rewrite firstn_length. simpl in H. lia.
  - apply IH. rewrite skipn_length. simpl in H. lia.
Qed.

Lemma reshape_inv k nind flat t : k <> 0 -> nind <> 0 -> reshape k nind flat = Ok t ->
  exists q, length flat = q * k * nind /\ t = chunk nind (q * k) flat.
Proof.
  intros Hk Hn. unfold reshape.
  destruct (length flat mod (k * nind) =? 0) eqn:E; [|discriminate].
  intro H. inversion H as [Ht]. clear H.
  apply Nat.eqb_eq in E. apply Nat.mod_divides in E; [|lia].
  destruct E as [c Hc]. exists c. split; [lia|].
  f_equal. rewrite Hc. replace (k * nind * c) with (c * k * nind) by lia.
  apply Nat.div_mul. exact Hn.
Qed.

Lemma reshape_ragged k nind flat : length flat mod (k * nind) <> 0 -> reshape k nind flat = Raise PyValueError.
Proof. intro H. unfold reshape. destruct (length flat mod (k * nind) =? 0) eqn:E; [|reflexivity].
  apply Nat.eqb_eq in E. contradiction. Qed.

Lemma reshape_raises k nind flat e : reshape k nind flat = Raise e -> length flat mod (k * nind) <> 0.
Proof. unfold reshape. destruct (length flat mod (k * nind) =? 0) eqn:E; [discriminate|].
  intros _. now apply Nat.eqb_neq in E. Qed.

Lemma nrows_chunk {A} k nind q (flat : list A) : k <> 0 -> length (chunk nind (q * k) flat) / k = q.
Proof. intro Hk. rewrite chunk_length. now apply Nat.div_mul. Qed.

Lemma col_length o t : length (col o t) = length t.
Proof. apply map_length. Qed.

Lemma col_nth k nind flat t o j : k <> 0 -> nind <> 0 -> reshape k nind flat = Ok t ->
  o < nind -> j < length t -> nth j (col o t) 0%N = nth (j * nind + o) flat 0%N.
Proof.
  intros Hk Hn Hr Ho Hj. destruct (reshape_inv _ _ _ _ Hk Hn Hr) as [q [Hlen Ht]]. subst t.
  rewrite chunk_length in Hj. unfold col.
  rewrite (nth_map' _ []) by (now rewrite chunk_length). rewrite nth_chunk by exact Hj.
  rewrite nth_firstn' by exact Ho. apply nth_skipn'.
Qed.
