From Coq Require Import List Bool ZArith NArith Lia.
(* C05: the whole-document load model refines the declarative reading of the document. *)
From PC Require Import Base.Atoms Base.Xml Base.Outcome Base.Py Model.LoadPrim Model.Namespace Model.LoadDoc
                       Proofs.LoadPrim Proofs.LoadPrimViews Proofs.LoadPrimRefine Proofs.LoadDoc Proofs.LoadFlat Proofs.LoadGeom.
Import ListNotations.
Local Open Scope nat_scope.

Section Ext.
  Variables nl1 nl2 : env -> et -> outcome nview.
  Hypothesis NL : forall en e, nl1 en e = nl2 en e.

  Lemma lib_pass_ext : forall todo en loaded pending progress,
    lib_pass nl1 en todo loaded pending progress = lib_pass nl2 en todo loaded pending progress.
  Proof.
    induction todo as [|[pos n] r IH]; intros; simpl; [reflexivity|].
    rewrite NL. destruct (nl2 en n) as [v|x]; [apply IH|]. destruct x; try reflexivity. apply IH.
  Qed.

  Lemma lib_retry_ext : forall fuel en loaded pending progress,
    lib_retry nl1 fuel en loaded pending progress = lib_retry nl2 fuel en loaded pending progress.
  Proof.
    induction fuel as [|f IH]; intros; simpl.
    - destruct pending; reflexivity.
    - destruct pending as [|p ps]; [reflexivity|]. destruct progress; [|reflexivity].
      rewrite lib_pass_ext. destruct (lib_pass nl2 en (p :: ps) loaded [] false) as [[[[en' l'] p'] pr']|]; [|reflexivity].
      simpl. apply IH.
  Qed.

  Lemma load_library_nodes_ext : forall en l, load_library_nodes nl1 en l = load_library_nodes nl2 en l.
  Proof.
    intros. unfold load_library_nodes. rewrite lib_pass_ext.
    destruct (lib_pass nl2 en _ [] [] false) as [[[[en' l'] p'] pr']|]; [|reflexivity]. cbn [obind].
    now rewrite lib_retry_ext.
  Qed.

  Lemma scene_pass_ext : forall todo en loaded pending progress,
    scene_pass nl1 en todo loaded pending progress = scene_pass nl2 en todo loaded pending progress.
  Proof.
    induction todo as [|[pos n] r IH]; intros; simpl; [reflexivity|].
    rewrite NL. destruct (nl2 en n) as [v|x]; [apply IH|]. destruct x; try reflexivity. apply IH.
  Qed.

  Lemma scene_retry_ext : forall fuel en loaded pending progress,
    scene_retry nl1 fuel en loaded pending progress = scene_retry nl2 fuel en loaded pending progress.
  Proof.
    induction fuel as [|f IH]; intros; simpl.
    - destruct pending; reflexivity.
    - destruct pending as [|p ps]; [reflexivity|]. destruct progress; [|reflexivity].
      rewrite scene_pass_ext. destruct (scene_pass nl2 en (p :: ps) loaded [] false) as [[[[en' l'] p'] pr']|]; [|reflexivity].
      simpl. apply IH.
  Qed.

  Lemma load_scene_ext : forall en s, load_scene nl1 en s = load_scene nl2 en s.
  Proof.
    intros. unfold load_scene. rewrite scene_pass_ext.
    destruct (scene_pass nl2 _ _ [] [] false) as [[[[en' l'] p'] pr']|]; [|reflexivity]. cbn [obind].
    now rewrite scene_retry_ext.
  Qed.
End Ext.

Lemma omapM_ext {A B} (f g : A -> outcome B) : forall l, (forall x, f x = g x) -> omapM f l = omapM g l.
Proof. intros l H. induction l as [|x l IH]; simpl; [reflexivity|]. now rewrite H, IH. Qed.

Lemma omapM_refine {A B} (f g : A -> outcome B) : forall l r,
  (forall x y, f x = Ok y -> g x = Ok y) -> omapM f l = Ok r -> omapM g l = Ok r.
Proof.
  induction l as [|x l IH]; intros r Hfg H; simpl in *; [exact H|].
  destruct (f x) as [y|] eqn:E; [|discriminate]. destruct (omapM f l) as [ys|] eqn:M; [|discriminate].
  rewrite (Hfg _ _ E), (IH ys Hfg eq_refl). exact H.
Qed.

(* nodes: the SPEC's loader is the loader *)
Lemma read_node_loader_eq : forall en e, read_node_loader en e = load_node en e.
Proof.
  intros en e. unfold read_node_loader. destruct (load_node en e) as [v|x] eqn:L; [|reflexivity].
  now rewrite (load_node_is_read_node _ _ _ L).
Qed.

(* the view does not show the record of the checkSource calls *)
Lemma Vprim_erase : forall p, Vprim (erase_prim p) = Vprim p.
Proof. intros [u k m pv]. reflexivity. Qed.

Lemma Vgeom_erase : forall g, Vgeom (erase_geom g (g_sources g)) = Vgeom g.
Proof.
  intro g. unfold Vgeom, erase_geom. simpl. rewrite map_map.
  rewrite (map_ext _ _ Vprim_erase). reflexivity.
Qed.

(* "the param names of the file fit their uses": no checkSource call renamed a source of this geometry *)
Definition names_fit (numtab : list N) (e : et) : Prop :=
  forall g srcs, load_geometry numtab e = Ok g ->
                 omapM (load_source numtab) (efindall_path [a_mesh; a_source] e) = Ok srcs -> g_sources g = srcs.

Lemma geometries_read : forall numtab elems geoms,
  Forall (names_fit numtab) elems ->
  omapM (load_geometry numtab) elems = Ok geoms ->
  omapM (read_geometry_loader numtab) elems = Ok (map (fun g => erase_geom g (g_sources g)) geoms).
Proof.
  intros numtab elems. induction elems as [|e elems IH]; intros geoms F H; simpl in H.
  - injection H as <-. reflexivity.
  - inversion F as [|? ? Fe Fr]; subst.
    destruct (load_geometry numtab e) as [g|] eqn:L; [|discriminate].
    destruct (omapM (load_geometry numtab) elems) as [gs|] eqn:M; [|discriminate]. injection H as <-.
    simpl. unfold read_geometry_loader at 1.
    destruct (load_geometry_is_read _ _ _ L) as (srcs & S & R). rewrite (Fe _ _ L S). rewrite R. simpl.
    rewrite (IH gs Fr eq_refl). now rewrite <- (Fe _ _ L S).
Qed.

Ltac step H :=
  match type of H with
  | omap _ (obind ?x _) = Ok _ => destruct x eqn:?; [cbn [obind] in H |- * | discriminate H]
  end.

Theorem load_doc_is_read : forall numtab root v,
  Forall (names_fit numtab) (geometry_elems root) ->
  load_doc numtab root = Ok v -> read_doc numtab root = Ok v.
Proof.
  intros numtab root v F H. unfold load_doc, read_doc, load_document in *. cbv zeta in *.
  step H. step H. step H. step H.
  (* geometries *)
  destruct (omapM (load_geometry numtab) (geometry_elems root)) as [geoms|] eqn:G; [|discriminate H].
  rewrite (geometries_read _ _ _ F G). cbn [obind] in H |- *.
  assert (EN : map (fun g => (Some (g_id g), g_uid g)) (map (fun g => erase_geom g (g_sources g)) geoms)
               = map (fun g => (Some (g_id g), g_uid g)) geoms) by (rewrite map_map; reflexivity).
  rewrite !EN.
  step H.
  destruct (omapM (load_light numtab) (lib_elems a_library_lights a_light root)) as [lights|] eqn:LL; [|discriminate H].
  rewrite (omapM_refine _ _ _ _ (load_light_refines numtab) LL). cbn [obind] in H |- *.
  step H.
  rewrite (load_library_nodes_ext read_node_loader load_node read_node_loader_eq).
  step H.
  rewrite (omapM_ext _ _ _ (load_scene_ext read_node_loader load_node read_node_loader_eq _)).
  step H. step H.
  rewrite map_map. rewrite (map_ext _ _ Vgeom_erase). exact H.
Qed.

(* ------------------------------------------------------------------ the guard as a computation *)

Lemma list_eqb_sound {A} (e : A -> A -> bool) : (forall x y, e x y = true -> x = y) ->
  forall a b, list_eqb e a b = true -> a = b.
Proof.
  intros He. induction a as [|x a IH]; intros [|y b] H; simpl in H; try discriminate; [reflexivity|].
  apply andb_true_iff in H. destruct H as [H1 H2]. now rewrite (He _ _ H1), (IH _ H2).
Qed.

Lemma aval_eqb_sound : forall a b, aval_eqb a b = true -> a = b.
Proof.
  intros [x|h x|z] [y|g y|w] H; simpl in H; try discriminate.
  - apply N.eqb_eq in H. now subst.
  - apply andb_true_iff in H. destruct H as [H1 H2]. apply N.eqb_eq in H2. apply Bool.eqb_prop in H1. now subst.
  - apply Z.eqb_eq in H. now subst.
Qed.

Lemma tok_eqb_sound : forall a b, tok_eqb a b = true -> a = b.
Proof.
  intros [x|x|x] [y|y|y] H; simpl in H; try discriminate;
    [apply Z.eqb_eq in H | apply N.eqb_eq in H | apply N.eqb_eq in H]; now subst.
Qed.

Lemma opt_eqb_sound {A} (e : A -> A -> bool) : (forall x y, e x y = true -> x = y) ->
  forall a b, opt_eqb e a b = true -> a = b.
Proof. intros He [x|] [y|] H; simpl in H; try discriminate; [now rewrite (He _ _ H)|reflexivity]. Qed.

Lemma source_view_eqb_sound : forall a b, source_view_eqb a b = true -> a = b.
Proof.
  intros [u1 i1 k1 c1 r1 d1] [u2 i2 k2 c2 r2 d2] H. unfold source_view_eqb in H. simpl in H.
  repeat (apply andb_true_iff in H; destruct H as [H ?]).
  apply N.eqb_eq in H. apply (opt_eqb_sound _ aval_eqb_sound) in H4. apply N.eqb_eq in H3.
  apply (list_eqb_sound _ (opt_eqb_sound _ aval_eqb_sound)) in H2. apply Nat.eqb_eq in H1.
  assert (d1 = d2).
  { destruct d1 as [x|x], d2 as [y|y]; simpl in H0; try discriminate; f_equal.
    - apply (list_eqb_sound N.eqb); [intros ? ? E; now apply N.eqb_eq|exact H0].
    - now apply (list_eqb_sound _ tok_eqb_sound). }
  now subst.
Qed.

Lemma geom_fits_sound : forall numtab e, geom_fits numtab e = true -> names_fit numtab e.
Proof.
  intros numtab e H g srcs L S. unfold geom_fits in H. rewrite L, S in H.
  now apply (list_eqb_sound _ source_view_eqb_sound).
Qed.

(* C05_load_is_read under the boolean guard *)
Theorem load_doc_is_read_guard : forall numtab root v,
  forallb (geom_fits numtab) (geometry_elems root) = true ->
  load_doc numtab root = Ok v -> read_doc numtab root = Ok v.
Proof.
  intros numtab root v G. apply load_doc_is_read. rewrite forallb_forall in G.
  apply Forall_forall. intros e He. apply geom_fits_sound. now apply G.
Qed.

(* when checkSource renames: one call rewrites exactly the sources with that uid whose component tuple has
   the expected LENGTH, to the expected names; the list is unchanged iff they carried those names already *)
Definition renamed (u : N) (expected : list (option aval)) (s : source_view) : source_view :=
  if N.eqb (s_uid s) u then mkSV (s_uid s) (s_id s) (s_kind s) expected (s_rows s) (s_data s) else s.

Lemma apply_check_spec : forall srcs u comps mx srcs',
  apply_check srcs (u, comps, mx) = Ok srcs' ->
  srcs' = map (renamed u (map nm comps)) srcs /\
  (srcs' = srcs <-> forall s, In s srcs -> s_uid s = u -> s_comps s = map nm comps).
Proof.
  intros srcs u comps mx. unfold apply_check. set (expected := map nm comps).
  induction srcs as [|s srcs IH]; intros srcs' H.
  - injection H as <-. split; [reflexivity|]. split; [intros _ s []|reflexivity].
  - cbn [map] in *. unfold renamed at 1.
    destruct (N.eqb (s_uid s) u) eqn:E.
    + destruct (Z.of_nat (s_rows s) <=? mx)%Z; [discriminate|].
      destruct (Nat.eqb (length (s_comps s)) (length expected)); [|discriminate].
      match type of H with omap _ ?x = _ => destruct x as [r|] eqn:R; [|discriminate] end.
      injection H as <-. destruct (IH _ eq_refl) as [-> IFF]. split; [reflexivity|].
      apply N.eqb_eq in E. split.
      * intros Q s0 [<-|I] U; [injection Q as Q1 Q2; destruct s; simpl in *; congruence|].
        injection Q as _ Q2. apply (proj1 IFF Q2); assumption.
      * intro A. f_equal.
        -- destruct s as [a b c d e0 f]. simpl in *. f_equal. symmetry. apply (A _ (or_introl eq_refl) E).
        -- apply (proj2 IFF). intros s0 I U. apply A; [now right|exact U].
    + match type of H with omap _ ?x = _ => destruct x as [r|] eqn:R; [|discriminate] end.
      injection H as <-. destruct (IH _ eq_refl) as [-> IFF]. split; [reflexivity|].
      apply N.eqb_neq in E. split.
      * intros Q s0 [<-|I] U; [contradiction|]. injection Q as Q2. apply (proj1 IFF Q2); assumption.
      * intro A. f_equal. apply (proj2 IFF). intros s0 I U. apply A; [now right|exact U].
Qed.
