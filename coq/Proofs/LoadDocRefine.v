From Coq Require Import List Bool ZArith NArith Lia.
(* C05: the whole-document load model refines the declarative reading of the document. *)
From PC Require Import Base.Atoms Base.Xml Base.Outcome Base.Py Model.LoadPrim Model.Namespace Model.LoadDoc
                       Proofs.LoadPrim Proofs.LoadPrimViews Proofs.LoadPrimRefine Proofs.LoadDoc Proofs.LoadFlat Proofs.LoadGeom.
Import ListNotations.
Local Open Scope nat_scope.

Section Ext.
  Variables nl1 nl2 : env -> et -> outcome nview.
  Hypothesis NL : forall en e, nl1 en e = nl2 en e.

  Lemma lib_pass_ext : forall todo en loaded pending progress,
    lib_pass nl1 en todo loaded pending progress = lib_pass nl2 en todo loaded pending progress.
  Proof.
    induction todo as [|[pos n] r IH]; intros; simpl; [reflexivity|].
    rewrite NL. destruct (nl2 en n) as [v|x]; [apply IH|]. destruct x; try reflexivity. apply IH.
  Qed.

  Lemma lib_retry_ext : forall fuel en loaded pending progress,
    lib_retry nl1 fuel en loaded pending progress = lib_retry nl2 fuel en loaded pending progress.
  Proof.
    induction fuel as [|f IH]; intros; simpl.
    - destruct pending; reflexivity.
    - destruct pending as [|p ps]; [reflexivity|]. destruct progress; [|reflexivity].
      rewrite lib_pass_ext. destruct (lib_pass nl2 en (p :: ps) loaded [] false) as [[[[en' l'] p'] pr']|]; [|reflexivity].
      simpl. apply IH.
  Qed.

  Lemma load_library_nodes_ext : forall en l, load_library_nodes nl1 en l = load_library_nodes nl2 en l.
  Proof.
    intros. unfold load_library_nodes. rewrite lib_pass_ext.
    destruct (lib_pass nl2 en _ [] [] false) as [[[[en' l'] p'] pr']|]; [|reflexivity]. cbn [obind].
    now rewrite lib_retry_ext.
  Qed.

  Lemma lib_nodes_all_ext : forall libs en acc, lib_nodes_all nl1 en libs acc = lib_nodes_all nl2 en libs acc.
  Proof.
    induction libs as [|l r IH]; intros; simpl; [reflexivity|].
    rewrite load_library_nodes_ext. destruct (load_library_nodes nl2 en l) as [p|]; [|reflexivity]. simpl. apply IH.
  Qed.

  Lemma scene_pass_ext : forall todo en loaded pending progress,
    scene_pass nl1 en todo loaded pending progress = scene_pass nl2 en todo loaded pending progress.
  Proof.
    induction todo as [|[pos n] r IH]; intros; simpl; [reflexivity|].
    rewrite NL. destruct (nl2 en n) as [v|x]; [apply IH|]. destruct x; try reflexivity. apply IH.
  Qed.

  Lemma scene_retry_ext : forall fuel en loaded pending progress,
    scene_retry nl1 fuel en loaded pending progress = scene_retry nl2 fuel en loaded pending progress.
  Proof.
    induction fuel as [|f IH]; intros; simpl.
    - destruct pending; reflexivity.
    - destruct pending as [|p ps]; [reflexivity|]. destruct progress; [|reflexivity].
      rewrite scene_pass_ext. destruct (scene_pass nl2 en (p :: ps) loaded [] false) as [[[[en' l'] p'] pr']|]; [|reflexivity].
      simpl. apply IH.
  Qed.

  Lemma load_scene_ext : forall en s, load_scene nl1 en s = load_scene nl2 en s.
  Proof.
    intros. unfold load_scene. rewrite scene_pass_ext.
    destruct (scene_pass nl2 _ _ [] [] false) as [[[[en' l'] p'] pr']|]; [|reflexivity]. cbn [obind].
    now rewrite scene_retry_ext.
  Qed.
End Ext.

Lemma omapM_ext {A B} (f g : A -> outcome B) : forall l, (forall x, f x = g x) -> omapM f l = omapM g l.
Proof. intros l H. induction l as [|x l IH]; simpl; [reflexivity|]. now rewrite H, IH. Qed.

(* nodes: the SPEC's loader is the loader *)
Lemma read_node_loader_eq : forall en e, read_node_loader en e = load_node en e.
Proof.
  intros en e. unfold read_node_loader. destruct (load_node en e) as [v|x] eqn:L; [|reflexivity].
  now rewrite (load_node_is_read_node _ _ _ L).
Qed.

(* the view does not show the record of the checkSource calls *)
Lemma Vprim_erase : forall p, Vprim (erase_prim p) = Vprim p.
Proof. intros [u k m pv]. reflexivity. Qed.

Lemma Vgeom_erase : forall g, Vgeom (erase_geom g (g_sources g)) = Vgeom g.
Proof.
  intro g. unfold Vgeom, erase_geom. simpl. rewrite map_map.
  rewrite (map_ext _ _ Vprim_erase). reflexivity.
Qed.

(* "the param names of the file fit their uses": no checkSource call renamed a source of this geometry *)
Definition names_fit (numtab : list N) (e : et) : Prop :=
  forall g srcs, load_geometry numtab e = Ok g ->
                 omapM (load_source numtab) (efindall_path [a_mesh; a_source] e) = Ok srcs -> g_sources g = srcs.

Lemma geometries_read : forall numtab elems geoms,
  Forall (names_fit numtab) elems ->
  omapM (load_geometry numtab) elems = Ok geoms ->
  omapM (read_geometry_loader numtab) elems = Ok (map (fun g => erase_geom g (g_sources g)) geoms).
Proof.
  intros numtab elems. induction elems as [|e elems IH]; intros geoms F H; simpl in H.
  - injection H as <-. reflexivity.
  - inversion F as [|? ? Fe Fr]; subst.
    destruct (load_geometry numtab e) as [g|] eqn:L; [|discriminate].
    destruct (omapM (load_geometry numtab) elems) as [gs|] eqn:M; [|discriminate]. injection H as <-.
    simpl. unfold read_geometry_loader at 1.
    destruct (load_geometry_is_read _ _ _ L) as (srcs & S & R). rewrite (Fe _ _ L S). rewrite R. simpl.
    rewrite (IH gs Fr eq_refl). now rewrite <- (Fe _ _ L S).
Qed.

Definition geometry_elems (root : et) : list et :=
  List.filter (fun g => match efind a_mesh g with Some _ => true | None => false end)
              (lib_elems a_library_geometries a_geometry root).

Ltac step H :=
  match type of H with
  | omap _ (obind ?x _) = Ok _ => destruct x eqn:?; [cbn [obind] in H |- * | discriminate H]
  end.

Theorem load_doc_is_read : forall numtab root v,
  Forall (names_fit numtab) (geometry_elems root) ->
  load_doc numtab root = Ok v -> read_doc numtab root = Ok v.
Proof.
  intros numtab root v F H. unfold load_doc, read_doc, load_document in *. cbv zeta in *.
  fold (geometry_elems root) in *.
  step H. step H. step H. step H.
  (* geometries *)
  destruct (omapM (load_geometry numtab) (geometry_elems root)) as [geoms|] eqn:G; [|discriminate H].
  rewrite (geometries_read _ _ _ F G). cbn [obind] in H |- *.
  step H. step H. step H.
  assert (EN : map (fun g => (Some (g_id g), g_uid g)) (map (fun g => erase_geom g (g_sources g)) geoms)
               = map (fun g => (Some (g_id g), g_uid g)) geoms) by (rewrite map_map; reflexivity).
  rewrite EN.
  rewrite (lib_nodes_all_ext read_node_loader load_node read_node_loader_eq).
  step H.
  rewrite (omapM_ext _ _ _ (load_scene_ext read_node_loader load_node read_node_loader_eq _)).
  step H. step H.
  rewrite map_map. rewrite (map_ext _ _ Vgeom_erase). exact H.
Qed.
