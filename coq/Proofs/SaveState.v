(* Proofs about Model/SaveState.v. *)
From Coq Require Import List Bool Arith NArith Lia.
From PC Require Import Base.Atoms Base.Outcome Model.SaveState.
Import ListNotations.

(* ------------------------------------------------------------------ root child lists *)

Lemma has_tag_eq t c : has_tag t c = true <-> rtag c = t.
Proof. unfold has_tag. apply N.eqb_eq. Qed.
Lemma has_tag_neq t c : has_tag t c = false <-> rtag c <> t.
Proof. unfold has_tag. apply N.eqb_neq. Qed.

Definition keeps_tag (f : rchild -> rchild) := forall c, rtag (f c) = rtag c.
Lemma keeps_set_kids ks : keeps_tag (set_kids ks). Proof. intro c; reflexivity. Qed.
Lemma keeps_clear : keeps_tag clear_el. Proof. intro c; reflexivity. Qed.
Lemma has_tag_keeps f t c : keeps_tag f -> has_tag t (f c) = has_tag t c.
Proof. intro K. unfold has_tag. rewrite K. reflexivity. Qed.

Lemma find_tag_update_other t t' f R : keeps_tag f -> t' <> t ->
  find_tag t' (update_first t f R) = find_tag t' R.
Proof.
  intros K N. induction R as [|c r IH]; [reflexivity|]. simpl.
  destruct (has_tag t c) eqn:E.
  - simpl. rewrite (has_tag_keeps f t' c K).
    apply has_tag_eq in E. destruct (has_tag t' c) eqn:E'.
    + apply has_tag_eq in E'. congruence.
    + reflexivity.
  - simpl. destruct (has_tag t' c); [reflexivity|exact IH].
Qed.

Lemma find_tag_update_same t f R : keeps_tag f ->
  find_tag t (update_first t f R) = option_map f (find_tag t R).
Proof.
  intro K. induction R as [|c r IH]; [reflexivity|]. simpl.
  destruct (has_tag t c) eqn:E; simpl.
  - rewrite (has_tag_keeps f t c K), E. reflexivity.
  - rewrite E. exact IH.
Qed.

Lemma find_tag_remove_other t t' R : t' <> t ->
  find_tag t' (remove_first t R) = find_tag t' R.
Proof.
  intro N. induction R as [|c r IH]; [reflexivity|]. simpl.
  destruct (has_tag t c) eqn:E.
  - apply has_tag_eq in E. destruct (has_tag t' c) eqn:E'.
    + apply has_tag_eq in E'. congruence.
    + reflexivity.
  - simpl. destruct (has_tag t' c); [reflexivity|exact IH].
Qed.

Lemma find_tag_insert_other t' n x R : rtag x <> t' ->
  find_tag t' (insert_at n x R) = find_tag t' R.
Proof.
  intro N. apply has_tag_neq in N. revert R. induction n as [|n IH]; intro R.
  - destruct R; simpl; rewrite N; reflexivity.
  - destruct R as [|c r]; simpl.
    + rewrite N. reflexivity.
    + destruct (has_tag t' c); [reflexivity|apply IH].
Qed.

Lemma find_tag_insert_absent t n x R : find_tag t R = None -> rtag x = t ->
  find_tag t (insert_at n x R) = Some x.
Proof.
  intros A T. apply has_tag_eq in T. revert R A. induction n as [|n IH]; intros R A.
  - destruct R; simpl; rewrite T; reflexivity.
  - destruct R as [|c r]; simpl.
    + rewrite T. reflexivity.
    + simpl in A. destruct (has_tag t c); [discriminate|apply IH; exact A].
Qed.

Lemma update_first_insert_absent t f n x R : find_tag t R = None -> rtag x = t ->
  update_first t f (insert_at n x R) = insert_at n (f x) R.
Proof.
  intros A T. apply has_tag_eq in T. revert R A. induction n as [|n IH]; intros R A.
  - destruct R; simpl; rewrite T; reflexivity.
  - destruct R as [|c r]; simpl.
    + rewrite T. reflexivity.
    + simpl in A. destruct (has_tag t c); [discriminate|]. f_equal. apply IH; exact A.
Qed.

Lemma update_first_twice t f g R : keeps_tag g ->
  update_first t f (update_first t g R) = update_first t (fun c => f (g c)) R.
Proof.
  intro K. induction R as [|c r IH]; [reflexivity|]. simpl.
  destruct (has_tag t c) eqn:E; simpl.
  - rewrite (has_tag_keeps g t c K), E. reflexivity.
  - rewrite E. f_equal. exact IH.
Qed.

Lemma update_first_ext t f g R : (forall c, f c = g c) -> update_first t f R = update_first t g R.
Proof.
  intro X. induction R as [|c r IH]; [reflexivity|]. simpl.
  destruct (has_tag t c); [rewrite X; reflexivity|f_equal; exact IH].
Qed.

Lemma update_first_id t f R c : find_tag t R = Some c -> f c = c -> update_first t f R = R.
Proof.
  induction R as [|d r IH]; [discriminate|]. simpl. intros F X.
  destruct (has_tag t d).
  - inversion F; subst. rewrite X. reflexivity.
  - f_equal. apply IH; assumption.
Qed.

Lemma update_first_absent t f R : find_tag t R = None -> update_first t f R = R.
Proof.
  induction R as [|d r IH]; [reflexivity|]. simpl. intro F.
  destruct (has_tag t d); [discriminate|]. f_equal. apply IH; exact F.
Qed.

Lemma find_tag_app t R x :
  find_tag t (R ++ [x]) = match find_tag t R with
                          | Some c => Some c
                          | None => if has_tag t x then Some x else None
                          end.
Proof.
  induction R as [|d r IH]; simpl; [reflexivity|].
  destruct (has_tag t d); [reflexivity|exact IH].
Qed.

Lemma update_first_app_present t f R x c : find_tag t R = Some c ->
  update_first t f (R ++ [x]) = update_first t f R ++ [x].
Proof.
  revert c. induction R as [|d r IH]; [discriminate|]. simpl. intros c F.
  destruct (has_tag t d); [reflexivity|]. simpl. f_equal. eapply IH; exact F.
Qed.

(* counting *)
Lemma count_cons t c R : count_tag t (c :: R) = (if has_tag t c then 1 else 0) + count_tag t R.
Proof. unfold count_tag. simpl. destruct (has_tag t c); reflexivity. Qed.

Lemma count_update t' t f R : keeps_tag f -> count_tag t' (update_first t f R) = count_tag t' R.
Proof.
  intro K. induction R as [|c r IH]; [reflexivity|]. simpl.
  destruct (has_tag t c); rewrite !count_cons.
  - rewrite (has_tag_keeps f t' c K). reflexivity.
  - rewrite IH. reflexivity.
Qed.

Lemma count_remove_le t' t R : count_tag t' (remove_first t R) <= count_tag t' R.
Proof.
  induction R as [|c r IH]; [apply le_n|]. simpl.
  destruct (has_tag t c); rewrite !count_cons; lia.
Qed.

Lemma count_insert t' n x R :
  count_tag t' (insert_at n x R) = (if has_tag t' x then 1 else 0) + count_tag t' R.
Proof.
  revert R. induction n as [|n IH]; intro R.
  - destruct R; simpl; rewrite count_cons; reflexivity.
  - destruct R as [|c r]; simpl.
    + rewrite count_cons. reflexivity.
    + rewrite !count_cons, IH. lia.
Qed.

Lemma count_app1 t' R x : count_tag t' (R ++ [x]) = count_tag t' R + (if has_tag t' x then 1 else 0).
Proof.
  induction R as [|c r IH]; simpl.
  - rewrite count_cons. unfold count_tag. simpl. lia.
  - rewrite !count_cons, IH. lia.
Qed.

Lemma count_zero_find t R : find_tag t R = None <-> count_tag t R = 0.
Proof.
  induction R as [|c r IH]; simpl; [split; reflexivity|].
  rewrite count_cons. destruct (has_tag t c); simpl.
  - split; intro; discriminate.
  - exact IH.
Qed.

Lemma find_tag_remove_same t R : count_tag t R <= 1 -> find_tag t (remove_first t R) = None.
Proof.
  induction R as [|c r IH]; [reflexivity|]. simpl. rewrite count_cons.
  destruct (has_tag t c) eqn:E; intro L.
  - apply count_zero_find. lia.
  - simpl. rewrite E. apply IH. simpl in L. exact L.
Qed.

Lemma find_some_tag t R c : find_tag t R = Some c -> rtag c = t.
Proof. intro F. apply find_some in F. apply has_tag_eq. apply F. Qed.

(* ------------------------------------------------------------------ objects *)

Lemma touch_touch rc o : touch rc (touch rc o) = touch rc o.
Proof. unfold touch. destruct rc; reflexivity. Qed.

Definition touchlib (l : lib) : lib := Lib (ltag l) (lrec l) (map (touch (lrec l)) (larr l)).
Definition K (l : lib) : list (N * N) := nodes_of (map (touch (lrec l)) (larr l)).

Lemma K_touchlib l : K (touchlib l) = K l.
Proof. unfold K, touchlib. simpl. rewrite map_map. f_equal. apply map_ext. intro o. apply touch_touch. Qed.

Lemma touchlib_touchlib l : touchlib (touchlib l) = touchlib l.
Proof. unfold touchlib. simpl. f_equal. rewrite map_map. apply map_ext. intro; apply touch_touch. Qed.

(* partially touched: each object saved or not yet *)
Definition pt_obj (rc : bool) (o' o : obj) : Prop := o' = o \/ o' = touch rc o.
Definition pt_lib (l' l : lib) : Prop :=
  ltag l' = ltag l /\ lrec l' = lrec l /\ Forall2 (pt_obj (lrec l)) (larr l') (larr l).

Lemma pt_obj_touch rc o' o : pt_obj rc o' o -> touch rc o' = touch rc o.
Proof. intros [E|E]; subst; [reflexivity|apply touch_touch]. Qed.

Lemma pt_lib_touchlib l' l : pt_lib l' l -> touchlib l' = touchlib l.
Proof.
  intros (T & R & F). unfold touchlib. rewrite T, R. f_equal.
  induction F as [|o' o a' a P F IH]; [reflexivity|]. simpl. rewrite IH.
  rewrite (pt_obj_touch _ _ _ P). reflexivity.
Qed.

Lemma pt_lib_refl l : pt_lib l l.
Proof.
  repeat split. induction (larr l); constructor; [left; reflexivity|assumption].
Qed.

Lemma pt_lib_empty l' l : pt_lib l' l -> (larr l' = [] <-> larr l = []).
Proof. intros (_ & _ & F). inversion F; split; intro; try reflexivity; try discriminate; subst; discriminate. Qed.

Lemma pt_lib_K l' l : pt_lib l' l -> K l' = K l.
Proof. intro P. apply pt_lib_touchlib in P. rewrite <- (K_touchlib l'), <- (K_touchlib l), P. reflexivity. Qed.

Lemma pt_refl_list rc (r : list obj) : Forall2 (pt_obj rc) r r.
Proof. induction r; constructor; [left; reflexivity|assumption]. Qed.

Lemma save_arr_shape bad rc arr : forall sv rest x, save_arr bad rc arr = (sv, rest, x) ->
  Forall2 (pt_obj rc) (sv ++ rest) arr /\
  (x = None -> sv = map (touch rc) arr /\ rest = []) /\
  (forall e, x = Some e -> arr <> []) /\
  map oview (sv ++ rest) = map oview arr.
Proof.
  induction arr as [|o r IH]; simpl; intros sv rest x E.
  - inversion E; subst. split; [constructor|]. split; [intros _; split; reflexivity|].
    split; [intros e X; discriminate|reflexivity].
  - destruct (bad (ouid o)) as [e|].
    + inversion E; subst. simpl. split; [apply pt_refl_list|].
      split; [intro X; discriminate|]. split; [intros e0 _; discriminate|reflexivity].
    + destruct (save_arr bad rc r) as [[sv1 rest1] x1] eqn:E1.
      inversion E; subst. destruct (IH _ _ _ eq_refl) as (F & A & B & V).
      simpl. split; [constructor; [right; reflexivity|exact F]|].
      split; [intro X; destruct (A X) as [A1 A2]; rewrite A1, A2; split; reflexivity|].
      split; [intros e0 _; discriminate|].
      rewrite V. f_equal. unfold touch, oview. destruct rc; reflexivity.
Qed.

Lemma dedupe_from_seen t R : count_tag t R = 0 -> dedupe_from t true R = R.
Proof.
  induction R as [|c r IH]; [reflexivity|]. simpl. rewrite count_cons.
  destruct (has_tag t c); simpl; [discriminate|]. intro C. f_equal. apply IH. exact C.
Qed.

Lemma dedupe_id t R : count_tag t R <= 1 -> dedupe t R = R.
Proof.
  unfold dedupe. induction R as [|c r IH]; [reflexivity|]. simpl. rewrite count_cons.
  destruct (has_tag t c); simpl; intro C.
  - f_equal. apply dedupe_from_seen. lia.
  - f_equal. apply IH. exact C.
Qed.

(* ------------------------------------------------------------------ one library *)

(* the tree after a round of the loop in which no object fails *)
Definition step0r (loc : nat) (l : lib) (root : list rchild) : list rchild :=
  match find_tag (ltag l) root, larr l with
  | None, [] => root
  | Some _, [] => remove_first (ltag l) root
  | None, _ :: _ => insert_at loc (set_kids (K l) (new_el (ltag l))) root
  | Some _, _ :: _ => update_first (ltag l) (set_kids (K l)) root
  end.

(* the tree after a round in which an object fails: the children are whatever they were,
   some refreshed in place *)
Definition stepFr (loc : nat) (l : lib) (g : list (N * N) -> list (N * N)) (root : list rchild) :=
  match find_tag (ltag l) root with
  | None => insert_at loc (set_kids (g []) (new_el (ltag l))) root
  | Some _ => update_first (ltag l) (fun c => set_kids (g (rkids c)) c) root
  end.

Lemma lib_step_shape_d bad loc l root0 root' l' x : lib_step bad loc l root0 = (root', l', x) ->
  let root := dedupe (ltag l) root0 in
  pt_lib l' l /\ map oview (larr l') = map oview (larr l) /\
  (x = None -> root' = step0r loc l root /\ l' = touchlib l) /\
  (forall e, x = Some e -> larr l <> [] /\ exists g, root' = stepFr loc l g root).
Proof.
  unfold lib_step, step0r, stepFr. intro E. simpl. set (root := dedupe (ltag l) root0) in *.
  destruct (larr l) as [|o r] eqn:EA.
  - destruct (find_tag (ltag l) root); inversion E; subst;
      (split; [apply pt_lib_refl|]); (split; [rewrite EA; reflexivity|]); (split; [|intros e X; discriminate]);
      intros _; (split; [reflexivity|]); unfold touchlib;
      repeat match goal with x : lib |- _ => destruct x end; simpl in *; subst; reflexivity.
  - rewrite <- EA in E.
    destruct (save_arr bad (lrec l) (larr l)) as [[sv rest] y] eqn:ES.
    destruct (save_arr_shape _ _ _ _ _ _ ES) as (F & A & B & V).
    assert (P : pt_lib (Lib (ltag l) (lrec l) (sv ++ rest)) l) by (repeat split; exact F).
    destruct y as [e|].
    + destruct (find_tag (ltag l) root) eqn:EF; inversion E; subst; simpl;
        (split; [exact P|]); (split; [try rewrite EA in V; exact V|]); (split; [intro X; discriminate|]);
        intros e0 _; (split; [try rewrite EA; discriminate|]).
      * exists (fun ks => if lrec l then ks else refresh_kids sv ks). reflexivity.
      * exists (fun ks => if lrec l then ks else refresh_kids sv ks).
        rewrite update_first_insert_absent; [|exact EF|reflexivity].
        simpl. destruct (lrec l); reflexivity.
    + destruct (A eq_refl) as [A1 A2]. subst rest.
      assert (KK : nodes_of sv = K l) by (unfold K; rewrite A1; reflexivity).
      destruct (find_tag (ltag l) root) eqn:EF; inversion E; subst root' l' x; simpl;
        (split; [exact P|]); (split; [try rewrite EA in V; exact V|]); (split; [|intros e X; discriminate]);
        intros _; rewrite KK.
      * split; [reflexivity|]. unfold touchlib. rewrite app_nil_r, A1. reflexivity.
      * split.
        -- rewrite update_first_insert_absent; [reflexivity|exact EF|reflexivity].
        -- unfold touchlib. rewrite app_nil_r, A1. reflexivity.
Qed.

(* step0r depends on the library through its tag, emptiness and K only *)
Lemma step0_pt_r loc l' l root : pt_lib l' l -> step0r loc l' root = step0r loc l root.
Proof.
  intro P. unfold step0r. rewrite (pt_lib_K _ _ P).
  destruct P as (T & R & F). rewrite T.
  inversion F; reflexivity.
Qed.

Lemma absorb_r loc l root : lib_synced root l -> step0r loc l root = root.
Proof.
  unfold lib_synced, step0r. destruct (larr l) as [|o r] eqn:EA.
  - intro A. rewrite A. reflexivity.
  - intros (c & F & KK). rewrite F. eapply update_first_id; [exact F|].
    unfold set_kids. fold (K l) in KK. unfold K. rewrite EA. rewrite <- KK. destruct c; reflexivity.
Qed.

Lemma synced_after_r loc l root : count_tag (ltag l) root <= 1 -> lib_synced (step0r loc l root) l.
Proof.
  intro C. unfold lib_synced, step0r. destruct (larr l) as [|o r] eqn:EA.
  - destruct (find_tag (ltag l) root) eqn:F; [apply find_tag_remove_same; exact C|exact F].
  - destruct (find_tag (ltag l) root) as [c|] eqn:F.
    + exists (set_kids (K l) c). split.
      * rewrite find_tag_update_same by apply keeps_set_kids. rewrite F. reflexivity.
      * unfold K. rewrite EA. reflexivity.
    + exists (set_kids (K l) (new_el (ltag l))). split.
      * apply find_tag_insert_absent; [exact F|reflexivity].
      * unfold K. rewrite EA. reflexivity.
Qed.

(* a round for another tag leaves [find_tag t] alone *)
Lemma find_step0_other_r loc l root t : t <> ltag l -> find_tag t (step0r loc l root) = find_tag t root.
Proof.
  intro N. unfold step0r.
  destruct (find_tag (ltag l) root), (larr l); try reflexivity.
  - apply find_tag_remove_other; exact N.
  - apply find_tag_update_other; [apply keeps_set_kids|exact N].
  - apply find_tag_insert_other. simpl. congruence.
Qed.

Lemma find_stepF_other_r loc l g root t : t <> ltag l -> find_tag t (stepFr loc l g root) = find_tag t root.
Proof.
  intro N. unfold stepFr. destruct (find_tag (ltag l) root).
  - apply find_tag_update_other; [intro c; reflexivity|exact N].
  - apply find_tag_insert_other. simpl. congruence.
Qed.

Lemma synced_find root root' l : find_tag (ltag l) root' = find_tag (ltag l) root ->
  lib_synced root l -> lib_synced root' l.
Proof. unfold lib_synced. intro E. rewrite E. exact (fun x => x). Qed.

Lemma count_step0_le_r loc l root t : (t = ltag l -> count_tag t root <= 1) ->
  count_tag t root <= 1 -> count_tag t (step0r loc l root) <= 1.
Proof.
  intros CL C. unfold step0r.
  destruct (find_tag (ltag l) root) eqn:F, (larr l); try exact C.
  - eapply Nat.le_trans; [apply count_remove_le|exact C].
  - rewrite count_update by apply keeps_set_kids. exact C.
  - rewrite count_insert. simpl. unfold has_tag at 1. simpl.
    destruct (N.eqb (ltag l) t) eqn:E; [|exact C].
    apply N.eqb_eq in E. subst t. apply count_zero_find in F. rewrite F. apply le_n.
Qed.

Lemma count_stepF_le_r loc l g root t : count_tag t root <= 1 -> count_tag t (stepFr loc l g root) <= 1.
Proof.
  intro C. unfold stepFr. destruct (find_tag (ltag l) root) eqn:F.
  - rewrite count_update by (intro c; reflexivity). exact C.
  - rewrite count_insert. simpl. unfold has_tag at 1. simpl.
    destruct (N.eqb (ltag l) t) eqn:E; [|exact C].
    apply N.eqb_eq in E. subst t. apply count_zero_find in F. rewrite F. apply le_n.
Qed.

(* redoing the round after a failed one gives what the round gives *)
Lemma step0_stepF_r loc l g root : larr l <> [] -> step0r loc l (stepFr loc l g root) = step0r loc l root.
Proof.
  intro NE. unfold step0r, stepFr. destruct (larr l) as [|o r]; [congruence|].
  destruct (find_tag (ltag l) root) as [c|] eqn:F.
  - rewrite find_tag_update_same by (intro d; reflexivity). rewrite F. simpl.
    rewrite update_first_twice by (intro d; reflexivity). apply update_first_ext. intro d. reflexivity.
  - rewrite find_tag_insert_absent; [|exact F|reflexivity].
    rewrite update_first_insert_absent; [reflexivity|exact F|reflexivity].
Qed.

(* ---- the round as save() runs it: later elements of the library's name are removed first *)

Lemma find_dedupe_other t' t R : t' <> t -> forall seen, find_tag t' (dedupe_from t seen R) = find_tag t' R.
Proof.
  intro N. induction R as [|c r IH]; intro seen; [reflexivity|]. simpl.
  destruct (has_tag t c) eqn:E.
  - assert (X : has_tag t' c = false).
    { apply has_tag_neq. apply has_tag_eq in E. congruence. }
    rewrite X. destruct seen; [apply IH|]. simpl. rewrite X. apply IH.
  - simpl. destruct (has_tag t' c); [reflexivity|apply IH].
Qed.

Lemma find_dedupe_same t R : find_tag t (dedupe t R) = find_tag t R.
Proof.
  unfold dedupe. induction R as [|c r IH]; [reflexivity|]. simpl.
  destruct (has_tag t c) eqn:E; simpl; rewrite E; [reflexivity|exact IH].
Qed.

Lemma find_dedupe t' t R : find_tag t' (dedupe t R) = find_tag t' R.
Proof.
  destruct (N.eq_dec t' t) as [X|X]; [subst; apply find_dedupe_same|apply find_dedupe_other; exact X].
Qed.

Lemma count_dedupe_le t' t R : forall seen, count_tag t' (dedupe_from t seen R) <= count_tag t' R.
Proof.
  induction R as [|c r IH]; intro seen; [apply le_n|]. simpl.
  destruct (has_tag t c).
  - destruct seen; rewrite ?count_cons; specialize (IH true); destruct (has_tag t' c); lia.
  - rewrite !count_cons. specialize (IH seen). destruct (has_tag t' c); lia.
Qed.

Lemma count_dedupe_seen t R : count_tag t (dedupe_from t true R) = 0.
Proof.
  induction R as [|c r IH]; [reflexivity|]. simpl.
  destruct (has_tag t c) eqn:E; [exact IH|]. rewrite count_cons, E. exact IH.
Qed.

Lemma count_dedupe_same t R : count_tag t (dedupe t R) <= 1.
Proof.
  unfold dedupe. induction R as [|c r IH]; [apply Nat.le_0_l|]. simpl.
  destruct (has_tag t c) eqn:E; rewrite count_cons, E.
  - rewrite count_dedupe_seen. apply le_n.
  - exact IH.
Qed.

Lemma dedupe_cons_other t a rest : rtag a <> t -> dedupe t (a :: rest) = a :: dedupe t rest.
Proof. intro N. apply has_tag_neq in N. unfold dedupe. simpl. rewrite N. reflexivity. Qed.

Definition step0 (loc : nat) (l : lib) (root : list rchild) : list rchild :=
  step0r loc l (dedupe (ltag l) root).
Definition stepF (loc : nat) (l : lib) (g : list (N * N) -> list (N * N)) (root : list rchild) :=
  stepFr loc l g (dedupe (ltag l) root).

Lemma lib_step_shape bad loc l root root' l' x : lib_step bad loc l root = (root', l', x) ->
  pt_lib l' l /\ map oview (larr l') = map oview (larr l) /\
  (x = None -> root' = step0 loc l root /\ l' = touchlib l) /\
  (forall e, x = Some e -> larr l <> [] /\ exists g, root' = stepF loc l g root).
Proof. intro E. exact (lib_step_shape_d _ _ _ _ _ _ _ E). Qed.

Lemma step0_pt loc l' l root : pt_lib l' l -> step0 loc l' root = step0 loc l root.
Proof.
  intro P. unfold step0. rewrite (step0_pt_r _ _ _ _ P). destruct P as (T & _). rewrite T. reflexivity.
Qed.

(* the library is done: the tree says what the model says about it, and only once *)
Definition lib_done (root : list rchild) (l : lib) : Prop :=
  lib_synced root l /\ count_tag (ltag l) root <= 1.

Lemma absorb loc l root : lib_done root l -> step0 loc l root = root.
Proof. intros [S C]. unfold step0. rewrite (dedupe_id _ _ C). apply absorb_r. exact S. Qed.

Lemma count_step0_le loc l root t : count_tag t root <= 1 -> count_tag t (step0 loc l root) <= 1.
Proof.
  intro C. unfold step0. apply count_step0_le_r.
  - intro X. subst t. apply count_dedupe_same.
  - eapply Nat.le_trans; [apply count_dedupe_le|exact C].
Qed.

Lemma count_step0_self loc l root : count_tag (ltag l) (step0 loc l root) <= 1.
Proof. unfold step0. apply count_step0_le_r; intros; apply count_dedupe_same. Qed.

Lemma count_stepF_le loc l g root t : count_tag t root <= 1 -> count_tag t (stepF loc l g root) <= 1.
Proof.
  intro C. unfold stepF. apply count_stepF_le_r. eapply Nat.le_trans; [apply count_dedupe_le|exact C].
Qed.

Lemma count_stepF_self loc l g root : count_tag (ltag l) (stepF loc l g root) <= 1.
Proof. unfold stepF. apply count_stepF_le_r. apply count_dedupe_same. Qed.

Lemma done_after loc l root : lib_done (step0 loc l root) l.
Proof.
  split; [|apply count_step0_self]. unfold step0. apply synced_after_r. apply count_dedupe_same.
Qed.

Lemma find_step0_other loc l root t : t <> ltag l -> find_tag t (step0 loc l root) = find_tag t root.
Proof. intro N. unfold step0. rewrite find_step0_other_r by exact N. apply find_dedupe. Qed.

Lemma find_stepF_other loc l g root t : t <> ltag l -> find_tag t (stepF loc l g root) = find_tag t root.
Proof. intro N. unfold stepF. rewrite find_stepF_other_r by exact N. apply find_dedupe. Qed.

Lemma done_step0_other loc l l' root : ltag l <> ltag l' -> lib_done root l -> lib_done (step0 loc l' root) l.
Proof.
  intros N [S C]. split; [|apply count_step0_le; exact C].
  eapply synced_find; [|exact S]. apply find_step0_other. exact N.
Qed.

Lemma done_stepF_other loc l l' g root : ltag l <> ltag l' -> lib_done root l -> lib_done (stepF loc l' g root) l.
Proof.
  intros N [S C]. split; [|apply count_stepF_le; exact C].
  eapply synced_find; [|exact S]. apply find_stepF_other. exact N.
Qed.

(* redoing the round after a failed one gives what the round gives *)
Lemma step0_stepF loc l g root : larr l <> [] -> step0 loc l (stepF loc l g root) = step0 loc l root.
Proof.
  intro NE. unfold step0 at 1. rewrite (dedupe_id _ _ (count_stepF_self loc l g root)).
  unfold stepF, step0. apply step0_stepF_r. exact NE.
Qed.

(* ------------------------------------------------------------------ the library loop *)

Definition tloop (loc : nat) (libs : list lib) (root : list rchild) : list rchild :=
  fold_left (fun r l => step0 loc l r) libs root.

Lemma libs_loop_shape bad loc libs : forall root root' libs' x,
  libs_loop bad loc libs root = (root', libs', x) ->
  Forall2 pt_lib libs' libs /\
  map lview libs' = map lview libs /\
  (x = None -> root' = tloop loc libs root /\ libs' = map touchlib libs) /\
  (forall e, x = Some e -> exists pre lj post g,
      libs = pre ++ lj :: post /\ larr lj <> [] /\ root' = stepF loc lj g (tloop loc pre root)).
Proof.
  induction libs as [|l rest IH]; simpl; intros root root' libs' x E.
  - inversion E; subst. split; [constructor|]. split; [reflexivity|].
    split; [intros _; split; reflexivity|intros e X; discriminate].
  - destruct (lib_step bad loc l root) as [[root1 l1] y] eqn:E1.
    destruct (lib_step_shape _ _ _ _ _ _ _ E1) as (P & V & A & B).
    assert (LV : lview l1 = lview l).
    { unfold lview. destruct P as (T & R & _). rewrite T, R, V. reflexivity. }
    destruct y as [e|].
    + inversion E; subst. split.
      { constructor; [exact P|]. clear. induction rest; constructor; [apply pt_lib_refl|assumption]. }
      split; [simpl; rewrite LV; reflexivity|].
      split; [intro X; discriminate|].
      intros e0 X. destruct (B e eq_refl) as (NE & g & G).
      exists [], l, rest, g. simpl. split; [reflexivity|]. split; assumption.
    + destruct (libs_loop bad loc rest root1) as [[root2 rest'] z] eqn:E2.
      inversion E; subst. destruct (IH _ _ _ _ E2) as (F2 & V2 & A2 & B2).
      destruct (A eq_refl) as [A1 A1']. subst root1.
      split; [constructor; assumption|].
      split; [simpl; rewrite LV, V2; reflexivity|].
      split.
      * intro H. destruct (A2 H) as [X1 X2]. subst root'. split; [reflexivity|].
        simpl. rewrite A1', X2. reflexivity.
      * intros e X. destruct (B2 e X) as (pre & lj & post & g & L & NE & G).
        exists (l :: pre), lj, post, g. simpl. rewrite L. split; [reflexivity|]. split; assumption.
Qed.

Lemma tloop_pt loc libs' libs root : Forall2 pt_lib libs' libs -> tloop loc libs' root = tloop loc libs root.
Proof.
  intro F. revert root. induction F as [|l' l a' a P F IH]; intro root; [reflexivity|].
  simpl. rewrite (step0_pt _ _ _ _ P). apply IH.
Qed.

Lemma absorb_all loc libs root : Forall (lib_done root) libs -> tloop loc libs root = root.
Proof.
  induction libs as [|l rest IH]; intro F; [reflexivity|].
  inversion F; subst. simpl. rewrite absorb by assumption. apply IH. assumption.
Qed.

Lemma done_tloop_other loc libs l : ~ In (ltag l) (map ltag libs) -> forall root,
  lib_done root l -> lib_done (tloop loc libs root) l.
Proof.
  induction libs as [|m rest IH]; intros NI root S; [exact S|].
  simpl. apply IH.
  - intro X. apply NI. right. exact X.
  - apply done_step0_other; [|exact S]. intro X. apply NI. left. symmetry. exact X.
Qed.

Lemma tloop_done loc libs : NoDup (map ltag libs) -> forall root,
  Forall (lib_done (tloop loc libs root)) libs.
Proof.
  induction libs as [|l rest IH]; intros ND root; [constructor|].
  inversion ND as [|? ? NI ND']; subst. simpl. constructor.
  - apply done_tloop_other; [exact NI|]. apply done_after.
  - apply IH. exact ND'.
Qed.

Lemma count_tloop_le loc libs root x : count_tag x root <= 1 -> count_tag x (tloop loc libs root) <= 1.
Proof.
  revert root. induction libs as [|l rest IH]; intros root C; [exact C|]. simpl.
  apply IH. apply count_step0_le. exact C.
Qed.

Lemma NoDup_app_l {A} (a b : list A) : NoDup (a ++ b) -> NoDup a.
Proof.
  induction a as [|x r IH]; simpl; intro H; [constructor|].
  inversion H; subst. constructor; [|apply IH; assumption].
  intro I. apply H2. apply in_or_app. left. exact I.
Qed.

(* confluence of the loop: a failed attempt (rounds for pre, a failing round for lj) is
   forgotten by a complete run *)
Lemma tloop_confluent loc pre lj post g root :
  NoDup (map ltag (pre ++ lj :: post)) -> larr lj <> [] ->
  tloop loc (pre ++ lj :: post) (stepF loc lj g (tloop loc pre root)) = tloop loc (pre ++ lj :: post) root.
Proof.
  intros ND NE. unfold tloop at 1 3. rewrite !fold_left_app. fold (tloop loc pre root).
  set (X := stepF loc lj g (tloop loc pre root)).
  assert (NDpre : NoDup (map ltag pre)).
  { rewrite map_app in ND. apply NoDup_app_l in ND. exact ND. }
  assert (NIj : ~ In (ltag lj) (map ltag pre)).
  { rewrite map_app in ND. simpl in ND. apply NoDup_remove_2 in ND. intro I. apply ND. apply in_or_app. left. exact I. }
  assert (S : Forall (lib_done X) pre).
  { assert (S0 := tloop_done loc pre NDpre root).
    rewrite Forall_forall in *. intros l I. unfold X. apply done_stepF_other; [|apply S0; exact I].
    intro E. apply NIj. rewrite <- E. apply in_map. exact I. }
  fold (tloop loc pre X). rewrite (absorb_all loc pre X S).
  simpl. unfold X. rewrite step0_stepF by exact NE. reflexivity.
Qed.

Lemma tloop_idem_gen loc libs root X : NoDup (map ltag libs) ->
  (forall l, In l libs -> find_tag (ltag l) X = find_tag (ltag l) (tloop loc libs root) /\
                          (count_tag (ltag l) (tloop loc libs root) <= 1 -> count_tag (ltag l) X <= 1)) ->
  tloop loc libs X = X.
Proof.
  intros ND FX. apply absorb_all. assert (S := tloop_done loc libs ND root).
  rewrite Forall_forall in *. intros l I. destruct (FX l I) as [F C]. destruct (S l I) as [S1 S2].
  split; [eapply synced_find; [exact F|exact S1]|apply C; exact S2].
Qed.

(* ------------------------------------------------------------------ the whole save *)

Definition root0 (m : model) (t : list rchild) : list rchild := asset_el m :: remove_first a_asset t.
Definition fin (sc : option (N * atom)) (R : list rchild) : list rchild :=
  let R3 := update_first a_scene clear_el (ensure_scene R) in
  match sc with None => R3 | Some (_, sid) => update_first a_scene (set_kids [(0%N, sid)]) R3 end.
Definition touchm (m : model) : model := Model (masset m) (map touchlib (mlibs m)) (mscene m).
Definition final (m : model) (t : list rchild) : list rchild :=
  fin (mscene m) (tloop (library_loc (root0 m t)) (mlibs m) (root0 m t)).

Lemma save_in_shape fc m t s' r : save_in fc (St m t) = (s', r) ->
  let loc := library_loc (root0 m t) in
  masset (smodel s') = masset m /\ mscene (smodel s') = mscene m /\
  Forall2 pt_lib (mlibs (smodel s')) (mlibs m) /\
  map lview (mlibs (smodel s')) = map lview (mlibs m) /\
  ((exists sc, stree s' = fin sc (tloop loc (mlibs m) (root0 m t)) /\
               (r = Ok tt -> sc = scene_in fc (mscene m))) \/
   (exists pre lj post g, mlibs m = pre ++ lj :: post /\ larr lj <> [] /\ r <> Ok tt /\
        stree s' = stepF loc lj g (tloop loc pre (root0 m t)))).
Proof.
  unfold save_in. simpl smodel. simpl stree. fold (root0 m t).
  change (insert_at 0 (asset_el m) (remove_first a_asset t)) with (root0 m t).
  destruct (libs_loop (fbad fc) (library_loc (root0 m t)) (mlibs m) (root0 m t)) as [[root1 libs'] x] eqn:E.
  destruct (libs_loop_shape _ _ _ _ _ _ _ E) as (F & V & A & B).
  destruct x as [e|].
  - intro X. inversion X; subst. simpl.
    split; [reflexivity|]. split; [reflexivity|]. split; [exact F|]. split; [exact V|].
    right. destruct (B e eq_refl) as (pre & lj & post & g & L & NE & G).
    exists pre, lj, post, g. split; [exact L|]. split; [exact NE|]. split; [discriminate|exact G].
  - destruct (A eq_refl) as [A1 A2]. subst root1.
    destruct (scene_in fc (mscene m)) as [[su sid]|] eqn:ES.
    + destruct (existsb (fun o => N.eqb (ouid o) su) (scenes_of m)); intro X; inversion X; subst; simpl;
        (split; [reflexivity|]); (split; [reflexivity|]); (split; [exact F|]); (split; [exact V|]); left.
      * exists (Some (su, sid)). split; [reflexivity|intros _; reflexivity].
      * exists None. split; [reflexivity|intro; discriminate].
    + intro X; inversion X; subst; simpl.
      split; [reflexivity|]. split; [reflexivity|]. split; [exact F|]. split; [exact V|]. left.
      exists None. split; [reflexivity|intros _; reflexivity].
Qed.

(* saving never changes what the user can see of the model *)
Lemma save_keeps_view fc s : view (smodel (fst (save_in fc s))) = view (smodel s).
Proof.
  destruct s as [m t]. destruct (save_in fc (St m t)) as [s' r] eqn:E.
  destruct (save_in_shape _ _ _ _ _ E) as (A & S & _ & V & _).
  simpl. unfold view. rewrite A, S, V. reflexivity.
Qed.

(* ---- heads and the insertion position *)
Definition headed (a : rchild) (R : list rchild) : Prop := exists rest, R = a :: rest.

Lemma step0_headed loc l a R : 1 <= loc -> rtag a <> ltag l -> headed a R -> headed a (step0 loc l R).
Proof.
  intros L N [rest E]. subst R. unfold step0. rewrite (dedupe_cons_other _ _ _ N).
  set (rest' := dedupe (ltag l) rest). apply has_tag_neq in N. unfold step0r.
  destruct (find_tag (ltag l) (a :: rest')), (larr l); simpl; try rewrite N; try (eexists; reflexivity).
  destruct loc; [lia|]. simpl. eexists; reflexivity.
Qed.

Lemma stepF_headed loc l g a R : 1 <= loc -> rtag a <> ltag l -> headed a R -> headed a (stepF loc l g R).
Proof.
  intros L N [rest E]. subst R. unfold stepF. rewrite (dedupe_cons_other _ _ _ N).
  set (rest' := dedupe (ltag l) rest). apply has_tag_neq in N. unfold stepFr.
  destruct (find_tag (ltag l) (a :: rest')); simpl; try rewrite N; try (eexists; reflexivity).
  destruct loc; [lia|]. simpl. eexists; reflexivity.
Qed.

Lemma tloop_headed loc libs a : 1 <= loc -> ~ In (rtag a) (map ltag libs) -> forall R,
  headed a R -> headed a (tloop loc libs R).
Proof.
  intros L. induction libs as [|l rest IH]; intros NI R H; [exact H|]. simpl.
  apply IH; [intro X; apply NI; right; exact X|].
  apply step0_headed; [exact L| |exact H]. intro X. apply NI. left. symmetry. exact X.
Qed.

Lemma fin_headed sc a R : rtag a <> a_scene -> rtag a <> a_extra -> headed a R -> headed a (fin sc R).
Proof.
  intros N NX [rest E]. apply has_tag_neq in NX. subst R. apply has_tag_neq in N. unfold fin, ensure_scene.
  assert (H1 : headed a (update_first a_scene clear_el
                (match find_tag a_scene (a :: rest) with Some _ => a :: rest
                 | None => insert_at (scene_loc (a :: rest)) (new_el a_scene) (a :: rest) end))).
  { destruct (find_tag a_scene (a :: rest)); simpl; [rewrite N; eexists; reflexivity|].
    rewrite NX. simpl. rewrite N. eexists; reflexivity. }
  destruct sc as [[su0 sid0]|]; [|exact H1]. destruct H1 as [r1 E1]. rewrite E1. simpl. rewrite N. eexists; reflexivity.
Qed.

Lemma loc_aux_none i loc R : count_tag a_asset R = 0 -> loc_aux i loc R = loc.
Proof.
  revert i loc. induction R as [|c r IH]; intros i loc C; [reflexivity|]. simpl.
  rewrite count_cons in C. destruct (has_tag a_asset c); [simpl in C; discriminate|]. apply IH. exact C.
Qed.

Lemma library_loc_headed a rest : rtag a = a_asset -> count_tag a_asset (a :: rest) <= 1 ->
  library_loc (a :: rest) = 1.
Proof.
  intros T C. unfold library_loc. simpl. apply has_tag_eq in T. rewrite T.
  rewrite count_cons, T in C. apply loc_aux_none. lia.
Qed.

Lemma root0_headed_id m R : headed (asset_el m) R -> root0 m R = R.
Proof. intros [rest E]. subst R. reflexivity. Qed.

(* ---- scene step *)
Lemma ensure_present R : find_tag a_scene (ensure_scene R) <> None.
Proof.
  unfold ensure_scene. destruct (find_tag a_scene R) eqn:F; [rewrite F; discriminate|].
  rewrite find_tag_insert_absent; [discriminate|exact F|reflexivity].
Qed.

Lemma ensure_id R : find_tag a_scene R <> None -> ensure_scene R = R.
Proof. unfold ensure_scene. destruct (find_tag a_scene R); [reflexivity|congruence]. Qed.

Lemma fin_present sc R : find_tag a_scene (fin sc R) <> None.
Proof.
  assert (P := ensure_present R). unfold fin.
  assert (P3 : find_tag a_scene (update_first a_scene clear_el (ensure_scene R)) <> None).
  { rewrite find_tag_update_same by apply keeps_clear. destruct (find_tag a_scene (ensure_scene R)); [discriminate|congruence]. }
  destruct sc as [[su0 sid0]|]; [|exact P3].
  rewrite find_tag_update_same by apply keeps_set_kids.
  destruct (find_tag a_scene (update_first a_scene clear_el (ensure_scene R))); [discriminate|congruence].
Qed.

Lemma fin_fin a b R : fin a (fin b R) = fin a R.
Proof.
  unfold fin at 1. rewrite ensure_id by apply fin_present.
  assert (X : update_first a_scene clear_el (fin b R) = update_first a_scene clear_el (ensure_scene R)).
  { unfold fin. destruct b as [[su0 sid0]|].
    - rewrite !update_first_twice by (first [apply keeps_set_kids|apply keeps_clear|intro c; reflexivity]).
      apply update_first_ext. intro c. reflexivity.
    - rewrite update_first_twice by apply keeps_clear. apply update_first_ext. intro c. reflexivity. }
  rewrite X. reflexivity.
Qed.

Lemma find_fin_other sc R t : t <> a_scene -> find_tag t (fin sc R) = find_tag t R.
Proof.
  intro N. unfold fin.
  assert (E : find_tag t (update_first a_scene clear_el (ensure_scene R)) = find_tag t R).
  { rewrite find_tag_update_other; [|apply keeps_clear|exact N].
    unfold ensure_scene. destruct (find_tag a_scene R); [reflexivity|].
    apply find_tag_insert_other. simpl. congruence. }
  destruct sc as [[su0 sid0]|]; [|exact E]. rewrite find_tag_update_other; [exact E|apply keeps_set_kids|exact N].
Qed.

Lemma count_fin_le sc R t : count_tag t R <= 1 -> count_tag t (fin sc R) <= 1.
Proof.
  intro C. unfold fin.
  assert (E : count_tag t (update_first a_scene clear_el (ensure_scene R)) <= 1).
  { rewrite count_update by apply keeps_clear. unfold ensure_scene.
    destruct (find_tag a_scene R) eqn:F; [exact C|]. rewrite count_insert.
    destruct (has_tag t (new_el a_scene)) eqn:X; [|exact C]. apply has_tag_eq in X. simpl in X. subst t.
    apply count_zero_find in F. rewrite F. apply le_n. }
  destruct sc as [[su0 sid0]|]; [|exact E]. rewrite count_update by apply keeps_set_kids. exact E.
Qed.

(* ---- well-formedness *)
Lemma managed_lib m l : In l (mlibs m) -> managed m (ltag l) = true.
Proof.
  intro I. unfold managed. apply orb_true_iff. right. apply existsb_exists. exists l.
  split; [exact I|apply N.eqb_refl].
Qed.
Lemma managed_asset m : managed m a_asset = true.
Proof. unfold managed. rewrite N.eqb_refl. reflexivity. Qed.
Lemma managed_scene m : managed m a_scene = true.
Proof. unfold managed. rewrite N.eqb_refl. rewrite orb_true_r. reflexivity. Qed.

Lemma count_root0_le m t x : count_tag x t <= 1 -> count_tag x (root0 m t) <= 1.
Proof.
  intro C. unfold root0. rewrite count_cons.
  destruct (has_tag x (asset_el m)) eqn:E.
  - apply has_tag_eq in E. simpl in E. subst x.
    assert (Z : count_tag a_asset (remove_first a_asset t) = 0).
    { apply count_zero_find. apply find_tag_remove_same. exact C. }
    rewrite Z. apply le_n.
  - simpl. eapply Nat.le_trans; [apply count_remove_le|exact C].
Qed.

(* every tree a save attempt can leave has at most one <asset> again *)
Lemma single_asset_save fc m t : single_asset t -> single_asset (stree (fst (save_in fc (St m t)))).
Proof.
  unfold single_asset. intros W. destruct (save_in fc (St m t)) as [s' r] eqn:E.
  destruct (save_in_shape _ _ _ _ _ E) as (_ & _ & _ & _ & [(sc & T & _)|(pre & lj & post & g & _ & _ & _ & T)]);
    simpl; rewrite T.
  - apply count_fin_le, count_tloop_le, count_root0_le, W.
  - apply count_stepF_le, count_tloop_le, count_root0_le, W.
Qed.

Lemma libs_loop_nofault loc libs root :
  snd (libs_loop (fun _ => None) loc libs root) = None.
Proof.
  revert root. induction libs as [|l rest IH]; intro root; [reflexivity|]. simpl.
  destruct (lib_step (fun _ => None) loc l root) as [[root1 l1] y] eqn:E1.
  assert (Y : y = None).
  { unfold lib_step in E1. cbv zeta in E1.
    assert (SA : forall rc arr, snd (save_arr (fun _ => None) rc arr) = None).
    { intros rc arr. induction arr as [|o r IHr]; [reflexivity|]. simpl.
      destruct (save_arr (fun _ => None) rc r) as [[a b] c]. simpl in *. exact IHr. }
    destruct (find_tag (ltag l) (dedupe (ltag l) root)), (larr l) eqn:EA; try (inversion E1; reflexivity);
      rewrite <- EA in E1;
      destruct (save_arr (fun _ => None) (lrec l) (larr l)) as [[a b] c] eqn:ES;
      specialize (SA (lrec l) (larr l)); rewrite ES in SA; simpl in SA; subst c;
      inversion E1; reflexivity. }
  subst y. specialize (IH root1).
  destruct (libs_loop (fun _ => None) loc rest root1) as [[a b] c]. simpl in *. exact IH.
Qed.

Lemma save_healthy m t : healthy m -> save (St m t) = (St (touchm m) (final m t), Ok tt).
Proof.
  intros H. unfold save, save_in. simpl smodel. simpl stree.
  change (insert_at 0 (asset_el m) (remove_first a_asset t)) with (root0 m t).
  assert (NF := libs_loop_nofault (library_loc (root0 m t)) (mlibs m) (root0 m t)).
  simpl fbad.
  destruct (libs_loop (fun _ => None) (library_loc (root0 m t)) (mlibs m) (root0 m t)) as [[root1 libs'] x] eqn:E.
  simpl in NF. subst x.
  destruct (libs_loop_shape _ _ _ _ _ _ _ E) as (_ & _ & A & _).
  destruct (A eq_refl) as [A1 A2]. subst.
  unfold final, fin, touchm, scene_in, healthy in *. simpl.
  destruct (mscene m) as [[su sid]|]; [rewrite H|]; reflexivity.
Qed.

(* view-equal models agree on everything the hypotheses talk about *)
Lemma view_tags m1 m : view m1 = view m -> map ltag (mlibs m1) = map ltag (mlibs m) /\ mscene m1 = mscene m.
Proof.
  unfold view. intro V. inversion V as [[A L S]]. split; [|reflexivity]. clear - L.
  revert L. generalize (mlibs m). induction (mlibs m1) as [|l1 r1 IH]; intros [|l r] L; try discriminate; [reflexivity|].
  simpl in L. inversion L. simpl. f_equal; [assumption|apply IH; assumption].
Qed.

Lemma view_managed m1 m : view m1 = view m -> forall t, managed m1 t = managed m t.
Proof.
  intros V t. destruct (view_tags _ _ V) as [T _]. unfold managed. f_equal.
  assert (X : forall libs, existsb (fun l => N.eqb (ltag l) t) libs = existsb (fun x => N.eqb x t) (map ltag libs)).
  { induction libs as [|l r IH]; [reflexivity|]. simpl. rewrite IH. reflexivity. }
  rewrite !X, T. reflexivity.
Qed.

Lemma view_wf_libs m1 m : view m1 = view m -> wf_libs m -> wf_libs m1.
Proof. intros V. destruct (view_tags _ _ V) as [T _]. unfold wf_libs. rewrite T. exact (fun x => x). Qed.

Lemma view_healthy m1 m : view m1 = view m -> healthy m -> healthy m1.
Proof.
  intros V H. destruct (view_tags _ _ V) as [_ S]. unfold healthy in *. rewrite S.
  destruct (mscene m) as [[su sid]|]; [|exact I]. rewrite <- H. unfold scenes_of.
  unfold view in V. inversion V as [[A L S']]. clear - L.
  revert L. generalize (mlibs m). induction (mlibs m1) as [|l1 r1 IH]; intros [|l r] L; try discriminate; [reflexivity|].
  simpl in L. inversion L as [[VT VR VA Q]]. simpl. rewrite VT.
  destruct (N.eqb (ltag l) a_library_visual_scenes); [|apply IH; assumption].
  simpl. rewrite !existsb_app. f_equal; [|apply IH; assumption].
  clear - VA. revert VA. generalize (larr l). induction (larr l1) as [|o1 q1 IHq]; intros [|o q] VA; try discriminate; [reflexivity|].
  simpl in VA. inversion VA as [[U I C Q]]. simpl. rewrite U. f_equal. apply IHq. exact Q.
Qed.


Lemma final_pt m1 m t1 : masset m1 = masset m -> mscene m1 = mscene m ->
  Forall2 pt_lib (mlibs m1) (mlibs m) -> final m1 t1 = final m t1.
Proof.
  intros A S F. unfold final, root0, asset_el. rewrite A, S. rewrite (tloop_pt _ _ _ _ F). reflexivity.
Qed.

(* ---- confluence: whatever a save attempt in any fault context leaves behind, the next
   complete save gives what a complete save of the original state gives *)
Theorem save_confluent fc s :
  wf_libs (smodel s) -> single_asset (stree s) -> healthy (smodel s) ->
  save (fst (save_in fc s)) = save s.
Proof.
  destruct s as [m t]. simpl. intros (ND & NA & NS) W H.
  destruct (save_in fc (St m t)) as [[m1 t1] r] eqn:E.
  destruct (save_in_shape _ _ _ _ _ E) as (A & S & F & V & T). simpl in A, S, F, V, T. simpl fst.
  (* the model side *)
  assert (TM : touchm m1 = touchm m).
  { unfold touchm. rewrite A, S. f_equal.
    clear - F. induction F as [|l' l a' a P F IH]; [reflexivity|]. simpl. rewrite IH, (pt_lib_touchlib _ _ P). reflexivity. }
  assert (VW : view m1 = view m) by (unfold view; rewrite A, S, V; reflexivity).
  assert (H1 : healthy m1) by (apply (view_healthy _ _ VW H)).
  rewrite (save_healthy m1 t1 H1), (save_healthy m t H), TM. f_equal. f_equal.
  rewrite (final_pt m1 m t1 A S F).
  (* the tree side *)
  set (R0 := root0 m t) in *. set (loc := library_loc R0) in *.
  assert (HA : rtag (asset_el m) = a_asset) by reflexivity.
  assert (CA : count_tag a_asset R0 <= 1) by (apply count_root0_le; exact W).
  assert (L1 : loc = 1).
  { unfold loc, R0, root0. apply library_loc_headed; [exact HA|exact CA]. }
  assert (HD0 : headed (asset_el m) R0) by (eexists; reflexivity).
  assert (HD1 : headed (asset_el m) t1).
  { destruct T as [(sc & T & _)|(pre & lj & post & g & L & _ & _ & T)]; rewrite T.
    - apply fin_headed; [discriminate|discriminate|]. apply tloop_headed; [lia|exact NA|exact HD0].
    - apply stepF_headed; [lia| |].
      + simpl. intro X. apply NA. rewrite L, map_app. apply in_or_app. right. left. symmetry. exact X.
      + apply tloop_headed; [lia| |exact HD0].
        intro X. apply NA. rewrite L, map_app. apply in_or_app. left. exact X. }
  assert (C1 : count_tag a_asset t1 <= 1).
  { assert (W2 := single_asset_save fc m t W). rewrite E in W2. exact W2. }
  assert (R1 : root0 m t1 = t1) by (apply root0_headed_id; exact HD1).
  assert (LL : library_loc t1 = loc).
  { rewrite L1. destruct HD1 as [rest X]. rewrite X in *. apply library_loc_headed; [exact HA|exact C1]. }
  unfold final. rewrite R1, LL. fold R0. fold loc.
  destruct T as [(sc & T & _)|(pre & lj & post & g & L & NE & _ & T)]; rewrite T.
  - rewrite (tloop_idem_gen loc (mlibs m) R0); [apply fin_fin|exact ND|].
    intros l I.
    assert (NSl : ltag l <> a_scene) by (intro X; apply NS; rewrite <- X; apply in_map; exact I).
    split; [apply find_fin_other; exact NSl|apply count_fin_le].
  - f_equal. rewrite L. apply tloop_confluent; try rewrite <- L; assumption.
Qed.

(* saving again without an edit in between changes nothing at all *)
Theorem save_idempotent s s1 :
  wf_libs (smodel s) -> single_asset (stree s) -> save s = (s1, Ok tt) -> save s1 = (s1, Ok tt).
Proof.
  intros WL WR E.
  assert (H : healthy (smodel s)).
  { destruct s as [m t]. unfold save, save_in in E. simpl in *.
    destruct (libs_loop (fun _ => None) _ (mlibs m) _) as [[root1 libs'] x].
    destruct x; [discriminate|]. unfold healthy, scene_in in *. simpl in *.
    destruct (mscene m) as [[su sid]|]; [|exact I].
    destruct (existsb _ (scenes_of m)); [reflexivity|discriminate]. }
  assert (C := save_confluent no_fault s WL WR H). fold (save s) in C. rewrite E in C. simpl in C.
  exact C.
Qed.

(* ---- unmanaged children *)
Section Unmanaged.
  Variable q : atom -> bool.
  Let p (c : rchild) := q (rtag c).

  Lemma filter_remove_first t R : q t = false -> filter p (remove_first t R) = filter p R.
  Proof.
    intro Q. induction R as [|c r IH]; [reflexivity|]. simpl.
    destruct (has_tag t c) eqn:E.
    - apply has_tag_eq in E. unfold p at 2. rewrite E, Q. reflexivity.
    - simpl. rewrite IH. reflexivity.
  Qed.

  Lemma filter_update_first t f R : keeps_tag f -> q t = false -> filter p (update_first t f R) = filter p R.
  Proof.
    intros K Q. induction R as [|c r IH]; [reflexivity|]. simpl.
    destruct (has_tag t c) eqn:E.
    - apply has_tag_eq in E. simpl.
      assert (P1 : p (f c) = false) by (unfold p; rewrite K, E; exact Q).
      assert (P2 : p c = false) by (unfold p; rewrite E; exact Q).
      rewrite P1, P2. reflexivity.
    - simpl. rewrite IH. reflexivity.
  Qed.

  Lemma filter_insert_at n x R : q (rtag x) = false -> filter p (insert_at n x R) = filter p R.
  Proof.
    intro Q. assert (P1 : p x = false) by exact Q. revert R. induction n as [|n IH]; intro R.
    - destruct R; simpl; rewrite P1; reflexivity.
    - destruct R as [|c r]; simpl.
      + rewrite P1. reflexivity.
      + rewrite IH. reflexivity.
  Qed.

  Lemma filter_dedupe t R : q t = false -> forall seen, filter p (dedupe_from t seen R) = filter p R.
  Proof.
    intro Q. induction R as [|c r IH]; intro seen; [reflexivity|]. simpl.
    destruct (has_tag t c) eqn:E.
    - apply has_tag_eq in E. assert (P1 : p c = false) by (unfold p; rewrite E; exact Q).
      destruct seen; simpl; rewrite P1; apply IH.
    - simpl. rewrite IH. reflexivity.
  Qed.

  Lemma filter_step0 loc l R : q (ltag l) = false -> filter p (step0 loc l R) = filter p R.
  Proof.
    intro Q. unfold step0. rewrite <- (filter_dedupe (ltag l) R Q false). fold (dedupe (ltag l) R).
    set (D := dedupe (ltag l) R). unfold step0r. destruct (find_tag (ltag l) D), (larr l); try reflexivity.
    - apply filter_remove_first; exact Q.
    - apply filter_update_first; [apply keeps_set_kids|exact Q].
    - apply filter_insert_at; exact Q.
  Qed.

  Lemma filter_stepF loc l g R : q (ltag l) = false -> filter p (stepF loc l g R) = filter p R.
  Proof.
    intro Q. unfold stepF. rewrite <- (filter_dedupe (ltag l) R Q false). fold (dedupe (ltag l) R).
    set (D := dedupe (ltag l) R). unfold stepFr. destruct (find_tag (ltag l) D).
    - apply filter_update_first; [intro c; reflexivity|exact Q].
    - apply filter_insert_at; exact Q.
  Qed.

  Lemma filter_tloop loc libs R : (forall l, In l libs -> q (ltag l) = false) ->
    filter p (tloop loc libs R) = filter p R.
  Proof.
    revert R. induction libs as [|l rest IH]; intros R Q; [reflexivity|]. simpl.
    rewrite IH by (intros; apply Q; right; assumption).
    apply filter_step0. apply Q. left. reflexivity.
  Qed.

  Lemma filter_fin sc R : q a_scene = false -> filter p (fin sc R) = filter p R.
  Proof.
    intro Q. unfold fin.
    assert (E : filter p (update_first a_scene clear_el (ensure_scene R)) = filter p R).
    { rewrite filter_update_first; [|apply keeps_clear|exact Q]. unfold ensure_scene.
      destruct (find_tag a_scene R); [reflexivity|]. apply filter_insert_at. exact Q. }
    destruct sc as [[su0 sid0]|]; [|exact E]. rewrite filter_update_first; [exact E|apply keeps_set_kids|exact Q].
  Qed.

  Lemma filter_root0 m t : q a_asset = false -> filter p (root0 m t) = filter p t.
  Proof.
    intro Q. unfold root0. assert (P1 : p (asset_el m) = false) by exact Q. simpl. rewrite P1.
    apply filter_remove_first. exact Q.
  Qed.
End Unmanaged.

(* root children outside <asset>, the managed libraries and <scene> keep identity, order and
   subtree - after a complete save and after an interrupted one alike *)
Theorem unmanaged_preserved fc s :
  unmanaged_children (smodel s) (stree (fst (save_in fc s))) = unmanaged_children (smodel s) (stree s).
Proof.
  destruct s as [m t]. simpl. destruct (save_in fc (St m t)) as [s' r] eqn:E.
  destruct (save_in_shape _ _ _ _ _ E) as (_ & _ & _ & _ & T). simpl.
  unfold unmanaged_children.
  set (q := fun x => negb (managed m x)).
  assert (QA : q a_asset = false) by (unfold q; rewrite managed_asset; reflexivity).
  assert (QS : q a_scene = false) by (unfold q; rewrite managed_scene; reflexivity).
  assert (QL : forall l, In l (mlibs m) -> q (ltag l) = false).
  { intros l I. unfold q. rewrite (managed_lib m l I). reflexivity. }
  change (filter (fun c => negb (managed m (rtag c)))) with (filter (fun c => q (rtag c))).
  destruct T as [(sc & T & _)|(pre & lj & post & g & L & _ & _ & T)]; rewrite T.
  - rewrite filter_fin, filter_tloop, filter_root0; auto.
  - rewrite filter_stepF, filter_tloop, filter_root0; auto.
    + intros l I. apply QL. rewrite L. apply in_or_app. left. exact I.
    + apply QL. rewrite L. apply in_or_app. right. left. reflexivity.
Qed.

(* ---- the tree after a successful save says what the model says (SPEC [lib_synced]) *)
Theorem save_syncs s s1 :
  wf_libs (smodel s) -> single_asset (stree s) -> save s = (s1, Ok tt) ->
  Forall (lib_synced (stree s1)) (mlibs (smodel s)) /\
  hd_error (stree s1) = Some (asset_el (smodel s)) /\
  exists c, find_tag a_scene (stree s1) = Some c /\ rsub c = 0%N /\
            rkids c = match mscene (smodel s) with Some (_, sid) => [(0%N, sid)] | None => [] end.
Proof.
  destruct s as [m t]. simpl. intros (ND & NA & NS) W E.
  destruct (save_in_shape _ _ _ _ _ E) as (_ & _ & _ & _ & [(sc & T & SC)|(pre & lj & post & g & _ & _ & X & _)]);
    [|congruence].
  specialize (SC eq_refl). simpl in SC. unfold scene_in in SC. simpl in SC. subst sc.
  rewrite T. set (R0 := root0 m t). set (loc := library_loc R0).
  split; [|split].
  - assert (S := tloop_done loc (mlibs m) ND R0). rewrite Forall_forall in *. intros l I.
    eapply synced_find; [|apply (S l I)]. apply find_fin_other. intro Y. apply NS. rewrite <- Y. apply in_map. exact I.
  - assert (L1 : loc = 1).
    { unfold loc, R0, root0. apply library_loc_headed; [reflexivity|]. apply count_root0_le. exact W. }
    assert (HD : headed (asset_el m) (fin (mscene m) (tloop loc (mlibs m) R0))).
    { apply fin_headed; [discriminate|discriminate|]. apply tloop_headed; [lia|exact NA|eexists; reflexivity]. }
    destruct HD as [rest HD]. rewrite HD. reflexivity.
  - unfold fin. set (Y := tloop loc (mlibs m) R0).
    assert (P := ensure_present Y). destruct (find_tag a_scene (ensure_scene Y)) as [c|] eqn:F; [|congruence].
    destruct (mscene m) as [[su sid]|].
    + exists (set_kids [(0%N, sid)] (clear_el c)).
      rewrite !find_tag_update_same by (first [apply keeps_set_kids|apply keeps_clear]). rewrite F.
      split; [reflexivity|split; reflexivity].
    + exists (clear_el c). rewrite find_tag_update_same by apply keeps_clear. rewrite F.
      split; [reflexivity|split; reflexivity].
Qed.

(* ------------------------------------------------------------------ writes and histories *)

Lemma write_in_state fc d s : fst (fst (write_in fc d s)) = fst (save_in fc s).
Proof.
  unfold write_in. destruct (save_in fc s) as [s' [u|e]]; [|reflexivity].
  destruct d as [[n|] got|f]; try reflexivity. simpl.
  destruct (Nat.ltb n (length (ser (stree s')))); reflexivity.
Qed.

(* a failed write to a path: the destination is as it was, and so is the model *)
Theorem failed_write_leaves_destination fc f s s' d' e :
  write_in fc (DPath f) s = (s', d', Raise e) ->
  d' = DPath f /\ view (smodel s') = view (smodel s).
Proof.
  intro E. assert (V := save_keeps_view fc s). rewrite <- write_in_state with (d := DPath f) in V.
  rewrite E in V. simpl in V. split; [|exact V].
  unfold write_in in E. destruct (save_in fc s) as [s1 [u|e1]]; inversion E; reflexivity.
Qed.

(* any failed write, whatever the destination: the model is as it was *)
Theorem failed_write_keeps_model fc d s : view (smodel (fst (fst (write_in fc d s)))) = view (smodel s).
Proof. rewrite write_in_state. apply save_keeps_view. Qed.

(* the invariant of a history of attempts *)
Definition hist_inv (s0 s : state) : Prop :=
  view (smodel s) = view (smodel s0) /\ single_asset (stree s) /\ save s = save s0.

Lemma hist_step s0 s e :
  wf_libs (smodel s0) -> healthy (smodel s0) -> hist_inv s0 s -> hist_inv s0 (run_event s e).
Proof.
  intros WL H (V & W & S).
  assert (X : run_event s e = fst (save_in (match e with ESave fc => fc | EWrite fc _ => fc end) s)).
  { destruct e; simpl; [reflexivity|apply write_in_state]. }
  rewrite X. set (fc := match e with ESave fc => fc | EWrite fc _ => fc end).
  split; [|split].
  - rewrite save_keeps_view. exact V.
  - destruct s as [m t]. simpl in *. apply single_asset_save. exact W.
  - rewrite <- S. apply save_confluent.
    + apply (view_wf_libs _ _ V WL).
    + exact W.
    + apply (view_healthy _ _ V H).
Qed.

Lemma hist_all s0 es : wf_libs (smodel s0) -> single_asset (stree s0) -> healthy (smodel s0) ->
  hist_inv s0 (run_events s0 es).
Proof.
  intros WL WR H. unfold run_events.
  assert (I0 : hist_inv s0 s0) by (split; [reflexivity|split; [exact WR|reflexivity]]).
  revert I0. generalize s0 at 2 4. induction es as [|e r IH]; intros s I0; [exact I0|].
  simpl. apply IH. apply hist_step; assumption.
Qed.

(* after any history of attempts - complete saves, writes to sinks failing after any number of
   bytes, attempts failing in validation at any point, in any order and number - a write to a
   healthy destination delivers exactly what it delivers when nothing was ever attempted *)
Theorem write_after_failures s es :
  wf_libs (smodel s) -> single_asset (stree s) -> healthy (smodel s) ->
  healthy_bytes (run_events s es) = healthy_bytes s /\
  view (smodel (run_events s es)) = view (smodel s).
Proof.
  intros WL WR H. destruct (hist_all s es WL WR H) as (V & _ & S). split; [|exact V].
  unfold healthy_bytes, write, write_in. fold (save (run_events s es)). fold (save s). rewrite S. reflexivity.
Qed.

(* and that write does succeed *)
Lemma healthy_bytes_some s : healthy (smodel s) -> exists b, healthy_bytes s = Some b.
Proof.
  intros H. destruct s as [m t]. unfold healthy_bytes, write, write_in. fold (save (St m t)).
  rewrite (save_healthy m t H). simpl. eexists; reflexivity.
Qed.

(* ------------------------------------------------------------------ boolean checkers for the hypotheses *)
Definition special_tags (m : model) : list atom := a_asset :: a_scene :: map ltag (mlibs m).
Definition single_asset_b (root : list rchild) : bool := Nat.leb (count_tag a_asset root) 1.
Fixpoint nodup_b (l : list atom) : bool :=
  match l with [] => true | x :: r => negb (existsb (N.eqb x) r) && nodup_b r end.
Definition wf_libs_b (m : model) : bool := nodup_b (special_tags m) && negb (N.eqb a_asset a_scene).
Definition healthy_b (m : model) : bool :=
  match mscene m with None => true | Some (su, _) => existsb (fun o => N.eqb (ouid o) su) (scenes_of m) end.

Lemma managed_special m t : managed m t = true -> In t (special_tags m).
Proof.
  unfold managed, special_tags. intro M. apply orb_true_iff in M. destruct M as [M|M].
  - apply orb_true_iff in M. destruct M as [M|M]; apply N.eqb_eq in M; subst; [left|right; left]; reflexivity.
  - apply existsb_exists in M. destruct M as (l & I & E). apply N.eqb_eq in E. subst t.
    right. right. apply in_map. exact I.
Qed.

Lemma single_asset_b_ok root : single_asset_b root = true -> single_asset root.
Proof. unfold single_asset_b, single_asset. apply Nat.leb_le. Qed.

Lemma nodup_b_ok l : nodup_b l = true -> NoDup l.
Proof.
  induction l as [|x r IH]; intro B; [constructor|]. simpl in B. apply andb_true_iff in B. destruct B as [B1 B2].
  constructor; [|apply IH; exact B2]. intro I. apply negb_true_iff in B1.
  assert (X : existsb (N.eqb x) r = true) by (apply existsb_exists; exists x; split; [exact I|apply N.eqb_refl]).
  congruence.
Qed.

Lemma wf_libs_b_ok m : wf_libs_b m = true -> wf_libs m.
Proof.
  unfold wf_libs_b, special_tags. intro B. apply andb_true_iff in B. destruct B as [B _].
  apply nodup_b_ok in B. inversion B as [|? ? N1 B1]; subst. inversion B1 as [|? ? N2 B2]; subst.
  split; [exact B2|]. split.
  - intro I. apply N1. right. exact I.
  - exact N2.
Qed.

Lemma healthy_b_ok m : healthy_b m = true -> healthy m.
Proof. unfold healthy_b, healthy. destruct (mscene m) as [[su sid]|]; [exact (fun x => x)|intros _; exact I]. Qed.
