(* Proofs about Model/SaveState.v. *)
From Coq Require Import List Bool Arith NArith Lia.
From PC Require Import Base.Atoms Base.Outcome Model.SaveState.
Import ListNotations.

(* ------------------------------------------------------------------ root child lists *)

Lemma has_tag_eq t c : has_tag t c = true <-> rtag c = t.
Proof. unfold has_tag. apply N.eqb_eq. Qed.
Lemma has_tag_neq t c : has_tag t c = false <-> rtag c <> t.
Proof. unfold has_tag. apply N.eqb_neq. Qed.

Definition keeps_tag (f : rchild -> rchild) := forall c, rtag (f c) = rtag c.
Lemma keeps_set_kids ks : keeps_tag (set_kids ks). Proof. intro c; reflexivity. Qed.
Lemma keeps_clear : keeps_tag clear_el. Proof. intro c; reflexivity. Qed.
Lemma has_tag_keeps f t c : keeps_tag f -> has_tag t (f c) = has_tag t c.
Proof. intro K. unfold has_tag. rewrite K. reflexivity. Qed.

Lemma find_tag_update_other t t' f R : keeps_tag f -> t' <> t ->
  find_tag t' (update_first t f R) = find_tag t' R.
Proof.
  intros K N. induction R as [|c r IH]; [reflexivity|]. simpl.
  destruct (has_tag t c) eqn:E.
  - simpl. rewrite (has_tag_keeps f t' c K).
    apply has_tag_eq in E. destruct (has_tag t' c) eqn:E'.
    + apply has_tag_eq in E'. congruence.
    + reflexivity.
  - simpl. destruct (has_tag t' c); [reflexivity|exact IH].
Qed.

Lemma find_tag_update_same t f R : keeps_tag f ->
  find_tag t (update_first t f R) = option_map f (find_tag t R).
Proof.
  intro K. induction R as [|c r IH]; [reflexivity|]. simpl.
  destruct (has_tag t c) eqn:E; simpl.
  - rewrite (has_tag_keeps f t c K), E. reflexivity.
  - rewrite E. exact IH.
Qed.

Lemma find_tag_remove_other t t' R : t' <> t ->
  find_tag t' (remove_first t R) = find_tag t' R.
Proof.
  intro N. induction R as [|c r IH]; [reflexivity|]. simpl.
  destruct (has_tag t c) eqn:E.
  - apply has_tag_eq in E. destruct (has_tag t' c) eqn:E'.
    + apply has_tag_eq in E'. congruence.
    + reflexivity.
  - simpl. destruct (has_tag t' c); [reflexivity|exact IH].
Qed.

Lemma find_tag_insert_other t' n x R : rtag x <> t' ->
  find_tag t' (insert_at n x R) = find_tag t' R.
Proof.
  intro N. apply has_tag_neq in N. revert R. induction n as [|n IH]; intro R.
  - destruct R; simpl; rewrite N; reflexivity.
  - destruct R as [|c r]; simpl.
    + rewrite N. reflexivity.
    + destruct (has_tag t' c); [reflexivity|apply IH].
Qed.

Lemma find_tag_insert_absent t n x R : find_tag t R = None -> rtag x = t ->
  find_tag t (insert_at n x R) = Some x.
Proof.
  intros A T. apply has_tag_eq in T. revert R A. induction n as [|n IH]; intros R A.
  - destruct R; simpl; rewrite T; reflexivity.
  - destruct R as [|c r]; simpl.
    + rewrite T. reflexivity.
    + simpl in A. destruct (has_tag t c); [discriminate|apply IH; exact A].
Qed.

Lemma update_first_insert_absent t f n x R : find_tag t R = None -> rtag x = t ->
  update_first t f (insert_at n x R) = insert_at n (f x) R.
Proof.
  intros A T. apply has_tag_eq in T. revert R A. induction n as [|n IH]; intros R A.
  - destruct R; simpl; rewrite T; reflexivity.
  - destruct R as [|c r]; simpl.
    + rewrite T. reflexivity.
    + simpl in A. destruct (has_tag t c); [discriminate|]. f_equal. apply IH; exact A.
Qed.

Lemma update_first_twice t f g R : keeps_tag g ->
  update_first t f (update_first t g R) = update_first t (fun c => f (g c)) R.
Proof.
  intro K. induction R as [|c r IH]; [reflexivity|]. simpl.
  destruct (has_tag t c) eqn:E; simpl.
  - rewrite (has_tag_keeps g t c K), E. reflexivity.
  - rewrite E. f_equal. exact IH.
Qed.

Lemma update_first_ext t f g R : (forall c, f c = g c) -> update_first t f R = update_first t g R.
Proof.
  intro X. induction R as [|c r IH]; [reflexivity|]. simpl.
  destruct (has_tag t c); [rewrite X; reflexivity|f_equal; exact IH].
Qed.

Lemma update_first_id t f R c : find_tag t R = Some c -> f c = c -> update_first t f R = R.
Proof.
  induction R as [|d r IH]; [discriminate|]. simpl. intros F X.
  destruct (has_tag t d).
  - inversion F; subst. rewrite X. reflexivity.
  - f_equal. apply IH; assumption.
Qed.

Lemma update_first_absent t f R : find_tag t R = None -> update_first t f R = R.
Proof.
  induction R as [|d r IH]; [reflexivity|]. simpl. intro F.
  destruct (has_tag t d); [discriminate|]. f_equal. apply IH; exact F.
Qed.

Lemma find_tag_app t R x :
  find_tag t (R ++ [x]) = match find_tag t R with
                          | Some c => Some c
                          | None => if has_tag t x then Some x else None
                          end.
Proof.
  induction R as [|d r IH]; simpl; [reflexivity|].
  destruct (has_tag t d); [reflexivity|exact IH].
Qed.

Lemma update_first_app_present t f R x c : find_tag t R = Some c ->
  update_first t f (R ++ [x]) = update_first t f R ++ [x].
Proof.
  revert c. induction R as [|d r IH]; [discriminate|]. simpl. intros c F.
  destruct (has_tag t d); [reflexivity|]. simpl. f_equal. eapply IH; exact F.
Qed.

(* counting *)
Lemma count_cons t c R : count_tag t (c :: R) = (if has_tag t c then 1 else 0) + count_tag t R.
Proof. unfold count_tag. simpl. destruct (has_tag t c); reflexivity. Qed.

Lemma count_update t' t f R : keeps_tag f -> count_tag t' (update_first t f R) = count_tag t' R.
Proof.
  intro K. induction R as [|c r IH]; [reflexivity|]. simpl.
  destruct (has_tag t c); rewrite !count_cons.
  - rewrite (has_tag_keeps f t' c K). reflexivity.
  - rewrite IH. reflexivity.
Qed.

Lemma count_remove_le t' t R : count_tag t' (remove_first t R) <= count_tag t' R.
Proof.
  induction R as [|c r IH]; [apply le_n|]. simpl.
  destruct (has_tag t c); rewrite !count_cons; lia.
Qed.

Lemma count_insert t' n x R :
  count_tag t' (insert_at n x R) = (if has_tag t' x then 1 else 0) + count_tag t' R.
Proof.
  revert R. induction n as [|n IH]; intro R.
  - destruct R; simpl; rewrite count_cons; reflexivity.
  - destruct R as [|c r]; simpl.
    + rewrite count_cons. reflexivity.
    + rewrite !count_cons, IH. lia.
Qed.

Lemma count_app1 t' R x : count_tag t' (R ++ [x]) = count_tag t' R + (if has_tag t' x then 1 else 0).
Proof.
  induction R as [|c r IH]; simpl.
  - rewrite count_cons. unfold count_tag. simpl. lia.
  - rewrite !count_cons, IH. lia.
Qed.

Lemma count_zero_find t R : find_tag t R = None <-> count_tag t R = 0.
Proof.
  induction R as [|c r IH]; simpl; [split; reflexivity|].
  rewrite count_cons. destruct (has_tag t c); simpl.
  - split; intro; discriminate.
  - exact IH.
Qed.

Lemma find_tag_remove_same t R : count_tag t R <= 1 -> find_tag t (remove_first t R) = None.
Proof.
  induction R as [|c r IH]; [reflexivity|]. simpl. rewrite count_cons.
  destruct (has_tag t c) eqn:E; intro L.
  - apply count_zero_find. lia.
  - simpl. rewrite E. apply IH. simpl in L. exact L.
Qed.

Lemma find_some_tag t R c : find_tag t R = Some c -> rtag c = t.
Proof. intro F. apply find_some in F. apply has_tag_eq. apply F. Qed.

(* ------------------------------------------------------------------ objects *)

Lemma touch_touch rc o : touch rc (touch rc o) = touch rc o.
Proof. unfold touch. destruct rc; reflexivity. Qed.

Definition touchlib (l : lib) : lib := Lib (ltag l) (lrec l) (map (touch (lrec l)) (larr l)).
Definition K (l : lib) : list (N * N) := nodes_of (map (touch (lrec l)) (larr l)).

Lemma K_touchlib l : K (touchlib l) = K l.
Proof. unfold K, touchlib. simpl. rewrite map_map. f_equal. apply map_ext. intro o. apply touch_touch. Qed.

Lemma touchlib_touchlib l : touchlib (touchlib l) = touchlib l.
Proof. unfold touchlib. simpl. f_equal. rewrite map_map. apply map_ext. intro; apply touch_touch. Qed.

(* partially touched: each object saved or not yet *)
Definition pt_obj (rc : bool) (o' o : obj) : Prop := o' = o \/ o' = touch rc o.
Definition pt_lib (l' l : lib) : Prop :=
  ltag l' = ltag l /\ lrec l' = lrec l /\ Forall2 (pt_obj (lrec l)) (larr l') (larr l).

Lemma pt_obj_touch rc o' o : pt_obj rc o' o -> touch rc o' = touch rc o.
Proof. intros [E|E]; subst; [reflexivity|apply touch_touch]. Qed.

Lemma pt_lib_touchlib l' l : pt_lib l' l -> touchlib l' = touchlib l.
Proof.
  intros (T & R & F). unfold touchlib. rewrite T, R. f_equal.
  induction F as [|o' o a' a P F IH]; [reflexivity|]. simpl. rewrite IH.
  rewrite (pt_obj_touch _ _ _ P). reflexivity.
Qed.

Lemma pt_lib_refl l : pt_lib l l.
Proof.
  repeat split. induction (larr l); constructor; [left; reflexivity|assumption].
Qed.

Lemma pt_lib_empty l' l : pt_lib l' l -> (larr l' = [] <-> larr l = []).
Proof. intros (_ & _ & F). inversion F; split; intro; try reflexivity; try discriminate; subst; discriminate. Qed.

Lemma pt_lib_K l' l : pt_lib l' l -> K l' = K l.
Proof. intro P. apply pt_lib_touchlib in P. rewrite <- (K_touchlib l'), <- (K_touchlib l), P. reflexivity. Qed.

Lemma pt_refl_list rc (r : list obj) : Forall2 (pt_obj rc) r r.
Proof. induction r; constructor; [left; reflexivity|assumption]. Qed.

Lemma save_arr_shape bad rc arr : forall sv rest x, save_arr bad rc arr = (sv, rest, x) ->
  Forall2 (pt_obj rc) (sv ++ rest) arr /\
  (x = None -> sv = map (touch rc) arr /\ rest = []) /\
  (forall e, x = Some e -> arr <> []) /\
  map oview (sv ++ rest) = map oview arr.
Proof.
  induction arr as [|o r IH]; simpl; intros sv rest x E.
  - inversion E; subst. split; [constructor|]. split; [intros _; split; reflexivity|].
    split; [intros e X; discriminate|reflexivity].
  - destruct (bad (ouid o)) as [e|].
    + inversion E; subst. simpl. split; [apply pt_refl_list|].
      split; [intro X; discriminate|]. split; [intros e0 _; discriminate|reflexivity].
    + destruct (save_arr bad rc r) as [[sv1 rest1] x1] eqn:E1.
      inversion E; subst. destruct (IH _ _ _ eq_refl) as (F & A & B & V).
      simpl. split; [constructor; [right; reflexivity|exact F]|].
      split; [intro X; destruct (A X) as [A1 A2]; rewrite A1, A2; split; reflexivity|].
      split; [intros e0 _; discriminate|].
      rewrite V. f_equal. unfold touch, oview. destruct rc; reflexivity.
Qed.

(* ------------------------------------------------------------------ one library *)

(* the tree after a round of the loop in which no object fails *)
Definition step0 (loc : nat) (l : lib) (root : list rchild) : list rchild :=
  match find_tag (ltag l) root, larr l with
  | None, [] => root
  | Some _, [] => remove_first (ltag l) root
  | None, _ :: _ => insert_at loc (set_kids (K l) (new_el (ltag l))) root
  | Some _, _ :: _ => update_first (ltag l) (set_kids (K l)) root
  end.

(* the tree after a round in which an object fails: the children are whatever they were,
   some refreshed in place *)
Definition stepF (loc : nat) (l : lib) (g : list (N * N) -> list (N * N)) (root : list rchild) :=
  match find_tag (ltag l) root with
  | None => insert_at loc (set_kids (g []) (new_el (ltag l))) root
  | Some _ => update_first (ltag l) (fun c => set_kids (g (rkids c)) c) root
  end.

Lemma lib_step_shape bad loc l root root' l' x : lib_step bad loc l root = (root', l', x) ->
  pt_lib l' l /\ map oview (larr l') = map oview (larr l) /\
  (x = None -> root' = step0 loc l root /\ l' = touchlib l) /\
  (forall e, x = Some e -> larr l <> [] /\ exists g, root' = stepF loc l g root).
Proof.
  unfold lib_step, step0, stepF. intro E.
  destruct (larr l) as [|o r] eqn:EA.
  - destruct (find_tag (ltag l) root); inversion E; subst;
      (split; [apply pt_lib_refl|]); (split; [rewrite EA; reflexivity|]); (split; [|intros e X; discriminate]);
      intros _; (split; [reflexivity|]); unfold touchlib;
      repeat match goal with x : lib |- _ => destruct x end; simpl in *; subst; reflexivity.
  - rewrite <- EA in E.
    destruct (save_arr bad (lrec l) (larr l)) as [[sv rest] y] eqn:ES.
    destruct (save_arr_shape _ _ _ _ _ _ ES) as (F & A & B & V).
    assert (P : pt_lib (Lib (ltag l) (lrec l) (sv ++ rest)) l) by (repeat split; exact F).
    destruct y as [e|].
    + destruct (find_tag (ltag l) root) eqn:EF; inversion E; subst; simpl;
        (split; [exact P|]); (split; [try rewrite EA in V; exact V|]); (split; [intro X; discriminate|]);
        intros e0 _; (split; [try rewrite EA; discriminate|]).
      * exists (fun ks => if lrec l then ks else refresh_kids sv ks). reflexivity.
      * exists (fun ks => if lrec l then ks else refresh_kids sv ks).
        rewrite update_first_insert_absent; [|exact EF|reflexivity].
        simpl. destruct (lrec l); reflexivity.
    + destruct (A eq_refl) as [A1 A2]. subst rest.
      assert (KK : nodes_of sv = K l) by (unfold K; rewrite A1; reflexivity).
      destruct (find_tag (ltag l) root) eqn:EF; inversion E; subst root' l' x; simpl;
        (split; [exact P|]); (split; [try rewrite EA in V; exact V|]); (split; [|intros e X; discriminate]);
        intros _; rewrite KK.
      * split; [reflexivity|]. unfold touchlib. rewrite app_nil_r, A1. reflexivity.
      * split.
        -- rewrite update_first_insert_absent; [reflexivity|exact EF|reflexivity].
        -- unfold touchlib. rewrite app_nil_r, A1. reflexivity.
Qed.

(* step0 depends on the library through its tag, emptiness and K only *)
Lemma step0_pt loc l' l root : pt_lib l' l -> step0 loc l' root = step0 loc l root.
Proof.
  intro P. unfold step0. rewrite (pt_lib_K _ _ P).
  destruct P as (T & R & F). rewrite T.
  inversion F; reflexivity.
Qed.

Lemma absorb loc l root : lib_synced root l -> step0 loc l root = root.
Proof.
  unfold lib_synced, step0. destruct (larr l) as [|o r] eqn:EA.
  - intro A. rewrite A. reflexivity.
  - intros (c & F & KK). rewrite F. eapply update_first_id; [exact F|].
    unfold set_kids. fold (K l) in KK. unfold K. rewrite EA. rewrite <- KK. destruct c; reflexivity.
Qed.

Lemma synced_after loc l root : count_tag (ltag l) root <= 1 -> lib_synced (step0 loc l root) l.
Proof.
  intro C. unfold lib_synced, step0. destruct (larr l) as [|o r] eqn:EA.
  - destruct (find_tag (ltag l) root) eqn:F; [apply find_tag_remove_same; exact C|exact F].
  - destruct (find_tag (ltag l) root) as [c|] eqn:F.
    + exists (set_kids (K l) c). split.
      * rewrite find_tag_update_same by apply keeps_set_kids. rewrite F. reflexivity.
      * unfold K. rewrite EA. reflexivity.
    + exists (set_kids (K l) (new_el (ltag l))). split.
      * apply find_tag_insert_absent; [exact F|reflexivity].
      * unfold K. rewrite EA. reflexivity.
Qed.

(* a round for another tag leaves [find_tag t] alone *)
Lemma find_step0_other loc l root t : t <> ltag l -> find_tag t (step0 loc l root) = find_tag t root.
Proof.
  intro N. unfold step0.
  destruct (find_tag (ltag l) root), (larr l); try reflexivity.
  - apply find_tag_remove_other; exact N.
  - apply find_tag_update_other; [apply keeps_set_kids|exact N].
  - apply find_tag_insert_other. simpl. congruence.
Qed.

Lemma find_stepF_other loc l g root t : t <> ltag l -> find_tag t (stepF loc l g root) = find_tag t root.
Proof.
  intro N. unfold stepF. destruct (find_tag (ltag l) root).
  - apply find_tag_update_other; [intro c; reflexivity|exact N].
  - apply find_tag_insert_other. simpl. congruence.
Qed.

Lemma synced_find root root' l : find_tag (ltag l) root' = find_tag (ltag l) root ->
  lib_synced root l -> lib_synced root' l.
Proof. unfold lib_synced. intro E. rewrite E. exact (fun x => x). Qed.

Lemma count_step0_le loc l root t : (t = ltag l -> count_tag t root <= 1) ->
  count_tag t root <= 1 -> count_tag t (step0 loc l root) <= 1.
Proof.
  intros CL C. unfold step0.
  destruct (find_tag (ltag l) root) eqn:F, (larr l); try exact C.
  - eapply Nat.le_trans; [apply count_remove_le|exact C].
  - rewrite count_update by apply keeps_set_kids. exact C.
  - rewrite count_insert. simpl. unfold has_tag at 1. simpl.
    destruct (N.eqb (ltag l) t) eqn:E; [|exact C].
    apply N.eqb_eq in E. subst t. apply count_zero_find in F. rewrite F. apply le_n.
Qed.

Lemma count_stepF_le loc l g root t : count_tag t root <= 1 -> count_tag t (stepF loc l g root) <= 1.
Proof.
  intro C. unfold stepF. destruct (find_tag (ltag l) root) eqn:F.
  - rewrite count_update by (intro c; reflexivity). exact C.
  - rewrite count_insert. simpl. unfold has_tag at 1. simpl.
    destruct (N.eqb (ltag l) t) eqn:E; [|exact C].
    apply N.eqb_eq in E. subst t. apply count_zero_find in F. rewrite F. apply le_n.
Qed.

(* redoing the round after a failed one gives what the round gives *)
Lemma step0_stepF loc l g root : larr l <> [] -> step0 loc l (stepF loc l g root) = step0 loc l root.
Proof.
  intro NE. unfold step0, stepF. destruct (larr l) as [|o r]; [congruence|].
  destruct (find_tag (ltag l) root) as [c|] eqn:F.
  - rewrite find_tag_update_same by (intro d; reflexivity). rewrite F. simpl.
    rewrite update_first_twice by (intro d; reflexivity). apply update_first_ext. intro d. reflexivity.
  - rewrite find_tag_insert_absent; [|exact F|reflexivity].
    rewrite update_first_insert_absent; [reflexivity|exact F|reflexivity].
Qed.

(* ------------------------------------------------------------------ the library loop *)

Definition tloop (loc : nat) (libs : list lib) (root : list rchild) : list rchild :=
  fold_left (fun r l => step0 loc l r) libs root.

Definition uniq_tags (libs : list lib) (root : list rchild) : Prop :=
  forall l, In l libs -> count_tag (ltag l) root <= 1.

Lemma libs_loop_shape bad loc libs : forall root root' libs' x,
  libs_loop bad loc libs root = (root', libs', x) ->
  Forall2 pt_lib libs' libs /\
  map lview libs' = map lview libs /\
  (x = None -> root' = tloop loc libs root /\ libs' = map touchlib libs) /\
  (forall e, x = Some e -> exists pre lj post g,
      libs = pre ++ lj :: post /\ larr lj <> [] /\ root' = stepF loc lj g (tloop loc pre root)).
Proof.
  induction libs as [|l rest IH]; simpl; intros root root' libs' x E.
  - inversion E; subst. split; [constructor|]. split; [reflexivity|].
    split; [intros _; split; reflexivity|intros e X; discriminate].
  - destruct (lib_step bad loc l root) as [[root1 l1] y] eqn:E1.
    destruct (lib_step_shape _ _ _ _ _ _ _ E1) as (P & V & A & B).
    assert (LV : lview l1 = lview l).
    { unfold lview. destruct P as (T & R & _). rewrite T, R, V. reflexivity. }
    destruct y as [e|].
    + inversion E; subst. split.
      { constructor; [exact P|]. clear. induction rest; constructor; [apply pt_lib_refl|assumption]. }
      split; [simpl; rewrite LV; reflexivity|].
      split; [intro X; discriminate|].
      intros e0 X. destruct (B e eq_refl) as (NE & g & G).
      exists [], l, rest, g. simpl. split; [reflexivity|]. split; assumption.
    + destruct (libs_loop bad loc rest root1) as [[root2 rest'] z] eqn:E2.
      inversion E; subst. destruct (IH _ _ _ _ E2) as (F2 & V2 & A2 & B2).
      destruct (A eq_refl) as [A1 A1']. subst root1.
      split; [constructor; assumption|].
      split; [simpl; rewrite LV, V2; reflexivity|].
      split.
      * intro H. destruct (A2 H) as [X1 X2]. subst root'. split; [reflexivity|].
        simpl. rewrite A1', X2. reflexivity.
      * intros e X. destruct (B2 e X) as (pre & lj & post & g & L & NE & G).
        exists (l :: pre), lj, post, g. simpl. rewrite L. split; [reflexivity|]. split; assumption.
Qed.

Lemma tloop_pt loc libs' libs root : Forall2 pt_lib libs' libs -> tloop loc libs' root = tloop loc libs root.
Proof.
  intro F. revert root. induction F as [|l' l a' a P F IH]; intro root; [reflexivity|].
  simpl. rewrite (step0_pt _ _ _ _ P). apply IH.
Qed.

Lemma absorb_all loc libs root : Forall (lib_synced root) libs -> tloop loc libs root = root.
Proof.
  induction libs as [|l rest IH]; intro F; [reflexivity|].
  inversion F; subst. simpl. rewrite absorb by assumption. apply IH. assumption.
Qed.

Lemma synced_tloop_other loc libs l : ~ In (ltag l) (map ltag libs) -> forall root,
  lib_synced root l -> lib_synced (tloop loc libs root) l.
Proof.
  induction libs as [|m rest IH]; intros NI root S; [exact S|].
  simpl. apply IH.
  - intro X. apply NI. right. exact X.
  - eapply synced_find; [|exact S]. apply find_step0_other. intro X. apply NI. left. symmetry. exact X.
Qed.

Lemma uniq_step0 loc l libs root : uniq_tags (l :: libs) root -> uniq_tags libs (step0 loc l root).
Proof.
  intros U m I. apply count_step0_le.
  - intros _. apply U. right. exact I.
  - apply U. right. exact I.
Qed.

Lemma tloop_synced loc libs : NoDup (map ltag libs) -> forall root, uniq_tags libs root ->
  Forall (lib_synced (tloop loc libs root)) libs.
Proof.
  induction libs as [|l rest IH]; intros ND root U; [constructor|].
  inversion ND as [|? ? NI ND']; subst. simpl. constructor.
  - apply synced_tloop_other; [exact NI|]. apply synced_after. apply U. left. reflexivity.
  - apply IH; [exact ND'|]. eapply uniq_step0. exact U.
Qed.

Lemma uniq_tloop loc libs all root : uniq_tags all root -> incl libs all -> NoDup (map ltag libs) ->
  uniq_tags all (tloop loc libs root).
Proof.
  revert root. induction libs as [|l rest IH]; intros root U I ND; [exact U|].
  simpl. inversion ND; subst. apply IH; [|intros x X; apply I; right; exact X|assumption].
  intros m M. apply count_step0_le; intros; apply U; assumption.
Qed.

Lemma NoDup_app_l {A} (a b : list A) : NoDup (a ++ b) -> NoDup a.
Proof.
  induction a as [|x r IH]; simpl; intro H; [constructor|].
  inversion H; subst. constructor; [|apply IH; assumption].
  intro I. apply H2. apply in_or_app. left. exact I.
Qed.

(* confluence of the loop: a failed attempt (rounds for pre, a failing round for lj) is
   forgotten by a complete run *)
Lemma tloop_confluent loc pre lj post g root :
  NoDup (map ltag (pre ++ lj :: post)) -> uniq_tags (pre ++ lj :: post) root -> larr lj <> [] ->
  tloop loc (pre ++ lj :: post) (stepF loc lj g (tloop loc pre root)) = tloop loc (pre ++ lj :: post) root.
Proof.
  intros ND U NE. unfold tloop at 1 3. rewrite !fold_left_app. fold (tloop loc pre root).
  set (X := stepF loc lj g (tloop loc pre root)).
  assert (NDpre : NoDup (map ltag pre)).
  { rewrite map_app in ND. apply NoDup_app_l in ND. exact ND. }
  assert (NIj : ~ In (ltag lj) (map ltag pre)).
  { rewrite map_app in ND. simpl in ND. apply NoDup_remove_2 in ND. intro I. apply ND. apply in_or_app. left. exact I. }
  assert (S : Forall (lib_synced X) pre).
  { assert (S0 := tloop_synced loc pre NDpre root (fun l I => U l (in_or_app _ _ _ (or_introl I)))).
    rewrite Forall_forall in *. intros l I. eapply synced_find; [|apply S0; exact I].
    unfold X. apply find_stepF_other. intro E. apply NIj. rewrite <- E. apply in_map. exact I. }
  fold (tloop loc pre X). rewrite (absorb_all loc pre X S).
  simpl. unfold X. rewrite step0_stepF by exact NE. reflexivity.
Qed.

Lemma tloop_idem_gen loc libs root X : NoDup (map ltag libs) -> uniq_tags libs root ->
  (forall l, In l libs -> find_tag (ltag l) X = find_tag (ltag l) (tloop loc libs root)) ->
  tloop loc libs X = X.
Proof.
  intros ND U FX. apply absorb_all. assert (S := tloop_synced loc libs ND root U).
  rewrite Forall_forall in *. intros l I. eapply synced_find; [apply FX; exact I|apply S; exact I].
Qed.
