(* The generated tangent code (Gen/Tangents.v, regenerated from triangleset.py on every run) is the
   hand-written model of Model/Normals.v; the tangent theorems are then stated on the generated
   definitions. *)
From Coq Require Import List Ring.
From PC Require Import Model.Normals Gen.NormalsAcc Gen.Tangents Proofs.Normals.
Import ListNotations.

Section TangentFacts.
  Variable o : ops.
  Hypothesis Rth : ring_theory (rO o) (rI o) (radd o) (rmul o) (rsub o) (ropp o) eq.
  Variable rinv : car o -> car o.

  Lemma code_sdir_is_sdir p0 p1 p2 w0 w1 w2 :
    code_sdir o rinv p0 p1 p2 w0 w1 w2 = sdir o rinv p0 p1 p2 w0 w1 w2.
  Proof. destruct p0 as [[? ?] ?], p1 as [[? ?] ?], p2 as [[? ?] ?], w0, w1, w2. reflexivity. Qed.

  Lemma code_tdir_is_tdir p0 p1 p2 w0 w1 w2 :
    code_tdir o rinv p0 p1 p2 w0 w1 w2 = tdir o rinv p0 p1 p2 w0 w1 w2.
  Proof. destruct p0 as [[? ?] ?], p1 as [[? ?] ?], p2 as [[? ?] ?], w0, w1, w2. reflexivity. Qed.

  (* the corner's normal comes through the NORMAL index row, the accumulated tangent through the
     VERTEX index row *)
  Lemma code_corner_tangent_is_project normals tans1 t n c :
    code_corner_tangent o normals tans1 t n c =
    project o (vnth o normals (corner n c)) (vnth o tans1 (corner t c)).
  Proof. reflexivity. Qed.

  Lemma rows2_ext (f g : tri -> tri -> vec o) :
    (forall t u, f t u = g t u) -> forall l1 l2, rows2 o f l1 l2 = rows2 o g l1 l2.
  Proof.
    intro H. induction l1 as [|t l1 IH]; intros [|u l2]; simpl; auto. rewrite H, IH. reflexivity.
  Qed.

  Lemma code_gen_tangents_raw_is_model verts uvs normals tris uvtris ntris :
    code_gen_tangents_raw o rinv verts uvs normals tris uvtris ntris =
    gen_tangents_raw o (code_accumulate o) rinv verts uvs normals tris uvtris ntris.
  Proof.
    unfold code_gen_tangents_raw, gen_tangents_raw, tan_sums.
    rewrite (rows2_ext (code_sdir_of o rinv verts uvs) (sdir_of o rinv verts uvs)).
    - reflexivity.
    - intros t u. unfold code_sdir_of, sdir_of. apply code_sdir_is_sdir.
  Qed.

  Lemma code_sdir_lengyel p0 p1 p2 (w0 w1 w2 : uv o) :
    let d := uv_det o w0 w1 w2 in
    rmul o (rinv d) d = rI o ->
    vscale o d (code_sdir o rinv p0 p1 p2 w0 w1 w2) =
    vsub o (vscale o (rsub o (snd w2) (snd w0)) (vsub o p1 p0))
           (vscale o (rsub o (snd w1) (snd w0)) (vsub o p2 p0)).
  Proof. intros d H. rewrite code_sdir_is_sdir. apply (sdir_lengyel o Rth). exact H. Qed.

  Lemma code_corner_tangent_orthogonal (k : car o) normals tans1 t n c :
    let N := vnth o normals (corner n c) in
    dot o N N = rI o -> dot o N (vscale o k (code_corner_tangent o normals tans1 t n c)) = rO o.
  Proof. intros N H. rewrite code_corner_tangent_is_project. apply (project_scaled_orthogonal o Rth). exact H. Qed.
  (* ---------------------------------------------------------------- binormal *)
  Add Ring TRing : Rth.
  Definition scale_r (b : vec o) (w : car o) : vec o :=
    (rmul o (vx o b) w, rmul o (vy o b) w, rmul o (vz o b) w).

  (* w * (n x t) is orthogonal to n and to t - for any vectors and any factor *)
  Lemma binormal_orthogonal (n t : vec o) (w : car o) :
    dot o n (scale_r (cross o n t) w) = rO o /\ dot o t (scale_r (cross o n t) w) = rO o.
  Proof.
    destruct n as [[n1 n2] n3], t as [[t1 t2] t3].
    unfold scale_r, dot, cross, vx, vy, vz; simpl. split; ring.
  Qed.

  (* Lagrange: |n x t|^2 = |n|^2 |t|^2 - (n.t)^2 *)
  Lemma lagrange (n t : vec o) :
    dot o (cross o n t) (cross o n t) = rsub o (rmul o (dot o n n) (dot o t t)) (rmul o (dot o n t) (dot o n t)).
  Proof.
    destruct n as [[n1 n2] n3], t as [[t1 t2] t3]. unfold dot, cross, vx, vy, vz; simpl. ring.
  Qed.

  (* ... and a unit vector when n and t are orthogonal unit vectors and the handedness is +-1 *)
  Lemma binormal_unit (n t : vec o) (w : car o) :
    dot o n n = rI o -> dot o t t = rI o -> dot o n t = rO o -> rmul o w w = rI o ->
    dot o (scale_r (cross o n t) w) (scale_r (cross o n t) w) = rI o.
  Proof.
    intros Hn Ht Hnt Hw.
    assert (E : dot o (scale_r (cross o n t) w) (scale_r (cross o n t) w) =
                rmul o (rmul o w w) (dot o (cross o n t) (cross o n t))).
    { generalize (cross o n t) as b. intros [[b1 b2] b3]. unfold scale_r, dot, vx, vy, vz; simpl. ring. }
    rewrite E, lagrange, Hn, Ht, Hnt, Hw. ring.
  Qed.

  Variable nrm : vec o -> vec o.
  Variable sgn : car o -> car o.

  (* the generated binormal of a corner is handedness * (normal x normalised tangent), the normal
     being the one selected by the corner's NORMAL index *)
  Lemma code_corner_binormal_is normals tans1 tans2 t n c :
    code_corner_binormal o nrm sgn normals tans1 tans2 t n c =
    scale_r (cross o (vnth o normals (corner n c)) (nrm (code_corner_tangent o normals tans1 t n c)))
            (code_corner_handedness o sgn normals tans1 tans2 t n c).
  Proof. reflexivity. Qed.
End TangentFacts.
