(* C05: the primitive loaders refine the declarative reading [read_primitive] (Model/LoadDoc.v):
   whenever X.load succeeds, the file read directly (per-semantic input lists, direct indexing of
   the <p> elements as written) is defined and gives the same primitive. *)
From Coq Require Import List Bool ZArith NArith Lia.
From PC Require Import Base.Atoms Base.Xml Base.Outcome Base.Py Model.LoadPrim Model.Namespace Model.LoadDoc
                       Proofs.LoadPrim Proofs.LoadPrimViews.
Import ListNotations.
Local Open Scope nat_scope.

(* ------------------------------------------------------------------ inputs *)

Lemma resolve_spec_forget : forall sc i r, resolve sc i = Ok r -> resolve_spec sc (forget r) = Some r /\ is_known (r_sem r) = true.
Proof.
  intros sc [o s v st] r H. unfold resolve in H. simpl in H.
  destruct v as [a|h a|z]; simpl in H; try discriminate. destruct h; simpl in H; try discriminate.
  destruct (dget N.eqb sc a) as [[u|d]|] eqn:D; try discriminate.
  destruct (is_known s) eqn:K; try discriminate. injection H as <-.
  unfold resolve_spec, forget. simpl. rewrite D. auto.
Qed.

Lemma omapM_In {A B} (f : A -> outcome B) : forall l r, omapM f l = Ok r -> forall y, In y r -> exists x, In x l /\ f x = Ok y.
Proof.
  induction l as [|x l IH]; intros r H y Hy; simpl in H.
  - injection H as <-. contradiction.
  - destruct (f x) as [z|] eqn:E; [|discriminate]. destruct (omapM f l) as [zs|]; [|discriminate].
    injection H as <-. destruct Hy as [<-|Hy]; [exists x; split; [now left|exact E]|].
    destruct (IH _ eq_refl _ Hy) as (x' & I & F). exists x'. split; [now right|exact F].
Qed.

Lemma get_inputs_elems : forall sc ins l, get_inputs sc ins = Ok l ->
  forall r, In r l -> resolve_spec sc (forget r) = Some r /\ is_known (r_sem r) = true.
Proof.
  intros sc ins l H r Hr. unfold get_inputs in H. destruct (expand_inputs sc ins) as [e|]; [|discriminate].
  simpl in H. destruct (omapM_In _ _ _ H _ Hr) as (i & _ & R). now apply resolve_spec_forget in R.
Qed.

Lemma all_some_map_Some {A} : forall (l : list A), all_some (map Some l) = Some l.
Proof. induction l as [|x l IH]; simpl; [reflexivity|]. now rewrite IH. Qed.

Lemma all_some_map_ext {A B} (g : A -> option B) (h : A -> B) : forall xs,
  (forall x, In x xs -> g x = Some (h x)) -> all_some (map g xs) = Some (map h xs).
Proof.
  induction xs as [|x xs IH]; intro H; simpl; [reflexivity|].
  rewrite (H x) by now left. rewrite IH; [reflexivity|]. intros y Hy. apply H. now right.
Qed.

Lemma spec_rbucket_is_bucket : forall sc ins l sem, get_inputs sc ins = Ok l ->
  spec_rbucket sc ins sem = Some (bucket sem l).
Proof.
  intros sc ins l sem H. unfold spec_rbucket. rewrite <- (get_inputs_buckets _ _ _ sem H).
  rewrite map_map. rewrite <- (all_some_map_Some (bucket sem l)). f_equal.
  apply map_ext_in. intros r Hr. apply (get_inputs_elems _ _ _ H). eapply bucket_In; eauto.
Qed.

Lemma spec_table : forall sc ins l, get_inputs sc ins = Ok l ->
  all_some (map (spec_rbucket sc ins) known_sems) = Some (map (fun s => bucket s l) known_sems).
Proof. intros. apply all_some_map_ext. intros s _. now apply spec_rbucket_is_bucket. Qed.

Definition maxf (l : list rinput) : nat := fold_right Nat.max 0 (map r_off l).

Lemma max_off_maxf : forall l, max_off l = maxf l.
Proof. induction l as [|r l IH]; [reflexivity|]. unfold maxf in *. simpl. now rewrite IH. Qed.

Lemma maxf_incl : forall a b, incl a b -> maxf a <= maxf b.
Proof.
  induction a as [|r a IH]; intros b H; [unfold maxf; simpl; lia|].
  unfold maxf in *. simpl. assert (In r b) by (apply H; now left).
  assert (incl a b) by (intros x Hx; apply H; now right). specialize (IH _ H1).
  pose proof (max_off_ge b r H0). rewrite max_off_maxf in H2. unfold maxf in H2. lia.
Qed.

Lemma in_known : forall s, is_known s = true -> In s known_sems.
Proof.
  intros s H. unfold is_known in H. apply existsb_exists in H. destruct H as (x & I & E).
  apply N.eqb_eq in E. now subst.
Qed.

Lemma table_max : forall sc ins l, get_inputs sc ins = Ok l ->
  fold_right Nat.max 0 (map r_off (concat (map (fun s => bucket s l) known_sems))) = max_off l.
Proof.
  intros sc ins l H. rewrite max_off_maxf. fold (maxf (concat (map (fun s => bucket s l) known_sems))).
  apply Nat.le_antisymm; apply maxf_incl.
  - intros r Hr. apply in_concat in Hr. destruct Hr as (b & Hb & Hr). apply in_map_iff in Hb.
    destruct Hb as (s & <- & _). eapply bucket_In; eauto.
  - intros r Hr. apply in_concat. exists (bucket (r_sem r) l). split.
    + apply in_map_iff. exists (r_sem r). split; [reflexivity|]. apply in_known. now apply (get_inputs_elems _ _ _ H).
    + unfold bucket. apply filter_In. split; [exact Hr|apply N.eqb_refl].
Qed.

Lemma table_nonempty : forall sc ins l, get_inputs sc ins = Ok l -> l <> [] ->
  concat (map (fun s => bucket s l) known_sems) <> [].
Proof.
  intros sc ins l H Hl E. destruct l as [|r l']; [contradiction|].
  assert (In r (concat (map (fun s => bucket s (r :: l')) known_sems))).
  { apply in_concat. exists (bucket (r_sem r) (r :: l')). split.
    - apply in_map_iff. exists (r_sem r). split; [reflexivity|]. apply in_known.
      apply (get_inputs_elems _ _ _ H). now left.
    - unfold bucket. apply filter_In. split; [now left|apply N.eqb_refl]. }
  rewrite E in H0. contradiction.
Qed.

(* ------------------------------------------------------------------ the loaders, decomposed *)

Definition vc_of (k : pkind) (nind : nat) (vcount : option (option (list tok))) (ps : list (option (list tok)))
           (vc : option (list Z)) : Prop :=
  match k with
  | KPolylist => exists t v, vcount = Some t /\ parse_index t = Some v /\ vc = Some v
  | KPolygons => exists pl, parse_all ps = Some pl /\ vc = Some (polygons_vcounts nind pl)
  | _ => vc = None
  end.

Lemma omapM_parse_all : forall ps pl, omapM (fun p => of_option PyValueError (parse_index p)) ps = Ok pl -> parse_all ps = Some pl.
Proof.
  induction ps as [|p ps IH]; intros pl M; simpl in M.
  - injection M as <-. reflexivity.
  - destruct (parse_index p) as [x|] eqn:P; [|discriminate]. simpl in M.
    destruct (omapM _ ps) as [rest|] eqn:MR; [|discriminate]. injection M as <-.
    simpl. now rewrite P, (IH _ eq_refl).
Qed.

Lemma load_primitive_parts : forall sc k inputs vcount ps pv,
  load_primitive sc k inputs vcount ps = Ok pv ->
  (k <> KPolygons -> ps <> []) /\
  exists l flat vc,
    get_inputs sc inputs = Ok l /\ l <> [] /\
    load_flat k (S (max_off l)) ps = Ok flat /\
    vc_of k (S (max_off l)) vcount ps vc /\
    construct k l flat vc = Ok pv.
Proof.
  intros sc k inputs vcount ps pv H.
  assert (NE : k <> KPolygons -> ps <> []).
  { intros Hk ->. destruct k; try discriminate. contradiction. }
  split; [exact NE|].
  assert (H' : obind (match k with KPolylist => load_vcounts k 1 vcount ps | _ => Ok None end) (fun vc0 =>
               obind (get_inputs sc inputs) (fun ins =>
               match ins with
               | [] => Raise PyValueError
               | _ => obind (load_flat k (S (max_off ins)) ps) (fun flat =>
                      obind (match k with KPolygons => load_vcounts k (S (max_off ins)) vcount ps | _ => Ok vc0 end)
                            (fun vc => construct k ins flat vc))
               end)) = Ok pv).
  { unfold load_primitive in H. destruct k; destruct ps; try discriminate; exact H. }
  clear H.
  destruct (match k with KPolylist => load_vcounts k 1 vcount ps | _ => Ok None end) as [vc0|] eqn:V; [|discriminate].
  simpl in H'. destruct (get_inputs sc inputs) as [l|] eqn:G; [|discriminate]. simpl in H'.
  destruct l as [|i0 l'] eqn:EL; [discriminate|]. rewrite <- EL in *.
  assert (H'' : obind (load_flat k (S (max_off l)) ps) (fun flat =>
                obind (match k with KPolygons => load_vcounts k (S (max_off l)) vcount ps | _ => Ok vc0 end)
                      (fun vc => construct k l flat vc)) = Ok pv) by (rewrite EL in *; exact H').
  clear H'. destruct (load_flat k (S (max_off l)) ps) as [flat|] eqn:LF; [|discriminate]. simpl in H''.
  destruct (match k with KPolygons => load_vcounts k (S (max_off l)) vcount ps | _ => Ok vc0 end) as [vc|] eqn:V2; [|discriminate].
  simpl in H''. exists l, flat, vc. repeat split; try assumption; try (rewrite EL; discriminate).
  unfold vc_of. destruct k; try (injection V2 as <-; injection V as <-; reflexivity).
  - injection V2 as <-. unfold load_vcounts in V. destruct vcount as [t|]; [|discriminate].
    destruct (parse_index t) as [v|] eqn:PT; [|discriminate]. injection V as <-. exists t, v. auto.
  - unfold load_vcounts in V2. destruct (omapM _ ps) as [pl|] eqn:M; [|discriminate]. injection V2 as <-.
    exists pl. split; [now apply omapM_parse_all|reflexivity].
Qed.

(* ------------------------------------------------------------------ polygons: whole rows per <p> *)

Fixpoint sumdiv (n : nat) (pl : list (list Z)) : nat := match pl with [] => 0 | p :: r => length p / n + sumdiv n r end.
Fixpoint summod (n : nat) (pl : list (list Z)) : nat := match pl with [] => 0 | p :: r => length p mod n + summod n r end.

Lemma concat_div_mod : forall n pl, n <> 0 -> length (concat pl) = n * sumdiv n pl + summod n pl.
Proof.
  intros n pl Hn. induction pl as [|p pl IH]; [simpl; lia|].
  simpl. rewrite app_length, IH. pose proof (Nat.div_mod (length p) n Hn). lia.
Qed.

Lemma sumZ_polygons_vcounts : forall n pl, sumZ (polygons_vcounts n pl) = Z.of_nat (sumdiv n pl).
Proof.
  intros n pl. induction pl as [|p pl IH]; [reflexivity|].
  unfold polygons_vcounts in *. simpl map. rewrite sumZ_cons, IH. simpl sumdiv. lia.
Qed.

Lemma summod_zero : forall n pl, summod n pl = 0 -> Forall (fun p => length p mod n = 0) pl.
Proof.
  intros n pl. induction pl as [|p pl IH]; intro H; [constructor|].
  simpl in H. constructor; [lia|apply IH; lia].
Qed.

Lemma polygons_whole_rows : forall n pl, n <> 0 ->
  length (concat pl) = (length (concat pl) / n) * n ->
  sumZ (polygons_vcounts n pl) = Z.of_nat (length (concat pl) / n) ->
  Forall (fun p => length p mod n = 0) pl.
Proof.
  intros n pl Hn HL HS. apply summod_zero.
  rewrite sumZ_polygons_vcounts in HS. apply Nat2Z.inj in HS.
  pose proof (concat_div_mod n pl Hn). rewrite <- HS in HL. nia.
Qed.

(* ------------------------------------------------------------------ polylist ranges as lists *)

Lemma poly_ends_list : forall v, poly_ends v = map (spec_end v) (seq 0 (length v)).
Proof.
  intro v. apply (nth_ext _ _ 0%Z 0%Z).
  - unfold poly_ends, cumsum. now rewrite cumsum_from_length, map_length, seq_length.
  - intros i Hi. unfold poly_ends, cumsum in Hi. rewrite cumsum_from_length in Hi.
    rewrite poly_ends_spec by exact Hi. now rewrite nth_map_seq.
Qed.

Lemma poly_starts_list : forall v, poly_starts v = map (spec_start v) (seq 0 (length v)).
Proof.
  intro v.
  assert (L : length (poly_starts v) = length v).
  { unfold poly_starts. rewrite map_length, combine_length. unfold poly_ends, cumsum. rewrite cumsum_from_length. lia. }
  apply (nth_ext _ _ 0%Z 0%Z).
  - now rewrite L, map_length, seq_length.
  - intros i Hi. rewrite L in Hi. rewrite poly_starts_spec by exact Hi. now rewrite nth_map_seq.
Qed.

(* ------------------------------------------------------------------ the refinement *)

Definition erase_checks (p : pview) : pview :=
  mkPV (pv_nind p) (pv_table p) (pv_count p) (pv_vertex p) (pv_normal p) (pv_tex p) (pv_textan p) (pv_texbin p) (pv_poly p) [].

Lemma parse_all_all_some : forall ps, parse_all ps = all_some (map parse_index ps).
Proof.
  induction ps as [|p ps IH]; [reflexivity|]. simpl. rewrite IH.
  destruct (parse_index p); [|reflexivity]. destruct (all_some (map parse_index ps)); reflexivity.
Qed.

Lemma construct_vertex_gate : forall k l flat vc pv, construct k l flat vc = Ok pv ->
  bucket a_VERTEX l = [] -> Nat.eqb (length flat / S (max_off l)) 0 = true.
Proof.
  intros k l flat vc pv H BV. rewrite construct_unfold in H. destruct l as [|i0 l'] eqn:EI; [simpl in H; discriminate|].
  change (construct_body k (i0 :: l') flat vc = Ok pv) in H. rewrite <- EI in *. clear EI i0 l'.
  unfold construct_body in H. cbv zeta in H. set (nind := S (max_off l)) in *.
  destruct (reshape nind flat) as [rows|] eqn:R; [|discriminate].
  destruct (reshape_some _ _ _ R) as (_ & _ & Hrows).
  assert (LR : length rows = length flat / nind) by (subst rows; apply chunk_length).
  destruct (negb (Nat.eqb (length rows mod corners_per k) 0)); [discriminate|].
  destruct (match vc with Some v => negb (Z.eqb (sumZ v) (Z.of_nat (length rows))) | None => false end); [discriminate|].
  rewrite BV in H. rewrite <- LR.
  destruct (Nat.eqb (length rows) 0); [reflexivity|]. simpl in H. destruct k; discriminate.
Qed.

Lemma read_primitive_eval : forall sc k inputs vcount ps l flat vc pv pl,
  get_inputs sc inputs = Ok l -> l <> [] ->
  all_some (map parse_index (if single_p k then firstn 1 ps else ps)) = Some pl ->
  (forall o, o < S (max_off l) ->
     spec_index (S (max_off l)) o pl (spec_corners k (S (max_off l)) pl) = spec_view (S (max_off l)) o flat) ->
  forallb (fun p => Nat.eqb (length p mod S (max_off l)) 0) pl = true ->
  match k with
  | KPolylist => match vcount with Some t => option_map Some (parse_index t) | None => None end
  | KPolygons => Some (Some (polygons_vcounts (S (max_off l)) pl))
  | _ => Some None
  end = Some vc ->
  (k <> KPolygons -> ps <> []) ->
  construct k l flat vc = Ok pv ->
  read_primitive sc k inputs vcount ps = Some (erase_checks pv).
Proof.
  intros sc k inputs vcount ps l flat vc pv pl G Hl PA VW OKP VCR NE C.
  destruct (construct_views _ _ _ _ _ C) as (Fn & Fc & Ft & Fv & Fnm & Ftx & Ftt & Ftb & Fp & Fs).
  pose proof (construct_vertex_gate _ _ _ _ _ C) as Gate.
  cbv zeta in Fv, Fnm, Ftx, Ftt, Ftb, Fs.
  set (nind := S (max_off l)) in *.
  set (cs := spec_corners k nind pl) in *.
  assert (RW : length cs = length flat / nind).
  { pose proof (VW 0 ltac:(unfold nind; lia)) as E. apply (f_equal (@length Z)) in E.
    unfold spec_index, spec_view in E. now rewrite !map_length, seq_length in E. }
  assert (KK : corners_per k <> 0) by (destruct k; simpl; lia).
  assert (RC : length flat / nind = pv_count pv * corners_per k).
  { rewrite Fc. apply Nat.div_mul. unfold nind. lia. }
  unfold read_primitive. rewrite PA, (spec_table _ _ _ G). cbv zeta.
  rewrite (table_max _ _ _ G). fold nind. fold cs.
  destruct (concat (map (fun s => bucket s l) known_sems)) as [|c0 crest] eqn:CT;
    [exfalso; now apply (table_nonempty _ _ _ G Hl)|].
  rewrite VCR. rewrite OKP. rewrite RW, RC. rewrite Nat.mod_mul by exact KK. simpl negb. simpl orb.
  assert (SV : match vc with Some vcl => negb (Z.eqb (sumZ vcl) (Z.of_nat (pv_count pv * corners_per k))) | None => false end = false).
  { destruct vc as [v|]; [|reflexivity]. rewrite <- RC. rewrite (Fs v eq_refl). now rewrite Z.eqb_refl. }
  rewrite SV. simpl orb.
  assert (PS : match ps, k with [], KPolygons => false | [], _ => true | _, _ => false end = false).
  { destruct ps; [|reflexivity]. destruct k; try reflexivity; exfalso; now apply NE. }
  rewrite PS. rewrite Nat.div_mul by exact KK. rewrite <- RC.
  assert (VIEW : forall r, In r l -> (r_uid r, spec_index nind (r_off r) pl cs) = direct nind flat r).
  { intros r Hr. unfold direct. f_equal. apply VW. pose proof (max_off_ge _ _ Hr). unfold nind. lia. }
  assert (MV : forall sem, map (fun r => (r_uid r, spec_index nind (r_off r) pl cs)) (bucket sem l) = map (direct nind flat) (bucket sem l)).
  { intro sem. apply map_ext_in. intros r Hr. apply VIEW. eapply bucket_In; eauto. }
  assert (HV : forall sem, option_map (fun r => (r_uid r, spec_index nind (r_off r) pl cs)) (hd_error (bucket sem l))
                           = option_map (direct nind flat) (hd_error (bucket sem l))).
  { intro sem. destruct (bucket sem l) as [|r b] eqn:B; [reflexivity|]. simpl. f_equal. apply VIEW.
    apply (bucket_In sem). rewrite B. now left. }
  change (nth 0 (map (fun s => bucket s l) known_sems) []) with (bucket a_VERTEX l).
  change (nth 1 (map (fun s => bucket s l) known_sems) []) with (bucket a_NORMAL l).
  change (nth 2 (map (fun s => bucket s l) known_sems) []) with (bucket a_TEXCOORD l).
  change (nth 3 (map (fun s => bucket s l) known_sems) []) with (bucket a_TEXBINORMAL l).
  change (nth 4 (map (fun s => bucket s l) known_sems) []) with (bucket a_TEXTANGENT l).
  rewrite !MV, !HV.
  assert (GATE : match bucket a_VERTEX l, negb (Nat.eqb (length flat / nind) 0) with [], true => true | _, _ => false end = false).
  { destruct (bucket a_VERTEX l) eqn:BV; [|reflexivity]. now rewrite (Gate eq_refl). }
  destruct (bucket a_VERTEX l) as [|v0 vs] eqn:BV.
  - rewrite (Gate eq_refl) in *. simpl. f_equal. unfold erase_checks. rewrite Fn, Ft, Fv, Fnm, Ftx, Ftt, Ftb, Fp.
    simpl.
    f_equal; try (destruct k; reflexivity).
    destruct vc as [v|]; [|reflexivity]. simpl. now rewrite poly_starts_list, poly_ends_list.
  - f_equal. unfold erase_checks. rewrite Fn, Ft, Fv, Fnm, Ftx, Ftt, Ftb, Fp.
    f_equal; try (destruct k; reflexivity).
    destruct vc as [v|]; [|reflexivity]. simpl. now rewrite poly_starts_list, poly_ends_list.
Qed.

Lemma forallb_mod : forall n (pl : list (list Z)), Forall (fun p => length p mod n = 0) pl ->
  forallb (fun p => Nat.eqb (length p mod n) 0) pl = true.
Proof.
  intros n pl F. apply forallb_forall. rewrite Forall_forall in F. intros p Hp. apply Nat.eqb_eq. now apply F.
Qed.

Theorem load_primitive_is_read : forall sc k inputs vcount ps pv,
  load_primitive sc k inputs vcount ps = Ok pv ->
  read_primitive sc k inputs vcount ps = Some (erase_checks pv).
Proof.
  intros sc k inputs vcount ps pv H.
  destruct (load_primitive_parts _ _ _ _ _ _ H) as (NE & l & flat & vc & G & Hl & LF & VC & C).
  assert (Hn : S (max_off l) <> 0) by lia.
  (* the constructor's reshape succeeded: the flat index is a whole number of rows *)
  destruct (construct_views _ _ _ _ _ C) as (_ & Fc & _ & _ & _ & _ & _ & _ & _ & Fs). cbv zeta in Fs.
  assert (FM : length flat mod S (max_off l) = 0).
  { rewrite Fc. apply Nat.mod_mul. exact Hn. }
  assert (single : k = KTriangles \/ k = KLines \/ k = KPolylist -> exists p rest, ps = p :: rest /\ parse_index p = Some flat).
  { intro Hk. destruct ps as [|p rest]; [exfalso; apply NE; [destruct Hk as [->|[->| ->]]; discriminate|reflexivity]|].
    exists p, rest. split; [reflexivity|].
    assert (E : load_flat k (S (max_off l)) (p :: rest) = of_option DaeMalformed (parse_index p))
      by (destruct Hk as [->|[->| ->]]; reflexivity).
    rewrite E in LF. destruct (parse_index p); [now injection LF as <-|discriminate]. }
  destruct k.
  - (* triangles *)
    destruct (single (or_introl eq_refl)) as (p & rest & -> & P).
    apply (read_primitive_eval sc KTriangles inputs vcount (p :: rest) l flat vc pv [flat] G Hl); try assumption.
    + simpl. now rewrite P.
    + intros o Ho. now apply spec_index_single; left.
    + apply forallb_mod. constructor; [exact FM|constructor].
    + simpl in VC. now subst.
  - (* tristrips *)
    destruct (load_flat_strips _ _ _ _ (or_introl eq_refl) LF) as (pl & PA & F & ->).
    apply (read_primitive_eval sc KStrips inputs vcount ps l (concat (map (piece KStrips (S (max_off l))) pl)) vc pv pl G Hl); try assumption.
    + simpl. now rewrite <- parse_all_all_some.
    + intros o Ho. rewrite spec_index_strips by now left. symmetry. apply strips_view; [now left|exact Ho|exact F].
    + now apply forallb_mod.
    + simpl in VC. now subst.
  - (* trifans *)
    destruct (load_flat_strips _ _ _ _ (or_intror eq_refl) LF) as (pl & PA & F & ->).
    apply (read_primitive_eval sc KFans inputs vcount ps l (concat (map (piece KFans (S (max_off l))) pl)) vc pv pl G Hl); try assumption.
    + simpl. now rewrite <- parse_all_all_some.
    + intros o Ho. rewrite spec_index_strips by now right. symmetry. apply strips_view; [now right|exact Ho|exact F].
    + now apply forallb_mod.
    + simpl in VC. now subst.
  - (* lines *)
    destruct (single (or_intror (or_introl eq_refl))) as (p & rest & -> & P).
    apply (read_primitive_eval sc KLines inputs vcount (p :: rest) l flat vc pv [flat] G Hl); try assumption.
    + simpl. now rewrite P.
    + intros o Ho. now apply spec_index_single; right; left.
    + apply forallb_mod. constructor; [exact FM|constructor].
    + simpl in VC. now subst.
  - (* polylist *)
    destruct (single (or_intror (or_intror eq_refl))) as (p & rest & -> & P).
    apply (read_primitive_eval sc KPolylist inputs vcount (p :: rest) l flat vc pv [flat] G Hl); try assumption.
    + simpl. now rewrite P.
    + intros o Ho. now apply spec_index_single; right; right.
    + apply forallb_mod. constructor; [exact FM|constructor].
    + simpl in VC. destruct VC as (t & v & -> & PT & ->). now rewrite PT.
  - (* polygons *)
    destruct (load_flat_polygons _ _ _ LF) as (pl & PA & ->).
    simpl in VC. destruct VC as (pl' & PA' & ->). rewrite PA in PA'. injection PA' as <-.
    assert (F : Forall (fun p => length p mod S (max_off l) = 0) pl).
    { apply polygons_whole_rows; [exact Hn| |now apply Fs].
      pose proof (Nat.div_mod (length (concat pl)) (S (max_off l)) Hn). lia. }
    apply (read_primitive_eval sc KPolygons inputs vcount ps l (concat pl) (Some (polygons_vcounts (S (max_off l)) pl)) pv pl G Hl); try assumption.
    + simpl. now rewrite <- parse_all_all_some.
    + intros o Ho. now apply spec_index_polygons.
    + now apply forallb_mod.
    + reflexivity.
Qed.
