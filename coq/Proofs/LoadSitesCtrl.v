(* C08 boundary theorem over the C19 family's model of Controller.load / Skin.load / Morph.load
   (Model/SkinXml.v, Model/Skin.v - imported read-only).  That model already writes DaeMalformed at
   the sites where the Python raises a built-in exception inside the library_controllers boundary,
   and marks inputs it does not cover with PyOther.  Here: for EVERY controller element it returns
   Ok, a DaeError class, or that marker - nothing else. *)
From Coq Require Import List Bool Arith ZArith NArith.
From PC Require Import Base.Atoms Base.Outcome Base.Xml Model.Skin Model.SkinXml.
Import ListNotations.

Definition okx (e : exn) : Prop := is_dae e = true \/ e = PyOther.
Definition okO {A} (o : outcome A) : Prop := match o with Ok _ => True | Raise e => okx e end.

Create HintDb okdb.

Ltac okstep :=
  match goal with
  | |- okO (Ok _) => exact I
  | |- okO (Raise ?e) => first [left; reflexivity | right; reflexivity | assumption]
  | |- okO (if ?b then _ else _) => destruct b
  | |- okO (match ?x with _ => _ end) =>
      first [ let H := fresh "Hok" in
              assert (H : okO x) by (auto with okdb); destruct x; simpl in H
            | destruct x ]
  | |- okO (let '(_, _) := ?x in _) => destruct x
  | |- okO _ => solve [auto with okdb]
  end.
Ltac oksolve := repeat okstep.

Lemma omapM_ok {A B} (f : A -> outcome B) : (forall x, okO (f x)) -> forall l, okO (omapM f l).
Proof.
  intros H. induction l as [|x r IH]; simpl; [exact I|].
  pose proof (H x) as Hx. destruct (f x) as [y|e]; [|exact Hx].
  destruct (omapM f r) as [ys|e]; [exact I|exact IH].
Qed.
#[export] Hint Resolve omapM_ok : okdb.

Lemma check_source_ok s m : okO (check_source s m).
Proof. unfold check_source. oksolve. Qed.
#[export] Hint Resolve check_source_ok : okdb.

Lemma split_by_vcount_ok nind : forall vcounts at_ v, okO (split_by_vcount nind vcounts at_ v).
Proof.
  induction vcounts as [|ct r IH]; intros at_ v; simpl; [exact I|].
  match goal with |- context [Nat.eqb ?a ?b] => destruct (Nat.eqb a b) end; [|left; reflexivity].
  pose proof (IH (at_ + ct) v) as H. destruct (split_by_vcount nind r (at_ + ct) v) as [[gs stop]|e]; [exact I|exact H].
Qed.
#[export] Hint Resolve split_by_vcount_ok : okdb.

Lemma load_skin_ok d : okO (load_skin d).
Proof. unfold load_skin. oksolve. Qed.
#[export] Hint Resolve load_skin_ok : okdb.

Lemma morph_inputs_ok sc : forall ins t w, okO (morph_inputs sc ins t w).
Proof.
  induction ins as [|[s a] r IH]; intros t w; simpl; [exact I|].
  destruct (lookup sc a); [|left; reflexivity]. destruct s; apply IH.
Qed.
#[export] Hint Resolve morph_inputs_ok : okdb.

Lemma morph_pairs_ok geoms : forall targets weights, okO (morph_pairs geoms targets weights).
Proof.
  induction targets as [|t r IH]; intros weights; destruct weights as [|w ws]; simpl; try exact I.
  destruct (memN t geoms); [|left; reflexivity].
  pose proof (IH ws) as H. destruct (morph_pairs geoms r ws); [exact I|exact H].
Qed.
#[export] Hint Resolve morph_pairs_ok : okdb.

Lemma load_morph_ok d : okO (load_morph d).
Proof. unfold load_morph. oksolve. Qed.
#[export] Hint Resolve load_morph_ok : okdb.

Section X.
  Variable ns : atom.
  Variable nums : list Z.
  Variable geoms : list atom.

  Lemma tok_count_ok t : okO (tok_count t).
  Proof. unfold tok_count. oksolve. Qed.
  Lemma load_source_ok x : okO (load_source ns nums x).
  Proof. unfold load_source. oksolve. Qed.
  Lemma source_ref_ok x : okO (source_ref x).
  Proof. unfold source_ref. oksolve. Qed.
  Hint Resolve tok_count_ok load_source_ok source_ref_ok : okdb.
  Lemma joints_input_ok x : okO (joints_input x).
  Proof. unfold joints_input. oksolve. Qed.
  Lemma offset_of_ok x : okO (offset_of x).
  Proof. unfold offset_of. oksolve. Qed.
  Lemma bind_stage_ok node : okO (bind_stage ns nums node).
  Proof. unfold bind_stage. oksolve. Qed.
  Hint Resolve joints_input_ok offset_of_ok bind_stage_ok : okdb.
  Lemma vw_stage_ok vw : okO (vw_stage ns nums vw).
  Proof. unfold vw_stage. oksolve. Qed.
  Hint Resolve vw_stage_ok : okdb.
  Lemma skin_parts_ok sc node ctrl : okO (skin_parts ns nums geoms sc node ctrl).
  Proof. unfold skin_parts. oksolve. Qed.
  Hint Resolve skin_parts_ok : okdb.
  Lemma load_skin_x_ok sc node ctrl : okO (load_skin_x ns nums geoms sc node ctrl).
  Proof. unfold load_skin_x. oksolve. Qed.
  Lemma morph_input_ok sc x : okO (morph_input sc x).
  Proof. unfold morph_input. oksolve. Qed.
  Hint Resolve load_skin_x_ok morph_input_ok : okdb.
  Lemma morph_parts_ok sc node : okO (morph_parts ns geoms sc node).
  Proof. unfold morph_parts. oksolve. Qed.
  Hint Resolve morph_parts_ok : okdb.
  Lemma load_morph_x_ok sc node ctrl : okO (load_morph_x ns geoms sc node ctrl).
  Proof. unfold load_morph_x. oksolve. Qed.
  Hint Resolve load_morph_x_ok : okdb.

  Theorem load_controller_ok ctrl : okO (load_controller ns nums geoms ctrl).
  Proof. unfold load_controller. oksolve. Qed.
End X.
