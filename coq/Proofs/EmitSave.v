(* Object-level save() for the classes the C06 family models (Model/Emit.v, Proofs/Emit.v,
   imported read-only): what save() leaves in an object's element is [emit_K] of the object's
   content - a function of the model content alone (no identities: every emitted element has
   uid 0) - and the content can be read back from it.  Hence (1) saving an object whose
   element is already what save() emits (re-reading it yields the same content) emits the
   same element again, and (2) two objects emit the same element only if their contents are
   equal, which is what lets Model/SaveState.v stand an atom ([ocont]) for the emission. *)
From Coq Require Import List Bool ZArith NArith.
From PC Require Import Base.Atoms Base.Xml Model.Emit Proofs.Emit.
Import ListNotations.

Section Codec.
  Variable K : Type.
  Variable wf : K -> Prop.
  Variable emit : K -> xml.
  Variable read : xml -> option K.
  Hypothesis read_emit : forall k, wf k -> read (emit k) = Some k.

  (* load-or-keep the element, then save: the element after the second save *)
  Definition resave (x : xml) : option xml := option_map emit (read x).

  Lemma resave_fixed : forall k, wf k -> resave (emit k) = Some (emit k).
  Proof. intros k W. unfold resave. rewrite (read_emit k W). reflexivity. Qed.

  Lemma emit_injective : forall k1 k2, wf k1 -> wf k2 -> emit k1 = emit k2 -> k1 = k2.
  Proof.
    intros k1 k2 W1 W2 E. assert (X := read_emit k1 W1). rewrite E, (read_emit k2 W2) in X.
    inversion X. reflexivity.
  Qed.
End Codec.

Definition always {K : Type} (k : K) : Prop := True.

Theorem object_save_fixed_point : forall arr,
  (forall g, wf_geometry g -> resave geometry (emit_geometry arr) read_geometry (emit_geometry arr g) = Some (emit_geometry arr g)) /\
  (forall n, resave node emit_node read_node (emit_node n) = Some (emit_node n)) /\
  (forall s, wf_scene s -> resave vscene emit_scene read_scene (emit_scene s) = Some (emit_scene s)) /\
  (forall l, wf_light l -> resave light emit_light read_light (emit_light l) = Some (emit_light l)) /\
  (forall c, wf_camera c -> resave camera emit_camera read_camera (emit_camera c) = Some (emit_camera c)) /\
  (forall m, resave material emit_material read_material (emit_material m) = Some (emit_material m)) /\
  (forall s, resave source (emit_source arr) read_source (emit_source arr s) = Some (emit_source arr s)).
Proof.
  intro arr.
  split; [intros g W; apply (resave_fixed geometry wf_geometry _ _ (read_emit_geometry arr)); exact W|].
  split; [intro n; apply (resave_fixed node always _ _ (fun n _ => read_emit_node n)); exact I|].
  split; [intros s W; apply (resave_fixed vscene wf_scene _ _ read_emit_scene); exact W|].
  split; [intros l W; apply (resave_fixed light wf_light _ _ read_emit_light); exact W|].
  split; [intros c W; apply (resave_fixed camera wf_camera _ _ read_emit_camera); exact W|].
  split; [intro m; apply (resave_fixed material always _ _ (fun m _ => read_emit_material m)); exact I|].
  intro s; apply (resave_fixed source always _ _ (fun s _ => read_emit_source arr s)); exact I.
Qed.

Theorem emission_injective : forall arr,
  (forall g1 g2, wf_geometry g1 -> wf_geometry g2 -> emit_geometry arr g1 = emit_geometry arr g2 -> g1 = g2) /\
  (forall n1 n2, emit_node n1 = emit_node n2 -> n1 = n2) /\
  (forall s1 s2, wf_scene s1 -> wf_scene s2 -> emit_scene s1 = emit_scene s2 -> s1 = s2) /\
  (forall l1 l2, wf_light l1 -> wf_light l2 -> emit_light l1 = emit_light l2 -> l1 = l2) /\
  (forall c1 c2, wf_camera c1 -> wf_camera c2 -> emit_camera c1 = emit_camera c2 -> c1 = c2) /\
  (forall m1 m2, emit_material m1 = emit_material m2 -> m1 = m2).
Proof.
  intro arr.
  split; [intros g1 g2 W1 W2 E; apply (emit_injective geometry wf_geometry _ _ (read_emit_geometry arr)); assumption|].
  split; [intros n1 n2 E; apply (emit_injective node always _ _ (fun n _ => read_emit_node n)); try exact I; exact E|].
  split; [intros s1 s2 W1 W2 E; apply (emit_injective vscene wf_scene _ _ read_emit_scene); assumption|].
  split; [intros l1 l2 W1 W2 E; apply (emit_injective light wf_light _ _ read_emit_light); assumption|].
  split; [intros c1 c2 W1 W2 E; apply (emit_injective camera wf_camera _ _ read_emit_camera); assumption|].
  intros m1 m2 E; apply (emit_injective material always _ _ (fun m _ => read_emit_material m)); try exact I; exact E.
Qed.

(* emitted elements carry no identity *)
Lemma emitted_uid_zero : forall arr g n s l c m,
  xuid (emit_geometry arr g) = 0%N /\ xuid (emit_node n) = 0%N /\ xuid (emit_scene s) = 0%N /\
  xuid (emit_light l) = 0%N /\ xuid (emit_camera c) = 0%N /\ xuid (emit_material m) = 0%N.
Proof. intros. repeat split; try reflexivity. destruct n; reflexivity. Qed.
