(* Proofs about Model/SaveOnto.v *)
From Coq Require Import List Bool ZArith NArith Lia.
From PC Require Import Base.Outcome Base.Atoms Base.Xml Model.Emit Proofs.Emit Model.Strips Model.SaveOnto.
Import ListNotations.

Lemma attr_set_same n v l : attr n (set_attr n v l) = Some v.
Proof.
  induction l as [|[k w] r IH]; simpl; [rewrite N.eqb_refl; reflexivity|].
  destruct (N.eqb k n) eqn:E; simpl; rewrite E; [reflexivity | exact IH].
Qed.

Lemma attr_set_other n n' v l : n' <> n -> attr n' (set_attr n v l) = attr n' l.
Proof.
  intro Hne. induction l as [|[k w] r IH]; simpl.
  - destruct (N.eqb n n') eqn:E; [apply N.eqb_eq in E; congruence | reflexivity].
  - destruct (N.eqb k n) eqn:E; simpl.
    + apply N.eqb_eq in E. subst k. destruct (N.eqb n n') eqn:E2; [apply N.eqb_eq in E2; congruence | reflexivity].
    + destruct (N.eqb k n'); [reflexivity | exact IH].
Qed.

Lemma find_update_first t f kids c :
  List.find (is_tag ns t) kids = Some c -> is_tag ns t (f c) = true ->
  List.find (is_tag ns t) (update_first t f kids) = Some (f c).
Proof.
  induction kids as [|k r IH]; simpl; [discriminate|].
  destruct (is_tag ns t k) eqn:E; simpl.
  - intros H Hf. inversion H; subst. rewrite Hf. reflexivity.
  - intros H Hf. rewrite E. apply IH; assumption.
Qed.

Lemma is_tag_set_xattr t n v c : is_tag ns t (set_xattr n v c) = is_tag ns t c.
Proof. destruct c; reflexivity. Qed.

(* ---------------- material ---------------- *)
Theorem material_save_onto_read : forall old m ie,
  find ns a_instance_effect old = Some ie ->
  read_material (save_material_onto old m) = Some m.
Proof.
  intros [u n t a tx k] m ie Hf. unfold save_material_onto. simpl set_xattr.
  unfold read_material, xattr, find. simpl xattrs. simpl xkids.
  rewrite attr_set_other by (intro H; discriminate H). rewrite attr_set_same. rewrite attr_set_same.
  unfold find in Hf. simpl in Hf.
  rewrite (find_update_first _ _ _ ie Hf) by (rewrite is_tag_set_xattr; apply List.find_some in Hf; tauto).
  destruct ie as [u' n' t' a' tx' k']. simpl. rewrite attr_set_same. destruct m; reflexivity.
Qed.

(* ---------------- instance elements: the url follows the target's current id ---------------- *)
Theorem instance_save_onto_read : forall u n t a tx kids k ms url,
  tag_ikind t = Some k -> N.eqb t a_node = false ->
  read_mats (El u n t a tx kids) = Some ms ->
  read_node (save_instance_onto (El u n t a tx kids) url) = Some (Inst k url ms).
Proof.
  intros u n t a tx kids k ms url Hk Hn Hm. unfold save_instance_onto. simpl set_xattr.
  rewrite read_node_unfold, Hn, Hk, attr_set_same. simpl get_ref.
  change (read_mats (El u n t (set_attr a_url (ARef true url) a) tx kids)) with (read_mats (El u n t a tx kids)).
  rewrite Hm. reflexivity.
Qed.

(* ---------------- node attributes ---------------- *)
Theorem node_attrs_save_onto : forall old id name,
  xattr a_id (save_node_attrs_onto old id name) = match id with Some v => Some v | None => xattr a_id old end /\
  xattr a_name (save_node_attrs_onto old id name) = match name with Some v => Some v | None => xattr a_name old end /\
  xkids (save_node_attrs_onto old id name) = xkids old /\ xtag (save_node_attrs_onto old id name) = xtag old.
Proof.
  intros [u n t a tx k] id name. unfold save_node_attrs_onto, xattr.
  destruct id as [i|], name as [m|]; simpl; repeat split;
    rewrite ?attr_set_same, ?attr_set_other by (intro H; discriminate H); rewrite ?attr_set_same; reflexivity.
Qed.

(* ---------------- camera ---------------- *)
Theorem camera_save_onto_read : forall old c, wf_camera c -> read_camera (save_camera_onto old c) = Some c.
Proof. intros old c H. apply read_emit_camera. exact H. Qed.

(* ---------------- optional parameters of a light ---------------- *)
Lemma read_opt_as_filter t kids :
  read_opt t kids = match map xtext (filter (is_tag ns t) kids) with
                    | x :: _ => Some (match x with Some tk => tk | None => [] end)
                    | [] => None end.
Proof.
  unfold read_opt. rewrite find_filter_hd. destruct (filter (is_tag ns t) kids) as [|c r]; simpl; [reflexivity|].
  unfold text_or_nil. reflexivity.
Qed.

Lemma read_opt_other t t' v after kids : t' <> t -> read_opt t' (correct_val t v after kids) = read_opt t' kids.
Proof.
  intro Hne. rewrite !read_opt_as_filter. destruct (optional_child_others t v after kids t' Hne) as [_ H]. rewrite H. reflexivity.
Qed.

Lemma count_other t t' v after kids : t' <> t ->
  length (filter (is_tag ns t') (correct_val t v after kids)) = length (filter (is_tag ns t') kids).
Proof.
  intro Hne. destruct (optional_child_others t v after kids t' Hne) as [H _].
  rewrite <- (map_length xuid), H, map_length. reflexivity.
Qed.

Theorem apply_vals_read : forall ps names done kids, NoDup names ->
  (forall n, In n names -> (length (filter (is_tag ns n) kids) <= 1)%nat) ->
  (forall n, In n names -> read_opt n (apply_vals done names ps kids) = assoc_val n ps) /\
  (forall t', ~ In t' names -> read_opt t' (apply_vals done names ps kids) = read_opt t' kids).
Proof.
  intros ps names. induction names as [|n r IH]; intros done kids Hnd Hc; simpl.
  - split; [intros n [] | intros; reflexivity].
  - inversion Hnd as [|? ? Hnr Hr]; subst.
    set (kids1 := correct_val n (assoc_val n ps) (Some done) kids).
    assert (Hc1 : forall m, In m r -> (length (filter (is_tag ns m) kids1) <= 1)%nat).
    { intros m Hm. unfold kids1. rewrite count_other.
      - apply Hc. right. exact Hm.
      - intro E. subst m. contradiction. }
    destruct (IH (done ++ [n]) kids1 Hr Hc1) as [I1 I2]. split.
    + intros m [Hm|Hm].
      * subst m. rewrite (I2 n Hnr). unfold kids1. apply optional_child_value. apply Hc. left. reflexivity.
      * apply I1. exact Hm.
    + intros t' Ht. rewrite I2 by (intro H; apply Ht; right; exact H).
      unfold kids1. apply read_opt_other. intro E. apply Ht. left. symmetry. exact E.
Qed.

(* ---------------- a strip/fan-loaded set is written as <triangles> with the expanded index ---------------- *)
Theorem recreated_triangles : forall kd max_offset (ps : list toks) (ts : list (tri toks)) material inputs,
  load_expand kd max_offset ps = Ok ts ->
  exists p, read_prim (emit_prim (recreate_prim material inputs ts)) = Some p /\
            p_kind p = KTriangles /\ p_ps p = [flatten_tris ts] /\ p_count p = Z.of_nat (length ts) /\
            p_inputs p = inputs /\ p_material p = material /\ p_vcount p = None.
Proof.
  intros kd mo ps ts m ins _. exists (recreate_prim m ins ts). split; [apply read_emit_prim|].
  repeat split.
Qed.
