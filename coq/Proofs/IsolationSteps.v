(* Lemmas for Model/IsolationSteps.v: a lifted step function meets the footprint discipline of
   Proofs/Isolation.v, and what the concrete steps do to masks, errors and ids. *)
From Coq Require Import List Bool Arith NArith.
From PC Require Import Base.Outcome Base.Py Base.Libs Gen.Params Model.Errors Model.Isolation Proofs.Isolation
  Model.IsolationSteps.
Import ListNotations.

Section LiftProofs.
  Variables G D O op : Type.
  Variable step : op -> G -> D -> D * O.

  Lemma lift_global : forall o i (s : state G D), fst (fst (lift step o i s)) = fst s.
  Proof. intros o i [g ds]. unfold lift. simpl. destruct (step o g (ds i)). reflexivity. Qed.

  Lemma lift_others : forall o i (s : state G D) j, j <> i -> snd (fst (lift step o i s)) j = snd s j.
  Proof.
    intros o i [g ds] j Hj. unfold lift. simpl. destruct (step o g (ds i)). simpl.
    unfold upd_doc. apply Nat.eqb_neq in Hj. rewrite Hj. reflexivity.
  Qed.

  Lemma lift_own : forall o i g (ds ds' : nat -> D), ds i = ds' i ->
    snd (fst (lift step o i (g, ds))) i = snd (fst (lift step o i (g, ds'))) i /\
    snd (lift step o i (g, ds)) = snd (lift step o i (g, ds')).
  Proof.
    intros o i g ds ds' H. unfold lift. simpl. rewrite H. destruct (step o g (ds' i)). simpl.
    unfold upd_doc. rewrite Nat.eqb_refl. split; reflexivity.
  Qed.

  (* running only document i's operations is running them solo *)
  Lemma run_own_is_solo : forall i os g (ds : nat -> D),
    snd (fst (run (lift step) (g, ds) (map (fun o => (i, o)) os))) i = fst (solo step g (ds i) os) /\
    outputs_of i (snd (run (lift step) (g, ds) (map (fun o => (i, o)) os))) = snd (solo step g (ds i) os).
  Proof.
    intros i. unfold state, docs. induction os as [|o r IH]; intros g ds; simpl.
    - split; reflexivity.
    - destruct (step o g (ds i)) as [d1 out] eqn:E1.
      assert (EL : lift step o i (g, ds) = ((g, upd_doc ds i d1), out)).
      { unfold lift. simpl. rewrite E1. reflexivity. }
      rewrite EL.
      specialize (IH g (upd_doc ds i d1)).
      assert (Hu : upd_doc ds i d1 i = d1) by (unfold upd_doc; rewrite Nat.eqb_refl; reflexivity).
      rewrite Hu in IH.
      destruct (run (lift step) (g, upd_doc ds i d1) (map (fun o0 : op => (i, o0)) r)) as [s2 outs] eqn:E2.
      destruct (solo step g d1 r) as [d2 souts] eqn:E3. simpl in *.
      destruct IH as [A B]. split; [exact A|].
      unfold outputs_of in *. simpl. rewrite Nat.eqb_refl. simpl. f_equal. exact B.
  Qed.
End LiftProofs.

(* the concrete steps: mask, errors, tagger namespace and ids of a document after its own sequence *)
Lemma solo_mask : forall os g d,
  dm_mask (fst (solo dstep g d os)) = run_ignore (dm_mask d) (own_ignores os).
Proof.
  induction os as [|o r IH]; intros g d; simpl; [reflexivity|].
  destruct (dstep o g d) as [d1 out] eqn:E1. specialize (IH g d1).
  destruct (solo dstep g d1 r) as [d2 outs]. simpl in *. rewrite IH.
  destruct o; unfold handle in E1; simpl in E1; inversion E1; subst; simpl; try reflexivity; try (rewrite <- app_assoc; reflexivity).
Qed.

Lemma solo_errors : forall os g d,
  dm_errors (fst (solo dstep g d os)) = dm_errors d ++ own_handled os.
Proof.
  induction os as [|o r IH]; intros g d; simpl; [rewrite app_nil_r; reflexivity|].
  destruct (dstep o g d) as [d1 out] eqn:E1. specialize (IH g d1).
  destruct (solo dstep g d1 r) as [d2 outs]. simpl in *. rewrite IH.
  destruct o; unfold handle in E1; simpl in E1; inversion E1; subst; simpl; try reflexivity; try (rewrite <- app_assoc; reflexivity).
Qed.

Lemma solo_ids : forall os g d,
  dm_ids (fst (solo dstep g d os)) = dm_ids d ++ own_made os.
Proof.
  induction os as [|o r IH]; intros g d; simpl; [rewrite app_nil_r; reflexivity|].
  destruct (dstep o g d) as [d1 out] eqn:E1. specialize (IH g d1).
  destruct (solo dstep g d1 r) as [d2 outs]. simpl in *. rewrite IH.
  destruct o; unfold handle in E1; simpl in E1; inversion E1; subst; simpl; try reflexivity; try (rewrite <- app_assoc; reflexivity).
Qed.
