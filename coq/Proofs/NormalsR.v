(* C18 over Coq's real numbers: toUnitVec / normalize_v3 really give unit vectors, and the
   implicit triangle normal is the unit right-hand normal. *)
From Coq Require Import List Reals Lra Psatz.
From PC Require Import Model.Normals Proofs.Normals.
Import ListNotations.
Open Scope R_scope.

Definition r_ops : ops := mk_ops R 0 1 Rplus Rmult Rminus Ropp.
Definition Rth : ring_theory (rO r_ops) (rI r_ops) (radd r_ops) (rmul r_ops) (rsub r_ops) (ropp r_ops) eq :=
  RTheory.

Definition RV := vec r_ops.
Definition rdot (a b : RV) : R := dot r_ops a b.
(* 1 / sqrt(vdot(v, v)) *)
Definition rlinv (v : RV) : R := / sqrt (rdot v v).
(* toUnitVec *)
Definition runit (v : RV) : RV := unitv r_ops rlinv v.

Lemma rdot_expand (v : RV) : rdot v v = vx r_ops v * vx r_ops v + vy r_ops v * vy r_ops v + vz r_ops v * vz r_ops v.
Proof. reflexivity. Qed.

Lemma rdot_nonneg (v : RV) : 0 <= rdot v v.
Proof. rewrite rdot_expand. nra. Qed.

Lemma rdot_pos (v : RV) : v <> vzero r_ops -> 0 < rdot v v.
Proof.
  intro H. destruct v as [[x y] z]. rewrite rdot_expand. unfold vx, vy, vz. simpl.
  pose proof (Rle_0_sqr x) as Px. pose proof (Rle_0_sqr y) as Py. pose proof (Rle_0_sqr z) as Pz.
  unfold Rsqr in *.
  destruct (Req_dec x 0) as [Hx|Hx]; [|apply Rsqr_pos_lt in Hx; unfold Rsqr in Hx; lra].
  destruct (Req_dec y 0) as [Hy|Hy]; [|apply Rsqr_pos_lt in Hy; unfold Rsqr in Hy; lra].
  destruct (Req_dec z 0) as [Hz|Hz]; [|apply Rsqr_pos_lt in Hz; unfold Rsqr in Hz; lra].
  subst. exfalso. apply H. reflexivity.
Qed.

Lemma rlinv_pos (v : RV) : v <> vzero r_ops -> 0 < rlinv v.
Proof. intro H. unfold rlinv. apply Rinv_0_lt_compat, sqrt_lt_R0, rdot_pos, H. Qed.

(* normalising a non-zero vector gives length 1 *)
Lemma runit_unit (v : RV) : v <> vzero r_ops -> rdot (runit v) (runit v) = 1.
Proof.
  intro H. pose proof (rdot_pos v H) as HP.
  assert (HE : rdot (runit v) (runit v) = rlinv v * rlinv v * rdot v v).
  { destruct v as [[x y] z]. unfold runit, unitv, rdot, dot, vscale, vx, vy, vz. simpl. ring. }
  rewrite HE. unfold rlinv.
  assert (HS : sqrt (rdot v v) * sqrt (rdot v v) = rdot v v) by (apply sqrt_sqrt; lra).
  assert (HN : sqrt (rdot v v) <> 0) by (apply Rgt_not_eq, sqrt_lt_R0, HP).
  set (q := sqrt (rdot v v)) in *. rewrite <- HS.
  assert (G : forall t : R, t <> 0 -> / t * / t * (t * t) = 1) by (intros; field; assumption).
  apply G. exact HN.
Qed.

(* scaling by a positive factor does not change the unit vector *)
Lemma runit_scale (k : R) (v : RV) : 0 < k -> v <> vzero r_ops -> runit (vscale r_ops k v) = runit v.
Proof.
  intros Hk Hv. pose proof (rdot_pos v Hv) as HP.
  assert (HD : rdot (vscale r_ops k v) (vscale r_ops k v) = (k * k) * rdot v v).
  { destruct v as [[x y] z]. unfold rdot, dot, vscale, vx, vy, vz. simpl. ring. }
  assert (HQ : sqrt (rdot (vscale r_ops k v) (vscale r_ops k v)) = k * sqrt (rdot v v)).
  { rewrite HD, sqrt_mult by nra. rewrite sqrt_square by lra. reflexivity. }
  assert (HN : sqrt (rdot v v) <> 0) by (apply Rgt_not_eq, sqrt_lt_R0, HP).
  unfold runit, unitv, rlinv. rewrite HQ.
  set (q := sqrt (rdot v v)) in *. clearbody q.
  destruct v as [[x y] z]. unfold vscale, vx, vy, vz. simpl.
  apply f_equal2; [apply f_equal2|]; field; split; first [exact HN | lra].
Qed.

Lemma vscale_nonzero (k : R) (v : RV) : k <> 0 -> v <> vzero r_ops -> vscale r_ops k v <> vzero r_ops.
Proof.
  intros Hk Hv HE. apply Hv. destruct v as [[x y] z]. unfold vscale, vzero, vx, vy, vz in *. simpl in *.
  assert (E1 : k * x = 0) by (apply (f_equal (fun v : R * R * R => fst (fst v))) in HE; exact HE).
  assert (E2 : k * y = 0) by (apply (f_equal (fun v : R * R * R => snd (fst v))) in HE; exact HE).
  assert (E3 : k * z = 0) by (apply (f_equal (fun v : R * R * R => snd v)) in HE; exact HE).
  apply Rmult_integral in E1. apply Rmult_integral in E2. apply Rmult_integral in E3.
  destruct E1 as [E1|E1]; [contradiction|]. destruct E2 as [E2|E2]; [contradiction|].
  destruct E3 as [E3|E3]; [contradiction|]. subst. reflexivity.
Qed.

(* a non-degenerate triangle has non-zero edges *)
Lemma rh_nonzero_edges (p0 p1 p2 : RV) :
  rh_normal r_ops p0 p1 p2 <> vzero r_ops ->
  vsub r_ops p2 p0 <> vzero r_ops /\ vsub r_ops p0 p1 <> vzero r_ops.
Proof.
  intro H. destruct p0 as [[x0 y0] z0], p1 as [[x1 y1] z1], p2 as [[x2 y2] z2].
  unfold rh_normal, cross, vsub, vzero, vx, vy, vz in *. simpl in *.
  split; intro HE; apply H;
    pose proof (f_equal (fun v : R * R * R => fst (fst v)) HE) as E1;
    pose proof (f_equal (fun v : R * R * R => snd (fst v)) HE) as E2;
    pose proof (f_equal (fun v : R * R * R => snd v) HE) as E3; simpl in E1, E2, E3;
    (apply f_equal2; [apply f_equal2|]); nra.
Qed.

(* Triangle.__init__ with normals None: the unit right-hand normal of the three vertices *)
Lemma tri_normal_unit_rh (p0 p1 p2 : RV) :
  rh_normal r_ops p0 p1 p2 <> vzero r_ops ->
  tri_normal r_ops rlinv p0 p1 p2 = runit (rh_normal r_ops p0 p1 p2) /\
  rdot (tri_normal r_ops rlinv p0 p1 p2) (tri_normal r_ops rlinv p0 p1 p2) = 1.
Proof.
  intro H. destruct (rh_nonzero_edges _ _ _ H) as [Ha Hb].
  pose proof (rlinv_pos _ Ha) as Ka. pose proof (rlinv_pos _ Hb) as Kb.
  assert (HE : tri_normal r_ops rlinv p0 p1 p2 = runit (rh_normal r_ops p0 p1 p2)).
  { unfold tri_normal. fold (runit (cross r_ops (unitv r_ops rlinv (vsub r_ops p2 p0)) (unitv r_ops rlinv (vsub r_ops p0 p1)))).
    unfold unitv at 1 2.
    rewrite (tri_cross_direction r_ops Rth).
    apply runit_scale; [|exact H]. simpl. nra. }
  split; [exact HE|]. rewrite HE. apply runit_unit. exact H.
Qed.

(* generateNormals: the face normal computed from the two unit edge vectors is the unit right-hand
   normal of the triangle *)
Lemma face_n_unit_rh (verts : list RV) (t : tri) :
  face_cross r_ops verts t <> vzero r_ops ->
  face_n r_ops runit verts t = runit (face_cross r_ops verts t) /\
  rdot (face_n r_ops runit verts t) (face_n r_ops runit verts t) = 1.
Proof.
  unfold face_cross, face_n.
  set (p0 := vnth r_ops verts (c0 t)). set (p1 := vnth r_ops verts (c1 t)). set (p2 := vnth r_ops verts (c2 t)).
  intro H.
  assert (Ha : vsub r_ops p1 p0 <> vzero r_ops).
  { intro HE. apply H. destruct p0 as [[x0 y0] z0], p1 as [[x1 y1] z1], p2 as [[x2 y2] z2].
    unfold rh_normal, cross, vsub, vzero, vx, vy, vz in *. simpl in *.
    pose proof (f_equal (fun v : R * R * R => fst (fst v)) HE) as E1;
    pose proof (f_equal (fun v : R * R * R => snd (fst v)) HE) as E2;
    pose proof (f_equal (fun v : R * R * R => snd v) HE) as E3; simpl in E1, E2, E3.
    apply f_equal2; [apply f_equal2|]; nra. }
  assert (Hb : vsub r_ops p2 p0 <> vzero r_ops) by (apply (rh_nonzero_edges p0 p1 p2 H)).
  pose proof (rlinv_pos _ Ha) as Ka. pose proof (rlinv_pos _ Hb) as Kb.
  assert (HE : runit (cross r_ops (runit (vsub r_ops p1 p0)) (runit (vsub r_ops p2 p0))) =
               runit (rh_normal r_ops p0 p1 p2)).
  { unfold runit at 2 3. unfold unitv. rewrite (cross_scale r_ops Rth).
    apply runit_scale; [|exact H]. simpl. nra. }
  split; [exact HE|]. rewrite HE. apply runit_unit. exact H.
Qed.

(* ------------------------------------------------------------------ bound sets under a rotation *)
Definition tri_in_range (n : nat) (t : tri) : Prop := (c0 t < n /\ c1 t < n /\ c2 t < n)%nat.

Lemma vnth_map (f : RV -> RV) (l : list RV) i : (i < length l)%nat -> vnth r_ops (map f l) i = f (vnth r_ops l i).
Proof.
  intro H. unfold vnth. rewrite (nth_indep (map f l) (vzero r_ops) (f (vzero r_ops))) by (rewrite map_length; exact H).
  apply map_nth.
Qed.

Lemma runit_rotation k0 k1 k2 a :
  rotation r_ops k0 k1 k2 -> runit (mv r_ops k0 k1 k2 a) = mv r_ops k0 k1 k2 (runit a).
Proof.
  intro H. unfold runit, unitv, rlinv, rdot. rewrite (rotation_dot r_ops Rth _ _ _ _ _ H).
  rewrite (mv_scale r_ops Rth). reflexivity.
Qed.

(* the face normal generateNormals computes from the TRANSFORMED vertices is the rotated face normal *)
Lemma face_n_rotation k0 k1 k2 t0 (verts : list RV) (t : tri) :
  rotation r_ops k0 k1 k2 -> tri_in_range (length verts) t ->
  face_n r_ops runit (map (fun p => vadd r_ops (mv r_ops k0 k1 k2 p) t0) verts) t =
  mv r_ops k0 k1 k2 (face_n r_ops runit verts t).
Proof.
  intros H (H0 & H1 & H2). unfold face_n.
  rewrite !vnth_map by assumption. rewrite !(affine_sub r_ops Rth).
  rewrite !(runit_rotation _ _ _ _ H), (rotation_cross r_ops Rth _ _ _ _ _ H), (runit_rotation _ _ _ _ H).
  reflexivity.
Qed.

Lemma corners_in (tris : list tri) tc : In tc (corners tris) -> In (fst tc) tris.
Proof.
  unfold corners. intro H. apply in_flat_map in H. destruct H as (t & Ht & Hc).
  simpl in Hc. destruct Hc as [<-|[<-|[<-|[]]]]; exact Ht.
Qed.

Lemma spec_sum_rows_ext (row1 row2 : tri -> RV) tris v :
  (forall t, In t tris -> row1 t = row2 t) ->
  spec_sum_rows r_ops row1 tris v = spec_sum_rows r_ops row2 tris v.
Proof.
  intro H. unfold spec_sum_rows. f_equal. apply map_ext_in. intros tc Hin.
  apply H. apply filter_In in Hin. apply corners_in. apply Hin.
Qed.

(* generateNormals on a set bound under a rotation + translation: recomputed from the transformed
   vertices, every accumulated row is the rotated row of the unbound set *)
Lemma gen_sums_rotation k0 k1 k2 t0 (verts : list RV) (tris : list tri) v :
  rotation r_ops k0 k1 k2 -> (forall t, In t tris -> tri_in_range (length verts) t) -> (v < length verts)%nat ->
  vnth r_ops (gen_sums r_ops runit (add_at r_ops) (map (fun p => vadd r_ops (mv r_ops k0 k1 k2 p) t0) verts) tris) v =
  mv r_ops k0 k1 k2 (vnth r_ops (gen_sums r_ops runit (add_at r_ops) verts tris) v).
Proof.
  intros H Hr Hv.
  rewrite (gen_sums_spec r_ops Rth) by (rewrite map_length; exact Hv).
  rewrite (gen_sums_spec r_ops Rth) by exact Hv.
  unfold spec_sum. rewrite <- (spec_sum_rows_mv r_ops Rth).
  apply spec_sum_rows_ext. intros t Ht. apply face_n_rotation; auto.
Qed.

Lemma gen_normals_rotation k0 k1 k2 t0 (verts : list RV) (tris : list tri) v :
  rotation r_ops k0 k1 k2 -> (forall t, In t tris -> tri_in_range (length verts) t) -> (v < length verts)%nat ->
  vnth r_ops (gen_normals r_ops runit (add_at r_ops) (map (fun p => vadd r_ops (mv r_ops k0 k1 k2 p) t0) verts) tris) v =
  mv r_ops k0 k1 k2 (vnth r_ops (gen_normals r_ops runit (add_at r_ops) verts tris) v).
Proof.
  intros H Hr Hv. unfold gen_normals.
  rewrite !vnth_map.
  - rewrite (gen_sums_rotation _ _ _ _ _ _ _ H Hr Hv). apply runit_rotation. exact H.
  - unfold gen_sums. rewrite (accumulate3_add_at_length r_ops). exact Hv.
  - unfold gen_sums. rewrite (accumulate3_add_at_length r_ops), map_length. exact Hv.
Qed.
