(* Lemmas about Model/Normals.v over an arbitrary commutative ring. *)
From Coq Require Import List Bool Arith Lia Ring.
From PC Require Import Model.Normals.
Import ListNotations.

Section RingFacts.
  Variable o : ops.
  Hypothesis Rth : ring_theory (rO o) (rI o) (radd o) (rmul o) (rsub o) (ropp o) eq.
  Add Ring Rring : Rth.

  Local Notation R := (car o).
  Local Notation r0 := (rO o).
  Local Notation r1 := (rI o).
  Local Infix "+" := (radd o).
  Local Infix "*" := (rmul o).
  Local Infix "-" := (rsub o).
  Local Notation vec := (vec o).
  Local Notation vadd := (vadd o).
  Local Notation vsub := (vsub o).
  Local Notation vscale := (vscale o).
  Local Notation vzero := (vzero o).
  Local Notation cross := (cross o).
  Local Notation dot := (dot o).
  Local Notation dot_v3 := (dot_v3 o).
  Local Notation vsum := (vsum o).
  Local Notation vnth := (vnth o).

  Ltac vdestruct :=
    repeat match goal with
           | v : Normals.vec _ |- _ => let a := fresh "x" in let b := fresh "y" in let c := fresh "z" in
                                      destruct v as [[a b] c]
           | v : (car o * car o * car o)%type |- _ =>
               let a := fresh "x" in let b := fresh "y" in let c := fresh "z" in destruct v as [[a b] c]
           end.
  Ltac vring :=
    intros; vdestruct;
    unfold Normals.vadd, Normals.vsub, Normals.vscale, Normals.vzero, Normals.cross, Normals.dot,
      Normals.dot_v3, Normals.vx, Normals.vy, Normals.vz in *; simpl in *;
    try first [ ring | (apply f_equal2; [apply f_equal2|]); ring ].

  Lemma vadd_comm (a b : vec) : vadd a b = vadd b a.
  Proof. vring. Qed.
  Lemma vadd_assoc (a b c : vec) : vadd a (vadd b c) = vadd (vadd a b) c.
  Proof. vring. Qed.
  Lemma vadd_0_l (a : vec) : vadd vzero a = a.
  Proof. vring. Qed.
  Lemma vadd_0_r (a : vec) : vadd a vzero = a.
  Proof. vring. Qed.

  (* ------------------------------------------------------------ face normal direction *)
  (* the vector Triangle.__init__ normalises is a multiple of the right-hand normal
     cross(v1 - v0, v2 - v0), the factor being the product of the two edge scalings *)
  Lemma tri_cross_direction (k1 k2 : R) (p0 p1 p2 : vec) :
    cross (vscale k2 (vsub p2 p0)) (vscale k1 (vsub p0 p1)) =
    vscale (k2 * k1) (rh_normal o p0 p1 p2).
  Proof. unfold rh_normal. vring. Qed.

  Lemma tri_normal_direction (linv : vec -> R) (p0 p1 p2 : vec) :
    let a := unitv o linv (vsub p2 p0) in
    let b := unitv o linv (vsub p0 p1) in
    tri_normal o linv p0 p1 p2 =
    vscale (linv (cross a b) * (linv (vsub p2 p0) * linv (vsub p0 p1))) (rh_normal o p0 p1 p2).
  Proof.
    intros a b. subst a b. unfold tri_normal, unitv, rh_normal.
    set (k2 := linv (vsub p2 p0)). set (k1 := linv (vsub p0 p1)).
    set (k := linv _). clearbody k k1 k2. vring.
  Qed.

  (* scaling the two edges scales their cross product by the product of the factors *)
  Lemma cross_scale (k1 k2 : R) (a b : vec) :
    cross (vscale k1 a) (vscale k2 b) = vscale (k1 * k2) (cross a b).
  Proof. vring. Qed.

  (* the right-hand normal is orthogonal to both edges *)
  Lemma rh_normal_orthogonal (p0 p1 p2 : vec) :
    dot (rh_normal o p0 p1 p2) (vsub p1 p0) = r0 /\ dot (rh_normal o p0 p1 p2) (vsub p2 p0) = r0.
  Proof. unfold rh_normal. split; vring. Qed.

  (* swapping two corners reverses it, rotating the corners keeps it *)
  Lemma rh_normal_swap (p0 p1 p2 : vec) :
    rh_normal o p0 p2 p1 = vscale (ropp o r1) (rh_normal o p0 p1 p2).
  Proof. unfold rh_normal. vring. Qed.
  Lemma rh_normal_rotate (p0 p1 p2 : vec) : rh_normal o p1 p2 p0 = rh_normal o p0 p1 p2.
  Proof. unfold rh_normal. vring. Qed.

  (* ------------------------------------------------------------ rotations *)
  (* a linear map given by its columns *)
  Definition mv (k0 k1 k2 : vec) (a : vec) : vec :=
    vadd (vadd (vscale (Normals.vx o a) k0) (vscale (Normals.vy o a) k1)) (vscale (Normals.vz o a) k2).
  (* right-handed orthonormal columns: a rotation *)
  Definition rotation (k0 k1 k2 : vec) : Prop :=
    cross k0 k1 = k2 /\ cross k1 k2 = k0 /\ cross k2 k0 = k1 /\ dot k0 k0 = r1.

  Lemma mv_sub k0 k1 k2 a b : mv k0 k1 k2 (vsub a b) = vsub (mv k0 k1 k2 a) (mv k0 k1 k2 b).
  Proof. unfold mv. vring. Qed.
  Lemma mv_add k0 k1 k2 a b : mv k0 k1 k2 (vadd a b) = vadd (mv k0 k1 k2 a) (mv k0 k1 k2 b).
  Proof. unfold mv. vring. Qed.
  Lemma mv_zero k0 k1 k2 : mv k0 k1 k2 vzero = vzero.
  Proof. unfold mv. vring. Qed.
  Lemma mv_scale k0 k1 k2 k a : mv k0 k1 k2 (vscale k a) = vscale k (mv k0 k1 k2 a).
  Proof. unfold mv. vring. Qed.
  Lemma affine_sub k0 k1 k2 t a b :
    vsub (vadd (mv k0 k1 k2 a) t) (vadd (mv k0 k1 k2 b) t) = mv k0 k1 k2 (vsub a b).
  Proof. unfold mv. vring. Qed.

  (* bilinearity: the cross product of two images in terms of the cross products of the columns *)
  Lemma cross_mv_columns k0 k1 k2 a b :
    cross (mv k0 k1 k2 a) (mv k0 k1 k2 b) =
    mv (cross k1 k2) (cross k2 k0) (cross k0 k1) (cross a b).
  Proof. unfold mv. vring. Qed.
  Lemma dot_mv_columns k0 k1 k2 a b :
    dot (mv k0 k1 k2 a) (mv k0 k1 k2 b) =
    Normals.vx o a * Normals.vx o b * dot k0 k0 + Normals.vy o a * Normals.vy o b * dot k1 k1 +
    Normals.vz o a * Normals.vz o b * dot k2 k2 +
    (Normals.vx o a * Normals.vy o b + Normals.vy o a * Normals.vx o b) * dot k0 k1 +
    (Normals.vy o a * Normals.vz o b + Normals.vz o a * Normals.vy o b) * dot k1 k2 +
    (Normals.vx o a * Normals.vz o b + Normals.vz o a * Normals.vx o b) * dot k0 k2.
  Proof. unfold mv. vring. Qed.

  Lemma dot_cross_l (u v : vec) : dot (cross u v) u = r0.
  Proof. vring. Qed.
  Lemma dot_cross_r (u v : vec) : dot (cross u v) v = r0.
  Proof. vring. Qed.
  Lemma triple_cyclic (u v w : vec) : dot (cross u v) w = dot u (cross v w).
  Proof. vring. Qed.
  Lemma dot_comm (u v : vec) : dot u v = dot v u.
  Proof. vring. Qed.

  (* a rotation commutes with the cross product and preserves the dot product *)
  Lemma rotation_cross k0 k1 k2 a b :
    rotation k0 k1 k2 -> cross (mv k0 k1 k2 a) (mv k0 k1 k2 b) = mv k0 k1 k2 (cross a b).
  Proof. intros (H01 & H12 & H20 & _). rewrite cross_mv_columns, H01, H12, H20. reflexivity. Qed.

  Lemma rotation_orthonormal k0 k1 k2 :
    rotation k0 k1 k2 ->
    dot k0 k0 = r1 /\ dot k1 k1 = r1 /\ dot k2 k2 = r1 /\ dot k0 k1 = r0 /\ dot k1 k2 = r0 /\ dot k0 k2 = r0.
  Proof.
    intros (H01 & H12 & H20 & H00).
    assert (E22 : dot k2 k2 = r1).
    { transitivity (dot (cross k0 k1) k2); [rewrite H01; reflexivity|]. rewrite triple_cyclic, H12. exact H00. }
    assert (E11 : dot k1 k1 = r1).
    { transitivity (dot (cross k2 k0) k1); [rewrite H20; reflexivity|]. rewrite triple_cyclic, H01. exact E22. }
    assert (E01 : dot k0 k1 = r0).
    { transitivity (dot k0 (cross k2 k0)); [rewrite H20; reflexivity|]. rewrite dot_comm. apply dot_cross_r. }
    assert (E12 : dot k1 k2 = r0).
    { transitivity (dot k1 (cross k0 k1)); [rewrite H01; reflexivity|]. rewrite dot_comm. apply dot_cross_r. }
    assert (E02 : dot k0 k2 = r0).
    { transitivity (dot k0 (cross k0 k1)); [rewrite H01; reflexivity|]. rewrite dot_comm. apply dot_cross_l. }
    repeat split; assumption.
  Qed.

  Lemma rotation_dot k0 k1 k2 a b :
    rotation k0 k1 k2 -> dot (mv k0 k1 k2 a) (mv k0 k1 k2 b) = dot a b.
  Proof.
    intro H. destruct (rotation_orthonormal _ _ _ H) as (E00 & E11 & E22 & E01 & E12 & E02).
    rewrite dot_mv_columns, E00, E11, E22, E01, E12, E02. vring.
  Qed.

  (* sums of rows commute with a linear map *)
  Lemma vsum_mv k0 k1 k2 (l : list vec) : vsum (map (mv k0 k1 k2) l) = mv k0 k1 k2 (vsum l).
  Proof.
    induction l as [|x l IH]; simpl.
    - symmetry. apply mv_zero.
    - rewrite IH, mv_add. reflexivity.
  Qed.

  Lemma spec_sum_rows_mv k0 k1 k2 (row : tri -> vec) tris v :
    spec_sum_rows o (fun t => mv k0 k1 k2 (row t)) tris v = mv k0 k1 k2 (spec_sum_rows o row tris v).
  Proof.
    unfold spec_sum_rows. rewrite <- vsum_mv, map_map. reflexivity.
  Qed.

  (* ------------------------------------------------------------ arrays *)
  Lemma upd_length {A} (l : list A) i x : length (upd l i x) = length l.
  Proof. revert i; induction l as [|h t IH]; intros [|i]; simpl; auto. Qed.

  Lemma upd_nth_same {A} (l : list A) i x d : i < length l -> nth i (upd l i x) d = x.
  Proof. revert i; induction l as [|h t IH]; intros [|i] H; simpl in *; try lia; auto. apply IH; lia. Qed.

  Lemma upd_nth_other {A} (l : list A) i j x d : i <> j -> nth j (upd l i x) d = nth j l d.
  Proof.
    revert i j; induction l as [|h t IH]; intros [|i] [|j] H; simpl; auto; try congruence.
  Qed.

  Lemma upd_out_of_range {A} (l : list A) i x : length l <= i -> upd l i x = l.
  Proof. revert i; induction l as [|h t IH]; intros [|i] H; simpl in *; auto; try lia. f_equal. apply IH. lia. Qed.

  (* the rows of [vs] whose index is v, summed *)
  Fixpoint sel_sum (v : nat) (idx : list nat) (vs : list vec) : vec :=
    match idx, vs with
    | i :: idx', x :: vs' => vadd (if Nat.eqb i v then x else vzero) (sel_sum v idx' vs')
    | _, _ => vzero
    end.

  Lemma add_at_length a idx vs : length (add_at o a idx vs) = length a.
  Proof.
    revert a vs; induction idx as [|i idx IH]; intros a [|x vs]; simpl; auto.
    rewrite IH. apply upd_length.
  Qed.

  (* numpy.add.at is a true scatter-add *)
  Lemma add_at_nth a idx vs v :
    v < length a -> vnth (add_at o a idx vs) v = vadd (vnth a v) (sel_sum v idx vs).
  Proof.
    revert a vs; induction idx as [|i idx IH]; intros a [|x vs] Hv; simpl;
      try (rewrite vadd_0_r; reflexivity).
    rewrite IH by (rewrite upd_length; exact Hv).
    destruct (Nat.eqb i v) eqn:E.
    - apply Nat.eqb_eq in E. subst i. unfold Normals.vnth at 1. rewrite upd_nth_same by exact Hv.
      fold (vnth a v). rewrite vadd_assoc. reflexivity.
    - apply Nat.eqb_neq in E. unfold Normals.vnth at 1. rewrite upd_nth_other by exact E.
      fold (vnth a v). rewrite vadd_0_l. reflexivity.
  Qed.

  Lemma repeat_nth_zero n v : vnth (repeat vzero n) v = vzero.
  Proof. unfold Normals.vnth. revert v; induction n; intros [|v]; simpl; auto. Qed.

  (* one pass over the corner-c column, rows given per triangle *)
  Definition pick (c : tri -> nat) (row : tri -> vec) (v : nat) (t : tri) : vec :=
    if Nat.eqb (c t) v then row t else vzero.

  Lemma sel_sum_map c row v tris :
    sel_sum v (map c tris) (map row tris) = vsum (map (pick c row v) tris).
  Proof. induction tris as [|t ts IH]; simpl; auto. rewrite IH. reflexivity. Qed.

  Lemma vsum_app l1 l2 : vsum (l1 ++ l2) = vadd (vsum l1) (vsum l2).
  Proof.
    induction l1 as [|x l1 IH]; simpl.
    - rewrite vadd_0_l. reflexivity.
    - rewrite IH. apply vadd_assoc.
  Qed.

  (* the SPEC sum splits into the three per-corner sums *)
  Lemma spec_sum_rows_split row tris v :
    spec_sum_rows o row tris v =
    vadd (vadd (vsum (map (pick c0 row v) tris)) (vsum (map (pick c1 row v) tris)))
         (vsum (map (pick c2 row v) tris)).
  Proof.
    unfold spec_sum_rows. induction tris as [|t ts IH].
    - simpl. rewrite !vadd_0_l. reflexivity.
    - change (corners (t :: ts)) with ([(t, 0); (t, 1); (t, 2)] ++ corners ts).
      rewrite filter_app, map_app, vsum_app, IH. clear IH.
      simpl map at 2 3 4. simpl vsum at 5 6 7.
      generalize (vsum (map (pick c0 row v) ts)) as A0.
      generalize (vsum (map (pick c1 row v) ts)) as A1.
      generalize (vsum (map (pick c2 row v) ts)) as A2.
      intros A2 A1 A0. unfold pick, incident. simpl.
      destruct (Nat.eqb (c0 t) v), (Nat.eqb (c1 t) v), (Nat.eqb (c2 t) v); simpl;
        generalize (row t) as r; vring.
  Qed.

  (* the three accumulation statements with a true scatter-add give, at every vertex,
     the sum over the incident (triangle, corner) pairs - for ALL meshes *)
  Lemma accumulate3_add_at n tris row v :
    v < n ->
    vnth (accumulate3 o (add_at o) n tris (map row tris)) v = spec_sum_rows o row tris v.
  Proof.
    intro Hv. unfold accumulate3.
    assert (L0 : length (repeat vzero n) = n) by apply repeat_length.
    rewrite add_at_nth by (rewrite !add_at_length, L0; exact Hv).
    rewrite add_at_nth by (rewrite add_at_length, L0; exact Hv).
    rewrite add_at_nth by (rewrite L0; exact Hv).
    rewrite repeat_nth_zero, !sel_sum_map, spec_sum_rows_split, vadd_0_l. reflexivity.
  Qed.

  Lemma accumulate3_add_at_length n tris rows :
    length (accumulate3 o (add_at o) n tris rows) = n.
  Proof. unfold accumulate3. rewrite !add_at_length. apply repeat_length. Qed.

  Section WithNrm.
    Variable nrm : vec -> vec.

    Lemma gen_sums_spec verts tris v :
      v < length verts ->
      vnth (gen_sums o nrm (add_at o) verts tris) v = spec_sum o nrm verts tris v.
    Proof. intro Hv. unfold gen_sums, spec_sum. apply accumulate3_add_at. exact Hv. Qed.

    Lemma gen_normals_length verts tris :
      length (gen_normals o nrm (add_at o) verts tris) = length verts.
    Proof. unfold gen_normals, gen_sums. rewrite map_length. apply accumulate3_add_at_length. Qed.

    Lemma gen_normals_spec verts tris v :
      v < length verts ->
      nth v (gen_normals o nrm (add_at o) verts tris) (nrm vzero) = spec_normal o nrm verts tris v.
    Proof.
      intro Hv. unfold gen_normals, spec_normal. rewrite map_nth.
      fold (vnth (gen_sums o nrm (add_at o) verts tris) v). rewrite gen_sums_spec by exact Hv. reflexivity.
    Qed.
  End WithNrm.

  (* ------------------------------------------------------------ the fancy-indexed += *)
  Lemma scatter_length a idx vals : length (scatter o a idx vals) = length a.
  Proof.
    revert a vals; induction idx as [|i idx IH]; intros a [|x vals]; simpl; auto.
    rewrite IH. apply upd_length.
  Qed.

  (* when no index repeats, a[idx] += vs and numpy.add.at agree (why simple tests pass) *)
  Lemma scatter_nth_notin a idx vals v : ~ In v idx -> vnth (scatter o a idx vals) v = vnth a v.
  Proof.
    revert a vals; induction idx as [|i idx IH]; intros a [|x vals] Hn; simpl; auto.
    rewrite IH by (intro H; apply Hn; right; exact H).
    unfold Normals.vnth. apply upd_nth_other. intro E. apply Hn. left. exact E.
  Qed.

  Lemma sel_sum_notin v idx vs : ~ In v idx -> sel_sum v idx vs = vzero.
  Proof.
    revert vs; induction idx as [|i idx IH]; intros [|x vs] Hn; simpl; auto.
    destruct (Nat.eqb i v) eqn:E.
    - apply Nat.eqb_eq in E. exfalso. apply Hn. left. exact E.
    - rewrite IH by (intro H; apply Hn; right; exact H). apply vadd_0_l.
  Qed.

  Lemma scatter_nodup_nth a idx (olds vs : list vec) v :
    NoDup idx -> v < length a -> length olds = length idx -> length vs = length idx ->
    vnth (scatter o a idx (zip_add o olds vs)) v =
    match find (fun p => Nat.eqb (fst p) v) (combine idx (combine olds vs)) with
    | Some (_, (x, y)) => vadd x y
    | None => vnth a v
    end.
  Proof.
    revert a olds vs. induction idx as [|i idx IH]; intros a [|x olds] [|y vs] Hnd Hv Ho Hs;
      simpl in *; try discriminate; auto.
    inversion Hnd as [|? ? Hni Hnd']; subst.
    destruct (Nat.eqb i v) eqn:E.
    - apply Nat.eqb_eq in E. subst i. rewrite scatter_nth_notin by exact Hni.
      unfold Normals.vnth. apply upd_nth_same. exact Hv.
    - apply Nat.eqb_neq in E. rewrite IH; auto; try (rewrite upd_length; exact Hv).
      destruct (find _ _) as [[? [? ?]]|]; auto.
      unfold Normals.vnth. apply upd_nth_other. exact E.
  Qed.

  Lemma fancy_iadd_nodup a idx vs v :
    NoDup idx -> v < length a -> length vs = length idx ->
    vnth (fancy_iadd o a idx vs) v = vnth (add_at o a idx vs) v.
  Proof.
    intros Hnd Hv Hl. unfold fancy_iadd.
    rewrite scatter_nodup_nth; auto; [|unfold gather; apply map_length].
    rewrite add_at_nth by exact Hv.
    revert vs Hl. unfold gather. induction idx as [|i idx IH]; intros [|y vs] Hl; simpl in *; try discriminate.
    - rewrite vadd_0_r. reflexivity.
    - inversion Hnd as [|? ? Hni Hnd']; subst.
      destruct (Nat.eqb i v) eqn:E.
      + apply Nat.eqb_eq in E. subst i. rewrite sel_sum_notin by exact Hni.
        rewrite vadd_0_r. reflexivity.
      + rewrite vadd_0_l. apply IH; auto.
  Qed.

  (* ------------------------------------------------------------ tangents *)
  (* Gram-Schmidt: for a unit normal the projected tangent is orthogonal to it, and so is any
     multiple of it (normalisation multiplies by 1/length) *)
  Lemma project_orthogonal (n t : vec) : dot n n = r1 -> dot n (project o n t) = r0.
  Proof.
    intro H. unfold project.
    assert (E : dot n (vsub t (vscale (dot_v3 n t) n)) = dot n t - dot_v3 n t * dot n n) by vring.
    rewrite E, H. vring.
  Qed.

  Lemma project_scaled_orthogonal (k : R) (n t : vec) :
    dot n n = r1 -> dot n (vscale k (project o n t)) = r0.
  Proof.
    intro H. assert (E : dot n (vscale k (project o n t)) = k * dot n (project o n t)).
    { generalize (project o n t) as p. vring. }
    rewrite E, project_orthogonal by exact H. ring.
  Qed.

  Lemma dot_v3_is_dot (a b : vec) : dot_v3 a b = dot a b.
  Proof. vring. Qed.

  (* the code's edge choice (corner 1 -> corner 2) gives Lengyel's tangent, which maps the
     u direction onto the surface: with e1 = p1-p0, E2 = p2-p0 and (S1,T1), (S2,T2) the UV
     deltas from corner 0, det * sdir = T2*e1 - T1*E2 *)
  Lemma sdir_lengyel (rinv : R -> R) (p0 p1 p2 : vec) (w0 w1 w2 : Normals.uv o) :
    let d := uv_det o w0 w1 w2 in
    rinv d * d = r1 ->
    vscale d (sdir o rinv p0 p1 p2 w0 w1 w2) =
    vsub (vscale (snd w2 - snd w0) (vsub p1 p0)) (vscale (snd w1 - snd w0) (vsub p2 p0)).
  Proof.
    destruct w0 as [s0 t0], w1 as [s1 t1], w2 as [s2 t2].
    destruct p0 as [[x0 y0] z0], p1 as [[x1 y1] z1], p2 as [[x2 y2] z2].
    unfold uv_det, sdir, Normals.vscale, Normals.vsub, Normals.vx, Normals.vy, Normals.vz. simpl.
    set (d := (s1 - s0) * (t2 - t1) - (s2 - s1) * (t1 - t0)). set (r := rinv d). intro Hd.
    assert (L : forall X : R, d * (X * r) = X).
    { intro X. transitivity ((r * d) * X); [ring | rewrite Hd; ring]. }
    apply f_equal2; [apply f_equal2|]; rewrite L; ring.
  Qed.

  (* every row of the generated tangent array is the normalised projection for its corner *)
  Lemma arange_tris_length s n : length (arange_tris s n) = n.
  Proof. revert s; induction n; intros; simpl; auto. Qed.

  Lemma arange_tris_nth s n i : i < n -> nth i (arange_tris s n) (0, 0, 0) =
                                        (s + 3 * i, s + 3 * i + 1, s + 3 * i + 2)%nat.
  Proof.
    revert s i; induction n as [|n IH]; intros s [|i] H; simpl; try lia.
    - apply f_equal2; [apply f_equal2|]; lia.
    - rewrite IH by lia. apply f_equal2; [apply f_equal2|]; lia.
  Qed.
End RingFacts.
