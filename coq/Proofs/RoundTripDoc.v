(* Proofs for Model/RoundTripDoc.v: C01's laws from the C06 family's read_emit_* theorems. *)
From Coq Require Import List ZArith NArith.
From PC Require Import Base.Atoms Base.Xml Base.Num Model.RoundTrip Proofs.RoundTrip Model.Emit Proofs.Emit
                       Model.RoundTripDoc.
Import ListNotations.

(* wf-conditional class laws (write/read half) *)
Lemma lawP_light : lawP wf_light (c06_codec emit_light read_light).
Proof. apply lawP_exact_read. exact read_emit_light. Qed.
Lemma lawP_camera : lawP wf_camera (c06_codec emit_camera read_camera).
Proof. apply lawP_exact_read. exact read_emit_camera. Qed.
Lemma lawP_scene : lawP wf_scene (c06_codec emit_scene read_scene).
Proof. apply lawP_exact_read. exact read_emit_scene. Qed.
Lemma lawP_geometry arr : lawP wf_geometry (c06_codec (emit_geometry arr) read_geometry).
Proof. apply lawP_exact_read. exact (read_emit_geometry arr). Qed.
Lemma lawP_doc arr : lawP wf_doc (c06_codec (emit_doc arr) read_doc).
Proof. apply lawP_exact_read. exact (read_emit_doc arr). Qed.

Section NumberLevel.
  Variable X : Type.
  Variable fmt7 : X -> tok.
  Variable parse32 : tok -> X.
  Hypothesis H_num_stable : forall x, parse32 (fmt7 (parse32 (fmt7 x))) = parse32 (fmt7 x).
  Variable arr : atom -> atom.

  Notation to_tokens := (to_tokens X fmt7).
  Notation of_tokens := (of_tokens X parse32).
  Notation norm_source := (norm_source X fmt7 parse32).

  Lemma of_to_tokens s : of_tokens (to_tokens s) = norm_source s.
  Proof. unfold of_tokens, to_tokens, norm_source. simpl. rewrite parse_emit_floats. reflexivity. Qed.

  Lemma norm_source_idem s : norm_source (norm_source s) = norm_source s.
  Proof.
    unfold RoundTripDoc.norm_source. simpl. rewrite (map_norm_idem X tok fmt7 parse32 H_num_stable). reflexivity.
  Qed.

  Lemma law_number_source : law (number_source_codec X fmt7 parse32 arr).
  Proof.
    split.
    - intro s. simpl. rewrite read_emit_source. simpl. rewrite of_to_tokens. reflexivity.
    - intro s. apply norm_source_idem.
  Qed.

  Lemma of_to_tok_geometry g :
    of_tok_geometry X parse32 (to_tok_geometry X fmt7 g) = norm_geometry X fmt7 parse32 g.
  Proof.
    unfold of_tok_geometry, to_tok_geometry, norm_geometry. simpl. f_equal.
    rewrite map_map. apply map_ext. exact of_to_tokens.
  Qed.

  Lemma norm_geometry_idem g :
    norm_geometry X fmt7 parse32 (norm_geometry X fmt7 parse32 g) = norm_geometry X fmt7 parse32 g.
  Proof.
    unfold norm_geometry. simpl. f_equal. rewrite map_map. apply map_ext. exact norm_source_idem.
  Qed.

  Lemma of_to_tok_doc d : of_tok_doc X parse32 (to_tok_doc X fmt7 d) = norm_doc X fmt7 parse32 d.
  Proof.
    unfold of_tok_doc, to_tok_doc, norm_doc. simpl. f_equal.
    rewrite map_map. apply map_ext. exact of_to_tok_geometry.
  Qed.

  Lemma norm_doc_idem d : norm_doc X fmt7 parse32 (norm_doc X fmt7 parse32 d) = norm_doc X fmt7 parse32 d.
  Proof.
    unfold norm_doc. simpl. f_equal. rewrite map_map. apply map_ext. exact norm_geometry_idem.
  Qed.

  (* well-formedness (C06's wf_doc of the formatted document) does not look at source data *)
  Lemma wf_norm_doc d :
    wf_doc (to_tok_doc X fmt7 d) -> wf_doc (to_tok_doc X fmt7 (norm_doc X fmt7 parse32 d)).
  Proof.
    intros [Hg Hl Hc Hs]. constructor; simpl in *; try assumption.
    clear - Hg. induction (nd_geometries X d) as [|g gs IH]; simpl in *; [constructor|].
    inversion Hg; subst. constructor; [|apply IH; assumption].
    unfold wf_geometry in *. simpl in *. assumption.
  Qed.

  Definition wf_ndoc (d : ndoc X) : Prop := wf_doc (to_tok_doc X fmt7 d).

  Lemma lawP_number_doc : lawP wf_ndoc (number_doc_codec X fmt7 parse32 arr).
  Proof.
    split.
    - intros d Hwf. simpl. unfold wf_ndoc in *. rewrite (read_emit_doc arr _ Hwf). simpl.
      rewrite of_to_tok_doc. split; [reflexivity | apply wf_norm_doc; exact Hwf].
    - intros d _. apply norm_doc_idem.
  Qed.
End NumberLevel.
