(* Proofs about the exact numeric definitions of Model/NumFmt.v (C01, H_num_stable). *)
From Coq Require Import ZArith Lia Bool.
From PC Require Import Model.NumFmt.
Open Scope Z_scope.

Lemma dhe_spec num den : 0 <= num -> 0 < den ->
  let q := div_half_even num den in - den <= 2 * (num - q * den) <= den.
Proof.
  intros Hn Hd. unfold div_half_even.
  pose proof (Z.div_mod num den ltac:(lia)) as E. rewrite (Z.mul_comm den) in E. pose proof (Z.mod_pos_bound num den Hd) as B.
  set (q := num / den) in *. set (r := num mod den) in *. clearbody q r.
  destruct (2 * r ?= den) eqn:C.
  - apply Z.compare_eq in C. destruct (Z.even q); cbv beta iota zeta; lia.
  - rewrite Z.compare_lt_iff in C. cbv beta iota zeta. lia.
  - rewrite Z.compare_gt_iff in C. cbv beta iota zeta. lia.
Qed.

Lemma dhe_unique num den D : 0 <= num -> 0 < den ->
  - den < 2 * (num - D * den) < den -> div_half_even num den = D.
Proof.
  intros Hn Hd H. unfold div_half_even.
  pose proof (Z.div_mod num den ltac:(lia)) as E. rewrite (Z.mul_comm den) in E. pose proof (Z.mod_pos_bound num den Hd) as B.
  set (q := num / den) in *. set (r := num mod den) in *. clearbody q r.
  assert (D = q \/ D = q + 1) as [HD|HD] by nia.
  - subst D. assert (C : (2 * r ?= den) = Lt) by (apply Z.compare_lt_iff; lia). rewrite C. reflexivity.
  - subst D. assert (C : (2 * r ?= den) = Gt) by (apply Z.compare_gt_iff; lia). rewrite C. reflexivity.
Qed.
Lemma log2_D D : 1000000 <= D < 2000000 -> Z.log2 D = 19 \/ Z.log2 D = 20.
Proof.
  intro H. destruct (Z.lt_ge_cases D 1048576).
  - left. apply Z.log2_unique; [lia|]. change (2 ^ 19) with 524288. change (2 ^ (19 + 1)) with 1048576. lia.
  - right. apply Z.log2_unique; [lia|]. change (2 ^ 20) with 1048576. change (2 ^ (20 + 1)) with 2097152. lia.
Qed.

Lemma div_ge a b c : 0 < b -> c * b <= a -> c <= a / b.
Proof. intros. apply Z.div_le_lower_bound; lia. Qed.
Lemma div_lt a b c : 0 < b -> a < c * b -> a / b < c.
Proof. intros. apply Z.div_lt_upper_bound; lia. Qed.

Lemma round_bits_53 D : 1000000 <= D < 2000000 ->
  round_bits D 1000000 53 = (div_half_even (D * 2 ^ 52) 1000000, -52).
Proof.
  intro H. unfold round_bits. change (Z.log2 1000000) with 19. change (53 - 1) with 52.
  pose proof (dhe_spec (D * 2 ^ 52) 1000000 ltac:(lia) ltac:(lia)) as S. cbv zeta in S.
  set (M := div_half_even (D * 2 ^ 52) 1000000) in *.
  assert (HM : (M =? 2 ^ 53) = false) by (apply Z.eqb_neq; change (2 ^ 53) with 9007199254740992; change (2 ^ 52) with 4503599627370496 in S; lia).
  destruct (log2_D D H) as [L|L]; rewrite L.
  - change (19 - 19 - 52) with (-52). unfold scaled. change (0 <=? -52) with false. cbv iota. change (- -52) with 52.
    assert (A : (D * 2 ^ 52 / (1000000) <? 2 ^ 52) = false).
    { apply Z.ltb_ge. apply div_ge; lia. }
    assert (B : (2 ^ 53 <=? D * 2 ^ 52 / 1000000) = false).
    { apply Z.leb_gt. apply div_lt; [lia|]. change (2 ^ 53) with 9007199254740992. change (2 ^ 52) with 4503599627370496. lia. }
    rewrite A, B. change (0 <=? -52) with false. cbv iota. change (- -52) with 52. fold M. rewrite HM. reflexivity.
  - change (20 - 19 - 52) with (-51). unfold scaled. change (0 <=? -51) with false. cbv iota. change (- -51) with 51.
    assert (A : (D * 2 ^ 51 / (1000000) <? 2 ^ 52) = true).
    { apply Z.ltb_lt. apply div_lt; [lia|]. change (2 ^ 51) with 2251799813685248. change (2 ^ 52) with 4503599627370496. lia. }
    rewrite A. change (-51 - 1) with (-52). change (0 <=? -52) with false. cbv iota. change (- -52) with 52. fold M. rewrite HM. reflexivity.
Qed.

Lemma round_bits_24 M : 2 ^ 52 <= M < 2 ^ 53 - 2 ^ 28 ->
  round_bits M (2 ^ 52) 24 = (div_half_even (M * 2 ^ 23) (2 ^ 52), -23).
Proof.
  intro H. change (2 ^ 52) with 4503599627370496 in *. change (2 ^ 53) with 9007199254740992 in H.
  change (2 ^ 28) with 268435456 in H. change (2 ^ 23) with 8388608.
  unfold round_bits. change (Z.log2 4503599627370496) with 52. change (24 - 1) with 23.
  assert (L : Z.log2 M = 52).
  { apply Z.log2_unique; [lia|]. change (2 ^ 52) with 4503599627370496. change (2 ^ (52 + 1)) with 9007199254740992. lia. }
  rewrite L. change (52 - 52 - 23) with (-23). unfold scaled. change (0 <=? -23) with false. cbv iota.
  change (- -23) with 23. change (2 ^ 23) with 8388608. change (2 ^ 24) with 16777216.
  pose proof (dhe_spec (M * 8388608) 4503599627370496 ltac:(lia) ltac:(lia)) as S. cbv zeta in S.
  set (M24 := div_half_even (M * 8388608) 4503599627370496) in *.
  assert (A : (M * 8388608 / 4503599627370496 <? 8388608) = false) by (apply Z.ltb_ge; apply div_ge; lia).
  assert (B : (16777216 <=? M * 8388608 / 4503599627370496) = false) by (apply Z.leb_gt; apply div_lt; lia).
  rewrite A, B. change (0 <=? -23) with false. cbv iota. change (- -23) with 23. change (2 ^ 23) with 8388608.
  fold M24. assert (HM : (M24 =? 16777216) = false) by (apply Z.eqb_neq; lia). rewrite HM. reflexivity.
Qed.

Lemma find_k_step f m e k :
  find_k (S f) m e k = (let '(n, d) := frac m e (k + 1) in if n <? d then k else find_k f m e (k + 1)).
Proof. reflexivity. Qed.

(* '%.7g' of a binary32 in [1,2) that is within half a unit of the seventh digit of D*10^-6 *)
Lemma fmt7_recovers M D : 2 ^ 23 <= M < 2 ^ 24 -> 1000000 <= D < 10000000 ->
  - 2 ^ 23 < 2 * (M * 1000000 - D * 2 ^ 23) < 2 ^ 23 -> fmt7 M (-23) = (D, -6).
Proof.
  change (2 ^ 23) with 8388608. change (2 ^ 24) with 16777216. intros HM HD Hc.
  unfold fmt7. assert (Z0 : (M =? 0) = false) by (apply Z.eqb_neq; lia). rewrite Z0.
  assert (K : log10_floor M (-23) = 0).
  { unfold log10_floor. assert (L : Z.log2 M = 23).
    { apply Z.log2_unique; [lia|]. change (2 ^ 23) with 8388608. change (2 ^ (23 + 1)) with 16777216. lia. }
    rewrite L. change ((23 + -23) * 30102 / 100000 - 2) with (-2).
    rewrite find_k_step. unfold frac at 1. change (0 <=? -23) with false. cbv iota. change (-2 + 1) with (-1).
    change (0 <=? -1) with false. cbv iota. change (- -23) with 23. change (- -1) with 1. change (2 ^ 23) with 8388608. change (10 ^ 1) with 10.
    assert (A1 : (M * 10 <? 8388608) = false) by (apply Z.ltb_ge; lia). rewrite A1.
    rewrite find_k_step. unfold frac at 1. change (0 <=? -23) with false. cbv iota. change (-1 + 1) with 0.
    change (0 <=? 0) with true. cbv iota. change (- -23) with 23. change (2 ^ 23 * 10 ^ 0) with 8388608.
    assert (A2 : (M <? 8388608) = false) by (apply Z.ltb_ge; lia). rewrite A2.
    rewrite find_k_step. unfold frac at 1. change (0 <=? -23) with false. cbv iota. change (0 + 1) with 1.
    change (0 <=? 1) with true. cbv iota. change (- -23) with 23. change (2 ^ 23 * 10 ^ 1) with 83886080.
    assert (A3 : (M <? 83886080) = true) by (apply Z.ltb_lt; lia). rewrite A3. reflexivity. }
  rewrite K. unfold frac. change (0 <=? -23) with false. cbv iota. change (0 - 6) with (-6). change (0 <=? -6) with false. cbv iota.
  change (- -23) with 23. change (- -6) with 6. change (2 ^ 23) with 8388608. change (10 ^ 6) with 1000000.
  rewrite (dhe_unique (M * 1000000) 8388608 D) by lia.
  assert (E : (D =? 10000000) = false) by (apply Z.eqb_neq; lia). rewrite E. reflexivity.
Qed.

(* THE FINE-GRID LEMMA on [1,2): binary32 spacing 2^-23 is finer than the seven-digit decimal
   spacing 10^-6, so the decimal is recovered from its float *)
Theorem fine_grid_recovers_decimal_1_2 D : 1000000 <= D < 2000000 ->
  let '(M, E) := parse32 D (-6) in fmt7 M E = (D, -6).
Proof.
  intro H. unfold parse32. assert (Z0 : (D =? 0) = false) by (apply Z.eqb_neq; lia). rewrite Z0.
  change (0 <=? -6) with false. cbv iota. change (- -6) with 6. change (10 ^ 6) with 1000000.
  rewrite (round_bits_53 D H).
  pose proof (dhe_spec (D * 2 ^ 52) 1000000 ltac:(lia) ltac:(lia)) as S1. cbv zeta in S1.
  set (M53 := div_half_even (D * 2 ^ 52) 1000000) in *.
  change (0 <=? -52) with false. cbv iota. change (- -52) with 52.
  change (2 ^ 52) with 4503599627370496 in S1.
  assert (B53 : 2 ^ 52 <= M53 < 2 ^ 53 - 2 ^ 28).
  { change (2 ^ 52) with 4503599627370496. change (2 ^ 53) with 9007199254740992. change (2 ^ 28) with 268435456. lia. }
  rewrite (round_bits_24 M53 B53).
  pose proof (dhe_spec (M53 * 2 ^ 23) (2 ^ 52) ltac:(change (2 ^ 52) with 4503599627370496 in B53; lia) ltac:(reflexivity)) as S2. cbv zeta in S2.
  set (M24 := div_half_even (M53 * 2 ^ 23) (2 ^ 52)) in *.
  change (2 ^ 52) with 4503599627370496 in *. change (2 ^ 53) with 9007199254740992 in *. change (2 ^ 28) with 268435456 in *.
  change (2 ^ 23) with 8388608 in S2.
  apply fmt7_recovers; change (2 ^ 23) with 8388608; change (2 ^ 24) with 16777216; lia.
Qed.

(* hence parse32 o fmt7 is idempotent at every number whose seven digits lie in [1,2) *)
Theorem norm_idempotent_1_2 m e D : fmt7 m e = (D, -6) -> 1000000 <= D < 2000000 ->
  norm (fst (norm m e)) (snd (norm m e)) = norm m e.
Proof.
  intros F H. unfold norm at 2 3 4. rewrite F.
  pose proof (fine_grid_recovers_decimal_1_2 D H) as G.
  destruct (parse32 D (-6)) as [M E] eqn:P. simpl. unfold norm. rewrite G. exact P.
Qed.

(* '%.7g' of a binary32 in [2^-10, 10^-3): seven digits D * 10^-10, within half a unit *)
Lemma fmt7_coarse M : 2 ^ 23 <= M < 2 ^ 24 -> M * 1000 < 2 ^ 33 ->
  exists D, fmt7 M (-33) = (D, -10) /\ 9765625 <= D <= 9999999 /\
            - 2 ^ 33 <= 2 * (M * 10 ^ 10 - D * 2 ^ 33) <= 2 ^ 33.
Proof.
  change (2 ^ 23) with 8388608. change (2 ^ 24) with 16777216. change (2 ^ 33) with 8589934592.
  change (10 ^ 10) with 10000000000. intros HM Hlt.
  unfold fmt7. assert (Z0 : (M =? 0) = false) by (apply Z.eqb_neq; lia). rewrite Z0.
  assert (K : log10_floor M (-33) = -4).
  { unfold log10_floor. assert (L : Z.log2 M = 23).
    { apply Z.log2_unique; [lia|]. change (2 ^ 23) with 8388608. change (2 ^ (23 + 1)) with 16777216. lia. }
    rewrite L. change ((23 + -33) * 30102 / 100000 - 2) with (-6).
    rewrite find_k_step. unfold frac at 1. change (0 <=? -33) with false. cbv iota. change (-6 + 1) with (-5).
    change (0 <=? -5) with false. cbv iota. change (- -33) with 33. change (- -5) with 5. change (2 ^ 33) with 8589934592. change (10 ^ 5) with 100000.
    assert (A1 : (M * 100000 <? 8589934592) = false) by (apply Z.ltb_ge; lia). rewrite A1.
    rewrite find_k_step. unfold frac at 1. change (0 <=? -33) with false. cbv iota. change (-5 + 1) with (-4).
    change (0 <=? -4) with false. cbv iota. change (- -33) with 33. change (- -4) with 4. change (2 ^ 33) with 8589934592. change (10 ^ 4) with 10000.
    assert (A2 : (M * 10000 <? 8589934592) = false) by (apply Z.ltb_ge; lia). rewrite A2.
    rewrite find_k_step. unfold frac at 1. change (0 <=? -33) with false. cbv iota. change (-4 + 1) with (-3).
    change (0 <=? -3) with false. cbv iota. change (- -33) with 33. change (- -3) with 3. change (2 ^ 33) with 8589934592. change (10 ^ 3) with 1000.
    assert (A3 : (M * 1000 <? 8589934592) = true) by (apply Z.ltb_lt; lia). rewrite A3. reflexivity. }
  rewrite K. unfold frac. change (0 <=? -33) with false. cbv iota. change (-4 - 6) with (-10). change (0 <=? -10) with false. cbv iota.
  change (- -33) with 33. change (- -10) with 10. change (2 ^ 33) with 8589934592. change (10 ^ 10) with 10000000000.
  pose proof (dhe_spec (M * 10000000000) 8589934592 ltac:(lia) ltac:(lia)) as S. cbv zeta in S.
  set (D := div_half_even (M * 10000000000) 8589934592) in *.
  assert (E : (D =? 10000000) = false) by (apply Z.eqb_neq; lia). rewrite E.
  exists D. change (-4 - 6) with (-10). split; [reflexivity|]. split; lia.
Qed.

Lemma round_bits_53_coarse D : 9765625 <= D <= 9999999 ->
  round_bits D (10 ^ 10) 53 = (div_half_even (D * 2 ^ 62) (10 ^ 10), -62).
Proof.
  intro H. change (10 ^ 10) with 10000000000. unfold round_bits. change (Z.log2 10000000000) with 33. change (53 - 1) with 52.
  assert (L : Z.log2 D = 23).
  { apply Z.log2_unique; [lia|]. change (2 ^ 23) with 8388608. change (2 ^ (23 + 1)) with 16777216. lia. }
  rewrite L. change (23 - 33 - 52) with (-62). unfold scaled. change (0 <=? -62) with false. cbv iota. change (- -62) with 62.
  change (2 ^ 62) with 4611686018427387904. change (2 ^ 52) with 4503599627370496. change (2 ^ 53) with 9007199254740992.
  pose proof (dhe_spec (D * 4611686018427387904) 10000000000 ltac:(lia) ltac:(lia)) as S. cbv zeta in S.
  set (M := div_half_even (D * 4611686018427387904) 10000000000) in *.
  assert (A : (D * 4611686018427387904 / 10000000000 <? 4503599627370496) = false) by (apply Z.ltb_ge; apply div_ge; lia).
  assert (B : (9007199254740992 <=? D * 4611686018427387904 / 10000000000) = false) by (apply Z.leb_gt; apply div_lt; lia).
  rewrite A, B. change (0 <=? -62) with false. cbv iota. change (- -62) with 62. change (2 ^ 62) with 4611686018427387904. fold M.
  assert (HM : (M =? 9007199254740992) = false) by (apply Z.eqb_neq; lia). rewrite HM. reflexivity.
Qed.

Lemma round_bits_24_coarse M53 : 2 ^ 52 <= M53 < 2 ^ 53 - 2 ^ 28 ->
  round_bits M53 (2 ^ 62) 24 = (div_half_even (M53 * 2 ^ 33) (2 ^ 62), -33).
Proof.
  intro H. change (2 ^ 52) with 4503599627370496 in *. change (2 ^ 53) with 9007199254740992 in H.
  change (2 ^ 28) with 268435456 in H. change (2 ^ 62) with 4611686018427387904. change (2 ^ 33) with 8589934592.
  unfold round_bits. change (Z.log2 4611686018427387904) with 62. change (24 - 1) with 23.
  assert (L : Z.log2 M53 = 52).
  { apply Z.log2_unique; [lia|]. change (2 ^ 52) with 4503599627370496. change (2 ^ (52 + 1)) with 9007199254740992. lia. }
  rewrite L. change (52 - 62 - 23) with (-33). unfold scaled. change (0 <=? -33) with false. cbv iota.
  change (- -33) with 33. change (2 ^ 33) with 8589934592. change (2 ^ 23) with 8388608. change (2 ^ 24) with 16777216.
  pose proof (dhe_spec (M53 * 8589934592) 4611686018427387904 ltac:(lia) ltac:(lia)) as S. cbv zeta in S.
  set (M24 := div_half_even (M53 * 8589934592) 4611686018427387904) in *.
  assert (A : (M53 * 8589934592 / 4611686018427387904 <? 8388608) = false) by (apply Z.ltb_ge; apply div_ge; lia).
  assert (B : (16777216 <=? M53 * 8589934592 / 4611686018427387904) = false) by (apply Z.leb_gt; apply div_lt; lia).
  rewrite A, B. change (0 <=? -33) with false. cbv iota. change (- -33) with 33. change (2 ^ 33) with 8589934592.
  fold M24. assert (HM : (M24 =? 16777216) = false) by (apply Z.eqb_neq; lia). rewrite HM. reflexivity.
Qed.

(* THE COARSE-GRID LEMMA on [2^-10, 10^-3): binary32 spacing 2^-33 is coarser than the
   seven-digit spacing 10^-10, so the float is recovered from its seven digits *)
Theorem coarse_grid_recovers_float M : 2 ^ 23 <= M < 2 ^ 24 -> M * 1000 < 2 ^ 33 ->
  let '(D, q) := fmt7 M (-33) in parse32 D q = (M, -33).
Proof.
  intros HM Hlt. destruct (fmt7_coarse M HM Hlt) as [D [F [HD S0]]]. rewrite F.
  unfold parse32. assert (Z0 : (D =? 0) = false) by (apply Z.eqb_neq; lia). rewrite Z0.
  change (0 <=? -10) with false. cbv iota. change (- -10) with 10.
  rewrite (round_bits_53_coarse D HD).
  change (10 ^ 10) with 10000000000 in *. change (2 ^ 33) with 8589934592 in *. change (2 ^ 62) with 4611686018427387904.
  pose proof (dhe_spec (D * 4611686018427387904) 10000000000 ltac:(lia) ltac:(lia)) as S1. cbv zeta in S1.
  set (M53 := div_half_even (D * 4611686018427387904) 10000000000) in *.
  change (0 <=? -62) with false. cbv iota. change (- -62) with 62. change (2 ^ 62) with 4611686018427387904.
  assert (B53 : 2 ^ 52 <= M53 < 2 ^ 53 - 2 ^ 28).
  { change (2 ^ 52) with 4503599627370496. change (2 ^ 53) with 9007199254740992. change (2 ^ 28) with 268435456. lia. }
  pose proof (round_bits_24_coarse M53 B53) as R. change (2 ^ 62) with 4611686018427387904 in R. change (2 ^ 33) with 8589934592 in R.
  rewrite R.
  change (2 ^ 23) with 8388608 in HM. change (2 ^ 24) with 16777216 in HM.
  change (2 ^ 52) with 4503599627370496 in B53. change (2 ^ 53) with 9007199254740992 in B53. change (2 ^ 28) with 268435456 in B53.
  rewrite (dhe_unique (M53 * 8589934592) 4611686018427387904 M) by lia. reflexivity.
Qed.

(* hence parse32 o fmt7 is idempotent at every number that loads as a binary32 of that binade *)
Theorem norm_idempotent_coarse m e M : norm m e = (M, -33) -> 2 ^ 23 <= M < 2 ^ 24 -> M * 1000 < 2 ^ 33 ->
  norm (fst (norm m e)) (snd (norm m e)) = norm m e.
Proof.
  intros N HM Hlt. rewrite N. simpl. unfold norm.
  pose proof (coarse_grid_recovers_float M HM Hlt) as G. destruct (fmt7 M (-33)) as [D q]. exact G.
Qed.
