(* C04 - facts about the constructor defaults of Model/CtorDefaults.v: what they guarantee of the
   emitted tree and that they preserve well-formedness. *)
From Coq Require Import List Bool ZArith NArith Lia.
From PC Require Import Base.Atoms Base.Xml Model.SchemaSyntax Model.Schema Model.Bookkeeping Model.EmitDoc Model.CtorDefaults.
Import ListNotations.

Section Facts.
  Variable lex : atom -> N.
  Variable zero one : tok.
  Variable fmt0 : toks.
  Hypothesis Hzero : atom_ok lex SFloat (vtok_of_tok zero) = true.
  Hypothesis Hone : atom_ok lex SFloat (vtok_of_tok one) = true.

  Lemma pad_length : forall l, length l <= 4 -> length (pad_colour zero one l) = 4.
  Proof. intros l H. unfold pad_colour. rewrite !app_length, !repeat_length. lia. Qed.

  Lemma forallb_repeat : forall (f : vtok -> bool) t n, f (vtok_of_tok t) = true -> forallb f (map vtok_of_tok (repeat t n)) = true.
  Proof. induction n; simpl; intros; auto. rewrite H. auto. Qed.

  (* a colour of at most four numbers is written as four numbers *)
  Theorem colour_padded_ok : forall l, length l <= 4 -> forallb (atom_ok lex SFloat) (map vtok_of_tok l) = true ->
    floats lex 4 (pad_colour zero one l) = true.
  Proof.
    intros l Hl Hf. unfold floats, tval. cbn [val_ok]. rewrite map_length, pad_length by exact Hl.
    cbn [len_ok Nat.leb andb]. unfold pad_colour. rewrite !map_app, !forallb_app, Hf.
    rewrite !forallb_repeat by assumption. reflexivity.
  Qed.

  (* <transparency> is always written, with the default of the opaque mode *)
  Theorem transparency_always_written : forall id sid ps sh em am di sp shi rf rfy tr try_ ior z ds,
    exists v, e_transparency (ctor_effect zero one id sid ps sh em am di sp shi rf rfy tr try_ ior z ds) = Some v /\
              In (emit_prop a_transparency [] v)
                 (xkids (emit_shader (ctor_effect zero one id sid ps sh em am di sp shi rf rfy tr try_ ior z ds))).
  Proof.
    intros. unfold ctor_effect, default_transparency. cbn [e_transparency].
    destruct try_ as [v|]; eexists; (split; [reflexivity|]); unfold emit_shader; cbn [xkids el e_transparency];
      repeat (apply in_or_app; first [left; left; reflexivity | right]); apply in_or_app; left; left; reflexivity.
  Qed.

  Theorem transparency_default_ok : forall z o, oall (float_ok lex) o = true ->
    oall (float_ok lex) (default_transparency zero one z o) = true.
  Proof.
    intros z [v|] H; [exact H|]. destruct z; [exact Hzero | exact Hone].
  Qed.

  (* a node without a name is written with name = id *)
  Theorem node_name_default : forall id ts kids,
    xattr a_name (emit_snode (ctor_node id None ts kids)) = Some id /\
    (is_ncname lex id = true -> is_ncname lex (node_name id None) = true).
  Proof. intros. split; [reflexivity | auto]. Qed.

  (* a surface without a format is written with the default format, behind <init_from> *)
  Theorem surface_format_default : forall sid img,
    exists s, xkids (emit_eparam (ctor_surface fmt0 sid img None)) = [s] /\ xkids s = [txt a_init_from img; txt a_format fmt0].
  Proof. intros. eexists. split; reflexivity. Qed.
End Facts.
