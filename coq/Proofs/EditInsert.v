(* C04 - first step towards "valid loaded document + one edit stays valid": the placement rule
   of util._correctValInNode (a child that has to be created goes behind the last sibling named in
   [after], in front of everything when there is none) applied to a <contributor>: setting one
   absent field yields exactly the element the writer model emits for the updated contributor,
   hence an element of the emit grammar. *)
From Coq Require Import List Bool ZArith NArith Lia.
From PC Require Import Base.Atoms Base.Xml Model.SchemaSyntax Model.Schema Model.Bookkeeping Model.EmitGrammar Model.EmitDoc
                       Proofs.ConfTools Proofs.EmitConf.
Import ListNotations.

(* position: one past the last child whose tag is in [after] *)
Fixpoint last_after (after : list atom) (kids : list xml) (i loc : nat) : nat :=
  match kids with
  | [] => loc
  | k :: r => last_after after r (S i) (if existsb (N.eqb (xtag k)) after then S i else loc)
  end.
Fixpoint insert_at {A} (n : nat) (x : A) (l : list A) : list A :=
  match n, l with
  | O, _ => x :: l
  | S m, a :: r => a :: insert_at m x r
  | S _, [] => [x]
  end.
Definition place (after : list atom) (x : xml) (kids : list xml) : list xml :=
  insert_at (last_after after kids 0 0) x kids.

Definition order := [a_author; a_authoring_tool; a_comments; a_copyright; a_source_data].

Inductive cfield := FAuthor | FTool | FComments | FCopyright | FSource.
Definition field_tag (f : cfield) : atom :=
  match f with FAuthor => a_author | FTool => a_authoring_tool | FComments => a_comments | FCopyright => a_copyright | FSource => a_source_data end.
Definition field_after (f : cfield) : list atom :=
  match f with FAuthor => firstn 0 order | FTool => firstn 1 order | FComments => firstn 2 order
             | FCopyright => firstn 3 order | FSource => firstn 4 order end.
Definition get_field (f : cfield) (c : contributor) : option toks :=
  match f with FAuthor => c_author c | FTool => c_tool c | FComments => c_comments c | FCopyright => c_copyright c | FSource => c_source_data c end.
Definition set_field (f : cfield) (v : toks) (c : contributor) : contributor :=
  match f with
  | FAuthor => Contributor (Some v) (c_tool c) (c_comments c) (c_copyright c) (c_source_data c)
  | FTool => Contributor (c_author c) (Some v) (c_comments c) (c_copyright c) (c_source_data c)
  | FComments => Contributor (c_author c) (c_tool c) (Some v) (c_copyright c) (c_source_data c)
  | FCopyright => Contributor (c_author c) (c_tool c) (c_comments c) (Some v) (c_source_data c)
  | FSource => Contributor (c_author c) (c_tool c) (c_comments c) (c_copyright c) (Some v)
  end.

(* Contributor.save on a contributor whose field f was absent and is now v *)
Theorem placed_is_emitted : forall f v c, get_field f c = None ->
  el a_contributor [] None (place (field_after f) (txt (field_tag f) v) (xkids (emit_contributor c))) =
  emit_contributor (set_field f v c).
Proof.
  intros f v c H. destruct c as [a t m r s]. destruct f; cbn in H; subst; repeat match goal with o : option toks |- _ => destruct o end; reflexivity.
Qed.

Theorem contributor_insert_conforms : forall lex f v c,
  wf_contributor lex c = true -> get_field f c = None ->
  (f = FSource -> tval lex (SLex lx_anyURI) v = true) ->
  confh emit_grammar lex rContributor
        (el a_contributor [] None (place (field_after f) (txt (field_tag f) v) (xkids (emit_contributor c)))) = true.
Proof.
  intros lex f v c Hw Hn Hv. rewrite placed_is_emitted by exact Hn. apply conf_contributor.
  unfold wf_contributor in *. destruct f; cbn [set_field c_source_data]; auto.
Qed.
