(* Lemmas about Model/Errors.v (statements of the property are in Properties/C08.v). *)
From Coq Require Import List Bool Lia.
From PC Require Import Base.Outcome Base.Libs Gen.Params Model.Errors.
Import ListNotations.

(* ---------------------------------------------------------------- the generated hierarchy *)

Lemma subclass_refl c : subclass c c = true.
Proof. unfold subclass. simpl. rewrite dcls_eqb_refl. reflexivity. Qed.

(* every class of the family derives from DaeError (a fact about the GENERATED dcls_base) *)
Lemma all_below_DaeError c : subclass c K_DaeError = true.
Proof. destruct c; vm_compute; reflexivity. Qed.

Definition leaf (c : dcls) : Prop := c <> K_DaeError.

(* two different classes other than DaeError are unrelated *)
Lemma leaves_unrelated a b : leaf a -> leaf b -> a <> b -> subclass a b = false.
Proof.
  unfold leaf. intros Ha Hb Hab.
  destruct a, b; try (exfalso; congruence); vm_compute; reflexivity.
Qed.

(* DaeError is not an instance of any of its subclasses *)
Lemma base_not_below_leaf b : leaf b -> subclass K_DaeError b = false.
Proof. unfold leaf. intro Hb. destruct b; try (exfalso; congruence); vm_compute; reflexivity. Qed.

Lemma is_dae_gen_agrees e : is_dae_gen e = is_dae e.
Proof. destruct e; vm_compute; reflexivity. Qed.

Lemma class_of_some_iff e : (exists c, class_of e = Some c) <-> is_dae e = true.
Proof.
  destruct e; simpl; split; intro H; try reflexivity; try discriminate;
    try (destruct H as [? ?]; discriminate); eexists; reflexivity.
Qed.

(* ---------------------------------------------------------------- mask semantics *)

Lemma masked_app mk ms e : masked (mk ++ ms) e = masked mk e || masked ms e.
Proof. unfold masked. apply existsb_app. Qed.

Lemma masked_nil e : masked [] e = false.
Proof. reflexivity. Qed.

Lemma masked_exact e c : class_of e = Some c -> masked [MCls c] e = true.
Proof. intro H. unfold masked, entry_matches. simpl. rewrite H, subclass_refl. reflexivity. Qed.

Lemma masked_base e c : class_of e = Some c -> masked [MCls K_DaeError] e = true.
Proof. intro H. unfold masked, entry_matches. simpl. rewrite H, all_below_DaeError. reflexivity. Qed.

Lemma masked_unrelated e c k :
  class_of e = Some c -> leaf c -> leaf k -> c <> k -> masked [MCls k] e = false.
Proof.
  intros H Hc Hk Hne. unfold masked, entry_matches. simpl. rewrite H.
  rewrite (leaves_unrelated c k Hc Hk Hne). reflexivity.
Qed.

Lemma masked_usersub e p : masked [MUserSub p] e = false.
Proof. unfold masked, entry_matches. simpl. destruct (class_of e); reflexivity. Qed.

Lemma masked_builtin e : masked [MBuiltin] e = false.
Proof. unfold masked, entry_matches. simpl. destruct (class_of e); reflexivity. Qed.

Lemma masked_not_dae mk e : class_of e = None -> masked mk e = false.
Proof.
  intro H. unfold masked. induction mk as [|m mk IH]; simpl; [reflexivity|].
  rewrite IH. unfold entry_matches. rewrite H. destruct m; reflexivity.
Qed.

Lemma masked_in mk e : masked mk e = true <-> exists m, In m mk /\ entry_matches e m = true.
Proof. unfold masked. apply existsb_exists. Qed.

Lemma run_ignore_app mk a b : run_ignore mk (a ++ b) = run_ignore (run_ignore mk a) b.
Proof. unfold run_ignore. apply fold_left_app. Qed.

(* ignoreErrors(None) after any history leaves the empty mask: strictness is restored *)
Lemma clear_restores mk ops e errs :
  run_ignore mk (ops ++ [IClear]) = [] /\
  handle (run_ignore mk (ops ++ [IClear])) errs e = (errs ++ [e], Some e).
Proof.
  rewrite run_ignore_app. simpl. split; reflexivity.
Qed.

Lemma add_only_grows mk ms e : masked mk e = true -> masked (ignore_errors mk (IAdd ms)) e = true.
Proof. intro H. simpl. rewrite masked_app, H. reflexivity. Qed.

(* ---------------------------------------------------------------- catch *)

Lemma catch_is_dae e e' : catch e = Some e' -> is_dae e' = true.
Proof.
  unfold catch. rewrite is_dae_gen_agrees.
  destruct (is_dae e) eqn:Hd.
  - intro H. inversion H. subst. exact Hd.
  - destruct (is_rawload e); intro H; inversion H. reflexivity.
Qed.

Lemma catch_dae e : is_dae e = true -> catch e = Some e.
Proof. intro H. unfold catch. rewrite is_dae_gen_agrees, H. reflexivity. Qed.

Lemma catch_raw e : is_rawload e = true -> catch e = Some DaeMalformed.
Proof. intro H. destruct e; try discriminate; reflexivity. Qed.

(* ---------------------------------------------------------------- the library loop *)

Section LoadLib.
  Context {Item Val : Type}.
  Variable load_item : Item -> outcome Val.
  Variable mk : mask.

  Notation load_lib := (load_lib load_item mk).
  Notation successes := (successes load_item).
  Notation failures := (failures load_item).

  Lemma successes_cons it r :
    successes (it :: r) = (match load_item it with Ok v => [v] | Raise _ => [] end) ++ successes r.
  Proof. reflexivity. Qed.

  Lemma failures_cons it r :
    failures (it :: r) =
    (match load_item it with
     | Ok _ => []
     | Raise e => match catch e with Some e' => [e'] | None => [e] end
     end) ++ failures r.
  Proof. reflexivity. Qed.

  (* completed load: exactly the successes, exactly the (converted) failures, all masked *)
  Lemma load_lib_complete : forall items vals errs,
    catchable_all load_item items ->
    forall vals' errs',
    load_lib items vals errs = (vals', errs', None) <->
    (forallb (masked mk) (failures items) = true /\
     vals' = vals ++ successes items /\ errs' = errs ++ failures items).
  Proof.
    induction items as [|it r IH]; intros vals errs Hc vals' errs'.
    - simpl. rewrite !app_nil_r. split.
      + intro H. inversion H. auto.
      + intros [_ [H1 H2]]. subst. reflexivity.
    - assert (Hc' : catchable_all load_item r).
      { intros it0 e Hin. apply Hc. right. exact Hin. }
      simpl load_lib. rewrite successes_cons, failures_cons.
      destruct (load_item it) as [v|e] eqn:Hit.
      + simpl app. rewrite (IH (vals ++ [v]) errs Hc' vals' errs'). rewrite <- app_assoc. simpl. tauto.
      + destruct (catch e) as [e'|] eqn:Hce.
        * unfold handle. destruct (masked mk e') eqn:Hm.
          -- rewrite (IH vals (errs ++ [e']) Hc' vals' errs'). simpl. rewrite Hm.
             rewrite <- app_assoc. simpl. tauto.
          -- split.
             ++ intro H. discriminate.
             ++ intros [H _]. simpl in H. rewrite Hm in H. discriminate.
        * exfalso. apply (Hc it e (or_introl eq_refl) Hit Hce).
  Qed.

  (* aborted load: decomposition around the first unmasked failure *)
  Lemma load_lib_abort : forall items vals errs vals' errs' x,
    load_lib items vals errs = (vals', errs', Some x) ->
    exists pre it post e,
      items = pre ++ it :: post /\ load_item it = Raise e /\
      forallb (masked mk) (failures pre) = true /\
      vals' = vals ++ successes pre /\
      ((catch e = Some x /\ masked mk x = false /\ errs' = errs ++ failures pre ++ [x]) \/
       (catch e = None /\ x = e /\ errs' = errs ++ failures pre)).
  Proof.
    induction items as [|it r IH]; intros vals errs vals' errs' x H.
    - simpl in H. discriminate.
    - simpl in H. destruct (load_item it) as [v|e] eqn:Hit.
      + destruct (IH _ _ _ _ _ H) as [pre [it' [post [e' [E1 [E2 [E3 [E4 E5]]]]]]]].
        exists (it :: pre), it', post, e'. rewrite successes_cons, failures_cons, Hit.
        simpl. split; [f_equal; exact E1|]. split; [exact E2|]. split; [exact E3|].
        split; [rewrite E4, <- app_assoc; reflexivity|]. exact E5.
      + destruct (catch e) as [e'|] eqn:Hce.
        * unfold handle in H. destruct (masked mk e') eqn:Hm.
          -- destruct (IH _ _ _ _ _ H) as [pre [it' [post [e2 [E1 [E2 [E3 [E4 E5]]]]]]]].
             exists (it :: pre), it', post, e2. rewrite successes_cons, failures_cons, Hit, Hce.
             simpl. rewrite Hm. split; [f_equal; exact E1|]. split; [exact E2|]. split; [exact E3|].
             split; [exact E4|].
             destruct E5 as [[A [B C]]|[A [B C]]]; [left|right]; repeat split; auto;
               rewrite C, <- !app_assoc; reflexivity.
          -- inversion H. subst. exists [], it, r, e. simpl. rewrite !app_nil_r.
             split; [reflexivity|]. split; [exact Hit|]. split; [reflexivity|]. split; [reflexivity|].
             left. auto.
        * inversion H. subst. exists [], it, r, x. simpl. rewrite !app_nil_r.
          split; [reflexivity|]. split; [exact Hit|]. split; [reflexivity|]. split; [reflexivity|].
          right. auto.
  Qed.

  (* whatever happens, only values produced by items are appended, in item order *)
  Lemma load_lib_vals_prefix : forall items vals errs vals' errs' ab,
    load_lib items vals errs = (vals', errs', ab) ->
    exists pre, (exists post, items = pre ++ post) /\ vals' = vals ++ successes pre.
  Proof.
    induction items as [|it r IH]; intros vals errs vals' errs' ab H.
    - simpl in H. inversion H. exists []. split; [exists []; reflexivity|]. simpl. rewrite app_nil_r. reflexivity.
    - simpl in H. destruct (load_item it) as [v|e] eqn:Hit.
      + destruct (IH _ _ _ _ _ H) as [pre [[post E1] E2]].
        exists (it :: pre). split; [exists post; simpl; f_equal; exact E1|].
        rewrite successes_cons, Hit, E2, <- app_assoc. reflexivity.
      + destruct (catch e) as [e'|] eqn:Hce.
        * unfold handle in H. destruct (masked mk e') eqn:Hm.
          -- destruct (IH _ _ _ _ _ H) as [pre [[post E1] E2]].
             exists (it :: pre). split; [exists post; simpl; f_equal; exact E1|].
             rewrite successes_cons, Hit. simpl. exact E2.
          -- inversion H. subst. exists []. split; [exists (it :: r); reflexivity|].
             simpl. rewrite app_nil_r. reflexivity.
        * inversion H. subst. exists []. split; [exists (it :: r); reflexivity|].
          simpl. rewrite app_nil_r. reflexivity.
  Qed.

  Lemma successes_length items : length (successes items) <= length items.
  Proof.
    induction items as [|it r IH]; simpl; [lia|].
    rewrite app_length. destruct (load_item it); simpl; lia.
  Qed.

  Lemma successes_in items v :
    In v (successes items) <-> exists it, In it items /\ load_item it = Ok v.
  Proof.
    unfold successes. rewrite in_flat_map. split.
    - intros [it [Hin Hv]]. exists it. split; [exact Hin|].
      destruct (load_item it) as [w|e]; simpl in Hv; [|contradiction].
      destruct Hv as [Hv|[]]. subst. reflexivity.
    - intros [it [Hin Hv]]. exists it. split; [exact Hin|]. rewrite Hv. left. reflexivity.
  Qed.

  Lemma successes_app a b : successes (a ++ b) = successes a ++ successes b.
  Proof. unfold successes. apply flat_map_app. Qed.

  (* nothing is invented: at most one value per item, each produced by an item *)
  Lemma load_lib_nothing_invented : forall items vals' errs' ab,
    load_lib items [] [] = (vals', errs', ab) ->
    length vals' <= length items /\
    forall v, In v vals' -> exists it, In it items /\ load_item it = Ok v.
  Proof.
    intros items vals' errs' ab H.
    destruct (load_lib_vals_prefix _ _ _ _ _ _ H) as [pre [[post E1] E2]].
    simpl in E2. subst vals'. split.
    - pose proof (successes_length pre). subst items. rewrite app_length. lia.
    - intros v Hv. apply successes_in in Hv. destruct Hv as [it [Hin Hv]].
      exists it. split; [subst items; apply in_or_app; left; exact Hin|exact Hv].
  Qed.

  (* the escaping exception is a DaeError whenever the loaders raise only DaeErrors and the
     built-in parsing exceptions *)
  Lemma load_lib_only_dae : forall items vals errs vals' errs' x,
    catchable_all load_item items ->
    load_lib items vals errs = (vals', errs', Some x) -> is_dae x = true.
  Proof.
    intros items vals errs vals' errs' x Hc H.
    destruct (load_lib_abort _ _ _ _ _ _ H) as [pre [it [post [e [E1 [E2 [_ [_ E5]]]]]]]].
    destruct E5 as [[A _]|[A _]].
    - exact (catch_is_dae _ _ A).
    - exfalso. apply (Hc it e); [subst items; apply in_or_app; right; left; reflexivity|exact E2|exact A].
  Qed.

  (* every recorded error is a DaeError *)
  Lemma failures_dae items : catchable_all load_item items -> Forall (fun e => is_dae e = true) (failures items).
  Proof.
    induction items as [|it r IH]; intro Hc; [constructor|].
    rewrite failures_cons. apply Forall_app. split.
    - destruct (load_item it) as [v|e] eqn:Hit; [constructor|].
      destruct (catch e) as [e'|] eqn:Hce.
      + constructor; [exact (catch_is_dae _ _ Hce)|constructor].
      + exfalso. apply (Hc it e (or_introl eq_refl) Hit Hce).
    - apply IH. intros it0 e Hin. apply Hc. right. exact Hin.
  Qed.
End LoadLib.

(* two loaders agreeing on an item give that item the same place in both results *)
Lemma containment_item {Item Val} (f f' : Item -> outcome Val) mk (items items' : list Item)
      vals errs vals' errs' :
  catchable_all f items -> catchable_all f' items' ->
  load_lib f mk items [] [] = (vals, errs, None) ->
  load_lib f' mk items' [] [] = (vals', errs', None) ->
  forall it v, In it items -> In it items' -> f it = Ok v -> f' it = Ok v ->
  In v vals /\ In v vals'.
Proof.
  intros Hc Hc' H H' it v Hin Hin' Hv Hv'.
  apply (load_lib_complete f mk items [] [] Hc) in H. destruct H as [_ [E _]].
  apply (load_lib_complete f' mk items' [] [] Hc') in H'. destruct H' as [_ [E' _]].
  simpl in E, E'. subst. split; apply successes_in; exists it; auto.
Qed.

(* ---------------------------------------------------------------- the child loop *)

Section LoadChildren.
  Context {Child Val : Type}.
  Variable load_child : Child -> cres Val.
  Variable mk : mask.
  Notation load_children := (load_children load_child mk).

  Lemma load_children_done : forall cs vals errs vals' errs',
    (forall c e, In c cs -> load_child c = CRaise e -> catch e <> None) ->
    load_children cs vals errs = (vals', errs', SDone) <->
    ((forall c, In c cs -> load_child c <> CDefer) /\
     forallb (masked mk) (child_failures load_child cs) = true /\
     vals' = vals ++ child_successes load_child cs /\
     errs' = errs ++ child_failures load_child cs).
  Proof.
    induction cs as [|c r IH]; intros vals errs vals' errs' Hc.
    - simpl. rewrite !app_nil_r. split.
      + intro H. inversion H. repeat split; auto.
      + intros [_ [_ [H1 H2]]]. subst. reflexivity.
    - assert (Hc' : forall c0 e, In c0 r -> load_child c0 = CRaise e -> catch e <> None).
      { intros c0 e Hin. apply Hc. right. exact Hin. }
      simpl load_children. unfold child_successes, child_failures. simpl flat_map.
      fold (child_successes load_child r). fold (child_failures load_child r).
      destruct (load_child c) as [v|e|] eqn:Hl.
      + rewrite (IH (vals ++ [v]) errs vals' errs' Hc'). simpl. rewrite <- app_assoc. simpl.
        split.
        * intros [A [B [C D]]]. split; [|split; [exact B|split; [exact C|exact D]]].
          intros c0 [E|E]; [subst c0; rewrite Hl; discriminate|apply A; exact E].
        * intros [A [B [C D]]]. split; [|split; [exact B|split; [exact C|exact D]]].
          intros c0 Hin. apply A. right. exact Hin.
      + destruct (catch e) as [e'|] eqn:Hce.
        * unfold handle. destruct (masked mk e') eqn:Hm.
          -- rewrite (IH vals (errs ++ [e']) vals' errs' Hc'). simpl. rewrite Hm. rewrite <- app_assoc. simpl.
             split.
             ++ intros [A [B [C D]]]. split; [|split; [exact B|split; [exact C|exact D]]].
                intros c0 [E|E]; [subst c0; rewrite Hl; discriminate|apply A; exact E].
             ++ intros [A [B [C D]]]. split; [|split; [exact B|split; [exact C|exact D]]].
                intros c0 Hin. apply A. right. exact Hin.
          -- split; [intro H; discriminate|].
             intros [_ [B _]]. simpl in B. rewrite Hm in B. discriminate.
        * exfalso. apply (Hc c e (or_introl eq_refl) Hl Hce).
      + split; [intro H; discriminate|].
        intros [A _]. exfalso. apply (A c (or_introl eq_refl)). exact Hl.
  Qed.
End LoadChildren.
