(* Lemmas for the state-based histories and the concrete queries of Model/PurityQueries.v. *)
From Coq Require Import List Bool ZArith NArith.
From PC Require Import Base.Outcome Base.Py Base.Mat Gen.Transforms Model.Strips Model.Triangulate
  Model.IndexedList Model.Traverse Model.PurityQueries.
Import ListNotations.

(* ---- the general argument, for any state with an observable projection *)
Section StateFootprint.
  Variables St Obs Query Res Out : Type.
  Variable obs : St -> Obs.
  Variable exec : Query -> St -> St * Res.
  Variable save : St -> St * Out.
  Variable coherent : St -> Prop.

  Hypothesis frame : forall q s, obs (fst (exec q s)) = obs s.
  Hypothesis result_reads_observable :
    forall q s s', coherent s -> coherent s' -> obs s = obs s' -> snd (exec q s) = snd (exec q s').
  Hypothesis exec_coherent : forall q s, coherent s -> coherent (fst (exec q s)).
  Hypothesis save_reads_observable :
    forall s s', obs s = obs s' -> obs (fst (save s)) = obs (fst (save s')) /\ snd (save s) = snd (save s').
  Hypothesis save_coherent : forall s, coherent s -> coherent (fst (save s)).

  Lemma s_history_gen : forall ops s s', obs s = obs s' ->
    obs (fst (srun St Query Res Out exec save s ops)) =
    obs (fst (srun St Query Res Out exec save s' (saves_only_s Query ops))) /\
    snd (srun St Query Res Out exec save s ops) =
    snd (srun St Query Res Out exec save s' (saves_only_s Query ops)).
  Proof.
    induction ops as [|o r IH]; intros s s' Heq; simpl.
    - split; [exact Heq | reflexivity].
    - destruct o as [q|]; simpl.
      + apply IH. rewrite frame. exact Heq.
      + destruct (save s) as [s1 v] eqn:E1. destruct (save s') as [s1' v'] eqn:E1'.
        pose proof (save_reads_observable s s' Heq) as [Ho Hv].
        rewrite E1, E1' in Ho, Hv. simpl in Ho, Hv. subst v'.
        specialize (IH s1 s1' Ho).
        destruct (srun St Query Res Out exec save s1 r) as [s2 out].
        destruct (srun St Query Res Out exec save s1' (saves_only_s Query r)) as [s2' out'].
        simpl in *. destruct IH as [A B]. split; [exact A | f_equal; exact B].
  Qed.

  Lemma s_run_coherent : forall ops s, coherent s -> coherent (fst (srun St Query Res Out exec save s ops)).
  Proof.
    induction ops as [|o r IH]; intros s Hc; simpl; [exact Hc|].
    destruct o as [q|]; simpl.
    - apply IH. apply exec_coherent. exact Hc.
    - destruct (save s) as [s1 v] eqn:E1.
      pose proof (save_coherent s Hc) as H. rewrite E1 in H. simpl in H.
      specialize (IH s1 H). destruct (srun St Query Res Out exec save s1 r). exact IH.
  Qed.

  Lemma s_repeatable : forall q s, coherent s -> snd (exec q (fst (exec q s))) = snd (exec q s).
  Proof.
    intros q s Hc. apply result_reads_observable; [apply exec_coherent; exact Hc | exact Hc | apply frame].
  Qed.

  Lemma s_vs_twin : forall ops q s, coherent s ->
    snd (exec q (fst (srun St Query Res Out exec save s ops))) =
    snd (exec q (fst (srun St Query Res Out exec save s (saves_only_s Query ops)))).
  Proof.
    intros ops q s Hc. apply result_reads_observable.
    - apply s_run_coherent. exact Hc.
    - apply s_run_coherent. exact Hc.
    - apply (proj1 (s_history_gen ops s s eq_refl)).
  Qed.
End StateFootprint.

(* ---- the concrete queries meet the discipline: proved, no hypothesis *)
Section ConcreteProofs.
  Variable R : Type.
  Variable O : ops R.

  Ltac cases_q s :=
    try (destruct (c_tri s); [|destruct (triangleset (d_vcounts R s) (d_rows R s))]);
    try (destruct (c_img s)).

  (* writes stay inside the declared hidden fields: the observable part never changes, and a
     hidden field that is not declared keeps its value *)
  Lemma c_frame : forall q (s : cdoc R), cobs (fst (cexec O q s)) = cobs s.
  Proof.
    intros q s. destruct q; simpl; try reflexivity.
    - destruct (c_tri s); [reflexivity|]. destruct (triangleset (d_vcounts R s) (d_rows R s)); reflexivity.
    - destruct (c_img s); reflexivity.
  Qed.

  Lemma c_writes_declared : forall q (s : cdoc R),
    (~ In FTriCache (cdeclared q) -> c_tri (fst (cexec O q s)) = c_tri s) /\
    (~ In FImgCache (cdeclared q) -> c_img (fst (cexec O q s)) = c_img s) /\
    (~ In FFresh (cdeclared q) -> f_store (fst (cexec O q s)) = f_store s /\ f_next (fst (cexec O q s)) = f_next s).
  Proof.
    intros q s. destruct q; simpl; (split; [|split]); intro H; try reflexivity; try (split; reflexivity);
      try (exfalso; apply H; left; reflexivity).
    - destruct (c_tri s); [reflexivity|]. destruct (triangleset (d_vcounts R s) (d_rows R s)); reflexivity.
    - destruct (c_tri s); [split; reflexivity|]. destruct (triangleset (d_vcounts R s) (d_rows R s)); split; reflexivity.
    - destruct (c_img s); reflexivity.
    - destruct (c_img s); split; reflexivity.
  Qed.

  Lemma cobs_fields : forall s s' : cdoc R, cobs s = cobs s' ->
    d_vcounts R s = d_vcounts R s' /\ d_rows R s = d_rows R s' /\ d_sources R s = d_sources R s' /\
    d_lib R s = d_lib R s' /\ d_scene R s = d_scene R s' /\ d_file R s = d_file R s' /\ d_xml R s = d_xml R s' /\
    d_prim s = d_prim s'.
  Proof. intros s s' H. unfold cobs in H. inversion H. repeat split; assumption. Qed.

  Lemma c_result : forall q (s s' : cdoc R), ccoherent s -> ccoherent s' -> cobs s = cobs s' ->
    snd (cexec O q s) = snd (cexec O q s').
  Proof.
    intros q s s' [Ht Hi] [Ht' Hi'] Ho.
    destruct (cobs_fields s s' Ho) as [Ev [Er [Es [El [Esc [Ef [Ex Ep]]]]]]].
    destruct q; simpl.
    - destruct (c_tri s) as [t|] eqn:E; destruct (c_tri s') as [t'|] eqn:E'.
      + pose proof (Ht t eq_refl) as A. pose proof (Ht' t' eq_refl) as B.
        rewrite Ev, Er in A. rewrite A in B. inversion B. reflexivity.
      + pose proof (Ht t eq_refl) as A. rewrite Ev, Er in A. rewrite A. reflexivity.
      + pose proof (Ht' t' eq_refl) as B. rewrite Ev, Er. rewrite B. reflexivity.
      + rewrite Ev, Er. destruct (triangleset (d_vcounts R s') (d_rows R s')); reflexivity.
    - destruct (c_img s) as [d|] eqn:E; destruct (c_img s') as [d'|] eqn:E'; simpl.
      + rewrite (Hi d eq_refl), (Hi' d' eq_refl), Ef. reflexivity.
      + rewrite (Hi d eq_refl), Ef. reflexivity.
      + rewrite (Hi' d' eq_refl), Ef. reflexivity.
      + rewrite Ef. reflexivity.
    - rewrite Es. reflexivity.
    - rewrite El. reflexivity.
    - rewrite Esc. reflexivity.
    - rewrite Ep. reflexivity.
    - rewrite Ep. reflexivity.
    - rewrite Ep. reflexivity.
    - rewrite Ep. reflexivity.
    - rewrite Ev, Er. reflexivity.
    - rewrite Esc. reflexivity.
    - rewrite El, Ev, Ep. reflexivity.
  Qed.

  Lemma c_exec_coherent : forall q (s : cdoc R), ccoherent s -> ccoherent (fst (cexec O q s)).
  Proof.
    intros q s Hc. pose proof Hc as [Ht Hi]. destruct q; simpl; try exact Hc.
    - destruct (c_tri s) as [t|] eqn:E; [exact Hc|].
      destruct (triangleset (d_vcounts R s) (d_rows R s)) as [t|e] eqn:T; [|exact Hc].
      split; simpl.
      + intros t' H. inversion H. subst. exact T.
      + exact Hi.
    - destruct (c_img s) as [d|] eqn:E; [exact Hc|].
      split; simpl.
      + exact Ht.
      + intros d H. inversion H. reflexivity.
  Qed.

  Lemma c_save_obs : forall s s' : cdoc R, cobs s = cobs s' ->
    cobs (fst (csave s)) = cobs (fst (csave s')) /\ snd (csave s) = snd (csave s').
  Proof.
    intros s s' Ho. destruct (cobs_fields s s' Ho) as [Ev [Er [Es [El [Esc [Ef [Ex Ep]]]]]]].
    unfold csave, cobs, xml_of. simpl. rewrite Ev, Er, Es, El, Esc, Ef, Ep. split; reflexivity.
  Qed.

  Lemma c_save_coherent : forall s : cdoc R, ccoherent s -> ccoherent (fst (csave s)).
  Proof. intros s [Ht Hi]. split; simpl; assumption. Qed.

  Lemma c_fresh_coherent : forall s : cdoc R, cfresh s -> ccoherent s.
  Proof. intros s [A [B _]]. split; intros x H; [rewrite A in H | rewrite B in H]; discriminate. Qed.

  Lemma c_fresh_wf : forall s : cdoc R, cfresh s -> cwf s.
  Proof. intros s [_ [_ C]] k v H. rewrite C in H. destruct H. Qed.

  (* the library list itself: look-ups are functions of (items, index) and leave both alone *)
  Lemma c_lookup_pure : forall l (s : cdoc R),
    d_lib R (fst (cexec O (QLookup l) s)) = d_lib R s /\
    snd (cexec O (QLookup l) s) = RLookup R (il_lookup (d_lib R s) l).
  Proof. intros. split; reflexivity. Qed.

  (* ---- allocation: locations handed out by binding are new, and stay below the allocator *)
  Lemma c_exec_wf : forall q (s : cdoc R), cwf s -> cwf (fst (cexec O q s)).
  Proof.
    intros q s Hw. destruct q; simpl; try exact Hw.
    - destruct (c_tri s); [exact Hw|]. destruct (triangleset (d_vcounts R s) (d_rows R s)); exact Hw.
    - destruct (c_img s); exact Hw.
    - intros k v H. simpl in H. destruct H as [H|[H|H]].
      + inversion H. subst. apply N.lt_add_pos_r. reflexivity.
      + inversion H. subst. apply N.add_lt_mono_l. reflexivity.
      + apply N.lt_trans with (f_next s); [apply (Hw k v H) | apply N.lt_add_pos_r; reflexivity].
    - intros k v H. simpl in H. destruct H as [H|[H|H]].
      + inversion H. subst. apply N.lt_add_pos_r. reflexivity.
      + inversion H. subst. apply N.add_lt_mono_l. reflexivity.
      + apply N.lt_trans with (f_next s); [apply (Hw k v H) | apply N.lt_add_pos_r; reflexivity].
  Qed.

  Lemma c_save_wf : forall s : cdoc R, cwf s -> cwf (fst (csave s)).
  Proof. intros s Hw. exact Hw. Qed.

  Lemma bind_locs_new : forall (s : cdoc R) l, cwf s -> In l (bind_locs s) ->
    forall v, ~ In (l, v) (f_store s).
  Proof.
    intros s l Hw Hl v Hin. pose proof (Hw l v Hin) as Hlt.
    destruct Hl as [H|[H|[]]]; subst l.
    - apply (N.lt_irrefl _ Hlt).
    - apply (N.lt_irrefl (f_next s)). apply N.le_lt_trans with (f_next s + 1)%N; [apply N.le_add_r | exact Hlt].
  Qed.

  Lemma bind_allocates : forall m mm (s : cdoc R),
    let bp := PrimIter.bind (d_prim s) m mm in
    In (f_next s, rows_of (PrimIter.ip_vertex bp)) (f_store (fst (cexec O (QBind m mm) s))) /\
    In ((f_next s + 1)%N, rows_of (PrimIter.ip_normal bp)) (f_store (fst (cexec O (QBind m mm) s))).
  Proof. intros. simpl. split; [left; reflexivity | right; left; reflexivity]. Qed.

  (* writing into an allocated array: nothing observable, no cache, no query result changes *)
  Lemma c_write_obs : forall l v (s : cdoc R), cobs (cwrite l v s) = cobs s.
  Proof. reflexivity. Qed.

  Lemma c_write_result : forall q l v (s : cdoc R), snd (cexec O q (cwrite l v s)) = snd (cexec O q s).
  Proof.
    intros q l v s. destruct q; simpl; try reflexivity.
    - destruct (c_tri s); [reflexivity|]. destruct (triangleset (d_vcounts R s) (d_rows R s)); reflexivity.
    - destruct (c_img s); reflexivity.
  Qed.

  Lemma c_write_coherent : forall l v (s : cdoc R), ccoherent s -> ccoherent (cwrite l v s).
  Proof. intros l v s Hc. exact Hc. Qed.
End ConcreteProofs.
