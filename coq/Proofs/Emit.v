(* Proofs about Model/Emit.v: reading an emitted element gives back the content. *)
From Coq Require Import List Bool ZArith NArith Lia.
From PC Require Import Base.Atoms Base.Xml Model.Emit.
Import ListNotations.

(* ---------------- generic list lemmas ---------------- *)
Lemma omap_map {A B} (f : A -> xml) (r : xml -> option B) (g : A -> B) (l : list A) :
  (forall a, In a l -> r (f a) = Some (g a)) -> omap r (map f l) = Some (map g l).
Proof.
  induction l as [|a l IH]; simpl; intro H; [reflexivity|].
  rewrite (H a (or_introl eq_refl)). rewrite IH; [reflexivity|]. intros; apply H; right; assumption.
Qed.

Lemma omap_map_id {A} (f : A -> xml) (r : xml -> option A) (l : list A) :
  (forall a, In a l -> r (f a) = Some a) -> omap r (map f l) = Some l.
Proof. intro H. rewrite (omap_map f r (fun a => a)); [rewrite map_id; reflexivity | exact H]. Qed.

Lemma filter_map_all {A} (p : xml -> bool) (f : A -> xml) (l : list A) :
  (forall a, p (f a) = true) -> filter p (map f l) = map f l.
Proof. intro H. induction l as [|a l IH]; simpl; [reflexivity|]. rewrite H, IH. reflexivity. Qed.

Lemma filter_map_none {A} (p : xml -> bool) (f : A -> xml) (l : list A) :
  (forall a, p (f a) = false) -> filter p (map f l) = [].
Proof. intro H. induction l as [|a l IH]; simpl; [reflexivity|]. rewrite H, IH. reflexivity. Qed.

Lemma find_map_none {A} (p : xml -> bool) (f : A -> xml) (l : list A) :
  (forall a, p (f a) = false) -> List.find p (map f l) = None.
Proof. intro H. induction l as [|a l IH]; simpl; [reflexivity|]. rewrite H, IH. reflexivity. Qed.

Lemma find_app_none {A} (p : A -> bool) l1 l2 : List.find p l1 = None -> List.find p (l1 ++ l2) = List.find p l2.
Proof. induction l1 as [|a l IH]; simpl; [reflexivity|]. destruct (p a); [discriminate | exact IH]. Qed.

(* ---------------- sources ---------------- *)
Lemma read_emit_param c : read_param (emit_param c) = Some c.
Proof. reflexivity. Qed.

Theorem read_emit_source : forall arr s, read_source (emit_source arr s) = Some s.
Proof.
  intros arr [id data comps n rows]. unfold read_source, emit_source, el. simpl.
  unfold findall. simpl. rewrite filter_map_all by reflexivity.
  rewrite omap_map_id by (intros; apply read_emit_param). reflexivity.
Qed.

(* ---------------- primitives ---------------- *)
Lemma tag_kind_tag k : tag_kind (kind_tag k) = Some k.
Proof. destruct k; reflexivity. Qed.

Lemma read_emit_input i : read_input (emit_input i) = Some i.
Proof. destruct i as [o s r [st|]]; reflexivity. Qed.

Lemma xattr_material n m : attr a_material ((a_count, AInt n) :: opt_attr a_material m) = m.
Proof. destruct m; reflexivity. Qed.

Definition prim_kids (p : prim) : list xml :=
  map emit_input (p_inputs p)
  ++ match p_vcount p with Some v => [el a_vcount [] (Some v) []] | None => [] end
  ++ map emit_p (p_ps p).

Lemma prim_findall_input p : filter (is_tag ns a_input) (prim_kids p) = map emit_input (p_inputs p).
Proof.
  unfold prim_kids. rewrite !filter_app. rewrite filter_map_all by (intros [? ? ? [?|]]; reflexivity).
  rewrite (filter_map_none _ emit_p) by reflexivity.
  destruct (p_vcount p); simpl; rewrite app_nil_r; reflexivity.
Qed.

Lemma prim_findall_p p : filter (is_tag ns a_p) (prim_kids p) = map emit_p (p_ps p).
Proof.
  unfold prim_kids. rewrite !filter_app. rewrite filter_map_none by (intros [? ? ? [?|]]; reflexivity).
  rewrite (filter_map_all _ emit_p) by reflexivity.
  destruct (p_vcount p); reflexivity.
Qed.

Lemma prim_find_vcount p :
  List.find (is_tag ns a_vcount) (prim_kids p) =
  match p_vcount p with Some v => Some (el a_vcount [] (Some v) []) | None => None end.
Proof.
  unfold prim_kids. rewrite find_app_none by (apply find_map_none; intros [? ? ? [?|]]; reflexivity).
  destruct (p_vcount p); simpl; [reflexivity|]. apply find_map_none. reflexivity.
Qed.

Lemma xtag_emit_prim p : xtag (emit_prim p) = kind_tag (p_kind p). Proof. reflexivity. Qed.
Lemma xkids_emit_prim p : xkids (emit_prim p) = prim_kids p. Proof. reflexivity. Qed.
Lemma xattrs_emit_prim p : xattrs (emit_prim p) = (a_count, AInt (p_count p)) :: opt_attr a_material (p_material p).
Proof. reflexivity. Qed.

Theorem read_emit_prim : forall p, read_prim (emit_prim p) = Some p.
Proof.
  intro p. unfold read_prim, xattr, findall, find.
  rewrite xtag_emit_prim, xkids_emit_prim, xattrs_emit_prim, tag_kind_tag.
  rewrite prim_findall_input, prim_findall_p, prim_find_vcount.
  rewrite omap_map_id by (intros; apply read_emit_input).
  rewrite map_map. rewrite (map_ext (fun t => text_or_nil (emit_p t)) (fun t => t)) by reflexivity. rewrite map_id.
  rewrite xattr_material.
  change (attr a_count ((a_count, AInt (p_count p)) :: opt_attr a_material (p_material p))) with (Some (AInt (p_count p))).
  destruct p as [k m n ins [v|] ps]; reflexivity.
Qed.

(* ---------------- the <vertices> indirection ---------------- *)
Definition wf_input (vid vref : atom) (i : input) : Prop :=
  i_sem i = a_VERTEX -> i_src i = vid -> vid = vref.

Lemma deref_redirect vid vref i : wf_input vid vref i -> deref vid vref (redirect vid vref i) = i.
Proof.
  intro Hwf. unfold redirect.
  destruct (N.eqb (i_sem i) a_VERTEX) eqn:Es; destruct (N.eqb (i_src i) vref) eqn:Er; simpl.
  - unfold deref. simpl. rewrite Es, N.eqb_refl. simpl. apply N.eqb_eq in Er. destruct i; simpl in *; subst; reflexivity.
  - unfold deref. rewrite Es. destruct (N.eqb (i_src i) vid) eqn:Ev; simpl; [|reflexivity].
    apply N.eqb_eq in Es. apply N.eqb_eq in Ev. rewrite (Hwf Es Ev) in Ev. rewrite Ev, N.eqb_refl in Er. discriminate.
  - unfold deref. rewrite Es. reflexivity.
  - unfold deref. rewrite Es. reflexivity.
Qed.

(* after save, a VERTEX input that named the POSITION source names <vertices>; every other input is untouched *)
Lemma redirect_spec vid vref i :
  (i_sem i = a_VERTEX /\ i_src i = vref -> i_src (redirect vid vref i) = vid) /\
  (~ (i_sem i = a_VERTEX /\ i_src i = vref) -> redirect vid vref i = i) /\
  i_sem (redirect vid vref i) = i_sem i /\ i_off (redirect vid vref i) = i_off i /\ i_set (redirect vid vref i) = i_set i.
Proof.
  unfold redirect. destruct (N.eqb (i_sem i) a_VERTEX) eqn:Es; destruct (N.eqb (i_src i) vref) eqn:Er; simpl;
    repeat split; try reflexivity; intros H.
  - exfalso. apply H. split; apply N.eqb_eq; assumption.
  - destruct H as [_ H]. apply N.eqb_eq in H. congruence.
  - destruct H as [H _]. apply N.eqb_eq in H. congruence.
  - destruct H as [H _]. apply N.eqb_eq in H. congruence.
Qed.

Definition wf_prim (vid vref : atom) (p : prim) : Prop := Forall (wf_input vid vref) (p_inputs p).

Lemma deref_redirect_prim vid vref p : wf_prim vid vref p -> deref_prim vid vref (redirect_prim vid vref p) = p.
Proof.
  intro H. unfold deref_prim, redirect_prim. simpl. rewrite map_map.
  replace (map (fun x => deref vid vref (redirect vid vref x)) (p_inputs p)) with (p_inputs p); [destruct p; reflexivity|].
  unfold wf_prim in H. induction (p_inputs p) as [|i l IH]; simpl; [reflexivity|].
  inversion H; subst. rewrite deref_redirect by assumption. f_equal. apply IH. assumption.
Qed.

(* ---------------- geometry ---------------- *)
Definition wf_geometry (g : geometry) : Prop := Forall (wf_prim (g_vid g) (g_vref g)) (g_prims g).

Lemma is_prim_emit_prim p : is_prim (emit_prim p) = true.
Proof. unfold is_prim, emit_prim, el. simpl. rewrite tag_kind_tag. reflexivity. Qed.

Lemma is_tag_emit_prim t p : (forall k, N.eqb (kind_tag k) t = false) -> is_tag ns t (emit_prim p) = false.
Proof. intro H. unfold is_tag, emit_prim, el. simpl. rewrite H. reflexivity. Qed.

Definition mesh_kids arr (g : geometry) : list xml :=
  map (emit_source arr) (g_sources g)
  ++ [ el a_vertices [(a_id, AStr (g_vid g))] None
         [ el a_input [(a_semantic, AStr a_POSITION); (a_source, ARef true (g_vref g))] None [] ] ]
  ++ map (fun p => emit_prim (redirect_prim (g_vid g) (g_vref g) p)) (g_prims g).

Lemma mesh_find_vertices arr g :
  List.find (is_tag ns a_vertices) (mesh_kids arr g) =
  Some (el a_vertices [(a_id, AStr (g_vid g))] None
         [ el a_input [(a_semantic, AStr a_POSITION); (a_source, ARef true (g_vref g))] None [] ]).
Proof. unfold mesh_kids. rewrite find_app_none by (apply find_map_none; reflexivity). reflexivity. Qed.

Lemma mesh_findall_source arr g : filter (is_tag ns a_source) (mesh_kids arr g) = map (emit_source arr) (g_sources g).
Proof.
  unfold mesh_kids. rewrite !filter_app. rewrite filter_map_all by reflexivity. simpl.
  rewrite filter_map_none; [apply app_nil_r|]. intro p. apply is_tag_emit_prim. intros []; reflexivity.
Qed.

Lemma mesh_filter_prim arr g :
  filter is_prim (mesh_kids arr g) = map (fun p => emit_prim (redirect_prim (g_vid g) (g_vref g) p)) (g_prims g).
Proof.
  unfold mesh_kids. rewrite !filter_app. rewrite filter_map_none by reflexivity. simpl.
  apply filter_map_all. intro p. apply is_prim_emit_prim.
Qed.

Lemma read_double_sided_emit arr g :
  read_double_sided (emit_geometry arr g) = g_double_sided g.
Proof. unfold read_double_sided, emit_geometry. destruct (g_double_sided g); reflexivity. Qed.

Theorem read_emit_geometry : forall arr g, wf_geometry g -> read_geometry (emit_geometry arr g) = Some g.
Proof.
  intros arr g Hwf. unfold read_geometry.
  rewrite read_double_sided_emit.
  unfold emit_geometry. fold (mesh_kids arr g).
  change (xattr a_id (el a_geometry ((a_id, g_id g) :: opt_attr a_name (g_name g)) None
            (el a_mesh [] None (mesh_kids arr g) :: (if g_double_sided g then emit_double_sided else []))))
    with (Some (g_id g)).
  change (find ns a_mesh (el a_geometry ((a_id, g_id g) :: opt_attr a_name (g_name g)) None
            (el a_mesh [] None (mesh_kids arr g) :: (if g_double_sided g then emit_double_sided else []))))
    with (Some (el a_mesh [] None (mesh_kids arr g))).
  unfold find, findall. simpl xkids. rewrite mesh_find_vertices. simpl.
  rewrite mesh_findall_source, mesh_filter_prim.
  rewrite omap_map_id by (intros; apply read_emit_source).
  rewrite (omap_map _ read_prim (redirect_prim (g_vid g) (g_vref g))) by (intros; apply read_emit_prim).
  rewrite map_map.
  replace (map (fun x => deref_prim (g_vid g) (g_vref g) (redirect_prim (g_vid g) (g_vref g) x)) (g_prims g)) with (g_prims g).
  - assert (Hn : xattr a_name (el a_geometry ((a_id, g_id g) :: opt_attr a_name (g_name g)) None
            (el a_mesh [] None (mesh_kids arr g) :: (if g_double_sided g then emit_double_sided else []))) = g_name g)
      by (destruct (g_name g); reflexivity).
    rewrite Hn. destruct g; reflexivity.
  - unfold wf_geometry in Hwf. induction (g_prims g) as [|p l IH]; simpl; [reflexivity|].
    inversion Hwf; subst. rewrite deref_redirect_prim by assumption. f_equal. apply IH. assumption.
Qed.

(* C06_vertex_redirect, element level: in the written geometry no VERTEX input names the POSITION
   source directly (unless <vertices> has that very id), and reading back through <vertices>
   recovers the model's inputs *)
Theorem vertex_redirect : forall arr g p, wf_geometry g -> In p (g_prims g) ->
  (forall i, In i (p_inputs (redirect_prim (g_vid g) (g_vref g) p)) -> i_sem i = a_VERTEX -> i_src i = g_vref g -> g_vid g = g_vref g) /\
  deref_prim (g_vid g) (g_vref g) (redirect_prim (g_vid g) (g_vref g) p) = p /\
  exists g', read_geometry (emit_geometry arr g) = Some g' /\ In p (g_prims g').
Proof.
  intros arr g p Hwf Hin. split; [|split].
  - intros i Hi Hs Hr. unfold redirect_prim in Hi. simpl in Hi. apply in_map_iff in Hi. destruct Hi as [j [Hj _]].
    subst i. unfold redirect in *. destruct (N.eqb (i_sem j) a_VERTEX && N.eqb (i_src j) (g_vref g)) eqn:E.
    + simpl in Hr. exact Hr.
    + simpl in *. rewrite (proj2 (N.eqb_eq _ _) Hs), (proj2 (N.eqb_eq _ _) Hr) in E. discriminate.
  - apply deref_redirect_prim. unfold wf_geometry in Hwf. rewrite Forall_forall in Hwf. apply Hwf. exact Hin.
  - exists g. split; [apply read_emit_geometry; exact Hwf | exact Hin].
Qed.

(* ---------------- transforms, material bindings ---------------- *)
Lemma tag_tkind_tag k : tag_tkind (tkind_tag k) = Some k.
Proof. destruct k; reflexivity. Qed.
Lemma tag_ikind_tag k : tag_ikind (ikind_tag k) = Some k.
Proof. destruct k; reflexivity. Qed.

Theorem read_emit_transform : forall t, read_transform (emit_transform t) = Some t.
Proof. intros [k tx]. unfold read_transform, emit_transform. simpl. rewrite tag_tkind_tag. reflexivity. Qed.

Lemma read_emit_bvi b : read_bvi (emit_bvi b) = Some b.
Proof. destruct b as [s i [st|]]; reflexivity. Qed.

Theorem read_emit_imat : forall m, read_imat (emit_imat m) = Some m.
Proof.
  intros [s t ins]. unfold read_imat, emit_imat, findall. simpl.
  rewrite filter_map_all by (intros [? ? [?|]]; reflexivity).
  rewrite omap_map_id by (intros; apply read_emit_bvi). reflexivity.
Qed.

Lemma read_mats_emit k u mats : read_mats (el (ikind_tag k) [(a_url, ARef true u)] None (emit_bind_material mats)) = Some mats.
Proof.
  destruct mats as [|m r]; [reflexivity|].
  unfold read_mats, emit_bind_material. simpl find_path. unfold findall. simpl xkids.
  change (emit_imat m :: map emit_imat r) with (map emit_imat (m :: r)).
  rewrite filter_map_all by reflexivity. apply omap_map_id. intros; apply read_emit_imat.
Qed.

(* ---------------- nodes (nested induction) ---------------- *)
Section NodeInd.
  Variable P : node -> Prop.
  Hypothesis HN : forall id name ts cs, Forall P cs -> P (Node id name ts cs).
  Hypothesis HI : forall k u mats, P (Inst k u mats).
  Fixpoint node_ind' (n : node) : P n :=
    match n with
    | Node id name ts cs =>
        HN id name ts cs ((fix go (l : list node) : Forall P l :=
                             match l with [] => Forall_nil P | c :: r => Forall_cons c (node_ind' c) (go r) end) cs)
    | Inst k u mats => HI k u mats
    end.
End NodeInd.

Definition read_children :=
  fix go (l : list xml) : option (list node) :=
    match l with
    | [] => Some []
    | c :: r => if is_child c
                then match read_node c, go r with Some n, Some ns' => Some (n :: ns') | _, _ => None end
                else go r
    end.

Lemma read_node_unfold u n t a tx kids :
  read_node (El u n t a tx kids) =
  if N.eqb t a_node then
    match omap read_transform (filter is_transform kids), read_children kids with
    | Some ts, Some cs => Some (Node (attr a_id a) (attr a_name a) ts cs)
    | _, _ => None
    end
  else
    match tag_ikind t, get_ref (attr a_url a), read_mats (El u n t a tx kids) with
    | Some k, Some url, Some ms => Some (Inst k url ms)
    | _, _, _ => None
    end.
Proof. reflexivity. Qed.

Lemma is_child_emit_node n : is_child (emit_node n) = true.
Proof. destruct n as [id name ts cs | k u mats]; [reflexivity|]. destruct k; reflexivity. Qed.
Lemma is_transform_emit_node n : is_transform (emit_node n) = false.
Proof. destruct n as [id name ts cs | k u mats]; [reflexivity|]. destruct k; reflexivity. Qed.
Lemma is_child_emit_transform t : is_child (emit_transform t) = false.
Proof. destruct t as [[] tx]; reflexivity. Qed.
Lemma is_transform_emit_transform t : is_transform (emit_transform t) = true.
Proof. destruct t as [[] tx]; reflexivity. Qed.

Lemma read_children_skip ts rest : read_children (map emit_transform ts ++ rest) = read_children rest.
Proof. induction ts as [|t r IH]; simpl; [reflexivity|]. rewrite is_child_emit_transform. exact IH. Qed.

Lemma attr_id_opt id name : attr a_id (opt_attr a_id id ++ opt_attr a_name name) = id.
Proof. destruct id, name; reflexivity. Qed.
Lemma attr_name_opt id name : attr a_name (opt_attr a_id id ++ opt_attr a_name name) = name.
Proof. destruct id, name; reflexivity. Qed.

Theorem read_emit_node : forall n, read_node (emit_node n) = Some n.
Proof.
  apply node_ind'.
  - intros id name ts cs IH. simpl emit_node. unfold el. rewrite read_node_unfold. simpl (N.eqb a_node a_node).
    cbv iota. rewrite filter_app, (filter_map_all _ emit_transform) by apply is_transform_emit_transform.
    rewrite (filter_map_none _ emit_node) by apply is_transform_emit_node. rewrite app_nil_r.
    rewrite omap_map_id by (intros; apply read_emit_transform).
    rewrite read_children_skip.
    assert (Hc : read_children (map emit_node cs) = Some cs).
    { induction cs as [|c r IHc]; simpl; [reflexivity|]. inversion IH; subst.
      rewrite is_child_emit_node. rewrite H1. rewrite IHc by assumption. reflexivity. }
    rewrite Hc, attr_id_opt, attr_name_opt. reflexivity.
  - intros k u mats. simpl emit_node. unfold el at 1. rewrite read_node_unfold.
    assert (Hk : N.eqb (ikind_tag k) a_node = false) by (destruct k; reflexivity). rewrite Hk.
    rewrite tag_ikind_tag. fold (el (ikind_tag k) [(a_url, ARef true u)] None (emit_bind_material mats)).
    rewrite read_mats_emit. reflexivity.
Qed.

(* ---------------- visual scenes ---------------- *)
Definition is_Node (n : node) : Prop := match n with Node _ _ _ _ => True | Inst _ _ _ => False end.
Definition wf_scene (s : vscene) : Prop := Forall is_Node (sc_nodes s).

Theorem read_emit_scene : forall s, wf_scene s -> read_scene (emit_scene s) = Some s.
Proof.
  intros [id nodes] Hwf. unfold read_scene, emit_scene, findall. simpl.
  assert (Hf : filter (is_tag ns a_node) (map emit_node nodes) = map emit_node nodes).
  { unfold wf_scene in Hwf. simpl in Hwf. induction nodes as [|n r IH]; simpl; [reflexivity|].
    inversion Hwf; subst. destruct n as [? ? ? ?|? ? ?]; [|contradiction]. simpl. f_equal. apply IH. assumption. }
  rewrite Hf. rewrite omap_map_id by (intros; apply read_emit_node). reflexivity.
Qed.

(* ---------------- optional value children (lights, cameras) ---------------- *)
Fixpoint assoc (n : atom) (ps : list (atom * toks)) : option toks :=
  match ps with [] => None | (k, v) :: r => if N.eqb k n then Some v else assoc n r end.
Definition canon_params (names : list atom) (ps : list (atom * toks)) : list (atom * toks) :=
  flat_map (fun n => match assoc n ps with Some t => [(n, t)] | None => [] end) names.

Lemma find_emit_val n ps :
  List.find (is_tag ns n) (map emit_val ps) = match assoc n ps with Some t => Some (emit_val (n, t)) | None => None end.
Proof.
  induction ps as [|[k v] r IH]; simpl; [reflexivity|].
  unfold is_tag at 1. simpl. destruct (N.eqb k n) eqn:E; [apply N.eqb_eq in E; subst; reflexivity | exact IH].
Qed.

Lemma read_vals_emit names u t a tx pre ps :
  (forall n, In n names -> List.find (is_tag ns n) pre = None) ->
  read_vals names (El u ns t a tx (pre ++ map emit_val ps)) = canon_params names ps.
Proof.
  intro Hpre. unfold read_vals, canon_params, find. simpl xkids.
  induction names as [|n r IH]; simpl; [reflexivity|].
  rewrite find_app_none by (apply Hpre; left; reflexivity). rewrite find_emit_val.
  rewrite IH by (intros; apply Hpre; right; assumption).
  destruct (assoc n ps); reflexivity.
Qed.

Definition wf_light (l : light) : Prop := canon_params light_params (l_params l) = l_params l.
Definition wf_camera (c : camera) : Prop := canon_params camera_params (c_params c) = c_params c.

Theorem read_emit_light : forall l, wf_light l -> read_light (emit_light l) = Some l.
Proof.
  intros [id k col ps] Hwf. unfold wf_light in Hwf. simpl in Hwf.
  unfold read_light, emit_light. simpl.
  assert (Hv : read_vals light_params (el (lkind_tag k) [] None (el a_color [] (Some col) [] :: map emit_val ps)) = ps).
  { rewrite <- Hwf at 2. apply (read_vals_emit light_params 0%N (lkind_tag k) [] None [el a_color [] (Some col) []] ps).
    intros n Hn. simpl in Hn. repeat (destruct Hn as [Hn|Hn]; [subst; reflexivity|]). contradiction. }
  destruct k; simpl; simpl in Hv; rewrite Hv; reflexivity.
Qed.

Theorem read_emit_camera : forall c, wf_camera c -> read_camera (emit_camera c) = Some c.
Proof.
  intros [id k ps] Hwf. unfold wf_camera in Hwf. simpl in Hwf.
  unfold read_camera, emit_camera. simpl.
  assert (Hv : read_vals camera_params (el (ckind_tag k) [] None (map emit_val ps)) = ps).
  { rewrite <- Hwf at 2. apply (read_vals_emit camera_params 0%N (ckind_tag k) [] None [] ps). intros; reflexivity. }
  destruct k; simpl; simpl in Hv; rewrite Hv; reflexivity.
Qed.

Theorem read_emit_material : forall m, read_material (emit_material m) = Some m.
Proof. intros [id nm e]. reflexivity. Qed.

(* ---------------- the document ---------------- *)
Record wf_doc (d : doc) : Prop := {
  wf_geoms : Forall wf_geometry (d_geometries d);
  wf_lights : Forall wf_light (d_lights d);
  wf_cameras : Forall wf_camera (d_cameras d);
  wf_scenes : Forall wf_scene (d_scenes d) }.

Lemma filter_emit_lib name name' ks :
  filter (is_tag ns name) (emit_lib name' ks) = if N.eqb name' name then emit_lib name' ks else [].
Proof. destruct ks; simpl; [destruct (N.eqb name' name); reflexivity|]. unfold is_tag. simpl. destruct (N.eqb name' name); reflexivity. Qed.

Lemma find_emit_lib name name' ks : N.eqb name' name = false -> List.find (is_tag ns name) (emit_lib name' ks) = None.
Proof. intro H. destruct ks; simpl; [reflexivity|]. unfold is_tag. simpl. rewrite H. reflexivity. Qed.

Lemma flat_kids_emit_lib name ks : flat_map xkids (emit_lib name ks) = ks.
Proof. destruct ks; simpl; [reflexivity|]. rewrite app_nil_r. reflexivity. Qed.

Ltac eval_eqb :=
  repeat match goal with
         | |- context [N.eqb ?a ?b] =>
             let v := eval vm_compute in (N.eqb a b) in
             progress change (N.eqb a b) with v
         end.

Ltac lib_kids_tac :=
  unfold lib_kids, findall, emit_doc; simpl xkids;
  rewrite !filter_app, !filter_emit_lib; eval_eqb; cbv iota; simpl;
  rewrite ?app_nil_r; apply flat_kids_emit_lib.

Section Doc.
  Variable arr : atom -> atom.
  Variable d : doc.
  Lemma lk_geoms : lib_kids a_library_geometries (emit_doc arr d) = map (emit_geometry arr) (d_geometries d).
  Proof. lib_kids_tac. Qed.
  Lemma lk_lights : lib_kids a_library_lights (emit_doc arr d) = map emit_light (d_lights d).
  Proof. lib_kids_tac. Qed.
  Lemma lk_cameras : lib_kids a_library_cameras (emit_doc arr d) = map emit_camera (d_cameras d).
  Proof. lib_kids_tac. Qed.
  Lemma lk_images : lib_kids a_library_images (emit_doc arr d) = map (emit_idonly a_image) (d_images d).
  Proof. lib_kids_tac. Qed.
  Lemma lk_effects : lib_kids a_library_effects (emit_doc arr d) = map (emit_idonly a_effect) (d_effects d).
  Proof. lib_kids_tac. Qed.
  Lemma lk_materials : lib_kids a_library_materials (emit_doc arr d) = map emit_material (d_materials d).
  Proof. lib_kids_tac. Qed.
  Lemma lk_nodes : lib_kids a_library_nodes (emit_doc arr d) = map emit_node (d_nodes d).
  Proof. lib_kids_tac. Qed.
  Lemma lk_scenes : lib_kids a_library_visual_scenes (emit_doc arr d) = map emit_scene (d_scenes d).
  Proof. lib_kids_tac. Qed.

  Lemma doc_default_scene :
    match find_path ns [a_scene; a_instance_visual_scene] (emit_doc arr d) with
    | Some i => get_ref (xattr a_url i) | None => None end = d_scene d.
  Proof.
    unfold emit_doc. simpl find_path. unfold find at 1. simpl xkids.
    repeat (rewrite find_app_none by (apply find_emit_lib; reflexivity)).
    simpl. destruct (d_scene d); reflexivity.
  Qed.
End Doc.

Lemma Forall_in {A} (P : A -> Prop) l a : Forall P l -> In a l -> P a.
Proof. intro H. rewrite Forall_forall in H. apply H. Qed.

Theorem read_emit_doc : forall arr d, wf_doc d -> read_doc (emit_doc arr d) = Some d.
Proof.
  intros arr d [Hg Hl Hc Hs]. unfold read_doc.
  rewrite lk_geoms, lk_lights, lk_cameras, lk_images, lk_effects, lk_materials, lk_nodes, lk_scenes.
  rewrite (omap_map_id (emit_geometry arr)) by (intros a Ha; apply read_emit_geometry; eapply Forall_in; eassumption).
  rewrite (omap_map_id emit_light) by (intros a Ha; apply read_emit_light; eapply Forall_in; eassumption).
  rewrite (omap_map_id emit_camera) by (intros a Ha; apply read_emit_camera; eapply Forall_in; eassumption).
  rewrite (omap_map_id (emit_idonly a_image)) by reflexivity.
  rewrite (omap_map_id (emit_idonly a_effect)) by reflexivity.
  rewrite (omap_map_id emit_material) by (intros; apply read_emit_material).
  rewrite (omap_map_id emit_node) by (intros; apply read_emit_node).
  rewrite (omap_map_id emit_scene) by (intros a Ha; apply read_emit_scene; eapply Forall_in; eassumption).
  rewrite doc_default_scene. destruct d; reflexivity.
Qed.

(* C06_managed_libraries_exact: every child of a managed library of the written document is
   the emission of one object of the model, in model order - nothing else is there *)
Theorem managed_libraries_exact : forall arr d,
  lib_kids a_library_geometries (emit_doc arr d) = map (emit_geometry arr) (d_geometries d) /\
  lib_kids a_library_lights (emit_doc arr d) = map emit_light (d_lights d) /\
  lib_kids a_library_cameras (emit_doc arr d) = map emit_camera (d_cameras d) /\
  lib_kids a_library_images (emit_doc arr d) = map (emit_idonly a_image) (d_images d) /\
  lib_kids a_library_effects (emit_doc arr d) = map (emit_idonly a_effect) (d_effects d) /\
  lib_kids a_library_materials (emit_doc arr d) = map emit_material (d_materials d) /\
  lib_kids a_library_nodes (emit_doc arr d) = map emit_node (d_nodes d) /\
  lib_kids a_library_visual_scenes (emit_doc arr d) = map emit_scene (d_scenes d).
Proof.
  intros. repeat split; [apply lk_geoms | apply lk_lights | apply lk_cameras | apply lk_images | apply lk_effects
                         | apply lk_materials | apply lk_nodes | apply lk_scenes].
Qed.

(* ---------------- references follow renames ---------------- *)
Section MNodeInd.
  Variable P : mnode -> Prop.
  Hypothesis HN : forall id name ts cs, Forall P cs -> P (MNode id name ts cs).
  Hypothesis HI : forall k u mats, P (MInst k u mats).
  Fixpoint mnode_ind' (n : mnode) : P n :=
    match n with
    | MNode id name ts cs =>
        HN id name ts cs ((fix go (l : list mnode) : Forall P l :=
                             match l with [] => Forall_nil P | c :: r => Forall_cons c (mnode_ind' c) (go r) end) cs)
    | MInst k u mats => HI k u mats
    end.
End MNodeInd.

(* every url/target written for a node is the CURRENT id of the object it refers to *)
Theorem refs_are_current_ids : forall ids n, node_refs (resolve ids n) = map ids (mnode_targets n).
Proof.
  intro ids. apply mnode_ind'.
  - intros id name ts cs IH. simpl. induction cs as [|c r IHc]; simpl; [reflexivity|].
    inversion IH; subst. rewrite map_app. f_equal; [assumption | apply IHc; assumption].
  - intros k u mats. simpl. f_equal. rewrite !map_map. apply map_ext. intros [[s t] ins]. reflexivity.
Qed.

(* ... hence after a rename every reference to the renamed object carries the new id and no
   reference to another object changes *)
Theorem refs_follow_rename : forall ids u new_id n,
  node_refs (resolve (rename_id ids u new_id) n) =
  map (fun v => if N.eqb v u then new_id else ids v) (mnode_targets n).
Proof. intros. apply refs_are_current_ids. Qed.

(* and the references are what an independent reader finds in the written element *)
Theorem refs_in_file : forall ids n, exists n', read_node (emit_node (resolve ids n)) = Some n' /\
  node_refs n' = map ids (mnode_targets n).
Proof. intros. exists (resolve ids n). split; [apply read_emit_node | apply refs_are_current_ids]. Qed.

(* ---------------- _correctValInNode: add / update / remove agree with the value ---------------- *)
Lemma is_tag_set_text t v c : is_tag ns t (set_text v c) = is_tag ns t c.
Proof. destruct c; reflexivity. Qed.

Lemma find_none_sub {A} (p : A -> bool) l : List.find p l = None -> forall x, In x l -> p x = false.
Proof.
  induction l as [|a r IH]; simpl; intros H x Hin; [contradiction|].
  destruct (p a) eqn:E; [discriminate|]. destruct Hin as [->|Hin]; [exact E | apply IH; assumption].
Qed.

Lemma find_none_of_all {A} (p : A -> bool) l : (forall x, In x l -> p x = false) -> List.find p l = None.
Proof. induction l as [|a r IH]; simpl; intro H; [reflexivity|]. rewrite (H a (or_introl eq_refl)). apply IH. intros; apply H; right; assumption. Qed.

Lemma In_firstn' {A} (n : nat) (l : list A) x : In x (firstn n l) -> In x l.
Proof. revert l. induction n as [|n IH]; intros [|y r]; simpl; try tauto. intros [H|H]; [left; exact H | right; apply IH; exact H]. Qed.

Lemma find_set_first_text t v kids c :
  List.find (is_tag ns t) kids = Some c ->
  List.find (is_tag ns t) (set_first_text t v kids) = Some (set_text v c).
Proof.
  induction kids as [|k r IH]; simpl; [discriminate|].
  destruct (is_tag ns t k) eqn:E; simpl.
  - intro H. inversion H; subst. rewrite is_tag_set_text, E. reflexivity.
  - rewrite E. exact IH.
Qed.

Lemma filter_remove_first_tag t kids :
  filter (is_tag ns t) (remove_first_tag t kids) = tl (filter (is_tag ns t) kids).
Proof.
  induction kids as [|k r IH]; simpl; [reflexivity|].
  destruct (is_tag ns t k) eqn:E; simpl; [reflexivity|]. rewrite E. exact IH.
Qed.

Lemma find_filter_hd {A} (p : A -> bool) l : List.find p l = hd_error (filter p l).
Proof. induction l as [|a r IH]; simpl; [reflexivity|]. destruct (p a); [reflexivity | exact IH]. Qed.

Lemma is_tag_new t v : is_tag ns t (el t [] (Some v) []) = true.
Proof. unfold is_tag, el. simpl. rewrite N.eqb_refl. reflexivity. Qed.

Theorem optional_child_value : forall t value after kids,
  (length (filter (is_tag ns t) kids) <= 1)%nat ->
  read_opt t (correct_val t value after kids) = value.
Proof.
  intros t value after kids Hone. unfold read_opt, correct_val.
  destruct (List.find (is_tag ns t) kids) as [c|] eqn:Ef; destruct value as [v|].
  - rewrite (find_set_first_text t v kids c Ef). destruct c; reflexivity.
  - rewrite find_filter_hd, filter_remove_first_tag.
    destruct (filter (is_tag ns t) kids) as [|a [|b r]]; simpl in *; try reflexivity. lia.
  - destruct after as [a|].
    + rewrite find_app_none.
      * simpl. rewrite is_tag_new. reflexivity.
      * apply find_none_of_all. intros x Hx. apply (find_none_sub _ _ Ef). eapply In_firstn'. exact Hx.
    + rewrite find_app_none by exact Ef. simpl. rewrite is_tag_new. reflexivity.
  - rewrite Ef. reflexivity.
Qed.

(* the other children are untouched: same elements, same order *)
Lemma is_tag_diff t t' c : t' <> t -> is_tag ns t c = true -> is_tag ns t' c = false.
Proof.
  unfold is_tag. intros Hne H. apply andb_true_iff in H. destruct H as [Hn Ht]. rewrite Hn. simpl.
  apply N.eqb_eq in Ht. apply N.eqb_neq. congruence.
Qed.

Theorem optional_child_others : forall t value after kids t', t' <> t ->
  map xuid (filter (is_tag ns t') (correct_val t value after kids)) = map xuid (filter (is_tag ns t') kids) /\
  map xtext (filter (is_tag ns t') (correct_val t value after kids)) = map xtext (filter (is_tag ns t') kids).
Proof.
  intros t value after kids t' Hne. unfold correct_val.
  destruct (List.find (is_tag ns t) kids) as [c|] eqn:Ef; destruct value as [v|].
  - clear Ef. induction kids as [|k r IH]; simpl; [split; reflexivity|].
    destruct (is_tag ns t k) eqn:E; simpl.
    + rewrite is_tag_set_text, (is_tag_diff t t' k Hne E). split; reflexivity.
    + destruct (is_tag ns t' k); simpl; destruct IH as [I1 I2]; rewrite ?I1, ?I2; split; reflexivity.
  - clear Ef. induction kids as [|k r IH]; simpl; [split; reflexivity|].
    destruct (is_tag ns t k) eqn:E; simpl.
    + rewrite (is_tag_diff t t' k Hne E). split; reflexivity.
    + destruct (is_tag ns t' k); simpl; destruct IH as [I1 I2]; rewrite ?I1, ?I2; split; reflexivity.
  - assert (Hnew : is_tag ns t' (el t [] (Some v) []) = false).
    { unfold is_tag, el. simpl. apply N.eqb_neq. congruence. }
    destruct after as [a|].
    + rewrite filter_app. simpl. rewrite Hnew. rewrite <- filter_app, firstn_skipn. split; reflexivity.
    + rewrite filter_app. simpl. rewrite Hnew, app_nil_r. split; reflexivity.
  - split; reflexivity.
Qed.
