(* Lemmas for C20 (Model/Isolation.v). *)
From Coq Require Import List Arith Bool Lia.
From PC Require Import Model.Isolation.
Import ListNotations.

Section Footprint.
  Variables G D O op : Type.
  Variable gstep : op -> nat -> state G D -> state G D * O.

  (* the footprint discipline: a step of document i *)
  Hypothesis global_untouched : forall o i s, fst (fst (gstep o i s)) = fst s.
  Hypothesis others_untouched : forall o i s j, j <> i -> snd (fst (gstep o i s)) j = snd s j.
  Hypothesis reads_own_only : forall o i g ds ds', ds i = ds' i ->
    snd (fst (gstep o i (g, ds))) i = snd (fst (gstep o i (g, ds'))) i /\
    snd (gstep o i (g, ds)) = snd (gstep o i (g, ds')).

  Lemma run_global : forall sc s, fst (fst (run gstep s sc)) = fst s.
  Proof.
    induction sc as [|[i o] r IH]; intros s; simpl; [reflexivity|].
    destruct (gstep o i s) as [s1 out] eqn:E1.
    destruct (run gstep s1 r) as [s2 outs] eqn:E2. simpl.
    specialize (IH s1). rewrite E2 in IH. simpl in IH. rewrite IH.
    pose proof (global_untouched o i s) as H. rewrite E1 in H. exact H.
  Qed.

  (* generalised projection: two states that agree on G and on document i *)
  Lemma projection_gen : forall i sc g ds ds', ds i = ds' i ->
    snd (fst (run gstep (g, ds) sc)) i = snd (fst (run gstep (g, ds') (project i sc))) i /\
    outputs_of i (snd (run gstep (g, ds) sc)) = outputs_of i (snd (run gstep (g, ds') (project i sc))).
  Proof.
    intros i. unfold state, docs in *. induction sc as [|[j o] r IH]; intros g ds ds' Heq; simpl.
    - split; [exact Heq | reflexivity].
    - destruct (Nat.eqb j i) eqn:Eji; simpl.
      + apply Nat.eqb_eq in Eji. subst j.
        destruct (gstep o i (g, ds)) as [[g1 ds1] out] eqn:E1.
        destruct (gstep o i (g, ds')) as [[g1' ds1'] out'] eqn:E1'.
        pose proof (reads_own_only o i g ds ds' Heq) as [Hd Ho].
        rewrite E1, E1' in Hd, Ho. simpl in Hd, Ho. subst out'.
        pose proof (global_untouched o i (g, ds)) as Hg. rewrite E1 in Hg. simpl in Hg. subst g1.
        pose proof (global_untouched o i (g, ds')) as Hg'. rewrite E1' in Hg'. simpl in Hg'. subst g1'.
        specialize (IH g ds1 ds1' Hd).
        destruct (run gstep (g, ds1) r) as [s2 outs] eqn:E2.
        destruct (run gstep (g, ds1') (project i r)) as [s2' outs'] eqn:E2'.
        simpl in *. destruct IH as [IHa IHb]. unfold outputs_of in *. simpl.
        rewrite Nat.eqb_refl. simpl. split; [exact IHa | f_equal; exact IHb].
      + apply Nat.eqb_neq in Eji.
        destruct (gstep o j (g, ds)) as [[g1 ds1] out] eqn:E1.
        pose proof (global_untouched o j (g, ds)) as Hg. rewrite E1 in Hg. simpl in Hg. subst g1.
        assert (Hd : ds1 i = ds' i).
        { pose proof (others_untouched o j (g, ds) i) as H. rewrite E1 in H. simpl in H.
          rewrite H by (intro; subst; apply Eji; reflexivity). exact Heq. }
        specialize (IH g ds1 ds' Hd).
        destruct (run gstep (g, ds1) r) as [s2 outs] eqn:E2. simpl in *.
        destruct IH as [IHa IHb]. split; [exact IHa|].
        unfold outputs_of in *. simpl. apply Nat.eqb_neq in Eji. rewrite Eji. exact IHb.
  Qed.

  Lemma projection : forall i sc s,
    snd (fst (run gstep s sc)) i = snd (fst (run gstep s (project i sc))) i /\
    outputs_of i (snd (run gstep s sc)) = outputs_of i (snd (run gstep s (project i sc))).
  Proof. intros i sc [g ds]. apply projection_gen. reflexivity. Qed.

  Lemma project_idem : forall i (sc : sched op), project i (project i sc) = project i sc.
  Proof.
    intros i sc. unfold project. induction sc as [|[j o] r IH]; simpl; [reflexivity|].
    destruct (Nat.eqb j i) eqn:E; simpl; [rewrite E; f_equal; exact IH | exact IH].
  Qed.

  (* project i sc is determined by the document's own operation sequence *)
  Lemma project_of_seq : forall i (sc : sched op), project i sc = map (fun o => (i, o)) (map snd (project i sc)).
  Proof.
    intros i sc. unfold project. induction sc as [|[j o] r IH]; simpl; [reflexivity|].
    destruct (Nat.eqb j i) eqn:E; simpl; [|exact IH].
    apply Nat.eqb_eq in E. subst j. f_equal. exact IH.
  Qed.

  Lemma any_two_interleavings : forall seqs sc1 sc2 i s,
    interleaving seqs sc1 -> interleaving seqs sc2 ->
    snd (fst (run gstep s sc1)) i = snd (fst (run gstep s sc2)) i /\
    outputs_of i (snd (run gstep s sc1)) = outputs_of i (snd (run gstep s sc2)).
  Proof.
    intros seqs sc1 sc2 i s H1 H2.
    destruct (projection i sc1 s) as [A1 B1]. destruct (projection i sc2 s) as [A2 B2].
    assert (P : project i sc1 = project i sc2).
    { rewrite (project_of_seq i sc1), (project_of_seq i sc2). rewrite (H1 i), (H2 i). reflexivity. }
    rewrite A1, B1, A2, B2, P. split; reflexivity.
  Qed.
End Footprint.

(* ---- the concrete instance meets the discipline *)
Lemma t_global : forall o i s, fst (fst (tgstep o i s)) = fst s.
Proof. intros o i [g ds]. unfold tgstep. destruct (tstep_doc g o (ds i)). reflexivity. Qed.

Lemma t_others : forall o i s j, j <> i -> snd (fst (tgstep o i s)) j = snd s j.
Proof.
  intros o i [g ds] j Hj. unfold tgstep. destruct (tstep_doc g o (ds i)). simpl.
  unfold upd_doc. apply Nat.eqb_neq in Hj. rewrite Hj. reflexivity.
Qed.

Lemma t_own : forall o i g ds ds', ds i = ds' i ->
  snd (fst (tgstep o i (g, ds))) i = snd (fst (tgstep o i (g, ds'))) i /\
  snd (tgstep o i (g, ds)) = snd (tgstep o i (g, ds')).
Proof.
  intros o i g ds ds' H. unfold tgstep. rewrite H. destruct (tstep_doc g o (ds' i)). simpl.
  unfold upd_doc. rewrite Nat.eqb_refl. split; reflexivity.
Qed.
