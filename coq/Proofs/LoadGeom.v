(* C05: Geometry.load refines the declarative reading of the <geometry> element, provided the
   checkSource calls of its primitives did not rename any source's components (the param names of
   the file fit their uses - the only thing Geometry.load changes that the file does not say). *)
From Coq Require Import List Bool ZArith NArith Lia.
From PC Require Import Base.Atoms Base.Xml Base.Outcome Base.Py Model.LoadPrim Model.Namespace Model.LoadDoc
                       Proofs.LoadPrim Proofs.LoadPrimViews Proofs.LoadPrimRefine Proofs.LoadFlat.
Import ListNotations.
Local Open Scope nat_scope.

Definition erase_prim (p : prim_view) : prim_view := mkPrim (p_uid p) (p_kind p) (p_material p) (erase_checks (p_view p)).

Lemma load_prim_is_read : forall sc k e p, load_prim sc k e = Ok p -> read_prim sc k e = Some (erase_prim p).
Proof.
  intros sc k e p H. unfold load_prim in H. unfold read_prim.
  destruct (omapM load_input (efindall a_input e)) as [ins|]; [|discriminate]. cbn [obind] in H.
  destruct (load_primitive sc k ins (option_map etext (efind a_vcount e)) (map etext (efindall a_p e))) as [pv|] eqn:L;
    [|discriminate]. cbn [obind] in H. injection H as <-.
  rewrite (load_primitive_is_read _ _ _ _ _ _ L). reflexivity.
Qed.

Lemma load_source_is_read : forall numtab e s, load_source numtab e = Ok s -> read_source numtab e = Some s.
Proof.
  intros numtab e s H. unfold read_source. unfold load_source in H.
  destruct (efind a_float_array e) as [arr|] eqn:F.
  - now apply (load_float_source_is_read numtab e arr).
  - unfold load_source. rewrite F. now rewrite H.
Qed.

Lemma omapM_all_some {A B} (f : A -> outcome B) (g : A -> option B) : forall l r,
  (forall x y, f x = Ok y -> g x = Some y) -> omapM f l = Ok r -> all_some (map g l) = Some r.
Proof.
  induction l as [|x l IH]; intros r Hfg H; simpl in H.
  - injection H as <-. reflexivity.
  - destruct (f x) as [y|] eqn:E; [|discriminate]. destruct (omapM f l) as [ys|] eqn:M; [|discriminate].
    injection H as <-. simpl. rewrite (Hfg _ _ E). now rewrite (IH ys Hfg eq_refl).
Qed.

Lemma all_some_app {A} : forall (a b : list (option A)) ra rb,
  all_some a = Some ra -> all_some b = Some rb -> all_some (a ++ b) = Some (ra ++ rb).
Proof.
  induction a as [|[x|] a IH]; intros b ra rb Ha Hb; simpl in *; try discriminate.
  - injection Ha as <-. exact Hb.
  - destruct (all_some a) as [r|] eqn:E; [|discriminate]. injection Ha as <-.
    now rewrite (IH b r rb eq_refl Hb).
Qed.

(* the primitives of a mesh, one after the other *)
Lemma load_prims_is_read : forall sc kids srcs ps srcs',
  load_prims sc srcs kids = Ok (ps, srcs') ->
  all_some (flat_map (fun c => match pkind_of c with Some k => [read_prim sc k c] | None => [] end) kids)
  = Some (map erase_prim ps).
Proof.
  intros sc kids. induction kids as [|c kids IH]; intros srcs ps srcs' H; simpl in H.
  - injection H as <- <-. reflexivity.
  - simpl flat_map. destruct (pkind_of c) as [k|] eqn:K.
    + destruct (load_prim sc k c) as [p|] eqn:L; [|discriminate]. cbn [obind] in H.
      destruct (apply_checks srcs (pv_checks (p_view p))) as [s1|]; [|discriminate]. cbn [obind] in H.
      destruct (load_prims sc s1 kids) as [[rest s2]|] eqn:R; [|discriminate]. cbn [obind fst snd] in H.
      injection H as <- <-. simpl map.
      change (read_prim sc k c :: flat_map _ kids) with ([read_prim sc k c] ++ flat_map (fun c0 => match pkind_of c0 with Some k0 => [read_prim sc k0 c0] | None => [] end) kids).
      apply (all_some_app _ _ [erase_prim p] (map erase_prim rest)).
      * simpl. now rewrite (load_prim_is_read _ _ _ _ L).
      * now apply (IH s1 rest s2).
    + destruct (has_own a_source c || has_own a_vertices c || has_own a_extra c); [|discriminate].
      simpl. now apply (IH srcs ps srcs').
Qed.

Definition erase_geom (g : geom_view) (srcs : list source_view) : geom_view :=
  mkGeom (g_uid g) (g_id g) (g_name g) (g_double_sided g) srcs (g_keys g) (map erase_prim (g_prims g)).


Theorem load_geometry_is_read : forall numtab e g,
  load_geometry numtab e = Ok g ->
  exists srcs, omapM (load_source numtab) (efindall_path [a_mesh; a_source] e) = Ok srcs /\
               read_geometry numtab e = Some (erase_geom g srcs).
Proof.
  intros numtab e g H. unfold load_geometry in H. unfold read_geometry.
  destruct (efind a_mesh e) as [mesh|]; [|discriminate].
  destruct (omapM (load_source numtab) (efindall_path [a_mesh; a_source] e)) as [srcs|] eqn:S; [|discriminate].
  cbn [obind] in H. exists srcs. split; [reflexivity|].
  rewrite (omapM_all_some _ (read_source numtab) _ _ (load_source_is_read numtab) S).
  destruct (omapM (fun s => omap (fun a => (a, ESrc (s_uid s))) (id_atom (s_id s))) srcs) as [kv|]; [|discriminate].
  cbn [obind] in H.
  set (sc0 := dict_of kv []) in *.
  assert (SC : exists sc,
     (match efind a_vertices mesh with
      | None => Some sc0
      | Some v => match omapM (vertices_entry sc0) (efindall a_input v), eattr a_id v with
                  | Ok es, Some (AStr vid) => Some (dset N.eqb sc0 vid (EVerts (dict_of es [])))
                  | _, _ => None
                  end
      end) = Some sc /\
     obind (load_prims sc srcs (ekids mesh)) (fun ps =>
       Ok (mkGeom (euid e) (or_empty (eattr a_id e)) (or_empty (eattr a_name e))
                  (flag_one (find_under_extra a_double_sided e)) (snd ps) sc (fst ps))) = Ok g).
  { destruct (efind a_vertices mesh) as [v|].
    - destruct (omapM (vertices_entry sc0) (efindall a_input v)) as [es|]; [|discriminate]. cbn [obind] in H.
      destruct (eattr a_id v) as [vid|]; [|discriminate].
      destruct (dict_of es []) as [|d0 dr] eqn:D; [discriminate|]. rewrite <- D in *.
      destruct (existsb (fun p => N.eqb (fst p) a_POSITION) (dict_of es [])); [|discriminate].
      destruct vid as [a|h a|z]; try discriminate. simpl in H.
      exists (dset N.eqb sc0 a (EVerts (dict_of es []))). split; [reflexivity|exact H].
    - cbn [obind] in H. exists sc0. split; [reflexivity|exact H]. }
  destruct SC as (sc & -> & H2).
  destruct (load_prims sc srcs (ekids mesh)) as [[ps srcs']|] eqn:P; [|discriminate].
  cbn [obind fst snd] in H2. injection H2 as <-.
  rewrite (load_prims_is_read _ _ _ _ _ P). reflexivity.
Qed.

(* when no checkSource call renamed a source, nothing but the record of those calls differs *)
Corollary load_geometry_is_read_fitting : forall numtab e g srcs,
  load_geometry numtab e = Ok g ->
  omapM (load_source numtab) (efindall_path [a_mesh; a_source] e) = Ok srcs ->
  g_sources g = srcs ->
  read_geometry numtab e = Some (erase_geom g (g_sources g)).
Proof.
  intros numtab e g srcs H S E. destruct (load_geometry_is_read _ _ _ H) as (srcs0 & S0 & R).
  rewrite S in S0. injection S0 as <-. now rewrite E.
Qed.
