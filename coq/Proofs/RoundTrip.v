(* Proofs for C01 (Model/RoundTrip.v). *)
From Coq Require Import List ZArith.
From PC Require Import Base.Num Model.RoundTrip.
Import ListNotations.

Section Generic.
  Context {M B : Type} (c : codec M B).
  Hypothesis L : law c.

  Lemma reload_norm m : reload c m = Some (cnorm c m).
  Proof. destruct L as [L1 _]. apply L1. Qed.

  (* the first reloaded generation is a fixed point of write-then-load ... *)
  Lemma gen1_model_fixed m0 m1 : reload c m0 = Some m1 -> reload c m1 = Some m1.
  Proof.
    destruct L as [L1 L2]. unfold reload. rewrite L1. intro H. inversion H. subst m1.
    rewrite L1, L2. reflexivity.
  Qed.

  (* ... and its bytes do not change any more *)
  Lemma gen1_bytes_fixed m0 m1 m2 :
    reload c m0 = Some m1 -> reload c m1 = Some m2 ->
    m2 = m1 /\ gen_bytes c m2 = gen_bytes c m1.
  Proof.
    intros H1 H2. rewrite (gen1_model_fixed _ _ H1) in H2. inversion H2. split; reflexivity.
  Qed.

  (* whenever a load succeeded on bytes this codec wrote, the write of the result loads *)
  Lemma write_after_load_total m0 m1 : reload c m0 = Some m1 -> exists m2, reload c m1 = Some m2.
  Proof. intro H. exists m1. eapply gen1_model_fixed. exact H. Qed.
End Generic.

(* ---- closure of the law *)

Lemma law_pair {M1 B1 M2 B2} (c1 : codec M1 B1) (c2 : codec M2 B2) :
  law c1 -> law c2 -> law (pair_codec c1 c2).
Proof.
  intros [A1 A2] [B1' B2']. split.
  - intros [a b]. simpl. rewrite A1. simpl. rewrite B1'. reflexivity.
  - intros [a b]. simpl. rewrite A2, B2'. reflexivity.
Qed.

Lemma law_list {M B} (c : codec M B) : law c -> law (list_codec c).
Proof.
  intros [A1 A2]. split.
  - intro l. simpl. induction l as [|m l IH]; [reflexivity|]. simpl. rewrite A1. simpl. rewrite IH. reflexivity.
  - intro l. simpl. induction l as [|m l IH]; [reflexivity|]. simpl. rewrite A2, IH. reflexivity.
Qed.

Lemma law_option {M B} (c : codec M B) : law c -> law (option_codec c).
Proof.
  intros [A1 A2]. split.
  - intros [m|]; simpl; [rewrite A1|]; reflexivity.
  - intros [m|]; simpl; [rewrite A2|]; reflexivity.
Qed.

Lemma law_exact M : law (exact_codec M).
Proof. split; reflexivity. Qed.

(* ---- the numeric codecs *)
Section Numeric.
  Variable X T : Type.
  Variable fmt7 : X -> T.
  Variable parse32 : T -> X.
  Hypothesis H_num_stable : forall x, parse32 (fmt7 (parse32 (fmt7 x))) = parse32 (fmt7 x).

  Lemma parse_emit_floats d : parse_floats X T parse32 (emit_floats X T fmt7 d) = map (norm X T fmt7 parse32) d.
  Proof. unfold parse_floats, emit_floats. rewrite map_map. reflexivity. Qed.

  Lemma law_float : law (float_codec X T fmt7 parse32).
  Proof.
    split.
    - intro d. simpl. rewrite parse_emit_floats. reflexivity.
    - intro d. simpl. apply map_norm_idem. exact H_num_stable.
  Qed.

  (* generation 2 and generation 3 of a float array are the same tokens *)
  Lemma float_tokens_fixed d :
    let d1 := parse_floats X T parse32 (emit_floats X T fmt7 d) in
    let d2 := parse_floats X T parse32 (emit_floats X T fmt7 d1) in
    d2 = d1 /\ emit_floats X T fmt7 d2 = emit_floats X T fmt7 d1.
  Proof.
    simpl. rewrite !parse_emit_floats. rewrite (map_norm_idem X T fmt7 parse32 H_num_stable). split; reflexivity.
  Qed.

  Variable fmt_int : Z -> T.
  Variable parse_int : T -> option Z.
  Hypothesis H_int : forall z, parse_int (fmt_int z) = Some z.

  Lemma parse_emit_index l : parse_index T parse_int (emit_index T fmt_int l) = Some l.
  Proof.
    unfold parse_index, emit_index. induction l as [|z l IH]; [reflexivity|].
    simpl. rewrite H_int. simpl. rewrite IH. reflexivity.
  Qed.

  Lemma law_index : law (index_codec T fmt_int parse_int).
  Proof. split; [intro l; simpl; apply parse_emit_index | reflexivity]. Qed.
End Numeric.

(* ---- conditional laws *)
Lemma lawP_of_law {M B} (c : codec M B) : law c -> lawP (fun _ => True) c.
Proof. intros [A1 A2]. split; intros m _; [split; [apply A1 | exact I] | apply A2]. Qed.

Lemma lawP_exact_read {M B} (P : M -> Prop) (emit : M -> B) (read : B -> option M) :
  (forall m, P m -> read (emit m) = Some m) -> lawP P (Codec emit read (fun m => m)).
Proof. intro H. split; intros m Pm; simpl; [split; [apply H; exact Pm | exact Pm] | reflexivity]. Qed.

Lemma lawP_pair {M1 B1 M2 B2} P1 P2 (c1 : codec M1 B1) (c2 : codec M2 B2) :
  lawP P1 c1 -> lawP P2 c2 -> lawP (fun m => P1 (fst m) /\ P2 (snd m)) (pair_codec c1 c2).
Proof.
  intros [A1 A2] [B1' B2']. split.
  - intros [a b] [Pa Pb]. simpl in *. destruct (A1 a Pa) as [Ha Pa']. destruct (B1' b Pb) as [Hb Pb'].
    rewrite Ha. simpl. rewrite Hb. simpl. auto.
  - intros [a b] [Pa Pb]. simpl in *. rewrite (A2 a Pa), (B2' b Pb). reflexivity.
Qed.

Lemma lawP_list {M B} P (c : codec M B) : lawP P c -> lawP (Forall P) (list_codec c).
Proof.
  intros [A1 A2]. split.
  - intros l Hl. simpl. induction Hl as [|m l Pm Hl IH]; [split; [reflexivity | constructor]|].
    destruct (A1 m Pm) as [Hm Pm']. destruct IH as [IH1 IH2]. simpl. rewrite Hm. simpl. rewrite IH1. simpl.
    split; [reflexivity | constructor; assumption].
  - intros l Hl. simpl. induction Hl as [|m l Pm Hl IH]; [reflexivity|]. simpl. rewrite (A2 m Pm), IH. reflexivity.
Qed.

Section GenericP.
  Context {M B : Type} (P : M -> Prop) (c : codec M B).
  Hypothesis L : lawP P c.

  Lemma gen1_fixed_P m0 m1 m2 :
    P m0 -> reload c m0 = Some m1 -> reload c m1 = Some m2 ->
    P m1 /\ m2 = m1 /\ gen_bytes c m2 = gen_bytes c m1 /\ reload c m2 = Some m2.
  Proof.
    destruct L as [L1 L2]. intros P0 H1 H2. unfold reload in *.
    destruct (L1 m0 P0) as [E0 P1]. rewrite E0 in H1. inversion H1. subst m1.
    destruct (L1 _ P1) as [E1 _]. rewrite E1, (L2 m0 P0) in H2. inversion H2. subst m2.
    repeat split; try assumption. rewrite E1, (L2 m0 P0). reflexivity.
  Qed.

  Lemma write_after_load_total_P m0 m1 : P m0 -> reload c m0 = Some m1 -> exists m2, reload c m1 = Some m2.
  Proof.
    destruct L as [L1 L2]. intros P0 H1. unfold reload in *.
    destruct (L1 m0 P0) as [E0 P1]. rewrite E0 in H1. inversion H1. subst m1.
    destruct (L1 _ P1) as [E1 _]. eauto.
  Qed.
End GenericP.
