(* C04 - the ids of the emitted document are exactly the ids the user model carries (library
   objects, nodes, scenes) plus the ones the writer derives (array id of every source, id of
   <vertices>), in document order.  Hence distinctness can be asked of the user model. *)
From Coq Require Import List Bool ZArith NArith Lia.
From PC Require Import Base.Atoms Base.Xml Model.SchemaSyntax Model.Schema Model.Bookkeeping Model.EmitDoc Proofs.BookProofs.
Import ListNotations.

Definition own_id (a : list (atom * aval)) : list aval := match attr a_id a with Some v => [v] | None => [] end.

Lemma all_ids_El : forall u n t a tx k, all_ids (El u n t a tx k) = own_id a ++ flat_map all_ids k.
Proof.
  intros. unfold all_ids. cbn [descendants fold_right]. unfold xattr at 1. cbn [xattrs]. unfold own_id.
  assert (H : fold_right (fun e acc => match xattr a_id e with Some v => v :: acc | None => acc end) []
                ((fix go (l : list xml) : list xml := match l with [] => [] | c :: r => descendants c ++ go r end) k)
              = flat_map all_ids k).
  { induction k as [|c k IH]; [reflexivity|]. cbn [flat_map].
    change (fun e acc => match xattr a_id e with Some v => v :: acc | None => acc end) with id_of in *.
    rewrite fold_ids_app. f_equal. exact IH. }
  rewrite H. destruct (attr a_id a); reflexivity.
Qed.

Lemma all_ids_el : forall t a tx k, all_ids (el t a tx k) = own_id a ++ flat_map all_ids k.
Proof. intros. apply all_ids_El. Qed.

Lemma ids_txt : forall t l, all_ids (txt t l) = [].
Proof. reflexivity. Qed.

Lemma fm_opt_nil : forall A (f : A -> xml) o, (forall v, all_ids (f v) = []) -> flat_map all_ids (opt_el f o) = [].
Proof. intros A f [v|] H; cbn; [rewrite H|]; reflexivity. Qed.

Lemma fm_map : forall A (f : A -> xml) l, flat_map all_ids (map f l) = flat_map (fun v => all_ids (f v)) l.
Proof. induction l; cbn; [reflexivity | now rewrite IHl]. Qed.

Lemma fm_map_nil : forall A (f : A -> xml) l, (forall v, all_ids (f v) = []) -> flat_map all_ids (map f l) = [].
Proof. intros. rewrite fm_map. induction l; cbn; [reflexivity | now rewrite H, IHl]. Qed.

Ltac fm := repeat first [rewrite flat_map_app | progress cbn [flat_map app own_id attr] | rewrite ids_txt
                         | rewrite fm_opt_nil by (intros; reflexivity)].

(* ---- per class *)
Lemma ids_contributor : forall c, all_ids (emit_contributor c) = [].
Proof. intros c. unfold emit_contributor. rewrite all_ids_el. fm. reflexivity. Qed.

Lemma ids_asset : forall a, all_ids (emit_asset a) = [].
Proof.
  intros a. unfold emit_asset. rewrite all_ids_el. fm. rewrite (fm_map_nil _ _ _ ids_contributor). fm.
  assert (H : forall o, flat_map all_ids (opt_el emit_unit o) = []) by (intros [u|]; reflexivity).
  rewrite ?H. reflexivity.
Qed.

Lemma ids_camera : forall c, all_ids (emit_camera c) = [cam_id c].
Proof.
  intros c. unfold emit_camera. rewrite all_ids_el. cbn [own_id attr N.eqb a_id Pos.eqb].
  fm. rewrite all_ids_el. fm. rewrite all_ids_el. fm. rewrite all_ids_el. fm. reflexivity.
Qed.

Lemma ids_light : forall l, all_ids (emit_light l) = [l_id l].
Proof.
  intros l. unfold emit_light. rewrite all_ids_el. cbn [own_id attr N.eqb]. fm.
  rewrite all_ids_el. fm.
  unfold emit_light_body. destruct (l_kind l); rewrite all_ids_el; fm; reflexivity.
Qed.

Lemma ids_image : forall i, all_ids (emit_image i) = [i_id i].
Proof. reflexivity. Qed.

Lemma ids_material : forall m, all_ids (emit_material m) = [m_id m].
Proof. reflexivity. Qed.

Lemma ids_pval : forall v, all_ids (emit_pval v) = [].
Proof. intros [l|l|s t]; reflexivity. Qed.

Lemma ids_prop : forall n (z : bool) v, all_ids (emit_prop n (if z then [(a_opaque, AStr a_RGB_ZERO)] else []) v) = [].
Proof. intros n z v. unfold emit_prop. rewrite all_ids_el. destruct z; cbn [own_id attr flat_map app]; now rewrite ids_pval. Qed.

Lemma ids_prop0 : forall n v, all_ids (emit_prop n [] v) = [].
Proof. intros. exact (ids_prop n false v). Qed.

Lemma ids_eparam : forall p, all_ids (emit_eparam p) = [].
Proof.
  intros [sid img fmt|sid sf mn mg]; [reflexivity|].
  unfold emit_eparam. rewrite all_ids_el. fm. rewrite all_ids_el. fm. reflexivity.
Qed.

Lemma ids_shader : forall e, all_ids (emit_shader e) = [].
Proof.
  intros e. unfold emit_shader. rewrite all_ids_el. fm.
  rewrite !fm_opt_nil by (intros; first [apply ids_prop0 | apply ids_prop]). reflexivity.
Qed.

Lemma ids_effect : forall e, all_ids (emit_effect e) = [e_id e].
Proof.
  intros e. unfold emit_effect. rewrite all_ids_el. cbn [own_id attr N.eqb]. fm.
  rewrite all_ids_el. fm. rewrite (fm_map_nil _ _ _ ids_eparam). fm.
  rewrite all_ids_el. fm. rewrite ids_shader. reflexivity.
Qed.

Definition src_ids (s : srcm) : list aval := [AStr (sm_id s); AStr (sm_arr_id s)].

Lemma ids_source : forall s, all_ids (emit_source s) = src_ids s.
Proof.
  intros s. unfold emit_source. cbv zeta.
  repeat (rewrite all_ids_El; cbn [own_id attr flat_map app]).
  rewrite fm_map_nil by (intros; reflexivity). reflexivity.
Qed.

Lemma ids_input : forall i, all_ids (emit_input i) = [].
Proof. intros [o s r st]. unfold emit_input. rewrite all_ids_El. destruct st; reflexivity. Qed.

Lemma ids_prim : forall p, all_ids (emit_prim p) = [].
Proof.
  intros [k ins idx m]. unfold emit_prim, mat_attr. cbn [pm_kind pm_inputs pm_index pm_material].
  destruct k; rewrite all_ids_El; destruct m; cbn [own_id attr app]; rewrite ?flat_map_app, ?fm_map_nil by (first [apply ids_input | intros; reflexivity]);
    reflexivity.
Qed.

Definition geom_ids (g : geometry) : list aval :=
  g_id g :: src_ids (g_src0 g) ++ flat_map src_ids (g_sources g) ++ [AStr (g_vid g)].

Lemma ids_geometry : forall g, all_ids (emit_geometry g) = geom_ids g.
Proof.
  intros g. unfold emit_geometry, geom_ids. rewrite all_ids_el.
  assert (Ho : own_id ((a_id, g_id g) :: opt_at a_name (g_name g)) = [g_id g]) by reflexivity.
  rewrite Ho. fm. rewrite all_ids_el. fm.
  rewrite ids_source, fm_map, (flat_map_ext _ _ ids_source).
  rewrite fm_map_nil by (intros; apply ids_prim).
  assert (Hds : flat_map all_ids (if g_ds g then [emit_ds_extra a_GOOGLEEARTH [TInt 1%Z]] else []) = []) by (destruct (g_ds g); reflexivity).
  rewrite Hds. unfold emit_vertices. rewrite all_ids_el.
  cbn. rewrite ?app_nil_r. rewrite <- ?app_assoc. cbn. reflexivity.
Qed.

Fixpoint node_ids (n : snode) : list aval :=
  match n with
  | SNode id _ _ kids => id :: (fix go (l : list snode) : list aval := match l with [] => [] | c :: r => node_ids c ++ go r end) kids
  | _ => []
  end.

Lemma ids_matnode : forall m, all_ids (emit_matnode m) = [].
Proof.
  intros m. unfold emit_matnode. rewrite all_ids_el. cbn [own_id attr app].
  apply fm_map_nil. intros [s i st]. unfold emit_bvi. rewrite all_ids_el. destruct st; reflexivity.
Qed.

Section SnodeInd.
  Variable P : snode -> Prop.
  Hypothesis Hn : forall id name ts kids, Forall P kids -> P (SNode id name ts kids).
  Hypothesis Hc : forall u, P (SCamera u).
  Hypothesis Hg : forall u m, P (SGeometry u m).
  Hypothesis Hl : forall u, P (SLight u).
  Hypothesis Hi : forall u, P (SInst u).
  Hypothesis He : P SExtra.
  Fixpoint snode_rect' (n : snode) : P n :=
    match n with
    | SNode id name ts kids =>
        Hn id name ts kids ((fix go (l : list snode) : Forall P l :=
                               match l with [] => Forall_nil P | c :: r => Forall_cons c (snode_rect' c) (go r) end) kids)
    | SCamera u => Hc u | SGeometry u m => Hg u m | SLight u => Hl u | SInst u => Hi u | SExtra => He
    end.
End SnodeInd.

Lemma ids_snode : forall n, all_ids (emit_snode n) = node_ids n.
Proof.
  apply snode_rect'; try reflexivity.
  - intros id name ts kids IH. cbn [emit_snode node_ids]. rewrite all_ids_el.
    assert (Ho : own_id [(a_id, id); (a_name, name)] = [id]) by reflexivity. rewrite Ho.
    rewrite flat_map_app. rewrite fm_map_nil by (intros [k l]; reflexivity). cbn [app]. f_equal.
    clear Ho. induction IH as [|c r Hc _ IHr]; [reflexivity|]. cbn [map flat_map]. rewrite Hc. f_equal. exact IHr.
  - intros u mats. cbn [emit_snode node_ids]. rewrite all_ids_el. cbn [own_id attr app].
    destruct mats as [|m ms]; [reflexivity|]. cbn [flat_map]. rewrite !all_ids_el. cbn [own_id attr flat_map app].
    rewrite all_ids_el. cbn [own_id attr app]. rewrite fm_map_nil by apply ids_matnode. reflexivity.
Qed.

Definition scene_ids (s : vscene) : list aval := sc_id s :: node_ids (sc_node0 s) ++ flat_map node_ids (sc_nodes s).

Lemma ids_vscene : forall s, all_ids (emit_vscene s) = scene_ids s.
Proof.
  intros s. unfold emit_vscene, scene_ids. rewrite all_ids_el. cbn [own_id attr N.eqb flat_map]. rewrite ids_snode.
  rewrite fm_map. now rewrite (flat_map_ext _ _ ids_snode).
Qed.

Lemma ids_lib : forall t kids, flat_map all_ids (emit_lib t kids) = flat_map all_ids kids.
Proof.
  intros t [|k ks]; [reflexivity|]. unfold emit_lib. cbn [flat_map]. rewrite all_ids_el. cbn [own_id attr app].
  now rewrite app_nil_r.
Qed.

(* ---- the document *)
Definition user_ids (d : doc) : list aval :=
  map cam_id (d_cameras d) ++ map e_id (d_effects d) ++ flat_map geom_ids (d_geometries d) ++ map i_id (d_images d) ++
  map l_id (d_lights d) ++ map m_id (d_materials d) ++ flat_map node_ids (d_nodes d) ++ flat_map scene_ids (d_scenes d).

Lemma fm_single : forall A (f : A -> xml) (g : A -> aval) l, (forall v, all_ids (f v) = [g v]) -> flat_map all_ids (map f l) = map g l.
Proof. intros. rewrite fm_map. induction l; cbn; [reflexivity | now rewrite H, IHl]. Qed.

Theorem emitted_ids : forall d, all_ids (emit d) = user_ids d.
Proof.
  intros d. unfold emit. rewrite all_ids_el. cbn [own_id attr app N.eqb]. cbn [flat_map].
  rewrite ids_asset. cbn [app]. rewrite flat_map_app. unfold emit_libs. rewrite !flat_map_app, !ids_lib.
  rewrite (fm_single _ _ cam_id _ ids_camera), (fm_single _ _ e_id _ ids_effect), (fm_single _ _ i_id _ ids_image),
          (fm_single _ _ l_id _ ids_light), (fm_single _ _ m_id _ ids_material).
  rewrite !fm_map. rewrite (flat_map_ext _ _ ids_geometry), (flat_map_ext _ _ ids_snode), (flat_map_ext _ _ ids_vscene).
  cbn [flat_map]. rewrite all_ids_el. cbn [own_id attr app].
  assert (Hs : flat_map all_ids (opt_el (emit_url a_instance_visual_scene) (d_scene d)) = []) by (apply fm_opt_nil; reflexivity).
  rewrite Hs. unfold user_ids. cbn [app]. rewrite ?app_nil_r. rewrite <- ?app_assoc. reflexivity.
Qed.

Definition user_ids_distinct (d : doc) : bool := Nat.eqb (dup_count (user_ids d)) 0.

Theorem user_ids_distinct_emitted : forall d, user_ids_distinct d = true -> ids_distinct d = true.
Proof. intros d H. unfold ids_distinct. rewrite emitted_ids. exact H. Qed.
