(* Lemmas for C11, triangulation of polylists / polygons: the numpy statement sequence of
   Polylist.triangleset computes, for every vector of polygon lengths, the fan around each
   polygon's first corner in polygon order; naturality; counts; per-polygon = whole. *)
From Coq Require Import List Bool ZArith Arith Lia ZifyNat.
From PC Require Import Base.Outcome Base.Py Base.PySlice Base.NpProg Gen.Triangulate Model.Strips Proofs.Strips Model.Triangulate.
Import ListNotations.
Local Open Scope nat_scope.
Ltac Zify.zify_post_hook ::= Z.div_mod_to_equations.

(* ------------------------------------------------------------------ numpy helpers *)

Lemma omapM_map_ok {A B} (f : A -> outcome B) (g : A -> B) l :
  (forall x, In x l -> f x = Ok (g x)) -> omapM f l = Ok (map g l).
Proof.
  induction l as [|x l IH]; intro H; [reflexivity|].
  simpl. rewrite (H x) by (left; reflexivity). rewrite IH; [reflexivity|].
  intros y Hy. apply H. right. exact Hy.
Qed.

Lemma norm_index_nat len k : k < len -> norm_index len (Z.of_nat k) = Some k.
Proof.
  intro H. unfold norm_index.
  destruct (0 <=? Z.of_nat k)%Z eqn:E1; [|lia].
  destruct (Z.of_nat k <? Z.of_nat len)%Z eqn:E2; [|lia].
  f_equal. lia.
Qed.

Lemma np_take_nat {A} (d : A) l ks : (forall k, In k ks -> k < length l) ->
  np_take l (map Z.of_nat ks) = Ok (map (fun k => nth k l d) ks).
Proof.
  intro H. unfold np_take.
  rewrite (omapM_map_ok _ (fun z => nth (Z.to_nat z) l d)).
  - rewrite map_map. f_equal. apply map_ext. intro k. rewrite Nat2Z.id. reflexivity.
  - intros z Hz. apply in_map_iff in Hz. destruct Hz as [k [Hk Hin]]. subst z.
    rewrite norm_index_nat by (apply H; exact Hin).
    rewrite Nat2Z.id. rewrite (nth_error_nth' l d) by (apply H; exact Hin). reflexivity.
Qed.

Lemma np_take_seq n ks : (forall k, In k ks -> k < n) -> np_take (seq 0 n) (map Z.of_nat ks) = Ok ks.
Proof.
  intro H. rewrite (np_take_nat 0) by (rewrite seq_length; exact H).
  f_equal. rewrite <- (map_id ks) at 2. apply map_ext_in. intros k Hk. apply seq_nth. apply H. exact Hk.
Qed.

Lemma omapM_natural {X A B} (g : A -> B) (F : X -> outcome A) (F' : X -> outcome B) l :
  (forall x, F' x = omap g (F x)) -> omapM F' l = omap (map g) (omapM F l).
Proof.
  intro H. induction l as [|x l IH]; [reflexivity|].
  simpl. rewrite H, IH. destruct (F x); [|reflexivity]. destruct (omapM F l); reflexivity.
Qed.

Lemma np_take_map {A B} (f : A -> B) l idx : np_take (map f l) idx = omap (map f) (np_take l idx).
Proof.
  unfold np_take. apply omapM_natural. intro z. rewrite map_length.
  destruct (norm_index (length l) z) as [k|]; [|reflexivity].
  rewrite nth_error_map. destruct (nth_error l k); reflexivity.
Qed.

Lemma np_put_nat {A} (l : list A) ks v : (forall k, In k ks -> k < length l) ->
  np_put l (map Z.of_nat ks) v = Ok (set_all v ks l).
Proof.
  intro H. unfold np_put.
  rewrite (omapM_map_ok _ Z.to_nat).
  - simpl. rewrite map_map. f_equal. f_equal. rewrite <- (map_id ks) at 2. apply map_ext. intro k. apply Nat2Z.id.
  - intros z Hz. apply in_map_iff in Hz. destruct Hz as [k [Hk Hin]]. subst z.
    rewrite norm_index_nat by (apply H; exact Hin). rewrite Nat2Z.id. reflexivity.
Qed.

Lemma replace_at_length {A} k (v : A) l : k < length l -> length (replace_at k v l) = length l.
Proof.
  intro H. unfold replace_at. rewrite app_length, firstn_length. cbn [length]. rewrite skipn_length. lia.
Qed.

Lemma replace_at_nth {A} k (v d : A) l j : k < length l ->
  nth j (replace_at k v l) d = if Nat.eqb j k then v else nth j l d.
Proof.
  intro H. unfold replace_at.
  destruct (Nat.eqb j k) eqn:E.
  - apply Nat.eqb_eq in E. subst j. rewrite app_nth2; rewrite firstn_length; [|lia].
    replace (k - Nat.min k (length l)) with 0 by lia. reflexivity.
  - apply Nat.eqb_neq in E. destruct (Nat.lt_ge_cases j k) as [Hlt|Hge].
    + rewrite app_nth1 by (rewrite firstn_length; lia).
      rewrite <- (firstn_skipn k l) at 2. rewrite app_nth1 by (rewrite firstn_length; lia). reflexivity.
    + rewrite app_nth2 by (rewrite firstn_length; lia). rewrite firstn_length.
      replace (j - Nat.min k (length l)) with (S (j - S k)) by lia. simpl.
      rewrite <- (firstn_skipn (S k) l) at 2.
      rewrite app_nth2 by (rewrite firstn_length; lia). rewrite firstn_length.
      f_equal. lia.
Qed.

Lemma set_all_length {A} (v : A) ks l : (forall k, In k ks -> k < length l) -> length (set_all v ks l) = length l.
Proof.
  revert l. induction ks as [|k ks IH]; intros l H; [reflexivity|].
  simpl. rewrite IH.
  - apply replace_at_length. apply H. left. reflexivity.
  - intros k' Hk'. rewrite replace_at_length by (apply H; left; reflexivity). apply H. right. exact Hk'.
Qed.

Lemma set_all_nth ks : forall (l : list bool) j, (forall k, In k ks -> k < length l) ->
  nth j (set_all false ks l) false = nth j l false && negb (existsb (Nat.eqb j) ks).
Proof.
  induction ks as [|k ks IH]; intros l j H.
  - simpl. rewrite andb_true_r. reflexivity.
  - simpl. rewrite IH.
    + rewrite replace_at_nth by (apply H; left; reflexivity).
      destruct (Nat.eqb j k); simpl; [rewrite andb_false_r; reflexivity|]. reflexivity.
    + intros k' Hk'. rewrite replace_at_length by (apply H; left; reflexivity). apply H. right. exact Hk'.
Qed.

Lemma np_compress_filter mask : forall s,
  np_compress mask (seq s (length mask)) = filter (fun j => nth (j - s) mask false) (seq s (length mask)).
Proof.
  induction mask as [|b mask IH]; intro s; [reflexivity|].
  simpl. rewrite Nat.sub_diag. rewrite IH.
  assert (E : filter (fun j => nth (j - S s) mask false) (seq (S s) (length mask)) =
              filter (fun j => match j - s with 0 => b | S m => nth m mask false end) (seq (S s) (length mask))).
  { apply filter_ext_in. intros j Hj. apply in_seq in Hj.
    replace (j - s) with (S (j - S s)) by lia. reflexivity. }
  rewrite E. destruct b; reflexivity.
Qed.

Lemma seq_shift_add s m : seq s m = map (Nat.add s) (seq 0 m).
Proof.
  revert s. induction m as [|m IH]; intro s; [reflexivity|].
  simpl. rewrite Nat.add_0_r. f_equal. rewrite (IH (S s)), <- seq_shift, map_map.
  apply map_ext. intro i. lia.
Qed.

Lemma zipwith_app {A B C} (f : A -> B -> C) x1 x2 y1 y2 : length x1 = length y1 ->
  zipwith f (x1 ++ x2) (y1 ++ y2) = zipwith f x1 y1 ++ zipwith f x2 y2.
Proof.
  revert y1. induction x1 as [|a x1 IH]; intros [|b y1] H; simpl in H; try discriminate; [reflexivity|].
  simpl. rewrite IH by lia. reflexivity.
Qed.

Lemma zip3_app {A} (x1 x2 y1 y2 z1 z2 : list A) : length x1 = length y1 -> length y1 = length z1 ->
  zip3 (x1 ++ x2) (y1 ++ y2) (z1 ++ z2) = zip3 x1 y1 z1 ++ zip3 x2 y2 z2.
Proof.
  revert y1 z1. induction x1 as [|a x1 IH]; intros [|b y1] [|c z1] H1 H2; simpl in *; try discriminate; [reflexivity|].
  rewrite IH by lia. reflexivity.
Qed.

Lemma filter_all {A} (p : A -> bool) l : (forall x, In x l -> p x = true) -> filter p l = l.
Proof.
  induction l as [|x l IH]; intro H; [reflexivity|].
  simpl. rewrite H by (left; reflexivity). f_equal. apply IH. intros y Hy. apply H. right. exact Hy.
Qed.

(* ------------------------------------------------------------------ the index arithmetic, polygon by polygon *)

Fixpoint starts_from (s : nat) (vc : list nat) : list nat :=
  match vc with [] => [] | c :: r => s :: starts_from (s + c) r end.

(* positions cleared by the first / second assignment *)
Fixpoint last1_from (s : nat) (vc : list nat) : list nat :=
  match vc with
  | [] => []
  | c :: r => (if 1 <=? c then [s + c - 1] else []) ++ last1_from (s + c) r
  end.
Fixpoint last2_from (s : nat) (vc : list nat) : list nat :=
  match vc with
  | [] => []
  | c :: r => (if 2 <=? c then [s + c - 2] else []) ++ last2_from (s + c) r
  end.

(* selected positions, their in-polygon offsets, and the polygon starts repeated *)
Fixpoint sel_from (s : nat) (vc : list nat) : list nat :=
  match vc with [] => [] | c :: r => seq s (c - 2) ++ sel_from (s + c) r end.
Fixpoint fp_of (vc : list nat) : list nat :=
  match vc with [] => [] | c :: r => seq 0 (c - 2) ++ fp_of r end.
Fixpoint a_from (s : nat) (vc : list nat) : list nat :=
  match vc with [] => [] | c :: r => repeat s (c - 2) ++ a_from (s + c) r end.

Lemma starts_eq vc : forall s, zipwith Nat.sub (cumsum_from s vc) vc = starts_from s vc.
Proof.
  induction vc as [|c r IH]; intro s; [reflexivity|].
  simpl. rewrite IH. f_equal. lia.
Qed.

Lemma last1_eq vc : forall s,
  map (fun e => (Z.of_nat e - 1)%Z) (np_compress (map (fun c => 1 <=? c) vc) (cumsum_from s vc)) =
  map Z.of_nat (last1_from s vc).
Proof.
  induction vc as [|c r IH]; intro s; [reflexivity|].
  cbn [map np_compress cumsum_from last1_from]. destruct (1 <=? c) eqn:E.
  - apply Nat.leb_le in E. cbn [map app]. rewrite IH. f_equal. lia.
  - cbn [app]. apply IH.
Qed.

Lemma last2_eq vc : forall s,
  map (fun e => (Z.of_nat e - 2)%Z) (np_compress (map (fun c => 2 <=? c) vc) (cumsum_from s vc)) =
  map Z.of_nat (last2_from s vc).
Proof.
  induction vc as [|c r IH]; intro s; [reflexivity|].
  cbn [map np_compress cumsum_from last2_from]. destruct (2 <=? c) eqn:E.
  - apply Nat.leb_le in E. cbn [map app]. rewrite IH. f_equal. lia.
  - cbn [app]. apply IH.
Qed.

Lemma last1_range vc : forall s k, In k (last1_from s vc) -> s <= k < s + total vc.
Proof.
  induction vc as [|c r IH]; intros s k H; [contradiction|].
  cbn [last1_from] in H. apply in_app_or in H. destruct H as [H|H].
  - destruct (1 <=? c) eqn:E; [|contradiction]. apply Nat.leb_le in E.
    destruct H as [H|[]]. subst k. simpl. lia.
  - apply IH in H. simpl. lia.
Qed.

Lemma last2_range vc : forall s k, In k (last2_from s vc) -> s <= k < s + total vc.
Proof.
  induction vc as [|c r IH]; intros s k H; [contradiction|].
  cbn [last2_from] in H. apply in_app_or in H. destruct H as [H|H].
  - destruct (2 <=? c) eqn:E; [|contradiction]. apply Nat.leb_le in E.
    destruct H as [H|[]]. subst k. simpl. lia.
  - apply IH in H. simpl. lia.
Qed.

Lemma existsb_none (j : nat) ks : (forall k, In k ks -> k <> j) -> existsb (Nat.eqb j) ks = false.
Proof.
  induction ks as [|k ks IH]; intro H; [reflexivity|].
  simpl. rewrite IH by (intros k' Hk'; apply H; right; exact Hk').
  assert (k <> j) by (apply H; left; reflexivity).
  destruct (Nat.eqb j k) eqn:E; [apply Nat.eqb_eq in E; lia | reflexivity].
Qed.

Definition keep (l1 l2 : list nat) (j : nat) : bool :=
  negb (existsb (Nat.eqb j) l1) && negb (existsb (Nat.eqb j) l2).

(* one polygon: the last two positions (as far as they exist) are dropped *)
Lemma keep_one s c :
  filter (keep (if 1 <=? c then [s + c - 1] else []) (if 2 <=? c then [s + c - 2] else [])) (seq s c) = seq s (c - 2).
Proof.
  destruct (Nat.lt_ge_cases c 2) as [Hlt|Hge].
  - destruct c as [|[|c]]; [reflexivity | | lia].
    cbn. unfold keep. cbn. replace (s + 1 - 1) with s by lia. rewrite Nat.eqb_refl. reflexivity.
  - destruct (1 <=? c) eqn:E1; [|apply Nat.leb_gt in E1; lia].
    destruct (2 <=? c) eqn:E2; [|apply Nat.leb_gt in E2; lia].
    remember (c - 2) as m eqn:Em. assert (Hc : c = m + 2) by lia. subst c. clear Em E1 E2 Hge.
    rewrite seq_app, filter_app.
    rewrite filter_all.
    + cbn [seq filter]. unfold keep. cbn [existsb].
      replace (s + (m + 2) - 1) with (S (s + m)) by lia. replace (s + (m + 2) - 2) with (s + m) by lia.
      rewrite !Nat.eqb_refl. rewrite !orb_false_r. cbn [negb]. rewrite andb_false_r, andb_false_l.
      rewrite app_nil_r. reflexivity.
    + intros j Hj. apply in_seq in Hj. unfold keep. cbn [existsb].
      destruct (Nat.eqb j (s + (m + 2) - 1)) eqn:E1; [apply Nat.eqb_eq in E1; lia|].
      destruct (Nat.eqb j (s + (m + 2) - 2)) eqn:E2; [apply Nat.eqb_eq in E2; lia|]. reflexivity.
Qed.

Lemma selected_eq vc : forall s,
  filter (keep (last1_from s vc) (last2_from s vc)) (seq s (total vc)) = sel_from s vc.
Proof.
  induction vc as [|c r IH]; intro s; [reflexivity|].
  cbn [total fold_right]. rewrite seq_app, filter_app. cbn [sel_from]. f_equal.
  - rewrite <- keep_one. apply filter_ext_in. intros j Hj. apply in_seq in Hj.
    unfold keep. cbn [last1_from last2_from]. rewrite !existsb_app.
    rewrite (existsb_none j (last1_from (s + c) r)) by (intros k Hk; apply last1_range in Hk; lia).
    rewrite (existsb_none j (last2_from (s + c) r)) by (intros k Hk; apply last2_range in Hk; lia).
    rewrite !orb_false_r. reflexivity.
  - rewrite <- IH. apply filter_ext_in. intros j Hj. apply in_seq in Hj.
    unfold keep. cbn [last1_from last2_from]. rewrite !existsb_app.
    assert (H1 : existsb (Nat.eqb j) (if 1 <=? c then [s + c - 1] else []) = false).
    { apply existsb_none. intros k Hk. destruct (1 <=? c) eqn:E; [|contradiction].
      apply Nat.leb_le in E. destruct Hk as [Hk|[]]. lia. }
    assert (H2 : existsb (Nat.eqb j) (if 2 <=? c then [s + c - 2] else []) = false).
    { apply existsb_none. intros k Hk. destruct (2 <=? c) eqn:E; [|contradiction].
      apply Nat.leb_le in E. destruct Hk as [Hk|[]]. lia. }
    rewrite H1, H2. reflexivity.
Qed.

Lemma rep_length vc : forall s, length (np_repeat_each (starts_from s vc) vc) = total vc.
Proof.
  induction vc as [|c r IH]; intro s; [reflexivity|].
  simpl. rewrite app_length, repeat_length, IH. reflexivity.
Qed.

Lemma first_one s c : forall i0,
  zipwith (fun j st => (Z.of_nat j - Z.of_nat st)%Z) (seq (s + i0) c) (repeat s c) = map Z.of_nat (seq i0 c).
Proof.
  induction c as [|c IH]; intro i0; [reflexivity|].
  simpl. f_equal; [lia|]. replace (S (s + i0)) with (s + S i0) by lia. apply IH.
Qed.

Lemma first_eq vc : forall s,
  zipwith (fun j st => (Z.of_nat j - Z.of_nat st)%Z) (seq s (total vc)) (np_repeat_each (starts_from s vc) vc) =
  map Z.of_nat (flat_map (seq 0) vc).
Proof.
  induction vc as [|c r IH]; intro s; [reflexivity|].
  simpl. rewrite seq_app, zipwith_app by (rewrite seq_length, repeat_length; reflexivity).
  rewrite map_app, IH. f_equal.
  replace s with (s + 0) at 1 by lia. apply first_one.
Qed.

Lemma sel_range vc : forall s j, In j (sel_from s vc) -> s <= j /\ j + 2 < s + total vc.
Proof.
  induction vc as [|c r IH]; intros s j H; [contradiction|].
  simpl in H. apply in_app_or in H. destruct H as [H|H].
  - apply in_seq in H. simpl. lia.
  - apply IH in H. simpl. lia.
Qed.

Lemma a_range vc : forall s j, In j (a_from s vc) -> s <= j /\ j + 2 < s + total vc.
Proof.
  induction vc as [|c r IH]; intros s j H; [contradiction|].
  simpl in H. apply in_app_or in H. destruct H as [H|H].
  - destruct (c - 2) as [|m] eqn:E; [contradiction|]. apply repeat_spec in H. subst j. simpl. lia.
  - apply IH in H. simpl. lia.
Qed.

Lemma flat_seq_length vc : length (flat_map (seq 0) vc) = total vc.
Proof.
  induction vc as [|c r IH]; [reflexivity|].
  cbn [flat_map]. rewrite app_length, seq_length, IH. reflexivity.
Qed.

Lemma fp_eq vc : forall pre,
  map (fun k => nth k (pre ++ flat_map (seq 0) vc) 0) (sel_from (length pre) vc) = fp_of vc.
Proof.
  induction vc as [|c r IH]; intro pre; [reflexivity|].
  cbn [sel_from fp_of flat_map]. rewrite map_app. f_equal.
  - rewrite (seq_shift_add (length pre)), map_map. rewrite <- (map_id (seq 0 (c - 2))) at 2.
    apply map_ext_in. intros i Hi. apply in_seq in Hi.
    rewrite app_nth2 by lia. replace (length pre + i - length pre) with i by lia.
    rewrite app_nth1 by (rewrite seq_length; lia). apply seq_nth. lia.
  - rewrite app_assoc.
    replace (length pre + c) with (length (pre ++ seq 0 c)) by (rewrite app_length, seq_length; reflexivity).
    apply IH.
Qed.

Lemma nth_repeat_true j n : j < n -> nth j (repeat true n) false = true.
Proof.
  revert j. induction n as [|n IH]; intros j H; [lia|].
  destruct j as [|j]; [reflexivity|]. simpl. apply IH. lia.
Qed.

(* the integer arrays of Polylist.triangleset, for every vector of polygon lengths *)
Lemma selectors_eq vc :
  selectors (total vc) vc = Ok (map Z.of_nat (sel_from 0 vc), map Z.of_nat (fp_of vc)).
Proof.
  unfold selectors, cumsum, tri_clears. rewrite starts_eq.
  cbn [apply_clears]. unfold clear_idx. cbn [fst snd]. rewrite last1_eq.
  assert (R1 : forall k, In k (last1_from 0 vc) -> k < length (repeat true (total vc))).
  { intros k Hk. rewrite repeat_length. apply last1_range in Hk. lia. }
  rewrite np_put_nat by exact R1. cbn [obind]. rewrite last2_eq.
  assert (R2 : forall k, In k (last2_from 0 vc) ->
                         k < length (set_all false (last1_from 0 vc) (repeat true (total vc)))).
  { intros k Hk. rewrite set_all_length by exact R1. rewrite repeat_length. apply last2_range in Hk. lia. }
  rewrite np_put_nat by exact R2. cbn [obind].
  set (sel2 := set_all false (last2_from 0 vc) (set_all false (last1_from 0 vc) (repeat true (total vc)))).
  assert (Hlen : length sel2 = total vc).
  { unfold sel2. rewrite set_all_length by exact R2. rewrite set_all_length by exact R1. apply repeat_length. }
  assert (Hsel : np_compress sel2 (seq 0 (total vc)) = sel_from 0 vc).
  { rewrite <- Hlen. rewrite np_compress_filter. rewrite Hlen. rewrite <- selected_eq.
    apply filter_ext_in. intros j Hj. apply in_seq in Hj. rewrite Nat.sub_0_r.
    unfold sel2. rewrite set_all_nth by exact R2. rewrite set_all_nth by exact R1.
    rewrite nth_repeat_true by lia. reflexivity. }
  unfold np_mask. rewrite seq_length, Hlen, Nat.eqb_refl. cbn [obind]. rewrite Hsel.
  rewrite rep_length, Nat.eqb_refl. cbn [negb].
  rewrite first_eq.
  rewrite (np_take_nat 0%Z).
  - cbn [obind]. f_equal. f_equal. rewrite <- (fp_eq vc []). rewrite map_map.
    apply map_ext. intro k. cbn [app length]. change 0%Z with (Z.of_nat 0). apply map_nth.
  - intros k Hk. rewrite map_length, flat_seq_length. apply sel_range in Hk. lia.
Qed.

(* ------------------------------------------------------------------ the gathers *)

Lemma sub_one s m : forall i0,
  zipwith Z.sub (map Z.of_nat (seq (s + i0) m)) (map Z.of_nat (seq i0 m)) = map Z.of_nat (repeat s m).
Proof.
  induction m as [|m IH]; intro i0; [reflexivity|].
  cbn [seq map zipwith repeat]. f_equal; [lia|]. replace (S (s + i0)) with (s + S i0) by lia. apply IH.
Qed.

Lemma zsub_eq vc : forall s,
  zipwith Z.sub (map Z.of_nat (sel_from s vc)) (map Z.of_nat (fp_of vc)) = map Z.of_nat (a_from s vc).
Proof.
  induction vc as [|c r IH]; intro s; [reflexivity|].
  cbn [sel_from fp_of a_from]. rewrite !map_app.
  rewrite zipwith_app by (rewrite !map_length, !seq_length; reflexivity).
  rewrite IH. f_equal. replace s with (s + 0) at 1 by lia. apply sub_one.
Qed.

Lemma a_sel_length vc : forall s, length (a_from s vc) = length (sel_from s vc).
Proof.
  induction vc as [|c r IH]; intro s; [reflexivity|].
  cbn [a_from sel_from]. rewrite !app_length, repeat_length, seq_length, IH. reflexivity.
Qed.

Lemma zip3_labels vc : forall s,
  zip3 (a_from s vc) (map S (sel_from s vc)) (map (fun j => S (S j)) (sel_from s vc)) = tri_labels_from s vc.
Proof.
  induction vc as [|c r IH]; intro s; [reflexivity|].
  cbn [a_from sel_from tri_labels_from]. rewrite !map_app.
  rewrite zip3_app by (rewrite ?repeat_length, ?map_length, ?seq_length; reflexivity).
  rewrite IH. f_equal.
  rewrite repeat_as_map, (seq_shift_add s), !map_map, zip3_maps.
  apply map_ext. intro i. f_equal; [f_equal|]; lia.
Qed.

Lemma tri_labels_length vc : forall s, length (tri_labels_from s vc) = tri_count vc.
Proof.
  induction vc as [|c r IH]; intro s; [reflexivity|].
  cbn [tri_labels_from]. rewrite app_length, map_length, seq_length, IH. reflexivity.
Qed.

Lemma tri_count_le vc : tri_count vc <= total vc.
Proof.
  unfold tri_count. induction vc as [|c r IH]; [simpl; lia|]. simpl in *. lia.
Qed.

Lemma gather3_labels vc :
  gather3 (seq 0 (total vc)) (map Z.of_nat (sel_from 0 vc)) (map Z.of_nat (fp_of vc)) = Ok (tri_labels vc).
Proof.
  unfold gather3. destruct (seq 0 (total vc)) as [|x rows'] eqn:Erows.
  - assert (H0 : total vc = 0) by (destruct (total vc); [reflexivity | discriminate]).
    pose proof (tri_labels_length vc 0) as HL. pose proof (tri_count_le vc) as HC.
    unfold tri_labels. destruct (tri_labels_from 0 vc); [reflexivity | simpl in HL; lia].
  - rewrite <- Erows. clear Erows.
    unfold tri_gathers. cbn [fst snd gidx].
    rewrite zsub_eq.
    replace (map (fun j => (j + 1)%Z) (map Z.of_nat (sel_from 0 vc))) with (map Z.of_nat (map S (sel_from 0 vc)))
      by (rewrite !map_map; apply map_ext; intro j; lia).
    replace (map (fun j => (j + 2)%Z) (map Z.of_nat (sel_from 0 vc)))
      with (map Z.of_nat (map (fun j => S (S j)) (sel_from 0 vc)))
      by (rewrite !map_map; apply map_ext; intro j; lia).
    rewrite np_take_seq by (intros k Hk; apply a_range in Hk; lia). cbn [obind].
    rewrite np_take_seq
      by (intros k Hk; apply in_map_iff in Hk; destruct Hk as [j [Hj Hin]]; apply sel_range in Hin; lia).
    cbn [obind].
    rewrite np_take_seq
      by (intros k Hk; apply in_map_iff in Hk; destruct Hk as [j [Hj Hin]]; apply sel_range in Hin; lia).
    cbn [obind].
    unfold stack3. rewrite !map_length, a_sel_length, !Nat.eqb_refl. cbn [andb].
    rewrite zip3_labels. reflexivity.
Qed.

Lemma gather3_map {A B} (f : A -> B) rows sel fp :
  gather3 (map f rows) sel fp = omap (map (tri_map f)) (gather3 rows sel fp).
Proof.
  destruct rows as [|x rows]; [reflexivity|].
  unfold gather3. cbn [map]. change (f x :: map f rows) with (map f (x :: rows)).
  rewrite !np_take_map.
  destruct (np_take (x :: rows) (gidx (fst (fst tri_gathers)) sel fp)) as [a|e]; [|reflexivity].
  destruct (np_take (x :: rows) (gidx (snd (fst tri_gathers)) sel fp)) as [b|e]; [|reflexivity].
  destruct (np_take (x :: rows) (gidx (snd tri_gathers) sel fp)) as [c|e]; [|reflexivity].
  cbn [omap obind]. apply stack3_map.
Qed.

(* ------------------------------------------------------------------ main statements *)

Theorem triangleset_natural {A B} (f : A -> B) vc rows :
  triangleset vc (map f rows) = omap (map (tri_map f)) (triangleset vc rows).
Proof.
  unfold triangleset.
  replace (match map f rows with [] => 0 | _ :: _ => total vc end)
    with (match rows with [] => 0 | _ :: _ => total vc end) by (destruct rows; reflexivity).
  destruct (selectors _ vc) as [[sel fp]|e]; [|reflexivity].
  cbn [obind fst snd]. apply gather3_map.
Qed.

Theorem triangleset_labels vc : triangleset vc (seq 0 (total vc)) = Ok (tri_labels vc).
Proof.
  unfold triangleset.
  replace (match seq 0 (total vc) with [] => 0 | _ :: _ => total vc end) with (total vc)
    by (destruct (total vc); reflexivity).
  rewrite selectors_eq. cbn [obind fst snd]. apply gather3_labels.
Qed.

Theorem triangleset_rows {A} (d : A) vc rows : length rows = total vc ->
  triangleset vc rows = Ok (at_rows d rows (tri_labels vc)).
Proof.
  intro H. rewrite <- (map_nth_seq d rows) at 1. rewrite H, triangleset_natural, triangleset_labels. reflexivity.
Qed.

(* ------------------------------------------------------------------ labels -> the structural SPEC *)

Lemma pairs_nth {A} (d : A) l :
  pairs l = map (fun i => (nth i l d, nth (i + 1) l d)) (seq 0 (length l - 1)).
Proof.
  induction l as [|a t IH]; [reflexivity|].
  destruct t as [|b t']; [reflexivity|].
  change (pairs (a :: b :: t')) with ((a, b) :: pairs (b :: t')). rewrite IH.
  replace (length (a :: b :: t') - 1) with (S (length (b :: t') - 1)) by (simpl; lia).
  cbn [seq map]. f_equal. rewrite <- seq_shift, map_map. apply map_ext. intro i. reflexivity.
Qed.

Lemma fan_of_nth {A} (d : A) poly :
  fan_of poly = map (fun i => (nth 0 poly d, nth (i + 1) poly d, nth (i + 2) poly d)) (seq 0 (length poly - 2)).
Proof.
  destruct poly as [|c rest]; [reflexivity|].
  unfold fan_of. rewrite (pairs_nth d), map_map.
  replace (length (c :: rest) - 2) with (length rest - 1) by (simpl; lia).
  apply map_ext. intro i. cbn [fst snd]. replace (i + 2) with (S (i + 1)) by lia.
  replace (i + 1) with (S i) by lia. reflexivity.
Qed.

Lemma py_index_nat {A} (d : A) l k : k < length l -> py_index l (Z.of_nat k) = Ok (nth k l d).
Proof.
  intro H. unfold py_index. rewrite norm_index_nat by exact H.
  rewrite (nth_error_nth' l d) by exact H. reflexivity.
Qed.

Lemma poly_triangles_fan {A} (poly : list A) : poly_triangles poly = Ok (fan_of poly).
Proof.
  destruct poly as [|d rest]; [reflexivity|].
  set (poly := d :: rest).
  rewrite (fan_of_nth d). unfold poly_triangles, poly_col, poly_indices, poly_range_sub.
  cbn [fst snd ieval].
  rewrite (omapM_map_ok _ (fun z => (nth 0 poly d, nth (Z.to_nat z + 1) poly d, nth (Z.to_nat z + 2) poly d))).
  - f_equal. rewrite map_map. replace (Z.to_nat (Z.of_nat (length poly) - 2)) with (length poly - 2) by lia.
    apply map_ext. intro i. rewrite Nat2Z.id. reflexivity.
  - intros z Hz. apply in_map_iff in Hz. destruct Hz as [i [Hi Hin]]. subst z. apply in_seq in Hin.
    change 0%Z with (Z.of_nat 0). rewrite (py_index_nat d) by (unfold poly; simpl; lia). cbn [obind].
    replace (Z.of_nat i + 1)%Z with (Z.of_nat (i + 1)) by lia. rewrite (py_index_nat d) by lia. cbn [obind].
    replace (Z.of_nat i + 2)%Z with (Z.of_nat (i + 2)) by lia. rewrite (py_index_nat d) by lia. cbn [obind].
    rewrite Nat2Z.id. reflexivity.
Qed.

Lemma nth_sub {A} (d : A) rows s c i : s + c <= length rows -> i < c ->
  nth i (firstn c (skipn s rows)) d = nth (s + i) rows d.
Proof.
  intros H Hi.
  assert (E1 : nth (s + i) rows d = nth i (skipn s rows) d).
  { rewrite <- (firstn_skipn s rows) at 1. rewrite app_nth2; rewrite firstn_length; [|lia].
    f_equal. lia. }
  rewrite E1. rewrite <- (firstn_skipn c (skipn s rows)) at 2.
  rewrite app_nth1; [reflexivity|]. rewrite firstn_length, skipn_length. lia.
Qed.

Lemma skipn_skipn {A} x : forall y (l : list A), skipn x (skipn y l) = skipn (x + y) l.
Proof.
  intros y. induction y as [|y IH]; intro l.
  - rewrite Nat.add_0_r. reflexivity.
  - destruct l as [|a l]; [rewrite !skipn_nil; reflexivity|].
    replace (x + S y) with (S (x + y)) by lia. cbn [skipn]. apply IH.
Qed.

Lemma labels_spec {A} (d : A) vc : forall s rows, s + total vc <= length rows ->
  at_rows d rows (tri_labels_from s vc) = tri_spec vc (skipn s rows).
Proof.
  induction vc as [|c r IH]; intros s rows H; [reflexivity|].
  unfold tri_spec. cbn [tri_labels_from split_by map concat]. unfold at_rows. rewrite map_app. f_equal.
  - rewrite (fan_of_nth d), map_map.
    change (total (c :: r)) with (c + total r) in H.
    assert (Hl : length (firstn c (skipn s rows)) = c) by (rewrite firstn_length, skipn_length; lia).
    rewrite Hl. apply map_ext_in. intros i Hi. apply in_seq in Hi. unfold tri_map.
    rewrite !(nth_sub d rows s c) by lia.
    replace (s + 0) with s by lia. replace (s + (i + 1)) with (s + i + 1) by lia.
    replace (s + (i + 2)) with (s + i + 2) by lia. reflexivity.
  - rewrite skipn_skipn. replace (c + s) with (s + c) by lia.
    apply (IH (s + c) rows). change (total (c :: r)) with (c + total r) in H. lia.
Qed.

Lemma tri_spec_nil {A} vc : tri_spec vc (@nil A) = [].
Proof.
  unfold tri_spec. induction vc as [|c r IH]; [reflexivity|].
  cbn [split_by map concat]. rewrite firstn_nil, skipn_nil. exact IH.
Qed.

Theorem triangleset_spec {A} vc (rows : list A) : length rows = total vc ->
  triangleset vc rows = Ok (tri_spec vc rows).
Proof.
  intro H. destruct rows as [|d rows'].
  - rewrite tri_spec_nil. unfold triangleset.
    assert (E : selectors 0 vc = selectors (total vc) vc) by (simpl in H; rewrite <- H; reflexivity).
    rewrite E, selectors_eq. reflexivity.
  - rewrite (triangleset_rows d) by exact H. f_equal.
    unfold tri_labels. rewrite (labels_spec d vc 0) by lia. reflexivity.
Qed.

(* ------------------------------------------------------------------ counts, per-polygon = whole *)

Lemma tri_spec_length {A} vc (rows : list A) : length rows = total vc ->
  length (tri_spec vc rows) = tri_count vc.
Proof.
  intro H. destruct rows as [|d rows'].
  - pose proof (tri_count_le vc). simpl in H. rewrite tri_spec_nil. simpl. lia.
  - pose proof (labels_spec d vc 0 (d :: rows') ltac:(lia)) as L. cbn [skipn] in L. rewrite <- L.
    unfold at_rows. rewrite map_length. apply tri_labels_length.
Qed.

Lemma polygon_rows_split {A} vc : forall s (rows : list A),
  map (fun se => firstn (snd se - fst se) (skipn (fst se) rows))
      (combine (starts_from s vc) (cumsum_from s vc)) = split_by vc (skipn s rows).
Proof.
  induction vc as [|c r IH]; intros s rows; [reflexivity|].
  cbn [starts_from cumsum_from combine map split_by fst snd]. f_equal.
  - f_equal. lia.
  - rewrite IH, skipn_skipn. f_equal. f_equal. lia.
Qed.

Lemma polygon_rows_eq {A} vc (rows : list A) : polygon_rows vc rows = split_by vc rows.
Proof.
  unfold polygon_rows, cumsum. rewrite starts_eq. apply (polygon_rows_split vc 0 rows).
Qed.

Theorem per_polygon_is_spec {A} vc (rows : list A) :
  omap (@concat _) (omapM poly_triangles (polygon_rows vc rows)) = Ok (tri_spec vc rows).
Proof.
  rewrite polygon_rows_eq. unfold tri_spec.
  rewrite (omapM_map_ok _ fan_of) by (intros p _; apply poly_triangles_fan). reflexivity.
Qed.

(* every array of a Polygon is cut with the same three subscripts *)
Lemma polygon_arrays_same :
  poly_vertices = poly_indices /\ poly_normals = poly_indices /\ poly_normal_indices = poly_indices /\
  poly_texcoords = poly_indices /\ poly_texcoord_indices = poly_indices.
Proof. repeat split; reflexivity. Qed.

(* ------------------------------------------------------------------ the bound path *)

Lemma bound_attr_copy {V} (unbound : tsfield -> V) f : bound_attr unbound f = Some (unbound f).
Proof. destruct f; reflexivity. Qed.

Theorem bound_triangleset_eq {A} vc (rows : list A) :
  bound_triangleset vc rows = omap Some (triangleset vc rows).
Proof.
  unfold bound_triangleset. destruct (triangleset vc rows) as [ts|e]; [|reflexivity].
  cbn [omap]. rewrite bound_attr_copy. reflexivity.
Qed.

(* ------------------------------------------------------------------ <polygons>: vcounts from the <p> lengths *)


(* ------------------------------------------------------------------ <polygons>: vcounts from the <p> lengths *)

Lemma chunk_fuel_enough {A} k : k > 0 -> forall f1 f2 (l : list A),
  length l <= f1 -> length l <= f2 -> chunk_fuel f1 k l = chunk_fuel f2 k l.
Proof.
  intro Hk. induction f1 as [|f1 IH]; intros f2 l H1 H2.
  - destruct l; [|simpl in H1; lia]. destruct f2; reflexivity.
  - destruct l as [|x l']; [destruct f2; reflexivity|].
    destruct f2 as [|f2]; [simpl in H2; lia|].
    cbn [chunk_fuel]. f_equal.
    apply IH; rewrite skipn_length; cbn [length] in *; lia.
Qed.

Lemma chunk_cons {A} k (l : list A) : k > 0 -> l <> [] ->
  chunk k l = firstn k l :: chunk k (skipn k l).
Proof.
  intros Hk Hne. unfold chunk. destruct l as [|x l']; [contradiction|].
  cbn [length chunk_fuel]. f_equal.
  apply chunk_fuel_enough; [exact Hk | | lia].
  rewrite skipn_length. cbn [length]. lia.
Qed.

Lemma chunk_app {A} k : k > 0 -> forall n (a b : list A), length a <= n -> length a mod k = 0 ->
  chunk k (a ++ b) = chunk k a ++ chunk k b.
Proof.
  intro Hk. induction n as [|n IH]; intros a b Hn Hm.
  - destruct a; [reflexivity | simpl in Hn; lia].
  - destruct a as [|x a']; [reflexivity|].
    set (a := x :: a') in *.
    assert (Hge : k <= length a).
    { destruct (Nat.lt_ge_cases (length a) k) as [Hlt|Hge]; [|exact Hge].
      rewrite Nat.mod_small in Hm by exact Hlt. unfold a in Hm. simpl in Hm. lia. }
    rewrite (chunk_cons k (a ++ b)) by (try exact Hk; unfold a; discriminate).
    rewrite (chunk_cons k a) by (try exact Hk; unfold a; discriminate).
    rewrite firstn_app, skipn_app.
    replace (k - length a) with 0 by lia. cbn [firstn skipn]. rewrite app_nil_r.
    cbn [app]. f_equal.
    apply IH.
    + rewrite skipn_length. unfold a in *. cbn [length] in *. lia.
    + rewrite skipn_length.
      replace (length a) with ((length a - k) + 1 * k) in Hm by lia.
      rewrite Nat.mod_add in Hm by lia. exact Hm.
Qed.

Lemma split_by_app {A} n vs (x y : list A) : length x = n ->
  split_by (n :: vs) (x ++ y) = x :: split_by vs y.
Proof.
  intro H. cbn [split_by]. rewrite firstn_app, skipn_app, H, Nat.sub_diag.
  cbn [firstn skipn]. rewrite app_nil_r.
  rewrite <- H, firstn_all, skipn_all. reflexivity.
Qed.

Theorem polygons_split {A} k (ps : list (list A)) : k > 0 ->
  Forall (fun p => length p mod k = 0) ps ->
  polygons_rows k ps = Ok (concat (map (chunk k) ps)) /\
  split_by (polygons_vcounts k ps) (concat (map (chunk k) ps)) = map (chunk k) ps /\
  length (concat (map (chunk k) ps)) = total (polygons_vcounts k ps).
Proof.
  intros Hk Hall.
  assert (Hc : length (concat ps) mod k = 0 /\ chunk k (concat ps) = concat (map (chunk k) ps)).
  { induction Hall as [|p ps Hp Hall IH]; [split; [apply Nat.mod_0_l; lia | reflexivity]|].
    destruct IH as [IH1 IH2]. cbn [concat map]. split.
    - rewrite app_length. rewrite Nat.add_mod by lia. rewrite Hp, IH1. simpl. apply Nat.mod_0_l. lia.
    - rewrite (chunk_app k Hk (length p)) by (try exact Hp; lia). rewrite IH2. reflexivity. }
  destruct Hc as [Hc1 Hc2].
  split; [|split].
  - unfold polygons_rows, reshape.
    destruct (Nat.eqb k 0) eqn:E0; [apply Nat.eqb_eq in E0; lia|].
    rewrite Hc1, Nat.eqb_refl, Hc2. reflexivity.
  - clear Hc1 Hc2. induction Hall as [|p ps Hp Hall IH]; [reflexivity|].
    cbn [polygons_vcounts map concat]. rewrite split_by_app by (apply chunk_length; assumption).
    f_equal. exact IH.
  - clear Hc1 Hc2. induction Hall as [|p ps Hp Hall IH]; [reflexivity|].
    cbn [polygons_vcounts map concat]. rewrite app_length, chunk_length by assumption.
    unfold polygons_vcounts in IH. rewrite IH. reflexivity.
Qed.
