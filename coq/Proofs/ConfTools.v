(* C04 - tools for proving that an emitted tree conforms to a grammar, for any grammar:
   fuel-independence of [conf_el] (so that conformance can be unfolded one level at a time
   without fuel), and [gmatch] on a child list given as segments that line up with the items. *)
From Coq Require Import List Bool ZArith NArith Lia PeanoNat.
From PC Require Import Base.Atoms Base.Xml Model.SchemaSyntax Model.Schema Model.EmitGrammar.
Import ListNotations.

Fixpoint height (x : xml) : nat :=
  let 'El _ _ _ _ _ k := x in
  S ((fix go (l : list xml) : nat := match l with [] => O | c :: r => Nat.max (height c) (go r) end) k).

Definition kids_height (l : list xml) : nat := fold_right (fun c n => Nat.max (height c) n) O l.

Lemma height_El : forall u n t a tx k, height (El u n t a tx k) = S (kids_height k).
Proof.
  intros. change (height (El u n t a tx k)) with (S ((fix go (l : list xml) : nat := match l with [] => O | c :: r => Nat.max (height c) (go r) end) k)).
  reflexivity.
Qed.

Lemma kids_height_In : forall k l, In k l -> height k <= kids_height l.
Proof. induction l; simpl; intros H; [contradiction|]. destruct H as [->|H]; [lia | specialize (IHl H); lia]. Qed.

Lemma height_le_size : forall x, height x <= xml_size x.
Proof.
  apply xml_ind'. intros u n t a tx k IH. rewrite height_El. simpl.
  apply le_n_S. induction IH as [|c r Hc _ IHr]; simpl; lia.
Qed.

Section Tools.
  Variable G : grammar.
  Variable lex : atom -> N.

  (* ---- gmatch only looks at its checker on the children it is given *)
  Lemma pick_ext : forall cv1 cv2 alts k, (forall r, cv1 r k = cv2 r k) -> pick G cv1 alts k = pick G cv2 alts k.
  Proof. induction alts as [|a alts IH]; simpl; intros k H; auto. rewrite H, IH; auto. Qed.

  Lemma star_rest_ext : forall cv1 cv2 alts kids,
    (forall k, In k kids -> forall r, cv1 r k = cv2 r k) -> star_rest G cv1 alts kids = star_rest G cv2 alts kids.
  Proof.
    induction kids as [|k kids IH]; simpl; intros H; auto.
    rewrite (pick_ext cv1 cv2 alts k) by (intros; apply H; auto).
    destruct (pick G cv2 alts k); auto.
  Qed.

  Lemma star_rest_suffix : forall cv alts kids k, In k (star_rest G cv alts kids) -> In k kids.
  Proof.
    induction kids as [|c kids IH]; simpl; intros k H; auto.
    destruct (pick G cv alts c); auto.
  Qed.

  Lemma gmatch_ext : forall cv1 cv2 items kids,
    (forall k, In k kids -> forall r, cv1 r k = cv2 r k) -> gmatch G cv1 items kids = gmatch G cv2 items kids.
  Proof.
    induction items as [|it rest IH]; intros kids H; simpl; auto.
    destruct it as [alts|alts|alts].
    - destruct kids as [|k ks]; auto.
      rewrite (pick_ext cv1 cv2 alts k) by (intros; apply H; simpl; auto).
      destruct (pick G cv2 alts k); auto. apply IH. intros; apply H; simpl; auto.
    - destruct kids as [|k ks]; [apply IH; auto|].
      rewrite (pick_ext cv1 cv2 alts k) by (intros; apply H; simpl; auto).
      destruct (pick G cv2 alts k); apply IH; intros; apply H; simpl; auto.
    - rewrite (star_rest_ext cv1 cv2 alts kids H). apply IH.
      intros k Hk. apply H. eapply star_rest_suffix; eauto.
  Qed.

  (* ---- enough fuel is enough *)
  Lemma conf_el_stable : forall x r f, height x <= f -> conf_el G lex f r x = conf_el G lex (height x) r x.
  Proof.
    apply (xml_ind' (fun x => forall r f, height x <= f -> conf_el G lex f r x = conf_el G lex (height x) r x)).
    intros u n t a tx k IH r f Hf. rewrite height_El in *.
    destruct f as [|f]; [lia|]. apply le_S_n in Hf.
    cbn [conf_el]. destruct (rule_of r (gg_rules G)) as [ru|]; auto.
    destruct (gr_body ru); auto. f_equal. cbn [xkids].
    apply gmatch_ext. intros c Hc r'. rewrite Forall_forall in IH.
    pose proof (kids_height_In _ _ Hc) as Hh.
    rewrite (IH c Hc r' f) by lia. rewrite (IH c Hc r' (kids_height k)) by lia. reflexivity.
  Qed.

  Definition confh (r : N) (x : xml) : bool := conf_el G lex (height x) r x.

  Lemma confh_unfold : forall r x,
    confh r x =
    match rule_of r (gg_rules G) with
    | None => false
    | Some ru =>
        match gr_body ru with
        | GLax => no_kids x
        | GText st => attrs_ok_l lex (gr_attrs ru) x && no_kids x && val_ok lex st (vals_of_text (xtext x))
        | GKids items => attrs_ok_l lex (gr_attrs ru) x && text_empty x && gmatch G confh items (xkids x)
        end
    end.
  Proof.
    intros r [u n t a tx k]. unfold confh at 1. rewrite height_El. cbn [conf_el].
    destruct (rule_of r (gg_rules G)) as [ru|]; auto.
    destruct (gr_body ru); auto. f_equal. cbn [xkids].
    apply gmatch_ext. intros c Hc r'. unfold confh.
    apply conf_el_stable. now apply kids_height_In.
  Qed.

  Lemma conforms_confh : forall x,
    conforms G lex x = N.eqb (xns x) (gg_ns G) && N.eqb (xtag x) (gg_root G) && confh (gg_rootrule G) x.
  Proof.
    intros x. unfold conforms, confh. f_equal. apply conf_el_stable. apply height_le_size.
  Qed.

  (* ---- children given as segments *)
  Variable cv : N -> xml -> bool.

  Definition picked (alts : list (atom * N)) (x : xml) : bool :=
    match pick G cv alts x with Some _ => true | None => false end.

  Lemma pick_some : forall alts a x,
    In a alts -> tag_is G (fst a) x = true -> cv (snd a) x = true -> picked alts x = true.
  Proof.
    unfold picked. induction alts as [|b alts IH]; simpl; intros a x Hin Ht Hc; [contradiction|].
    destruct (tag_is G (fst b) x && cv (snd b) x) eqn:E; auto.
    destruct Hin as [->|Hin]; [rewrite Ht, Hc in E; discriminate | eapply IH; eauto].
  Qed.

  Definition has_tag (ts : list atom) (x : xml) : bool := existsb (N.eqb (xtag x)) ts.

  (* no alternative carries one of the tags *)
  Definition alts_avoid (alts : list (atom * N)) (ts : list atom) : bool :=
    forallb (fun a => negb (existsb (N.eqb (fst a)) ts)) alts.

  Lemma avoid_not_picked : forall alts ts x, alts_avoid alts ts = true -> has_tag ts x = true -> pick G cv alts x = None.
  Proof.
    induction alts as [|[t0 r0] alts IH]; simpl; intros ts x Ha Hx; auto.
    apply andb_true_iff in Ha as [Ha1 Ha2].
    assert (tag_is G t0 x = false) as ->.
    { unfold tag_is. destruct (N.eqb (xtag x) t0) eqn:E; [|apply andb_false_r].
      apply N.eqb_eq in E. unfold has_tag in Hx. rewrite E in Hx.
      apply negb_true_iff in Ha1. congruence. }
    simpl. eauto.
  Qed.

  (* a segment: the tags its elements may carry, and the elements *)
  Definition seg := (list atom * list xml)%type.

  Definition seg_ok (it : item) (s : seg) : bool :=
    forallb (has_tag (fst s)) (snd s) &&
    match it with
    | IOne alts => match snd s with [x] => picked alts x | _ => false end
    | IOpt alts => match snd s with [] => true | [x] => picked alts x | _ => false end
    | IStar alts => forallb (picked alts) (snd s)
    end.

  (* optional and repeated items must not be able to take a child of a later segment *)
  Fixpoint sep_ok (items : list item) (tss : list (list atom)) : bool :=
    match items, tss with
    | [], [] => true
    | it :: rest, _ :: tr =>
        match it with
        | IOne _ => true
        | IOpt alts | IStar alts => alts_avoid alts (concat tr)
        end && sep_ok rest tr
    | _, _ => false
    end.

  Fixpoint segs_ok (items : list item) (segs : list seg) : bool :=
    match items, segs with
    | [], [] => true
    | it :: rest, s :: sr => seg_ok it s && segs_ok rest sr
    | _, _ => false
    end.

  Definition flat (segs : list seg) : list xml := concat (map snd segs).

  Lemma flat_tags : forall segs x, forallb (fun s : seg => forallb (has_tag (fst s)) (snd s)) segs = true ->
    In x (flat segs) -> has_tag (concat (map fst segs)) x = true.
  Proof.
    induction segs as [|[ts l] segs IH]; simpl; intros x H Hin; [contradiction|].
    apply andb_true_iff in H as [H1 H2]. unfold flat in Hin. simpl in Hin. apply in_app_or in Hin.
    unfold has_tag. rewrite existsb_app. apply orb_true_iff. destruct Hin as [Hin|Hin].
    - left. rewrite forallb_forall in H1. exact (H1 _ Hin).
    - right. exact (IH x H2 Hin).
  Qed.

  Lemma segs_ok_tags : forall items segs, segs_ok items segs = true ->
    forallb (fun s : seg => forallb (has_tag (fst s)) (snd s)) segs = true.
  Proof.
    induction items as [|it rest IH]; destruct segs as [|s sr]; simpl; intros H; try discriminate; auto.
    apply andb_true_iff in H as [H1 H2]. unfold seg_ok in H1. apply andb_true_iff in H1 as [H1 _].
    rewrite H1. simpl. auto.
  Qed.

  Lemma head_not_picked : forall alts segs, alts_avoid alts (concat (map fst segs)) = true ->
    forallb (fun s : seg => forallb (has_tag (fst s)) (snd s)) segs = true ->
    match flat segs with [] => True | y :: _ => pick G cv alts y = None end.
  Proof.
    intros alts segs Ha Ht. destruct (flat segs) as [|y R] eqn:E; auto.
    eapply avoid_not_picked; eauto. eapply flat_tags; eauto. rewrite E. simpl. auto.
  Qed.

  Lemma star_rest_app : forall alts l R, forallb (picked alts) l = true ->
    match R with [] => True | y :: _ => pick G cv alts y = None end ->
    star_rest G cv alts (l ++ R) = R.
  Proof.
    induction l as [|x l IH]; simpl; intros R Hl HR.
    - destruct R as [|y R]; simpl; auto. now rewrite HR.
    - apply andb_true_iff in Hl as [Hx Hl]. unfold picked in Hx.
      destruct (pick G cv alts x); try discriminate. auto.
  Qed.

  Lemma gmatch_segs : forall items segs,
    sep_ok items (map fst segs) = true -> segs_ok items segs = true -> gmatch G cv items (flat segs) = true.
  Proof.
    induction items as [|it rest IH]; destruct segs as [|s sr]; simpl; intros Hsep Hok; try discriminate; auto.
    apply andb_true_iff in Hsep as [Hs Hsep]. apply andb_true_iff in Hok as [Hk Hok].
    specialize (IH sr Hsep Hok). pose proof (segs_ok_tags _ _ Hok) as Htags.
    unfold seg_ok in Hk. apply andb_true_iff in Hk as [_ Hk].
    unfold flat in *. simpl. destruct s as [ts l]. simpl in *.
    destruct it as [alts|alts|alts].
    - destruct l as [|x [|? ?]]; try discriminate. simpl. unfold picked in Hk.
      destruct (pick G cv alts x); try discriminate. exact IH.
    - pose proof (head_not_picked alts sr Hs Htags) as Hh. unfold flat in Hh.
      destruct l as [|x [|? ?]]; try discriminate; simpl.
      + destruct (concat (map snd sr)) as [|y R] eqn:E; auto. rewrite Hh. exact IH.
      + unfold picked in Hk. destruct (pick G cv alts x); try discriminate. exact IH.
    - pose proof (head_not_picked alts sr Hs Htags) as Hh. unfold flat in Hh.
      rewrite star_rest_app; auto.
  Qed.
End Tools.
