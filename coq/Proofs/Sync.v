(* Proofs about Model/Sync.v *)
From Coq Require Import List Bool Arith NArith Lia.
From PC Require Import Base.Py Model.Sync.
Import ListNotations.

Lemma memN_In u l : memN u l = true <-> In u l.
Proof.
  unfold memN. rewrite existsb_exists. split.
  - intros [x [Hin Heq]]. apply N.eqb_eq in Heq. subst. exact Hin.
  - intro Hin. exists u. split; [exact Hin | apply N.eqb_refl].
Qed.

Lemma memN_false u l : memN u l = false <-> ~ In u l.
Proof.
  split.
  - intros Hf Hin. apply memN_In in Hin. congruence.
  - intro Hn. destruct (memN u l) eqn:E; [|reflexivity]. apply memN_In in E. contradiction.
Qed.

Lemma remove_first_notin u l : ~ In u l -> remove_first u l = l.
Proof.
  induction l as [|x r IH]; simpl; intro Hn; [reflexivity|].
  destruct (N.eqb x u) eqn:E.
  - apply N.eqb_eq in E. subst. exfalso. apply Hn. left. reflexivity.
  - f_equal. apply IH. intro H. apply Hn. right. exact H.
Qed.

Lemma remove_first_app_notin u pre l : ~ In u pre -> remove_first u (pre ++ l) = pre ++ remove_first u l.
Proof.
  induction pre as [|x r IH]; simpl; intro Hn; [reflexivity|].
  destruct (N.eqb x u) eqn:E.
  - apply N.eqb_eq in E. subst. exfalso. apply Hn. left. reflexivity.
  - f_equal. apply IH. intro H. apply Hn. right. exact H.
Qed.

Lemma remove_first_head u l : remove_first u (u :: l) = l.
Proof. simpl. rewrite N.eqb_refl. reflexivity. Qed.

Lemma remove_first_incl u l x : In x (remove_first u l) -> In x l.
Proof.
  induction l as [|y r IH]; simpl; [tauto|].
  destruct (N.eqb y u); simpl; intro H; [right; exact H|].
  destruct H as [H|H]; [left; exact H | right; apply IH; exact H].
Qed.

Lemma remove_first_NoDup u l : NoDup l -> NoDup (remove_first u l).
Proof.
  induction l as [|y r IH]; simpl; intro Hnd; [constructor|].
  inversion Hnd as [|? ? Hny Hr]; subst.
  destruct (N.eqb y u); [exact Hr|].
  constructor; [|apply IH; exact Hr].
  intro H. apply Hny. eapply remove_first_incl. exact H.
Qed.

Lemma remove_first_NoDup_notin u l : NoDup l -> ~ In u (remove_first u l).
Proof.
  induction l as [|y r IH]; simpl; intro Hnd; [tauto|].
  inversion Hnd as [|? ? Hny Hr]; subst.
  destruct (N.eqb y u) eqn:E.
  - apply N.eqb_eq in E. subst. exact Hny.
  - simpl. intros [H|H].
    + subst. rewrite N.eqb_refl in E. discriminate.
    + revert H. apply IH. exact Hr.
Qed.

Lemma remove_first_other u l x : x <> u -> In x l -> In x (remove_first u l).
Proof.
  induction l as [|y r IH]; simpl; intros Hne Hin; [tauto|].
  destruct (N.eqb y u) eqn:E.
  - destruct Hin as [H|H]; [|exact H]. apply N.eqb_eq in E. congruence.
  - destruct Hin as [H|H]; [left; exact H | right; apply IH; assumption].
Qed.

(* ---------------- phase 1 is a filter ---------------- *)

Lemma phase1_gen want : forall copy pre,
  (forall x, In x pre -> memN x want = true) ->
  fold_left (phase1_step want) copy (pre ++ copy) = pre ++ filter (fun c => memN c want) copy.
Proof.
  induction copy as [|c r IH]; intros pre Hpre; simpl.
  - reflexivity.
  - unfold phase1_step at 2. destruct (memN c want) eqn:E.
    + replace (pre ++ c :: r) with ((pre ++ [c]) ++ r) by (rewrite <- app_assoc; reflexivity).
      rewrite IH.
      * rewrite <- app_assoc. reflexivity.
      * intros x Hin. apply in_app_or in Hin. destruct Hin as [H|[H|[]]]; [apply Hpre; exact H | subst; exact E].
    + rewrite remove_first_app_notin.
      * rewrite remove_first_head. apply IH. exact Hpre.
      * intro Hin. apply Hpre in Hin. congruence.
Qed.

Lemma phase1_filter want old : phase1 want old = filter (fun c => memN c want) old.
Proof. unfold phase1. apply (phase1_gen want old []). intros x []. Qed.

(* ---------------- phase 2 puts the wanted nodes in order ---------------- *)

Lemma nth_error_app_len {A} (pre rest : list A) : nth_error (pre ++ rest) (length pre) = nth_error rest 0.
Proof. induction pre; simpl; [destruct rest; reflexivity | exact IHpre]. Qed.

Lemma insert_at_app pre u rest : insert_at (length pre) u (pre ++ rest) = pre ++ u :: rest.
Proof.
  unfold insert_at. rewrite firstn_app, firstn_all, Nat.sub_diag. simpl. rewrite app_nil_r.
  rewrite skipn_app, skipn_all, Nat.sub_diag. simpl. reflexivity.
Qed.

Lemma phase2_gen : forall want pre rest,
  NoDup (pre ++ want) -> NoDup rest -> incl rest want ->
  phase2 (length pre) want (pre ++ rest) = pre ++ want.
Proof.
  induction want as [|u w IH]; intros pre rest Hnd Hr Hincl; simpl.
  - destruct rest as [|x r]; [reflexivity|]. exfalso. apply (Hincl x). left. reflexivity.
  - assert (Hupre : ~ In u pre).
    { intro H. apply NoDup_remove_2 in Hnd. apply Hnd. apply in_or_app. left. exact H. }
    assert (Hnd' : NoDup ((pre ++ [u]) ++ w)).
    { rewrite <- app_assoc. simpl. exact Hnd. }
    assert (Huw : ~ In u w).
    { apply NoDup_remove_2 in Hnd. intro H. apply Hnd. apply in_or_app. right. exact H. }
    assert (Hlen : S (length pre) = length (pre ++ [u])) by (rewrite app_length; simpl; lia).
    unfold place. rewrite nth_error_app_len.
    destruct rest as [|x r]; simpl.
    + (* nothing left: insert *)
      replace (memN u (pre ++ [])) with false
        by (symmetry; apply memN_false; rewrite app_nil_r; exact Hupre).
      rewrite insert_at_app. rewrite Hlen.
      rewrite <- (app_nil_r (pre ++ [u])) at 2.
      rewrite IH; [rewrite <- app_assoc; reflexivity | exact Hnd' | constructor | intros y []].
    + destruct (N.eqb x u) eqn:E.
      * apply N.eqb_eq in E. subst x.
        rewrite Hlen. replace (pre ++ u :: r) with ((pre ++ [u]) ++ r) by (rewrite <- app_assoc; reflexivity).
        rewrite IH; [rewrite <- app_assoc; reflexivity | exact Hnd' | inversion Hr; assumption |].
        intros y Hy. inversion Hr as [|? ? Hnu Hr']; subst.
        destruct (Hincl y (or_intror Hy)) as [H|H]; [subst; contradiction | exact H].
      * assert (Hrest' : remove_first u (pre ++ x :: r) = pre ++ remove_first u (x :: r))
          by (apply remove_first_app_notin; exact Hupre).
        assert (Hgoal : forall live, live = pre ++ remove_first u (x :: r) ->
                  phase2 (S (length pre)) w (insert_at (length pre) u live) = pre ++ u :: w).
        { intros live ->. rewrite insert_at_app. rewrite Hlen.
          replace (pre ++ u :: remove_first u (x :: r)) with ((pre ++ [u]) ++ remove_first u (x :: r))
            by (rewrite <- app_assoc; reflexivity).
          rewrite IH; [rewrite <- app_assoc; reflexivity | exact Hnd' | apply remove_first_NoDup; exact Hr |].
          intros y Hy.
          assert (Hyr : In y (x :: r)) by (eapply remove_first_incl; exact Hy).
          destruct (Hincl y Hyr) as [H|H]; [|exact H].
          subst y. exfalso. revert Hy. apply remove_first_NoDup_notin. exact Hr. }
        destruct (memN u (pre ++ x :: r)) eqn:Em.
        -- apply Hgoal. exact Hrest'.
        -- apply Hgoal. assert (Hn : ~ In u (x :: r)).
           { apply memN_false in Em. intro H. apply Em. apply in_or_app. right. exact H. }
           rewrite remove_first_notin; [reflexivity | exact Hn].
Qed.

Lemma filter_NoDup {A} (f : A -> bool) l : NoDup l -> NoDup (filter f l).
Proof.
  induction l as [|x r IH]; simpl; intro H; [constructor|].
  inversion H; subst. destruct (f x); [constructor; [|auto] | auto].
  intro Hin. apply filter_In in Hin. tauto.
Qed.

Theorem sync_exact : forall old want, NoDup old -> NoDup want -> py_sync old want = want.
Proof.
  intros old want Ho Hw. unfold py_sync. rewrite phase1_filter.
  apply (phase2_gen want [] (filter (fun c => memN c want) old)).
  - exact Hw.
  - apply filter_NoDup. exact Ho.
  - intros x Hx. apply filter_In in Hx. apply memN_In. tauto.
Qed.

(* the SPEC, with every child managed (library, node, scene, bind_material) *)
Lemma filter_true {A} (l : list A) : filter (fun _ => true) l = l.
Proof. induction l; simpl; congruence. Qed.
Lemma filter_false {A} (l : list A) : filter (fun _ => false) l = [].
Proof. induction l; simpl; congruence. Qed.

Theorem sync_meets_spec : forall old want, NoDup old -> NoDup want ->
  sync_spec (fun _ => true) old want (py_sync old want).
Proof.
  intros old want Ho Hw. rewrite sync_exact by assumption. split.
  - apply filter_true.
  - simpl. rewrite !filter_false. reflexivity.
Qed.

(* the mesh: <extra> children are not managed by the model and stay, in their order *)
Lemma filter_app_all {A} (f : A -> bool) l : (forall x, In x l -> f x = true) -> filter f l = l.
Proof. induction l as [|x r IH]; simpl; intro H; [reflexivity|]. rewrite (H x (or_introl eq_refl)). f_equal. apply IH. intros; apply H; right; assumption. Qed.
Lemma filter_app_none {A} (f : A -> bool) l : (forall x, In x l -> f x = false) -> filter f l = [].
Proof. induction l as [|x r IH]; simpl; intro H; [reflexivity|]. rewrite (H x (or_introl eq_refl)). apply IH. intros; apply H; right; assumption. Qed.

Lemma NoDup_app_intro {A} (l1 l2 : list A) :
  NoDup l1 -> NoDup l2 -> (forall x, In x l1 -> In x l2 -> False) -> NoDup (l1 ++ l2).
Proof.
  induction l1 as [|x r IH]; simpl; intros H1 H2 Hd; [exact H2|].
  inversion H1; subst. constructor.
  - intro Hin. apply in_app_or in Hin. destruct Hin as [H|H]; [contradiction|].
    apply (Hd x); [left; reflexivity | exact H].
  - apply IH; [assumption | assumption |]. intros y Hy1 Hy2. apply (Hd y); [right; exact Hy1 | exact Hy2].
Qed.

Theorem mesh_sync_meets_spec : forall is_extra old sources v prims,
  NoDup old -> NoDup (sources ++ v :: prims) ->
  (forall x, In x (sources ++ v :: prims) -> is_extra x = false) ->
  let res := mesh_sync is_extra old sources v prims in
  res = sources ++ v :: prims ++ filter is_extra old /\
  sync_spec (fun c => negb (is_extra c)) old (sources ++ v :: prims) res.
Proof.
  intros is_extra old sources v prims Ho Hw Hne res.
  assert (Hres : res = sources ++ v :: prims ++ filter is_extra old).
  { unfold res, mesh_sync. apply sync_exact; [exact Ho|].
    replace (sources ++ v :: prims ++ filter is_extra old) with ((sources ++ v :: prims) ++ filter is_extra old)
      by (rewrite <- app_assoc; reflexivity).
    apply NoDup_app_intro; [exact Hw | apply filter_NoDup; exact Ho |].
    intros x H1 H2. apply filter_In in H2. rewrite (Hne x H1) in H2. destruct H2; discriminate. }
  split; [exact Hres|]. rewrite Hres.
  replace (sources ++ v :: prims ++ filter is_extra old) with ((sources ++ v :: prims) ++ filter is_extra old)
    by (rewrite <- app_assoc; reflexivity).
  split.
  - rewrite filter_app. rewrite filter_app_all, filter_app_none.
    + apply app_nil_r.
    + intros x Hx. apply filter_In in Hx. destruct Hx as [_ Hx]. rewrite Hx. reflexivity.
    + intros x Hx. rewrite (Hne x Hx). reflexivity.
  - rewrite filter_app. rewrite filter_app_none.
    + simpl. clear. induction old as [|x r IH]; simpl; [reflexivity|].
      destruct (is_extra x) eqn:E; simpl; rewrite ?E; simpl; [f_equal|]; exact IH.
    + intros x Hx. rewrite (Hne x Hx). reflexivity.
Qed.

(* the effect profile and instance_material: unmanaged children keep their relative order, the
   managed ones are exactly the model's, in order *)
Lemma filter_firstn_skipn {A} (f : A -> bool) (n : nat) (l : list A) :
  filter f (firstn n l) ++ filter f (skipn n l) = filter f l.
Proof. rewrite <- filter_app, firstn_skipn. reflexivity. Qed.

Lemma In_firstn {A} (n : nat) (l : list A) x : In x (firstn n l) -> In x l.
Proof. revert l. induction n as [|n IH]; intros [|y r]; simpl; try tauto. intros [H|H]; [left; exact H | right; apply IH; exact H]. Qed.
Lemma In_skipn {A} (n : nat) (l : list A) x : In x (skipn n l) -> In x l.
Proof. revert l. induction n as [|n IH]; intros [|y r]; simpl; try tauto. intro H. right. apply IH. exact H. Qed.

Lemma block_insert_spec (managed : N -> bool) (old block : list N) (loc : nat) :
  (forall x, In x block -> managed x = true) ->
  let rest := filter (fun c => negb (managed c)) old in
  sync_spec managed old block (firstn loc rest ++ block ++ skipn loc rest).
Proof.
  intros Hb rest.
  assert (Hrest : forall x, In x rest -> managed x = false).
  { intros x Hx. apply filter_In in Hx. destruct Hx as [_ Hx]. destruct (managed x); [discriminate | reflexivity]. }
  assert (Hsub : forall l, incl l rest -> filter managed l = [] /\ filter (fun c => negb (managed c)) l = l).
  { induction l as [|x r IH]; simpl; intro Hi; [split; reflexivity|].
    rewrite (Hrest x (Hi x (or_introl eq_refl))). simpl.
    destruct IH as [I1 I2]; [intros y Hy; apply Hi; right; exact Hy|]. rewrite I1, I2. split; reflexivity. }
  assert (Hf : incl (firstn loc rest) rest) by (intros x Hx; eapply In_firstn; exact Hx).
  assert (Hs : incl (skipn loc rest) rest) by (intros x Hx; eapply In_skipn; exact Hx).
  destruct (Hsub _ Hf) as [F1 F2]. destruct (Hsub _ Hs) as [S1 S2].
  split.
  - rewrite !filter_app, F1, S1, app_nil_r. simpl. apply filter_app_all. exact Hb.
  - rewrite !filter_app, F2, S2. rewrite (filter_app_none (fun c => negb (managed c)) block).
    + simpl. apply firstn_skipn.
    + intros x Hx. rewrite (Hb x Hx). reflexivity.
Qed.

Theorem profile_sync_meets_spec : forall is_param tec old params,
  (forall x, In x params -> is_param x = true) ->
  sync_spec is_param old params (profile_sync is_param tec old params).
Proof. intros. unfold profile_sync. apply block_insert_spec. assumption. Qed.

Theorem instance_material_sync_meets_spec : forall is_bvi is_bind old inputs,
  (forall x, In x inputs -> is_bvi x = true) ->
  sync_spec is_bvi old inputs (instance_material_sync is_bvi is_bind old inputs).
Proof. intros. unfold instance_material_sync. apply block_insert_spec. assumption. Qed.

(* ---------------- whole trees ---------------- *)

Section ObjInd.
  Variable P : obj -> Prop.
  Hypothesis H : forall u k, Forall P k -> P (Obj u k).
  Fixpoint obj_ind' (o : obj) : P o :=
    match o with
    | Obj u k => H u k ((fix go (l : list obj) : Forall P l :=
                           match l with [] => Forall_nil P | c :: r => Forall_cons c (obj_ind' c) (go r) end) k)
    end.
End ObjInd.

Fixpoint wf_all (l : list obj) : Prop := match l with [] => True | c :: r => wf_obj c /\ wf_all r end.
Lemma wf_obj_unfold u k : wf_obj (Obj u k) <-> NoDup (map ouid k) /\ wf_all k.
Proof.
  assert (Heq : forall l, (fix all (l : list obj) : Prop := match l with [] => True | c :: r => wf_obj c /\ all r end) l <-> wf_all l).
  { induction l as [|c r IH]; simpl; [tauto|]. rewrite IH. tauto. }
  change (wf_obj (Obj u k)) with
    (NoDup (map ouid k) /\ (fix all (l : list obj) : Prop := match l with [] => True | c :: r => wf_obj c /\ all r end) k).
  rewrite Heq. tauto.
Qed.

Lemma find_saved (f : obj -> skel) : forall k c,
  NoDup (map ouid k) -> In c k ->
  find (fun p => N.eqb (fst p) (ouid c)) (map (fun c => (ouid c, f c)) k) = Some (ouid c, f c).
Proof.
  induction k as [|x r IH]; simpl; intros c Hnd Hin; [tauto|].
  inversion Hnd as [|? ? Hnx Hr]; subst.
  destruct Hin as [Heq|Hin].
  - subst. rewrite N.eqb_refl. reflexivity.
  - destruct (N.eqb (ouid x) (ouid c)) eqn:E.
    + apply N.eqb_eq in E. exfalso. apply Hnx. rewrite E. apply in_map. exact Hin.
    + apply IH; assumption.
Qed.

Lemma flat_map_saved (f : obj -> skel) k :
  NoDup (map ouid k) ->
  flat_map (fun cu => match find (fun p => N.eqb (fst p) cu) (map (fun c => (ouid c, f c)) k) with
                      | Some p => [snd p] | None => [] end) (map ouid k) = map f k.
Proof.
  intro Hnd.
  assert (Hgen : forall l, incl l k ->
     flat_map (fun cu => match find (fun p => N.eqb (fst p) cu) (map (fun c => (ouid c, f c)) k) with
                      | Some p => [snd p] | None => [] end) (map ouid l) = map f l).
  { induction l as [|c r IH]; simpl; intro Hincl; [reflexivity|].
    rewrite find_saved; [| exact Hnd | apply Hincl; left; reflexivity].
    simpl. f_equal. apply IH. intros y Hy. apply Hincl. right. exact Hy. }
  apply Hgen. apply incl_refl.
Qed.

Theorem save_onto_is_emit : forall heap, (forall u, NoDup (heap u)) ->
  forall o, wf_obj o -> save_onto heap o = emit_skel o.
Proof.
  intros heap Hheap. apply (obj_ind' (fun o => wf_obj o -> save_onto heap o = emit_skel o)).
  intros u k IH Hwf. destruct (proj1 (wf_obj_unfold u k) Hwf) as [Hnd Hall].
  simpl. rewrite sync_exact; [| apply Hheap | exact Hnd].
  rewrite flat_map_saved by exact Hnd. f_equal.
  clear Hnd Hwf. induction k as [|c r IHk]; simpl; [reflexivity|].
  inversion IH; subst. destruct Hall as [Hc Hr]. f_equal; [auto | apply IHk; assumption].
Qed.

(* the heap after a save lists, for every element of the saved tree, its children; all
   lists stay duplicate-free *)
Fixpoint skel_kids_nodup (s : skel) : Prop :=
  let 'Sk _ k := s in
  NoDup (map (fun c => let 'Sk cu _ := c in cu) k) /\
  (fix all (l : list skel) : Prop := match l with [] => True | c :: r => skel_kids_nodup c /\ all r end) k.

Fixpoint skel_all (l : list skel) : Prop := match l with [] => True | c :: r => skel_kids_nodup c /\ skel_all r end.
Lemma skel_kids_nodup_unfold u k :
  skel_kids_nodup (Sk u k) <-> NoDup (map (fun c => let 'Sk cu _ := c in cu) k) /\ skel_all k.
Proof.
  assert (Heq : forall l, (fix all (l : list skel) : Prop := match l with [] => True | c :: r => skel_kids_nodup c /\ all r end) l <-> skel_all l).
  { induction l as [|c r IH]; simpl; [tauto|]. rewrite IH. tauto. }
  change (skel_kids_nodup (Sk u k)) with
    (NoDup (map (fun c => let 'Sk cu _ := c in cu) k) /\
     (fix all (l : list skel) : Prop := match l with [] => True | c :: r => skel_kids_nodup c /\ all r end) k).
  rewrite Heq. tauto.
Qed.

Section SkelInd.
  Variable P : skel -> Prop.
  Hypothesis H : forall u k, Forall P k -> P (Sk u k).
  Fixpoint skel_ind' (s : skel) : P s :=
    match s with
    | Sk u k => H u k ((fix go (l : list skel) : Forall P l :=
                          match l with [] => Forall_nil P | c :: r => Forall_cons c (skel_ind' c) (go r) end) k)
    end.
End SkelInd.

Fixpoint heap_list (l : list skel) (h : N -> list N) : N -> list N :=
  match l with [] => h | c :: r => heap_list r (skel_heap c h) end.
Lemma skel_heap_unfold u k h :
  skel_heap (Sk u k) h = fun v => if N.eqb v u then map (fun c => let 'Sk cu _ := c in cu) k else heap_list k h v.
Proof.
  simpl. replace ((fix go (l : list skel) (h0 : N -> list N) {struct l} : N -> list N :=
      match l with [] => h0 | c :: r => go r (skel_heap c h0) end) k h) with (heap_list k h); [reflexivity|].
  revert h. induction k as [|c r IH]; simpl; intro h; [reflexivity | apply IH].
Qed.

Lemma skel_heap_nodup : forall s h, skel_kids_nodup s -> (forall u, NoDup (h u)) -> forall u, NoDup (skel_heap s h u).
Proof.
  apply (skel_ind' (fun s => forall h, skel_kids_nodup s -> (forall u, NoDup (h u)) -> forall u, NoDup (skel_heap s h u))).
  intros u k IH h Hs Hh v. rewrite skel_heap_unfold. destruct (proj1 (skel_kids_nodup_unfold u k) Hs) as [Hnd Hall].
  destruct (N.eqb v u); [exact Hnd|].
  clear Hnd Hs. revert h Hh. induction k as [|c r IHk]; simpl; intros h Hh; [apply Hh|].
  inversion IH; subst. destruct Hall as [Hc Hr]. apply IHk; try assumption.
  intro w. apply H1; assumption.
Qed.

Lemma emit_skel_nodup : forall o, wf_obj o -> skel_kids_nodup (emit_skel o).
Proof.
  apply (obj_ind' (fun o => wf_obj o -> skel_kids_nodup (emit_skel o))).
  intros u k IH Hwf. destruct (proj1 (wf_obj_unfold u k) Hwf) as [Hnd Hall].
  change (emit_skel (Obj u k)) with (Sk u (map emit_skel k)). apply skel_kids_nodup_unfold. split.
  - rewrite map_map. replace (map (fun x => let 'Sk cu _ := emit_skel x in cu) k) with (map ouid k); [exact Hnd|].
    apply map_ext. intros [cu ck]. reflexivity.
  - clear Hnd Hwf. induction k as [|c r IHk]; simpl; [exact I|].
    inversion IH; subst. destruct Hall as [Hc Hr]. split; [auto | apply IHk; assumption].
Qed.

(* histories: edits replace the model by any well-formed model; after every save the tree
   is the emission of the current model *)
Definition wf_step (s : step) : Prop := match s with Edit m => wf_obj m | Save => True end.
Definition st_inv (st : state) : Prop :=
  let '(m, h, _) := st in wf_obj m /\ forall u, NoDup (h u).
Definition st_saved (st : state) : Prop :=
  let '(m, _, t) := st in t = Some (emit_skel m).

Lemma do_step_inv st s : st_inv st -> wf_step s -> st_inv (do_step st s).
Proof.
  destruct st as [[m h] t]. destruct s as [m'|]; simpl; intros [Hm Hh] Hs.
  - split; assumption.
  - split; [exact Hm|]. rewrite save_onto_is_emit by assumption.
    apply skel_heap_nodup; [apply emit_skel_nodup; exact Hm | exact Hh].
Qed.

Lemma do_save_saved st : st_inv st -> st_saved (do_step st Save).
Proof.
  destruct st as [[m h] t]. simpl. intros [Hm Hh]. rewrite save_onto_is_emit by assumption. reflexivity.
Qed.

Theorem history_exact : forall hs st, st_inv st -> Forall wf_step hs ->
  st_inv (run_history st hs) /\
  forall hs', hs = hs' ++ [Save] -> st_saved (run_history st hs).
Proof.
  intros hs st Hinv Hwf.
  assert (Hrun : forall hs st, st_inv st -> Forall wf_step hs -> st_inv (run_history st hs)).
  { clear. induction hs as [|s r IH]; simpl; intros st Hinv Hwf; [exact Hinv|].
    inversion Hwf; subst. apply IH; [apply do_step_inv; assumption | assumption]. }
  split; [apply Hrun; assumption|].
  intros hs' ->. unfold run_history. rewrite fold_left_app. simpl.
  apply do_save_saved. apply Hrun; [exact Hinv|].
  apply Forall_app in Hwf. tauto.
Qed.

(* ---------------- regression witness for the ORIGINAL algorithm ---------------- *)
Lemma original_sync_refuted :
  py_sync_original [1;2;3]%N [3]%N = [2;3]%N /\ py_sync [1;2;3]%N [3]%N = [3]%N.
Proof. vm_compute. split; reflexivity. Qed.

Lemma original_sync_order_refuted :
  py_sync_original [1;2]%N [5;1;2]%N = [1;2;5]%N /\ py_sync [1;2]%N [5;1;2]%N = [5;1;2]%N.
Proof. vm_compute. split; reflexivity. Qed.

(* ---------------- a node's matrix follows its transform list ---------------- *)
Section Matrix.
  Variable M : Type.
  Variable mul : M -> M -> M.
  Variable one : M.
  Variable mat : N -> M.          (* the matrix of the transform whose node has this identity *)
  (* Node.save / Node.__init__: identity, then `matrix = dot(matrix, t.matrix)` for t in transforms *)
  Definition node_matrix (ts : list N) : M := fold_left (fun acc t => mul acc (mat t)) ts one.

  (* the saved element lists the transforms first, in list order: whoever reads the element's
     transform children in document order computes the matrix of the CURRENT transform list *)
  Theorem node_matrix_follows_transforms : forall old ts cs, NoDup old -> NoDup (ts ++ cs) ->
    firstn (length ts) (node_sync old ts cs) = ts /\
    node_matrix (firstn (length ts) (node_sync old ts cs)) = node_matrix ts.
  Proof.
    intros old ts cs Ho Hw. unfold node_sync. rewrite sync_exact by assumption.
    rewrite firstn_app, firstn_all, Nat.sub_diag. simpl. rewrite app_nil_r. split; reflexivity.
  Qed.
End Matrix.
