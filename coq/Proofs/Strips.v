(* Lemmas for C11, strips and fans: naturality, model = spec on labels for every length,
   counts, the per-<p> loop.  The slice bounds are those of the generated Gen/Strips.v. *)
From Coq Require Import List Bool ZArith Arith Lia ZifyNat.
From PC Require Import Base.Outcome Base.Py Base.PySlice Base.NpProg Gen.Strips Gen.Triangulate Model.Strips.
Import ListNotations.
Local Open Scope nat_scope.
Ltac Zify.zify_post_hook ::= Z.div_mod_to_equations.

(* ------------------------------------------------------------------ naturality *)

Lemma zip3_map {A B} (f : A -> B) x y z :
  zip3 (map f x) (map f y) (map f z) = map (tri_map f) (zip3 x y z).
Proof.
  revert y z. induction x as [|a x IH]; intros [|b y] [|c z]; simpl; try reflexivity.
  rewrite IH. reflexivity.
Qed.

Lemma stack3_map {A B} (f : A -> B) x y z :
  stack3 (map f x) (map f y) (map f z) = omap (map (tri_map f)) (stack3 x y z).
Proof.
  unfold stack3. rewrite !map_length.
  destruct (Nat.eqb (length x) (length y) && Nat.eqb (length y) (length z)); simpl; [|reflexivity].
  rewrite zip3_map. reflexivity.
Qed.

Lemma pyslice1_map {A B} (f : A -> B) sl l : pyslice1 sl (map f l) = map f (pyslice1 sl l).
Proof. destruct sl as [[a b] s]. apply pyslice_map. Qed.

Lemma slices3_map {A B} (f : A -> B) g l :
  slices3 g (map f l) = omap (map (tri_map f)) (slices3 g l).
Proof. destruct g as [[s1 s2] s3]. unfold slices3. rewrite !pyslice1_map. apply stack3_map. Qed.

Definition blocks_map {A B} (f : A -> B) : list (list (tri A)) -> list (list (tri B)) :=
  map (map (tri_map f)).

Lemma extend_strip_map {A B} (f : A -> B) l :
  extend_strip (map f l) = omap (blocks_map f) (extend_strip l).
Proof.
  unfold extend_strip. rewrite !slices3_map.
  destruct (slices3 strip_first l) as [c1|e]; [|reflexivity].
  destruct (slices3 strip_second l) as [c2|e]; reflexivity.
Qed.

Lemma map_repeat {A B} (f : A -> B) x n : map f (repeat x n) = repeat (f x) n.
Proof. induction n as [|n IH]; simpl; [reflexivity|]. rewrite IH. reflexivity. Qed.

Lemma np_repeat_scalar_map {A B} (f : A -> B) l c :
  np_repeat_scalar (map f l) c = omap (map f) (np_repeat_scalar l c).
Proof.
  unfold np_repeat_scalar. destruct l as [|x l]; [reflexivity|].
  change (map f (x :: l)) with (f x :: map f l).
  destruct (c <? 0)%Z; simpl; [reflexivity|].
  f_equal. rewrite map_app, map_repeat. f_equal.
  rewrite map_flat_map. clear x. induction l as [|y l IH]; simpl; [reflexivity|].
  rewrite map_repeat, IH. reflexivity.
Qed.

Lemma extend_fan_map {A B} (f : A -> B) l :
  extend_fan (map f l) = omap (blocks_map f) (extend_fan l).
Proof.
  unfold extend_fan. rewrite !pyslice1_map, np_repeat_scalar_map, map_length.
  destruct (np_repeat_scalar (pyslice1 fan_centre l) (fan_count (Z.of_nat (length l)))) as [r|e]; [|reflexivity].
  cbn [omap obind]. rewrite stack3_map.
  destruct (stack3 r (pyslice1 fan_b l) (pyslice1 fan_c l)) as [c|e]; reflexivity.
Qed.

Lemma concat_blocks_map {A B} (f : A -> B) bl :
  concat (blocks_map f bl) = map (tri_map f) (concat bl).
Proof. unfold blocks_map. symmetry. apply concat_map. Qed.

Lemma strip_natural {A B} (f : A -> B) l : strip (map f l) = omap (map (tri_map f)) (strip l).
Proof.
  unfold strip. rewrite extend_strip_map. destruct (extend_strip l) as [bl|e]; simpl; [|reflexivity].
  rewrite concat_blocks_map. reflexivity.
Qed.

Lemma fan_natural {A B} (f : A -> B) l : fan (map f l) = omap (map (tri_map f)) (fan l).
Proof.
  unfold fan. rewrite extend_fan_map. destruct (extend_fan l) as [bl|e]; simpl; [|reflexivity].
  rewrite concat_blocks_map. reflexivity.
Qed.

(* ------------------------------------------------------------------ slices of 0..n-1 in closed form *)

Lemma pyslice_seq_form a b s n (f : nat -> nat) m : s > 0 ->
  slice_len (slice_lo n a) (slice_hi n b) s = m ->
  (forall i, i < m -> slice_lo n a + i * s = f i) ->
  pyslice a b s (seq 0 n) = map f (seq 0 m).
Proof.
  intros Hs Hm Hf. rewrite pyslice_seq by exact Hs. rewrite Hm.
  apply map_ext_in. intros i Hi. apply in_seq in Hi. apply Hf. lia.
Qed.

Ltac slice_arith :=
  cbv [slice_len slice_lo slice_hi slice_bound clamp_index];
  repeat match goal with
         | |- context [(?x <=? ?y)%Z] => let E := fresh "E" in destruct (x <=? y)%Z eqn:E
         | |- context [?x <? ?y] => let E := fresh "E" in destruct (x <? y) eqn:E;
                                     [apply Nat.ltb_lt in E | apply Nat.ltb_ge in E]
         end;
  intros; lia.

Lemma zip3_maps {X A} (f g h : X -> A) xs :
  zip3 (map f xs) (map g xs) (map h xs) = map (fun x => (f x, g x, h x)) xs.
Proof. induction xs as [|x xs IH]; simpl; [reflexivity|]. rewrite IH. reflexivity. Qed.

Lemma stack3_maps {X A} (f g h : X -> A) xs :
  stack3 (map f xs) (map g xs) (map h xs) = Ok (map (fun x => (f x, g x, h x)) xs).
Proof. unfold stack3. rewrite !map_length, !Nat.eqb_refl. simpl. rewrite zip3_maps. reflexivity. Qed.

(* the two blocks of a strip, on labels *)
Lemma strip_first_labels n :
  slices3 strip_first (seq 0 n) = Ok (map (fun i => (2 * i, 2 * i + 1, 2 * i + 2)) (seq 0 ((n - 1) / 2))).
Proof.
  unfold slices3, strip_first, pyslice1.
  rewrite (pyslice_seq_form _ _ _ n (fun i => 2 * i) ((n - 1) / 2)); [| lia | slice_arith | slice_arith].
  rewrite (pyslice_seq_form _ _ _ n (fun i => 2 * i + 1) ((n - 1) / 2)); [| lia | slice_arith | slice_arith].
  rewrite (pyslice_seq_form _ _ _ n (fun i => 2 * i + 2) ((n - 1) / 2)); [| lia | slice_arith | slice_arith].
  apply stack3_maps.
Qed.

Lemma strip_second_labels n :
  slices3 strip_second (seq 0 n) = Ok (map (fun i => (2 * i + 2, 2 * i + 1, 2 * i + 3)) (seq 0 ((n - 2) / 2))).
Proof.
  unfold slices3, strip_second, pyslice1.
  rewrite (pyslice_seq_form _ _ _ n (fun i => 2 * i + 2) ((n - 2) / 2)); [| lia | slice_arith | slice_arith].
  rewrite (pyslice_seq_form _ _ _ n (fun i => 2 * i + 1) ((n - 2) / 2)); [| lia | slice_arith | slice_arith].
  rewrite (pyslice_seq_form _ _ _ n (fun i => 2 * i + 3) ((n - 2) / 2)); [| lia | slice_arith | slice_arith].
  apply stack3_maps.
Qed.

(* ------------------------------------------------------------------ the declarative side *)

Lemma even_double i : Nat.even (2 * i) = true.
Proof. rewrite Nat.even_mul. reflexivity. Qed.
Lemma even_double1 i : Nat.even (2 * i + 1) = false.
Proof. rewrite Nat.add_1_r, Nat.even_succ, <- Nat.negb_even, even_double. reflexivity. Qed.
Lemma odd_double i : Nat.odd (2 * i) = false.
Proof. rewrite <- Nat.negb_even, even_double. reflexivity. Qed.
Lemma odd_double1 i : Nat.odd (2 * i + 1) = true.
Proof. rewrite <- Nat.negb_even, even_double1. reflexivity. Qed.

Lemma parity_cases m : (exists k, m = 2 * k) \/ (exists k, m = 2 * k + 1).
Proof.
  destruct (Nat.even m) eqn:E.
  - left. apply Nat.even_spec in E. destruct E as [k Hk]. exists k. exact Hk.
  - right. assert (O : Nat.odd m = true) by (rewrite <- Nat.negb_even, E; reflexivity).
    apply Nat.odd_spec in O. destruct O as [k Hk]. exists k. exact Hk.
Qed.

Lemma filter_even_seq m : filter Nat.even (seq 0 m) = map (fun i => 2 * i) (seq 0 ((m + 1) / 2)).
Proof.
  induction m as [|m IH]; [reflexivity|].
  rewrite seq_S, filter_app, IH. simpl (0 + m). simpl filter.
  destruct (parity_cases m) as [[k Hk]|[k Hk]]; subst m.
  - rewrite even_double.
    replace ((S (2 * k) + 1) / 2) with (S ((2 * k + 1) / 2)) by lia.
    rewrite seq_S, map_app. cbn [map]. f_equal. f_equal. lia.
  - rewrite even_double1, app_nil_r. f_equal. f_equal. lia.
Qed.

Lemma filter_odd_seq m : filter Nat.odd (seq 0 m) = map (fun i => 2 * i + 1) (seq 0 (m / 2)).
Proof.
  induction m as [|m IH]; [reflexivity|].
  rewrite seq_S, filter_app, IH. simpl (0 + m). simpl filter.
  destruct (parity_cases m) as [[k Hk]|[k Hk]]; subst m.
  - rewrite odd_double, app_nil_r. f_equal. f_equal. lia.
  - rewrite odd_double1.
    replace (S (2 * k + 1) / 2) with (S ((2 * k + 1) / 2)) by lia.
    rewrite seq_S, map_app. cbn [map]. f_equal. f_equal. lia.
Qed.

Lemma strip_spec_closed n :
  strip_spec n = map (fun i => (2 * i, 2 * i + 1, 2 * i + 2)) (seq 0 ((n - 1) / 2)) ++
                 map (fun i => (2 * i + 2, 2 * i + 1, 2 * i + 3)) (seq 0 ((n - 2) / 2)).
Proof.
  unfold strip_spec. rewrite filter_even_seq, filter_odd_seq, !map_map.
  replace ((n - 2 + 1) / 2) with ((n - 1) / 2) by lia.
  f_equal; apply map_ext; intro i; unfold strip_tri.
  - rewrite even_double. reflexivity.
  - rewrite even_double1. f_equal; [f_equal; lia | lia].
Qed.

(* ------------------------------------------------------------------ model = spec on labels *)

Theorem strip_labels n : strip (seq 0 n) = Ok (strip_spec n).
Proof.
  unfold strip, extend_strip. rewrite strip_first_labels, strip_second_labels. simpl.
  rewrite app_nil_r, strip_spec_closed. reflexivity.
Qed.

Lemma fan_centre_labels n : pyslice1 fan_centre (seq 0 n) = map (fun _ => 0) (seq 0 (Nat.min 1 n)).
Proof.
  unfold fan_centre, pyslice1.
  apply pyslice_seq_form; [lia | slice_arith | slice_arith].
Qed.

Lemma np_repeat_scalar_single {A} (x : A) c : (0 <= c)%Z ->
  np_repeat_scalar [x] c = Ok (repeat x (Z.to_nat c)).
Proof.
  intro Hc. unfold np_repeat_scalar. destruct (c <? 0)%Z eqn:E; [lia|].
  cbn [flat_map]. rewrite app_nil_r. reflexivity.
Qed.

Theorem fan_labels n : fan (seq 0 n) = Ok (fan_spec n).
Proof.
  unfold fan, extend_fan. rewrite fan_centre_labels, seq_length.
  unfold fan_b, fan_c, pyslice1.
  rewrite (pyslice_seq_form _ _ _ n (fun i => i + 1) (n - 2)); [| lia | slice_arith | slice_arith].
  rewrite (pyslice_seq_form _ _ _ n (fun i => i + 2) (n - 2)); [| lia | slice_arith | slice_arith].
  destruct n as [|n].
  - reflexivity.
  - replace (Nat.min 1 (S n)) with 1 by lia.
    change (map (fun _ : nat => 0) (seq 0 1)) with [0].
    unfold fan_count. rewrite np_repeat_scalar_single by lia.
    replace (Z.to_nat (Z.max (Z.of_nat (S n) - 2) 0)) with (S n - 2) by lia.
    rewrite repeat_as_map. cbn [obind]. rewrite stack3_maps. cbn [obind omap concat]. rewrite app_nil_r. reflexivity.
Qed.

(* every list of rows: the triangles are the spec's label triangles read in the rows *)
Lemma map_nth_seq {A} (d : A) l : map (fun k => nth k l d) (seq 0 (length l)) = l.
Proof.
  induction l as [|x l IH]; [reflexivity|].
  simpl. f_equal. rewrite <- seq_shift, map_map. exact IH.
Qed.

Theorem strip_rows {A} (d : A) rows : strip rows = Ok (at_rows d rows (strip_spec (length rows))).
Proof.
  rewrite <- (map_nth_seq d rows) at 1. rewrite strip_natural, strip_labels. reflexivity.
Qed.

Theorem fan_rows {A} (d : A) rows : fan rows = Ok (at_rows d rows (fan_spec (length rows))).
Proof.
  rewrite <- (map_nth_seq d rows) at 1. rewrite fan_natural, fan_labels. reflexivity.
Qed.

(* ------------------------------------------------------------------ counts *)

Lemma strip_spec_length n : length (strip_spec n) = n - 2.
Proof. rewrite strip_spec_closed, app_length, !map_length, !seq_length. lia. Qed.

Lemma fan_spec_length n : length (fan_spec n) = n - 2.
Proof. unfold fan_spec. rewrite map_length, seq_length. reflexivity. Qed.

Lemma expand_spec_length kd n : length (expand_spec kd n) = n - 2.
Proof. destruct kd; [apply strip_spec_length | apply fan_spec_length]. Qed.

(* ------------------------------------------------------------------ the per-<p> loop *)

Definition expand {A} (kd : kind) (rows : list A) : outcome (list (tri A)) :=
  match kd with KStrips => strip rows | KFans => fan rows end.

Lemma extend_blocks {A} (d : A) kd (rows : list A) :
  exists bl, extend kd rows = Ok bl /\ concat bl = at_rows d rows (expand_spec kd (length rows)).
Proof.
  destruct kd; unfold extend, ext_of, load_tristrips, load_trifans; cbn [expand_spec].
  - pose proof (strip_rows d rows) as H. unfold strip in H.
    destruct (extend_strip rows) as [bl|e]; simpl in H; [|discriminate].
    exists bl. split; [reflexivity|]. injection H as H. exact H.
  - pose proof (fan_rows d rows) as H. unfold fan in H.
    destruct (extend_fan rows) as [bl|e]; simpl in H; [|discriminate].
    exists bl. split; [reflexivity|]. injection H as H. exact H.
Qed.

Definition p_triangles {A} (d : A) (kd : kind) (k : nat) (p : list A) : list (tri (list A)) :=
  at_rows [] (chunk k p) (expand_spec kd (length (chunk k p))).

Lemma load_loop_spec {A} (d : A) kd k (ps : list (list A)) : k > 0 ->
  Forall (fun p => length p mod k = 0) ps ->
  forall acc, exists il, load_loop kd k ps acc = Ok il /\
                         concat il = concat acc ++ concat (map (p_triangles d kd k) ps).
Proof.
  intros Hk Hall. induction Hall as [|p ps Hp Hall IH]; intro acc.
  - exists acc. split; [reflexivity|]. simpl. rewrite app_nil_r. reflexivity.
  - simpl load_loop. unfold reshape.
    destruct (Nat.eqb k 0) eqn:E0; [apply Nat.eqb_eq in E0; lia|].
    rewrite Hp, Nat.eqb_refl. simpl obind.
    destruct (extend_blocks [] kd (chunk k p)) as [bl [Hbl Hc]].
    rewrite Hbl. simpl obind.
    destruct (IH (acc ++ bl)) as [il [Hil Hcc]].
    exists il. split; [exact Hil|].
    rewrite Hcc, concat_app, Hc. simpl. rewrite <- app_assoc. reflexivity.
Qed.

Theorem load_expand_multi_p {A} (d : A) kd mo (ps : list (list A)) : ps <> [] ->
  Forall (fun p => length p mod (S mo) = 0) ps ->
  load_expand kd mo ps = Ok (concat (map (p_triangles d kd (S mo)) ps)).
Proof.
  intros Hne Hall. unfold load_expand, load_iter_reversed, load_concat_reversed, load_cols.
  destruct ps as [|p ps]; [contradiction|].
  replace (Z.to_nat (Z.of_nat mo + 1)) with (S mo) by lia.
  destruct (load_loop_spec d kd (S mo) (p :: ps) ltac:(lia) Hall []) as [il [Hil Hc]].
  rewrite Hil, Hc. reflexivity.
Qed.

(* length of a reshaped stream *)
Lemma chunk_fuel_length {A} k : k > 0 -> forall fuel (l : list A),
  length l <= fuel -> length l mod k = 0 -> length (chunk_fuel fuel k l) = length l / k.
Proof.
  intros Hk. induction fuel as [|f IH]; intros l Hf Hm.
  - destruct l; [|simpl in Hf; lia]. simpl. symmetry. apply Nat.div_0_l. lia.
  - destruct l as [|x l'].
    + simpl. symmetry. apply Nat.div_0_l. lia.
    + cbn [chunk_fuel]. set (l := x :: l') in *.
      assert (Hl : length l > 0) by (subst l; simpl; lia).
      assert (Hge : k <= length l).
      { destruct (Nat.lt_ge_cases (length l) k) as [Hlt|Hge]; [|exact Hge].
        rewrite Nat.mod_small in Hm by exact Hlt. lia. }
      cbn [length].
      rewrite IH.
      * rewrite skipn_length.
        pose proof (Nat.div_mod (length l) k ltac:(lia)) as D.
        pose proof (Nat.div_mod (length l - k) k ltac:(lia)) as D2.
        assert (M2 : (length l - k) mod k = 0).
        { replace (length l) with ((length l - k) + 1 * k) in Hm by lia.
          rewrite Nat.mod_add in Hm by lia. exact Hm. }
        nia.
      * rewrite skipn_length. lia.
      * rewrite skipn_length.
        replace (length l) with ((length l - k) + 1 * k) in Hm by lia.
        rewrite Nat.mod_add in Hm by lia. exact Hm.
Qed.

Lemma chunk_length {A} k (l : list A) : k > 0 -> length l mod k = 0 -> length (chunk k l) = length l / k.
Proof. intros Hk Hm. apply chunk_fuel_length; [exact Hk | lia | exact Hm]. Qed.
