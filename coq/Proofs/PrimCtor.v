(* Lemmas about the primitive constructors (C09). *)
From Coq Require Import List Bool Arith ZArith NArith Lia.
From PC Require Import Base.Outcome Model.IndexTable Model.PrimCtor Proofs.IndexTable.
Import ListNotations.

(* ---- small facts *)
Lemma maxN_ge l x : In x l -> (x <= maxN l)%N.
Proof.
  induction l as [|y l IH]; simpl; [contradiction|].
  intros [H|H]; [subst; lia|]. specialize (IH H). lia.
Qed.

Lemma maxN_lt_all l b : (maxN l < b)%N -> Forall (fun x => (x < b)%N) l.
Proof. intro H. apply Forall_forall. intros x Hx. pose proof (maxN_ge _ _ Hx). lia. Qed.

Lemma omapM_ok {A B} (f : A -> outcome B) l l' : omapM f l = Ok l' -> Forall2 (fun x y => f x = Ok y) l l'.
Proof.
  revert l'. induction l as [|x l IH]; simpl; intros l' H.
  - inversion H. constructor.
  - destruct (f x) eqn:Ex; [|discriminate]. destruct (omapM f l) eqn:El; [|discriminate].
    inversion H. subst. constructor; auto.
Qed.

Lemma omapM_raise {A B} (f : A -> outcome B) l e : omapM f l = Raise e -> exists x, In x l /\ f x = Raise e.
Proof.
  induction l as [|x l IH]; simpl; intro H; [discriminate|].
  destruct (f x) eqn:Ex.
  - destruct (omapM f l) eqn:El; [discriminate|]. inversion H. subst.
    destruct (IH eq_refl) as [y [Hy Hf]]. exists y. auto.
  - inversion H. subst. exists x. auto.
Qed.

Lemma omapM_all_ok {A B} (f : A -> outcome B) (g : A -> B) l :
  (forall x, In x l -> f x = Ok (g x)) -> omapM f l = Ok (map g l).
Proof.
  induction l as [|x l IH]; simpl; intro H; [reflexivity|].
  rewrite (H x) by auto. rewrite IH by auto. reflexivity.
Qed.

(* ---- checkSource and views *)
Definition good (t : table) (inc : input * nat) : Prop :=
  (maxN (col (i_off (fst inc)) t) < N.of_nat (s_len (i_src (fst inc))))%N /\
  s_ncomp (i_src (fst inc)) = snd inc.

Definition view_of (t : table) (inc : input * nat) : view * nat :=
  (View (i_src (fst inc)) (col (i_off (fst inc)) t), snd inc).

Lemma check_source_ok s nc m : check_source s nc m = Ok tt -> (m < N.of_nat (s_len s))%N /\ s_ncomp s = nc.
Proof.
  unfold check_source. destruct (N.leb_spec (N.of_nat (s_len s)) m); [discriminate|].
  destruct (Nat.eqb_spec (s_ncomp s) nc); [auto|discriminate].
Qed.

Lemma check_source_raise s nc m e : check_source s nc m = Raise e -> e = DaeMalformed.
Proof.
  unfold check_source. destruct (N.of_nat (s_len s) <=? m)%N; [congruence|].
  destruct (s_ncomp s =? nc); congruence.
Qed.

Lemma check_source_complete s nc m : (m < N.of_nat (s_len s))%N -> s_ncomp s = nc -> check_source s nc m = Ok tt.
Proof.
  intros H1 H2. unfold check_source. destruct (N.leb_spec (N.of_nat (s_len s)) m); [lia|].
  subst. now rewrite Nat.eqb_refl.
Qed.

Lemma mk_view_ok t nc i v : mk_view t nc i = Ok v ->
  v = View (i_src i) (col (i_off i) t) /\ good t (i, nc).
Proof.
  unfold mk_view. destruct (check_source _ _ _) as [[]|] eqn:E; [|discriminate].
  intro H. inversion H. split; [reflexivity|]. apply check_source_ok in E. exact E.
Qed.

Lemma mk_view_raise t nc i e : mk_view t nc i = Raise e -> e = DaeMalformed.
Proof.
  unfold mk_view. destruct (check_source _ _ _) as [[]|] eqn:E; [discriminate|].
  intro H. inversion H. subst. eapply check_source_raise; eauto.
Qed.

Lemma views_ok t nc l vs : omapM (mk_view t nc) l = Ok vs ->
  vs = map (fun i => View (i_src i) (col (i_off i) t)) l /\ Forall (fun i => good t (i, nc)) l.
Proof.
  intro H. apply omapM_ok in H. induction H as [|i v l vs Hv _ [IH1 IH2]]; simpl; [auto|].
  apply mk_view_ok in Hv. destruct Hv as [-> Hg]. subst vs. auto.
Qed.

Lemma views_raise t nc l e : omapM (mk_view t nc) l = Raise e -> e = DaeMalformed.
Proof. intro H. apply omapM_raise in H. destruct H as [x [_ H]]. eapply mk_view_raise; eauto. Qed.

Lemma first_view_ok t nc b r : first_view t nc b = Ok r ->
  (match r with Some v => [(v, nc)] | None => [] end) = map (view_of t) (map (fun i => (i, nc)) (firstn 1 b)) /\
  Forall (good t) (map (fun i => (i, nc)) (firstn 1 b)).
Proof.
  unfold first_view. destruct b as [|i b]; simpl.
  - intro H. inversion H. auto.
  - destruct (mk_view t nc i) eqn:E; [|discriminate]. intro H. inversion H. subst.
    apply mk_view_ok in E. destruct E as [-> Hg]. auto.
Qed.

Lemma first_view_raise t nc b e : first_view t nc b = Raise e -> e = DaeMalformed.
Proof.
  unfold first_view. destruct b as [|i b]; [discriminate|].
  destruct (mk_view t nc i) eqn:E; [discriminate|]. intro H. inversion H. subst.
  eapply mk_view_raise; eauto.
Qed.

(* ---- fill *)
Lemma fill_zero kd nind vc mat ins t p : nrows (kind_k kd) t = 0 -> fill kd nind vc mat ins t = Ok p ->
  p = Prim kd nind 0 None None [] [] [] vc mat.
Proof. unfold fill. intros ->. congruence. Qed.

Lemma map_views t nc l :
  map (fun v => (v, nc)) (map (fun i => View (i_src i) (col (i_off i) t)) l) =
  map (view_of t) (map (fun i => (i, nc)) l).
Proof. rewrite !map_map. reflexivity. Qed.

Lemma Forall_good_map t nc l : Forall (fun i => good t (i, nc)) l -> Forall (good t) (map (fun i => (i, nc)) l).
Proof. intro H. apply Forall_forall. intros x Hx. apply in_map_iff in Hx. destruct Hx as [i [<- Hi]].
  rewrite Forall_forall in H. auto. Qed.

Lemma fill_ok kd nind vc mat ins t p : nrows (kind_k kd) t <> 0 -> fill kd nind vc mat ins t = Ok p ->
  exposed p = map (view_of t) (exposed_inputs kd ins) /\ Forall (good t) (exposed_inputs kd ins) /\
  p_kind p = kd /\ p_nind p = nind /\ p_nrows p = nrows (kind_k kd) t /\ p_vcounts p = vc /\
  p_material p = mat /\ p_vertex p <> None.
Proof.
  unfold fill. destruct (nrows (kind_k kd) t) as [|r] eqn:Er; [congruence|]. intros _.
  destruct (bucket VERTEX ins) as [|vi vb] eqn:Ev; [discriminate|].
  destruct (mk_view t 3 vi) as [vv|] eqn:E1; [|discriminate].
  destruct (first_view t 3 (bucket NORMAL ins)) as [nv|] eqn:E2; [|discriminate].
  destruct (omapM (mk_view t 2) (bucket TEXCOORD ins)) as [tcs|] eqn:E3; [|discriminate].
  apply mk_view_ok in E1. destruct E1 as [-> G1].
  apply first_view_ok in E2. destruct E2 as [V2 G2].
  apply views_ok in E3. destruct E3 as [-> G3]. apply Forall_good_map in G3.
  assert (Hcommon : forall tts tbs,
     exposed (Prim kd nind (S r) (Some (View (i_src vi) (col (i_off vi) t))) nv
                   (map (fun i => View (i_src i) (col (i_off i) t)) (bucket TEXCOORD ins)) tts tbs vc mat) =
     map (view_of t) (map (fun i => (i, 3)) (firstn 1 (vi :: vb)) ++ map (fun i => (i, 3)) (firstn 1 (bucket NORMAL ins)) ++
                      map (fun i => (i, 2)) (bucket TEXCOORD ins)) ++
     map (fun v => (v, 3)) tts ++ map (fun v => (v, 3)) tbs).
  { intros tts tbs. unfold exposed. simpl p_vertex. simpl p_normal. simpl p_texcoord. simpl p_textangent.
    simpl p_texbinormal. rewrite V2. rewrite map_views. rewrite !map_app. simpl. rewrite <- !app_assoc. reflexivity. }
  destruct kd.
  - destruct (omapM (mk_view t 3) (bucket TEXTANGENT ins)) as [tts|] eqn:E4; [|discriminate].
    destruct (omapM (mk_view t 3) (bucket TEXBINORMAL ins)) as [tbs|] eqn:E5; [|discriminate].
    apply views_ok in E4. destruct E4 as [-> G4]. apply Forall_good_map in G4.
    apply views_ok in E5. destruct E5 as [-> G5]. apply Forall_good_map in G5.
    intro H. inversion H. subst p. clear H. rewrite Hcommon. unfold exposed_inputs. rewrite Ev.
    split; [|split].
    + rewrite !map_views. rewrite !map_app. rewrite <- !app_assoc. reflexivity.
    + repeat (apply Forall_app; split); auto. simpl. constructor; auto.
    + simpl. repeat split; auto. discriminate.
  - intro H. inversion H. subst p. clear H. rewrite Hcommon. unfold exposed_inputs. rewrite Ev.
    split; [|split].
    + simpl. rewrite !app_nil_r. reflexivity.
    + rewrite app_nil_r. repeat (apply Forall_app; split); auto. simpl. constructor; auto.
    + simpl. repeat split; auto. discriminate.
  - destruct (omapM (mk_view t 3) (bucket TEXTANGENT ins)) as [tts|] eqn:E4; [|discriminate].
    destruct (omapM (mk_view t 3) (bucket TEXBINORMAL ins)) as [tbs|] eqn:E5; [|discriminate].
    intro H. inversion H. subst p. clear H. rewrite Hcommon. unfold exposed_inputs. rewrite Ev.
    split; [|split].
    + simpl. rewrite !app_nil_r. reflexivity.
    + rewrite app_nil_r. repeat (apply Forall_app; split); auto. simpl. constructor; auto.
    + simpl. repeat split; auto. discriminate.
  - destruct (omapM (mk_view t 3) (bucket TEXTANGENT ins)) as [tts|] eqn:E4; [|discriminate].
    destruct (omapM (mk_view t 3) (bucket TEXBINORMAL ins)) as [tbs|] eqn:E5; [|discriminate].
    intro H. inversion H. subst p. clear H. rewrite Hcommon. unfold exposed_inputs. rewrite Ev.
    split; [|split].
    + simpl. rewrite !app_nil_r. reflexivity.
    + rewrite app_nil_r. repeat (apply Forall_app; split); auto. simpl. constructor; auto.
    + simpl. repeat split; auto. discriminate.
Qed.

Lemma fill_raise kd nind vc mat ins t e : bucket VERTEX ins <> [] -> fill kd nind vc mat ins t = Raise e ->
  e = DaeMalformed.
Proof.
  unfold fill. intros Hv. destruct (nrows (kind_k kd) t) as [|r]; [discriminate|].
  destruct (bucket VERTEX ins) as [|vi vb]; [congruence|].
  destruct (mk_view t 3 vi) as [vv|] eqn:E1; [|intro H; inversion H; subst; eapply mk_view_raise; eauto].
  destruct (first_view t 3 (bucket NORMAL ins)) as [nv|] eqn:E2; [|intro H; inversion H; subst; eapply first_view_raise; eauto].
  destruct (omapM (mk_view t 2) (bucket TEXCOORD ins)) as [tcs|] eqn:E3; [|intro H; inversion H; subst; eapply views_raise; eauto].
  destruct kd; try discriminate;
  (destruct (omapM (mk_view t 3) (bucket TEXTANGENT ins)) as [tts|] eqn:E4; [|intro H; inversion H; subst; eapply views_raise; eauto];
   destruct (omapM (mk_view t 3) (bucket TEXBINORMAL ins)) as [tbs|] eqn:E5; [|intro H; inversion H; subst; eapply views_raise; eauto];
   discriminate).
Qed.

(* ---- the constructors *)
Definition stream_ok (kd : kind) (s : stream) : Prop :=
  match kd, s with
  | KTri, SFlat _ | KLine, SFlat _ | KPolylist, SPolylist _ _ | KPolygons, SPolygons _ => True
  | _, _ => False
  end.

(* the flat stream and the vcounts a constructor works with *)
Definition stream_flat (nind : nat) (s : stream) : list N * list nat :=
  match s with
  | SFlat f => (f, [])
  | SPolylist f vc => (f, vc)
  | SPolygons ps => (concat ps, map (fun p => length p / nind) ps)
  end.

Definition nind_ins (ins : list input) : nat := nind_of (map i_off ins).

Lemma nind_of_inputs_ok ins : ins <> [] -> nind_of_inputs ins = Ok (nind_ins ins).
Proof. destruct ins; [congruence|reflexivity]. Qed.

Lemma bucket_nonempty s ins : bucket s ins <> [] -> ins <> [].
Proof. destruct ins; simpl; congruence. Qed.

Lemma kind_k_pos kd : kind_k kd <> 0.
Proof. destruct kd; simpl; lia. Qed.
Lemma nind_pos ins : nind_ins ins <> 0.
Proof. unfold nind_ins, nind_of. lia. Qed.

Lemma reshape_dae_ok k nind flat t : reshape_dae k nind flat = Ok t -> reshape k nind flat = Ok t.
Proof. unfold reshape_dae. destruct (reshape k nind flat); congruence. Qed.
Lemma reshape_dae_raise k nind flat e : reshape_dae k nind flat = Raise e -> e = DaeMalformed.
Proof. unfold reshape_dae. destruct (reshape k nind flat); congruence. Qed.

Lemma construct_inv kd ins mat s p : construct kd ins mat s = Ok p ->
  exists t, stream_ok kd s /\ ins <> [] /\
    reshape (kind_k kd) (nind_ins ins) (fst (stream_flat (nind_ins ins) s)) = Ok t /\
    (is_poly kd = true -> sum (snd (stream_flat (nind_ins ins) s)) = length t) /\
    fill kd (nind_ins ins) (snd (stream_flat (nind_ins ins) s)) mat ins t = Ok p.
Proof.
  assert (P : forall kd' flat vc, is_poly kd' = true -> kind_k kd' = 1 ->
            polylist_as kd' ins mat flat vc = Ok p ->
            exists t, ins <> [] /\ reshape 1 (nind_ins ins) flat = Ok t /\ sum vc = length t /\
                      fill kd' (nind_ins ins) vc mat ins t = Ok p).
  { intros kd' flat vc _ _. unfold polylist_as.
    destruct ins as [|i0 ins']; [discriminate|]. simpl nind_of_inputs. cbv iota beta.
    destruct (reshape_dae 1 _ flat) as [t|] eqn:Er; [|discriminate].
    destruct (Nat.eqb_spec (sum vc) (length t)); simpl; [|discriminate].
    intro H. exists t. repeat split; auto; try congruence. now apply reshape_dae_ok. }
  destruct kd, s; simpl; try discriminate.
  - unfold triangleset. destruct ins as [|i0 ins']; [discriminate|]. simpl nind_of_inputs. cbv iota beta.
    destruct (reshape_dae 3 _ flat) as [t|] eqn:Er; [|discriminate]. intro H.
    exists t. repeat split; auto; try congruence; try discriminate. now apply reshape_dae_ok.
  - unfold lineset. destruct (bucket VERTEX ins) eqn:Eb; [discriminate|].
    destruct ins as [|i0 ins']; [discriminate|]. simpl nind_of_inputs. cbv iota beta.
    destruct (reshape_dae 2 _ flat) as [t|] eqn:Er; [|discriminate]. intro H.
    exists t. repeat split; auto; try congruence; try discriminate. now apply reshape_dae_ok.
  - unfold polylist. intro H. apply P in H; auto. destruct H as [t [H1 [H2 [H3 H4]]]]. exists t. repeat split; auto.
  - unfold polygons. intro H. assert (Hi : ins <> []) by (intro Z; rewrite Z in H; discriminate).
    rewrite nind_of_inputs_ok in H by exact Hi. apply P in H; auto.
    destruct H as [t [H1 [H2 [H3 H4]]]]. exists t. repeat split; auto.
Qed.

Lemma construct_raise kd ins mat s e : stream_ok kd s -> bucket VERTEX ins <> [] ->
  construct kd ins mat s = Raise e -> e = DaeMalformed.
Proof.
  intros Hs Hv. pose proof (bucket_nonempty _ _ Hv) as Hi.
  assert (P : forall kd' flat vc, polylist_as kd' ins mat flat vc = Raise e -> e = DaeMalformed).
  { intros kd' flat vc. unfold polylist_as. rewrite nind_of_inputs_ok by exact Hi.
    destruct (reshape_dae 1 _ flat) as [t|] eqn:Er; [|intro H; inversion H; subst; eapply reshape_dae_raise; eauto].
    destruct (Nat.eqb (sum vc) (length t)); simpl; [|congruence]. apply fill_raise; auto. }
  destruct kd, s; simpl in *; try contradiction.
  - unfold triangleset. rewrite nind_of_inputs_ok by exact Hi.
    destruct (reshape_dae 3 _ flat) as [t|] eqn:Er; [|intro H; inversion H; subst; eapply reshape_dae_raise; eauto].
    apply fill_raise; auto.
  - unfold lineset. destruct (bucket VERTEX ins) eqn:Eb; [congruence|]. rewrite nind_of_inputs_ok by exact Hi.
    destruct (reshape_dae 2 _ flat) as [t|] eqn:Er; [|intro H; inversion H; subst; eapply reshape_dae_raise; eauto].
    apply fill_raise; auto. rewrite Eb. discriminate.
  - apply P.
  - unfold polygons. rewrite nind_of_inputs_ok by exact Hi. apply P.
Qed.

(* ---- what acceptance gives *)
Record accepted_facts (kd : kind) (ins : list input) (s : stream) (p : prim) (t : table) : Prop := {
  af_reshape : reshape (kind_k kd) (nind_ins ins) (fst (stream_flat (nind_ins ins) s)) = Ok t;
  af_kind : p_kind p = kd;
  af_nind : p_nind p = nind_ins ins;
  af_rows : p_nrows p = nrows (kind_k kd) t;
  af_len : length t = p_nrows p * kind_k kd;
  af_vcounts : p_vcounts p = snd (stream_flat (nind_ins ins) s);
  af_sum : is_poly kd = true -> sum (p_vcounts p) = p_nrows p;
  af_exposed : p_nrows p <> 0 -> exposed p = map (view_of t) (exposed_inputs kd ins);
  af_good : p_nrows p <> 0 -> Forall (good t) (exposed_inputs kd ins);
  af_empty : p_nrows p = 0 -> exposed p = [] /\ p_vertex p = None /\ p_normal p = None /\ p_texcoord p = [];
  af_vertex : p_nrows p <> 0 -> p_vertex p <> None }.

Lemma construct_facts kd ins mat s p : construct kd ins mat s = Ok p -> exists t, accepted_facts kd ins s p t.
Proof.
  intro H. destruct (construct_inv _ _ _ _ _ H) as [t [Hs [Hi [Hr [Hsum Hf]]]]].
  exists t. destruct (reshape_inv _ _ _ _ (kind_k_pos kd) (nind_pos ins) Hr) as [q [Hlen Ht]].
  assert (Hq : nrows (kind_k kd) t = q).
  { unfold nrows. rewrite Ht. apply nrows_chunk. apply kind_k_pos. }
  assert (Hlt : length t = q * kind_k kd) by (rewrite Ht; apply chunk_length).
  destruct q as [|q'].
  - pose proof (fill_zero _ _ _ _ _ _ _ Hq Hf) as Hp. subst p.
    constructor; simpl; auto; try congruence.
    + intro Hp. rewrite Hsum by exact Hp. rewrite Hlt. reflexivity.
  - assert (Hnz : nrows (kind_k kd) t <> 0) by lia.
    destruct (fill_ok _ _ _ _ _ _ _ Hnz Hf) as [He [Hg [Hk [Hn [Hrw [Hvc [Hm Hv]]]]]]].
    assert (Hr2 : p_nrows p = S q') by congruence.
    constructor.
    + exact Hr.
    + exact Hk.
    + exact Hn.
    + exact Hrw.
    + rewrite Hr2. exact Hlt.
    + exact Hvc.
    + intro Hp. rewrite Hvc, Hr2. rewrite Hsum by exact Hp. rewrite Hlt.
      destruct kd; simpl in *; try discriminate; lia.
    + intros _. exact He.
    + intros _. exact Hg.
    + intro Z. lia.
    + intros _. exact Hv.
Qed.

Lemma good_in_range t inc : good t inc -> in_range (fst (view_of t inc)).
Proof. intros [H _]. unfold in_range. simpl. apply maxN_lt_all. exact H. Qed.

Lemma accepted_in_range kd ins mat s p : construct kd ins mat s = Ok p ->
  Forall (fun vn => in_range (fst vn)) (exposed p).
Proof.
  intro H. destruct (construct_facts _ _ _ _ _ H) as [t F].
  destruct (Nat.eq_dec (p_nrows p) 0) as [Z|NZ].
  - destruct (af_empty _ _ _ _ _ F Z) as [-> _]. constructor.
  - rewrite (af_exposed _ _ _ _ _ F NZ). apply Forall_forall. intros vn Hvn.
    apply in_map_iff in Hvn. destruct Hvn as [inc [<- Hin]].
    apply good_in_range. pose proof (af_good _ _ _ _ _ F NZ) as G. rewrite Forall_forall in G. auto.
Qed.

Lemma gather_total rows idx : Forall (fun ix => (ix < N.of_nat (length rows))%N) idx ->
  gather rows idx = Ok (map (fun ix => nth (N.to_nat ix) rows []) idx).
Proof.
  intro H. unfold gather. apply omapM_all_ok. intros ix Hix. rewrite Forall_forall in H.
  specialize (H ix Hix). destruct (N.ltb_spec ix (N.of_nat (length rows))); [|lia].
  rewrite (nth_error_nth' rows []) by lia. reflexivity.
Qed.

Lemma accepted_shapes kd ins mat s p : construct kd ins mat s = Ok p ->
  p_kind p = kd /\
  Forall (fun vn => length (v_idx (fst vn)) = p_nrows p * kind_k kd /\ s_ncomp (v_src (fst vn)) = snd vn) (exposed p) /\
  (is_poly kd = true -> sum (p_vcounts p) = p_nrows p).
Proof.
  intro H. destruct (construct_facts _ _ _ _ _ H) as [t F]. split; [apply (af_kind _ _ _ _ _ F)|]. split.
  - destruct (Nat.eq_dec (p_nrows p) 0) as [Z|NZ].
    + destruct (af_empty _ _ _ _ _ F Z) as [-> _]. constructor.
    + rewrite (af_exposed _ _ _ _ _ F NZ). apply Forall_forall. intros vn Hvn.
      apply in_map_iff in Hvn. destruct Hvn as [inc [<- Hin]]. simpl. split.
      * rewrite col_length. apply (af_len _ _ _ _ _ F).
      * pose proof (af_good _ _ _ _ _ F NZ) as G. rewrite Forall_forall in G. apply (G inc Hin).
  - apply (af_sum _ _ _ _ _ F).
Qed.

(* ---- the exposed views are the SPEC's position arithmetic on the flat stream *)
Lemma exposed_inputs_in kd ins inc : In inc (exposed_inputs kd ins) -> In (fst inc) ins.
Proof.
  assert (B : forall s i, In i (bucket s ins) -> In i ins).
  { intros s i Hi. unfold bucket in Hi. apply filter_In in Hi. tauto. }
  assert (F1 : forall s nc, In inc (map (fun i => (i, nc)) (firstn 1 (bucket s ins))) -> In (fst inc) ins).
  { intros s nc Hi. apply in_map_iff in Hi. destruct Hi as [i [<- Hi]]. simpl.
    destruct (bucket s ins) as [|x b] eqn:E; simpl in Hi; [contradiction|].
    destruct Hi as [<-|[]]. apply (B s). rewrite E. now left. }
  assert (F2 : forall s nc, In inc (map (fun i => (i, nc)) (bucket s ins)) -> In (fst inc) ins).
  { intros s nc Hi. apply in_map_iff in Hi. destruct Hi as [i [<- Hi]]. simpl. eapply B; eauto. }
  unfold exposed_inputs. intro H. repeat (apply in_app_or in H; destruct H as [H|H]); eauto.
  destruct kd; try contradiction.
  apply in_app_or in H; destruct H as [H|H]; eauto.
Qed.

Lemma off_lt_nind ins i : In i ins -> i_off i < nind_ins ins.
Proof.
  intro H. unfold nind_ins, nind_of.
  assert (Forall (fun k => k <= list_max (map i_off ins)) (map i_off ins)) by (now apply list_max_le).
  rewrite Forall_forall in H0. specialize (H0 (i_off i) (in_map i_off _ _ H)). lia.
Qed.

Lemma view_is_spec kd ins mat s p inc tt c : construct kd ins mat s = Ok p ->
  In inc (exposed_inputs kd ins) -> tt < p_nrows p -> c < kind_k kd ->
  exists v, In (v, snd inc) (exposed p) /\ v_src v = i_src (fst inc) /\
    nth c (row (kind_k kd) tt (v_idx v)) 0%N =
    spec_at (kind_k kd) (nind_ins ins) (i_off (fst inc)) (fst (stream_flat (nind_ins ins) s)) tt c.
Proof.
  intros H Hin Htt Hc. destruct (construct_facts _ _ _ _ _ H) as [t F].
  assert (NZ : p_nrows p <> 0) by lia.
  exists (fst (view_of t inc)). split; [|split].
  - rewrite (af_exposed _ _ _ _ _ F NZ). apply in_map_iff. exists inc. split; [reflexivity|exact Hin].
  - reflexivity.
  - simpl. unfold row, spec_at. rewrite nth_slice by exact Hc.
    apply (col_nth (kind_k kd) (nind_ins ins)); auto using kind_k_pos, nind_pos.
    + apply (af_reshape _ _ _ _ _ F).
    + apply off_lt_nind. eapply exposed_inputs_in; eauto.
    + rewrite (af_len _ _ _ _ _ F). nia.
Qed.

(* ---- rejection *)
Lemma flat_rows_pos kd ins s p t : accepted_facts kd ins s p t ->
  length (fst (stream_flat (nind_ins ins) s)) <> 0 -> p_nrows p <> 0.
Proof.
  intros F Hl Z. pose proof (af_reshape _ _ _ _ _ F) as Hr.
  destruct (reshape_inv _ _ _ _ (kind_k_pos kd) (nind_pos ins) Hr) as [q [Hlen Ht]].
  pose proof (af_len _ _ _ _ _ F) as L. rewrite Ht, chunk_length, Z in L.
  pose proof (kind_k_pos kd). destruct q; simpl in *; lia.
Qed.

Lemma out_of_range_rejected kd ins mat s : stream_ok kd s -> bucket VERTEX ins <> [] ->
  (exists inc j, In inc (exposed_inputs kd ins) /\
     j * nind_ins ins + i_off (fst inc) < length (fst (stream_flat (nind_ins ins) s)) /\
     (N.of_nat (s_len (i_src (fst inc))) <=
      nth (j * nind_ins ins + i_off (fst inc)) (fst (stream_flat (nind_ins ins) s)) 0)%N) ->
  construct kd ins mat s = Raise DaeMalformed.
Proof.
  intros Hs Hv [inc [j [Hin [Hpos Hbig]]]].
  destruct (construct kd ins mat s) as [p|e] eqn:E; [|f_equal; eapply construct_raise; eauto].
  exfalso. destruct (construct_facts _ _ _ _ _ E) as [t F].
  assert (NZ : p_nrows p <> 0) by (eapply flat_rows_pos; eauto; lia).
  pose proof (af_good _ _ _ _ _ F NZ) as G. rewrite Forall_forall in G. destruct (G inc Hin) as [G1 _].
  pose proof (af_reshape _ _ _ _ _ F) as Hr.
  destruct (reshape_inv _ _ _ _ (kind_k_pos kd) (nind_pos ins) Hr) as [q [Hlen Ht]].
  assert (Ho : i_off (fst inc) < nind_ins ins) by (apply off_lt_nind; eapply exposed_inputs_in; eauto).
  assert (Hj : j < length t) by (rewrite Ht, chunk_length; nia).
  pose proof (col_nth _ _ _ _ _ j (kind_k_pos kd) (nind_pos ins) Hr Ho Hj) as Hn.
  assert (Hi : In (nth j (col (i_off (fst inc)) t) 0%N) (col (i_off (fst inc)) t))
    by (apply nth_In; now rewrite col_length).
  apply maxN_ge in Hi. rewrite Hn in Hi. lia.
Qed.

Lemma ragged_rejected kd ins mat s : stream_ok kd s -> bucket VERTEX ins <> [] ->
  length (fst (stream_flat (nind_ins ins) s)) mod (kind_k kd * nind_ins ins) <> 0 ->
  construct kd ins mat s = Raise DaeMalformed.
Proof.
  intros Hs Hv Hr.
  destruct (construct kd ins mat s) as [p|e] eqn:E; [|f_equal; eapply construct_raise; eauto].
  exfalso. destruct (construct_facts _ _ _ _ _ E) as [t F].
  pose proof (af_reshape _ _ _ _ _ F) as Hr'. unfold reshape in Hr'.
  destruct (Nat.eqb_spec (length (fst (stream_flat (nind_ins ins) s)) mod (kind_k kd * nind_ins ins)) 0);
    [contradiction|discriminate].
Qed.

Lemma components_rejected kd ins mat s : stream_ok kd s -> bucket VERTEX ins <> [] ->
  length (fst (stream_flat (nind_ins ins) s)) <> 0 ->
  (exists inc, In inc (exposed_inputs kd ins) /\ s_ncomp (i_src (fst inc)) <> snd inc) ->
  construct kd ins mat s = Raise DaeMalformed.
Proof.
  intros Hs Hv Hl [inc [Hin Hbad]].
  destruct (construct kd ins mat s) as [p|e] eqn:E; [|f_equal; eapply construct_raise; eauto].
  exfalso. destruct (construct_facts _ _ _ _ _ E) as [t F].
  assert (NZ : p_nrows p <> 0) by (eapply flat_rows_pos; eauto).
  pose proof (af_good _ _ _ _ _ F NZ) as G. rewrite Forall_forall in G. destruct (G inc Hin) as [_ G2].
  contradiction.
Qed.

Lemma vcount_mismatch_rejected kd ins mat s : stream_ok kd s -> is_poly kd = true -> bucket VERTEX ins <> [] ->
  sum (snd (stream_flat (nind_ins ins) s)) <> length (fst (stream_flat (nind_ins ins) s)) / nind_ins ins ->
  construct kd ins mat s = Raise DaeMalformed.
Proof.
  intros Hs Hp Hv Hbad.
  destruct (construct kd ins mat s) as [p|e] eqn:E; [|f_equal; eapply construct_raise; eauto].
  exfalso. destruct (construct_facts _ _ _ _ _ E) as [t F].
  pose proof (af_reshape _ _ _ _ _ F) as Hr.
  destruct (reshape_inv _ _ _ _ (kind_k_pos kd) (nind_pos ins) Hr) as [q [Hlen Ht]].
  pose proof (af_sum _ _ _ _ _ F Hp) as S1. rewrite (af_vcounts _ _ _ _ _ F) in S1.
  pose proof (af_len _ _ _ _ _ F) as L. rewrite Ht, chunk_length in L.
  apply Hbad. rewrite S1, Hlen. rewrite Nat.div_mul by apply nind_pos.
  destruct kd; simpl in *; try discriminate; lia.
Qed.

(* Polygons: vcounts[i] = len(poly) / nindices truncates, so a polygon whose own length is not
   a multiple of nindices makes the vcounts fall short of the rows (or the total ragged) *)
Lemma concat_div_mod nind (ps : list (list N)) : nind <> 0 ->
  length (concat ps) = nind * sum (map (fun p => length p / nind) ps) + sum (map (fun p => length p mod nind) ps).
Proof.
  intro Hn. induction ps as [|p ps IH]; simpl; [lia|].
  rewrite app_length, IH. pose proof (Nat.div_mod (length p) nind Hn). lia.
Qed.

Lemma sum_zero l : sum l = 0 -> Forall (fun x => x = 0) l.
Proof. induction l as [|x l IH]; simpl; intro H; constructor; [lia|apply IH; lia]. Qed.

Lemma polygons_ragged_rejected ins mat ps : bucket VERTEX ins <> [] ->
  (exists p, In p ps /\ length p mod nind_ins ins <> 0) ->
  construct KPolygons ins mat (SPolygons ps) = Raise DaeMalformed.
Proof.
  intros Hv [p0 [Hin Hbad]].
  destruct (construct KPolygons ins mat (SPolygons ps)) as [p|e] eqn:E;
    [|f_equal; eapply construct_raise; eauto; exact I].
  exfalso. destruct (construct_facts _ _ _ _ _ E) as [t F].
  pose proof (af_reshape _ _ _ _ _ F) as Hr.
  destruct (reshape_inv _ _ _ _ (kind_k_pos KPolygons) (nind_pos ins) Hr) as [q [Hlen Ht]].
  pose proof (af_sum _ _ _ _ _ F eq_refl) as S1. rewrite (af_vcounts _ _ _ _ _ F) in S1.
  pose proof (af_len _ _ _ _ _ F) as L. rewrite Ht, chunk_length in L.
  pose proof (concat_div_mod (nind_ins ins) ps (nind_pos ins)) as D.
  change (fst (stream_flat (nind_ins ins) (SPolygons ps))) with (concat ps) in Hlen.
  change (snd (stream_flat (nind_ins ins) (SPolygons ps))) with (map (fun p => length p / nind_ins ins) ps) in S1.
  change (kind_k KPolygons) with 1 in *.
  assert (Z : sum (map (fun p => length p mod nind_ins ins) ps) = 0).
  { revert Hlen S1 L D. generalize (sum (map (fun p => length p mod nind_ins ins) ps)).
    generalize (sum (map (fun p => length p / nind_ins ins) ps)). generalize (length (concat ps)).
    generalize (p_nrows p). generalize (nind_ins ins). intros. nia. }
  apply sum_zero in Z. rewrite Forall_forall in Z.
  apply Hbad. apply (Z (length p0 mod nind_ins ins)). apply in_map_iff. exists p0. auto.
Qed.

(* FloatSource *)
Lemma stride_rejected data ncomp : ncomp <> 0 -> length data mod ncomp <> 0 ->
  float_source data ncomp = Raise DaeMalformed.
Proof.
  intros Hn Hbad. unfold float_source. destruct ncomp; [congruence|].
  destruct (Nat.eqb_spec (length data mod S ncomp) 0); [contradiction|reflexivity].
Qed.

Lemma stride_accepted data ncomp src : float_source data ncomp = Ok src ->
  s_ncomp src = ncomp /\ s_len src * ncomp = length data /\ Forall (fun r => length r = ncomp) (s_rows src).
Proof.
  unfold float_source. destruct ncomp as [|n]; [discriminate|].
  destruct (Nat.eqb_spec (length data mod S n) 0) as [E|]; [|discriminate].
  intro H. inversion H. subst src. clear H.
  apply Nat.mod_divides in E; [|lia]. destruct E as [c Hc].
  assert (Hd : length data / S n = c) by (rewrite Hc, Nat.mul_comm; apply Nat.div_mul; lia).
  unfold s_len. cbn [s_rows s_ncomp]. change (fst (Nat.divmod (length data) n 0 n)) with (length data / S n).
  rewrite chunk_length, Hd. repeat split; [lia|].
  apply chunk_all_length. lia.
Qed.

Lemma drop_third_length c : forall data, length data = 3 * c -> length (drop_third data) = 2 * c.
Proof.
  induction c as [|c IH]; intros data H.
  - destruct data; [reflexivity|simpl in H; lia].
  - destruct data as [|a [|b [|z r]]]; simpl in H; try lia. simpl. rewrite (IH r) by lia. lia.
Qed.

Lemma stp_stride_rejected data n : length data mod 3 <> 0 -> float_source_load true data n = Raise DaeMalformed.
Proof.
  intro H. unfold float_source_load. destruct (Nat.eqb_spec (length data mod 3) 0); [contradiction|reflexivity].
Qed.

Lemma stp_accepted data n src : float_source_load true data n = Ok src ->
  s_ncomp src = 2 /\ s_len src * 3 = length data.
Proof.
  unfold float_source_load. destruct (Nat.eqb_spec (length data mod 3) 0) as [E|]; [|discriminate].
  intro H. apply stride_accepted in H. destruct H as [H1 [H2 _]]. split; [exact H1|].
  apply Nat.mod_divides in E; [|lia]. destruct E as [c Hc].
  rewrite (drop_third_length c _ Hc) in H2. lia.
Qed.
