(* Lemmas about Model/Skin.v. *)
From Coq Require Import List Bool Arith ZArith NArith Lia.
From PC Require Import Base.Outcome Base.Py Base.Mat Model.Skin.
Close Scope Z_scope.
Import ListNotations.

(* ------------------------------------------------------------------ the partition loop *)

Lemma sum_nat_firstn_S (l : list nat) i :
  i < length l -> sum_nat (firstn (S i) l) = sum_nat (firstn i l) + nth i l 0.
Proof.
  revert i; induction l as [|x l IH]; intros i H; simpl in *; [lia|].
  destruct i as [|i]; simpl; [lia|]. rewrite (IH i) by lia. simpl. lia.
Qed.

Lemma slice_length (nind ct at_ : nat) (v : list Z) :
  length (firstn (nind * ct) (skipn (nind * at_) v)) = Nat.min (nind * ct) (length v - nind * at_).
Proof. rewrite firstn_length, skipn_length. reflexivity. Qed.

(* every accepted partition: the position reached, the number of groups, the part of the
   stream that was consumed, and each group as the SPEC says *)
Lemma split_ok nind vcounts : forall at_ v gs e,
  nind * at_ <= length v ->
  split_by_vcount nind vcounts at_ v = Ok (gs, e) ->
  e = at_ + sum_nat vcounts /\
  length gs = length vcounts /\
  nind * e <= length v /\
  forall i, i < length vcounts ->
    nth i gs [] = chunk nind (firstn (nind * nth i vcounts 0)
                                     (skipn (nind * (at_ + sum_nat (firstn i vcounts))) v)).
Proof.
  induction vcounts as [|ct r IH]; intros at_ v gs e Hat H; simpl in H.
  - inversion H; subst. simpl. repeat split; try lia.
  - destruct (Nat.eqb _ _) eqn:El; [|discriminate].
    destruct (split_by_vcount nind r (at_ + ct) v) as [[gs' e']|] eqn:Er; [|discriminate].
    inversion H; subst. clear H.
    apply Nat.eqb_eq in El. rewrite slice_length in El.
    assert (Hat' : nind * (at_ + ct) <= length v) by nia.
    destruct (IH _ _ _ _ Hat' Er) as (He & Hl & Hb & Hn).
    simpl. repeat split; try lia.
    intros [|i] Hi; simpl.
    + rewrite Nat.add_0_r. reflexivity.
    + simpl in Hi. rewrite Hn by lia.
      replace (at_ + ct + sum_nat (firstn i r)) with (at_ + (ct + sum_nat (firstn i r))) by lia. reflexivity.
Qed.

(* the only exception the loop raises is DaeMalformedError *)
Lemma split_raise nind vcounts : forall at_ v ex,
  split_by_vcount nind vcounts at_ v = Raise ex -> ex = DaeMalformed.
Proof.
  induction vcounts as [|ct r IH]; intros at_ v ex H; simpl in H; [discriminate|].
  destruct (Nat.eqb _ _); [|inversion H; reflexivity].
  destruct (split_by_vcount nind r (at_ + ct) v) as [[gs' e']|] eqn:Er; [discriminate|].
  inversion H; subst. eapply IH; eauto.
Qed.

(* a stream shorter than the counts demand is rejected *)
Lemma split_short nind vcounts : forall at_ v,
  nind * at_ <= length v ->
  length v < nind * (at_ + sum_nat vcounts) ->
  split_by_vcount nind vcounts at_ v = Raise DaeMalformed.
Proof.
  induction vcounts as [|ct r IH]; intros at_ v Hat Hs; simpl in *; [lia|].
  destruct (Nat.eqb _ _) eqn:El; [|reflexivity].
  apply Nat.eqb_eq in El. rewrite slice_length in El.
  rewrite IH; [reflexivity| nia | lia].
Qed.

(* a stream at least as long as the counts demand is partitioned *)
Lemma split_enough nind vcounts : forall at_ v,
  nind * (at_ + sum_nat vcounts) <= length v ->
  exists gs, split_by_vcount nind vcounts at_ v = Ok (gs, at_ + sum_nat vcounts).
Proof.
  induction vcounts as [|ct r IH]; intros at_ v H; simpl in *.
  - exists []. rewrite Nat.add_0_r. reflexivity.
  - assert (El : Nat.eqb (length (firstn (nind * ct) (skipn (nind * at_) v))) (ct * nind) = true).
    { apply Nat.eqb_eq. rewrite slice_length. nia. }
    rewrite El. destruct (IH (at_ + ct) v) as [gs Hg]; [lia|].
    rewrite Hg. eexists. replace (at_ + ct + sum_nat r) with (at_ + (ct + sum_nat r)) by lia. reflexivity.
Qed.

(* ------------------------------------------------------------------ chunk *)
Lemma skipn_add {A} : forall (b a : nat) (l : list A), skipn a (skipn b l) = skipn (b + a) l.
Proof.
  induction b as [|b IH]; intros a l; simpl; [reflexivity|].
  destruct l as [|x l]; [destruct a; reflexivity|]. apply IH.
Qed.

Lemma chunk_fuel_nth n : forall fuel l k,
  0 < n -> length l <= fuel -> k * n < length l ->
  nth k (chunk_fuel fuel n l) [] = firstn n (skipn (k * n) l).
Proof.
  induction fuel as [|f IH]; intros l k Hn Hf Hk; [lia|].
  destruct l as [|x l]; [simpl in Hk; lia|].
  simpl chunk_fuel. destruct k as [|k].
  - reflexivity.
  - simpl nth. rewrite IH.
    + rewrite skipn_add. reflexivity.
    + exact Hn.
    + rewrite skipn_length. simpl length in *. lia.
    + rewrite skipn_length. simpl length in *. lia.
Qed.

Lemma chunk_nth n l k : 0 < n -> k * n < length l -> nth k (chunk n l) [] = firstn n (skipn (k * n) l).
Proof. intros. apply chunk_fuel_nth; auto. Qed.

Lemma chunk_fuel_length n : forall fuel l k,
  0 < n -> length l <= fuel -> length l = k * n -> length (chunk_fuel fuel n l) = k.
Proof.
  induction fuel as [|f IH]; intros l k Hn Hf Hl.
  - destruct l; simpl in *; [|lia]. destruct k; simpl in *; lia.
  - destruct l as [|x l].
    + simpl in *. destruct k; simpl in *; lia.
    + simpl chunk_fuel. destruct k as [|k]; [simpl in Hl; lia|]. simpl. f_equal.
      apply IH; auto; rewrite skipn_length; simpl length in *; lia.
Qed.

Lemma chunk_length n l k : 0 < n -> length l = k * n -> length (chunk n l) = k.
Proof. intros. apply chunk_fuel_length; auto. Qed.

(* ------------------------------------------------------------------ range checks *)
Lemma max_index_ge (cols : list (list Z)) x : In x (concat cols) -> (x <= max_index cols)%Z.
Proof.
  unfold max_index. induction (concat cols) as [|y l IH]; simpl; intros H; [contradiction|].
  destruct H as [->|H]; [lia|]. specialize (IH H). lia.
Qed.

Lemma min_index_le (cols : list (list Z)) x : In x (concat cols) -> (min_index cols <= x)%Z.
Proof.
  unfold min_index. induction (concat cols) as [|y l IH]; simpl; intros H; [contradiction|].
  destruct H as [->|H]; [lia|]. specialize (IH H). lia.
Qed.

Lemma min_index_bound (cols : list (list Z)) b :
  (b <= 0)%Z -> (forall x, In x (concat cols) -> (b <= x)%Z) -> (b <= min_index cols)%Z.
Proof.
  intros Hb Hall. unfold min_index. induction (concat cols) as [|y l IH]; simpl; [lia|].
  assert (b <= y)%Z by (apply Hall; left; reflexivity).
  assert (b <= fold_right Z.min 0%Z l)%Z by (apply IH; intros; apply Hall; right; assumption). lia.
Qed.

Lemma negative_indices_false ji wi :
  negative_indices ji wi = false <->
  (forall x, In x (concat ji) -> (-1 <= x)%Z) /\ (forall x, In x (concat wi) -> (0 <= x)%Z).
Proof.
  unfold negative_indices. rewrite orb_false_iff, !Z.ltb_ge. split.
  - intros [A B]. split; intros x Hx.
    + pose proof (min_index_le _ _ Hx). lia.
    + pose proof (min_index_le _ _ Hx). lia.
  - intros [A B]. split; apply min_index_bound; auto; lia.
Qed.

Lemma check_source_ok s m : check_source s m = Ok tt ->
  (m < Z.of_nat (src_len s))%Z /\ src_ncomp s = 1.
Proof.
  unfold check_source. destruct (Z.leb _ _) eqn:E; [discriminate|].
  destruct (Nat.eqb _ _) eqn:E2; [|discriminate]. intros _.
  apply Z.leb_gt in E. apply Nat.eqb_eq in E2. split; assumption.
Qed.

Lemma check_source_raise s m ex : check_source s m = Raise ex -> ex = DaeMalformed.
Proof.
  unfold check_source. destruct (Z.leb _ _); [intro H; inversion H; reflexivity|].
  destruct (Nat.eqb _ _); [discriminate|intro H; inversion H; reflexivity].
Qed.

Lemma check_source_beyond s cols x :
  In x (concat cols) -> (Z.of_nat (src_len s) <= x)%Z -> check_source s (max_index cols) = Raise DaeMalformed.
Proof.
  intros Hin Hx. unfold check_source. pose proof (max_index_ge cols x Hin).
  destruct (Z.leb _ _) eqn:E; [reflexivity|]. apply Z.leb_gt in E. lia.
Qed.

Lemma check_source_within s cols :
  src_ncomp s = 1 -> (forall x, In x (concat cols) -> (x < Z.of_nat (src_len s))%Z) ->
  check_source s (max_index cols) = Ok tt.
Proof.
  intros Hn Hall. unfold check_source.
  assert (M : (max_index cols < Z.of_nat (src_len s))%Z).
  { unfold max_index. induction (concat cols) as [|y l IH]; simpl; [lia|].
    assert (y < Z.of_nat (src_len s))%Z by (apply Hall; left; reflexivity).
    assert (fold_right Z.max (-1)%Z l < Z.of_nat (src_len s))%Z by (apply IH; intros; apply Hall; right; assumption).
    lia. }
  destruct (Z.leb _ _) eqn:E; [apply Z.leb_le in E; lia|]. rewrite Hn. reflexivity.
Qed.

(* ------------------------------------------------------------------ load_skin, stage by stage *)

(* the references of the <skin> resolve: everything Skin.load / Skin.__init__ checks that is
   not about the numbers *)
Record well_referenced (d : skin_desc) (wr_kj wr_km wr_kw wr_kwj : N) (js ms ws wjs : src) : Prop := {
  wr_sources : 3 <= count_distinct (map fst (sd_scope d));
  wr_geom : sd_geom d = true;
  wr_joints : 2 <= length (sd_joints d);
  wr_pick_j : pick_joints (sd_joints d) = (Some wr_kj, Some wr_km);
  wr_pick_w : vp_w (pick_vw (sd_vw d)) = Some wr_kw;
  wr_pick_wj : vp_wj (pick_vw (sd_vw d)) = Some wr_kwj;
  wr_js : lookup (sd_scope d) wr_kj = Some js;
  wr_ms : lookup (sd_scope d) wr_km = Some ms;
  wr_ws : lookup (sd_scope d) wr_kw = Some ws;
  wr_wjs : lookup (sd_scope d) wr_kwj = Some wjs;
  wr_js_names : is_names js = true;
  wr_ms_floats : is_floats ms = true;
  wr_ws_floats : is_floats ws = true;
  wr_wjs_names : is_names wjs = true }.

Definition nind_of (d : skin_desc) : nat :=
  Z.to_nat (Z.max (vp_oj (pick_vw (sd_vw d))) (vp_ow (pick_vw (sd_vw d))) + 1).
Definition bind_of (d : skin_desc) : list Z :=
  match sd_bind_shape d with None => identity16 | Some l => l end.

(* what is left of load_skin once the references resolve: the numeric part *)
Definition decode (d : skin_desc) (js ms ws wjs : src) : outcome skin_view :=
  let p := pick_vw (sd_vw d) in
  let nind := nind_of d in
  if negb (Nat.eqb (length (bind_of d)) 16) then Raise DaeMalformed else
  if negb (Nat.eqb (length (vals_of ms) mod 16) 0) then Raise DaeMalformed else
  if negb (Nat.eqb (length (names_of js)) (length (vals_of ms) / 16)) then Raise DaeMalformed else
  match split_by_vcount nind (sd_vcount d) 0 (sd_v d) with
  | Raise e => Raise e
  | Ok (groups, stop) =>
  if code_rejects_long_stream && negb (Nat.eqb (nind * stop) (length (sd_v d))) then Raise DaeMalformed else
  let ji := map (column (Z.to_nat (vp_oj p))) groups in
  let wi := map (column (Z.to_nat (vp_ow p))) groups in
  if negative_indices ji wi then Raise DaeMalformed else
  match check_source wjs (max_index ji) with
  | Raise e => Raise e
  | Ok _ =>
  match check_source ws (max_index wi) with
  | Raise e => Raise e
  | Ok _ => Ok (mk_skin_view nind groups ji wi (combine (names_of js) (chunk 16 (vals_of ms))) (bind_of d))
  end end end.

Lemma load_skin_decode d kj km kw kwj js ms ws wjs :
  well_referenced d kj km kw kwj js ms ws wjs -> load_skin d = decode d js ms ws wjs.
Proof.
  intros [H1 H2 H3 Pj Pw Pwj H4 H5 H6 H7 H8 H9 H10 H11].
  unfold load_skin, decode, nind_of, bind_of.
  assert (E1 : Nat.ltb (count_distinct (map fst (sd_scope d))) 3 = false) by (apply Nat.ltb_ge; exact H1).
  assert (E3 : Nat.ltb (length (sd_joints d)) 2 = false) by (apply Nat.ltb_ge; exact H3).
  rewrite E1, H2, E3, Pj, Pw, Pwj. unfold lookup_opt. rewrite H4, H5, H6, H7, H8, H9, H10, H11.
  change (negb true) with false. lazy beta iota zeta.
  reflexivity.
Qed.

(* the numeric part can only fail with DaeMalformedError *)
Lemma decode_raise d js ms ws wjs ex : decode d js ms ws wjs = Raise ex -> ex = DaeMalformed.
Proof.
  unfold decode.
  destruct (negb (Nat.eqb (length (bind_of d)) 16)); [intro H; inversion H; reflexivity|].
  destruct (negb (Nat.eqb (length (vals_of ms) mod 16) 0)); [intro H; inversion H; reflexivity|].
  destruct (negb (Nat.eqb (length (names_of js)) (length (vals_of ms) / 16))); [intro H; inversion H; reflexivity|].
  destruct (split_by_vcount _ _ _ _) as [[gs st]|e] eqn:Es.
  - destruct (code_rejects_long_stream && _); [intro H; inversion H; reflexivity|].
    destruct (negative_indices _ _); [intro H; inversion H; reflexivity|].
    destruct (check_source wjs _) eqn:C1; [|intro H; inversion H; subst; eapply check_source_raise; eauto].
    destruct (check_source ws _) eqn:C2; [discriminate|intro H; inversion H; subst; eapply check_source_raise; eauto].
  - intro H; inversion H; subst. eapply split_raise; eauto.
Qed.

(* everything an accepted skin satisfies *)
Lemma decode_ok d js ms ws wjs s :
  decode d js ms ws wjs = Ok s ->
  let nind := nind_of d in
  let p := pick_vw (sd_vw d) in
  length (bind_of d) = 16 /\
  length (vals_of ms) mod 16 = 0 /\ length (names_of js) = length (vals_of ms) / 16 /\
  nind * sum_nat (sd_vcount d) = length (sd_v d) /\
  sv_nindices s = nind /\
  length (sv_groups s) = length (sd_vcount d) /\
  (forall i, i < length (sd_vcount d) -> nth i (sv_groups s) [] = spec_group nind (sd_vcount d) (sd_v d) i) /\
  sv_joint_index s = map (column (Z.to_nat (vp_oj p))) (sv_groups s) /\
  sv_weight_index s = map (column (Z.to_nat (vp_ow p))) (sv_groups s) /\
  (forall x, In x (concat (sv_joint_index s)) -> (-1 <= x < Z.of_nat (src_len wjs))%Z) /\
  (forall x, In x (concat (sv_weight_index s)) -> (0 <= x < Z.of_nat (src_len ws))%Z) /\
  sv_joint_matrices s = combine (names_of js) (chunk 16 (vals_of ms)) /\
  sv_bind_shape s = bind_of d.
Proof.
  intros H nind p. unfold decode in H. fold nind in H. fold p in H.
  destruct (negb (Nat.eqb (length (bind_of d)) 16)) eqn:B; [discriminate|].
  destruct (negb (Nat.eqb (length (vals_of ms) mod 16) 0)) eqn:M1; [discriminate|].
  destruct (negb (Nat.eqb (length (names_of js)) (length (vals_of ms) / 16))) eqn:M2; [discriminate|].
  destruct (split_by_vcount _ _ _ _) as [[gs st]|e] eqn:Es; [|discriminate].
  destruct (code_rejects_long_stream && _) eqn:L; [discriminate|].
  destruct (negative_indices _ _) eqn:Ng; [discriminate|].
  destruct (check_source wjs _) as [[]|] eqn:C1; [|discriminate].
  destruct (check_source ws _) as [[]|] eqn:C2; [|discriminate].
  apply negative_indices_false in Ng. destruct Ng as [Ng1 Ng2].
  inversion H; subst s; clear H.
  cbn [sv_nindices sv_groups sv_joint_index sv_weight_index sv_joint_matrices sv_bind_shape].
  apply negb_false_iff, Nat.eqb_eq in B. apply negb_false_iff, Nat.eqb_eq in M1.
  apply negb_false_iff, Nat.eqb_eq in M2.
  unfold code_rejects_long_stream in L. simpl in L. apply negb_false_iff, Nat.eqb_eq in L.
  assert (H0 : nind * 0 <= length (sd_v d)) by lia.
  destruct (split_ok _ _ _ _ _ _ H0 Es) as (He & Hl & Hb & Hn).
  simpl in He. subst st.
  apply check_source_ok in C1. apply check_source_ok in C2. destruct C1 as [C1 _], C2 as [C2 _].
  repeat split; auto.
  - pose proof (max_index_ge _ _ H). lia.
  - pose proof (max_index_ge _ _ H). lia.
Qed.

(* ------------------------------------------------------------------ rejection and acceptance *)
Lemma in_column_concat k row g groups :
  In row g -> In g groups -> In (nth k row 0%Z) (concat (map (column k) groups)).
Proof.
  intros Hr Hg. apply in_concat. exists (column k g). split.
  - apply in_map. exact Hg.
  - unfold column. apply (in_map (fun r => nth k r 0%Z)). exact Hr.
Qed.

Lemma column_concat_in k groups x :
  In x (concat (map (column k) groups)) ->
  exists i row, i < length groups /\ In row (nth i groups []) /\ x = nth k row 0%Z.
Proof.
  intro H. apply in_concat in H. destruct H as (c & Hc & Hx).
  apply in_map_iff in Hc. destruct Hc as (g & <- & Hg).
  unfold column in Hx. apply in_map_iff in Hx. destruct Hx as (row & <- & Hr).
  destruct (In_nth _ _ [] Hg) as (i & Hi & Hn). exists i, row. rewrite Hn. auto.
Qed.

(* what the property calls malformed, stated on the SPEC groups *)
Definition beyond (nind col : nat) (vcounts : list nat) (v : list Z) (len : nat) : Prop :=
  exists i row, i < length vcounts /\ In row (spec_group nind vcounts v i) /\
                (Z.of_nat len <= nth col row 0)%Z.

Definition below (nind col : nat) (vcounts : list nat) (v : list Z) (bound : Z) : Prop :=
  exists i row, i < length vcounts /\ In row (spec_group nind vcounts v i) /\ (nth col row 0 < bound)%Z.

Definition spec_malformed (d : skin_desc) (js ms ws wjs : src) : Prop :=
  let p := pick_vw (sd_vw d) in
  length (vals_of ms) mod 16 <> 0 \/
  length (names_of js) <> length (vals_of ms) / 16 \/
  length (sd_v d) <> nind_of d * sum_nat (sd_vcount d) \/
  beyond (nind_of d) (Z.to_nat (vp_oj p)) (sd_vcount d) (sd_v d) (src_len wjs) \/
  beyond (nind_of d) (Z.to_nat (vp_ow p)) (sd_vcount d) (sd_v d) (src_len ws) \/
  below (nind_of d) (Z.to_nat (vp_oj p)) (sd_vcount d) (sd_v d) (-1) \/
  below (nind_of d) (Z.to_nat (vp_ow p)) (sd_vcount d) (sd_v d) 0.

Lemma decode_rejects d js ms ws wjs :
  spec_malformed d js ms ws wjs -> decode d js ms ws wjs = Raise DaeMalformed.
Proof.
  intro Hbad. destruct (decode d js ms ws wjs) as [s|ex] eqn:E.
  - exfalso. pose proof (decode_ok _ _ _ _ _ _ E) as K. cbv zeta in K.
    destruct K as (_ & K1 & K2 & K3 & _ & K5 & K6 & K7 & K8 & K9 & K10 & _).
    destruct Hbad as [B|[B|[B|[B|[B|[B|B]]]]]]; try congruence; try lia.
    + destruct B as (i & row & Hi & Hr & Hx). rewrite <- K6 in Hr by exact Hi.
      assert (Hg : In (nth i (sv_groups s) []) (sv_groups s)) by (apply nth_In; lia).
      pose proof (in_column_concat (Z.to_nat (vp_oj (pick_vw (sd_vw d)))) _ _ _ Hr Hg) as Hin.
      rewrite <- K7 in Hin. specialize (K9 _ Hin). lia.
    + destruct B as (i & row & Hi & Hr & Hx). rewrite <- K6 in Hr by exact Hi.
      assert (Hg : In (nth i (sv_groups s) []) (sv_groups s)) by (apply nth_In; lia).
      pose proof (in_column_concat (Z.to_nat (vp_ow (pick_vw (sd_vw d)))) _ _ _ Hr Hg) as Hin.
      rewrite <- K8 in Hin. specialize (K10 _ Hin). lia.
    + destruct B as (i & row & Hi & Hr & Hx). rewrite <- K6 in Hr by exact Hi.
      assert (Hg : In (nth i (sv_groups s) []) (sv_groups s)) by (apply nth_In; lia).
      pose proof (in_column_concat (Z.to_nat (vp_oj (pick_vw (sd_vw d)))) _ _ _ Hr Hg) as Hin.
      rewrite <- K7 in Hin. specialize (K9 _ Hin). lia.
    + destruct B as (i & row & Hi & Hr & Hx). rewrite <- K6 in Hr by exact Hi.
      assert (Hg : In (nth i (sv_groups s) []) (sv_groups s)) by (apply nth_In; lia).
      pose proof (in_column_concat (Z.to_nat (vp_ow (pick_vw (sd_vw d)))) _ _ _ Hr Hg) as Hin.
      rewrite <- K8 in Hin. specialize (K10 _ Hin). lia.
  - f_equal. eapply decode_raise; eauto.
Qed.

Lemma decode_accepts d js ms ws wjs :
  length (bind_of d) = 16 -> src_ncomp ws = 1 -> src_ncomp wjs = 1 ->
  ~ spec_malformed d js ms ws wjs -> exists s, decode d js ms ws wjs = Ok s.
Proof.
  intros Hb Hnw Hnj Hgood. unfold spec_malformed in Hgood. cbv zeta in Hgood.
  assert (G1 : length (vals_of ms) mod 16 = 0) by (destruct (Nat.eq_dec (length (vals_of ms) mod 16) 0); tauto).
  assert (G2 : length (names_of js) = length (vals_of ms) / 16)
    by (destruct (Nat.eq_dec (length (names_of js)) (length (vals_of ms) / 16)); tauto).
  assert (G3 : length (sd_v d) = nind_of d * sum_nat (sd_vcount d))
    by (destruct (Nat.eq_dec (length (sd_v d)) (nind_of d * sum_nat (sd_vcount d))); tauto).
  unfold decode.
  rewrite Hb, G1, G2. rewrite !Nat.eqb_refl. change (negb true) with false. cbv iota.
  destruct (split_enough (nind_of d) (sd_vcount d) 0 (sd_v d)) as [gs Hs]; [simpl; lia|].
  rewrite Hs. simpl (0 + _).
  assert (L : code_rejects_long_stream && negb (Nat.eqb (nind_of d * sum_nat (sd_vcount d)) (length (sd_v d))) = false).
  { rewrite G3, Nat.eqb_refl. apply andb_false_r. }
  rewrite L.
  assert (H0 : nind_of d * 0 <= length (sd_v d)) by lia.
  destruct (split_ok _ _ _ _ _ _ H0 Hs) as (_ & Hl & _ & Hn).
  assert (Ng : negative_indices (map (column (Z.to_nat (vp_oj (pick_vw (sd_vw d))))) gs)
                                (map (column (Z.to_nat (vp_ow (pick_vw (sd_vw d))))) gs) = false).
  { apply negative_indices_false. split; intros x Hx;
      destruct (column_concat_in _ _ _ Hx) as (i & row & Hi & Hr & ->).
    - destruct (Z.leb_spec (-1) (nth (Z.to_nat (vp_oj (pick_vw (sd_vw d)))) row 0%Z)) as [|Hlt]; [assumption|].
      exfalso. apply Hgood. do 5 right. left.
      exists i, row. rewrite Hl in Hi. rewrite Hn in Hr by exact Hi. repeat split; auto.
    - destruct (Z.leb_spec 0 (nth (Z.to_nat (vp_ow (pick_vw (sd_vw d)))) row 0%Z)) as [|Hlt]; [assumption|].
      exfalso. apply Hgood. do 6 right.
      exists i, row. rewrite Hl in Hi. rewrite Hn in Hr by exact Hi. repeat split; auto. }
  rewrite Ng.
  rewrite check_source_within.
  - rewrite check_source_within.
    + eexists; reflexivity.
    + exact Hnw.
    + intros x Hx. destruct (column_concat_in _ _ _ Hx) as (i & row & Hi & Hr & ->).
      destruct (Z.ltb_spec (nth (Z.to_nat (vp_ow (pick_vw (sd_vw d)))) row 0%Z) (Z.of_nat (src_len ws))) as [|Hge]; [assumption|].
      exfalso. apply Hgood. right. right. right. right. left.
      exists i, row. rewrite Hl in Hi. rewrite Hn in Hr by exact Hi. repeat split; auto.
  - exact Hnj.
  - intros x Hx. destruct (column_concat_in _ _ _ Hx) as (i & row & Hi & Hr & ->).
    destruct (Z.ltb_spec (nth (Z.to_nat (vp_oj (pick_vw (sd_vw d)))) row 0%Z) (Z.of_nat (src_len wjs))) as [|Hge]; [assumption|].
    exfalso. apply Hgood. right. right. right. left.
    exists i, row. rewrite Hl in Hi. rewrite Hn in Hr by exact Hi. repeat split; auto.
Qed.

(* ------------------------------------------------------------------ offsets in either order *)
Definition vw_step (acc : vw_pick) (i : sem * N * Z) : vw_pick :=
  match fst (fst i) with
  | SJoint => mk_vw_pick (Some (snd (fst i))) (vp_w acc) (snd i) (vp_ow acc)
  | SWeight => mk_vw_pick (vp_wj acc) (Some (snd (fst i))) (vp_oj acc) (snd i)
  | _ => acc
  end.

Lemma pick_vw_fold ins : pick_vw ins = fold_left vw_step ins (mk_vw_pick None None 0%Z 0%Z).
Proof. reflexivity. Qed.

Definition sem_eqb (a b : sem) : bool :=
  match a, b with
  | SJoint, SJoint | SInvBind, SInvBind | SWeight, SWeight | SMorphTarget, SMorphTarget
  | SMorphWeight, SMorphWeight | SOther, SOther => true
  | _, _ => false
  end.

(* two neighbouring inputs with different semantics can be exchanged *)
Lemma vw_step_swap acc a b :
  sem_eqb (fst (fst a)) (fst (fst b)) = false -> vw_step (vw_step acc a) b = vw_step (vw_step acc b) a.
Proof.
  destruct a as [[sa ia] oa], b as [[sb ib] ob], acc. unfold vw_step. simpl.
  destruct sa, sb; simpl; intro H; try discriminate; reflexivity.
Qed.

Lemma pick_vw_swap l1 a b l2 :
  sem_eqb (fst (fst a)) (fst (fst b)) = false ->
  pick_vw (l1 ++ a :: b :: l2) = pick_vw (l1 ++ b :: a :: l2).
Proof.
  intro H. rewrite !pick_vw_fold, !fold_left_app. simpl. rewrite vw_step_swap by exact H. reflexivity.
Qed.

(* ------------------------------------------------------------------ BoundSkin *)
Lemma bound_skin_point path bind v :
  zmapply (bound_skin_matrix path bind) v = zmapply (zmprod path) (zmapply bind v).
Proof. unfold bound_skin_matrix, zmapply, zmmul. apply (mapply_mmul _ _ _ _ _ _ _ Zth_mat). Qed.

Lemma bound_skin_nil bind : bound_skin_matrix [] bind = bind.
Proof. unfold bound_skin_matrix, zmprod, zmmul. simpl. apply (mmul_id_l _ _ _ _ _ _ _ Zth_mat). Qed.

Lemma bound_skin_cons m path bind :
  bound_skin_matrix (m :: path) bind = zmmul m (bound_skin_matrix path bind).
Proof. unfold bound_skin_matrix, zmprod, zmmul. simpl. apply (mmul_assoc _ _ _ _ _ _ _ Zth_mat). Qed.

(* ------------------------------------------------------------------ morph *)
Lemma morph_pairs_ok geoms : forall targets weights l,
  length targets = length weights ->
  morph_pairs geoms targets weights = Ok l ->
  l = combine targets weights /\ forall t, In t targets -> memN t geoms = true.
Proof.
  induction targets as [|t ts IH]; intros [|w ws] l Hl H; simpl in *; try discriminate.
  - inversion H. split; [reflexivity|intros ? []].
  - destruct (memN t geoms) eqn:M; [|discriminate].
    destruct (morph_pairs geoms ts ws) as [l'|] eqn:E; [|discriminate].
    inversion H; subst. destruct (IH ws l') as (-> & Hin); auto.
    split; [reflexivity|]. intros t' [<-|Ht]; auto.
Qed.

Lemma first_components_length ncomp vals k :
  0 < ncomp -> length vals = k * ncomp -> length (first_components ncomp vals) = k.
Proof. intros. unfold first_components. rewrite map_length. apply chunk_length; auto. Qed.

Lemma load_morph_ok d b l :
  load_morph d = Ok (b, l) ->
  exists targets ncomp vals,
    md_base d = Some b /\ memN b (md_geoms d) = true /\ md_method_ok d = true /\
    morph_inputs (md_scope d) (md_inputs d) None None = Ok (Some (SrcNames true targets), Some (SrcFloats ncomp vals)) /\
    length targets = length vals / ncomp /\
    morph_pairs (md_geoms d) targets (first_components ncomp vals) = Ok l.
Proof.
  unfold load_morph. intro H.
  destruct (md_base d) as [b0|]; [|discriminate].
  destruct (memN b0 (md_geoms d)) eqn:Mb; [|discriminate]. simpl in H.
  destruct (md_method_ok d) eqn:Mm; [|discriminate]. simpl in H.
  destruct (Nat.ltb _ _); [discriminate|].
  destruct (morph_inputs _ _ _ _) as [[t w]|] eqn:Mi; [|discriminate].
  destruct t as [[[|] targets|]|]; try discriminate.
  destruct w as [[|ncomp vals]|]; try discriminate.
  destruct (negb (Nat.eqb _ _)) eqn:Ml; [discriminate|].
  destruct (morph_pairs _ _ _) as [l0|] eqn:Mp; [|discriminate].
  inversion H; subst. apply negb_false_iff, Nat.eqb_eq in Ml.
  exists targets, ncomp, vals. repeat split; auto.
Qed.

Lemma load_morph_mismatch d b targets ncomp vals :
  md_base d = Some b -> memN b (md_geoms d) = true -> md_method_ok d = true ->
  2 <= length (md_inputs d) ->
  morph_inputs (md_scope d) (md_inputs d) None None = Ok (Some (SrcNames true targets), Some (SrcFloats ncomp vals)) ->
  length targets <> length vals / ncomp ->
  load_morph d = Raise DaeMalformed.
Proof.
  intros Hb Hm Hk Hi Hin Hl. unfold load_morph. rewrite Hb, Hm, Hk. simpl.
  assert (E : Nat.ltb (length (md_inputs d)) 2 = false) by (apply Nat.ltb_ge; exact Hi).
  rewrite E, Hin.
  assert (E2 : Nat.eqb (length targets) (length vals / ncomp) = false) by (apply Nat.eqb_neq; exact Hl).
  rewrite E2. reflexivity.
Qed.

(* ------------------------------------------------------------------ accessors, BoundMorph *)
Lemma norm_index_in_range len i : (0 <= i < Z.of_nat len)%Z -> norm_index len i = Some (Z.to_nat i).
Proof.
  intros [H0 H1]. unfold norm_index.
  destruct (Z.leb_spec 0 i); [|lia]. destruct (Z.ltb_spec i (Z.of_nat len)); [reflexivity|lia].
Qed.

(* an accepted skin's JOINT / WEIGHT sources have one component per entry *)
Lemma decode_ncomp d js ms ws wjs s :
  decode d js ms ws wjs = Ok s -> src_ncomp wjs = 1 /\ src_ncomp ws = 1.
Proof.
  unfold decode. intro H.
  destruct (negb (Nat.eqb (length (bind_of d)) 16)); [discriminate|].
  destruct (negb (Nat.eqb (length (vals_of ms) mod 16) 0)); [discriminate|].
  destruct (negb (Nat.eqb (length (names_of js)) (length (vals_of ms) / 16))); [discriminate|].
  destruct (split_by_vcount _ _ _ _) as [[gs st]|e]; [|discriminate].
  destruct (code_rejects_long_stream && _); [discriminate|].
  destruct (negative_indices _ _); [discriminate|].
  destruct (check_source wjs _) as [[]|] eqn:C1; [|discriminate].
  destruct (check_source ws _) as [[]|] eqn:C2; [|discriminate].
  apply check_source_ok in C1. apply check_source_ok in C2. tauto.
Qed.

Lemma get_joint_total wjs x :
  is_names wjs = true -> (0 <= x < Z.of_nat (src_len wjs))%Z -> exists a, get_joint wjs x = Some a.
Proof.
  intros Hn Hx. unfold get_joint. rewrite (norm_index_in_range _ _ Hx).
  destruct wjs as [idref names|nc vals]; [|discriminate]. simpl in *.
  destruct (nth_error names (Z.to_nat x)) as [a|] eqn:E; [eauto|].
  apply nth_error_None in E. lia.
Qed.

Lemma get_weight_total ws x :
  is_floats ws = true -> src_ncomp ws = 1 -> (0 <= x < Z.of_nat (src_len ws))%Z ->
  exists row, get_weight ws x = Some row.
Proof.
  intros Hf Hc Hx. unfold get_weight. rewrite (norm_index_in_range _ _ Hx).
  destruct ws as [idref names|nc vals]; [discriminate|]. simpl in *. subst nc.
  rewrite Nat.div_1_r in Hx.
  assert (L : length (chunk 1 vals) = length vals) by (apply chunk_length; lia).
  destruct (nth_error (chunk 1 vals) (Z.to_nat x)) as [r|] eqn:E; [eauto|].
  apply nth_error_None in E. lia.
Qed.

Lemma bound_morph_get_nth path m i :
  i < length (snd m) -> bound_morph_get (bind_morph path m) (Z.of_nat i) = nth_error (snd m) i.
Proof.
  intro H. unfold bound_morph_get, bind_morph. simpl.
  rewrite norm_index_in_range by lia. rewrite Nat2Z.id. reflexivity.
Qed.
