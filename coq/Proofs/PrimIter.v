(* Lemmas about len / item access / iteration of primitives (C10). *)
From Coq Require Import List Bool Arith ZArith NArith Lia.
From PC Require Import Base.Outcome Base.Mat Model.IndexTable Model.PrimCtor Model.PrimIter
  Proofs.IndexTable Proofs.PrimCtor.
Import ListNotations.

(* ---- the legacy iteration protocol *)
Lemma legacy_iter_spec {A} (get : nat -> outcome A) (f : nat -> A) n : forall i fuel,
  (forall j, j < n -> get (i + j) = Ok (f (i + j))) -> get (i + n) = Raise PyIndexError -> n < fuel ->
  legacy_iter fuel get i = Ok (map f (seq i n)).
Proof.
  induction n as [|n IH]; intros i fuel Hok Hend Hf; (destruct fuel as [|fuel]; [lia|]); simpl.
  - rewrite Nat.add_0_r in Hend. rewrite Hend. reflexivity.
  - pose proof (Hok 0 ltac:(lia)) as H0. rewrite Nat.add_0_r in H0. rewrite H0.
    rewrite (IH (S i) fuel); [reflexivity| | |lia].
    + intros j Hj. replace (S i + j) with (i + S j) by lia. apply Hok. lia.
    + replace (S i + n) with (i + S n) by lia. exact Hend.
Qed.

(* ---- slices are positional picks *)
Lemma slice_pick {A} (d : A) st cnt l : st + cnt <= length l -> slice st cnt l = pick d l st cnt.
Proof.
  intro H. apply (nth_ext _ _ d d).
  - rewrite slice_length by exact H. unfold pick. now rewrite map_length, seq_length.
  - intros n Hn. rewrite slice_length in Hn by exact H. rewrite nth_slice by exact Hn.
    unfold pick. rewrite (nth_map' _ 0) by (now rewrite seq_length). rewrite seq_nth by exact Hn. reflexivity.
Qed.

Lemma Forall_pick {A} (P : A -> Prop) d l st cnt : st + cnt <= length l -> Forall P l -> Forall P (pick d l st cnt).
Proof.
  intros H F. apply Forall_forall. intros x Hx. unfold pick in Hx. apply in_map_iff in Hx.
  destruct Hx as [c [<- Hc]]. apply in_seq in Hc. rewrite Forall_forall in F. apply F. apply nth_In. lia.
Qed.

Lemma sum_firstn_nth vcs : forall i, i < length vcs -> sum (firstn i vcs) + nth i vcs 0 <= sum vcs.
Proof.
  induction vcs as [|a vcs IH]; intros i H; simpl in *; [lia|].
  destruct i as [|i]; simpl; [lia|]. specialize (IH i). lia.
Qed.

Lemma sum_firstn_succ vcs : forall i, i < length vcs -> sum (firstn (S i) vcs) = sum (firstn i vcs) + nth i vcs 0.
Proof.
  induction vcs as [|a vcs IH]; intros i H; simpl in *; [lia|].
  destruct i as [|i]; simpl; [lia|]. rewrite <- Nat.add_assoc. f_equal. apply (IH i). lia.
Qed.

Lemma poly_k kd : is_poly kd = true -> kind_k kd = 1.
Proof. destruct kd; simpl; congruence. Qed.

Lemma range_of_spec p i : iwf p -> i < ilen p ->
  range_of p i = Ok (spec_range p i) /\
  fst (spec_range p i) + snd (spec_range p i) <= ip_nrows p * kind_k (ip_kind p).
Proof.
  intros [W1 _] Hi.
  unfold range_of, spec_range, ilen in *. destruct (is_poly (ip_kind p)) eqn:Ep.
  - rewrite (nth_error_nth' _ 0 Hi). unfold start_of. split; auto. simpl.
    rewrite (poly_k _ Ep). pose proof (sum_firstn_nth _ _ Hi). rewrite (W1 eq_refl) in H. lia.
  - destruct (Nat.eqb_spec (ip_nrows p) 0); [lia|].
    destruct (Nat.ltb_spec i (ip_nrows p)); [|lia]. split; auto. simpl. nia.
Qed.

Lemma gather_pick data idx st cnt : view_ok (length idx) (data, idx) -> st + cnt <= length idx ->
  gather data (slice st cnt idx) = Ok (rows_at data (pick 0%N idx st cnt)).
Proof.
  intros [_ R] H. simpl in R. rewrite (slice_pick 0%N) by exact H. unfold rows_at.
  apply gather_total. apply Forall_pick; assumption.
Qed.

Lemma sum_zero_nth l i : sum l = 0 -> nth i l 0 = 0.
Proof.
  revert i. induction l as [|a l IH]; intros i H; destruct i; simpl in *; auto; try lia. apply IH. lia.
Qed.

Lemma sum_zero_firstn l i : sum l = 0 -> sum (firstn i l) = 0.
Proof.
  revert i. induction l as [|a l IH]; intros i H; destruct i; simpl in *; auto. rewrite IH; lia.
Qed.

Lemma getitem_spec p i : iwf p -> i < ilen p -> getitem p i = Ok (spec_item p i).
Proof.
  intros W Hi. destruct (range_of_spec p i W Hi) as [Hr Hb].
  destruct W as [W1 [W2 [W2' [W3 [W4 W5]]]]]. unfold getitem, spec_item. rewrite Hr.
  destruct (ip_vertex p) as [[vdata vidx]|] eqn:Ev.
  2: { (* no views: only polylists / polygons whose polygons all have zero corners *)
    destruct (W2' eq_refl) as [En Et]. rewrite En, Et.
    assert (Z : ip_nrows p = 0) by (destruct (Nat.eq_dec (ip_nrows p) 0); [auto|exfalso; now apply W2]).
    unfold spec_range, ilen in *. destruct (is_poly (ip_kind p)) eqn:Ep; [|lia].
    specialize (W1 eq_refl). rewrite Z in W1.
    rewrite (sum_zero_nth _ i W1), (sum_zero_firstn _ i W1). simpl.
    destruct (ip_kind p); try discriminate; reflexivity. }
  destruct (spec_range p i) as [st cnt]. simpl in Hb.
  pose proof (W3 _ eq_refl) as Vok. destruct Vok as [Vl Vr]. simpl in Vl, Vr.
  rewrite (gather_pick vdata vidx st cnt) by (try split; simpl; auto; lia).
  rewrite (slice_pick 0%N st cnt vidx) by lia.
  assert (T : omapM (fun t => gather (fst t) (slice st cnt (snd t))) (ip_texcoord p) =
              Ok (map (fun t => rows_at (fst t) (pick 0%N (snd t) st cnt)) (ip_texcoord p))).
  { apply omapM_all_ok. intros [d ix] Hin. rewrite Forall_forall in W5. destruct (W5 _ Hin) as [L R].
    simpl in *. apply gather_pick; [split; simpl; auto; now rewrite L|lia]. }
  assert (T2 : map (fun t => slice st cnt (snd t)) (ip_texcoord p) =
               map (fun t => pick 0%N (snd t) st cnt) (ip_texcoord p)).
  { apply map_ext_in. intros [d ix] Hin. rewrite Forall_forall in W5. destruct (W5 _ Hin) as [L R].
    simpl in *. apply slice_pick. lia. }
  rewrite T, T2. simpl fst. simpl snd.
  destruct (ip_normal p) as [[ndata nidx']|] eqn:En.
  - pose proof (W4 _ eq_refl) as [Nl Nr]. simpl in Nl, Nr.
    rewrite (gather_pick ndata nidx' st cnt) by (try split; simpl; auto; lia).
    rewrite (slice_pick 0%N st cnt nidx') by lia.
    destruct (ip_kind p); reflexivity.
  - destruct (ip_kind p); reflexivity.
Qed.

Lemma getitem_end p : getitem p (ilen p) = Raise PyIndexError.
Proof.
  unfold getitem, range_of, ilen. destruct (is_poly (ip_kind p)).
  - rewrite (proj2 (nth_error_None _ _)) by lia. reflexivity.
  - destruct (ip_nrows p =? 0); [reflexivity|]. rewrite Nat.ltb_irrefl. reflexivity.
Qed.

Lemma iter_is_map p : iwf p -> iter p = Ok (map (spec_item p) (seq 0 (ilen p))).
Proof.
  intros W. unfold iter. apply legacy_iter_spec; [|apply getitem_end|lia].
  intros j Hj. apply getitem_spec; auto.
Qed.

Lemma shapes_is_map p : iwf p -> shapes p = Ok (map (spec_item p) (seq 0 (ilen p))).
Proof.
  intros W. unfold shapes. apply omapM_all_ok. intros i Hi. apply in_seq in Hi.
  apply getitem_spec; auto. lia.
Qed.

(* ---- acceptance by a constructor gives well-formedness, bound or unbound *)
Definition mk_iprim (p : prim) (b : bool) (fv fn ft : view -> list (list Z) * list N) (mat : option N) : iprim :=
  IPrim (p_kind p) b (p_nrows p) (p_vcounts p) (option_map fv (p_vertex p)) (option_map fn (p_normal p))
        (map ft (p_texcoord p)) mat.

Definition keeps (f : view -> list (list Z) * list N) : Prop :=
  forall v, snd (f v) = v_idx v /\ length (fst (f v)) = s_len (v_src v).

Lemma in_exposed_vertex p v : p_vertex p = Some v -> In (v, 3) (exposed p).
Proof. intro H. unfold exposed. rewrite H. simpl. auto. Qed.
Lemma in_exposed_normal p v : p_normal p = Some v -> In (v, 3) (exposed p).
Proof. intro H. unfold exposed. rewrite H. apply in_or_app. right. simpl. auto. Qed.
Lemma in_exposed_texcoord p v : In v (p_texcoord p) -> In (v, 2) (exposed p).
Proof. intro H. unfold exposed. apply in_or_app. right. apply in_or_app. right. apply in_or_app. left.
  apply in_map_iff. exists v. auto. Qed.

Lemma construct_iwf kd ins mat s p b fv fn ft m : construct kd ins mat s = Ok p ->
  keeps fv -> keeps fn -> keeps ft -> iwf (mk_iprim p b fv fn ft m).
Proof.
  intros H Kv Kn Kt. pose proof (accepted_in_range _ _ _ _ _ H) as R.
  destruct (accepted_shapes _ _ _ _ _ H) as [Hk [S Hsum]]. rewrite Forall_forall in R, S.
  destruct (construct_facts _ _ _ _ _ H) as [t F].
  assert (V : forall f v nc, keeps f -> In (v, nc) (exposed p) -> view_ok (p_nrows p * kind_k (p_kind p)) (f v)).
  { intros f v nc K Hin. destruct (K v) as [K1 K2]. split.
    - rewrite K1, Hk. apply (S _ Hin).
    - rewrite K1, K2. apply (R _ Hin). }
  unfold iwf, mk_iprim. simpl. repeat split.
  - intro Hp. rewrite Hk in Hp. auto.
  - intros NZ E. destruct (p_vertex p) eqn:Ev; [discriminate|]. apply (af_vertex _ _ _ _ _ F NZ). exact Ev.
  - destruct (p_vertex p) eqn:Ev; [discriminate|].
    destruct (Nat.eq_dec (p_nrows p) 0) as [Z|NZ]; [|exfalso; now apply (af_vertex _ _ _ _ _ F NZ)].
    destruct (af_empty _ _ _ _ _ F Z) as [_ [_ [-> _]]]. reflexivity.
  - destruct (p_vertex p) eqn:Ev; [discriminate|].
    destruct (Nat.eq_dec (p_nrows p) 0) as [Z|NZ]; [|exfalso; now apply (af_vertex _ _ _ _ _ F NZ)].
    destruct (af_empty _ _ _ _ _ F Z) as [_ [_ [_ ->]]]. reflexivity.
  - destruct (p_vertex p) as [v|] eqn:Ev; simpl in H0; [|discriminate]. inversion H0. subst x.
    apply (V fv v 3 Kv). now apply in_exposed_vertex.
  - destruct (p_vertex p) as [v|] eqn:Ev; simpl in H0; [|discriminate]. inversion H0. subst x.
    apply (V fv v 3 Kv). now apply in_exposed_vertex.
  - destruct (p_normal p) as [v|] eqn:Ev; simpl in H0; [|discriminate]. inversion H0. subst x.
    apply (V fn v 3 Kn). now apply in_exposed_normal.
  - destruct (p_normal p) as [v|] eqn:Ev; simpl in H0; [|discriminate]. inversion H0. subst x.
    apply (V fn v 3 Kn). now apply in_exposed_normal.
  - apply Forall_forall. intros x Hx. apply in_map_iff in Hx. destruct Hx as [v [<- Hv]].
    apply (V ft v 2 Kt). now apply in_exposed_texcoord.
Qed.

Lemma keeps_vw : keeps vw.
Proof. intro v. split; reflexivity. Qed.
Lemma keeps_map (g : list Z -> list Z) : keeps (fun v => (map g (s_rows (v_src v)), v_idx v)).
Proof. intro v. split; [reflexivity|]. simpl. now rewrite map_length. Qed.

Lemma unbound_iwf kd ins mat s p : construct kd ins mat s = Ok p -> iwf (unbound p).
Proof. intro H. apply (construct_iwf _ _ _ _ _ false vw vw vw (p_material p) H); apply keeps_vw. Qed.

Lemma bind_iwf kd ins mat s p m mm : construct kd ins mat s = Ok p -> iwf (bind p m mm).
Proof.
  intro H. unfold bind.
  apply (construct_iwf _ _ _ _ _ true (fun v => (map (xform_point m) (s_rows (v_src v)), v_idx v))
           (fun v => (map (xform_dir m) (s_rows (v_src v)), v_idx v)) vw _ H);
    try apply keeps_map; apply keeps_vw.
Qed.

Lemma getitem_ok_lt p i it : getitem p i = Ok it -> i < ilen p.
Proof.
  unfold getitem, range_of, ilen. destruct (is_poly (ip_kind p)).
  - destruct (nth_error (ip_vcounts p) i) eqn:E; [|discriminate]. intros _.
    apply nth_error_Some. congruence.
  - destruct (ip_nrows p =? 0); [discriminate|]. destruct (Nat.ltb_spec i (ip_nrows p)); [auto|discriminate].
Qed.

Lemma pick_nth {A} (d : A) l st cnt c : c < cnt -> nth c (pick d l st cnt) d = nth (st + c) l d.
Proof.
  intro H. unfold pick. rewrite (nth_map' _ 0) by (now rewrite seq_length). rewrite seq_nth by exact H. reflexivity.
Qed.

Lemma rows_at_nth data idx c : c < length idx -> nth c (rows_at data idx) [] = nth (N.to_nat (nth c idx 0%N)) data [].
Proof. intro H. unfold rows_at. now rewrite (nth_map' _ 0%N) by exact H. Qed.

Lemma pick_length {A} (d : A) l st cnt : length (pick d l st cnt) = cnt.
Proof. unfold pick. now rewrite map_length, seq_length. Qed.

(* ---- Python index normalisation *)
Lemma getitem_z_spec p z : iwf p ->
  ((0 <= z < Z.of_nat (ilen p))%Z -> getitem_z p z = Ok (spec_item p (Z.to_nat z))) /\
  ((- Z.of_nat (ilen p) <= z < 0)%Z -> getitem_z p z = Ok (spec_item p (Z.to_nat (z + Z.of_nat (ilen p))))) /\
  ((z < - Z.of_nat (ilen p) \/ Z.of_nat (ilen p) <= z)%Z -> getitem_z p z = Raise PyIndexError).
Proof.
  intro W. unfold getitem_z, Py.norm_index.
  destruct (Z.leb_spec 0 z); destruct (Z.ltb_spec z (Z.of_nat (ilen p)));
    destruct (Z.leb_spec 0 (z + Z.of_nat (ilen p))); repeat split; intros; try lia; try reflexivity;
    apply getitem_spec; auto; lia.
Qed.

(* ---- a bound item is the unbound item transformed *)
Lemma rows_at_map (f : list Z -> list Z) data idx :
  Forall (fun ix => (ix < N.of_nat (length data))%N) idx ->
  rows_at (map f data) idx = map f (rows_at data idx).
Proof.
  intro H. unfold rows_at. rewrite map_map. apply map_ext_in. intros ix Hin.
  rewrite Forall_forall in H. specialize (H _ Hin). apply nth_map'. lia.
Qed.

Lemma bound_item_transformed kd ins mat s p m mm i : construct kd ins mat s = Ok p -> i < ilen (unbound p) ->
  let u := spec_item (unbound p) i in
  let b := spec_item (bind p m mm) i in
  it_indices b = it_indices u /\
  it_vertices b = map (xform_point m) (it_vertices u) /\
  it_texcoord_indices b = it_texcoord_indices u /\ it_texcoords b = it_texcoords u /\
  (forall l, it_normal_indices u = NIdx l -> it_normal_indices b = NIdx l) /\
  (forall rows, it_normals u = NRows rows -> it_normals b = NRows (map (xform_dir m) rows)) /\
  (it_normals u = NNone -> it_normals b = NNone) /\
  it_material b = match p_material p with Some sy => lookup mm sy | None => None end.
Proof.
  intros H Hi. pose proof (unbound_iwf _ _ _ _ _ H) as W.
  destruct (range_of_spec _ i W Hi) as [_ Hb]. destruct W as [_ [W2a [W2b [W3 [W4 _]]]]].
  cbv zeta. unfold spec_item.
  change (spec_range (bind p m mm) i) with (spec_range (unbound p) i).
  destruct (spec_range (unbound p) i) as [st cnt]. simpl in Hb.
  unfold bind, unbound in *. simpl in *.
  destruct (p_vertex p) as [vv|].
  2: { (* no views: zero rows, so the item has no corners at all *)
    assert (Z : p_nrows p = 0) by (destruct (Nat.eq_dec (p_nrows p) 0); [auto|exfalso; now apply W2a]).
    rewrite Z in Hb. assert (cnt = 0) by lia. subst cnt.
    destruct (W2b eq_refl) as [En Et].
    destruct (p_normal p); [discriminate|]. destruct (p_texcoord p); [|discriminate].
    simpl. repeat split; try reflexivity; intros; destruct (p_kind p); try discriminate; reflexivity. }
  destruct (W3 _ eq_refl) as [Vl Vr]. simpl in Vl, Vr.
  assert (PV : Forall (fun ix => (ix < N.of_nat (length (s_rows (v_src vv))))%N) (pick 0%N (v_idx vv) st cnt))
    by (apply Forall_pick; [lia|exact Vr]).
  destruct (p_normal p) as [nv|]; simpl.
  - destruct (W4 _ eq_refl) as [Nl Nr]. simpl in Nl, Nr.
    assert (PN : Forall (fun ix => (ix < N.of_nat (length (s_rows (v_src nv))))%N) (pick 0%N (v_idx nv) st cnt))
      by (apply Forall_pick; [lia|exact Nr]).
    repeat split; try reflexivity.
    + now apply rows_at_map.
    + intros l E. destruct (p_kind p); (exact E || discriminate).
    + intros rows E. destruct (p_kind p); inversion E; subst; f_equal; now apply rows_at_map.
    + intro E. destruct (p_kind p); discriminate.
  - repeat split; try reflexivity.
    + now apply rows_at_map.
    + intros l E. destruct (p_kind p); discriminate.
    + intros rows E. destruct (p_kind p); discriminate.
    + intro E. destruct (p_kind p); [discriminate|reflexivity..].
Qed.

(* ---- the binding arithmetic is Base/Mat.v's: rows of matrix[:3, :] as an affine 4x4 matrix *)
Definition mat_of_rows (m : list (list Z)) : matZ :=
  let e i j := nth j (nth i m []) 0%Z in
  Mat (e 0 0) (e 0 1) (e 0 2) (e 0 3) (e 1 0) (e 1 1) (e 1 2) (e 1 3) (e 2 0) (e 2 1) (e 2 2) (e 2 3) 0%Z 0%Z 0%Z 1%Z.
Definition v3 (l : list Z) : vec3 Z := (nth 0 l 0%Z, nth 1 l 0%Z, nth 2 l 0%Z).
Definition l3 (v : vec3 Z) : list Z := let '(a, b, c) := v in [a; b; c].
Lemma xform_point_mat m v : length m = 3 ->
  xform_point m v = l3 (xyz (zmapply (mat_of_rows m) (point 1%Z (v3 v)))).
Proof.
  intro H. destruct m as [|r0 [|r1 [|r2 [|]]]]; try discriminate.
  cbv [xform_point map dot3 l3 xyz zmapply mapply mat_of_rows point v3 m00 m01 m02 m03 m10 m11 m12 m13 m20 m21 m22 m23 m30 m31 m32 m33].
  cbn [nth]. repeat f_equal; ring.
Qed.
Lemma xform_dir_mat m v : length m = 3 ->
  xform_dir m v = l3 (zlin_apply (mat_of_rows m) (v3 v)).
Proof.
  intro H. destruct m as [|r0 [|r1 [|r2 [|]]]]; try discriminate.
  cbv [xform_dir map dot3 l3 zlin_apply lin_apply mat_of_rows v3 m00 m01 m02 m03 m10 m11 m12 m13 m20 m21 m22 m23].
  cbn [nth]. reflexivity.
Qed.
Lemma mat_of_rows_affine m : affine 0%Z 1%Z (mat_of_rows m).
Proof. cbv. auto. Qed.
