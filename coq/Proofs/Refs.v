(* Lemmas about Model/Refs.v (statements of the property are in Properties/C07.v). *)
From Coq Require Import List Bool NArith Lia Permutation.
From PC Require Import Base.Outcome Base.Py Base.Libs Gen.Params Model.IndexedList Model.Errors Model.Refs
     Proofs.Errors.
Import ListNotations.

(* every loader looks only into libraries loaded by an earlier step (or its own) *)
Definition deps_respected : bool :=
  forallb (fun p => lib_eqb (fst p) (snd p) || before (snd p) (fst p) load_order) lookups.

Lemma deps_respected_true : deps_respected = true.
Proof. vm_compute. reflexivity. Qed.
