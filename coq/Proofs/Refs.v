(* Lemmas about Model/Refs.v (statements of the property are in Properties/C07.v). *)
From Coq Require Import List Bool NArith Lia Permutation.
From PC Require Import Base.Outcome Base.Py Base.Libs Gen.Params Model.IndexedList Model.Errors Model.Refs
     Proofs.Errors.
Import ListNotations.

(* every loader looks only into libraries loaded by an earlier step (or its own) *)
Definition deps_respected : bool :=
  forallb (fun p => lib_eqb (fst p) (snd p) || before (snd p) (fst p) load_order) lookups.

Lemma deps_respected_true : deps_respected = true.
Proof. vm_compute. reflexivity. Qed.

(* ---------------------------------------------------------------- look-ups *)

Lemma spec_lookup_in : forall l a u, spec_lookup l a = Some u -> In (u, a) l.
Proof.
  induction l as [|x r IH]; intros a u H; simpl in H; [discriminate|].
  destruct (spec_lookup r a) as [v|] eqn:E.
  - inversion H. subst. right. apply IH. exact E.
  - destruct (N.eqb a (oid x)) eqn:Ea; [|discriminate].
    inversion H. apply N.eqb_eq in Ea. left. destruct x as [xu xi]. unfold oid, ouid in *. simpl in *. subst. reflexivity.
Qed.

Lemma spec_lookup_none : forall l a, spec_lookup l a = None <-> (forall u, ~ In (u, a) l).
Proof.
  induction l as [|x r IH]; intro a; simpl.
  - split; [intros _ u []|reflexivity].
  - destruct (spec_lookup r a) as [v|] eqn:E.
    + split; [discriminate|]. intro H. exfalso. apply (H v). right. apply spec_lookup_in. exact E.
    + destruct (N.eqb a (oid x)) eqn:Ea.
      * split; [discriminate|]. intro H. exfalso. apply N.eqb_eq in Ea.
        destruct x as [xu xi]. unfold oid in Ea. simpl in Ea. subst. apply (H xu). left. reflexivity.
      * split; [|reflexivity]. intros _ u [Hx|Hr].
        -- subst x. unfold oid in Ea. simpl in Ea. rewrite N.eqb_refl in Ea. discriminate.
        -- apply (proj1 (IH a) E u Hr).
Qed.

Lemma spec_lookup_app : forall l l' a,
  spec_lookup (l ++ l') a = match spec_lookup l' a with Some u => Some u | None => spec_lookup l a end.
Proof.
  induction l as [|x r IH]; intros l' a; simpl.
  - destruct (spec_lookup l' a); reflexivity.
  - rewrite IH. destruct (spec_lookup l' a); reflexivity.
Qed.

(* with unique ids the object found is THE object carrying the id *)
Lemma spec_lookup_unique : forall l a u, NoDup (map oid l) -> In (u, a) l -> spec_lookup l a = Some u.
Proof.
  induction l as [|x r IH]; intros a u Hnd Hin; [contradiction|].
  simpl in Hnd. inversion Hnd as [|? ? Hnot Hnd']. subst. simpl.
  destruct Hin as [Hx|Hr].
  - subst x. assert (E : spec_lookup r a = None).
    { apply spec_lookup_none. intros v Hv. apply Hnot. unfold oid at 1. simpl.
      change a with (oid (v, a)). apply in_map. exact Hv. }
    rewrite E. unfold oid, ouid. simpl. rewrite N.eqb_refl. reflexivity.
  - rewrite (IH a u Hnd' Hr). reflexivity.
Qed.

(* a reference that resolves is bound to an object of the right library carrying that id *)
Lemma resolve_ok_in o r u : resolve o r = Ok u -> In (u, r_id r) (lib_list o (r_lib r)).
Proof.
  unfold resolve. destruct (if r_hash r then None else nohash_exn (r_site r)); [discriminate|].
  unfold lookup. destruct (spec_lookup (lib_list o (r_lib r)) (r_id r)) as [v|] eqn:E; [|discriminate].
  intro H. inversion H. subst. apply spec_lookup_in. exact E.
Qed.

(* a dangling reference is a broken-reference error *)
Lemma resolve_dangling o r :
  r_hash r = true -> (forall u, ~ In (u, r_id r) (lib_list o (r_lib r))) -> resolve o r = Raise DaeBrokenRef.
Proof.
  intros Hh Hn. unfold resolve. rewrite Hh. unfold lookup.
  rewrite (proj2 (spec_lookup_none _ _) Hn). reflexivity.
Qed.

(* two references to the same id of the same library are bound to the identical object *)
Lemma resolve_same o r1 r2 u1 u2 :
  resolve o r1 = Ok u1 -> resolve o r2 = Ok u2 -> r_lib r1 = r_lib r2 -> r_id r1 = r_id r2 -> u1 = u2.
Proof.
  unfold resolve. intros H1 H2 El Ei.
  destruct (if r_hash r1 then None else nohash_exn (r_site r1)); [discriminate|].
  destruct (if r_hash r2 then None else nohash_exn (r_site r2)); [discriminate|].
  rewrite El, Ei in H1. destruct (lookup o (r_lib r2) (r_id r2)); [|discriminate].
  inversion H1. inversion H2. subst. reflexivity.
Qed.

(* with unique ids in the library, it is THE library object carrying the id *)
Lemma resolve_the_object o r u :
  r_hash r = true -> NoDup (map oid (lib_list o (r_lib r))) -> In (u, r_id r) (lib_list o (r_lib r)) ->
  resolve o r = Ok u.
Proof.
  intros Hh Hnd Hin. unfold resolve. rewrite Hh. unfold lookup.
  rewrite (spec_lookup_unique _ _ _ Hnd Hin). reflexivity.
Qed.

Lemma lib_list_app o o' l : lib_list (o ++ o') l = lib_list o l ++ lib_list o' l.
Proof. unfold lib_list. rewrite filter_app, map_app. reflexivity. Qed.

(* libraries only grow: once bound, later appends of OTHER ids do not change the binding *)
Lemma resolve_stable o o' r u :
  resolve o r = Ok u -> (forall v, ~ In (v, r_id r) (lib_list o' (r_lib r))) -> resolve (o ++ o') r = Ok u.
Proof.
  unfold resolve. destruct (if r_hash r then None else nohash_exn (r_site r)); [discriminate|].
  unfold lookup. rewrite lib_list_app, spec_lookup_app. intros H Hn.
  rewrite (proj2 (spec_lookup_none _ _) Hn). exact H.
Qed.

(* missing '#': the documented class for that site, before any look-up *)
Lemma resolve_nohash o r x : r_hash r = false -> nohash_exn (r_site r) = Some x -> resolve o r = Raise x.
Proof. intros Hh Hx. unfold resolve. rewrite Hh, Hx. reflexivity. Qed.

Lemma filter_map_all_lib {A} (l : lib) (f : A -> obj) (ms : list A) :
  filter (fun p : lib * obj => lib_eqb (fst p) l) (map (fun u => (l, f u)) ms) = map (fun u => (l, f u)) ms.
Proof.
  induction ms as [|m r IH]; simpl; [reflexivity|]. rewrite lib_eqb_refl, IH. reflexivity.
Qed.

(* saved references: '#' + current id resolves, in the written library, to the object itself *)
Lemma saved_ref_resolves l cid members u :
  In u members -> NoDup (map cid members) ->
  resolve (written_lib l cid members) (saved_ref l cid u) = Ok u.
Proof.
  intros Hin Hnd. apply resolve_the_object; simpl.
  - reflexivity.
  - unfold written_lib, lib_list. rewrite filter_map_all_lib. rewrite !map_map. simpl. exact Hnd.
  - unfold written_lib, lib_list. rewrite filter_map_all_lib. rewrite map_map. simpl.
    apply in_map_iff. exists u. split; [reflexivity|exact Hin].
Qed.

(* ---------------------------------------------------------------- order of the libraries *)

(* the loader sees the document only through "the libraries of kind k, in document order" *)
Lemma step_contents mk d1 d2 k s :
  (forall k', contents_of d1 k' = contents_of d2 k') -> step mk d1 k s = step mk d2 k s.
Proof.
  intro H.
  assert (Hi : forall k', items_of d1 k' = items_of d2 k') by (intro k'; unfold items_of; rewrite H; reflexivity).
  assert (Hn : node_groups_of d1 = node_groups_of d2) by (unfold node_groups_of; rewrite H; reflexivity).
  assert (Hs : scenes_of d1 = scenes_of d2) by (unfold scenes_of; rewrite H; reflexivity).
  assert (Hd : default_of d1 = default_of d2) by (unfold default_of; rewrite H; reflexivity).
  destruct k; unfold step; rewrite ?Hi, ?Hn, ?Hs, ?Hd; reflexivity.
Qed.

Lemma run_steps_contents mk d1 d2 :
  (forall k', contents_of d1 k' = contents_of d2 k') ->
  forall steps s, run_steps mk d1 steps s = run_steps mk d2 steps s.
Proof.
  intro H. induction steps as [|k r IH]; intro s; simpl; [reflexivity|].
  rewrite (step_contents mk d1 d2 k s H). destruct (step mk d2 k s); try reflexivity. apply IH.
Qed.

Lemma filter_le_one {A} (key : A -> lib) (k : lib) (d : list A) :
  NoDup (map key d) -> length (filter (fun p => lib_eqb (key p) k) d) <= 1.
Proof.
  induction d as [|x r IH]; intro Hnd; simpl; [lia|].
  inversion Hnd as [|? ? Hnot Hnd']. subst.
  destruct (lib_eqb (key x) k) eqn:E.
  - apply lib_eqb_eq in E. simpl.
    assert (Hz : filter (fun p => lib_eqb (key p) k) r = []).
    { destruct (filter (fun p => lib_eqb (key p) k) r) as [|y ys] eqn:F; [reflexivity|].
      exfalso. assert (Hy : In y (filter (fun p => lib_eqb (key p) k) r)) by (rewrite F; left; reflexivity).
      apply filter_In in Hy. destruct Hy as [Hy1 Hy2]. apply lib_eqb_eq in Hy2.
      apply Hnot. rewrite E, <- Hy2. apply in_map. exact Hy1. }
    rewrite Hz. simpl. lia.
  - apply IH. exact Hnd'.
Qed.

Lemma perm_short_eq {A} (a b : list A) : Permutation a b -> length a <= 1 -> a = b.
Proof.
  intros P L. destruct a as [|x [|y a]]; simpl in L.
  - apply Permutation_nil in P. subst. reflexivity.
  - apply Permutation_length_1_inv in P. subst. reflexivity.
  - lia.
Qed.

Lemma perm_filter {A} (f : A -> bool) (l l' : list A) :
  Permutation l l' -> Permutation (filter f l) (filter f l').
Proof.
  induction 1 as [|x l l' P IH|x y l|l l' l'' P1 IH1 P2 IH2]; simpl.
  - constructor.
  - destruct (f x); [constructor|]; exact IH.
  - destruct (f x), (f y); try apply Permutation_refl. apply perm_swap.
  - eapply Permutation_trans; eassumption.
Qed.

Lemma contents_perm d1 d2 :
  Permutation d1 d2 -> NoDup (map fst d1) -> forall k, contents_of d1 k = contents_of d2 k.
Proof.
  intros P Hnd k. unfold contents_of. f_equal.
  apply perm_short_eq.
  - apply perm_filter. exact P.
  - apply (filter_le_one (@fst lib content) k d1 Hnd).
Qed.

(* ---------------------------------------------------------------- the retry loop: fuel *)

Section Fuel.
  Variable mk : mask.
  Variable sc : scope.
  Variable o : objs.

  Lemma pass_counts : forall nodes loaded pending errs succ l' p' e' s',
    pass mk sc o nodes loaded pending errs succ = (l', p', e', s', None) ->
    length p' <= length pending + length nodes /\
    (s' = true -> succ = true \/ length p' < length pending + length nodes).
  Proof.
    induction nodes as [|n r IH]; intros loaded pending errs succ l' p' e' s' H.
    - simpl in H. inversion H. subst. simpl. split; [lia|]. intro; left; assumption.
    - simpl in H.
      destruct (load_children (load_child sc o loaded) mk (n_children n) [] errs) as [[vals errs1] st].
      destruct st as [|x|].
      + destruct (IH _ _ _ _ _ _ _ _ H) as [A B]. simpl. split; [lia|]. intro Hs. right.
        destruct (B Hs) as [_|B']; lia.
      + discriminate.
      + destruct (IH _ _ _ _ _ _ _ _ H) as [A B]. rewrite app_length in A, B. simpl in A, B. simpl.
        split; [lia|]. intro Hs. destruct (B Hs) as [B'|B']; [left; exact B'|right; lia].
  Qed.

  Lemma retry_unfold f loaded p ps errs :
    retry mk sc o (S f) loaded (p :: ps) errs true =
    let '(l', p', e', s', ab) := pass mk sc o (p :: ps) loaded [] errs false in
    match ab with Some x => NAborted l' e' x | None => retry mk sc o f l' p' e' s' end.
  Proof. reflexivity. Qed.

  Lemma retry_fuel : forall fuel loaded pending errs succ,
    length pending < fuel -> retry mk sc o fuel loaded pending errs succ <> NOutOfFuel.
  Proof.
    induction fuel as [|f IH]; intros loaded pending errs succ Hlt; [lia|].
    destruct pending as [|p ps]; [simpl; discriminate|].
    destruct succ; [|simpl; discriminate].
    rewrite retry_unfold.
    destruct (pass mk sc o (p :: ps) loaded [] errs false) as [[[[l' p'] e'] s'] ab] eqn:E.
    destruct ab as [x|]; [discriminate|].
    destruct (pass_counts _ _ _ _ _ _ _ _ _ E) as [A B]. simpl in A, B.
    destruct s'.
    - apply IH. destruct (B eq_refl) as [B'|B']; [discriminate|]. simpl in Hlt. lia.
    - destruct f; destruct p'; simpl; discriminate.
  Qed.

  Lemma load_group_fuel nodes loaded errs : load_group mk sc o nodes loaded errs <> NOutOfFuel.
  Proof.
    unfold load_group.
    destruct (pass mk sc o nodes loaded [] errs false) as [[[[l' p'] e'] s'] ab].
    destruct ab; [discriminate|]. apply retry_fuel. lia.
  Qed.
End Fuel.

Lemma load_node_groups_fuel mk o : forall groups loaded errs l e ab oof,
  load_node_groups mk o groups loaded errs = (l, e, ab, oof) -> oof = false.
Proof.
  induction groups as [|g r IH]; intros loaded errs l e ab oof H; simpl in H.
  - inversion H. reflexivity.
  - destruct (load_group mk InLibrary o g loaded errs) as [l1 left1 e1|l1 e1 x|] eqn:E.
    + destruct (report_leftovers mk left1 e1) as [e2 ab2]. destruct ab2.
      * inversion H. reflexivity.
      * eapply IH. exact H.
    + inversion H. reflexivity.
    + exfalso. exact (load_group_fuel mk InLibrary o g loaded errs E).
Qed.

Lemma load_scene_fuel mk o s errs e : load_scene mk o s errs <> (e, inr tt).
Proof.
  unfold load_scene.
  destruct (load_group mk InScene o (s_nodes s) [] errs) as [l1 left1 e1|l1 e1 x|] eqn:E.
  - destruct left1; discriminate.
  - discriminate.
  - exfalso. exact (load_group_fuel mk InScene o (s_nodes s) [] errs E).
Qed.

Lemma load_scenes_fuel mk o : forall ss loaded errs l e ab oof,
  load_scenes mk o ss loaded errs = (l, e, ab, oof) -> oof = false.
Proof.
  induction ss as [|s r IH]; intros loaded errs l e ab oof H; simpl in H.
  - inversion H. reflexivity.
  - destruct (load_scene mk o s errs) as [e1 [[v|x]|[]]] eqn:E.
    + eapply IH. exact H.
    + destruct (catch x).
      * unfold handle in H. destruct (masked mk e0); [eapply IH; exact H|inversion H; reflexivity].
      * inversion H. reflexivity.
    + exfalso. exact (load_scene_fuel mk o s errs e1 E).
Qed.

Lemma step_fuel mk d k s : step mk d k s <> DOutOfFuel.
Proof.
  destruct k; unfold step; try discriminate.
  - destruct (load_lib (load_item (st_objs s)) mk (items_of d LImages) [] (st_errs s)) as [[v e] ab]. destruct ab; discriminate.
  - destruct (load_lib (load_item (st_objs s)) mk (items_of d LEffects) [] (st_errs s)) as [[v e] ab]. destruct ab; discriminate.
  - destruct (load_lib (load_item (st_objs s)) mk (items_of d LMaterials) [] (st_errs s)) as [[v e] ab]. destruct ab; discriminate.
  - destruct (load_lib (load_item (st_objs s)) mk (items_of d LAnimations) [] (st_errs s)) as [[v e] ab]. destruct ab; discriminate.
  - destruct (load_lib (load_item (st_objs s)) mk (items_of d LGeometry) [] (st_errs s)) as [[v e] ab]. destruct ab; discriminate.
  - destruct (load_lib (load_item (st_objs s)) mk (items_of d LControllers) [] (st_errs s)) as [[v e] ab]. destruct ab; discriminate.
  - destruct (load_lib (load_item (st_objs s)) mk (items_of d LLights) [] (st_errs s)) as [[v e] ab]. destruct ab; discriminate.
  - destruct (load_lib (load_item (st_objs s)) mk (items_of d LCameras) [] (st_errs s)) as [[v e] ab]. destruct ab; discriminate.
  - destruct (load_node_groups mk (st_objs s) (node_groups_of d) (st_nodes s) (st_errs s)) as [[[l e] ab] oof] eqn:E.
    rewrite (load_node_groups_fuel _ _ _ _ _ _ _ _ _ E). destruct ab; discriminate.
  - destruct (load_scenes mk (st_objs s) (scenes_of d) [] (st_errs s)) as [[[l e] ab] oof] eqn:E.
    rewrite (load_scenes_fuel _ _ _ _ _ _ _ _ _ E). destruct ab; discriminate.
  - destruct (default_of d); [|discriminate].
    destruct (resolve (st_objs s) r); [discriminate|].
    destruct (handle mk (st_errs s) e) as [e' ab]. destruct ab; discriminate.
Qed.

Lemma run_steps_fuel mk d : forall steps s, run_steps mk d steps s <> DOutOfFuel.
Proof.
  induction steps as [|k r IH]; intro s; simpl; [discriminate|].
  destruct (step mk d k s) eqn:E; [apply IH|discriminate|exfalso; exact (step_fuel mk d k s E)].
Qed.

(* ---------------------------------------------------------------- cycles and dangling instance_node *)

Lemma first_lookup_none : forall l a, (forall u, ~ In (u, a) l) -> first_lookup l a = None.
Proof.
  induction l as [|x r IH]; intros a H; simpl; [reflexivity|].
  destruct (N.eqb a (oid x)) eqn:E.
  - exfalso. apply N.eqb_eq in E. destruct x as [xu xi]. unfold oid in E. simpl in E. subst.
    apply (H xu). left. reflexivity.
  - apply IH. intros u Hu. apply (H u). right. exact Hu.
Qed.

Lemma children_not_done {Child Val} (f : Child -> cres Val) mk : forall cs c vals errs,
  In c cs -> f c = CDefer -> snd (load_children f mk cs vals errs) <> SDone.
Proof.
  induction cs as [|c0 r IH]; intros c vals errs Hin Hd; [contradiction|].
  simpl. destruct Hin as [->|Hin].
  - rewrite Hd. simpl. discriminate.
  - destruct (f c0) as [v|e|].
    + apply (IH c _ _ Hin Hd).
    + destruct (catch e) as [e'|]; [|simpl; discriminate].
      unfold handle. destruct (masked mk e'); [apply (IH c _ _ Hin Hd)|simpl; discriminate].
    + simpl. discriminate.
Qed.

Section Cycle.
  Variable mk : mask.
  Variable sc : scope.
  Variable o : objs.
  (* T: ids that can never be bound - ids of the nodes of a cycle, or an id nothing defines *)
  Variable T : ident -> Prop.
  Hypothesis Hlib : forall u t, T t -> ~ In (u, t) (lib_list o LNodes).

  Definition blocked (n : tnode) : Prop := exists t, In (NNode t true) (n_children n) /\ T t.
  Definition clean_loaded (loaded : list lnode) : Prop := forall ln, In ln loaded -> ~ T (snd (fst ln)).

  Lemma find_node_blocked loaded t : clean_loaded loaded -> T t -> find_node sc o loaded t = None.
  Proof.
    intros Hc Ht.
    assert (Hl : forall u, ~ In (u, t) (map lnode_obj loaded)).
    { intros u Hin. apply in_map_iff in Hin. destruct Hin as [ln [E Hin]].
      apply (Hc ln Hin). unfold lnode_obj in E. inversion E. subst. exact Ht. }
    destruct sc; simpl.
    - apply spec_lookup_none. intros u Hin. apply in_app_or in Hin. destruct Hin as [Hin|Hin].
      + exact (Hlib u t Ht Hin).
      + exact (Hl u Hin).
    - rewrite first_lookup_none.
      + unfold lookup. apply spec_lookup_none. intros u Hin. exact (Hlib u t Ht Hin).
      + intros u Hin. apply filter_In in Hin. destruct Hin as [Hin _]. exact (Hl u Hin).
  Qed.

  Lemma blocked_not_done n loaded vals errs :
    clean_loaded loaded -> blocked n ->
    snd (load_children (load_child sc o loaded) mk (n_children n) vals errs) <> SDone.
  Proof.
    intros Hc [t [Hin Ht]]. apply (children_not_done _ mk _ (NNode t true) vals errs Hin).
    simpl. rewrite (find_node_blocked loaded t Hc Ht). reflexivity.
  Qed.

  Lemma pass_blocked : forall nodes loaded pending errs succ l' p' e' s',
    (forall n, In n nodes -> T (n_id n) -> blocked n) ->
    clean_loaded loaded ->
    pass mk sc o nodes loaded pending errs succ = (l', p', e', s', None) ->
    clean_loaded l' /\
    (forall n, In n pending -> In n p') /\
    (forall n, In n nodes -> T (n_id n) -> In n p') /\
    (forall n, In n p' -> In n pending \/ In n nodes).
  Proof.
    induction nodes as [|n r IH]; intros loaded pending errs succ l' p' e' s' Hb Hc H.
    - simpl in H. inversion H. subst. repeat split; auto. intros n [].
    - simpl in H.
      pose proof (fun HT => blocked_not_done n loaded [] errs Hc (Hb n (or_introl eq_refl) HT)) as Hnd.
      destruct (load_children (load_child sc o loaded) mk (n_children n) [] errs) as [[vals errs1] st].
      simpl in Hnd.
      assert (Hb' : forall n0, In n0 r -> T (n_id n0) -> blocked n0) by (intros n0 Hin; apply Hb; right; exact Hin).
      destruct st as [|x|].
      + assert (HnT : ~ T (n_id n)) by (intro HT; apply (Hnd HT); reflexivity).
        assert (Hc' : clean_loaded (loaded ++ [(n_uid n, n_id n, vals)])).
        { intros ln Hin. apply in_app_or in Hin. destruct Hin as [Hin|[<-|[]]]; [apply Hc; exact Hin|exact HnT]. }
        destruct (IH _ _ _ _ _ _ _ _ Hb' Hc' H) as [A [B [C D]]].
        split; [exact A|]. split; [exact B|]. split.
        * intros n0 [<-|Hin] HT; [contradiction|apply C; assumption].
        * intros n0 Hin. destruct (D n0 Hin) as [D1|D1]; [left; exact D1|right; right; exact D1].
      + discriminate.
      + destruct (IH _ _ _ _ _ _ _ _ Hb' Hc H) as [A [B [C D]]].
        split; [exact A|]. split; [intros n0 Hin; apply B; apply in_or_app; left; exact Hin|]. split.
        * intros n0 [<-|Hin] HT; [apply B; apply in_or_app; right; left; reflexivity|apply C; assumption].
        * intros n0 Hin. destruct (D n0 Hin) as [D1|D1]; [|right; right; exact D1].
          apply in_app_or in D1. destruct D1 as [D1|[<-|[]]]; [left; exact D1|right; left; reflexivity].
  Qed.

  Lemma retry_blocked : forall fuel loaded pending errs succ l left e,
    (forall n, In n pending -> T (n_id n) -> blocked n) ->
    clean_loaded loaded ->
    retry mk sc o fuel loaded pending errs succ = NFinished l left e ->
    clean_loaded l /\ (forall n, In n pending -> T (n_id n) -> In n left).
  Proof.
    induction fuel as [|f IH]; intros loaded pending errs succ l left e Hb Hc H.
    - destruct pending as [|p ps]; simpl in H.
      + inversion H. subst. split; [exact Hc|]. intros n [].
      + destruct succ; [discriminate|]. inversion H. subst. split; [exact Hc|]. auto.
    - destruct pending as [|p ps]; [simpl in H; inversion H; subst; split; [exact Hc|intros n []]|].
      destruct succ; [|simpl in H; inversion H; subst; split; [exact Hc|auto]].
      rewrite retry_unfold in H.
      destruct (pass mk sc o (p :: ps) loaded [] errs false) as [[[[l' p'] e'] s'] ab] eqn:E.
      destruct ab as [x|]; [discriminate|].
      destruct (pass_blocked _ _ _ _ _ _ _ _ _ Hb Hc E) as [A [_ [C D]]].
      assert (Hb' : forall n, In n p' -> T (n_id n) -> blocked n).
      { intros n Hin. destruct (D n Hin) as [[]|D1]. apply Hb. exact D1. }
      destruct (IH _ _ _ _ _ _ _ Hb' A H) as [A' C'].
      split; [exact A'|]. intros n Hin HT. apply C'; [apply C; assumption|exact HT].
  Qed.

  Lemma load_group_blocked nodes loaded errs l left e :
    (forall n, In n nodes -> T (n_id n) -> blocked n) ->
    clean_loaded loaded ->
    load_group mk sc o nodes loaded errs = NFinished l left e ->
    clean_loaded l /\ (forall n, In n nodes -> T (n_id n) -> In n left).
  Proof.
    intros Hb Hc H. unfold load_group in H.
    destruct (pass mk sc o nodes loaded [] errs false) as [[[[l' p'] e'] s'] ab] eqn:E.
    destruct ab as [x|]; [discriminate|].
    destruct (pass_blocked _ _ _ _ _ _ _ _ _ Hb Hc E) as [A [_ [C D]]].
    assert (Hb' : forall n, In n p' -> T (n_id n) -> blocked n).
    { intros n Hin. destruct (D n Hin) as [[]|D1]. apply Hb. exact D1. }
    destruct (retry_blocked _ _ _ _ _ _ _ _ Hb' A H) as [A' C'].
    split; [exact A'|]. intros n Hin HT. apply C'; [apply C; assumption|exact HT].
  Qed.
End Cycle.

(* leftovers are reported as broken references; unmasked, the first one aborts the load *)
Lemma report_leftovers_brokenref mk left errs :
  left <> [] ->
  In DaeBrokenRef (fst (report_leftovers mk left errs)) /\
  (masked mk DaeBrokenRef = false -> snd (report_leftovers mk left errs) = Some DaeBrokenRef).
Proof.
  destruct left as [|x r]; [congruence|]. intros _. simpl. unfold handle.
  destruct (masked mk DaeBrokenRef) eqn:M.
  - split; [|discriminate].
    assert (G : forall l e, In DaeBrokenRef e -> In DaeBrokenRef (fst (report_leftovers mk l e))).
    { induction l as [|y l IH]; intros e He; simpl; [exact He|]. unfold handle. rewrite M.
      apply IH. apply in_or_app. left. exact He. }
    apply G. apply in_or_app. right. left. reflexivity.
  - simpl. split; [apply in_or_app; right; left; reflexivity|reflexivity].
Qed.

(* ---------------------------------------------------------------- locality (for C08 containment) *)

Lemma omapM_ext {A B} (f g : A -> outcome B) : forall l, (forall x, In x l -> f x = g x) -> omapM f l = omapM g l.
Proof.
  induction l as [|x r IH]; intro H; simpl; [reflexivity|].
  rewrite (H x (or_introl eq_refl)). destruct (g x); [|reflexivity].
  rewrite IH; [reflexivity|]. intros y Hy. apply H. right. exact Hy.
Qed.

(* an object whose own references resolve alike in two loads is loaded to the same value *)
Lemma load_item_local o o' it :
  (forall r, In r (it_refs it) -> resolve o r = resolve o' r) -> load_item o it = load_item o' it.
Proof. intro H. unfold load_item. rewrite (omapM_ext _ _ _ H). reflexivity. Qed.

Lemma load_doc_fuel mk d : load_doc mk d <> DOutOfFuel.
Proof. apply run_steps_fuel. Qed.

Lemma load_doc_contents mk d1 d2 :
  (forall k, contents_of d1 k = contents_of d2 k) -> load_doc mk d1 = load_doc mk d2.
Proof. intro H. unfold load_doc. apply run_steps_contents. exact H. Qed.
