(* Lemmas about Model/Refs.v (statements of the property are in Properties/C07.v). *)
From Coq Require Import List Bool Arith NArith Lia Permutation.
From PC Require Import Base.Outcome Base.Py Base.Libs Gen.Params Model.IndexedList Model.Errors Model.Refs
     Proofs.Errors.
Import ListNotations.

(* every loader looks only into libraries loaded by an earlier step (or its own) *)
Definition deps_respected : bool :=
  forallb (fun p => lib_eqb (fst p) (snd p) || before (snd p) (fst p) load_order) lookups.

Lemma deps_respected_true : deps_respected = true.
Proof. vm_compute. reflexivity. Qed.

(* ---------------------------------------------------------------- look-ups *)

Lemma spec_lookup_in : forall l a u, spec_lookup l a = Some u -> In (u, a) l.
Proof.
  induction l as [|x r IH]; intros a u H; simpl in H; [discriminate|].
  destruct (spec_lookup r a) as [v|] eqn:E.
  - inversion H. subst. right. apply IH. exact E.
  - destruct (N.eqb a (oid x)) eqn:Ea; [|discriminate].
    inversion H. apply N.eqb_eq in Ea. left. destruct x as [xu xi]. unfold oid, ouid in *. simpl in *. subst. reflexivity.
Qed.

Lemma spec_lookup_none : forall l a, spec_lookup l a = None <-> (forall u, ~ In (u, a) l).
Proof.
  induction l as [|x r IH]; intro a; simpl.
  - split; [intros _ u []|reflexivity].
  - destruct (spec_lookup r a) as [v|] eqn:E.
    + split; [discriminate|]. intro H. exfalso. apply (H v). right. apply spec_lookup_in. exact E.
    + destruct (N.eqb a (oid x)) eqn:Ea.
      * split; [discriminate|]. intro H. exfalso. apply N.eqb_eq in Ea.
        destruct x as [xu xi]. unfold oid in Ea. simpl in Ea. subst. apply (H xu). left. reflexivity.
      * split; [|reflexivity]. intros _ u [Hx|Hr].
        -- subst x. unfold oid in Ea. simpl in Ea. rewrite N.eqb_refl in Ea. discriminate.
        -- apply (proj1 (IH a) E u Hr).
Qed.

Lemma spec_lookup_app : forall l l' a,
  spec_lookup (l ++ l') a = match spec_lookup l' a with Some u => Some u | None => spec_lookup l a end.
Proof.
  induction l as [|x r IH]; intros l' a; simpl.
  - destruct (spec_lookup l' a); reflexivity.
  - rewrite IH. destruct (spec_lookup l' a); reflexivity.
Qed.

(* with unique ids the object found is THE object carrying the id *)
Lemma spec_lookup_unique : forall l a u, NoDup (map oid l) -> In (u, a) l -> spec_lookup l a = Some u.
Proof.
  induction l as [|x r IH]; intros a u Hnd Hin; [contradiction|].
  simpl in Hnd. inversion Hnd as [|? ? Hnot Hnd']. subst. simpl.
  destruct Hin as [Hx|Hr].
  - subst x. assert (E : spec_lookup r a = None).
    { apply spec_lookup_none. intros v Hv. apply Hnot. unfold oid at 1. simpl.
      change a with (oid (v, a)). apply in_map. exact Hv. }
    rewrite E. unfold oid, ouid. simpl. rewrite N.eqb_refl. reflexivity.
  - rewrite (IH a u Hnd' Hr). reflexivity.
Qed.

(* a reference that resolves is bound to an object of the right library carrying that id *)
Lemma resolve_ok_in o r u : resolve o r = Ok u -> In (u, r_id r) (lib_list o (r_lib r)).
Proof.
  unfold resolve. destruct (if r_hash r then None else nohash_exn (r_site r)); [discriminate|].
  unfold lookup. destruct (spec_lookup (lib_list o (r_lib r)) (r_id r)) as [v|] eqn:E; [|discriminate].
  intro H. inversion H. subst. apply spec_lookup_in. exact E.
Qed.

(* a dangling reference is a broken-reference error *)
Lemma resolve_dangling o r :
  r_hash r = true -> (forall u, ~ In (u, r_id r) (lib_list o (r_lib r))) -> resolve o r = Raise DaeBrokenRef.
Proof.
  intros Hh Hn. unfold resolve. rewrite Hh. unfold lookup.
  rewrite (proj2 (spec_lookup_none _ _) Hn). reflexivity.
Qed.

(* two references to the same id of the same library are bound to the identical object *)
Lemma resolve_same o r1 r2 u1 u2 :
  resolve o r1 = Ok u1 -> resolve o r2 = Ok u2 -> r_lib r1 = r_lib r2 -> r_id r1 = r_id r2 -> u1 = u2.
Proof.
  unfold resolve. intros H1 H2 El Ei.
  destruct (if r_hash r1 then None else nohash_exn (r_site r1)); [discriminate|].
  destruct (if r_hash r2 then None else nohash_exn (r_site r2)); [discriminate|].
  rewrite El, Ei in H1. destruct (lookup o (r_lib r2) (r_id r2)); [|discriminate].
  inversion H1. inversion H2. subst. reflexivity.
Qed.

(* with unique ids in the library, it is THE library object carrying the id *)
Lemma resolve_the_object o r u :
  r_hash r = true -> NoDup (map oid (lib_list o (r_lib r))) -> In (u, r_id r) (lib_list o (r_lib r)) ->
  resolve o r = Ok u.
Proof.
  intros Hh Hnd Hin. unfold resolve. rewrite Hh. unfold lookup.
  rewrite (spec_lookup_unique _ _ _ Hnd Hin). reflexivity.
Qed.

Lemma lib_list_app o o' l : lib_list (o ++ o') l = lib_list o l ++ lib_list o' l.
Proof. unfold lib_list. rewrite filter_app, map_app. reflexivity. Qed.

(* libraries only grow: once bound, later appends of OTHER ids do not change the binding *)
Lemma resolve_stable o o' r u :
  resolve o r = Ok u -> (forall v, ~ In (v, r_id r) (lib_list o' (r_lib r))) -> resolve (o ++ o') r = Ok u.
Proof.
  unfold resolve. destruct (if r_hash r then None else nohash_exn (r_site r)); [discriminate|].
  unfold lookup. rewrite lib_list_app, spec_lookup_app. intros H Hn.
  rewrite (proj2 (spec_lookup_none _ _) Hn). exact H.
Qed.

(* missing '#': the documented class for that site, before any look-up *)
Lemma resolve_nohash o r x : r_hash r = false -> nohash_exn (r_site r) = Some x -> resolve o r = Raise x.
Proof. intros Hh Hx. unfold resolve. rewrite Hh, Hx. reflexivity. Qed.

Lemma filter_map_all_lib {A} (l : lib) (f : A -> obj) (ms : list A) :
  filter (fun p : lib * obj => lib_eqb (fst p) l) (map (fun u => (l, f u)) ms) = map (fun u => (l, f u)) ms.
Proof.
  induction ms as [|m r IH]; simpl; [reflexivity|]. rewrite lib_eqb_refl, IH. reflexivity.
Qed.

(* saved references: '#' + current id resolves, in the written library, to the object itself *)
Lemma saved_ref_resolves l cid members u :
  In u members -> NoDup (map cid members) ->
  resolve (written_lib l cid members) (saved_ref l cid u) = Ok u.
Proof.
  intros Hin Hnd. apply resolve_the_object; simpl.
  - reflexivity.
  - unfold written_lib, lib_list. rewrite filter_map_all_lib. rewrite !map_map. simpl. exact Hnd.
  - unfold written_lib, lib_list. rewrite filter_map_all_lib. rewrite map_map. simpl.
    apply in_map_iff. exists u. split; [reflexivity|exact Hin].
Qed.

(* ---------------------------------------------------------------- order of the libraries *)

(* the loader sees the document only through "the libraries of kind k, in document order" *)
Lemma step_contents mk d1 d2 k s :
  (forall k', contents_of d1 k' = contents_of d2 k') -> step mk d1 k s = step mk d2 k s.
Proof.
  intro H.
  assert (Hi : forall k', items_of d1 k' = items_of d2 k') by (intro k'; unfold items_of; rewrite H; reflexivity).
  assert (Hn : node_groups_of d1 = node_groups_of d2) by (unfold node_groups_of; rewrite H; reflexivity).
  assert (Hs : scenes_of d1 = scenes_of d2) by (unfold scenes_of; rewrite H; reflexivity).
  assert (Hd : default_of d1 = default_of d2) by (unfold default_of; rewrite H; reflexivity).
  destruct k; unfold step; rewrite ?Hi, ?Hn, ?Hs, ?Hd; reflexivity.
Qed.

Lemma run_steps_contents mk d1 d2 :
  (forall k', contents_of d1 k' = contents_of d2 k') ->
  forall steps s, run_steps mk d1 steps s = run_steps mk d2 steps s.
Proof.
  intro H. induction steps as [|k r IH]; intro s; simpl; [reflexivity|].
  rewrite (step_contents mk d1 d2 k s H). destruct (step mk d2 k s); try reflexivity. apply IH.
Qed.

Lemma filter_le_one {A} (key : A -> lib) (k : lib) (d : list A) :
  NoDup (map key d) -> length (filter (fun p => lib_eqb (key p) k) d) <= 1.
Proof.
  induction d as [|x r IH]; intro Hnd; simpl; [lia|].
  inversion Hnd as [|? ? Hnot Hnd']. subst.
  destruct (lib_eqb (key x) k) eqn:E.
  - apply lib_eqb_eq in E. simpl.
    assert (Hz : filter (fun p => lib_eqb (key p) k) r = []).
    { destruct (filter (fun p => lib_eqb (key p) k) r) as [|y ys] eqn:F; [reflexivity|].
      exfalso. assert (Hy : In y (filter (fun p => lib_eqb (key p) k) r)) by (rewrite F; left; reflexivity).
      apply filter_In in Hy. destruct Hy as [Hy1 Hy2]. apply lib_eqb_eq in Hy2.
      apply Hnot. rewrite E, <- Hy2. apply in_map. exact Hy1. }
    rewrite Hz. simpl. lia.
  - apply IH. exact Hnd'.
Qed.

Lemma perm_short_eq {A} (a b : list A) : Permutation a b -> length a <= 1 -> a = b.
Proof.
  intros P L. destruct a as [|x [|y a]]; simpl in L.
  - apply Permutation_nil in P. subst. reflexivity.
  - apply Permutation_length_1_inv in P. subst. reflexivity.
  - lia.
Qed.

Lemma perm_filter {A} (f : A -> bool) (l l' : list A) :
  Permutation l l' -> Permutation (filter f l) (filter f l').
Proof.
  induction 1 as [|x l l' P IH|x y l|l l' l'' P1 IH1 P2 IH2]; simpl.
  - constructor.
  - destruct (f x); [constructor|]; exact IH.
  - destruct (f x), (f y); try apply Permutation_refl. apply perm_swap.
  - eapply Permutation_trans; eassumption.
Qed.

Lemma contents_perm d1 d2 :
  Permutation d1 d2 -> NoDup (map fst d1) -> forall k, contents_of d1 k = contents_of d2 k.
Proof.
  intros P Hnd k. unfold contents_of. f_equal.
  apply perm_short_eq.
  - apply perm_filter. exact P.
  - apply (filter_le_one (@fst lib content) k d1 Hnd).
Qed.

(* ---------------------------------------------------------------- the retry loop: fuel *)

Section Fuel.
  Variable mk : mask.
  Variable sc : scope.
  Variable o : objs.

  Lemma pass_counts : forall nodes loaded pending errs succ l' p' e' s',
    pass mk sc o nodes loaded pending errs succ = (l', p', e', s', None) ->
    length p' <= length pending + length nodes /\
    (s' = true -> succ = true \/ length p' < length pending + length nodes).
  Proof.
    induction nodes as [|n r IH]; intros loaded pending errs succ l' p' e' s' H.
    - simpl in H. inversion H. subst. simpl. split; [lia|]. intro; left; assumption.
    - simpl in H.
      destruct (load_children (load_child sc o loaded) mk (n_children n) [] errs) as [[vals errs1] st].
      destruct st as [|x|].
      + destruct (IH _ _ _ _ _ _ _ _ H) as [A B]. simpl. split; [lia|]. intro Hs. right.
        destruct (B Hs) as [_|B']; lia.
      + discriminate.
      + destruct (IH _ _ _ _ _ _ _ _ H) as [A B]. rewrite app_length in A, B. simpl in A, B. simpl.
        split; [lia|]. intro Hs. destruct (B Hs) as [B'|B']; [left; exact B'|right; lia].
  Qed.

  Lemma retry_unfold f loaded p ps errs :
    retry mk sc o (S f) loaded (p :: ps) errs true =
    let '(l', p', e', s', ab) := pass mk sc o (p :: ps) loaded [] errs false in
    match ab with Some x => NAborted l' e' x | None => retry mk sc o f l' p' e' s' end.
  Proof. reflexivity. Qed.

  Lemma retry_fuel : forall fuel loaded pending errs succ,
    length pending < fuel -> retry mk sc o fuel loaded pending errs succ <> NOutOfFuel.
  Proof.
    induction fuel as [|f IH]; intros loaded pending errs succ Hlt; [lia|].
    destruct pending as [|p ps]; [simpl; discriminate|].
    destruct succ; [|simpl; discriminate].
    rewrite retry_unfold.
    destruct (pass mk sc o (p :: ps) loaded [] errs false) as [[[[l' p'] e'] s'] ab] eqn:E.
    destruct ab as [x|]; [discriminate|].
    destruct (pass_counts _ _ _ _ _ _ _ _ _ E) as [A B]. simpl in A, B.
    destruct s'.
    - apply IH. destruct (B eq_refl) as [B'|B']; [discriminate|]. simpl in Hlt. lia.
    - destruct f; destruct p'; simpl; discriminate.
  Qed.

  Lemma load_group_fuel nodes loaded errs : load_group mk sc o nodes loaded errs <> NOutOfFuel.
  Proof.
    unfold load_group.
    destruct (pass mk sc o nodes loaded [] errs false) as [[[[l' p'] e'] s'] ab].
    destruct ab; [discriminate|]. apply retry_fuel. lia.
  Qed.
End Fuel.

Lemma load_node_groups_fuel mk o : forall groups loaded errs l e ab oof,
  load_node_groups mk o groups loaded errs = (l, e, ab, oof) -> oof = false.
Proof.
  induction groups as [|g r IH]; intros loaded errs l e ab oof H; simpl in H.
  - inversion H. reflexivity.
  - destruct (load_group mk InLibrary o g loaded errs) as [l1 left1 e1|l1 e1 x|] eqn:E.
    + destruct (report_leftovers mk left1 e1) as [e2 ab2]. destruct ab2.
      * inversion H. reflexivity.
      * eapply IH. exact H.
    + inversion H. reflexivity.
    + exfalso. exact (load_group_fuel mk InLibrary o g loaded errs E).
Qed.

Lemma load_scene_fuel mk o s errs e : load_scene mk o s errs <> (e, inr tt).
Proof.
  unfold load_scene.
  destruct (load_group mk InScene o (s_nodes s) [] errs) as [l1 left1 e1|l1 e1 x|] eqn:E.
  - destruct left1; discriminate.
  - discriminate.
  - exfalso. exact (load_group_fuel mk InScene o (s_nodes s) [] errs E).
Qed.

Lemma load_scenes_fuel mk o : forall ss loaded errs l e ab oof,
  load_scenes mk o ss loaded errs = (l, e, ab, oof) -> oof = false.
Proof.
  induction ss as [|s r IH]; intros loaded errs l e ab oof H; simpl in H.
  - inversion H. reflexivity.
  - destruct (load_scene mk o s errs) as [e1 [[v|x]|[]]] eqn:E.
    + eapply IH. exact H.
    + destruct (catch x).
      * unfold handle in H. destruct (masked mk e0); [eapply IH; exact H|inversion H; reflexivity].
      * inversion H. reflexivity.
    + exfalso. exact (load_scene_fuel mk o s errs e1 E).
Qed.

Lemma step_fuel mk d k s : step mk d k s <> DOutOfFuel.
Proof.
  destruct k; unfold step; try discriminate.
  - destruct (load_lib (load_any (st_objs s)) mk (items_of d LImages) [] (st_errs s)) as [[v e] ab]. destruct ab; discriminate.
  - destruct (load_lib (load_any (st_objs s)) mk (items_of d LEffects) [] (st_errs s)) as [[v e] ab]. destruct ab; discriminate.
  - destruct (load_lib (load_any (st_objs s)) mk (items_of d LMaterials) [] (st_errs s)) as [[v e] ab]. destruct ab; discriminate.
  - destruct (load_lib (load_any (st_objs s)) mk (items_of d LAnimations) [] (st_errs s)) as [[v e] ab]. destruct ab; discriminate.
  - destruct (load_lib (load_any (st_objs s)) mk (items_of d LGeometry) [] (st_errs s)) as [[v e] ab]. destruct ab; discriminate.
  - destruct (load_lib (load_any (st_objs s)) mk (items_of d LControllers) [] (st_errs s)) as [[v e] ab]. destruct ab; discriminate.
  - destruct (load_lib (load_any (st_objs s)) mk (items_of d LLights) [] (st_errs s)) as [[v e] ab]. destruct ab; discriminate.
  - destruct (load_lib (load_any (st_objs s)) mk (items_of d LCameras) [] (st_errs s)) as [[v e] ab]. destruct ab; discriminate.
  - destruct (load_node_groups mk (st_objs s) (node_groups_of d) (st_nodes s) (st_errs s)) as [[[l e] ab] oof] eqn:E.
    rewrite (load_node_groups_fuel _ _ _ _ _ _ _ _ _ E). destruct ab; discriminate.
  - destruct (load_scenes mk (st_objs s) (scenes_of d) [] (st_errs s)) as [[[l e] ab] oof] eqn:E.
    rewrite (load_scenes_fuel _ _ _ _ _ _ _ _ _ E). destruct ab; discriminate.
  - destruct (default_of d); [|discriminate].
    destruct (resolve (st_objs s) r); [discriminate|].
    destruct (handle mk (st_errs s) e) as [e' ab]. destruct ab; discriminate.
Qed.

Lemma run_steps_fuel mk d : forall steps s, run_steps mk d steps s <> DOutOfFuel.
Proof.
  induction steps as [|k r IH]; intro s; simpl; [discriminate|].
  destruct (step mk d k s) eqn:E; [apply IH|discriminate|exfalso; exact (step_fuel mk d k s E)].
Qed.

(* ---------------------------------------------------------------- cycles and dangling instance_node *)

Lemma first_lookup_none : forall l a, (forall u, ~ In (u, a) l) -> first_lookup l a = None.
Proof.
  induction l as [|x r IH]; intros a H; simpl; [reflexivity|].
  destruct (N.eqb a (oid x)) eqn:E.
  - exfalso. apply N.eqb_eq in E. destruct x as [xu xi]. unfold oid in E. simpl in E. subst.
    apply (H xu). left. reflexivity.
  - apply IH. intros u Hu. apply (H u). right. exact Hu.
Qed.

Lemma children_not_done {Child Val} (f : Child -> cres Val) mk : forall cs c vals errs,
  In c cs -> f c = CDefer -> snd (load_children f mk cs vals errs) <> SDone.
Proof.
  induction cs as [|c0 r IH]; intros c vals errs Hin Hd; [contradiction|].
  simpl. destruct Hin as [->|Hin].
  - rewrite Hd. simpl. discriminate.
  - destruct (f c0) as [v|e|].
    + apply (IH c _ _ Hin Hd).
    + destruct (catch e) as [e'|]; [|simpl; discriminate].
      unfold handle. destruct (masked mk e'); [apply (IH c _ _ Hin Hd)|simpl; discriminate].
    + simpl. discriminate.
Qed.

Section Cycle.
  Variable mk : mask.
  Variable sc : scope.
  Variable o : objs.
  (* T: ids that can never be bound - ids of the nodes of a cycle, or an id nothing defines *)
  Variable T : ident -> Prop.
  Hypothesis Hlib : forall u t, T t -> ~ In (u, t) (lib_list o LNodes).

  Definition blocked (n : tnode) : Prop := exists t, In (NNode t true) (n_children n) /\ T t.
  Definition clean_loaded (loaded : list lnode) : Prop := forall ln, In ln loaded -> ~ T (snd (fst ln)).

  Lemma find_node_blocked loaded t : clean_loaded loaded -> T t -> find_node sc o loaded t = None.
  Proof.
    intros Hc Ht.
    assert (Hl : forall u, ~ In (u, t) (map lnode_obj loaded)).
    { intros u Hin. apply in_map_iff in Hin. destruct Hin as [ln [E Hin]].
      apply (Hc ln Hin). unfold lnode_obj in E. inversion E. subst. exact Ht. }
    destruct sc; simpl.
    - apply spec_lookup_none. intros u Hin. apply in_app_or in Hin. destruct Hin as [Hin|Hin].
      + exact (Hlib u t Ht Hin).
      + exact (Hl u Hin).
    - rewrite first_lookup_none.
      + unfold lookup. apply spec_lookup_none. intros u Hin. exact (Hlib u t Ht Hin).
      + intros u Hin. apply filter_In in Hin. destruct Hin as [Hin _]. exact (Hl u Hin).
  Qed.

  Lemma blocked_not_done n loaded vals errs :
    clean_loaded loaded -> blocked n ->
    snd (load_children (load_child sc o loaded) mk (n_children n) vals errs) <> SDone.
  Proof.
    intros Hc [t [Hin Ht]]. apply (children_not_done _ mk _ (NNode t true) vals errs Hin).
    simpl. rewrite (find_node_blocked loaded t Hc Ht). reflexivity.
  Qed.

  Lemma pass_blocked : forall nodes loaded pending errs succ l' p' e' s',
    (forall n, In n nodes -> T (n_id n) -> blocked n) ->
    clean_loaded loaded ->
    pass mk sc o nodes loaded pending errs succ = (l', p', e', s', None) ->
    clean_loaded l' /\
    (forall n, In n pending -> In n p') /\
    (forall n, In n nodes -> T (n_id n) -> In n p') /\
    (forall n, In n p' -> In n pending \/ In n nodes).
  Proof.
    induction nodes as [|n r IH]; intros loaded pending errs succ l' p' e' s' Hb Hc H.
    - simpl in H. inversion H. subst. repeat split; auto. intros n [].
    - simpl in H.
      pose proof (fun HT => blocked_not_done n loaded [] errs Hc (Hb n (or_introl eq_refl) HT)) as Hnd.
      destruct (load_children (load_child sc o loaded) mk (n_children n) [] errs) as [[vals errs1] st].
      simpl in Hnd.
      assert (Hb' : forall n0, In n0 r -> T (n_id n0) -> blocked n0) by (intros n0 Hin; apply Hb; right; exact Hin).
      destruct st as [|x|].
      + assert (HnT : ~ T (n_id n)) by (intro HT; apply (Hnd HT); reflexivity).
        assert (Hc' : clean_loaded (loaded ++ [(n_uid n, n_id n, vals)])).
        { intros ln Hin. apply in_app_or in Hin. destruct Hin as [Hin|[<-|[]]]; [apply Hc; exact Hin|exact HnT]. }
        destruct (IH _ _ _ _ _ _ _ _ Hb' Hc' H) as [A [B [C D]]].
        split; [exact A|]. split; [exact B|]. split.
        * intros n0 [<-|Hin] HT; [contradiction|apply C; assumption].
        * intros n0 Hin. destruct (D n0 Hin) as [D1|D1]; [left; exact D1|right; right; exact D1].
      + discriminate.
      + destruct (IH _ _ _ _ _ _ _ _ Hb' Hc H) as [A [B [C D]]].
        split; [exact A|]. split; [intros n0 Hin; apply B; apply in_or_app; left; exact Hin|]. split.
        * intros n0 [<-|Hin] HT; [apply B; apply in_or_app; right; left; reflexivity|apply C; assumption].
        * intros n0 Hin. destruct (D n0 Hin) as [D1|D1]; [|right; right; exact D1].
          apply in_app_or in D1. destruct D1 as [D1|[<-|[]]]; [left; exact D1|right; left; reflexivity].
  Qed.

  Lemma retry_blocked : forall fuel loaded pending errs succ l left e,
    (forall n, In n pending -> T (n_id n) -> blocked n) ->
    clean_loaded loaded ->
    retry mk sc o fuel loaded pending errs succ = NFinished l left e ->
    clean_loaded l /\ (forall n, In n pending -> T (n_id n) -> In n left).
  Proof.
    induction fuel as [|f IH]; intros loaded pending errs succ l left e Hb Hc H.
    - destruct pending as [|p ps]; simpl in H.
      + inversion H. subst. split; [exact Hc|]. intros n [].
      + destruct succ; [discriminate|]. inversion H. subst. split; [exact Hc|]. auto.
    - destruct pending as [|p ps]; [simpl in H; inversion H; subst; split; [exact Hc|intros n []]|].
      destruct succ; [|simpl in H; inversion H; subst; split; [exact Hc|auto]].
      rewrite retry_unfold in H.
      destruct (pass mk sc o (p :: ps) loaded [] errs false) as [[[[l' p'] e'] s'] ab] eqn:E.
      destruct ab as [x|]; [discriminate|].
      destruct (pass_blocked _ _ _ _ _ _ _ _ _ Hb Hc E) as [A [_ [C D]]].
      assert (Hb' : forall n, In n p' -> T (n_id n) -> blocked n).
      { intros n Hin. destruct (D n Hin) as [[]|D1]. apply Hb. exact D1. }
      destruct (IH _ _ _ _ _ _ _ Hb' A H) as [A' C'].
      split; [exact A'|]. intros n Hin HT. apply C'; [apply C; assumption|exact HT].
  Qed.

  Lemma load_group_blocked nodes loaded errs l left e :
    (forall n, In n nodes -> T (n_id n) -> blocked n) ->
    clean_loaded loaded ->
    load_group mk sc o nodes loaded errs = NFinished l left e ->
    clean_loaded l /\ (forall n, In n nodes -> T (n_id n) -> In n left).
  Proof.
    intros Hb Hc H. unfold load_group in H.
    destruct (pass mk sc o nodes loaded [] errs false) as [[[[l' p'] e'] s'] ab] eqn:E.
    destruct ab as [x|]; [discriminate|].
    destruct (pass_blocked _ _ _ _ _ _ _ _ _ Hb Hc E) as [A [_ [C D]]].
    assert (Hb' : forall n, In n p' -> T (n_id n) -> blocked n).
    { intros n Hin. destruct (D n Hin) as [[]|D1]. apply Hb. exact D1. }
    destruct (retry_blocked _ _ _ _ _ _ _ _ Hb' A H) as [A' C'].
    split; [exact A'|]. intros n Hin HT. apply C'; [apply C; assumption|exact HT].
  Qed.
End Cycle.

(* leftovers are reported as broken references; unmasked, the first one aborts the load *)
Lemma report_leftovers_brokenref mk left errs :
  left <> [] ->
  In DaeBrokenRef (fst (report_leftovers mk left errs)) /\
  (masked mk DaeBrokenRef = false -> snd (report_leftovers mk left errs) = Some DaeBrokenRef).
Proof.
  destruct left as [|x r]; [congruence|]. intros _. simpl. unfold handle.
  destruct (masked mk DaeBrokenRef) eqn:M.
  - split; [|discriminate].
    assert (G : forall l e, In DaeBrokenRef e -> In DaeBrokenRef (fst (report_leftovers mk l e))).
    { induction l as [|y l IH]; intros e He; simpl; [exact He|]. unfold handle. rewrite M.
      apply IH. apply in_or_app. left. exact He. }
    apply G. apply in_or_app. right. left. reflexivity.
  - simpl. split; [apply in_or_app; right; left; reflexivity|reflexivity].
Qed.

(* ---------------------------------------------------------------- locality (for C08 containment) *)

Lemma omapM_ext {A B} (f g : A -> outcome B) : forall l, (forall x, In x l -> f x = g x) -> omapM f l = omapM g l.
Proof.
  induction l as [|x r IH]; intro H; simpl; [reflexivity|].
  rewrite (H x (or_introl eq_refl)). destruct (g x); [|reflexivity].
  rewrite IH; [reflexivity|]. intros y Hy. apply H. right. exact Hy.
Qed.

(* an object whose own references resolve alike in two loads is loaded to the same value *)
Lemma load_item_local o o' it :
  (forall r, In r (it_refs it) -> resolve o r = resolve o' r) -> load_item o it = load_item o' it.
Proof. intro H. unfold load_item. rewrite (omapM_ext _ _ _ H). reflexivity. Qed.

Lemma load_doc_fuel mk d : load_doc mk d <> DOutOfFuel.
Proof. apply run_steps_fuel. Qed.

Lemma load_doc_contents mk d1 d2 :
  (forall k, contents_of d1 k = contents_of d2 k) -> load_doc mk d1 = load_doc mk d2.
Proof. intro H. unfold load_doc. apply run_steps_contents. exact H. Qed.

(* ---------------------------------------------------------------- completeness of the retry loop *)

Lemma first_lookup_in : forall l a u, first_lookup l a = Some u -> In (u, a) l.
Proof.
  induction l as [|x r IH]; intros a u H; simpl in H; [discriminate|].
  destruct (N.eqb a (oid x)) eqn:E.
  - inversion H. apply N.eqb_eq in E. destruct x as [xu xi]. unfold oid, ouid in *. simpl in *. subst. left. reflexivity.
  - right. apply IH. exact H.
Qed.

(* an instance_node that is bound is bound to an object carrying the instantiated id: a node
   loaded earlier in this group, or a library node *)
Lemma node_binding_carries_id sc o loaded t h u :
  load_child sc o loaded (NNode t h) = COk (BNode u) ->
  h = true /\ In (u, t) (lib_list o LNodes ++ map lnode_obj loaded).
Proof.
  simpl. destruct h; simpl; [|discriminate].
  destruct (find_node sc o loaded t) as [v|] eqn:E; [|discriminate].
  intro H. inversion H. subst. split; [reflexivity|].
  destruct sc; simpl in E.
  - apply spec_lookup_in. exact E.
  - destruct (first_lookup (filter (fun x => negb (N.eqb (oid x) 0)) (map lnode_obj loaded)) t) as [w|] eqn:F.
    + inversion E. subst. apply in_or_app. right. apply first_lookup_in in F. apply filter_In in F. tauto.
    + apply in_or_app. left. apply spec_lookup_in. exact E.
Qed.

Lemma children_defer_witness {Child Val} (f : Child -> cres Val) mk : forall cs vals errs,
  snd (load_children f mk cs vals errs) = SDefer -> exists c, In c cs /\ f c = CDefer.
Proof.
  induction cs as [|c r IH]; intros vals errs H; simpl in H; [discriminate|].
  destruct (f c) as [v|e|] eqn:E.
  - destruct (IH _ _ H) as [c' [A B]]. exists c'. split; [right; exact A|exact B].
  - destruct (catch e) as [e'|]; [|simpl in H; discriminate].
    unfold handle in H. destruct (masked mk e'); [|simpl in H; discriminate].
    destruct (IH _ _ H) as [c' [A B]]. exists c'. split; [right; exact A|exact B].
  - exists c. split; [left; reflexivity|exact E].
Qed.

Lemma children_noraise {Child Val} (f : Child -> cres Val) mk : forall cs vals errs,
  (forall c e, In c cs -> f c <> CRaise e) ->
  fst (load_children f mk cs vals errs) = (fst (fst (load_children f mk cs vals errs)), errs) /\
  (forall x, snd (load_children f mk cs vals errs) <> SAbort x).
Proof.
  induction cs as [|c r IH]; intros vals errs H; simpl.
  - split; [reflexivity|discriminate].
  - destruct (f c) as [v|e|] eqn:E.
    + apply IH. intros c' e' Hin. apply H. right. exact Hin.
    + exfalso. exact (H c e (or_introl eq_refl) E).
    + simpl. split; [reflexivity|discriminate].
Qed.

Section Complete.
  Variable mk : mask.
  Variable sc : scope.
  Variable o : objs.

  Definition loaded_uid (n : tnode) (l : list lnode) : Prop := In (n_uid n, n_id n) (map lnode_obj l).
  (* the instance_geometry/controller/light/camera children of the node all resolve *)
  Definition insts_ok (n : tnode) : Prop :=
    forall c e loaded, In c (n_children n) -> load_child sc o loaded c <> CRaise e.

  Lemma pass_good : forall nodes loaded pending errs succ l' p' e' s' ab,
    (forall n, In n nodes -> insts_ok n) ->
    pass mk sc o nodes loaded pending errs succ = (l', p', e', s', ab) ->
    ab = None /\ e' = errs /\
    (forall n, In n nodes -> In n p' \/ loaded_uid n l') /\
    (forall n, In n pending -> In n p') /\
    (forall n, In n p' -> In n pending \/ In n nodes) /\
    (forall x, In x (map lnode_obj loaded) -> In x (map lnode_obj l')) /\
    (forall x, In x (map lnode_obj l') -> In x (map lnode_obj loaded) \/ exists n, In n nodes /\ x = (n_uid n, n_id n)) /\
    (s' = false -> succ = false /\ l' = loaded /\
                   forall n, In n nodes ->
                     snd (load_children (load_child sc o loaded) mk (n_children n) [] errs) = SDefer).
  Proof.
    induction nodes as [|n r IH]; intros loaded pending errs succ l' p' e' s' ab Hg H.
    - simpl in H. inversion H. subst. repeat split; auto; try (intros n []).
    - simpl in H.
      assert (Hn : forall c e, In c (n_children n) -> load_child sc o loaded c <> CRaise e).
      { intros c e Hin. apply (Hg n (or_introl eq_refl)). exact Hin. }
      destruct (children_noraise (load_child sc o loaded) mk (n_children n) [] errs Hn) as [He Hna].
      assert (Hg' : forall n0, In n0 r -> insts_ok n0) by (intros n0 Hin; apply Hg; right; exact Hin).
      destruct (load_children (load_child sc o loaded) mk (n_children n) [] errs) as [[vals errs1] st] eqn:E.
      simpl in He, Hna. inversion He. subst errs1.
      destruct st as [|x|].
      + destruct (IH _ _ _ _ _ _ _ _ _ Hg' H) as [A [B [C [D [F [G [K S]]]]]]].
        split; [exact A|]. split; [exact B|]. split.
        { intros n0 [<-|Hin]; [|apply C; exact Hin]. right. unfold loaded_uid. apply G.
          rewrite map_app. apply in_or_app. right. left. reflexivity. }
        split; [exact D|]. split.
        { intros n0 Hin. destruct (F n0 Hin); [left; assumption|right; right; assumption]. }
        split.
        { intros x Hx. apply G. rewrite map_app. apply in_or_app. left. exact Hx. }
        split.
        { intros x Hx. destruct (K x Hx) as [K1|[n0 [K1 K2]]].
          - rewrite map_app in K1. apply in_app_or in K1. destruct K1 as [K1|[<-|[]]]; [left; exact K1|].
            right. exists n. split; [left; reflexivity|reflexivity].
          - right. exists n0. split; [right; exact K1|exact K2]. }
        intro Hs. destruct (S Hs) as [S1 _]. discriminate.
      + exfalso. exact (Hna x eq_refl).
      + destruct (IH _ _ _ _ _ _ _ _ _ Hg' H) as [A [B [C [D [F [G [K S]]]]]]].
        split; [exact A|]. split; [exact B|]. split.
        { intros n0 [<-|Hin]; [left; apply D; apply in_or_app; right; left; reflexivity|apply C; exact Hin]. }
        split; [intros n0 Hin; apply D; apply in_or_app; left; exact Hin|]. split.
        { intros n0 Hin. destruct (F n0 Hin) as [F1|F1]; [|right; right; exact F1].
          apply in_app_or in F1. destruct F1 as [F1|[<-|[]]]; [left; exact F1|right; left; reflexivity]. }
        split; [exact G|]. split.
        { intros x Hx. destruct (K x Hx) as [K1|[n0 [K1 K2]]]; [left; exact K1|].
          right. exists n0. split; [right; exact K1|exact K2]. }
        intro Hs. destruct (S Hs) as [S1 [S2 S3]]. split; [exact S1|]. split; [exact S2|].
        intros n0 [<-|Hin]; [rewrite E; reflexivity|apply S3; exact Hin].
  Qed.

  (* where the loop stops with leftovers, every leftover is still waiting for a node that is
     not loaded: the set of loaded nodes is maximal *)
  Lemma retry_good : forall fuel loaded pending errs succ all,
    (forall n, In n pending -> insts_ok n) ->
    (forall n, In n all -> In n pending \/ loaded_uid n loaded) ->
    (succ = false -> forall n, In n pending ->
        snd (load_children (load_child sc o loaded) mk (n_children n) [] errs) = SDefer) ->
    length pending < fuel ->
    exists l left,
      retry mk sc o fuel loaded pending errs succ = NFinished l left errs /\
      (forall n, In n all -> In n left \/ loaded_uid n l) /\
      (forall n, In n left -> In n pending) /\
      (forall x, In x (map lnode_obj loaded) -> In x (map lnode_obj l)) /\
      (forall x, In x (map lnode_obj l) -> In x (map lnode_obj loaded) \/ exists n, In n pending /\ x = (n_uid n, n_id n)) /\
      (forall n, In n left -> snd (load_children (load_child sc o l) mk (n_children n) [] errs) = SDefer).
  Proof.
    induction fuel as [|f IH]; intros loaded pending errs succ all Hg Hall Hstuck Hlt; [lia|].
    destruct pending as [|p ps].
    - exists loaded, []. simpl. split; [reflexivity|]. split; [exact Hall|].
      split; [intros n []|]. split; [auto|]. split; [intros x Hx; left; exact Hx|intros n []].
    - destruct succ.
      + rewrite retry_unfold.
        destruct (pass mk sc o (p :: ps) loaded [] errs false) as [[[[l' p'] e'] s'] ab] eqn:E.
        destruct (pass_good _ _ _ _ _ _ _ _ _ _ Hg E) as [A [B [C [D [F [G [K S]]]]]]]. subst ab e'.
        assert (Hlen : s' = true -> length p' < f).
        { intro Hs. destruct (pass_counts mk sc o _ _ _ _ _ _ _ _ _ E) as [_ Q]. destruct (Q Hs) as [Q1|Q1]; [discriminate|].
          simpl in Q1, Hlt. lia. }
        assert (Hg' : forall n, In n p' -> insts_ok n).
        { intros n Hin. destruct (F n Hin) as [[]|F1]. apply Hg. exact F1. }
        assert (Hall' : forall n, In n all -> In n p' \/ loaded_uid n l').
        { intros n Hin. destruct (Hall n Hin) as [H1|H1]; [apply C; exact H1|right; apply G; exact H1]. }
        assert (Hstuck' : s' = false -> forall n, In n p' ->
                  snd (load_children (load_child sc o l') mk (n_children n) [] errs) = SDefer).
        { intros Hs n Hin. destruct (S Hs) as [_ [S2 S3]]. subst l'.
          destruct (F n Hin) as [[]|F1]. apply S3. exact F1. }
        destruct s'.
        * destruct (IH l' p' errs true all Hg' Hall' Hstuck' (Hlen eq_refl)) as [l [left [R1 [R2 [R3 [R4 [R5 R6]]]]]]].
          exists l, left. split; [exact R1|]. split; [exact R2|]. split.
          { intros n Hin. destruct (F n (R3 n Hin)) as [[]|F1]. exact F1. }
          split; [intros x Hx; apply R4; apply G; exact Hx|]. split; [|exact R6].
          intros x Hx. destruct (R5 x Hx) as [R|[n [R R']]].
          -- destruct (K x R) as [K1|[n [K1 K2]]]; [left; exact K1|right; exists n; split; assumption].
          -- right. exists n. split; [|exact R']. destruct (F n R) as [[]|F1]. exact F1.
        * (* nothing loaded in this pass: the loop stops here *)
          destruct (S eq_refl) as [_ [S2 S3]]. subst l'.
          assert (R : retry mk sc o f loaded p' errs false = NFinished loaded p' errs)
            by (destruct f; destruct p'; reflexivity).
          exists loaded, p'. split; [exact R|]. split; [exact Hall'|]. split.
          { intros n Hin. destruct (F n Hin) as [[]|F1]. exact F1. }
          split; [auto|]. split; [intros x Hx; left; exact Hx|].
          intros n Hin. apply Hstuck'; [reflexivity|exact Hin].
      + exists loaded, (p :: ps). split; [reflexivity|]. split; [exact Hall|].
        split; [auto|]. split; [auto|]. split; [intros x Hx; left; exact Hx|].
        intros n Hin. apply Hstuck; [reflexivity|exact Hin].
  Qed.
End Complete.

Lemma first_lookup_some : forall l a u, In (u, a) l -> first_lookup l a <> None.
Proof.
  induction l as [|x r IH]; intros a u Hin; [contradiction|]. simpl.
  destruct (N.eqb a (oid x)) eqn:E; [discriminate|].
  destruct Hin as [->|Hin]; [unfold oid in E; simpl in E; rewrite N.eqb_refl in E; discriminate|].
  apply (IH a u Hin).
Qed.

Lemma min_rank_exists (rank : ident -> nat) : forall (l : list tnode), l <> [] ->
  exists n, In n l /\ forall n', In n' l -> rank (n_id n) <= rank (n_id n').
Proof.
  induction l as [|x r IH]; intro H; [congruence|].
  destruct r as [|y r'].
  - exists x. split; [left; reflexivity|]. intros n' [<-|[]]. lia.
  - destruct (IH ltac:(discriminate)) as [m [Hm Hmin]].
    destruct (Nat.le_gt_cases (rank (n_id x)) (rank (n_id m))) as [L|L].
    + exists x. split; [left; reflexivity|]. intros n' [<-|Hin]; [lia|]. specialize (Hmin n' Hin). lia.
    + exists m. split; [right; exact Hm|]. intros n' [<-|Hin]; [lia|]. apply Hmin. exact Hin.
Qed.

(* acyclic and every target defined  ==>  every node of the group loads, in every order *)
Theorem retry_complete mk sc o nodes errs (rank : ident -> nat) :
  (forall n, In n nodes -> insts_ok sc o n) ->
  (forall n t h, In n nodes -> In (NNode t h) (n_children n) ->
     h = true /\ t <> 0%N /\ exists m, In m nodes /\ n_id m = t /\ rank t < rank (n_id n)) ->
  exists l,
    load_group mk sc o nodes [] errs = NFinished l [] errs /\
    (forall n, In n nodes -> loaded_uid n l) /\
    (forall x, In x (map lnode_obj l) -> exists n, In n nodes /\ x = (n_uid n, n_id n)).
Proof.
  intros Hg Hdef. unfold load_group.
  destruct (pass mk sc o nodes [] [] errs false) as [[[[l1 p1] e1] s1] ab] eqn:E.
  destruct (pass_good mk sc o _ _ _ _ _ _ _ _ _ _ Hg E) as [A [B [C [D [F [G [K S]]]]]]]. subst ab e1.
  assert (Hg1 : forall n, In n p1 -> insts_ok sc o n).
  { intros n Hin. destruct (F n Hin) as [[]|F1]. apply Hg. exact F1. }
  assert (Hstuck : s1 = false -> forall n, In n p1 ->
            snd (load_children (load_child sc o l1) mk (n_children n) [] errs) = SDefer).
  { intros Hs n Hin. destruct (S Hs) as [_ [S2 S3]]. subst l1. destruct (F n Hin) as [[]|F1]. apply S3. exact F1. }
  destruct (retry_good mk sc o (Datatypes.S (length p1)) l1 p1 errs s1 nodes Hg1 C Hstuck ltac:(simpl; lia))
    as [l [left [R1 [R2 [R3 [R4 [R5 R6]]]]]]].
  assert (Hleft : left = []).
  { destruct left as [|x0 xs] eqn:EL; [reflexivity|]. exfalso.
    destruct (min_rank_exists rank (x0 :: xs) ltac:(discriminate)) as [m0 [Hm0 Hmin]].
    destruct (children_defer_witness _ mk _ _ _ (R6 m0 Hm0)) as [c [Hc Hd]].
    assert (Hm0n : In m0 nodes).
    { destruct (F m0 (R3 m0 Hm0)) as [[]|F1]. exact F1. }
    destruct c as [r mats|t h].
    - simpl in Hd. destruct (resolve o r); [|discriminate]. destruct (omapM (resolve o) mats); discriminate.
    - destruct (Hdef m0 t h Hm0n Hc) as [Hh [Ht0 [m [Hm [Hmt Hr]]]]]. subst h. simpl in Hd.
      destruct (find_node sc o l t) as [v|] eqn:FN; [discriminate|].
      destruct (R2 m Hm) as [Q|Q].
      + specialize (Hmin m Q). rewrite Hmt in Hmin. lia.
      + unfold loaded_uid in Q. rewrite Hmt in Q.
        destruct sc; simpl in FN.
        * apply (proj1 (spec_lookup_none _ _) FN (n_uid m)). apply in_or_app. right. exact Q.
        * destruct (first_lookup (filter (fun x => negb (N.eqb (oid x) 0)) (map lnode_obj l)) t) eqn:FL; [discriminate|].
          apply (first_lookup_some _ t (n_uid m)) in FL; [exact FL|].
          apply filter_In. split; [exact Q|]. unfold oid. simpl.
          destruct (N.eqb t 0) eqn:Z; [apply N.eqb_eq in Z; contradiction|reflexivity]. }
  subst left. exists l. split; [exact R1|]. split.
  - intros n Hin. destruct (R2 n Hin) as [[]|Q]. exact Q.
  - intros x Hx. destruct (R5 x Hx) as [Q|[n [Q Q']]].
    + destruct (K x Q) as [[]|[n [K1 K2]]]. exists n. split; assumption.
    + exists n. split; [|exact Q']. destruct (F n Q) as [[]|F1]. exact F1.
Qed.

(* ---------------------------------------------------------------- positional content of the binding lists *)

Lemma children_all_ok {Child Val} (f : Child -> cres Val) mk : forall cs acc errs vals errs',
  (forall c e, In c cs -> f c <> CRaise e) ->
  load_children f mk cs acc errs = (vals, errs', SDone) ->
  exists vs, vals = acc ++ vs /\ Forall2 (fun c b => f c = COk b) cs vs.
Proof.
  induction cs as [|c r IH]; intros acc errs vals errs' Hn H; simpl in H.
  - inversion H. subst. exists []. split; [rewrite app_nil_r; reflexivity|constructor].
  - destruct (f c) as [v|e|] eqn:E.
    + destruct (IH _ _ _ _ (fun c0 e0 Hin => Hn c0 e0 (or_intror Hin)) H) as [vs [A B]].
      exists (v :: vs). split; [rewrite A, <- app_assoc; reflexivity|constructor; assumption].
    + exfalso. exact (Hn c e (or_introl eq_refl) E).
    + discriminate.
Qed.

Section Bound.
  Variable mk : mask.
  Variable sc : scope.
  Variable o : objs.
  Variable all : list tnode.

  Definition sub_objs (a b : list lnode) : Prop := forall x, In x (map lnode_obj a) -> In x (map lnode_obj b).

  (* a loaded node carries, in order, what each of its children was bound to when it was loaded *)
  Definition bound_in (l : list lnode) (ln : lnode) : Prop :=
    exists n pre, In n all /\ fst ln = (n_uid n, n_id n) /\ sub_objs pre l /\
                  Forall2 (fun c b => load_child sc o pre c = COk b) (n_children n) (snd ln).
  Definition all_bound (l : list lnode) : Prop := forall ln, In ln l -> bound_in l ln.

  Lemma bound_mono l l' ln : sub_objs l l' -> bound_in l ln -> bound_in l' ln.
  Proof.
    intros S [n [pre [A [B [C D]]]]]. exists n, pre. repeat split; auto. intros x Hx. apply S, C, Hx.
  Qed.

  Lemma pass_bound : forall nodes loaded pending errs succ l' p' e' s' ab,
    (forall n, In n nodes -> In n all /\ insts_ok sc o n) ->
    all_bound loaded ->
    pass mk sc o nodes loaded pending errs succ = (l', p', e', s', ab) ->
    all_bound l' /\ sub_objs loaded l'.
  Proof.
    induction nodes as [|n r IH]; intros loaded pending errs succ l' p' e' s' ab Hg Hb H.
    - simpl in H. inversion H. subst. split; [exact Hb|intros x Hx; exact Hx].
    - simpl in H.
      destruct (load_children (load_child sc o loaded) mk (n_children n) [] errs) as [[vals errs1] st] eqn:E.
      assert (Hg' : forall n0, In n0 r -> In n0 all /\ insts_ok sc o n0) by (intros n0 Hin; apply Hg; right; exact Hin).
      destruct st as [|x|].
      + destruct (Hg n (or_introl eq_refl)) as [Hall Hok].
        destruct (children_all_ok _ mk _ _ _ _ _ (fun c e Hin => Hok c e loaded Hin) E) as [vs [A B]]. simpl in A. subst vs.
        assert (S1 : sub_objs loaded (loaded ++ [(n_uid n, n_id n, vals)])).
        { intros x Hx. unfold sub_objs. rewrite map_app. apply in_or_app. left. exact Hx. }
        assert (Hb1 : all_bound (loaded ++ [(n_uid n, n_id n, vals)])).
        { intros ln Hin. apply in_app_or in Hin. destruct Hin as [Hin|[<-|[]]].
          - apply (bound_mono loaded); [exact S1|apply Hb; exact Hin].
          - exists n, loaded. repeat split; auto. }
        destruct (IH _ _ _ _ _ _ _ _ _ Hg' Hb1 H) as [P Q]. split; [exact P|].
        intros x Hx. apply Q, S1, Hx.
      + inversion H. subst. split; [exact Hb|intros y Hy; exact Hy].
      + apply (IH _ _ _ _ _ _ _ _ _ Hg' Hb H).
  Qed.

  Lemma retry_bound : forall fuel loaded pending errs succ l left e,
    (forall n, In n pending -> In n all /\ insts_ok sc o n) ->
    all_bound loaded ->
    retry mk sc o fuel loaded pending errs succ = NFinished l left e ->
    all_bound l.
  Proof.
    induction fuel as [|f IH]; intros loaded pending errs succ l left e Hg Hb H.
    - destruct pending; simpl in H; [inversion H; subst; exact Hb|]. destruct succ; [discriminate|inversion H; subst; exact Hb].
    - destruct pending as [|p ps]; [simpl in H; inversion H; subst; exact Hb|].
      destruct succ; [|simpl in H; inversion H; subst; exact Hb].
      rewrite retry_unfold in H.
      destruct (pass mk sc o (p :: ps) loaded [] errs false) as [[[[l' p'] e'] s'] ab] eqn:E.
      destruct ab as [x|]; [discriminate|].
      destruct (pass_bound _ _ _ _ _ _ _ _ _ _ Hg Hb E) as [P _].
      assert (Hg' : forall n, In n p' -> In n all /\ insts_ok sc o n).
      { intros n Hin.
        assert (Hg0 : forall n0, In n0 (p :: ps) -> insts_ok sc o n0) by (intros n0 Hn0; apply Hg; exact Hn0).
        destruct (pass_good mk sc o _ _ _ _ _ _ _ _ _ _ Hg0 E) as [_ [_ [_ [_ [F _]]]]].
        destruct (F n Hin) as [[]|F1]. apply Hg. exact F1. }
      apply (IH _ _ _ _ _ _ _ Hg' P H).
  Qed.

  Lemma load_group_bound nodes errs l left e :
    (forall n, In n nodes -> In n all /\ insts_ok sc o n) ->
    load_group mk sc o nodes [] errs = NFinished l left e -> all_bound l.
  Proof.
    intros Hg H. unfold load_group in H.
    destruct (pass mk sc o nodes [] [] errs false) as [[[[l' p'] e'] s'] ab] eqn:E.
    destruct ab as [x|]; [discriminate|].
    assert (Hb0 : all_bound []) by (intros ln []).
    destruct (pass_bound _ _ _ _ _ _ _ _ _ _ Hg Hb0 E) as [P _].
    assert (Hg' : forall n, In n p' -> In n all /\ insts_ok sc o n).
    { intros n Hin.
      assert (Hg0 : forall n0, In n0 nodes -> insts_ok sc o n0) by (intros n0 Hn0; apply Hg; exact Hn0).
      destruct (pass_good mk sc o _ _ _ _ _ _ _ _ _ _ Hg0 E) as [_ [_ [_ [_ [F _]]]]].
      destruct (F n Hin) as [[]|F1]. apply Hg. exact F1. }
    apply (retry_bound _ _ _ _ _ _ _ _ Hg' P H).
  Qed.
End Bound.

Lemma node_uid_unique : forall nodes n, NoDup (map n_id nodes) -> In n nodes -> node_uid nodes (n_id n) = Some (n_uid n).
Proof.
  induction nodes as [|m r IH]; intros n Hnd Hin; [contradiction|]. simpl.
  inversion Hnd as [|? ? Hnot Hnd']. subst.
  destruct Hin as [->|Hin]; [rewrite N.eqb_refl; reflexivity|].
  destruct (N.eqb (n_id n) (n_id m)) eqn:E.
  - exfalso. apply N.eqb_eq in E. apply Hnot. rewrite <- E. apply in_map. exact Hin.
  - apply IH; assumption.
Qed.

(* what the loader bound a child to is what the independent reading says *)
Lemma load_child_is_reading sc o nodes pre final c b :
  NoDup (map n_id nodes) ->
  (forall n u, In n nodes -> ~ In (u, n_id n) (lib_list o LNodes)) ->
  (forall x, In x (map lnode_obj pre) -> In x (map lnode_obj final)) ->
  (forall x, In x (map lnode_obj final) -> exists n, In n nodes /\ x = (n_uid n, n_id n)) ->
  (forall t h, c = NNode t h -> exists m, In m nodes /\ n_id m = t) ->
  load_child sc o pre c = COk b -> read_child o nodes c = Some b.
Proof.
  intros Hnd Hlib Hsub Hfin Hdef H. destruct c as [r mats|t h].
  - simpl in *. destruct (resolve o r) as [u|e]; [|discriminate].
    destruct (omapM (resolve o) mats) as [ms|e]; [|discriminate]. inversion H. reflexivity.
  - destruct b as [u ms|u].
    + simpl in H. destruct h; simpl in H; [|discriminate]. destruct (find_node sc o pre t); discriminate.
    + destruct (node_binding_carries_id sc o pre t h u H) as [Hh Hin]. subst h. simpl.
      destruct (Hdef t true eq_refl) as [m [Hm Hmt]].
      apply in_app_or in Hin. destruct Hin as [Hin|Hin].
      * exfalso. rewrite <- Hmt in Hin. exact (Hlib m u Hm Hin).
      * destruct (Hfin _ (Hsub _ Hin)) as [n [Hn E]]. inversion E. subst u t.
        rewrite (node_uid_unique nodes n Hnd Hn). reflexivity.
Qed.

(* retry_complete with the positional content of every binding list *)
Theorem retry_complete_bindings mk sc o nodes errs (rank : ident -> nat) :
  NoDup (map n_id nodes) ->
  (forall n u, In n nodes -> ~ In (u, n_id n) (lib_list o LNodes)) ->
  (forall n, In n nodes -> insts_ok sc o n) ->
  (forall n t h, In n nodes -> In (NNode t h) (n_children n) ->
     h = true /\ t <> 0%N /\ exists m, In m nodes /\ n_id m = t /\ rank t < rank (n_id n)) ->
  exists l,
    load_group mk sc o nodes [] errs = NFinished l [] errs /\
    (forall n, In n nodes -> In (n_uid n, n_id n) (map lnode_obj l)) /\
    (forall ln, In ln l -> exists n, In n nodes /\ fst ln = (n_uid n, n_id n) /\
                           Forall2 (fun c b => read_child o nodes c = Some b) (n_children n) (snd ln)).
Proof.
  intros Hnd Hlib Hg Hdef.
  destruct (retry_complete mk sc o nodes errs rank Hg Hdef) as [l [R1 [R2 R3]]].
  exists l. split; [exact R1|]. split; [exact R2|].
  assert (Hb : all_bound sc o nodes l).
  { apply (load_group_bound mk sc o nodes nodes errs l [] errs); [|exact R1].
    intros n Hin. split; [exact Hin|apply Hg; exact Hin]. }
  intros ln Hin. destruct (Hb ln Hin) as [n [pre [A [B [C D]]]]].
  exists n. split; [exact A|]. split; [exact B|].
  revert D. generalize (snd ln). 
  assert (Hc : forall c, In c (n_children n) -> forall t h, c = NNode t h -> exists m, In m nodes /\ n_id m = t).
  { intros c Hc t h ->. destruct (Hdef n t h A Hc) as [_ [_ [m [M1 [M2 _]]]]]. exists m. split; assumption. }
  induction (n_children n) as [|c cs IH]; intros bs D; inversion D; subst; constructor.
  - apply (load_child_is_reading sc o nodes pre l c y Hnd Hlib C R3); [apply Hc; left; reflexivity|assumption].
  - apply IH; [intros c0 H0; apply Hc; right; exact H0|assumption].
Qed.

(* ---------------------------------------------------------------- effect-internal links *)

Lemma eget_eset_same sc k v : eget (eset sc k v) k = Some v.
Proof.
  unfold eget, eset. induction sc as [|[k' v'] r IH]; simpl.
  - rewrite N.eqb_refl. reflexivity.
  - destruct (N.eqb k k') eqn:E; simpl; rewrite ?E; [reflexivity|exact IH].
Qed.

Lemma eget_eset_other sc k v k' : k' <> k -> eget (eset sc k v) k' = eget sc k'.
Proof.
  unfold eget, eset. intro H. induction sc as [|[k0 v0] r IH]; simpl.
  - destruct (N.eqb k' k) eqn:E; [apply N.eqb_eq in E; contradiction|reflexivity].
  - destruct (N.eqb k k0) eqn:E; simpl.
    + apply N.eqb_eq in E. subst k0. destruct (N.eqb k' k) eqn:E2; [apply N.eqb_eq in E2; contradiction|reflexivity].
    + destruct (N.eqb k' k0); [reflexivity|exact IH].
Qed.

Lemma eset_in sc k v k' v' : In (k', v') (eset sc k v) -> (k', v') = (k, v) \/ In (k', v') sc.
Proof.
  unfold eset. induction sc as [|[k0 v0] r IH]; simpl.
  - intros [H|[]]; left; symmetry; exact H.
  - destruct (N.eqb k k0) eqn:E; simpl.
    + apply N.eqb_eq in E. subst k0. intros [H|H]; [left; symmetry; exact H|right; right; exact H].
    + intros [H|H]; [right; left; exact H|]. destruct (IH H) as [A|A]; [left; exact A|right; right; exact A].
Qed.

(* whatever is in the scope after the newparams was put there by a newparam of THIS effect *)
Definition from_params (ps : list eparam) (k : ident) (v : eobj) : Prop :=
  match v with
  | ESurface u img => In (PSurface k u img) ps
  | ESampler u _ => exists src, In (PSampler k u src) ps
  | EValue => In (PValue k) ps
  end.

Lemma load_params_scope o : forall ps sc acc sc' acc',
  load_params o ps sc acc = Ok (sc', acc') ->
  forall k v, In (k, v) sc' -> In (k, v) sc \/ from_params ps k v.
Proof.
  induction ps as [|p r IH]; intros sc acc sc' acc' H k v Hin; simpl in H.
  - inversion H. subst. left. exact Hin.
  - destruct p as [sid u img|sid u src|sid].
    + destruct (lookup o LImages img); [|discriminate].
      destruct (IH _ _ _ _ H k v Hin) as [A|A].
      * destruct (eset_in _ _ _ _ _ A) as [B|B]; [inversion B; subst; right; simpl; left; reflexivity|left; exact B].
      * right. destruct v; simpl in *; [right; exact A|destruct A as [s A]; exists s; right; exact A|right; exact A].
    + destruct (eget sc src) as [[su simg|? ?|]|] eqn:E; try discriminate.
      destruct (IH _ _ _ _ H k v Hin) as [A|A].
      * destruct (eset_in _ _ _ _ _ A) as [B|B]; [inversion B; subst; right; simpl; exists src; left; reflexivity|left; exact B].
      * right. destruct v; simpl in *; [right; exact A|destruct A as [s A]; exists s; right; exact A|right; exact A].
    + destruct (IH _ _ _ _ H k v Hin) as [A|A].
      * destruct (eset_in _ _ _ _ _ A) as [B|B]; [inversion B; subst; right; simpl; left; reflexivity|left; exact B].
      * right. destruct v; simpl in *; [right; exact A|destruct A as [s A]; exists s; right; exact A|right; exact A].
Qed.

Lemma fallback_sampler_in (sc : escope) name u :
  match List.find (fun kv => match snd kv with ESampler _ i => N.eqb i name | _ => false end) sc with
  | Some (_, ESampler u' _) => Some u'
  | _ => None
  end = Some u -> exists k i, In (k, ESampler u i) sc.
Proof.
  destruct (List.find _ sc) as [[k v]|] eqn:F; [|discriminate].
  destruct v as [? ?|u0 i0|]; try discriminate. intro H. inversion H. subst.
  apply find_some in F. exists k, i0. exact (proj1 F).
Qed.

Lemma dget_in (sc : escope) name v : dget N.eqb sc name = Some v -> In (name, v) sc.
Proof.
  induction sc as [|[k w] r IH]; simpl; [discriminate|].
  destruct (N.eqb name k) eqn:Ek; [apply N.eqb_eq in Ek; subst; intro H; inversion H; left; reflexivity|].
  intro H. right. apply IH. exact H.
Qed.

Lemma find_sampler_in sc name u : find_sampler sc name = Some u -> exists k i, In (k, ESampler u i) sc.
Proof.
  unfold find_sampler.
  destruct (eget sc name) as [v|] eqn:E; [|apply fallback_sampler_in].
  destruct v as [a b|u0 i0|]; [apply fallback_sampler_in| |apply fallback_sampler_in].
  intro H. inversion H. subst. exists name, i0. apply dget_in. exact E.
Qed.

(* an effect sees the document only through the image library: nothing of another effect *)
Lemma load_params_images o o' : lib_list o LImages = lib_list o' LImages ->
  forall ps sc acc, load_params o ps sc acc = load_params o' ps sc acc.
Proof.
  intro H. induction ps as [|p r IH]; intros sc acc; simpl; [reflexivity|].
  destruct p as [sid u img|sid u src|sid].
  - unfold lookup. rewrite H. destruct (spec_lookup (lib_list o' LImages) img); [apply IH|reflexivity].
  - destruct (eget sc src) as [[? ?|? ?|]|]; try reflexivity. apply IH.
  - apply IH.
Qed.

Lemma load_effect_isolated o o' b : lib_list o LImages = lib_list o' LImages ->
  load_effect_body o b = load_effect_body o' b.
Proof. intro H. unfold load_effect_body. rewrite (load_params_images o o' H). reflexivity. Qed.

(* ---------------------------------------------------------------- texture naming an image id *)

Lemma bind_texture_implicit o sc name iu :
  bind_texture o sc name = TImplicit iu -> find_sampler sc name = None /\ In (iu, name) (lib_list o LImages).
Proof.
  unfold bind_texture. destruct (find_sampler sc name); [discriminate|].
  unfold lookup. destruct (spec_lookup (lib_list o LImages) name) as [v|] eqn:E; [|discriminate].
  intro H. inversion H. subst. split; [reflexivity|apply spec_lookup_in; exact E].
Qed.

Lemma bind_texture_dropped o sc name :
  find_sampler sc name = None -> (forall u, ~ In (u, name) (lib_list o LImages)) -> bind_texture o sc name = TDropped.
Proof.
  intros H1 H2. unfold bind_texture, lookup. rewrite H1, (proj2 (spec_lookup_none _ _) H2). reflexivity.
Qed.

Lemma bind_texture_sampler_first o sc name u : find_sampler sc name = Some u -> bind_texture o sc name = TSampler u.
Proof. intro H. unfold bind_texture. rewrite H. reflexivity. Qed.
