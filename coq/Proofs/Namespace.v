(* C15: the erased tree (what a loader can see through the document's tag function) does not
   change when the document's namespace is renamed to a URI the document does not already use. *)
From Coq Require Import List Bool NArith Lia.
From PC Require Import Base.Atoms Base.Xml Model.Namespace.
Import ListNotations.

Lemma existsb_false_forall {A} (p : A -> bool) : forall l, existsb p l = false -> Forall (fun x => p x = false) l.
Proof.
  induction l as [|x l IH]; intro H; [constructor|].
  simpl in H. apply orb_false_iff in H. constructor; [tauto|apply IH; tauto].
Qed.

Lemma erase_retag : forall x ns ns', uses_ns ns' x = false ->
  erase ns' ns' (retag ns ns' x) = erase ns ns x.
Proof.
  intros x ns ns'. induction x as [u n t a tx k IH] using xml_ind'. intro H.
  simpl in H. apply orb_false_iff in H. destruct H as [Hn Hk].
  simpl. f_equal.
  - destruct (N.eqb n ns) eqn:E; [now rewrite N.eqb_refl | now rewrite Hn].
  - destruct (N.eqb n ns) eqn:E; [now rewrite N.eqb_refl | now rewrite Hn].
  - rewrite map_map. apply map_ext_in. intros c Hc.
    rewrite Forall_forall in IH. apply IH; [exact Hc|].
    pose proof (existsb_false_forall _ _ Hk) as F. rewrite Forall_forall in F. now apply F.
Qed.

Lemma xns_retag : forall x ns', xns (retag (xns x) ns' x) = ns'.
Proof. intros [u n t a tx k] ns'. simpl. now rewrite N.eqb_refl. Qed.

Lemma erase_now_retag : forall x ns', uses_ns ns' x = false -> erase_now (retag_doc ns' x) = erase_now x.
Proof.
  intros x ns' H. unfold erase_now, retag_doc. rewrite xns_retag. now apply erase_retag.
Qed.

(* renaming to the namespace the document already has is the identity *)
Lemma retag_same : forall x ns, retag ns ns x = x.
Proof.
  intros x ns. induction x as [u n t a tx k IH] using xml_ind'. simpl. f_equal.
  - destruct (N.eqb n ns) eqn:E; [apply N.eqb_eq in E; now subst|reflexivity].
  - rewrite <- (map_id k) at 2. apply map_ext_in. intros c Hc. rewrite Forall_forall in IH. now apply IH.
Qed.
