(* C03 x C17: saves interleaved with read-only queries.

   The product of the two models: a C17 heap (Model/Purity.v) whose observable part determines
   the SaveState state (model and tree) of Model/SaveState.v.  The footprint discipline of C17
   (queries write hidden locations only; save reads the observable part) and the simulation of
   the heap-level save by [SaveState.save] are Section hypotheses; the read-only import of
   Proofs/Purity.v supplies "the history with the queries erased", Proofs/SaveState.v supplies
   "saving again changes nothing". *)
From Coq Require Import List Bool Arith NArith.
From PC Require Import Base.Atoms Base.Outcome Model.SaveState Proofs.SaveState Model.Purity Proofs.Purity.
Import ListNotations.

Section SaveQueries.
  Variable query : Type.
  Variable writes : query -> loc -> bool.
  Variable exec : query -> heap -> heap * val.
  Variable hsave : heap -> heap * val.             (* doc.save() / a healthy doc.write(): new heap, bytes *)
  Variable absn : heap -> state.                   (* the (model, tree) a heap holds *)
  Variable out : state -> val.                     (* the bytes a saved state serialises to *)

  (* C17's footprint discipline *)
  Hypothesis writes_hidden : forall q l, writes q l = true -> observable l = false.
  Hypothesis frame : forall q h l, writes q l = false -> fst (exec q h) l = h l.
  Hypothesis save_reads_observable :
    forall h h', obs_eq h h' -> obs_eq (fst (hsave h)) (fst (hsave h')) /\ snd (hsave h) = snd (hsave h').
  (* the product: model and tree live in observable locations (object fields, XML nodes), and the
     heap-level save is SaveState.save on them *)
  Hypothesis absn_observable : forall h h', obs_eq h h' -> absn h = absn h'.
  Hypothesis hsave_sim : forall h, absn (fst (hsave h)) = fst (save (absn h)).
  Hypothesis hsave_out : forall h, snd (hsave h) = out (fst (save (absn h))).

  Definition hrun := run query exec hsave.

  (* a history of saves only, from a state whose save is a fixed point *)
  Lemma saves_only_run : forall (ops : list (op query)) h s1,
    forallb (is_save query) ops = true ->
    save (absn h) = (s1, Ok tt) -> save s1 = (s1, Ok tt) ->
    saved_outputs (snd (hrun h ops)) = map (fun _ => out s1) ops /\
    (ops <> [] -> absn (fst (hrun h ops)) = s1) /\
    (ops = [] -> fst (hrun h ops) = h).
  Proof.
    unfold hrun. induction ops as [|o r IH]; intros h s1 F E1 E2.
    - simpl. split; [reflexivity|]. split; [intro X; congruence|reflexivity].
    - destruct o as [q|]; [simpl in F; discriminate|]. simpl in F. simpl.
      destruct (hsave h) as [h1 v] eqn:EH.
      assert (A1 : absn h1 = s1).
      { assert (X := hsave_sim h). rewrite EH, E1 in X. exact X. }
      assert (V : v = out s1).
      { assert (X := hsave_out h). rewrite EH, E1 in X. exact X. }
      assert (E1' : save (absn h1) = (s1, Ok tt)) by (rewrite A1; exact E2).
      destruct (IH h1 s1 F E1' E2) as (O & S & Z).
      destruct (run query exec hsave h1 r) as [h2 outs] eqn:ER. simpl in *.
      split; [unfold saved_outputs in *; simpl; rewrite V, O; reflexivity|].
      split; [|intro X; discriminate].
      intros _. destruct r as [|o2 r2]; [rewrite (Z eq_refl); exact A1|apply S; discriminate].
  Qed.

  Lemma saves_only_all : forall ops : list (op query), forallb (is_save query) (saves_only query ops) = true.
  Proof.
    induction ops as [|o r IH]; [reflexivity|]. unfold saves_only in *. simpl.
    destruct (is_save query o) eqn:E; [simpl; rewrite E; exact IH|exact IH].
  Qed.

  (* saves interleaved with read-only queries, in any order and number: the model view is
     constant, every save writes the same bytes - those of the first save of the never-queried
     document - and from the first save on the (model, tree) state is that save's fixed point *)
  Theorem saves_and_queries : forall ops h,
    wf_libs (smodel (absn h)) -> single_asset (stree (absn h)) -> healthy (smodel (absn h)) ->
    let s1 := fst (save (absn h)) in
    view (smodel (absn (fst (hrun h ops)))) = view (smodel (absn h)) /\
    saved_outputs (snd (hrun h ops)) = map (fun _ => out s1) (saves_only query ops) /\
    (saves_only query ops <> [] -> absn (fst (hrun h ops)) = s1) /\
    (saves_only query ops = [] -> absn (fst (hrun h ops)) = absn h).
  Proof.
    intros ops h WL SA H s1.
    destruct (history query writes exec hsave writes_hidden frame save_reads_observable ops h) as [HO HS].
    assert (E1 : save (absn h) = (s1, Ok tt)).
    { unfold s1. destruct (absn h) as [m t] eqn:EA. simpl in *. rewrite (save_healthy m t H). reflexivity. }
    assert (E2 : save s1 = (s1, Ok tt)) by (apply (save_idempotent (absn h) s1 WL SA E1)).
    destruct (saves_only_run (saves_only query ops) h s1 (saves_only_all ops) E1 E2) as (O & S & Z).
    unfold hrun in *. rewrite (absn_observable _ _ HO). rewrite HS.
    split; [|split; [exact O|split; [exact S|]]].
    - destruct (saves_only query ops) as [|o r] eqn:ES.
      + rewrite (Z eq_refl). reflexivity.
      + rewrite S by discriminate. unfold s1. apply save_keeps_view.
    - intro X. rewrite (Z X). reflexivity.
  Qed.
End SaveQueries.

(* ---- an instance (for the non-vacuity example): the heap holds a document in an XML
   location, a cache in a hidden one; the document is [s0] until it is first saved *)
Section Instance.
  Variable s0 : state.
  Hypothesis s0_fix : save (fst (save s0)) = (fst (save s0), Ok tt).

  Definition i_doc : loc := (c_xml, 0%N).
  Definition i_cache : loc := (c_tricache, 0%N).
  Definition i_absn (h : heap) : state := if N.eqb (h i_doc) 0 then s0 else fst (save s0).
  Definition i_out (s : state) : val := N.of_nat (length (ser (stree s))).
  Definition i_hsave (h : heap) : heap * val := (upd h i_doc 1%N, i_out (fst (save s0))).
  Inductive iq := IFill | IRead.
  Definition i_exec (q : iq) (h : heap) : heap * val :=
    match q with
    | IFill => (upd h i_cache (h i_doc + 7)%N, (h i_doc + 7)%N)
    | IRead => (h, h i_doc)
    end.
  Definition i_writes (q : iq) (l : loc) : bool := match q with IFill => loc_eqb l i_cache | IRead => false end.

  Lemma i_writes_hidden : forall q l, i_writes q l = true -> observable l = false.
  Proof. intros [|] l W; simpl in W; [|discriminate]. apply loc_eqb_eq in W. subst l. reflexivity. Qed.

  Lemma i_frame : forall q h l, i_writes q l = false -> fst (i_exec q h) l = h l.
  Proof. intros [|] h l W; simpl in *; [apply upd_other; exact W|reflexivity]. Qed.

  Lemma i_save_obs : forall h h', obs_eq h h' ->
    obs_eq (fst (i_hsave h)) (fst (i_hsave h')) /\ snd (i_hsave h) = snd (i_hsave h').
  Proof.
    intros h h' E. split; [|reflexivity]. intros l O. simpl. unfold upd.
    destruct (loc_eqb l i_doc); [reflexivity|apply E; exact O].
  Qed.

  Lemma i_absn_obs : forall h h', obs_eq h h' -> i_absn h = i_absn h'.
  Proof. intros h h' E. unfold i_absn. rewrite (E i_doc eq_refl). reflexivity. Qed.

  Lemma i_save_absn : forall h, fst (save (i_absn h)) = fst (save s0).
  Proof. intro h. unfold i_absn. destruct (N.eqb (h i_doc) 0); [reflexivity|rewrite s0_fix; reflexivity]. Qed.

  Lemma i_sim : forall h, i_absn (fst (i_hsave h)) = fst (save (i_absn h)).
  Proof.
    intro h. rewrite i_save_absn. unfold i_absn, i_hsave. cbn [fst].
    assert (X : upd h i_doc 1%N i_doc = 1%N) by apply upd_same. rewrite X. reflexivity.
  Qed.

  Lemma i_out_ok : forall h, snd (i_hsave h) = i_out (fst (save (i_absn h))).
  Proof. intro h. rewrite i_save_absn. reflexivity. Qed.
End Instance.
