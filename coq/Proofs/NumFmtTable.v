(* H_num_stable over the exact definitions of Model/NumFmt.v: what is covered.
   Proofs/NumFmtRegions.v (generated, one instance of the fine-grid argument per
   (decade, binade) cell) gives [covered D q] and fine_grid_covered; here: idempotence of
   parse32 o fmt7 on the covered regions, zero, and the sign. *)
From Coq Require Import ZArith Lia Bool.
From PC Require Import Model.NumFmt Proofs.NumFmt Proofs.NumFmtRegions.
Open Scope Z_scope.

Lemma norm_zero e : norm 0 e = (0, 0).
Proof. reflexivity. Qed.

Theorem norm_idempotent_covered m e :
  (let '(D, q) := fmt7 m e in covered D q = true) ->
  norm (fst (norm m e)) (snd (norm m e)) = norm m e.
Proof.
  destruct (fmt7 m e) as [D q] eqn:F. intro C. unfold norm at 2 3 4. rewrite F.
  pose proof (fine_grid_covered D q C) as G.
  destruct (parse32 D q) as [M E] eqn:P. simpl. unfold norm. rewrite G. exact P.
Qed.

(* a magnitude m*2^e is in a covered region when it is zero, or its seven digits fall in a
   fine cell of the table, or it loads into the coarse binade [2^-10, 10^-3) *)
Definition in_covered_region (m e : Z) : Prop :=
  m = 0 \/
  (let '(D, q) := fmt7 m e in covered D q = true) \/
  (exists M, norm m e = (M, -33) /\ 2 ^ 23 <= M < 2 ^ 24 /\ M * 1000 < 2 ^ 33).

Theorem num_stable_regions m e : in_covered_region m e ->
  norm (fst (norm m e)) (snd (norm m e)) = norm m e.
Proof.
  intros [Z | [C | [M [N [B1 B2]]]]].
  - subst m. rewrite norm_zero. reflexivity.
  - apply norm_idempotent_covered. exact C.
  - exact (norm_idempotent_coarse m e M N B1 B2).
Qed.

(* signed numbers: '%.7g' and the float32 parse act on the magnitude, the sign is copied *)
Definition snorm (x : bool * Z * Z) : bool * Z * Z :=
  let '(s, m, e) := x in let '(m', e') := norm m e in (s, m', e').

Theorem num_stable_regions_signed s m e : in_covered_region m e ->
  snorm (snorm (s, m, e)) = snorm (s, m, e).
Proof.
  intro H. pose proof (num_stable_regions m e H) as I. unfold snorm.
  destruct (norm m e) as [m1 e1] eqn:N1. simpl in I. rewrite I. reflexivity.
Qed.
