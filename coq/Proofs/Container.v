(* Proofs for C16 (Model/Container.v). *)
From Coq Require Import List Bool Arith NArith Lia.
From PC Require Import Base.Outcome Model.Container.
Import ListNotations.
Open Scope N_scope.

(* ------------------------------------------------------------------ names *)

Lemma name_eqb_eq a b : name_eqb a b = true <-> a = b.
Proof. unfold name_eqb. destruct (list_eq_dec N.eq_dec a b); split; intro H; congruence. Qed.

Lemma name_eqb_refl a : name_eqb a a = true.
Proof. apply name_eqb_eq. reflexivity. Qed.

Lemma mem_In n l : mem n l = true <-> In n l.
Proof.
  unfold mem. rewrite existsb_exists. split.
  - intros [x [Hin Heq]]. apply name_eqb_eq in Heq. subst. exact Hin.
  - intro Hin. exists n. split; [exact Hin | apply name_eqb_refl].
Qed.

(* ------------------------------------------------------------------ member selection *)

Lemma last_indep {A} (l : list A) d d' : l <> [] -> last l d = last l d'.
Proof.
  induction l as [|y l IH]; intro H; [congruence|].
  destruct l as [|z l]; [reflexivity|].
  change (last (z :: l) d = last (z :: l) d'). apply IH. discriminate.
Qed.

Lemma last_cons {A} (x : A) l d : last (x :: l) d = last l x.
Proof.
  destruct l as [|y l]; [reflexivity|].
  change (last (y :: l) d = last (y :: l) x). apply last_indep. discriminate.
Qed.

Definition undecoyed (n : name) : bool := negb (has_macosx n).

Lemma scan_some l : forall c,
  scan (Some c) l =
  if has_macosx c then
    match find undecoyed l with Some n => Some n | None => Some (last l c) end
  else Some c.
Proof.
  induction l as [|n r IH]; intro c; simpl.
  - destruct (has_macosx c); reflexivity.
  - destruct (has_macosx c) eqn:Hc.
    + rewrite IH. unfold undecoyed at 2. destruct (has_macosx n) eqn:Hn; simpl.
      * destruct (find undecoyed r); [reflexivity|]. f_equal.
        symmetry. apply last_cons.
      * reflexivity.
    + rewrite IH. rewrite Hc. reflexivity.
Qed.

Lemma scan_none l :
  scan None l =
  match find undecoyed l with
  | Some n => Some n
  | None => match l with [] => None | d :: ds => Some (last ds d) end
  end.
Proof.
  destruct l as [|n r]; [reflexivity|]. simpl. rewrite scan_some.
  unfold undecoyed at 2. destruct (has_macosx n); reflexivity.
Qed.

Lemma find_filter {A} (p q : A -> bool) l :
  find q (filter p l) = find (fun x => p x && q x) l.
Proof.
  induction l as [|x l IH]; [reflexivity|]. simpl.
  destruct (p x); simpl; [destruct (q x); [reflexivity|exact IH] | exact IH].
Qed.

Lemma find_In {A} (p : A -> bool) l x : find p l = Some x -> In x l /\ p x = true.
Proof. apply find_some. Qed.

Lemma dae_not_empty n : is_dae n = true -> is_empty_name n = false.
Proof.
  intro H. unfold is_empty_name. destruct (name_eqb n [c_empty]) eqn:E; [|reflexivity].
  apply name_eqb_eq in E. subst. vm_compute in H. discriminate.
Qed.

Lemma select_auto_scan names :
  select_member names None =
  match scan None (filter is_dae names) with
  | None => Raise DaeIncomplete
  | Some n => Ok n
  end.
Proof.
  unfold select_member. rewrite scan_none.
  destruct (find undecoyed (filter is_dae names)) as [n|] eqn:F.
  - apply find_In in F. destruct F as [Hin _]. apply filter_In in Hin. destruct Hin as [Hin Hd].
    rewrite (dae_not_empty _ Hd). apply mem_In in Hin. rewrite Hin. reflexivity.
  - destruct (filter is_dae names) as [|d ds] eqn:E; [reflexivity|].
    assert (Hin : In (last ds d) (filter is_dae names)).
    { rewrite E. destruct ds as [|d2 ds2]; [left; reflexivity|].
      rewrite <- (last_cons d (d2 :: ds2) d).
      destruct (exists_last (l := d :: d2 :: ds2)) as [l' [a Ha]]; [discriminate|].
      rewrite Ha. rewrite last_last. rewrite <- Ha. rewrite Ha. apply in_or_app. right. left. reflexivity. }
    apply filter_In in Hin. destruct Hin as [Hin Hd].
    rewrite (dae_not_empty _ Hd). apply mem_In in Hin. rewrite Hin. reflexivity.
Qed.

(* the first non-decoy .dae member in archive order, wherever the decoys are *)
Theorem select_first_non_decoy names n :
  first_non_decoy names = Some n -> select_member names None = Ok n.
Proof.
  intro H. rewrite select_auto_scan, scan_none, find_filter.
  unfold first_non_decoy, non_decoy_dae, undecoyed in *. rewrite H. reflexivity.
Qed.

(* no member with the suffix: the archive has no document *)
Theorem select_no_dae names :
  filter is_dae names = [] -> select_member names None = Raise DaeIncomplete.
Proof. intro H. rewrite select_auto_scan, H. reflexivity. Qed.

(* only decoys: the scan ends on the last of them, which is then loaded *)
Theorem select_only_decoys names d ds :
  first_non_decoy names = None -> filter is_dae names = d :: ds ->
  select_member names None = Ok (last ds d).
Proof.
  intros H E. rewrite select_auto_scan, scan_none, find_filter.
  unfold first_non_decoy, non_decoy_dae, undecoyed in *. rewrite H, E. reflexivity.
Qed.

Theorem select_auto_total names :
  select_member names None =
  match first_non_decoy names with
  | Some n => Ok n
  | None => match filter is_dae names with
            | [] => Raise DaeIncomplete
            | d :: ds => Ok (last ds d)
            end
  end.
Proof.
  destruct (first_non_decoy names) as [n|] eqn:F.
  - apply select_first_non_decoy. exact F.
  - destruct (filter is_dae names) as [|d ds] eqn:E.
    + apply select_no_dae. exact E.
    + apply select_only_decoys; assumption.
Qed.

Theorem select_by_name names z :
  select_member names (Some z) =
  if negb (is_empty_name z) && mem z names then Ok z else Raise DaeIncomplete.
Proof. unfold select_member. destruct (is_empty_name z); simpl; [reflexivity|]. destruct (mem z names); reflexivity. Qed.

Theorem select_only_incomplete names z e :
  select_member names z = Raise e -> e = DaeIncomplete.
Proof.
  unfold select_member.
  destruct (match z with Some z0 => Some z0 | None => scan None (filter is_dae names) end) as [n|].
  - destruct (is_empty_name n); [congruence|]. destruct (mem n names); congruence.
  - congruence.
Qed.

Theorem select_is_member names z n : select_member names z = Ok n -> In n names.
Proof.
  unfold select_member.
  destruct (match z with Some z0 => Some z0 | None => scan None (filter is_dae names) end) as [m|].
  - destruct (is_empty_name m); [congruence|]. destruct (mem m names) eqn:M; [|congruence].
    intro H. inversion H. subst. apply mem_In. exact M.
  - congruence.
Qed.

(* ------------------------------------------------------------------ normpath *)

Lemma clean_atom_spec a :
  clean_atom a = true ->
  (a =? c_empty) = false /\ (a =? c_dot) = false /\ (a =? c_dotdot) = false.
Proof.
  unfold clean_atom. intro H. apply negb_true_iff in H.
  apply orb_false_iff in H. destruct H as [H H3]. apply orb_false_iff in H. tauto.
Qed.

Lemma clean_app p q : clean (p ++ q) = clean p && clean q.
Proof. apply forallb_app. Qed.

Lemma clean_rev p : clean (rev p) = clean p.
Proof.
  induction p as [|a p IH]; [reflexivity|]. simpl. rewrite clean_app, IH. simpl.
  rewrite andb_true_r. apply andb_comm.
Qed.

(* a clean run of components is pushed as it is *)
Lemma loop_clean rooted q : forall acc t,
  clean q = true -> norm_loop rooted acc (q ++ t) = norm_loop rooted (rev q ++ acc) t.
Proof.
  induction q as [|c q IH]; intros acc t H; [reflexivity|].
  simpl in H. apply andb_true_iff in H. destruct H as [Hc Hq].
  destruct (clean_atom_spec _ Hc) as [H1 [H2 H3]].
  simpl. rewrite H1, H2, H3. simpl. rewrite IH by exact Hq. rewrite <- app_assoc. reflexivity.
Qed.

Lemma walk_clean rooted q : forall stack t,
  clean q = true -> walk_from rooted stack (q ++ t) = walk_from rooted (rev q ++ stack) t.
Proof.
  induction q as [|c q IH]; intros stack t H; [reflexivity|].
  simpl in H. apply andb_true_iff in H. destruct H as [Hc Hq].
  destruct (clean_atom_spec _ Hc) as [H1 [H2 H3]].
  simpl. rewrite H1, H2, H3. simpl. rewrite IH by exact Hq. rewrite <- app_assoc. reflexivity.
Qed.

(* once ".." has been kept at the bottom (the path left the container) it stays there *)
Lemma loop_escaped l : forall acc,
  last acc c_empty = c_dotdot -> exists t, norm_loop false acc l = c_dotdot :: t.
Proof.
  induction l as [|c r IH]; intros acc H.
  - simpl. destruct acc as [|a acc]; [vm_compute in H; discriminate|].
    destruct (exists_last (l := a :: acc)) as [l' [x Hx]]; [discriminate|].
    rewrite Hx in *. rewrite last_last in H. subst x. rewrite rev_app_distr. simpl. eauto.
  - simpl. destruct ((c =? c_empty) || (c =? c_dot)); [apply IH; exact H|].
    destruct (negb (c =? c_dotdot)).
    + apply IH. rewrite last_cons. destruct acc; [vm_compute in H; discriminate|].
      rewrite <- H. apply last_indep. discriminate.
    + destruct acc as [|t acc']; [vm_compute in H; discriminate|].
      destruct (t =? c_dotdot) eqn:T.
      * apply IH. rewrite last_cons. rewrite <- H. apply last_indep. discriminate.
      * apply IH. destruct acc' as [|u acc''].
        -- simpl in H. subst t. vm_compute in T. discriminate.
        -- rewrite <- H. reflexivity.
Qed.

(* relative paths: the loop computes the location the walk reaches, or leaves a leading ".." *)
Lemma loop_walk l : forall acc,
  clean acc = true ->
  match walk_from false acc l with
  | Some loc => norm_loop false acc l = loc
  | None => exists t, norm_loop false acc l = c_dotdot :: t
  end.
Proof.
  induction l as [|c r IH]; intros acc H.
  - reflexivity.
  - simpl. destruct ((c =? c_empty) || (c =? c_dot)) eqn:E1; [apply IH; exact H|].
    destruct (c =? c_dotdot) eqn:E2; simpl.
    + destruct acc as [|t acc'].
      * apply loop_escaped. apply N.eqb_eq in E2. subst c. reflexivity.
      * simpl in H. apply andb_true_iff in H. destruct H as [Ht Hacc].
        destruct (clean_atom_spec _ Ht) as [_ [_ T3]]. rewrite T3. apply IH. exact Hacc.
    + apply IH. simpl. rewrite H. rewrite andb_true_r.
      unfold clean_atom. apply orb_false_iff in E1. destruct E1 as [E1 E1']. rewrite E1, E1', E2. reflexivity.
Qed.

(* rooted paths: ".." at the root stays at the root, nothing escapes *)
Lemma loop_walk_rooted l : forall acc,
  clean acc = true ->
  walk_from true acc l = Some (norm_loop true acc l) /\ clean (norm_loop true acc l) = true.
Proof.
  induction l as [|c r IH]; intros acc H.
  - simpl. split; [reflexivity | rewrite clean_rev; exact H].
  - simpl. destruct ((c =? c_empty) || (c =? c_dot)) eqn:E1; [apply IH; exact H|].
    destruct (c =? c_dotdot) eqn:E2; simpl.
    + destruct acc as [|t acc']; [apply IH; reflexivity|].
      simpl in H. apply andb_true_iff in H. destruct H as [Ht Hacc].
      destruct (clean_atom_spec _ Ht) as [_ [_ T3]]. rewrite T3. apply IH. exact Hacc.
    + apply IH. simpl. rewrite H. rewrite andb_true_r.
      unfold clean_atom. apply orb_false_iff in E1. destruct E1 as [E1 E1']. rewrite E1, E1', E2. reflexivity.
Qed.

Lemma walk_dotdot_escapes t : walk_from false [] (c_dotdot :: t) = None.
Proof. reflexivity. Qed.

Lemma walk_of_clean rooted loc : clean loc = true -> walk_from rooted [] loc = Some loc.
Proof.
  intro H. rewrite <- (app_nil_r loc) at 1. rewrite walk_clean by exact H.
  simpl. rewrite app_nil_r. rewrite rev_involutive. reflexivity.
Qed.

Lemma walk_reaches_clean l : forall rooted stack loc,
  clean stack = true -> walk_from rooted stack l = Some loc -> clean loc = true.
Proof.
  induction l as [|c r IH]; intros rooted stack loc H W.
  - simpl in W. inversion W. rewrite clean_rev. exact H.
  - simpl in W. destruct ((c =? c_empty) || (c =? c_dot)) eqn:E1; [eapply IH; eassumption|].
    destruct (c =? c_dotdot) eqn:E2.
    + destruct stack as [|t s].
      * destruct rooted; [eapply IH; eassumption | discriminate].
      * simpl in H. apply andb_true_iff in H. destruct H as [_ Hs]. eapply IH; eassumption.
    + eapply IH; [|exact W]. simpl. rewrite H, andb_true_r.
      unfold clean_atom. apply orb_false_iff in E1. destruct E1 as [E1 E1']. rewrite E1, E1', E2. reflexivity.
Qed.

(* what normpath returns for a relative path, in terms of the walk *)
Lemma normpath_relative p :
  nslashes p = 0%nat ->
  match walk_from false [] p with
  | Some [] => normpath p = [c_dot]
  | Some loc => normpath p = loc
  | None => exists t, normpath p = c_dotdot :: t
  end.
Proof.
  intro K. unfold normpath. destruct (is_empty_name p) eqn:E.
  - apply name_eqb_eq in E. subst p. reflexivity.
  - rewrite K. simpl negb. pose proof (loop_walk p [] eq_refl) as L.
    destruct (walk_from false [] p) as [loc|].
    + rewrite L. destruct loc; reflexivity.
    + destruct L as [t L]. rewrite L. eauto.
Qed.

Theorem normpath_sound_relative fs p :
  nslashes p = 0%nat -> walk fs (normpath p) = walk fs p.
Proof.
  intro K. unfold walk. pose proof (normpath_relative p K) as N.
  destruct (walk_from false [] p) as [loc|] eqn:W.
  - assert (C : clean loc = true) by (eapply walk_reaches_clean; [|exact W]; reflexivity).
    destruct loc as [|a loc'].
    + rewrite N. reflexivity.
    + rewrite N. rewrite walk_of_clean by exact C. reflexivity.
  - destruct N as [t N]. rewrite N. reflexivity.
Qed.

Lemma nslashes_le2 p : (nslashes p <= 2)%nat.
Proof.
  unfold nslashes. destruct p as [|e1 [|e2 [|e3 [|e4 r]]]]; try lia;
    repeat match goal with |- context [if ?b then _ else _] => destruct b end; lia.
Qed.

Lemma loop_skip_empties rooted k l : forall acc,
  norm_loop rooted acc (repeat c_empty k ++ l) = norm_loop rooted acc l.
Proof. induction k as [|k IH]; intro acc; [reflexivity|]. simpl. apply IH. Qed.

Lemma walk_skip_empties rooted k l : forall stack,
  walk_from rooted stack (repeat c_empty k ++ l) = walk_from rooted stack l.
Proof. induction k as [|k IH]; intro acc; [reflexivity|]. simpl. apply IH. Qed.

(* rooted (absolute) paths: normpath p designates the location the rooted walk reaches *)
Theorem normpath_sound_rooted p :
  nslashes p <> 0%nat -> walk_from true [] (normpath p) = walk_from true [] p.
Proof.
  intro K. unfold normpath. destruct (is_empty_name p) eqn:E.
  - apply name_eqb_eq in E. subst p. exfalso. apply K. reflexivity.
  - destruct (nslashes p) as [|k] eqn:NS; [congruence|]. simpl negb.
    destruct (loop_walk_rooted p [] eq_refl) as [W C]. rewrite W.
    destruct (norm_loop true [] p) as [|b body] eqn:B.
    + rewrite <- (app_nil_r (repeat c_empty (S (S k)))). rewrite walk_skip_empties. reflexivity.
    + rewrite walk_skip_empties. apply walk_of_clean. exact C.
Qed.

(* ---- idempotence *)

(* normal forms: some ".." (none when rooted) followed by clean components *)
Definition nf (rooted : bool) (l : list atom) : Prop :=
  exists j s, l = repeat c_dotdot j ++ s /\ clean s = true /\ (rooted = true -> j = 0%nat).

Lemma repeat_snoc {A} (x : A) n : repeat x n ++ [x] = x :: repeat x n.
Proof. induction n as [|n IH]; [reflexivity|]. simpl. rewrite IH. reflexivity. Qed.

Lemma rev_repeat {A} (x : A) n : rev (repeat x n) = repeat x n.
Proof. induction n as [|n IH]; [reflexivity|]. simpl. rewrite IH. apply repeat_snoc. Qed.

(* the accumulator of the loop: clean components pushed on top of kept ".." *)
Definition nfa (rooted : bool) (acc : list atom) : Prop :=
  exists j s, acc = s ++ repeat c_dotdot j /\ clean s = true /\ (rooted = true -> j = 0%nat).

Lemma not_clean_dotdot : clean_atom c_dotdot = false.
Proof. reflexivity. Qed.

Lemma loop_nf rooted l : forall acc, nfa rooted acc -> nf rooted (norm_loop rooted acc l).
Proof.
  induction l as [|c r IH]; intros acc H.
  - simpl. destruct H as [j [s [Ha [Hs Hj]]]]. exists j, (rev s). subst acc.
    rewrite rev_app_distr, rev_repeat, clean_rev. auto.
  - simpl. destruct ((c =? c_empty) || (c =? c_dot)) eqn:E1; [apply IH; exact H|].
    destruct (c =? c_dotdot) eqn:E2; simpl.
    + apply N.eqb_eq in E2. subst c. destruct acc as [|t acc'].
      * destruct rooted; [apply IH; exact H|]. apply IH. exists 1%nat, []. simpl. repeat split. discriminate.
      * destruct H as [j [s [Ha [Hs Hj]]]].
        destruct (t =? c_dotdot) eqn:T.
        -- apply N.eqb_eq in T. subst t. apply IH. destruct s as [|x s'].
           ++ simpl in Ha. exists (S j), []. simpl. rewrite Ha. repeat split.
              intro R. specialize (Hj R). subst j. discriminate.
           ++ simpl in Ha. inversion Ha. subst x. simpl in Hs. discriminate Hs.
        -- apply IH. destruct s as [|x s'].
           ++ simpl in Ha. destruct j; [discriminate|]. simpl in Ha. inversion Ha. subst t.
              vm_compute in T. discriminate.
           ++ simpl in Ha. inversion Ha. subst x. simpl in Hs. apply andb_true_iff in Hs.
              exists j, s'. tauto.
    + apply IH. destruct H as [j [s [Ha [Hs Hj]]]]. exists j, (c :: s). subst acc. simpl.
      repeat split; [|exact Hj]. rewrite Hs, andb_true_r.
      unfold clean_atom. apply orb_false_iff in E1. destruct E1 as [E1 E1']. rewrite E1, E1', E2. reflexivity.
Qed.

Lemma loop_dds i j q :
  norm_loop false (repeat c_dotdot i) (repeat c_dotdot j ++ q) = norm_loop false (repeat c_dotdot (j + i)) q.
Proof.
  revert i. induction j as [|j IH]; intro i; [reflexivity|].
  simpl repeat. simpl app. simpl norm_loop.
  change ((c_dotdot =? c_empty) || (c_dotdot =? c_dot)) with false.
  change (negb (c_dotdot =? c_dotdot)) with false. cbv iota.
  destruct i as [|i].
  - simpl repeat. change [c_dotdot] with (repeat c_dotdot 1). rewrite (IH 1%nat). replace (j + 1)%nat with (S (j + 0)) by lia. reflexivity.
  - simpl repeat. change (c_dotdot =? c_dotdot) with true. cbv iota.
    change (c_dotdot :: c_dotdot :: repeat c_dotdot i) with (repeat c_dotdot (S (S i))).
    rewrite IH. replace (j + S (S i))%nat with (S (j + S i)) by lia. reflexivity.
Qed.

Lemma loop_idem rooted l : nf rooted l -> norm_loop rooted [] l = l.
Proof.
  intros [j [s [Hl [Hs Hj]]]]. subst l. destruct rooted.
  - rewrite (Hj eq_refl). simpl. rewrite <- (app_nil_r s) at 1. rewrite loop_clean by exact Hs.
    simpl. rewrite app_nil_r. apply rev_involutive.
  - change (@nil atom) with (repeat c_dotdot 0) at 1. rewrite loop_dds. rewrite Nat.add_0_r.
    rewrite <- (app_nil_r s) at 1. rewrite loop_clean by exact Hs. simpl.
    rewrite rev_app_distr, rev_repeat, rev_involutive. reflexivity.
Qed.

Lemma nf_nil rooted : nfa rooted [].
Proof. exists 0%nat, []. auto. Qed.

Lemma nf_head rooted b body : nf rooted (b :: body) -> (b =? c_empty) = false.
Proof.
  intros [j [s [Hl [Hs _]]]]. destruct j.
  - simpl in Hl. subst s. simpl in Hs. apply andb_true_iff in Hs. destruct Hs as [Hb _].
    apply clean_atom_spec in Hb. tauto.
  - simpl in Hl. inversion Hl. reflexivity.
Qed.

Lemma nslashes_nonempty_head b body : (b =? c_empty) = false -> nslashes (b :: body) = 0%nat.
Proof.
  intro H. unfold nslashes, is_empty. destruct body as [|e2 [|e3 [|e4 r]]]; try reflexivity; rewrite H; reflexivity.
Qed.

Lemma nslashes_prefix1 b body : (b =? c_empty) = false -> nslashes (c_empty :: b :: body) = 1%nat.
Proof.
  intro H. unfold nslashes, is_empty. destruct body as [|e3 [|e4 r]]; simpl; rewrite ?H; reflexivity.
Qed.

Lemma nslashes_prefix2 b body : (b =? c_empty) = false -> nslashes (c_empty :: c_empty :: b :: body) = 2%nat.
Proof.
  intro H. unfold nslashes, is_empty. destruct body as [|e4 r]; simpl; rewrite ?H; reflexivity.
Qed.

Lemma normpath_fix p : forall r, r = normpath p -> normpath r = r.
Proof.
  intros r Hr. unfold normpath in Hr. destruct (is_empty_name p); [subst r; reflexivity|].
  pose proof (nslashes_le2 p) as K2.
  destruct (nslashes p) as [|k] eqn:K.
  - simpl negb in Hr. pose proof (loop_nf false p [] (nf_nil false)) as NF.
    destruct (norm_loop false [] p) as [|b body] eqn:B; [subst r; reflexivity|].
    pose proof (nf_head _ _ _ NF) as Hb. subst r.
    unfold normpath. replace (is_empty_name (b :: body)) with false.
    2:{ unfold is_empty_name, name_eqb. destruct (list_eq_dec N.eq_dec (b :: body) [c_empty]) as [e|]; [|reflexivity].
        inversion e. subst b. vm_compute in Hb. discriminate. }
    rewrite (nslashes_nonempty_head _ _ Hb). simpl negb. rewrite (loop_idem false _ NF). reflexivity.
  - simpl negb in Hr. pose proof (loop_nf true p [] (nf_nil true)) as NF.
    destruct (norm_loop true [] p) as [|b body] eqn:B.
    + destruct k as [|[|k]]; [subst r; reflexivity | subst r; reflexivity | lia].
    + pose proof (nf_head _ _ _ NF) as Hb. pose proof (loop_idem true _ NF) as ID.
      destruct k as [|[|k]]; [| | lia].
      * simpl repeat in Hr. simpl app in Hr. subst r. unfold normpath.
        change (is_empty_name (c_empty :: b :: body)) with false.
        rewrite (nslashes_prefix1 _ _ Hb). simpl negb.
        assert (L : norm_loop true [] (c_empty :: b :: body) = b :: body)
          by (rewrite <- ID at 2; apply (loop_skip_empties true 1 (b :: body) [])).
        rewrite L. reflexivity.
      * simpl repeat in Hr. simpl app in Hr. subst r. unfold normpath.
        change (is_empty_name (c_empty :: c_empty :: b :: body)) with false.
        rewrite (nslashes_prefix2 _ _ Hb). simpl negb.
        assert (L : norm_loop true [] (c_empty :: c_empty :: b :: body) = b :: body)
          by (rewrite <- ID at 2; apply (loop_skip_empties true 2 (b :: body) [])).
        rewrite L. reflexivity.
Qed.

Theorem normpath_idempotent p : normpath (normpath p) = normpath p.
Proof. apply (normpath_fix p). reflexivity. Qed.

(* ------------------------------------------------------------------ auxiliary files *)

Lemma clean_not_all_empty d : d <> [] -> clean d = true -> all_empty d = false.
Proof.
  destruct d as [|a d]; [congruence|]. intros _ H. simpl in H. apply andb_true_iff in H.
  destruct H as [Ha _]. apply clean_atom_spec in Ha. simpl. unfold is_empty. destruct Ha as [Ha _]. rewrite Ha. reflexivity.
Qed.

Lemma strip_clean d : clean d = true -> strip_trailing_empty d = d.
Proof.
  induction d as [|a d IH]; intro H; [reflexivity|].
  simpl in H. apply andb_true_iff in H. destruct H as [Ha Hd]. simpl. rewrite (IH Hd).
  destruct d; [|reflexivity]. apply clean_atom_spec in Ha. unfold is_empty. destruct Ha as [Ha _]. rewrite Ha. reflexivity.
Qed.

Lemma removelast_snoc {A} (l : list A) x : removelast (l ++ [x]) = l.
Proof. rewrite removelast_app by discriminate. simpl. apply app_nil_r. Qed.

Lemma dirname_clean dir file :
  clean dir = true -> dirname (dir ++ [file]) = match dir with [] => [c_empty] | _ => dir end.
Proof.
  intro H. unfold dirname. rewrite removelast_snoc. destruct dir as [|a d]; [reflexivity|].
  rewrite clean_not_all_empty by (discriminate || exact H). apply strip_clean. exact H.
Qed.

Lemma clean_last_nonempty a d : clean (a :: d) = true -> is_empty (last (a :: d) c_empty) = false.
Proof.
  intro H. assert (Hin : In (last (a :: d) c_empty) (a :: d)).
  { destruct (exists_last (l := a :: d)) as [l' [x Hx]]; [discriminate|]. rewrite Hx, last_last.
    apply in_or_app. right. left. reflexivity. }
  unfold clean in H. rewrite forallb_forall in H. specialize (H _ Hin).
  apply clean_atom_spec in H. unfold is_empty. tauto.
Qed.

(* the path that the zip / disk resolver looks up, for a document in the clean directory
   [dir] and a relative auxiliary path f *)
Lemma aux_path_relative dir file f :
  clean dir = true -> is_abs f = false ->
  match walk_from false (rev dir) f with
  | Some [] => normpath (join (dirname (dir ++ [file])) f) = [c_dot]
  | Some loc => normpath (join (dirname (dir ++ [file])) f) = loc
  | None => exists t, normpath (join (dirname (dir ++ [file])) f) = c_dotdot :: t
  end.
Proof.
  intros Hd Hf. rewrite dirname_clean by exact Hd. unfold join. rewrite Hf.
  destruct dir as [|a d].
  - simpl. assert (K : nslashes f = 0%nat).
    { unfold is_abs in Hf. unfold nslashes.
      destruct f as [|e1 [|e2 [|e3 [|e4 r]]]]; try reflexivity; rewrite Hf; reflexivity. }
    exact (normpath_relative f K).
  - rewrite (clean_last_nonempty _ _ Hd).
    assert (K : nslashes ((a :: d) ++ f) = 0%nat).
    { simpl. apply nslashes_nonempty_head. simpl in Hd. apply andb_true_iff in Hd. destruct Hd as [Ha _].
      apply clean_atom_spec in Ha. tauto. }
    pose proof (normpath_relative _ K) as N.
    rewrite (walk_clean false (a :: d) [] f Hd) in N. rewrite app_nil_r in N. exact N.
Qed.

(* archives whose member names are not "." and do not start with ".." *)
Definition sane_name (n : name) : bool :=
  negb (hd c_empty n =? c_dotdot) && negb (name_eqb n [c_dot]) && negb (name_eqb n []).
Definition sane (fs : fsys) : bool := forallb (fun e => sane_name (fst e)) fs.

Lemma fs_find_In fs loc d : fs_find fs loc = Some d -> In (loc, d) fs.
Proof.
  induction fs as [|[n x] fs IH]; simpl; [discriminate|].
  destruct (name_eqb loc n) eqn:E.
  - apply name_eqb_eq in E. subst. intro H. inversion H. left. reflexivity.
  - intro H. right. apply IH. exact H.
Qed.

Lemma sane_not_found fs loc : sane fs = true -> sane_name loc = false -> fs_find fs loc = None.
Proof.
  intros S L. destruct (fs_find fs loc) as [d|] eqn:F; [|reflexivity].
  apply fs_find_In in F. unfold sane in S. rewrite forallb_forall in S. specialize (S _ F). simpl in S. congruence.
Qed.

Lemma aux_lookup fs dir file f :
  sane fs = true -> clean dir = true -> is_abs f = false ->
  fs_find fs (normpath (join (dirname (dir ++ [file])) f)) = walk_in fs dir f.
Proof.
  intros S Hd Hf. unfold walk_in. pose proof (aux_path_relative dir file f Hd Hf) as A.
  destruct (walk_from false (rev dir) f) as [loc|].
  - destruct loc as [|x loc'].
    + rewrite A. rewrite !sane_not_found; auto.
    + rewrite A. reflexivity.
  - destruct A as [t A]. rewrite A. apply sane_not_found; [exact S|]. reflexivity.
Qed.

Theorem aux_relative_zip ms dir file f disk user :
  sane ms = true -> clean dir = true -> is_abs f = false ->
  resolve (RZip ms (dir ++ [file])) disk user f = of_option DaeBrokenRef (walk_in ms dir f).
Proof. intros. simpl. rewrite aux_lookup; auto. Qed.

Theorem aux_relative_disk dir file f disk user :
  sane disk = true -> clean dir = true -> is_abs f = false ->
  resolve (RDisk (dir ++ [file])) disk user f = of_option DaeBrokenRef (walk_in disk dir f).
Proof. intros. simpl. rewrite aux_lookup; auto. Qed.

Theorem user_loader_resolver k c z d r :
  open_container k c z true = Ok (d, r) -> r = RUser.
Proof.
  unfold open_container. destruct c as [d0|ms].
  - intro H. inversion H. reflexivity.
  - destruct (select_member (map fst ms) z); [|discriminate].
    destruct (fs_find ms a); [|discriminate]. intro H. inversion H. reflexivity.
Qed.

Theorem user_loader_data k c z :
  omap fst (open_container k c z true) = omap fst (open_container k c z false).
Proof.
  unfold open_container. destruct c as [d0|ms]; [reflexivity|].
  destruct (select_member (map fst ms) z); [|reflexivity]. destruct (fs_find ms a); reflexivity.
Qed.

Theorem resolve_user disk user f :
  resolve RUser disk user f = match user f with Some d => Ok d | None => Raise DaeBrokenRef end.
Proof. reflexivity. Qed.

Theorem resolve_only_brokenref r disk user f e : resolve r disk user f = Raise e -> e = DaeBrokenRef.
Proof.
  destruct r; simpl; unfold of_option.
  - destruct (fs_find _ _); congruence.
  - destruct (fs_find _ _); congruence.
  - congruence.
  - destruct (user f); congruence.
Qed.

(* ------------------------------------------------------------------ the container does not matter *)

Lemma fs_find_nodup ms n d : NoDup (map fst ms) -> In (n, d) ms -> fs_find ms n = Some d.
Proof.
  induction ms as [|[m x] ms IH]; intros ND Hin; [destruct Hin|].
  simpl in *. inversion ND as [|? ? Hnot ND']. subst. destruct Hin as [Heq|Hin].
  - inversion Heq. subst. rewrite name_eqb_refl. reflexivity.
  - destruct (name_eqb n m) eqn:E.
    + apply name_eqb_eq in E. subst. exfalso. apply Hnot. apply in_map_iff. exists (m, d). auto.
    + apply IH; assumption.
Qed.

Theorem open_plain k d z u :
  omap fst (open_container k (Plain d) z u) = Ok d.
Proof. reflexivity. Qed.

Theorem open_archive_auto k ms n d u :
  NoDup (map fst ms) -> first_non_decoy (map fst ms) = Some n -> In (n, d) ms ->
  omap fst (open_container k (Archive ms) None u) = Ok d.
Proof.
  intros ND F Hin. unfold open_container. rewrite (select_first_non_decoy _ _ F).
  rewrite (fs_find_nodup _ _ _ ND Hin). reflexivity.
Qed.

Theorem open_archive_named k ms n d u :
  NoDup (map fst ms) -> is_empty_name n = false -> In (n, d) ms ->
  omap fst (open_container k (Archive ms) (Some n) u) = Ok d.
Proof.
  intros ND E Hin. unfold open_container. rewrite select_by_name, E.
  assert (M : mem n (map fst ms) = true) by (apply mem_In, in_map_iff; exists (n, d); auto).
  rewrite M. simpl. rewrite (fs_find_nodup _ _ _ ND Hin). reflexivity.
Qed.

Theorem open_archive_none k ms z u e :
  open_container k (Archive ms) z u = Raise e -> e = DaeIncomplete.
Proof.
  unfold open_container. destruct (select_member (map fst ms) z) as [n|e0] eqn:S.
  - apply select_is_member in S. apply in_map_iff in S. destruct S as [[n' d] [Hn Hin]]. simpl in Hn. subst n'.
    destruct (fs_find ms n) eqn:F; [discriminate|].
    exfalso. clear - F Hin. induction ms as [|[m x] ms IH]; [destruct Hin|].
    simpl in F. destruct (name_eqb n m) eqn:E; [discriminate|]. destruct Hin as [Heq|Hin].
    + inversion Heq. subst. rewrite name_eqb_refl in E. discriminate.
    + apply IH; assumption.
  - intro H. inversion H. subst. eapply select_only_incomplete. exact S.
Qed.

(* ------------------------------------------------------------------ tree-shaped file systems *)

(* [chain root anc cur loc]: cur is the node at location loc under root and anc are its
   ancestors, innermost first *)
Inductive chain (root : tree) : list tree -> tree -> list atom -> Prop :=
  | chain_root : chain root [] root []
  | chain_down anc up loc kids c t :
      chain root anc up loc -> up = TDir kids -> kid kids c = Some t ->
      chain root (up :: anc) t (loc ++ [c]).

Lemma tree_at_snoc t : forall loc c kids t',
  tree_at t loc = Some (TDir kids) -> kid kids c = Some t' -> tree_at t (loc ++ [c]) = Some t'.
Proof.
  intros loc. revert t. induction loc as [|a loc IH]; intros t c kids t' H K.
  - simpl in H. inversion H. subst. simpl. rewrite K. reflexivity.
  - simpl in *. destruct t as [|ks]; [discriminate|]. destruct (kid ks a); [|discriminate]. eapply IH; eassumption.
Qed.

Lemma chain_at root anc cur loc : chain root anc cur loc -> tree_at root loc = Some cur.
Proof.
  induction 1 as [|anc up loc kids c t Hc IH Hup Hk]; [reflexivity|].
  subst up. eapply tree_at_snoc; eassumption.
Qed.

(* a strict walk that succeeds lands where the lexical walk says *)
Theorem strict_walk_agrees root p : forall anc cur loc0 t,
  chain root anc cur loc0 -> tree_walk anc cur p = Some t ->
  exists loc, walk_from false (rev loc0) p = Some loc /\ tree_at root loc = Some t.
Proof.
  induction p as [|c r IH]; intros anc cur loc0 t Hc W.
  - simpl in W. inversion W. subst. exists loc0. simpl. rewrite rev_involutive. split; [reflexivity|].
    eapply chain_at. exact Hc.
  - simpl in W. simpl. destruct ((c =? c_empty) || (c =? c_dot)) eqn:E1.
    + destruct cur as [|kids]; [discriminate|]. eapply IH; eassumption.
    + destruct (c =? c_dotdot) eqn:E2.
      * destruct cur as [|kids]; [discriminate|]. destruct anc as [|up anc']; [discriminate|].
        inversion Hc as [|anc0 up0 loc kids0 c0 t0 Hc' Hup Hk]. subst.
        rewrite rev_app_distr. simpl. eapply IH; eassumption.
      * destruct cur as [|kids]; [discriminate|]. destruct (kid kids c) as [t'|] eqn:K; [|discriminate].
        assert (Hc' : chain root (TDir kids :: anc) t' (loc0 ++ [c])) by (eapply chain_down; eauto).
        destruct (IH _ _ _ _ Hc' W) as [loc [Hw Ht]]. exists loc. split; [|exact Ht].
        rewrite rev_app_distr in Hw. exact Hw.
Qed.

(* ------------------------------------------------------------------ what a load depends on *)

Lemma open_archive_auto_full k ms n d u :
  NoDup (map fst ms) -> first_non_decoy (map fst ms) = Some n -> In (n, d) ms ->
  open_container k (Archive ms) None u = Ok (d, if u then RUser else RZip ms n).
Proof.
  intros ND F Hin. unfold open_container. rewrite (select_first_non_decoy _ _ F).
  rewrite (fs_find_nodup _ _ _ ND Hin). reflexivity.
Qed.

Lemma open_archive_named_full k ms n d u :
  NoDup (map fst ms) -> is_empty_name n = false -> In (n, d) ms ->
  open_container k (Archive ms) (Some n) u = Ok (d, if u then RUser else RZip ms n).
Proof.
  intros ND E Hin. unfold open_container. rewrite select_by_name, E.
  assert (M : mem n (map fst ms) = true) by (apply mem_In, in_map_iff; exists (n, d); auto).
  rewrite M. simpl. rewrite (fs_find_nodup _ _ _ ND Hin). reflexivity.
Qed.

(* with a user loader every source kind yields literally the same (bytes, behaviour) pair *)
Theorem same_model_user {model} (loader : N -> (name -> outcome N) -> model) d f ms n m k1 k2 z uf disk1 disk2 disk3 disk4 :
  NoDup (map fst ms) -> first_non_decoy (map fst ms) = Some n -> In (n, d) ms ->
  is_empty_name m = false -> In (m, d) ms ->
  let expected := Ok (loader d (fun p => match uf p with Some x => Ok x | None => Raise DaeBrokenRef end)) in
  load_model loader (FromPath f) (Plain d) z (Some uf) disk1 = expected /\
  load_model loader FromFileObj (Plain d) z (Some uf) disk2 = expected /\
  load_model loader k1 (Archive ms) None (Some uf) disk3 = expected /\
  load_model loader k2 (Archive ms) (Some m) (Some uf) disk4 = expected.
Proof.
  intros ND F Hn Em Hm. unfold load_model. cbv beta iota. repeat split; try reflexivity.
  - rewrite (open_archive_auto_full k1 ms n d true ND F Hn). reflexivity.
  - rewrite (open_archive_named_full k2 ms m d true ND Em Hm). reflexivity.
Qed.

(* without a user loader: a document at location m, in an archive and in a directory tree
   holding the same files under the same names (the fsys [ms] is both the member table and the
   disk), gives the same model for EVERY loader: the zip resolver and the disk resolver are the
   same function of the auxiliary path (posixpath = os.path) *)
Theorem same_model_mirror {model} (loader : N -> (name -> outcome N) -> model) d ms m k :
  NoDup (map fst ms) -> is_empty_name m = false -> In (m, d) ms ->
  load_model loader (FromPath m) (Plain d) None None ms =
  load_model loader k (Archive ms) (Some m) None ms.
Proof.
  intros ND Em Hin. unfold load_model. cbv beta iota.
  rewrite (open_archive_named_full k ms m d false ND Em Hin). reflexivity.
Qed.

(* a document that references no auxiliary file: the same model from every source kind *)
Theorem same_model_no_aux {model} (lm : N -> model) d f ms n k z disk1 disk2 disk3 :
  NoDup (map fst ms) -> first_non_decoy (map fst ms) = Some n -> In (n, d) ms ->
  let loader := fun d (_ : name -> outcome N) => lm d in
  load_model loader (FromPath f) (Plain d) z None disk1 = Ok (lm d) /\
  load_model loader FromFileObj (Plain d) z None disk2 = Ok (lm d) /\
  load_model loader k (Archive ms) None None disk3 = Ok (lm d).
Proof.
  intros ND F Hn loader. unfold load_model. cbv beta iota. repeat split; try reflexivity.
  rewrite (open_archive_auto_full k ms n d false ND F Hn). reflexivity.
Qed.
