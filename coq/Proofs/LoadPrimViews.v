(* C05: what the primitive constructors expose, for every input layout - composition of the
   reshape/column lemma with the constructor's choice of inputs (first VERTEX, first NORMAL, every
   TEXCOORD, TEXTANGENT/TEXBINORMAL for triangle sets only), the gating on emptiness and the
   polylist bookkeeping. *)
From Coq Require Import List Bool ZArith NArith Lia.
From PC Require Import Base.Atoms Base.Xml Base.Outcome Base.Py Model.LoadPrim Proofs.LoadPrim.
Import ListNotations.
Local Open Scope nat_scope.

Lemma max_off_ge : forall l r, In r l -> r_off r <= max_off l.
Proof.
  induction l as [|x l IH]; intros r H; [contradiction|].
  simpl. destruct H as [->|H]; [lia|]. specialize (IH _ H). lia.
Qed.

Lemma bucket_In : forall sem l r, In r (bucket sem l) -> In r l.
Proof. intros sem l r H. unfold bucket in H. apply filter_In in H. tauto. Qed.

(* what an input at r's offset reads, directly from the flat stream *)
Definition direct (nind : nat) (flat : list Z) (r : rinput) : sview := (r_uid r, spec_view nind (r_off r) flat).

Lemma sv_direct : forall ins flat rows r, reshape (S (max_off ins)) flat = Some rows -> In r ins ->
  sv rows r = direct (S (max_off ins)) flat r.
Proof.
  intros ins flat rows r H Hr. unfold sv, direct. f_equal.
  apply (reshape_col_is_direct _ _ _ _ H). pose proof (max_off_ge _ _ Hr). lia.
Qed.

Lemma map_sv_direct : forall ins flat rows sem, reshape (S (max_off ins)) flat = Some rows ->
  map (sv rows) (bucket sem ins) = map (direct (S (max_off ins)) flat) (bucket sem ins).
Proof.
  intros ins flat rows sem H. apply map_ext_in. intros r Hr. apply (sv_direct _ _ _ _ H). eapply bucket_In; eauto.
Qed.

(* the constructor after its `max()` of the offsets succeeded *)
Definition construct_body (k : pkind) (ins : list rinput) (flat : list Z) (vc : option (list Z)) : outcome pview :=
    let nind := S (max_off ins) in
    match reshape nind flat with
    | None => Raise DaeMalformed
    | Some rows =>
      let kk := corners_per k in
      if negb (Nat.eqb (Nat.modulo (length rows) kk) 0) then Raise DaeMalformed else
      if (match vc with Some v => negb (Z.eqb (sumZ v) (Z.of_nat (length rows))) | None => false end)
      then Raise DaeMalformed else
      let nonempty := negb (Nat.eqb (length rows) 0) in
      let first sem := if nonempty then option_map (sv rows) (hd_error (bucket sem ins)) else None in
      let every sem := if nonempty then map (sv rows) (bucket sem ins) else [] in
      let tri := match k with KTriangles | KStrips | KFans => true | _ => false end in
      match bucket a_VERTEX ins, (match k with KLines => true | _ => nonempty end) with
      | [], true => match k with KLines => Raise DaeIncomplete
                    | _ => Raise PyIndexError end
      | _, _ =>
        let vx := first a_VERTEX in
        let nm := first a_NORMAL in
        let tx := every a_TEXCOORD in
        let tt := if tri then every a_TEXTANGENT else [] in
        let tb := if tri then every a_TEXBINORMAL else [] in
        Ok (mkPV nind (map (fun s => bucket s ins) known_sems)
                 (Nat.div (length rows) kk) vx nm tx tt tb
                 (match vc with Some v => Some (v, poly_starts v, poly_ends v) | None => None end)
                 (match vx with Some v => [chk xyz v] | None => [] end ++
                  match nm with Some v => [chk xyz v] | None => [] end ++
                  map (chk st) tx ++ map (chk xyz) tt ++ map (chk xyz) tb))
      end
    end.

Lemma construct_unfold : forall k ins flat vc,
  construct k ins flat vc = match ins with [] => Raise PyValueError | _ => construct_body k ins flat vc end.
Proof. intros. destruct ins; reflexivity. Qed.

Definition is_tri (k : pkind) : bool := match k with KTriangles | KStrips | KFans => true | _ => false end.

Theorem construct_views : forall k ins flat vc pv,
  construct k ins flat vc = Ok pv ->
  let nind := S (max_off ins) in
  let nonempty := negb (Nat.eqb (length flat / nind) 0) in
  let first sem := if nonempty then option_map (direct nind flat) (hd_error (bucket sem ins)) else None in
  let every sem := if nonempty then map (direct nind flat) (bucket sem ins) else [] in
  pv_nind pv = nind /\
  length flat = pv_count pv * corners_per k * nind /\
  pv_table pv = map (fun s => bucket s ins) known_sems /\
  pv_vertex pv = first a_VERTEX /\
  pv_normal pv = first a_NORMAL /\
  pv_tex pv = every a_TEXCOORD /\
  pv_textan pv = (if is_tri k then every a_TEXTANGENT else []) /\
  pv_texbin pv = (if is_tri k then every a_TEXBINORMAL else []) /\
  pv_poly pv = option_map (fun v => (v, poly_starts v, poly_ends v)) vc /\
  (forall v, vc = Some v -> sumZ v = Z.of_nat (length flat / nind)).
Proof.
  intros k ins flat vc pv H. cbv zeta.
  rewrite construct_unfold in H. destruct ins as [|i0 ins'] eqn:EI; [simpl in H; discriminate|].
  change (construct_body k (i0 :: ins') flat vc = Ok pv) in H. rewrite <- EI in *. clear EI i0 ins'.
  unfold construct_body in H. cbv zeta in H.
  set (nind := S (max_off ins)) in *.
  destruct (reshape nind flat) as [rows|] eqn:R; [|discriminate].
  destruct (reshape_some _ _ _ R) as (Hn & HL & Hrows).
  assert (LR : length rows = length flat / nind) by (subst rows; apply chunk_length).
  destruct (negb (Nat.eqb (length rows mod corners_per k) 0)) eqn:M; [discriminate|].
  apply negb_false_iff, Nat.eqb_eq in M.
  destruct (match vc with Some v => negb (Z.eqb (sumZ v) (Z.of_nat (length rows))) | None => false end) eqn:VC; [discriminate|].
  assert (NE : Nat.eqb (length rows) 0 = Nat.eqb (length flat / nind) 0) by now rewrite LR.
  rewrite NE in H.
  set (nonempty := negb (Nat.eqb (length flat / nind) 0)) in *.
  assert (F : forall sem, (if nonempty then option_map (sv rows) (hd_error (bucket sem ins)) else None)
                          = (if nonempty then option_map (direct nind flat) (hd_error (bucket sem ins)) else None)).
  { intro sem. destruct nonempty; [|reflexivity].
    destruct (bucket sem ins) as [|r b] eqn:B; [reflexivity|]. simpl. f_equal.
    apply (sv_direct ins flat rows r R). apply (bucket_In sem). rewrite B. now left. }
  assert (E : forall sem, (if nonempty then map (sv rows) (bucket sem ins) else [])
                          = (if nonempty then map (direct nind flat) (bucket sem ins) else [])).
  { intro sem. destruct nonempty; [|reflexivity]. now apply map_sv_direct. }
  assert (KK : corners_per k <> 0) by (destruct k; simpl; lia).
  assert (CNT : length flat = (length rows / corners_per k) * corners_per k * nind).
  { rewrite HL at 1. rewrite <- LR. f_equal.
    pose proof (Nat.div_mod (length rows) (corners_per k) KK). lia. }
  assert (VS : forall v, vc = Some v -> sumZ v = Z.of_nat (length flat / nind)).
  { intros v ->. rewrite <- LR. apply negb_false_iff in VC. now apply Z.eqb_eq. }
  rewrite !F, !E in H.
  destruct (match bucket a_VERTEX ins with
            | [] => match (match k with KLines => true | _ => nonempty end) with true => true | false => false end
            | _ :: _ => false end) eqn:G.
  - destruct (bucket a_VERTEX ins); [|discriminate].
    destruct (match k with KLines => true | _ => nonempty end); [destruct k; discriminate|discriminate].
  - assert (OKH : Ok (mkPV nind (map (fun s => bucket s ins) known_sems) (length rows / corners_per k)
                       (if nonempty then option_map (direct nind flat) (hd_error (bucket a_VERTEX ins)) else None)
                       (if nonempty then option_map (direct nind flat) (hd_error (bucket a_NORMAL ins)) else None)
                       (if nonempty then map (direct nind flat) (bucket a_TEXCOORD ins) else [])
                       (if is_tri k then (if nonempty then map (direct nind flat) (bucket a_TEXTANGENT ins) else []) else [])
                       (if is_tri k then (if nonempty then map (direct nind flat) (bucket a_TEXBINORMAL ins) else []) else [])
                       (match vc with Some v => Some (v, poly_starts v, poly_ends v) | None => None end)
                       (pv_checks pv)) = Ok pv).
    { destruct (bucket a_VERTEX ins) as [|v0 vs] eqn:BV;
        destruct (match k with KLines => true | _ => nonempty end) eqn:GG; try discriminate;
        injection H as <-; destruct k; reflexivity. }
    injection OKH as <-. simpl.
    repeat split; try reflexivity; try assumption.
    all: try (destruct vc; reflexivity).
Qed.

(* ------------------------------------------------------------------ the loaders of the single-<p> kinds *)

Lemma load_primitive_single : forall sc k inputs vcount p rest pv,
  k = KTriangles \/ k = KLines \/ k = KPolylist ->
  load_primitive sc k inputs vcount (p :: rest) = Ok pv ->
  exists l flat vc,
    get_inputs sc inputs = Ok l /\ parse_index p = Some flat /\
    (k <> KPolylist -> vc = None) /\
    (k = KPolylist -> exists t v, vcount = Some t /\ parse_index t = Some v /\ vc = Some v) /\
    construct k l flat vc = Ok pv.
Proof.
  intros sc k inputs vcount p rest pv Hk H.
  unfold load_primitive in H.
  assert (H' : obind (match k with KPolylist => load_vcounts k 1 vcount (p :: rest) | _ => Ok None end) (fun vc0 =>
               obind (get_inputs sc inputs) (fun ins =>
               match ins with
               | [] => Raise PyValueError
               | _ => obind (load_flat k (S (max_off ins)) (p :: rest)) (fun flat =>
                      obind (match k with KPolygons => load_vcounts k (S (max_off ins)) vcount (p :: rest) | _ => Ok vc0 end)
                            (fun vc => construct k ins flat vc))
               end)) = Ok pv) by (destruct Hk as [->|[->| ->]]; exact H).
  clear H.
  destruct (match k with KPolylist => load_vcounts k 1 vcount (p :: rest) | _ => Ok None end) as [vc0|] eqn:V; [|discriminate].
  simpl in H'. destruct (get_inputs sc inputs) as [l|] eqn:G; [|discriminate]. simpl in H'.
  destruct l as [|i0 l'] eqn:EL; [discriminate|]. rewrite <- EL in *.
  assert (LF : load_flat k (S (max_off l)) (p :: rest) = of_option DaeMalformed (parse_index p))
    by (destruct Hk as [->|[->| ->]]; reflexivity).
  assert (H'' : obind (load_flat k (S (max_off l)) (p :: rest)) (fun flat => construct k l flat vc0) = Ok pv).
  { rewrite EL in *. destruct Hk as [->|[->| ->]]; exact H'. }
  rewrite LF in H''. destruct (parse_index p) as [flat|] eqn:P; [|discriminate]. simpl in H''.
  exists l, flat, vc0. repeat split; try assumption.
  - intro NP. destruct Hk as [->|[->| ->]]; try (injection V as <-; reflexivity). contradiction.
  - intros ->. unfold load_vcounts in V. destruct vcount as [t|]; [|discriminate].
    destruct (parse_index t) as [v|] eqn:PT; [|discriminate]. injection V as <-. exists t, v. auto.
Qed.

(* ------------------------------------------------------------------ several <p>: polygons, strips, fans *)

Lemma reshape_ok_of_mod {A} : forall n (l : list A), n <> 0 -> length l mod n = 0 -> exists rows, reshape n l = Some rows.
Proof.
  intros n l Hn H. destruct (reshape n l) as [rows|] eqn:R; [eauto|].
  apply reshape_none in R. destruct R; contradiction.
Qed.

Lemma reshape_mod {A} : forall n (l : list A) rows, reshape n l = Some rows -> length l mod n = 0.
Proof.
  intros n l rows H. destruct (Nat.eq_dec (length l mod n) 0) as [E|E]; [exact E|].
  assert (reshape n l = None) by (apply reshape_none; now right). congruence.
Qed.

Lemma spec_view_app : forall nind o (a b : list Z), o < nind ->
  length a mod nind = 0 -> length b mod nind = 0 ->
  spec_view nind o (a ++ b) = spec_view nind o a ++ spec_view nind o b.
Proof.
  intros nind o a b Ho Ha Hb. assert (Hn : nind <> 0) by lia.
  destruct (reshape_ok_of_mod nind a Hn Ha) as [ra Ra]. destruct (reshape_ok_of_mod nind b Hn Hb) as [rb Rb].
  pose proof (reshape_app _ _ _ _ _ Ra Rb) as Rab.
  rewrite <- (proj1 (reshape_col_is_direct _ _ _ _ Rab Ho)).
  rewrite <- (proj1 (reshape_col_is_direct _ _ _ _ Ra Ho)), <- (proj1 (reshape_col_is_direct _ _ _ _ Rb Ho)).
  apply col_app.
Qed.

Lemma concat_mod : forall nind (pl : list (list Z)), nind <> 0 ->
  Forall (fun p => length p mod nind = 0) pl -> length (concat pl) mod nind = 0.
Proof.
  intros nind pl Hn F. induction F as [|p pl Hp _ IH]; [simpl; now apply Nat.mod_0_l|].
  simpl. rewrite app_length. rewrite Nat.add_mod by exact Hn. rewrite Hp, IH. simpl. now apply Nat.mod_0_l.
Qed.

Lemma spec_view_concat : forall nind o (pl : list (list Z)), o < nind ->
  Forall (fun p => length p mod nind = 0) pl ->
  spec_view nind o (concat pl) = concat (map (spec_view nind o) pl).
Proof.
  intros nind o pl Ho F. induction F as [|p pl Hp Fr IH].
  { simpl. unfold spec_view. simpl. rewrite Nat.div_0_l by lia. reflexivity. }
  simpl. rewrite spec_view_app; [now rewrite IH|exact Ho|exact Hp|apply concat_mod; [lia|exact Fr]].
Qed.

(* the piece a strip / fan <p> contributes to the flat index *)
Definition piece (k : pkind) (nind : nat) (p : list Z) : list Z :=
  gather (chunk (length p / nind) nind p)
         (match k with KStrips => strip_corners (length p / nind) | _ => fan_corners (length p / nind) end).
Definition piece_corners (k : pkind) (n : nat) : list nat :=
  match k with KStrips => strip_corners n | _ => fan_corners n end.

Lemma piece_view : forall k nind o p, o < nind -> length p mod nind = 0 ->
  length (piece k nind p) mod nind = 0 /\
  spec_view nind o (piece k nind p) = map (fun c => nth (c * nind + o) p 0%Z) (piece_corners k (length p / nind)).
Proof.
  intros k nind o p Ho Hp. assert (Hn : nind <> 0) by lia.
  destruct (reshape_ok_of_mod nind p Hn Hp) as [rows R].
  destruct (reshape_some _ _ _ R) as (_ & HL & Hrows).
  assert (LR : length rows = length p / nind) by (subst rows; apply chunk_length).
  assert (IR : Forall (fun c => c < length rows) (piece_corners k (length p / nind))).
  { rewrite LR. unfold piece_corners. destruct k; try apply fan_corners_in_range. apply strip_corners_in_range. }
  destruct (gather_col nind o p rows _ R Ho IR) as (rows' & R' & C).
  assert (EP : piece k nind p = gather rows (piece_corners k (length p / nind))).
  { unfold piece, piece_corners. rewrite <- Hrows. destruct k; reflexivity. }
  rewrite EP. split; [eapply reshape_mod; eauto|].
  rewrite <- (proj1 (reshape_col_is_direct _ _ _ _ R' Ho)). exact C.
Qed.

Lemma expand_p_piece : forall k nind p flat, (k = KStrips \/ k = KFans) -> expand_p k nind p = Ok flat ->
  length p mod nind = 0 /\ flat = piece k nind p.
Proof.
  intros k nind p flat Hk H. unfold expand_p in H. destruct (reshape nind p) as [rows|] eqn:R; [|discriminate].
  destruct (reshape_some _ _ _ R) as (_ & _ & Hrows). injection H as <-.
  split; [eapply reshape_mod; eauto|]. unfold piece. subst rows. rewrite chunk_length.
  destruct Hk as [->| ->]; reflexivity.
Qed.

Fixpoint parse_all (ps : list (option (list tok))) : option (list (list Z)) :=
  match ps with
  | [] => Some []
  | p :: r => match parse_index p, parse_all r with Some x, Some xs => Some (x :: xs) | _, _ => None end
  end.

Lemma load_flat_strips : forall k nind ps flat, (k = KStrips \/ k = KFans) -> load_flat k nind ps = Ok flat ->
  exists pl, parse_all ps = Some pl /\ Forall (fun p => length p mod nind = 0) pl /\
             flat = concat (map (piece k nind) pl).
Proof.
  intros k nind ps flat Hk H.
  assert (H' : omap (@concat Z) (omapM (fun p => obind (of_option DaeMalformed (parse_index p)) (expand_p k nind)) ps) = Ok flat).
  { destruct ps; [destruct Hk as [->| ->]; discriminate|]. destruct Hk as [->| ->]; exact H. }
  clear H. destruct (omapM _ ps) as [pieces|] eqn:M; [|discriminate]. injection H' as <-.
  revert pieces M. induction ps as [|p ps IH]; intros pieces M.
  - injection M as <-. exists []. repeat split; constructor.
  - simpl in M. destruct (parse_index p) as [x|] eqn:P; [|discriminate]. simpl in M.
    destruct (expand_p k nind x) as [fl|] eqn:X; [|discriminate].
    destruct (omapM _ ps) as [rest|] eqn:MR; [|discriminate]. injection M as <-.
    destruct (IH _ eq_refl) as (pl & PA & F & E). destruct (expand_p_piece _ _ _ _ Hk X) as [Hm ->].
    exists (x :: pl). simpl. rewrite P, PA. repeat split; [constructor; assumption|]. now rewrite E.
Qed.

Lemma load_flat_polygons : forall nind ps flat, load_flat KPolygons nind ps = Ok flat ->
  exists pl, parse_all ps = Some pl /\ flat = concat pl.
Proof.
  intros nind ps flat H. unfold load_flat in H.
  destruct (omapM _ ps) as [pl|] eqn:M; [|discriminate]. injection H as <-.
  exists pl. split; [|reflexivity]. revert pl M. induction ps as [|p ps IH]; intros pl M.
  - injection M as <-. reflexivity.
  - simpl in M. destruct (parse_index p) as [x|] eqn:P; [|discriminate]. simpl in M.
    destruct (omapM _ ps) as [rest|] eqn:MR; [|discriminate]. injection M as <-.
    simpl. now rewrite P, (IH _ eq_refl).
Qed.

(* what an input at offset o sees of the flat index of strips / fans: per <p>, the corner rows read directly *)
Lemma strips_view : forall k nind o pl, (k = KStrips \/ k = KFans) -> o < nind ->
  Forall (fun p => length p mod nind = 0) pl ->
  spec_view nind o (concat (map (piece k nind) pl)) =
  concat (map (fun p => map (fun c => nth (c * nind + o) p 0%Z) (piece_corners k (length p / nind))) pl).
Proof.
  intros k nind o pl Hk Ho F.
  rewrite spec_view_concat; [|exact Ho|].
  - rewrite map_map. f_equal. apply map_ext_in. intros p Hp. rewrite Forall_forall in F.
    apply (piece_view k nind o p Ho (F _ Hp)).
  - rewrite Forall_map. rewrite Forall_forall in *. intros p Hp. apply (piece_view k nind o p Ho (F _ Hp)).
Qed.

(* the SPEC's (p number, row) corner list read through spec_index is the same thing *)
Lemma spec_index_concat : forall nind o (f : list Z -> list nat) (pl pre : list (list Z)),
  map (fun pr => nth (snd pr * nind + o) (nth (fst pr) (pre ++ pl) []) 0%Z)
      (concat (map (fun ip => map (fun r => (fst ip, r)) (f (snd ip))) (combine (seq (length pre) (length pl)) pl))) =
  concat (map (fun p => map (fun c => nth (c * nind + o) p 0%Z) (f p)) pl).
Proof.
  intros nind o f pl. induction pl as [|p pl IH]; intro pre; [reflexivity|].
  simpl. rewrite map_app. f_equal.
  - rewrite map_map. apply map_ext. intro c. simpl. rewrite app_nth2 by lia. now rewrite Nat.sub_diag.
  - specialize (IH (pre ++ [p])). rewrite <- app_assoc in IH. simpl in IH.
    rewrite app_length in IH. simpl in IH. rewrite Nat.add_1_r in IH. exact IH.
Qed.

Lemma spec_index_strips : forall k nind o pl, (k = KStrips \/ k = KFans) ->
  spec_index nind o pl (spec_corners k nind pl) =
  concat (map (fun p => map (fun c => nth (c * nind + o) p 0%Z) (piece_corners k (length p / nind))) pl).
Proof.
  intros k nind o pl Hk. unfold spec_index.
  pose proof (spec_index_concat nind o (fun p => piece_corners k (rows_of nind p)) pl []) as E.
  simpl in E. unfold rows_of in *. destruct Hk as [->| ->]; exact E.
Qed.

Lemma spec_index_polygons : forall nind o pl, o < nind -> Forall (fun p => length p mod nind = 0) pl ->
  spec_index nind o pl (spec_corners KPolygons nind pl) = spec_view nind o (concat pl).
Proof.
  intros nind o pl Ho F. rewrite spec_view_concat by assumption. unfold spec_index.
  pose proof (spec_index_concat nind o (fun p => seq 0 (rows_of nind p)) pl []) as E.
  simpl in E. simpl spec_corners. rewrite E. f_equal.
Qed.

Lemma spec_index_single : forall k nind o p rest, (k = KTriangles \/ k = KLines \/ k = KPolylist) ->
  spec_index nind o (p :: rest) (spec_corners k nind (p :: rest)) = spec_view nind o p.
Proof.
  intros k nind o p rest Hk. unfold spec_index, spec_view.
  assert (E : spec_corners k nind (p :: rest) = map (fun r => (0, r)) (seq 0 (rows_of nind p)))
    by (destruct Hk as [->|[->| ->]]; reflexivity).
  rewrite E, map_map. reflexivity.
Qed.
