(* Composition of Model/Indent.v with Model/SaveState.v: documents WITH their whitespace.

   A concrete document (type [ctree], a Section variable: the ElementTree with every .text and
   .tail) has a content - the root children as SaveState sees them, whose atoms stand for
   everything except the whitespace indent() may rewrite - and a whitespace skeleton (Indent's
   [wtree]).  Collada.save acts on concrete documents and is simulated by [save_in] on their
   content; writeXML is xmlutil.indent on the root followed by serialisation of the tree as it
   then is:          bytes of a write  =  serw (indent 0 (skel (saved tree))).
   The byte-level theorems below are obtained from the content-level ones of Proofs/SaveState.v
   through [indent_canonical] - not by an informal argument. *)
From Coq Require Import List Bool Arith NArith.
From PC Require Import Base.Atoms Base.Outcome Model.Indent Proofs.Indent Model.SaveState Proofs.SaveState.
Import ListNotations.

Section WriteBytes.
  Variable ctree : Type.
  Variable content : ctree -> list rchild.
  Variable skel : ctree -> wtree.
  Variable windent : ctree -> ctree.                (* xmlutil.indent(root) on the concrete document *)
  Variable serw : wtree -> list N.                  (* ElementTree.write: labels and slots to bytes *)
  Variable csave : faults -> model -> ctree -> (model * ctree) * outcome unit.   (* Collada.save *)

  (* indent on the concrete document is Indent.indent on its skeleton and touches nothing else *)
  Hypothesis skel_windent : forall T, skel (windent T) = indent 0 (skel T).
  Hypothesis content_windent : forall T, content (windent T) = content T.
  (* content atoms stand for everything but the whitespace indent may rewrite *)
  Hypothesis content_strip : forall T1 T2, content T1 = content T2 -> strip 0 (skel T1) = strip 0 (skel T2).
  (* the concrete save is Model/SaveState.save_in on the content *)
  Hypothesis csave_sim : forall fc m T,
    save_in fc (St m (content T)) =
    (St (fst (fst (csave fc m T))) (content (snd (fst (csave fc m T)))), snd (csave fc m T)).

  Definition cstate := (model * ctree)%type.
  Definition abs (cs : cstate) : state := St (fst cs) (content (snd cs)).

  (* Collada.write *)
  Definition cwrite_in (fc : faults) (d : dest) (cs : cstate) : cstate * dest * outcome unit :=
    match csave fc (fst cs) (snd cs) with
    | (cs', Raise e) => (cs', d, Raise e)
    | (cs', Ok _) =>
        let T := windent (snd cs') in
        let b := serw (skel T) in
        match d with
        | DPath _ => ((fst cs', T), DPath (Some b), Ok tt)
        | DSink None got => ((fst cs', T), DSink None (got ++ b), Ok tt)
        | DSink (Some n) got =>
            if Nat.ltb n (length b) then ((fst cs', T), DSink (Some n) (got ++ firstn n b), Raise PyOther)
            else ((fst cs', T), DSink (Some n) (got ++ b), Ok tt)
        end
    end.

  Definition crun_event (cs : cstate) (e : event) : cstate :=
    match e with
    | ESave fc => fst (csave fc (fst cs) (snd cs))
    | EWrite fc d => fst (fst (cwrite_in fc d cs))
    end.
  Definition crun_events (cs : cstate) (es : list event) : cstate := fold_left crun_event es cs.

  Definition chealthy_bytes (cs : cstate) : option (list N) :=
    match cwrite_in no_fault (DSink None []) cs with
    | (_, DSink None got, Ok _) => Some got
    | _ => None
    end.

  Lemma abs_csave fc cs : abs (fst (csave fc (fst cs) (snd cs))) = fst (save_in fc (abs cs)).
  Proof. unfold abs. rewrite csave_sim. reflexivity. Qed.

  Lemma abs_cwrite fc d cs : abs (fst (fst (cwrite_in fc d cs))) = fst (save_in fc (abs cs)).
  Proof.
    rewrite <- abs_csave. unfold cwrite_in.
    destruct (csave fc (fst cs) (snd cs)) as [cs' [u|e]]; [|reflexivity].
    destruct d as [[n|] got|f]; simpl; try (unfold abs; simpl; rewrite content_windent; reflexivity).
    destruct (Nat.ltb n (length (serw (skel (windent (snd cs')))))); unfold abs; simpl;
      rewrite content_windent; reflexivity.
  Qed.

  Lemma abs_run cs es : abs (crun_events cs es) = run_events (abs cs) es.
  Proof.
    unfold crun_events, run_events. revert cs. induction es as [|e r IH]; intro cs; [reflexivity|].
    simpl. rewrite IH. f_equal. destruct e as [fc|fc d]; simpl.
    - apply abs_csave.
    - rewrite abs_cwrite. symmetry. apply write_in_state.
  Qed.

  (* the bytes of a healthy write are the serialised indent of the skeleton of the saved tree *)
  Theorem bytes_of_write : forall cs cs1,
    csave no_fault (fst cs) (snd cs) = (cs1, Ok tt) ->
    chealthy_bytes cs = Some (serw (indent 0 (skel (snd cs1)))).
  Proof.
    intros cs cs1 E. unfold chealthy_bytes, cwrite_in. rewrite E. simpl. rewrite skel_windent. reflexivity.
  Qed.

  (* those bytes depend on the content of the saved tree only (indent_canonical) *)
  Lemma bytes_by_content T1 T2 : content T1 = content T2 ->
    serw (indent 0 (skel T1)) = serw (indent 0 (skel T2)).
  Proof. intro E. f_equal. apply indent_canonical. apply content_strip. exact E. Qed.

  Lemma chealthy_by_save cs cs' : save (abs cs') = save (abs cs) -> chealthy_bytes cs' = chealthy_bytes cs.
  Proof.
    intro S. unfold chealthy_bytes, cwrite_in.
    assert (A := csave_sim no_fault (fst cs) (snd cs)). assert (A' := csave_sim no_fault (fst cs') (snd cs')).
    unfold save, abs in S. rewrite A, A' in S.
    destruct (csave no_fault (fst cs) (snd cs)) as [[m1 T1] r]. destruct (csave no_fault (fst cs') (snd cs')) as [[m1' T1'] r'].
    simpl in *. inversion S as [[EM EC ER]]. subst r'.
    destruct r as [u|e]; [|reflexivity]. simpl. rewrite !skel_windent. rewrite (bytes_by_content T1' T1 EC). reflexivity.
  Qed.

  (* byte-level C03_write_after_failures: after any history of attempts on the concrete document
     (each successful write leaving it indented, each save leaving whatever whitespace it
     leaves), a healthy write delivers the bytes it delivers when nothing was attempted *)
  Theorem cwrite_after_failures : forall cs es,
    wf_libs (fst cs) -> single_asset (content (snd cs)) -> healthy (fst cs) ->
    chealthy_bytes (crun_events cs es) = chealthy_bytes cs /\
    view (fst (crun_events cs es)) = view (fst cs).
  Proof.
    intros cs es WL SA H.
    destruct (hist_all (abs cs) es WL SA H) as (V & _ & S). rewrite <- abs_run in V, S.
    split; [apply chealthy_by_save; exact S|exact V].
  Qed.

  (* saving / writing twice: identical bytes *)
  Theorem cwrite_twice : forall cs,
    wf_libs (fst cs) -> single_asset (content (snd cs)) -> healthy (fst cs) ->
    chealthy_bytes (fst (fst (cwrite_in no_fault (DSink None []) cs))) = chealthy_bytes cs.
  Proof.
    intros cs WL SA H.
    exact (proj1 (cwrite_after_failures cs [EWrite no_fault (DSink None [])] WL SA H)).
  Qed.
End WriteBytes.

(* ---- an instance: a document is its content plus "has been indented since the last save";
   its skeleton is the content's canonical skeleton (no whitespace at all), indented or not *)
Definition kid_skel (k : N * N) : wtree := WNode (snd k) SAbsent SAbsent [].
Definition child_skel (c : rchild) : wtree :=
  WNode (rtag c * 1000003 + rsub c)%N SAbsent SAbsent (map kid_skel (rkids c)).
Definition cskel (R : list rchild) : wtree := WNode 0 SAbsent SAbsent (map child_skel R).

Definition i_ctree := (list rchild * bool)%type.
Definition i_content (T : i_ctree) := fst T.
Definition i_skel (T : i_ctree) := if snd T then indent 0 (cskel (fst T)) else cskel (fst T).
Definition i_windent (T : i_ctree) : i_ctree := (fst T, true).
Definition i_csave (fc : faults) (m : model) (T : i_ctree) : (model * i_ctree) * outcome unit :=
  let r := save_in fc (St m (fst T)) in ((smodel (fst r), (stree (fst r), false)), snd r).
Fixpoint i_serw (w : wtree) : list N :=
  let 'WNode lab tx tl kids := w in
  let sl s := match s with SAbsent => 0 | SBlank x => 1 + x | SInd n => 2 + N.of_nat n | SText a => 3 + a end%N in
  lab :: sl tx :: (flat_map i_serw kids) ++ [sl tl].

Lemma i_skel_windent T : i_skel (i_windent T) = indent 0 (i_skel T).
Proof. unfold i_skel, i_windent. destruct T as [R [|]]; simpl; [rewrite indent_idempotent|]; reflexivity. Qed.
Lemma i_content_windent T : i_content (i_windent T) = i_content T.
Proof. reflexivity. Qed.
Lemma i_content_strip T1 T2 : i_content T1 = i_content T2 -> strip 0 (i_skel T1) = strip 0 (i_skel T2).
Proof.
  unfold i_content, i_skel. destruct T1 as [R1 b1], T2 as [R2 b2]. simpl. intro E. subst R2.
  destruct b1, b2; rewrite ?strip_indent; reflexivity.
Qed.
Lemma i_csave_sim fc m T :
  save_in fc (St m (i_content T)) =
  (St (fst (fst (i_csave fc m T))) (i_content (snd (fst (i_csave fc m T)))), snd (i_csave fc m T)).
Proof.
  unfold i_csave, i_content. simpl. destruct (save_in fc (St m (fst T))) as [[m' t'] r]. reflexivity.
Qed.
