(* Lemmas for C12 (scene traversal), over any carrier whose + * - form a commutative ring. *)
From Coq Require Import List Bool ZArith NArith Ring Lia.
From PC Require Import Base.Py Base.Mat Gen.Transforms Gen.Bound Model.Traverse.
Import ListNotations.

Section TraverseProofs.
  Variable R : Type.
  Variable O : ops R.
  Hypothesis Rth : ring_theory (o0 O) (o1 O) (oadd O) (omul O) (osub O) (oopp O) (@eq R).
  Add Ring TraverseRing : Rth.

  Notation r0 := (o0 O).
  Notation r1 := (o1 O).
  Notation mmulR := (mmul (oadd O) (omul O)).
  Notation midR := (mid r0 r1).
  Notation mprodR := (mprod r0 r1 (oadd O) (omul O)).
  Notation mapplyR := (mapply (oadd O) (omul O)).
  Notation snodeR := (snode R).

  (* ---- induction over the rose tree (children lists nested in the type) *)
  Section Ind.
    Variable P : snodeR -> Prop.
    Hypothesis HN : forall own ch, Forall P ch -> P (SNode own ch).
    Hypothesis HI : forall t, P t -> P (SInst t).
    Hypothesis HG : forall g b, P (SGeom g b).
    Hypothesis HC : forall c b, P (SCtrl c b).
    Hypothesis HL : forall l, P (SLight l).
    Hypothesis HK : forall c, P (SCam c).
    Hypothesis HE : P SExtra.
    Fixpoint snode_ind' (n : snodeR) : P n :=
      match n with
      | SNode own ch =>
          HN own ch ((fix go (l : list snodeR) : Forall P l :=
                        match l with
                        | [] => Forall_nil P
                        | c :: r => Forall_cons c (snode_ind' c) (go r)
                        end) ch)
      | SInst t => HI t (snode_ind' t)
      | SGeom g b => HG g b
      | SCtrl c b => HC c b
      | SLight l => HL l
      | SCam c => HK c
      | SExtra => HE
      end.
  End Ind.

  (* what a path yields when the traversal enters its first node with matrix M (None at the scene root) *)
  Definition enter (M : option (mat R)) (p : path R) : bound R :=
    (leaf_kind (snd p), leaf_target (snd p),
     match M with Some m => mmulR m (path_matrix O p) | None => path_matrix O p end,
     leaf_binds (snd p)).
  Definition of_kind (k : nat) (p : path R) : bool := Nat.eqb (leaf_kind (snd p)) k.

  Lemma filter_map_fst : forall (own : mat R) k (l : list (path R)),
    filter (of_kind k) (map (fun p : path R => (own :: fst p, snd p)) l) =
    map (fun p : path R => (own :: fst p, snd p)) (filter (of_kind k) l).
  Proof.
    intros own k l. induction l as [|p l IH]; simpl; [reflexivity|].
    change (of_kind k (own :: fst p, snd p)) with (of_kind k p).
    destruct (of_kind k p); simpl; rewrite IH; reflexivity.
  Qed.

  Lemma enter_child : forall M own (p : path R),
    enter M (own :: fst p, snd p) = enter (node_children_matrix O M own) p.
  Proof.
    intros M own [ms lf]. unfold enter, node_children_matrix, node_objects_matrix, path_matrix. simpl.
    destruct M as [m|]; [|reflexivity].
    rewrite (mmul_assoc R r0 r1 (oadd O) (omul O) (osub O) (oopp O) Rth). reflexivity.
  Qed.

  Lemma leaf_matrix_enter : forall (M : option (mat R)) lf,
    match M with Some m => m | None => midR end =
    match M with Some m => mmulR m (path_matrix O ([], lf)) | None => path_matrix O ([], lf) end.
  Proof.
    intros [m|] lf; unfold path_matrix; simpl; [|reflexivity].
    symmetry. apply (mmul_id_r R r0 r1 (oadd O) (omul O) (osub O) (oopp O) Rth).
  Qed.

  Lemma objects_paths : forall n k M,
    objects O k M n = map (enter M) (filter (of_kind k) (paths n)).
  Proof.
    induction n as [own ch IH | t IH | g b | c b | l | c | ] using snode_ind'; intros k M.
    - (* <node> *)
      cbn [objects paths]. rewrite filter_map_fst, map_map.
      rewrite (map_ext _ _ (enter_child M own)).
      set (down := node_children_matrix O M own). clearbody down.
      induction IH as [|c r Hc Hr IHr]; [reflexivity|].
      rewrite filter_app, map_app, <- IHr, <- Hc. reflexivity.
    - (* <instance_node> *)
      cbn [objects paths]. unfold instance_node_matrix. apply IH.
    - cbn [objects paths filter]. unfold of_kind, geometry_node_kind, geometry_node_matrix. cbn [snd leaf_kind].
      destruct (Nat.eqb_spec k 0) as [->|Hk].
      + cbn. unfold enter. cbn [snd fst leaf_kind leaf_target leaf_binds].
        rewrite <- (leaf_matrix_enter M (LGeom g b)). reflexivity.
      + destruct (Nat.eqb_spec 0 k) as [E|_]; [congruence|reflexivity].
    - cbn [objects paths filter]. unfold of_kind, controller_node_kind, controller_node_matrix. cbn [snd leaf_kind].
      destruct (Nat.eqb_spec k 1) as [->|Hk].
      + cbn. unfold enter. cbn [snd fst leaf_kind leaf_target leaf_binds].
        rewrite <- (leaf_matrix_enter M (LCtrl c b)). reflexivity.
      + destruct (Nat.eqb_spec 1 k) as [E|_]; [congruence|reflexivity].
    - cbn [objects paths filter]. unfold of_kind, light_node_kind, light_node_matrix. cbn [snd leaf_kind].
      destruct (Nat.eqb_spec k 3) as [->|Hk].
      + cbn. unfold enter. cbn [snd fst leaf_kind leaf_target leaf_binds].
        rewrite <- (leaf_matrix_enter M (LLight l)). reflexivity.
      + destruct (Nat.eqb_spec 3 k) as [E|_]; [congruence|reflexivity].
    - cbn [objects paths filter]. unfold of_kind, camera_node_kind, camera_node_matrix. cbn [snd leaf_kind].
      destruct (Nat.eqb_spec k 2) as [->|Hk].
      + cbn. unfold enter. cbn [snd fst leaf_kind leaf_target leaf_binds].
        rewrite <- (leaf_matrix_enter M (LCam c)). reflexivity.
      + destruct (Nat.eqb_spec 2 k) as [E|_]; [congruence|reflexivity].
    - reflexivity.
  Qed.

  Lemma flat_objects_paths : forall k M nodes,
    flat_map (objects O k M) nodes = map (enter M) (filter (of_kind k) (flat_map paths nodes)).
  Proof.
    intros k M nodes. induction nodes as [|n r IH]; [reflexivity|].
    simpl. rewrite filter_app, map_app, IH, objects_paths. reflexivity.
  Qed.
  Lemma scene_objects_are_paths : forall k nodes, scene_objects O k nodes = spec_objects O k nodes.
  Proof. intros k nodes. exact (flat_objects_paths k None nodes). Qed.

  (* exactly one bound object per instance path of that kind *)
  Lemma scene_objects_count : forall k nodes,
    length (scene_objects O k nodes) = length (filter (of_kind k) (scene_paths nodes)).
  Proof. intros. rewrite scene_objects_are_paths. unfold spec_objects. apply map_length. Qed.

  (* instantiating a library node twice yields its objects twice, each under its own prefix *)
  Lemma objects_instance : forall k M t, objects O k M (SInst t) = objects O k M t.
  Proof. reflexivity. Qed.

  (* appending children in place appends their objects after those already there *)
  Lemma objects_children_app : forall k M own c1 c2,
    objects O k M (SNode own (c1 ++ c2)) = objects O k M (SNode own c1) ++ objects O k M (SNode own c2).
  Proof.
    intros k M own c1 c2. cbn [objects]. set (down := node_children_matrix O M own). clearbody down.
    induction c1 as [|c r IH]; [reflexivity|]. cbn [app]. rewrite IH. apply app_assoc.
  Qed.
  Lemma scene_objects_app : forall k s1 s2, scene_objects O k (s1 ++ s2) = scene_objects O k s1 ++ scene_objects O k s2.
  Proof. intros. unfold scene_objects. apply flat_map_app. Qed.

  (* ---- bound vertices and normals: the generated expressions of the three binding classes *)
  Ltac mred := cbv [bound_vertex bound_normal triangleset_bound_vertex triangleset_bound_normal polylist_bound_vertex
                    polylist_bound_normal lineset_bound_vertex lineset_bound_normal block_row block_col slice_col slice_row
                    vopp mtrans mapply point direction xyz vadd vsub lin_apply translation mcol3 mget mset Nat.add
                    m00 m01 m02 m03 m10 m11 m12 m13 m20 m21 m22 m23 m30 m31 m32 m33
                    bound_light bound_camera point_light_position directional_light_direction spot_light_position
                    spot_light_direction spot_light_up perspective_camera_position perspective_camera_direction
                    perspective_camera_up orthographic_camera_position orthographic_camera_direction
                    orthographic_camera_up] in *.
  Ltac vec_eq := repeat match goal with
                       | |- (_, _) = (_, _) => apply f_equal2
                       | |- Some _ = Some _ => apply f_equal
                       | |- @None _ = @None _ => reflexivity
                       end.
  Ltac by_class pk := destruct pk as [|[|pk]].

  Lemma bound_vertex_is_apply : forall pk M v, bound_vertex O pk M v = xyz (mapplyR M (point r1 v)).
  Proof. intros pk [] [[v0 v1] v2]. by_class pk; mred; vec_eq; ring. Qed.
  Lemma bound_vertex_is_Rv_plus_t : forall pk M v,
    bound_vertex O pk M v = vadd (oadd O) (lin_apply (oadd O) (omul O) M v) (translation r0 M).
  Proof. intros pk [] [[v0 v1] v2]. by_class pk; mred; vec_eq; ring. Qed.
  Lemma bound_normal_is_apply : forall pk M n, bound_normal O pk M n = xyz (mapplyR M (direction r0 n)).
  Proof. intros pk [] [[v0 v1] v2]. by_class pk; mred; vec_eq; ring. Qed.
  Lemma bound_normal_is_Rn : forall pk M n, bound_normal O pk M n = lin_apply (oadd O) (omul O) M n.
  Proof. intros pk [] [[v0 v1] v2]. by_class pk; mred; vec_eq; ring. Qed.
  (* normals are not translated *)
  Lemma bound_normal_ignores_translation : forall pk M x y z n,
    bound_normal O pk (mset (mset (mset M 0 3 x) 1 3 y) 2 3 z) n = bound_normal O pk M n.
  Proof. intros pk [] x y z [[v0 v1] v2]. by_class pk; reflexivity. Qed.

  (* a bound skin binds its geometry with matrix . bind_shape_matrix: the vertices are M.(B.v) *)
  Lemma skin_vertices : forall pk M B v,
    bound_vertex O pk (skin_matrix O M B) v = xyz (mapplyR M (mapplyR B (point r1 v))).
  Proof.
    intros. rewrite bound_vertex_is_apply. unfold skin_matrix, skin_geometry_matrix.
    rewrite (mapply_mmul R r0 r1 (oadd O) (omul O) (osub O) (oopp O) Rth). reflexivity.
  Qed.
  Lemma skin_normals : forall pk M B n,
    bound_normal O pk (skin_matrix O M B) n = xyz (mapplyR M (mapplyR B (direction r0 n))).
  Proof.
    intros. rewrite bound_normal_is_apply. unfold skin_matrix, skin_geometry_matrix.
    rewrite (mapply_mmul R r0 r1 (oadd O) (omul O) (osub O) (oopp O) Rth). reflexivity.
  Qed.

  (* ---- material lookup *)
  Lemma find_app_full : forall (A : Type) (f : A -> bool) l1 l2,
    find f (l1 ++ l2) = match find f l1 with Some x => Some x | None => find f l2 end.
  Proof. induction l1 as [|x l1 IH]; intro l2; simpl; [reflexivity|]. destruct (f x); [reflexivity|apply IH]. Qed.

  Lemma dget_dset : forall (V : Type) (d : dict (K := N) (V := V)) k v s,
    dget N.eqb (dset N.eqb d k v) s = if N.eqb s k then Some v else dget N.eqb d s.
  Proof.
    induction d as [|[k' v'] d IH]; intros k v s; simpl.
    - reflexivity.
    - destruct (N.eqb_spec k k') as [->|Hkk]; simpl.
      + destruct (N.eqb_spec s k'); reflexivity.
      + destruct (N.eqb_spec s k') as [->|Hs].
        * destruct (N.eqb_spec k' k) as [E|_]; [congruence|reflexivity].
        * apply IH.
  Qed.

  (* the table built by the loop  table[mat.symbol] = mat  over the bindings in order *)
  Lemma fold_table_get : forall (b : binds) (d : dict (K := N) (V := N * N)) s,
    dget N.eqb (fold_left (fun table mat => dset N.eqb table (fst mat) mat) b d) s =
    match find (fun sm => N.eqb s (fst sm)) (rev b) with Some sm => Some sm | None => dget N.eqb d s end.
  Proof.
    induction b as [|[k v] b IH]; intros d s.
    - reflexivity.
    - cbn [fold_left fst]. rewrite IH. cbn [rev]. rewrite find_app_full.
      destruct (find (fun sm => N.eqb s (fst sm)) (rev b)) as [sm|]; [reflexivity|].
      cbn [find fst]. rewrite dget_dset. destruct (N.eqb s k); reflexivity.
  Qed.

  Lemma material_is_last_binding : forall ctrl pk b s, material_of ctrl pk b s = last_binding b s.
  Proof.
    intros ctrl pk b s. unfold material_of, last_binding, controller_node_material_table, geometry_node_material_table,
      triangleset_material, polylist_material, lineset_material.
    destruct ctrl; by_class pk; rewrite fold_table_get;
      destruct (find (fun sm => N.eqb s (fst sm)) (rev b)); reflexivity.
  Qed.
  Lemma material_none : forall ctrl pk b s, (forall sm, In sm b -> fst sm <> s) -> material_of ctrl pk b s = None.
  Proof.
    intros ctrl pk b s H. rewrite material_is_last_binding. unfold last_binding.
    destruct (find (fun sm => N.eqb s (fst sm)) (rev b)) as [sm|] eqn:E; [|reflexivity].
    apply find_some in E. destruct E as [Hin Heq]. apply in_rev in Hin. apply N.eqb_eq in Heq.
    elim (H sm Hin). symmetry; exact Heq.
  Qed.
  (* a binding of another symbol (surplus, or simply a different one) does not matter *)
  Lemma material_surplus_ignored : forall ctrl pk b1 b2 s' m s, s' <> s ->
    material_of ctrl pk (b1 ++ (s', m) :: b2) s = material_of ctrl pk (b1 ++ b2) s.
  Proof.
    intros ctrl pk b1 b2 s' m s Hne. rewrite !material_is_last_binding. unfold last_binding.
    rewrite !rev_app_distr. cbn [rev]. rewrite <- app_assoc. rewrite !find_app_full. cbn [app find fst].
    destruct (N.eqb_spec s s') as [E|_]; [congruence|]. reflexivity.
  Qed.
  (* of two bindings of the symbol the later one wins; in particular one appended in place *)
  Lemma material_last_wins : forall ctrl pk b1 b2 s m, (forall sm, In sm b2 -> fst sm <> s) ->
    material_of ctrl pk (b1 ++ (s, m) :: b2) s = Some m.
  Proof.
    intros ctrl pk b1 b2 s m H. rewrite material_is_last_binding. unfold last_binding.
    rewrite rev_app_distr. cbn [rev]. rewrite <- app_assoc, find_app_full.
    destruct (find (fun sm => N.eqb s (fst sm)) (rev b2)) as [sm|] eqn:E.
    - apply find_some in E. destruct E as [Hin Heq]. apply in_rev in Hin. apply N.eqb_eq in Heq.
      elim (H sm Hin). symmetry; exact Heq.
    - cbn [app find fst snd]. rewrite N.eqb_refl. reflexivity.
  Qed.
  Lemma material_appended : forall ctrl pk b s m, material_of ctrl pk (b ++ [(s, m)]) s = Some m.
  Proof. intros. apply material_last_wins. intros sm []. Qed.

  (* ---- lights and cameras *)
  Lemma point_light_position_is : forall M pos dir,
    bound_light O 0 pos dir M = (Some (xyz (mapplyR M (point r1 pos))), None, None).
  Proof. intros [] [[p0 p1] p2] dir. mred. vec_eq; ring. Qed.
  Lemma point_light_at_origin : forall M dir,
    bound_light O 0 (r0, r0, r0) dir M = (Some (translation r0 M), None, None).
  Proof. intros [] dir. mred. vec_eq; ring. Qed.
  Lemma directional_light_direction_is : forall M pos dir,
    bound_light O 1 pos dir M = (None, Some (xyz (mapplyR M (direction r0 dir))), None).
  Proof. intros [] pos [[d0 d1] d2]. mred. vec_eq; ring. Qed.
  Lemma spot_light_frame : forall M pos dir,
    bound_light O 2 pos dir M =
    (Some (xyz (mapplyR M (r0, r0, r0, r1))), Some (xyz (mapplyR M (r0, r0, oopp O r1, r0))),
     Some (xyz (mapplyR M (r0, r1, r0, r0)))).
  Proof. intros [] pos dir. mred. vec_eq; ring. Qed.
  Lemma camera_frame : forall ck M,
    bound_camera O ck M =
    (xyz (mapplyR M (r0, r0, r0, r1)), xyz (mapplyR M (r0, r0, oopp O r1, r0)), xyz (mapplyR M (r0, r1, r0, r0))).
  Proof. intros ck []. destruct ck; mred; vec_eq; ring. Qed.
End TraverseProofs.
