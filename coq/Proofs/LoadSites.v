(* Lemmas about Model/LoadSites.v: every class a modelled loader raises is a DaeError or one of the
   GENERATED raw_load_errors, and the boundary it runs in converts the latter. *)
From Coq Require Import List Bool ZArith NArith.
From PC Require Import Base.Atoms Base.Xml Base.Outcome Base.Libs Gen.Params Model.Errors Proofs.Errors
     Model.LoadSites.
Import ListNotations.

Definition good {A} (o : outcome A) : Prop :=
  match o with Ok _ => True | Raise e => is_dae e = true \/ is_rawload e = true end.

(* facts about the generated tuple *)
Lemma raw_value : is_rawload PyValueError = true. Proof. vm_compute. reflexivity. Qed.
Lemma raw_type : is_rawload PyTypeError = true. Proof. vm_compute. reflexivity. Qed.
Lemma raw_attr : is_rawload PyAttributeError = true. Proof. vm_compute. reflexivity. Qed.

Ltac leaf := simpl; first [exact I | left; reflexivity | right; first [exact raw_value | exact raw_type | exact raw_attr]].

Lemma good_andthen {A B} (a : outcome A) (b : outcome B) : good a -> good b -> good (andthen a b).
Proof. destruct a; simpl; auto. Qed.

Lemma good_vem {A} (o : outcome A) : good o -> good (value_error_is_malformed o).
Proof. destruct o as [v|e]; simpl; auto. destruct e; simpl; auto. Qed.

Lemma good_tvem {A} (o : outcome A) : good o -> good (type_value_error_is_malformed o).
Proof. destruct o as [v|e]; simpl; auto. destruct e; simpl; auto. Qed.

Lemma good_parse_floats t : good (parse_floats t).
Proof. destruct t as [ts|]; simpl; [destruct (forallb good_tok ts)|]; leaf. Qed.

Lemma good_parse_float t : good (parse_float t).
Proof. destruct t as [[|x [|y r]]|]; simpl; try leaf. destruct (good_tok x); leaf. Qed.

Lemma good_parse_color t : good (parse_color t).
Proof. destruct t as [ts|]; simpl; [destruct (forallb good_tok ts)|]; leaf. Qed.

Lemma good_opt_float n : good (opt_float n).
Proof. destruct n; simpl; [apply good_parse_float|exact I]. Qed.

Lemma good_req_float n : good (req_float n).
Proof. destruct n; simpl; [apply good_parse_float|leaf]. Qed.

Lemma good_light_color c : good (light_color c).
Proof.
  destruct c as [cn|]; simpl; [|leaf].
  pose proof (good_vem _ (good_parse_color (xtext cn))) as H.
  destruct (value_error_is_malformed (parse_color (xtext cn))); simpl in *; auto.
Qed.

Lemma good_transform x : good (load_transform x).
Proof.
  unfold load_transform.
  destruct (N.eqb (xtag x) a_translate); [|destruct (N.eqb (xtag x) a_rotate); [|destruct (N.eqb (xtag x) a_scale);
    [|destruct (N.eqb (xtag x) a_matrix); [|destruct (N.eqb (xtag x) a_lookat); [|exact I]]]]];
  (pose proof (good_parse_floats (xtext x)) as H; destruct (parse_floats (xtext x)) as [n|e]; simpl in *; [|exact H];
   unfold expect_count; match goal with |- context [Nat.eqb ?a ?b] => destruct (Nat.eqb a b) end; leaf).
Qed.

Lemma good_material ns effects x : good (load_material ns effects x).
Proof.
  unfold load_material. destruct (find ns a_instance_effect x) as [e|]; [|leaf].
  destruct (xattr a_url e) as [[a|h a|z]|]; try leaf.
  destruct h; [|leaf]. destruct (existsb (N.eqb a) effects); leaf.
Qed.

Lemma good_light ns x : good (load_light ns x).
Proof.
  unfold load_light. destruct (find ns a_technique_common x) as [tc|]; [|leaf].
  destruct (xkids tc) as [|k r]; [leaf|].
  destruct (is_tag ns a_directional k); [apply good_light_color|].
  destruct (is_tag ns a_ambient k); [apply good_light_color|].
  destruct (is_tag ns a_point k).
  { destruct (find_path ns [a_technique_common; a_point] x) as [p|]; [|leaf].
    apply good_andthen; [apply good_light_color|]. apply good_vem.
    repeat (apply good_andthen; [apply good_opt_float|]). apply good_opt_float. }
  destruct (is_tag ns a_spot k); [|leaf].
  destruct (find_path ns [a_technique_common; a_spot] x) as [p|]; [|leaf].
  apply good_andthen; [apply good_light_color|]. apply good_vem.
  repeat (apply good_andthen; [apply good_opt_float|]). apply good_opt_float.
Qed.

Lemma good_camera_kind ns p fa fb : good (load_camera_kind ns p fa fb).
Proof.
  unfold load_camera_kind. apply good_andthen.
  - apply good_tvem. repeat (apply good_andthen; [apply good_opt_float|]).
    apply good_andthen; apply good_req_float.
  - destruct (valid_combo _ _ _); leaf.
Qed.

Lemma good_camera ns x : good (load_camera ns x).
Proof.
  unfold load_camera. destruct (find_path ns [a_optics; a_technique_common] x) as [tc|]; [|leaf].
  destruct (xkids tc) as [|k r]; [leaf|].
  destruct (is_tag ns a_perspective k).
  { destruct (find_path ns [a_optics; a_technique_common; a_perspective] x); [apply good_camera_kind|leaf]. }
  destruct (is_tag ns a_orthographic k); [|leaf].
  destruct (find_path ns [a_optics; a_technique_common; a_orthographic] x); [apply good_camera_kind|leaf].
Qed.

Lemma good_float_source ns x : good (load_float_source ns x).
Proof.
  unfold load_float_source. destruct (find ns a_float_array x) as [arr|]; [|leaf].
  assert (Hc : good (float_array_count (xtext arr))).
  { unfold float_array_count. destruct (xtext arr) as [[|t ts]|]; try leaf.
    destruct (forallb good_tok (t :: ts)); leaf. }
  destruct (float_array_count (xtext arr)) as [n|e]; [|exact Hc].
  destruct (match find_path ns [a_technique_common; a_accessor] x with
            | Some acc => findall ns a_param acc | None => [] end) as [|p1 [|p2 [|p3 [|p4 r]]]]; try leaf;
    try (match goal with |- context [Nat.eqb ?a ?b] => destruct (Nat.eqb a b) end; leaf).
  destruct (param_is a_S p1 && param_is a_T p2 && param_is a_P p3);
    match goal with |- context [Nat.eqb ?a ?b] => destruct (Nat.eqb a b) end; leaf.
Qed.

Lemma good_site ns effects k x : good (site_load ns effects k x).
Proof.
  destruct k; simpl; [apply good_transform|apply good_material|apply good_light|apply good_camera|apply good_float_source].
Qed.

(* every boundary the modelled loaders run in has the DaeRawLoadErrors clause (GENERATED table) *)
Lemma boundaries_convert k : has_raw_clause (boundary_of k) = true.
Proof. destruct k; vm_compute; reflexivity. Qed.

Lemma guarded_only_dae ns effects k x :
  match guarded ns effects k x with Ok _ => True | Raise e => is_dae e = true end.
Proof.
  unfold guarded. pose proof (good_site ns effects k x) as G.
  destruct (site_load ns effects k x) as [v|e]; [exact I|].
  rewrite is_dae_gen_agrees. destruct (is_dae e) eqn:D; [exact D|].
  simpl in G. destruct G as [G|G]; [congruence|].
  rewrite boundaries_convert, G. reflexivity.
Qed.

Lemma raw_only_inside_boundary ns effects k x e :
  site_load ns effects k x = Raise e -> is_dae e = false ->
  is_rawload e = true /\ has_raw_clause (boundary_of k) = true /\ guarded ns effects k x = Raise DaeMalformed.
Proof.
  intros H D. pose proof (good_site ns effects k x) as G. rewrite H in G. simpl in G.
  destruct G as [G|G]; [congruence|]. split; [exact G|]. split; [apply boundaries_convert|].
  unfold guarded. rewrite H, is_dae_gen_agrees, D, boundaries_convert, G. reflexivity.
Qed.

(* ---------------------------------------------------------------- shading parameters, primitive inputs *)

Lemma good_shading_param ns x : good (load_shading_param ns x).
Proof.
  unfold load_shading_param. destruct (xkids x) as [|v r]; [leaf|].
  destruct (is_tag ns a_color v).
  { pose proof (good_vem _ (good_parse_color (xtext v))) as H.
    destruct (value_error_is_malformed (parse_color (xtext v))); simpl in *; auto. }
  destruct (is_tag ns a_float v); [destruct (parse_float (xtext v)); leaf|].
  destruct (is_tag ns a_texture v); [destruct (xattr a_texture v); leaf|].
  destruct (is_tag ns a_param v); leaf.
Qed.

Lemma good_parse_offsets : forall ins, good (parse_offsets ins).
Proof.
  induction ins as [|i r IH]; simpl; [exact I|].
  destruct (xattr a_offset i) as [[a|h a|z]|]; try leaf.
  destruct (parse_offsets r); simpl in *; auto.
Qed.

Lemma good_check_input sc i : good (check_input sc i).
Proof.
  unfold check_input. destruct (xattr a_source i) as [[a|h a|z]|]; try leaf.
  destruct h; [|leaf]. destruct (sget sc a) as [[|srcs]|]; try leaf.
  - destruct (xattr a_semantic i) as [[m|? ?|?]|]; try leaf.
    destruct (existsb (N.eqb m) _); leaf.
  - destruct (forallb _ srcs); leaf.
Qed.

Lemma good_check_inputs sc : forall ins, good (check_inputs sc ins).
Proof.
  induction ins as [|i r IH]; simpl; [exact I|]. apply good_andthen; [apply good_check_input|exact IH].
Qed.

Lemma good_triangles ns sc x : good (load_triangles ns sc x).
Proof.
  unfold load_triangles. destruct (findall ns a_p x) as [|p ps]; [leaf|].
  pose proof (good_parse_offsets (findall ns a_input x)) as Ho.
  destruct (parse_offsets (findall ns a_input x)) as [offs|e]; [|exact Ho].
  apply good_andthen; [apply good_check_inputs|].
  destruct offs as [|o os]; [leaf|].
  assert (Hc : good (index_count (xtext p))).
  { unfold index_count. destruct (xtext p) as [[|t ts]|]; try leaf. destruct (forallb good_tok (t :: ts)); leaf. }
  destruct (index_count (xtext p)) as [n|e]; [|exact Hc].
  match goal with |- context [Nat.eqb ?a ?b] => destruct (Nat.eqb a b) end; leaf.
Qed.

Lemma guard_in_only_dae b {A} (o : outcome A) :
  has_raw_clause b = true -> good o ->
  match guard_in b o with Ok _ => True | Raise e => is_dae e = true end.
Proof.
  intros Hb G. unfold guard_in. destruct o as [v|e]; [exact I|].
  rewrite is_dae_gen_agrees. destruct (is_dae e) eqn:D; [exact D|].
  simpl in G. destruct G as [G|G]; [congruence|]. rewrite Hb, G. reflexivity.
Qed.

Lemma guard_in_raw b {A} (o : outcome A) e :
  has_raw_clause b = true -> good o -> o = Raise e -> is_dae e = false ->
  is_rawload e = true /\ guard_in b o = Raise DaeMalformed.
Proof.
  intros Hb G -> D. simpl in G. destruct G as [G|G]; [congruence|]. split; [exact G|].
  unfold guard_in. rewrite is_dae_gen_agrees, D, Hb, G. reflexivity.
Qed.

Lemma effects_boundary : has_raw_clause (BLib LEffects) = true. Proof. vm_compute. reflexivity. Qed.
Lemma geometry_boundary : has_raw_clause (BLib LGeometry) = true. Proof. vm_compute. reflexivity. Qed.
Lemma controllers_boundary : has_raw_clause (BLib LControllers) = true. Proof. vm_compute. reflexivity. Qed.
