(* Lemmas for C13, all stated against the GENERATED definitions of Gen/Transforms.v, over
   an arbitrary carrier whose (o0 o1 oadd omul osub oopp) form a commutative ring.
   Identities that hold only on the unit circle / unit sphere are proved by explicit
   cofactors:  lhs = rhs + P*(c^2+s^2-1) + Q*(x^2+y^2+z^2-1)  is a ring identity
   (P, Q found with sympy's [reduced]; see notes/C13.md), after which [ring] closes it. *)
From Coq Require Import List ZArith Ring Lia.
From PC Require Import Base.Py Base.Mat Gen.Transforms Model.Transforms.
Import ListNotations.

Section TransformProofs.
  Variable R : Type.
  Variable O : ops R.
  Hypothesis Rth : ring_theory (o0 O) (o1 O) (oadd O) (omul O) (osub O) (oopp O) (@eq R).
  Add Ring TransformsRing : Rth.

  Notation r0 := (o0 O).
  Notation r1 := (o1 O).
  Infix "+" := (oadd O).
  Infix "*" := (omul O).
  Infix "-" := (osub O).
  Notation "- x" := (oopp O x).
  Notation mmulR := (mmul (oadd O) (omul O)).
  Notation mapplyR := (mapply (oadd O) (omul O)).
  Notation midR := (mid r0 r1).
  Notation mprodR := (mprod r0 r1 (oadd O) (omul O)).

  Ltac mred := cbv [mmul mid mtrans mapply mget mset m00 m01 m02 m03 m10 m11 m12 m13 m20 m21 m22 m23 m30 m31 m32 m33 point direction xyz lin_apply translation mcol3 mrow3
                    vadd vsub vscale vdivs vdot vcross vnth det3 trace3 affine mat_of_list nth
                    make_rotation rotate_matrix translate_matrix scale_matrix matrix_matrix lookat_matrix
                    toUnitVec translate_load rotate_load scale_load matrix_load lookat_load] in *.
  Ltac vec_eq := repeat match goal with |- (_, _) = (_, _) => apply f_equal2 end.

  Lemma by_cofactors : forall l r p q u v : R, u = r0 -> v = r0 -> l = r + p * u + q * v -> l = r.
  Proof. intros l r p q u v Hu Hv H. rewrite H, Hu, Hv. ring. Qed.

  (* ------------------------------------------------------------------ rotation *)
  Section Rotation.
    Variables x y z a : R.
    Let c := ocos O a.
    Let s := osin O a.
    Hypothesis unit_circle : c * c + s * s = r1.
    Hypothesis unit_axis : x * x + y * y + z * z = r1.
    Let M := make_rotation O x y z a.

    Lemma Hc : c * c + s * s - r1 = r0.
    Proof. rewrite unit_circle. ring. Qed.
    Lemma Hx : x * x + y * y + z * z - r1 = r0.
    Proof. rewrite unit_axis. ring. Qed.

    Ltac open_rot := pose proof Hc as Hc; pose proof Hx as Hx; subst M; unfold make_rotation; cbv zeta;
                     fold c; fold s; clearbody c s.

    Lemma rot_orthogonal : mmulR (mtrans M) M = midR.
    Proof.
      open_rot. apply mat_ext; mred.
      - apply (by_cofactors _ _ (x*x*x*x + x*x*y*y + x*x*z*z - (r1+r1)*x*x + r1) (r0 - (r1+r1)*c*x*x - s*s*x*x + s*s + (r1+r1)*x*x) _ _ Hc Hx); ring.
      - apply (by_cofactors _ _ (x*x*x*y + x*y*y*y + x*y*z*z - (r1+r1)*x*y) (r0 - (r1+r1)*c*x*y - s*s*x*y + (r1+r1)*x*y) _ _ Hc Hx); ring.
      - apply (by_cofactors _ _ (x*x*x*z + x*y*y*z + x*z*z*z - (r1+r1)*x*z) (r0 - (r1+r1)*c*x*z - s*s*x*z + (r1+r1)*x*z) _ _ Hc Hx); ring.
      - ring.
      - apply (by_cofactors _ _ (x*x*x*y + x*y*y*y + x*y*z*z - (r1+r1)*x*y) (r0 - (r1+r1)*c*x*y - s*s*x*y + (r1+r1)*x*y) _ _ Hc Hx); ring.
      - apply (by_cofactors _ _ (x*x*y*y + y*y*y*y + y*y*z*z - (r1+r1)*y*y + r1) (r0 - (r1+r1)*c*y*y - s*s*y*y + s*s + (r1+r1)*y*y) _ _ Hc Hx); ring.
      - apply (by_cofactors _ _ (x*x*y*z + y*y*y*z + y*z*z*z - (r1+r1)*y*z) (r0 - (r1+r1)*c*y*z - s*s*y*z + (r1+r1)*y*z) _ _ Hc Hx); ring.
      - ring.
      - apply (by_cofactors _ _ (x*x*x*z + x*y*y*z + x*z*z*z - (r1+r1)*x*z) (r0 - (r1+r1)*c*x*z - s*s*x*z + (r1+r1)*x*z) _ _ Hc Hx); ring.
      - apply (by_cofactors _ _ (x*x*y*z + y*y*y*z + y*z*z*z - (r1+r1)*y*z) (r0 - (r1+r1)*c*y*z - s*s*y*z + (r1+r1)*y*z) _ _ Hc Hx); ring.
      - apply (by_cofactors _ _ (x*x*z*z + y*y*z*z + z*z*z*z - (r1+r1)*z*z + r1) (r0 - (r1+r1)*c*z*z - s*s*z*z + s*s + (r1+r1)*z*z) _ _ Hc Hx); ring.
      - ring.
      - ring.
      - ring.
      - ring.
      - ring.
    Qed.

    Lemma rot_orthogonal_r : mmulR M (mtrans M) = midR.
    Proof.
      open_rot. apply mat_ext; mred.
      - apply (by_cofactors _ _ (x*x*x*x + x*x*y*y + x*x*z*z - (r1+r1)*x*x + r1) (r0 - (r1+r1)*c*x*x - s*s*x*x + s*s + (r1+r1)*x*x) _ _ Hc Hx); ring.
      - apply (by_cofactors _ _ (x*x*x*y + x*y*y*y + x*y*z*z - (r1+r1)*x*y) (r0 - (r1+r1)*c*x*y - s*s*x*y + (r1+r1)*x*y) _ _ Hc Hx); ring.
      - apply (by_cofactors _ _ (x*x*x*z + x*y*y*z + x*z*z*z - (r1+r1)*x*z) (r0 - (r1+r1)*c*x*z - s*s*x*z + (r1+r1)*x*z) _ _ Hc Hx); ring.
      - ring.
      - apply (by_cofactors _ _ (x*x*x*y + x*y*y*y + x*y*z*z - (r1+r1)*x*y) (r0 - (r1+r1)*c*x*y - s*s*x*y + (r1+r1)*x*y) _ _ Hc Hx); ring.
      - apply (by_cofactors _ _ (x*x*y*y + y*y*y*y + y*y*z*z - (r1+r1)*y*y + r1) (r0 - (r1+r1)*c*y*y - s*s*y*y + s*s + (r1+r1)*y*y) _ _ Hc Hx); ring.
      - apply (by_cofactors _ _ (x*x*y*z + y*y*y*z + y*z*z*z - (r1+r1)*y*z) (r0 - (r1+r1)*c*y*z - s*s*y*z + (r1+r1)*y*z) _ _ Hc Hx); ring.
      - ring.
      - apply (by_cofactors _ _ (x*x*x*z + x*y*y*z + x*z*z*z - (r1+r1)*x*z) (r0 - (r1+r1)*c*x*z - s*s*x*z + (r1+r1)*x*z) _ _ Hc Hx); ring.
      - apply (by_cofactors _ _ (x*x*y*z + y*y*y*z + y*z*z*z - (r1+r1)*y*z) (r0 - (r1+r1)*c*y*z - s*s*y*z + (r1+r1)*y*z) _ _ Hc Hx); ring.
      - apply (by_cofactors _ _ (x*x*z*z + y*y*z*z + z*z*z*z - (r1+r1)*z*z + r1) (r0 - (r1+r1)*c*z*z - s*s*z*z + s*s + (r1+r1)*z*z) _ _ Hc Hx); ring.
      - ring.
      - ring.
      - ring.
      - ring.
      - ring.
    Qed.

    Lemma rot_det : det3 (oadd O) (omul O) (osub O) M = r1.
    Proof.
      open_rot. mred.
      apply (by_cofactors _ _ (r0 - c*x*x - c*y*y - c*z*z + c + x*x + y*y + z*z) (r0 - c*s*s*x*x - c*s*s*y*y - c*s*s*z*z + c*s*s - c + s*s*x*x + s*s*y*y + s*s*z*z + r1) _ _ Hc Hx); ring.
    Qed.

    Lemma rot_fixes_axis : mapplyR M (direction r0 (x, y, z)) = direction r0 (x, y, z).
    Proof.
      open_rot. mred. vec_eq.
      - apply (by_cofactors _ _ (r0) (r0 - c*x + x) _ _ Hc Hx); ring.
      - apply (by_cofactors _ _ (r0) (r0 - c*y + y) _ _ Hc Hx); ring.
      - apply (by_cofactors _ _ (r0) (r0 - c*z + z) _ _ Hc Hx); ring.
      - ring.
    Qed.

    Lemma rot_trace : trace3 (oadd O) M = r1 + (r1 + r1) * c.
    Proof.
      open_rot. mred.
      apply (by_cofactors _ _ (r0) (r0 - c + r1) _ _ Hc Hx); ring.
    Qed.
  End Rotation.

  (* no hypothesis needed for these *)
  Lemma rot_affine : forall x y z a, affine r0 r1 (make_rotation O x y z a).
  Proof. intros; mred; repeat split. Qed.

  (* right-handed: about +z the matrix is [[c,-s,0],[s,c,0],[0,0,1]], so under the column
     convention the x axis turns toward the y axis (and about +x: y toward z, about +y: z toward x) *)
  Lemma rot_about_z : forall a, make_rotation O r0 r0 r1 a =
    Mat (ocos O a) (- osin O a) r0 r0  (osin O a) (ocos O a) r0 r0  r0 r0 r1 r0  r0 r0 r0 r1.
  Proof. intro a; apply mat_ext; mred; ring. Qed.
  Lemma rot_about_x : forall a, make_rotation O r1 r0 r0 a =
    Mat r1 r0 r0 r0  r0 (ocos O a) (- osin O a) r0  r0 (osin O a) (ocos O a) r0  r0 r0 r0 r1.
  Proof. intro a; apply mat_ext; mred; ring. Qed.
  Lemma rot_about_y : forall a, make_rotation O r0 r1 r0 a =
    Mat (ocos O a) r0 (osin O a) r0  r0 r1 r0 r0  (- osin O a) r0 (ocos O a) r0  r0 r0 r0 r1.
  Proof. intro a; apply mat_ext; mred; ring. Qed.
  Lemma rot_z_turns_x_toward_y : forall a,
    mapplyR (make_rotation O r0 r0 r1 a) (r1, r0, r0, r0) = (ocos O a, osin O a, r0, r0).
  Proof. intro a; rewrite rot_about_z; mred; vec_eq; ring. Qed.

  (* the <rotate> element: degrees are converted by  angle * pi / 180  and nothing else *)
  Lemma rotate_is_rotation_at_radians : forall x y z deg,
    rotate_matrix O x y z deg = make_rotation O x y z (odiv O (deg * opi O) (oofZ O 180%Z)).
  Proof. reflexivity. Qed.

  (* ------------------------------------------------------------------ translate, scale, matrix *)
  Lemma translate_explicit : forall x y z,
    translate_matrix O x y z = Mat r1 r0 r0 x  r0 r1 r0 y  r0 r0 r1 z  r0 r0 r0 r1.
  Proof. reflexivity. Qed.
  Lemma translate_apply : forall x y z px py pz w,
    mapplyR (translate_matrix O x y z) (px, py, pz, w) = (px + x * w, py + y * w, pz + z * w, w).
  Proof. intros; mred; vec_eq; ring. Qed.
  Lemma translate_point : forall x y z p,
    mapplyR (translate_matrix O x y z) (point r1 p) = point r1 (vadd (oadd O) p (x, y, z)).
  Proof. intros x y z [[px py] pz]; mred; vec_eq; ring. Qed.
  Lemma translate_direction : forall x y z d,
    mapplyR (translate_matrix O x y z) (direction r0 d) = direction r0 d.
  Proof. intros x y z [[px py] pz]; mred; vec_eq; ring. Qed.

  Lemma scale_explicit : forall x y z,
    scale_matrix O x y z = Mat x r0 r0 r0  r0 y r0 r0  r0 r0 z r0  r0 r0 r0 r1.
  Proof. reflexivity. Qed.
  Lemma scale_apply : forall x y z px py pz w,
    mapplyR (scale_matrix O x y z) (px, py, pz, w) = (x * px, y * py, z * pz, w).
  Proof. intros; mred; vec_eq; ring. Qed.

  (* <matrix>: the sixteen numbers are the rows, one after the other *)
  Lemma matrix_row_major : forall a00 a01 a02 a03 a10 a11 a12 a13 a20 a21 a22 a23 a30 a31 a32 a33,
    matrix_matrix O [a00; a01; a02; a03; a10; a11; a12; a13; a20; a21; a22; a23; a30; a31; a32; a33] =
    Mat a00 a01 a02 a03 a10 a11 a12 a13 a20 a21 a22 a23 a30 a31 a32 a33.
  Proof. reflexivity. Qed.
  Lemma matrix_cell : forall l i j, (i < 4)%nat -> (j < 4)%nat ->
    mget r0 (matrix_matrix O l) i j = nth (4 * i + j) l r0.
  Proof.
    intros l i j Hi Hj.
    destruct i as [|[|[|[|i]]]]; destruct j as [|[|[|[|j]]]]; try reflexivity; exfalso; lia.
  Qed.
  Lemma matrix_apply : forall a00 a01 a02 a03 a10 a11 a12 a13 a20 a21 a22 a23 a30 a31 a32 a33 vx vy vz vw,
    mapplyR (matrix_matrix O [a00; a01; a02; a03; a10; a11; a12; a13; a20; a21; a22; a23; a30; a31; a32; a33])
            (vx, vy, vz, vw) =
    (a00 * vx + a01 * vy + a02 * vz + a03 * vw, a10 * vx + a11 * vy + a12 * vz + a13 * vw,
     a20 * vx + a21 * vy + a22 * vz + a23 * vw, a30 * vx + a31 * vy + a32 * vz + a33 * vw).
  Proof. reflexivity. Qed.

  (* ------------------------------------------------------------------ lookat *)
  Lemma lookat_origin_to_eye : forall eye interest up,
    mapplyR (lookat_matrix O eye interest up) (r0, r0, r0, r1) = point r1 eye.
  Proof.
    intros [[e0 e1] e2] [[i0 i1] i2] [[u0 u1] u2]. mred. vec_eq; ring.
  Qed.
  (* -Z goes to  k * (interest - eye)  with  k = 1/|eye - interest|  the factor toUnitVec uses
     (positive over the reals whenever eye <> interest: Properties/C13.v, reals section) *)
  Lemma lookat_minus_z : (forall p q, odiv O p q = p * oinv O q) ->
    forall eye interest up,
    let d := vsub (osub O) eye interest in
    mapplyR (lookat_matrix O eye interest up) (r0, r0, - r1, r0) =
    direction r0 (vscale (omul O) (oinv O (osqrt O (vdot (oadd O) (omul O) d d))) (vsub (osub O) interest eye)).
  Proof.
    intros Hdiv [[e0 e1] e2] [[i0 i1] i2] [[u0 u1] u2]. mred. rewrite !Hdiv. vec_eq; ring.
  Qed.
  (* right-handed frame: the side column is a positive multiple (k2 = 1/|front x up|) of up x front,
     and the determinant of the linear part is k2 * |up x front|^2 *)
  Lemma lookat_side_column : (forall p q, odiv O p q = p * oinv O q) ->
    forall eye interest up,
    let front := toUnitVec O (vsub (osub O) eye interest) in
    let fu := vcross (omul O) (osub O) front up in
    mcol3 r0 (lookat_matrix O eye interest up) 0 =
    vscale (omul O) (oinv O (osqrt O (vdot (oadd O) (omul O) fu fu))) (vcross (omul O) (osub O) up front).
  Proof.
    intros Hdiv [[e0 e1] e2] [[i0 i1] i2] [[u0 u1] u2]. cbv zeta. mred. rewrite !Hdiv. vec_eq; ring.
  Qed.
  Lemma lookat_det : (forall p q, odiv O p q = p * oinv O q) ->
    forall eye interest up,
    let front := toUnitVec O (vsub (osub O) eye interest) in
    let fu := vcross (omul O) (osub O) front up in
    det3 (oadd O) (omul O) (osub O) (lookat_matrix O eye interest up) =
    oinv O (osqrt O (vdot (oadd O) (omul O) fu fu)) * vdot (oadd O) (omul O) fu fu.
  Proof.
    intros Hdiv [[e0 e1] e2] [[i0 i1] i2] [[u0 u1] u2]. cbv zeta. mred. rewrite !Hdiv. ring.
  Qed.
  Lemma lookat_up_column : forall eye interest up,
    mcol3 r0 (lookat_matrix O eye interest up) 1 = up.
  Proof. intros [[e0 e1] e2] [[i0 i1] i2] [[u0 u1] u2]. reflexivity. Qed.
  Lemma lookat_affine : forall eye interest up, affine r0 r1 (lookat_matrix O eye interest up).
  Proof. intros [[e0 e1] e2] [[i0 i1] i2] [[u0 u1] u2]. mred. repeat split. Qed.

  (* ------------------------------------------------------------------ loaders: document order of the floats *)
  Lemma load_translate : forall x y z, transform_matrix O (TLoaded 0 [x; y; z]) = transform_matrix O (TTranslate x y z).
  Proof. reflexivity. Qed.
  Lemma load_rotate : forall x y z a, transform_matrix O (TLoaded 1 [x; y; z; a]) = transform_matrix O (TRotate x y z a).
  Proof. reflexivity. Qed.
  Lemma load_scale : forall x y z, transform_matrix O (TLoaded 2 [x; y; z]) = transform_matrix O (TScale x y z).
  Proof. reflexivity. Qed.
  Lemma load_matrix : forall l, transform_matrix O (TLoaded 3 l) = transform_matrix O (TMatrix l).
  Proof. reflexivity. Qed.
  Lemma load_lookat : forall e0 e1 e2 i0 i1 i2 u0 u1 u2,
    transform_matrix O (TLoaded 4 [e0; e1; e2; i0; i1; i2; u0; u1; u2]) =
    transform_matrix O (TLookAt (e0, e1, e2) (i0, i1, i2) (u0, u1, u2)).
  Proof. reflexivity. Qed.

  (* ------------------------------------------------------------------ node matrix *)
  Lemma node_matrix_is_product : forall ts, node_matrix O ts = spec_matrix O ts.
  Proof.
    intro ts. unfold node_matrix, node_init_matrix, spec_matrix.
    change (node_init_matrix_step O) with (mmul (oadd O) (omul O)).
    rewrite (fold_left_mmul R r0 r1 (oadd O) (omul O) (osub O) (oopp O) Rth).
    apply (mmul_id_l R r0 r1 (oadd O) (omul O) (osub O) (oopp O) Rth).
  Qed.
  Lemma node_matrix_saved_is_product : forall ts, node_matrix_saved O ts = spec_matrix O ts.
  Proof.
    intro ts. unfold node_matrix_saved, node_save_matrix, spec_matrix.
    change (node_save_matrix_step O) with (mmul (oadd O) (omul O)).
    rewrite (fold_left_mmul R r0 r1 (oadd O) (omul O) (osub O) (oopp O) Rth).
    apply (mmul_id_l R r0 r1 (oadd O) (omul O) (osub O) (oopp O) Rth).
  Qed.
  Lemma node_matrix_app : forall ts1 ts2,
    node_matrix O (ts1 ++ ts2) = mmulR (node_matrix O ts1) (node_matrix O ts2).
  Proof.
    intros. rewrite !node_matrix_is_product. unfold spec_matrix. rewrite map_app.
    apply (mprod_app R r0 r1 (oadd O) (omul O) (osub O) (oopp O) Rth).
  Qed.
  Lemma node_matrix_nil : node_matrix O [] = midR.
  Proof. reflexivity. Qed.
  Lemma node_matrix_single : forall t, node_matrix O [t] = transform_matrix O t.
  Proof.
    intro t. rewrite node_matrix_is_product. unfold spec_matrix. simpl.
    apply (mmul_id_r R r0 r1 (oadd O) (omul O) (osub O) (oopp O) Rth).
  Qed.
  (* the last listed transform acts first on a column vector *)
  Lemma apply_order : forall ts t v,
    mapplyR (node_matrix O (ts ++ [t])) v = mapplyR (node_matrix O ts) (mapplyR (transform_matrix O t) v).
  Proof.
    intros. rewrite node_matrix_app, node_matrix_single.
    apply (mapply_mmul R r0 r1 (oadd O) (omul O) (osub O) (oopp O) Rth).
  Qed.
  Lemma apply_order_cons : forall t ts v,
    mapplyR (node_matrix O (t :: ts)) v = mapplyR (transform_matrix O t) (mapplyR (node_matrix O ts) v).
  Proof.
    intros. change (t :: ts) with ([t] ++ ts). rewrite node_matrix_app, node_matrix_single.
    apply (mapply_mmul R r0 r1 (oadd O) (omul O) (osub O) (oopp O) Rth).
  Qed.

  (* ------------------------------------------------------------------ edit histories and save *)
  Lemma run_edits_transforms : forall es (n : node R),
    transforms (run_edits n es) = fold_left (apply_edit) es (transforms n).
  Proof. induction es as [|e es IH]; intro n; simpl; [reflexivity|]. rewrite IH. reflexivity. Qed.
  (* edits alone never touch the cached matrix (documented: "only updated after calling save") *)
  Lemma run_edits_matrix_stale : forall es (n : node R), matrix (run_edits n es) = matrix n.
  Proof. induction es as [|e es IH]; intro n; simpl; [reflexivity|]. rewrite IH. reflexivity. Qed.
  Lemma save_recomputes : forall ts es,
    let n := save O (run_edits (construct O ts) es) in
    transforms n = fold_left apply_edit es ts /\
    matrix n = spec_matrix O (fold_left apply_edit es ts).
  Proof.
    intros ts es. simpl. rewrite run_edits_transforms. split; [reflexivity|].
    apply node_matrix_saved_is_product.
  Qed.
  (* histories with failing saves anywhere: only the transform list matters to the next successful save *)
  Lemma run_history_transforms : forall h (n : node R),
    transforms (run_history O n h) = history_transforms (transforms n) h.
  Proof.
    induction h as [|s h IH]; intro n; [reflexivity|].
    cbn [run_history history_transforms fold_left]. fold (run_history O (hstep_apply O n s) h).
    rewrite IH. destruct s; reflexivity.
  Qed.
  Lemma save_recomputes_after_failures : forall ts h,
    let n := run_history O (construct O ts) (h ++ [HSave]) in
    transforms n = history_transforms ts h /\
    matrix n = spec_matrix O (history_transforms ts h).
  Proof.
    intros ts h. cbv zeta. unfold run_history. rewrite fold_left_app. cbn [fold_left hstep_apply].
    fold (run_history O (construct O ts) h). cbn [save transforms matrix].
    rewrite run_history_transforms. split; [reflexivity|]. apply node_matrix_saved_is_product.
  Qed.
  Lemma save_idempotent : forall n : node R, save O (save O n) = save O n.
  Proof. reflexivity. Qed.
End TransformProofs.
