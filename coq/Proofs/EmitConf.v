(* C04 - every document the emit model produces from well-formed user content conforms to the
   emit grammar: per-class lemmas, then the document. *)
From Coq Require Import List Bool ZArith NArith Lia.
From PC Require Import Base.Atoms Base.Xml Model.SchemaSyntax Model.Schema Gen.Schema141 Model.Bookkeeping
                       Model.EmitGrammar Model.EmitDoc Proofs.ConfTools.
Import ListNotations.

Local Opaque val_ok.

Section Conf.
  Variable lex : atom -> N.
  Notation G := emit_grammar.
  Notation C := (confh emit_grammar lex).

  (* ---------------------------------------------------------------- generic element shapes *)
  Lemma conf_text : forall r t l st,
    rule_of r emit_rules = Some (GRule [] (GText st)) -> tval lex st l = true -> C r (txt t l) = true.
  Proof.
    intros r t l st Hr Hv. rewrite confh_unfold. change (gg_rules G) with emit_rules. rewrite Hr.
    cbn. exact Hv.
  Qed.

  Lemma conf_kids : forall r x uses items,
    rule_of r emit_rules = Some (GRule uses (GKids items)) ->
    attrs_ok_l lex uses x = true -> text_empty x = true -> gmatch G C items (xkids x) = true -> C r x = true.
  Proof.
    intros r x uses items Hr Ha Ht Hg. rewrite confh_unfold. change (gg_rules G) with emit_rules. rewrite Hr.
    cbn [gr_body gr_attrs]. now rewrite Ha, Ht, Hg.
  Qed.

  Lemma conf_segs : forall r x uses items segs,
    rule_of r emit_rules = Some (GRule uses (GKids items)) ->
    attrs_ok_l lex uses x = true -> text_empty x = true -> xkids x = flat segs ->
    sep_ok items (map fst segs) = true -> segs_ok G C items segs = true -> C r x = true.
  Proof.
    intros r x uses items segs Hr Ha Ht Hk Hsep Hok. eapply conf_kids; eauto.
    rewrite Hk. apply gmatch_segs; auto.
  Qed.

  (* ---------------------------------------------------------------- segments *)
  Lemma pk : forall alts a x, In a alts -> tag_is G (fst a) x = true -> C (snd a) x = true -> picked G C alts x = true.
  Proof. intros. eapply pick_some; eauto. Qed.

  Lemma seg_one : forall alts ts x, has_tag ts x = true -> picked G C alts x = true -> seg_ok G C (IOne alts) (ts, [x]) = true.
  Proof. intros. unfold seg_ok. cbn [fst snd forallb]. now rewrite H, H0. Qed.

  Lemma seg_list : forall alts ts l,
    (forall x, In x l -> has_tag ts x = true /\ picked G C alts x = true) -> seg_ok G C (IStar alts) (ts, l) = true.
  Proof.
    intros alts ts l H. unfold seg_ok. cbn [fst snd]. apply andb_true_intro; split; apply forallb_forall; intros x Hx; apply H; auto.
  Qed.

  Lemma seg_map : forall A (f : A -> xml) alts ts l,
    (forall v, In v l -> has_tag ts (f v) = true /\ picked G C alts (f v) = true) ->
    seg_ok G C (IStar alts) (ts, map f l) = true.
  Proof. intros. apply seg_list. intros x Hx. apply in_map_iff in Hx as [v [<- Hv]]. auto. Qed.

  Lemma seg_opt : forall A (f : A -> xml) alts ts o,
    (forall v, o = Some v -> has_tag ts (f v) = true /\ picked G C alts (f v) = true) ->
    seg_ok G C (IOpt alts) (ts, opt_el f o) = true.
  Proof.
    intros A f alts ts [v|] H; unfold seg_ok; cbn [fst snd forallb opt_el]; auto.
    destruct (H v eq_refl) as [H1 H2]. now rewrite H1, H2.
  Qed.

  Lemma seg_opt_none : forall alts ts, seg_ok G C (IOpt alts) (ts, []) = true.
  Proof. reflexivity. Qed.

  Lemma seg_opt_one : forall alts ts x, has_tag ts x = true -> picked G C alts x = true -> seg_ok G C (IOpt alts) (ts, [x]) = true.
  Proof. intros. unfold seg_ok. cbn [fst snd forallb]. now rewrite H, H0. Qed.

  Ltac attrs := unfold attrs_ok_l; cbn; repeat (apply andb_true_intro; split); try reflexivity; try assumption; try (vm_compute; reflexivity).
  Lemma segs_cons : forall it rest s sr,
    seg_ok G C it s = true -> segs_ok G C rest sr = true -> segs_ok G C (it :: rest) (s :: sr) = true.
  Proof. intros. cbn [segs_ok]. now rewrite H, H0. Qed.
  Ltac segs := repeat (apply segs_cons); try reflexivity.
  Ltac shape := try reflexivity; try (unfold flat; cbn [concat map snd]; rewrite ?app_nil_r; reflexivity).
  Ltac splitb H := repeat match type of H with (_ && _ = true) => let H' := fresh H in apply andb_true_iff in H as [H H'] end.

  (* an optional text child *)
  Lemma opt_text_seg : forall t r st o,
    rule_of r emit_rules = Some (GRule [] (GText st)) -> oall (tval lex st) o = true ->
    seg_ok G C (IOpt [(t, r)]) ([t], opt_el (txt t) o) = true.
  Proof.
    intros t r st o Hr Ho. apply seg_opt. intros v ->. split.
    - unfold has_tag. cbn. now rewrite N.eqb_refl.
    - eapply pk with (a := (t, r)); [left; reflexivity | unfold tag_is; cbn; now rewrite N.eqb_refl | eapply conf_text; eauto].
  Qed.

  Lemma one_text_seg : forall t r st l,
    rule_of r emit_rules = Some (GRule [] (GText st)) -> tval lex st l = true ->
    seg_ok G C (IOne [(t, r)]) ([t], [txt t l]) = true.
  Proof.
    intros t r st l Hr Hl. apply seg_one.
    - unfold has_tag. cbn. now rewrite N.eqb_refl.
    - eapply pk with (a := (t, r)); [left; reflexivity | unfold tag_is; cbn; now rewrite N.eqb_refl | eapply conf_text; eauto].
  Qed.

  Lemma tval_any : forall l, tval lex SAnyString l = true.
  Proof. intros. unfold tval. Transparent val_ok. reflexivity. Opaque val_ok. Qed.

  Lemma oall_any : forall o, oall (tval lex SAnyString) o = true.
  Proof. intros [l|]; simpl; auto using tval_any. Qed.

  (* ---------------------------------------------------------------- asset *)
  Lemma conf_contributor : forall c, wf_contributor lex c = true -> C rContributor (emit_contributor c) = true.
  Proof.
    intros c H. unfold wf_contributor in H.
    eapply conf_segs with (segs := [([a_author], opt_el (txt a_author) (c_author c));
                                    ([a_authoring_tool], opt_el (txt a_authoring_tool) (c_tool c));
                                    ([a_comments], opt_el (txt a_comments) (c_comments c));
                                    ([a_copyright], opt_el (txt a_copyright) (c_copyright c));
                                    ([a_source_data], opt_el (txt a_source_data) (c_source_data c))]);
      shape.
    segs; try (eapply opt_text_seg; [reflexivity | apply oall_any]).
    eapply opt_text_seg; [reflexivity | assumption].
  Qed.

  Lemma optone_text_seg : forall t r st l,
    rule_of r emit_rules = Some (GRule [] (GText st)) -> tval lex st l = true ->
    seg_ok G C (IOpt [(t, r)]) ([t], [txt t l]) = true.
  Proof.
    intros t r st l Hr Hl. apply seg_opt_one.
    - unfold has_tag. cbn. now rewrite N.eqb_refl.
    - eapply pk with (a := (t, r)); [left; reflexivity | unfold tag_is; cbn; now rewrite N.eqb_refl | eapply conf_text; eauto].
  Qed.

  Lemma conf_unit : forall u, aval_is lex (SLex lx_NMTOKEN) (fst u) = true -> aval_is lex SFloat (snd u) = true ->
    C rUnit (emit_unit u) = true.
  Proof.
    intros u H1 H2. eapply conf_segs with (segs := []); shape. attrs.
  Qed.

  Lemma conf_asset : forall a, wf_asset lex a = true -> C rAsset (emit_asset a) = true.
  Proof.
    intros a H. unfold wf_asset in H. splitb H.
    eapply conf_segs with (segs := [([a_contributor], map emit_contributor (as_contributors a));
                                    ([a_created], [txt a_created (as_created a)]);
                                    ([a_keywords], opt_el (txt a_keywords) (as_keywords a));
                                    ([a_modified], [txt a_modified (as_modified a)]);
                                    ([a_revision], opt_el (txt a_revision) (as_revision a));
                                    ([a_subject], opt_el (txt a_subject) (as_subject a));
                                    ([a_title], opt_el (txt a_title) (as_title a));
                                    ([a_unit], opt_el emit_unit (as_unit a));
                                    ([a_up_axis], [txt a_up_axis (as_upaxis a)])]);
      shape.
    segs; try (eapply opt_text_seg; [reflexivity | apply oall_any]).
      + apply seg_map. intros c Hc. split; [reflexivity|].
        eapply pk with (a := (a_contributor, rContributor)); [left; reflexivity | reflexivity |].
        apply conf_contributor. rewrite forallb_forall in H. auto.
      + eapply one_text_seg; [reflexivity | assumption].
      + eapply one_text_seg; [reflexivity | assumption].
      + apply seg_opt. intros u Hu. rewrite Hu in H1. cbn in H1. apply andb_true_iff in H1 as [U1 U2].
        split; [reflexivity|].
        eapply pk with (a := (a_unit, rUnit)); [left; reflexivity | reflexivity | apply conf_unit; auto].
      + eapply optone_text_seg; [reflexivity | assumption].
  Qed.

  (* ---------------------------------------------------------------- all-singleton bodies *)
  Fixpoint ones_ok (items : list item) (l : list xml) : Prop :=
    match items, l with
    | [], [] => True
    | IOne alts :: rest, x :: r => picked G C alts x = true /\ ones_ok rest r
    | _, _ => False
    end.
  Lemma gmatch_ones : forall items l, ones_ok items l -> gmatch G C items l = true.
  Proof.
    induction items as [|[alts|alts|alts] rest IH]; destruct l as [|x r]; simpl; intros H; try contradiction; auto.
    destruct H as [H1 H2]. unfold picked in H1. destruct (pick G C alts x); try discriminate. auto.
  Qed.
  Lemma conf_ones : forall r x uses items,
    rule_of r emit_rules = Some (GRule uses (GKids items)) ->
    attrs_ok_l lex uses x = true -> text_empty x = true -> ones_ok items (xkids x) -> C r x = true.
  Proof. intros. eapply conf_kids; eauto. now apply gmatch_ones. Qed.

  Lemma picked_text : forall t r st l,
    rule_of r emit_rules = Some (GRule [] (GText st)) -> tval lex st l = true -> picked G C [(t, r)] (txt t l) = true.
  Proof.
    intros. eapply pk with (a := (t, r)); [left; reflexivity | unfold tag_is; cbn; now rewrite N.eqb_refl | eapply conf_text; eauto].
  Qed.

  (* ---------------------------------------------------------------- cameras *)
  Ltac cam_case r :=
    eapply pk with (a := (_, r)); [simpl; tauto | reflexivity |];
    eapply conf_ones; [reflexivity | reflexivity | reflexivity |];
    cbn; repeat split; eapply picked_text; try reflexivity; assumption.

  Lemma conf_camera : forall c, wf_camera lex c = true -> C rCamera (emit_camera c) = true.
  Proof.
    intros [id persp x y asp zn zf] H. unfold wf_camera in H. cbn in H. splitb H.
    eapply conf_ones; [reflexivity | attrs | reflexivity |]. cbn. split; [|exact I].
    eapply pk with (a := (a_optics, rOptics)); [left; reflexivity | reflexivity |].
    eapply conf_ones; [reflexivity | reflexivity | reflexivity |]. cbn. split; [|exact I].
    eapply pk with (a := (a_technique_common, rOpticsTC)); [left; reflexivity | reflexivity |].
    eapply conf_ones; [reflexivity | reflexivity | reflexivity |]. cbn. split; [|exact I].
    destruct persp; destruct x as [x|]; destruct y as [y|]; destruct asp as [asp|]; try discriminate; cbn in *.
    - cam_case rPerspXY.
    - cam_case rPerspXA.
    - cam_case rPerspX.
    - cam_case rPerspYA.
    - cam_case rPerspY.
    - cam_case rOrthoXY.
    - cam_case rOrthoXA.
    - cam_case rOrthoX.
    - cam_case rOrthoYA.
    - cam_case rOrthoY.
  Qed.

  (* ---------------------------------------------------------------- lights, images, materials *)
  Ltac float_opt := eapply opt_text_seg; [reflexivity | assumption].

  Lemma conf_light : forall l, wf_light lex l = true -> C rLight (emit_light l) = true.
  Proof.
    intros [id kind col ca la qa fa fe] H. unfold wf_light in H. cbn in H. splitb H.
    eapply conf_ones; [reflexivity | attrs | reflexivity |]. cbn. split; [|exact I].
    eapply pk with (a := (a_technique_common, rLightTC)); [left; reflexivity | reflexivity |].
    eapply conf_ones; [reflexivity | reflexivity | reflexivity |]. cbn [xkids el ones_ok]. split; [|exact I].
    destruct kind; unfold emit_light_body; cbn [l_kind l_color l_catt l_latt l_qatt l_fang l_fexp].
    - eapply pk with (a := (a_ambient, rAmbient)); [simpl; tauto | reflexivity |].
      eapply conf_ones; [reflexivity | reflexivity | reflexivity |]. cbn. split; [|exact I].
      eapply picked_text; [reflexivity | assumption].
    - eapply pk with (a := (a_directional, rDirectional)); [simpl; tauto | reflexivity |].
      eapply conf_ones; [reflexivity | reflexivity | reflexivity |]. cbn. split; [|exact I].
      eapply picked_text; [reflexivity | assumption].
    - eapply pk with (a := (a_point, rPoint)); [simpl; tauto | reflexivity |].
      eapply conf_segs with (segs := [([a_color], [txt a_color col]);
                                      ([a_constant_attenuation], opt_el (txt a_constant_attenuation) ca);
                                      ([a_linear_attenuation], opt_el (txt a_linear_attenuation) la);
                                      ([a_quadratic_attenuation], opt_el (txt a_quadratic_attenuation) qa)]); shape.
      segs; try float_opt. eapply one_text_seg; [reflexivity | assumption].
    - eapply pk with (a := (a_spot, rSpot)); [simpl; tauto | reflexivity |].
      eapply conf_segs with (segs := [([a_color], [txt a_color col]);
                                      ([a_constant_attenuation], opt_el (txt a_constant_attenuation) ca);
                                      ([a_linear_attenuation], opt_el (txt a_linear_attenuation) la);
                                      ([a_quadratic_attenuation], opt_el (txt a_quadratic_attenuation) qa);
                                      ([a_falloff_angle], opt_el (txt a_falloff_angle) fa);
                                      ([a_falloff_exponent], opt_el (txt a_falloff_exponent) fe)]); shape.
      segs; try float_opt. eapply one_text_seg; [reflexivity | assumption].
  Qed.

  Lemma conf_image : forall i, wf_image lex i = true -> C rImage (emit_image i) = true.
  Proof.
    intros [id path] H. unfold wf_image in H. cbn in H. splitb H.
    eapply conf_ones; [reflexivity | attrs | reflexivity |]. cbn. split; [|exact I].
    eapply picked_text; [reflexivity | assumption].
  Qed.

  Lemma conf_material : forall m, wf_material lex m = true -> C rMaterial (emit_material m) = true.
  Proof.
    intros [id name eff] H. unfold wf_material in H. cbn in H. splitb H.
    eapply conf_ones; [reflexivity | attrs | reflexivity |]. cbn. split; [|exact I].
    eapply pk with (a := (a_instance_effect, rInstEffect)); [left; reflexivity | reflexivity |].
    eapply conf_ones; [reflexivity | attrs | reflexivity | exact I].
  Qed.

  (* ---------------------------------------------------------------- effects *)
  Lemma conf_eparam : forall p, wf_eparam lex p = true ->
    picked G C [(a_newparam, rNewSurface); (a_newparam, rNewSampler)] (emit_eparam p) = true.
  Proof.
    intros [sid img fmt|sid sf mn mg] H; cbn in H; splitb H.
    - eapply pk with (a := (a_newparam, rNewSurface)); [simpl; tauto | reflexivity |].
      eapply conf_ones; [reflexivity | attrs | reflexivity |]. cbn. split; [|exact I].
      eapply pk with (a := (a_surface, rSurface)); [left; reflexivity | reflexivity |].
      eapply conf_segs with (segs := [([a_init_from], [txt a_init_from img]); ([a_format], [txt a_format fmt])]); shape.
      segs; first [eapply one_text_seg; [reflexivity | assumption] | eapply optone_text_seg; [reflexivity | apply tval_any]].
    - eapply pk with (a := (a_newparam, rNewSampler)); [simpl; tauto | reflexivity |].
      eapply conf_ones; [reflexivity | attrs | reflexivity |]. cbn. split; [|exact I].
      eapply pk with (a := (a_sampler2D, rSampler)); [left; reflexivity | reflexivity |].
      eapply conf_segs with (segs := [([a_source], [txt a_source sf]); ([a_minfilter], opt_el (txt a_minfilter) mn);
                                      ([a_magfilter], opt_el (txt a_magfilter) mg)]); shape.
      segs; try (eapply opt_text_seg; [reflexivity | assumption]).
      eapply one_text_seg; [reflexivity | assumption].
  Qed.

  Lemma conf_colour_val : forall v rc rt, colour_ok lex v = true ->
    rule_of rc emit_rules = Some (GRule [] (GText (SList SFloat 4 (Some 4)))) ->
    rule_of rt emit_rules = Some (GRule [req a_texture tNCName; req a_texcoord tNCName] (GKids [])) ->
    picked G C [(a_color, rc); (a_texture, rt)] (emit_pval v) = true.
  Proof.
    intros [l|l|sm tc] rc rt H Hc Ht; cbn in H; try discriminate.
    - eapply pk with (a := (a_color, rc)); [simpl; tauto | reflexivity | eapply conf_text; eauto].
    - splitb H. eapply pk with (a := (a_texture, rt)); [simpl; tauto | reflexivity |].
      eapply conf_ones; [exact Ht | attrs | reflexivity | exact I].
  Qed.

  Lemma colour_seg : forall name o, oall (colour_ok lex) o = true ->
    seg_ok G C (IOpt [(name, rColorOrTex)]) ([name], opt_el (emit_prop name []) o) = true.
  Proof.
    intros name o H. apply seg_opt. intros v ->. cbn in H. split.
    - unfold has_tag. cbn. now rewrite N.eqb_refl.
    - eapply pk with (a := (name, rColorOrTex)); [left; reflexivity | unfold tag_is; cbn; now rewrite N.eqb_refl |].
      eapply conf_ones; [reflexivity | reflexivity | reflexivity |]. cbn. split; [|exact I].
      apply conf_colour_val; auto.
  Qed.

  Lemma transparent_seg : forall (z : bool) o, oall (colour_ok lex) o = true ->
    seg_ok G C (IOpt [(a_transparent, rTransparent)])
           ([a_transparent], opt_el (emit_prop a_transparent (if z then [(a_opaque, AStr a_RGB_ZERO)] else [])) o) = true.
  Proof.
    intros z o H. apply seg_opt. intros v ->. cbn in H. split; [reflexivity|].
    eapply pk with (a := (a_transparent, rTransparent)); [left; reflexivity | reflexivity |].
    eapply conf_ones; [reflexivity | destruct z; attrs | reflexivity |]. cbn. split; [|exact I].
    apply conf_colour_val; auto.
  Qed.

  Lemma float_seg : forall name o, oall (float_ok lex) o = true ->
    seg_ok G C (IOpt [(name, rFloatParam)]) ([name], opt_el (emit_prop name []) o) = true.
  Proof.
    intros name o H. apply seg_opt. intros v ->. cbn in H. split.
    - unfold has_tag. cbn. now rewrite N.eqb_refl.
    - eapply pk with (a := (name, rFloatParam)); [left; reflexivity | unfold tag_is; cbn; now rewrite N.eqb_refl |].
      destruct v as [l|l|sm tc]; cbn in H; try discriminate.
      eapply conf_ones; [reflexivity | reflexivity | reflexivity |]. cbn. split; [|exact I].
      eapply picked_text; [reflexivity | assumption].
  Qed.

  Ltac prop_segs := segs; first [apply colour_seg; assumption | apply float_seg; assumption | apply transparent_seg; assumption].

  Lemma conf_shader : forall e, wf_effect lex e = true ->
    picked G C [(a_phong, rPhong); (a_blinn, rBlinn); (a_lambert, rLambert); (a_constant, rConstant)] (emit_shader e) = true.
  Proof.
    intros [id sid ps sh em am di sp shi rf rfy tr try_ ior z ds] H. unfold wf_effect in H. cbn in H. splitb H.
    unfold emit_shader. cbn [e_shader e_emission e_ambient e_diffuse e_specular e_shininess e_reflective e_reflectivity
                             e_transparent e_transparency e_ior e_rgbzero shader_tag].
    destruct sh; cbn in *;
      repeat match goal with Hn : (_ && _) = true |- _ => apply andb_true_iff in Hn as [? ?] end;
      repeat match goal with Hn : none ?o = true |- _ => destruct o; [discriminate Hn | clear Hn] end; cbn [opt_el app].
    - eapply pk with (a := (a_phong, rPhong)); [simpl; tauto | reflexivity |].
      eapply conf_segs with (segs := [([a_emission], opt_el (emit_prop a_emission []) em); ([a_ambient], opt_el (emit_prop a_ambient []) am);
        ([a_diffuse], opt_el (emit_prop a_diffuse []) di); ([a_specular], opt_el (emit_prop a_specular []) sp);
        ([a_shininess], opt_el (emit_prop a_shininess []) shi); ([a_reflective], opt_el (emit_prop a_reflective []) rf);
        ([a_reflectivity], opt_el (emit_prop a_reflectivity []) rfy);
        ([a_transparent], opt_el (emit_prop a_transparent (if z then [(a_opaque, AStr a_RGB_ZERO)] else [])) tr);
        ([a_transparency], opt_el (emit_prop a_transparency []) try_);
        ([a_index_of_refraction], opt_el (emit_prop a_index_of_refraction []) ior)]); shape.
      prop_segs.
    - eapply pk with (a := (a_lambert, rLambert)); [simpl; tauto | reflexivity |].
      eapply conf_segs with (segs := [([a_emission], opt_el (emit_prop a_emission []) em); ([a_ambient], opt_el (emit_prop a_ambient []) am);
        ([a_diffuse], opt_el (emit_prop a_diffuse []) di); ([a_reflective], opt_el (emit_prop a_reflective []) rf);
        ([a_reflectivity], opt_el (emit_prop a_reflectivity []) rfy);
        ([a_transparent], opt_el (emit_prop a_transparent (if z then [(a_opaque, AStr a_RGB_ZERO)] else [])) tr);
        ([a_transparency], opt_el (emit_prop a_transparency []) try_);
        ([a_index_of_refraction], opt_el (emit_prop a_index_of_refraction []) ior)]); shape.
      prop_segs.
    - eapply pk with (a := (a_blinn, rBlinn)); [simpl; tauto | reflexivity |].
      eapply conf_segs with (segs := [([a_emission], opt_el (emit_prop a_emission []) em); ([a_ambient], opt_el (emit_prop a_ambient []) am);
        ([a_diffuse], opt_el (emit_prop a_diffuse []) di); ([a_specular], opt_el (emit_prop a_specular []) sp);
        ([a_shininess], opt_el (emit_prop a_shininess []) shi); ([a_reflective], opt_el (emit_prop a_reflective []) rf);
        ([a_reflectivity], opt_el (emit_prop a_reflectivity []) rfy);
        ([a_transparent], opt_el (emit_prop a_transparent (if z then [(a_opaque, AStr a_RGB_ZERO)] else [])) tr);
        ([a_transparency], opt_el (emit_prop a_transparency []) try_);
        ([a_index_of_refraction], opt_el (emit_prop a_index_of_refraction []) ior)]); shape.
      prop_segs.
    - eapply pk with (a := (a_constant, rConstant)); [simpl; tauto | reflexivity |].
      eapply conf_segs with (segs := [([a_emission], opt_el (emit_prop a_emission []) em); ([a_reflective], opt_el (emit_prop a_reflective []) rf);
        ([a_reflectivity], opt_el (emit_prop a_reflectivity []) rfy);
        ([a_transparent], opt_el (emit_prop a_transparent (if z then [(a_opaque, AStr a_RGB_ZERO)] else [])) tr);
        ([a_transparency], opt_el (emit_prop a_transparency []) try_);
        ([a_index_of_refraction], opt_el (emit_prop a_index_of_refraction []) ior)]); shape.
      prop_segs.
  Qed.

  Lemma conf_ds_extra : forall profile l, aval_is lex (SLex lx_NMTOKEN) (AStr profile) = true ->
    C rExtra (emit_ds_extra profile l) = true.
  Proof.
    intros profile l H.
    eapply conf_ones; [reflexivity | reflexivity | reflexivity |]. cbn. split; [|exact I].
    eapply pk with (a := (a_technique, rExtraTech)); [left; reflexivity | reflexivity |].
    eapply conf_segs with (segs := [([a_double_sided], [txt a_double_sided l])]); shape.
    attrs.
  Qed.

  Lemma conf_effect : forall e, wf_lex lex = true -> wf_effect lex e = true -> C rEffect (emit_effect e) = true.
  Proof.
    intros e HL H. pose proof (conf_shader e H) as Hsh. unfold wf_lex in HL. splitb HL.
    unfold wf_effect in H. splitb H.
    eapply conf_ones; [reflexivity | attrs | reflexivity |]. cbn [xkids el emit_effect ones_ok]. split; [|exact I].
    eapply pk with (a := (a_profile_COMMON, rProfile)); [left; reflexivity | reflexivity |].
    eapply conf_segs with (segs := [([a_newparam], map emit_eparam (e_params e));
                                    ([a_technique], [el a_technique [(a_sid, e_sid e)] None [emit_shader e]]);
                                    ([a_extra], [emit_ds_extra a_GOOGLEEARTH (e_double_sided e)])]); shape.
    segs.
    - apply seg_map. intros p Hp. split; [destruct p; reflexivity|]. apply conf_eparam.
      match goal with Hf : forallb (wf_eparam lex) _ = true |- _ => rewrite forallb_forall in Hf; auto end.
    - apply seg_one; [reflexivity|].
      eapply pk with (a := (a_technique, rFxTechnique)); [left; reflexivity | reflexivity |].
      eapply conf_ones; [reflexivity | attrs | reflexivity |]. cbn [xkids el ones_ok]. split; [|exact I]. exact Hsh.
    - apply seg_list. intros x [<-|[]]. split; [reflexivity|].
      eapply pk with (a := (a_extra, rExtra)); [left; reflexivity | reflexivity |]. apply conf_ds_extra. assumption.
  Qed.

  (* ---------------------------------------------------------------- sources, primitives, geometry *)
  Lemma conf_text_attrs : forall r x uses st,
    rule_of r emit_rules = Some (GRule uses (GText st)) -> attrs_ok_l lex uses x = true -> no_kids x = true ->
    val_ok lex st (vals_of_text (xtext x)) = true -> C r x = true.
  Proof.
    intros r x uses st Hr Ha Hn Hv. rewrite confh_unfold. change (gg_rules G) with emit_rules. rewrite Hr.
    cbn [gr_body gr_attrs]. now rewrite Ha, Hn, Hv.
  Qed.

  Lemma conf_param : forall ty c, aval_is lex (SLex lx_NMTOKEN) (AStr ty) = true -> is_ncname lex (AStr c) = true ->
    C rParam (El 0%N tns a_param [(a_type, AStr ty); (a_name, AStr c)] None []) = true.
  Proof. intros. eapply conf_text_attrs; [reflexivity | attrs | reflexivity | reflexivity]. Qed.

  Lemma conf_source : forall s, wf_srcm lex s = true ->
    picked G C [(a_source, rSourceF); (a_source, rSourceN); (a_source, rSourceI)] (emit_source s) = true.
  Proof.
    intros [sid aid vals comps arrtag ptype] H. unfold wf_srcm in H. cbn in H.
    apply andb_true_iff in H as [H Hk]. splitb H.
    assert (Htc : picked G C [(a_technique_common, rSourceTC)]
              (El 0%N tns a_technique_common [] None
                 [El 0%N tns a_accessor [(a_count, AInt (zlen vals / zlen comps)); (a_source, ARef true aid); (a_stride, AInt (zlen comps))] None
                    (map (fun c => El 0%N tns a_param [(a_type, AStr ptype); (a_name, AStr c)] None []) comps)]) = true).
    { eapply pk with (a := (a_technique_common, rSourceTC)); [left; reflexivity | reflexivity |].
      eapply conf_ones; [reflexivity | reflexivity | reflexivity |]. cbn [xkids ones_ok]. split; [|exact I].
      eapply pk with (a := (a_accessor, rAccessor)); [left; reflexivity | reflexivity |].
      eapply conf_segs with (segs := [([a_param], map (fun c => El 0%N tns a_param [(a_type, AStr ptype); (a_name, AStr c)] None []) comps)]); shape.
      - attrs.
      - segs. apply seg_map. intros c Hc. split; [reflexivity|].
        eapply pk with (a := (a_param, rParam)); [left; reflexivity | reflexivity |].
        apply conf_param; auto.
        match goal with Hf : forallb _ comps = true |- _ => rewrite forallb_forall in Hf; auto end. }
    unfold emit_source. cbn [sm_id sm_arr_id sm_vals sm_comps sm_arrtag sm_ptype].
    apply orb_true_iff in Hk as [Hk|Hk]; [apply orb_true_iff in Hk as [Hk|Hk]|];
      apply andb_true_iff in Hk as [Ht Hv]; apply N.eqb_eq in Ht; subst arrtag.
    - eapply pk with (a := (a_source, rSourceF)); [simpl; tauto | reflexivity |].
      eapply conf_ones; [reflexivity | attrs | reflexivity |]. cbn [xkids ones_ok]. split; [|split; [exact Htc | exact I]].
      eapply pk with (a := (a_float_array, rFloatArray)); [left; reflexivity | reflexivity |].
      eapply conf_text_attrs; [reflexivity | attrs | reflexivity | exact Hv].
    - eapply pk with (a := (a_source, rSourceN)); [simpl; tauto | reflexivity |].
      eapply conf_ones; [reflexivity | attrs | reflexivity |]. cbn [xkids ones_ok]. split; [|split; [exact Htc | exact I]].
      eapply pk with (a := (a_Name_array, rNameArray)); [left; reflexivity | reflexivity |].
      eapply conf_text_attrs; [reflexivity | attrs | reflexivity | exact Hv].
    - eapply pk with (a := (a_source, rSourceI)); [simpl; tauto | reflexivity |].
      eapply conf_ones; [reflexivity | attrs | reflexivity |]. cbn [xkids ones_ok]. split; [|split; [exact Htc | exact I]].
      eapply pk with (a := (a_IDREF_array, rIdrefArray)); [left; reflexivity | reflexivity |].
      eapply conf_text_attrs; [reflexivity | attrs | reflexivity | exact Hv].
  Qed.

  Lemma conf_input : forall i, wf_inpm lex i = true ->
    has_tag [a_input] (emit_input i) = true /\ picked G C [(a_input, rInputP)] (emit_input i) = true.
  Proof.
    intros [off sem src st] H. unfold wf_inpm in H. cbn in H. splitb H. split; [reflexivity|].
    eapply pk with (a := (a_input, rInputP)); [left; reflexivity | reflexivity |].
    unfold emit_input. cbn [im_offset im_sem im_src im_set].
    destruct st as [sv|]; cbn [app oall] in *; (eapply conf_ones; [reflexivity | attrs | reflexivity | exact I]).
  Qed.

  Lemma uints_seg : forall t l, tval lex (SList tUIntT 0 None) l = true ->
    has_tag [t] (El 0%N tns t [] (Some l) []) = true /\ picked G C [(t, rUInts)] (El 0%N tns t [] (Some l) []) = true.
  Proof.
    intros t l H. split; [unfold has_tag; cbn; now rewrite N.eqb_refl|].
    eapply pk with (a := (t, rUInts)); [left; reflexivity | unfold tag_is; cbn; now rewrite N.eqb_refl |].
    eapply conf_text_attrs; [reflexivity | reflexivity | reflexivity | exact H].
  Qed.

  Definition prim_alts := [(a_triangles, rPrimP); (a_lines, rLines); (a_polylist, rPolylist); (a_polygons, rPolygons)].
  Definition prim_tags := [a_triangles; a_lines; a_polylist; a_polygons].

  Lemma conf_prim : forall p, wf_primm lex p = true ->
    has_tag prim_tags (emit_prim p) = true /\ picked G C prim_alts (emit_prim p) = true.
  Proof.
    intros [kind ins idx mat] H. unfold wf_primm in H. cbn [pm_inputs pm_material pm_index pm_kind] in H.
    apply andb_true_iff in H as [H Hvc]. splitb H.
    assert (Hins : seg_ok G C (IStar [(a_input, rInputP)]) ([a_input], map emit_input ins) = true).
    { apply seg_map. intros i Hi. apply conf_input.
      match goal with Hf : forallb (wf_inpm lex) ins = true |- _ => rewrite forallb_forall in Hf; auto end. }
    assert (Hmat : forall c, is_uint lex (AInt c) = true ->
              attrs_ok_l lex [req a_count tUInt; opt a_material tNCName]
                (El 0%N tns a_triangles ((a_count, AInt c) :: mat_attr (PrimM kind ins idx mat)) None []) = true).
    { intros c Hc. unfold mat_attr. cbn [pm_material]. destruct mat as [mv|]; cbn [oall] in *; attrs. }
    unfold emit_prim, prim_count in *. cbn [pm_kind pm_inputs pm_index pm_material] in *.
    destruct kind as [| |vcs|].
    - split; [reflexivity|]. eapply pk with (a := (a_triangles, rPrimP)); [simpl; tauto | reflexivity |].
      eapply conf_segs with (segs := [([a_input], map emit_input ins); ([a_p], [p_el (Bookkeeping.flat (PrimM KTriangles ins idx mat))])]); shape.
      + apply Hmat; assumption.
      + segs; [exact Hins|]. apply seg_opt_one; apply uints_seg; assumption.
    - split; [reflexivity|]. eapply pk with (a := (a_lines, rLines)); [simpl; tauto | reflexivity |].
      eapply conf_segs with (segs := [([a_input], map emit_input ins); ([a_p], [p_el (Bookkeeping.flat (PrimM KLines ins idx mat))])]); shape.
      + apply Hmat; assumption.
      + segs; [exact Hins|]. apply seg_opt_one; apply uints_seg; assumption.
    - split; [reflexivity|]. eapply pk with (a := (a_polylist, rPolylist)); [simpl; tauto | reflexivity |].
      eapply conf_segs with (segs := [([a_input], map emit_input ins);
                                      ([a_vcount], [El 0%N tns a_vcount [] (Some (map TInt vcs)) []]);
                                      ([a_p], [p_el (Bookkeeping.flat (PrimM (KPolylist vcs) ins idx mat))])]); shape.
      + apply Hmat; assumption.
      + segs; [exact Hins | |]; apply seg_opt_one; apply uints_seg; assumption.
    - split; [reflexivity|]. eapply pk with (a := (a_polygons, rPolygons)); [simpl; tauto | reflexivity |].
      eapply conf_segs with (segs := [([a_input], map emit_input ins); ([a_p], map p_el idx)]); shape.
      + apply Hmat; assumption.
      + segs; [exact Hins|]. apply seg_map. intros l Hl. apply uints_seg.
        match goal with Hf : forallb _ idx = true |- _ => rewrite forallb_forall in Hf; auto end.
  Qed.

  Lemma conf_vertices : forall vid vref, is_ncname lex (AStr vid) = true -> aval_is lex SFragment (ARef true vref) = true ->
    wf_lex lex = true -> picked G C [(a_vertices, rVertices)] (emit_vertices vid vref) = true.
  Proof.
    intros vid vref H1 H2 HL. unfold wf_lex in HL. splitb HL.
    eapply pk with (a := (a_vertices, rVertices)); [left; reflexivity | reflexivity |].
    eapply conf_segs with (segs := [([a_input], [el a_input [(a_semantic, AStr a_POSITION); (a_source, ARef true vref)] None []]);
                                    ([a_input], [])]); shape.
    - attrs.
    - segs. apply seg_one; [reflexivity|].
      eapply pk with (a := (a_input, rInputV)); [left; reflexivity | reflexivity |].
      eapply conf_ones; [reflexivity | attrs | reflexivity | exact I].
  Qed.

  Lemma conf_geometry : forall g, wf_lex lex = true -> wf_geometry lex g = true -> C rGeometry (emit_geometry g) = true.
  Proof.
    intros [id name s0 srcs vid vref prims ds] HL H. unfold wf_geometry in H.
    cbn [g_id g_name g_src0 g_sources g_vid g_vref g_prims g_ds] in H. splitb H.
    pose proof HL as HL'. unfold wf_lex in HL'. splitb HL'.
    unfold emit_geometry. cbn [g_id g_name g_src0 g_sources g_vid g_vref g_prims g_ds].
    eapply conf_segs with (segs := [([a_mesh], [el a_mesh [] None
            ([emit_source s0] ++ map emit_source srcs ++ [emit_vertices vid vref] ++
             map (fun p => emit_prim (redirect_prim vid vref p)) prims)]);
            ([a_extra], if ds then [emit_ds_extra a_GOOGLEEARTH [TInt 1%Z]] else [])]); shape.
    - destruct name as [nv|]; cbn [opt_at oall] in *; attrs.
    - segs.
      + apply seg_one; [reflexivity|].
        eapply pk with (a := (a_mesh, rMesh)); [left; reflexivity | reflexivity |].
        eapply conf_segs with (segs := [([a_source], [emit_source s0]); ([a_source], map emit_source srcs);
                                        ([a_vertices], [emit_vertices vid vref]);
                                        (prim_tags, map (fun p => emit_prim (redirect_prim vid vref p)) prims)]); shape.
        segs.
        * apply seg_one; [reflexivity | apply conf_source; assumption].
        * apply seg_map. intros s Hs. split; [reflexivity|]. apply conf_source.
          match goal with Hf : forallb (wf_srcm lex) srcs = true |- _ => rewrite forallb_forall in Hf; auto end.
        * apply seg_one; [reflexivity | apply conf_vertices; assumption].
        * apply seg_map. intros p Hp. apply conf_prim.
          match goal with Hf : forallb _ prims = true |- _ => rewrite forallb_forall in Hf; exact (Hf p Hp) end.
      + apply seg_list. intros x Hx. destruct ds; [|contradiction]. destruct Hx as [<-|[]]. split; [reflexivity|].
        eapply pk with (a := (a_extra, rExtra)); [left; reflexivity | reflexivity |]. apply conf_ds_extra. assumption.
  Qed.

  (* ---------------------------------------------------------------- scene graph *)
  Lemma conf_url : forall t u, ref_ok lex u = true -> C rInstanceURL (emit_url t u) = true.
  Proof. intros. eapply conf_ones; [reflexivity | attrs | reflexivity | exact I]. Qed.

  Lemma conf_transform : forall t, wf_transform lex t = true ->
    has_tag [a_lookat; a_matrix; a_rotate; a_scale; a_translate] (emit_transform t) = true /\
    picked G C [(a_lookat, rFloats9); (a_matrix, rFloats16); (a_rotate, rFloats4); (a_scale, rFloats3); (a_translate, rFloats3)]
           (emit_transform t) = true.
  Proof.
    intros [k l] H. unfold wf_transform in H. cbn in H. unfold emit_transform. cbn [fst snd].
    destruct k; (split; [reflexivity|]).
    - eapply pk with (a := (a_lookat, rFloats9)); [simpl; tauto | reflexivity | eapply conf_text; [reflexivity | exact H]].
    - eapply pk with (a := (a_matrix, rFloats16)); [simpl; tauto | reflexivity | eapply conf_text; [reflexivity | exact H]].
    - eapply pk with (a := (a_rotate, rFloats4)); [simpl; tauto | reflexivity | eapply conf_text; [reflexivity | exact H]].
    - eapply pk with (a := (a_scale, rFloats3)); [simpl; tauto | reflexivity | eapply conf_text; [reflexivity | exact H]].
    - eapply pk with (a := (a_translate, rFloats3)); [simpl; tauto | reflexivity | eapply conf_text; [reflexivity | exact H]].
  Qed.

  Lemma conf_matnode : forall m, wf_matnode lex m = true -> C rInstMat (emit_matnode m) = true.
  Proof.
    intros [sym tgt ins] H. unfold wf_matnode in H. cbn in H. splitb H.
    eapply conf_segs with (segs := [([a_bind_vertex_input], map emit_bvi ins)]); shape.
    - attrs.
    - segs. apply seg_map. intros [bs bi bset] Hb. split; [reflexivity|].
      eapply pk with (a := (a_bind_vertex_input, rBindVI)); [left; reflexivity | reflexivity |].
      match goal with Hf : forallb (wf_bvi lex) ins = true |- _ => rewrite forallb_forall in Hf; specialize (Hf _ Hb) end.
      unfold wf_bvi in *. cbn [b_sem b_isem b_set] in *. unfold emit_bvi. cbn [b_sem b_isem b_set].
      match goal with Hf : _ && _ = true |- _ => splitb Hf end.
      destruct bset as [sv|]; cbn [opt_at app oall] in *; (eapply conf_ones; [reflexivity | attrs | reflexivity | exact I]).
  Qed.

  Section SnodeInd.
    Variable P : snode -> Prop.
    Hypothesis Hn : forall id name ts kids, Forall P kids -> P (SNode id name ts kids).
    Hypothesis Hc : forall u, P (SCamera u).
    Hypothesis Hg : forall u m, P (SGeometry u m).
    Hypothesis Hl : forall u, P (SLight u).
    Hypothesis Hi : forall u, P (SInst u).
    Hypothesis He : P SExtra.
    Fixpoint snode_ind' (n : snode) : P n :=
      match n with
      | SNode id name ts kids =>
          Hn id name ts kids ((fix go (l : list snode) : Forall P l :=
                                 match l with [] => Forall_nil P | c :: r => Forall_cons c (snode_ind' c) (go r) end) kids)
      | SCamera u => Hc u | SGeometry u m => Hg u m | SLight u => Hl u | SInst u => Hi u | SExtra => He
      end.
  End SnodeInd.

  Definition kid_alt (n : snode) : atom * N :=
    match n with
    | SCamera _ => (a_instance_camera, rInstanceURL) | SGeometry _ _ => (a_instance_geometry, rInstGeom)
    | SLight _ => (a_instance_light, rInstanceURL) | SInst _ => (a_instance_node, rInstanceURL)
    | SNode _ _ _ _ => (a_node, rNode) | SExtra => (a_extra, rExtra)
    end.
  Definition kid_fact (n : snode) : Prop :=
    tag_is G (fst (kid_alt n)) (emit_snode n) = true /\ C (snd (kid_alt n)) (emit_snode n) = true.

  Definition F (i : nat) (l : list snode) : list snode := filter (fun x => Nat.eqb (rank x) i) l.

  Lemma sorted_tail : forall a l, sortedb (a :: l) = true -> sortedb l = true.
  Proof. intros a [|b l] H; auto. simpl in H. apply andb_true_iff in H as [_ H]. exact H. Qed.

  Lemma sorted_head_min : forall l a, sortedb (a :: l) = true -> forall x, In x l -> rank a <= rank x.
  Proof.
    induction l as [|b l IH]; intros a H x Hx; [contradiction|].
    simpl in H. apply andb_true_iff in H as [H1 H2]. apply Nat.leb_le in H1.
    destruct Hx as [->|Hx]; auto. specialize (IH b H2 x Hx). lia.
  Qed.

  Lemma filter_nil : forall (f : snode -> bool) l, (forall x, In x l -> f x = false) -> filter f l = [].
  Proof. induction l as [|a l IH]; simpl; intros H; auto. rewrite (H a (or_introl eq_refl)). apply IH. auto. Qed.

  Lemma F_nil : forall i r l, (forall x, In x l -> r <= rank x) -> i < r -> F i l = [].
  Proof.
    intros i r l H Hi. apply filter_nil. intros x Hx. specialize (H x Hx). apply Nat.eqb_neq. lia.
  Qed.

  Lemma sorted_split6 : forall l, sortedb l = true -> l = F 0 l ++ F 1 l ++ F 2 l ++ F 3 l ++ F 4 l ++ F 5 l.
  Proof.
    induction l as [|a l IH]; intros Hs; [reflexivity|].
    pose proof (sorted_head_min l a Hs) as Hmin. specialize (IH (sorted_tail _ _ Hs)).
    destruct a; unfold F at 1 2 3 4 5 6; cbn [filter rank Nat.eqb]; fold (F 0 l) (F 1 l) (F 2 l) (F 3 l) (F 4 l) (F 5 l);
      cbn [rank] in Hmin;
      rewrite ?(F_nil 0 _ l Hmin), ?(F_nil 1 _ l Hmin), ?(F_nil 2 _ l Hmin), ?(F_nil 3 _ l Hmin), ?(F_nil 4 _ l Hmin) by lia;
      cbn [app]; f_equal;
      rewrite IH at 1;
      rewrite ?(F_nil 0 _ l Hmin), ?(F_nil 1 _ l Hmin), ?(F_nil 2 _ l Hmin), ?(F_nil 3 _ l Hmin), ?(F_nil 4 _ l Hmin) by lia;
      reflexivity.
  Qed.

  Lemma all_wf : forall kids,
    (fix all (l : list snode) : bool := match l with [] => true | c :: r => wf_snode lex c && all r end) kids = true ->
    forall x, In x kids -> wf_snode lex x = true.
  Proof.
    induction kids as [|c r IH]; intros H x Hx; [contradiction|].
    apply andb_true_iff in H as [H1 H2]. destruct Hx as [->|Hx]; auto.
  Qed.

  Ltac rank_seg i Hkids HP :=
    apply seg_map; intros x Hx; apply filter_In in Hx as [Hin Hr];
    let Hf := fresh "Hf" in
    pose proof (HP x Hin (Hkids x Hin)) as Hf; destruct Hf as [Hf1 Hf2];
    destruct x; cbn [rank] in Hr; try discriminate Hr;
    (split; [reflexivity |
             match goal with |- picked _ _ _ (emit_snode ?n) = true =>
               eapply pk with (a := kid_alt n); [left; reflexivity | exact Hf1 | exact Hf2] end]).

  Lemma conf_snode : wf_lex lex = true -> forall n, wf_snode lex n = true -> kid_fact n.
  Proof.
    intros HL. pose proof HL as HL'. unfold wf_lex in HL'. splitb HL'.
    apply (snode_ind' (fun n => wf_snode lex n = true -> kid_fact n)).
    - intros id name ts kids IH H. cbn [wf_snode] in H. apply andb_true_iff in H as [H Hall].
      splitb H. pose proof (all_wf kids Hall) as Hkids. rewrite Forall_forall in IH.
      assert (Hs : sortedb kids = true) by assumption.
      split; [reflexivity|]. cbn [kid_alt snd emit_snode].
      eapply conf_segs with (segs := [([a_lookat; a_matrix; a_rotate; a_scale; a_translate], map emit_transform ts);
                                      ([a_instance_camera], map emit_snode (F 0 kids));
                                      ([a_instance_geometry], map emit_snode (F 1 kids));
                                      ([a_instance_light], map emit_snode (F 2 kids));
                                      ([a_instance_node], map emit_snode (F 3 kids));
                                      ([a_node], map emit_snode (F 4 kids));
                                      ([a_extra], map emit_snode (F 5 kids))]); shape.
      + attrs.
      + cbn [xkids el]. rewrite (sorted_split6 kids Hs) at 1. rewrite !map_app.
        unfold flat. cbn [concat map snd]. rewrite app_nil_r. reflexivity.
      + segs.
        * apply seg_map. intros t Ht. apply conf_transform.
          match goal with Hf : forallb (wf_transform lex) ts = true |- _ => rewrite forallb_forall in Hf; auto end.
        * rank_seg 0 Hkids IH.
        * rank_seg 1 Hkids IH.
        * rank_seg 2 Hkids IH.
        * rank_seg 3 Hkids IH.
        * rank_seg 4 Hkids IH.
        * rank_seg 5 Hkids IH.
    - intros u H. cbn in H. split; [reflexivity | apply conf_url; assumption].
    - intros u mats H. cbn [wf_snode] in H. splitb H. split; [reflexivity|]. cbn [kid_alt snd emit_snode].
      destruct mats as [|m ms].
      + eapply conf_segs with (segs := [([a_bind_material], [])]); shape. attrs.
      + eapply conf_segs with (segs := [([a_bind_material],
            [el a_bind_material [] None [el a_technique_common [] None (map emit_matnode (m :: ms))]])]); shape.
        * attrs.
        * segs. apply seg_opt_one; [reflexivity|].
          eapply pk with (a := (a_bind_material, rBindMat)); [left; reflexivity | reflexivity |].
          eapply conf_ones; [reflexivity | reflexivity | reflexivity |]. cbn [xkids el ones_ok]. split; [|exact I].
          eapply pk with (a := (a_technique_common, rBindTC)); [left; reflexivity | reflexivity |].
          match goal with Hf : forallb (wf_matnode lex) _ = true |- _ => rewrite forallb_forall in Hf; rename Hf into Hm end.
          eapply conf_segs with (segs := [([a_instance_material], [emit_matnode m]); ([a_instance_material], map emit_matnode ms)]); shape.
          segs.
          -- apply seg_one; [reflexivity|].
             eapply pk with (a := (a_instance_material, rInstMat)); [left; reflexivity | reflexivity |].
             apply conf_matnode. apply Hm. left; reflexivity.
          -- apply seg_map. intros m' Hm'. split; [reflexivity|].
             eapply pk with (a := (a_instance_material, rInstMat)); [left; reflexivity | reflexivity |].
             apply conf_matnode. apply Hm. right; assumption.
    - intros u H. cbn in H. split; [reflexivity | apply conf_url; assumption].
    - intros u H. cbn in H. split; [reflexivity | apply conf_url; assumption].
    - intros _. split; [reflexivity | apply conf_ds_extra; assumption].
  Qed.

  Lemma conf_node_top : wf_lex lex = true -> forall n, is_node n && wf_snode lex n = true ->
    has_tag [a_node] (emit_snode n) = true /\ picked G C [(a_node, rNode)] (emit_snode n) = true.
  Proof.
    intros HL n H. apply andb_true_iff in H as [Hn Hw]. destruct n; try discriminate.
    destruct (conf_snode HL _ Hw) as [F1 F2]. split; [reflexivity|].
    eapply pk with (a := (a_node, rNode)); [left; reflexivity | exact F1 | exact F2].
  Qed.

  Lemma conf_vscene : wf_lex lex = true -> forall s, wf_vscene lex s = true -> C rVisualScene (emit_vscene s) = true.
  Proof.
    intros HL [id n0 ns] H. unfold wf_vscene in H. cbn [sc_id sc_node0 sc_nodes] in H. splitb H.
    match goal with Hf : forallb _ (n0 :: ns) = true |- _ => rewrite forallb_forall in Hf; rename Hf into Hn end.
    eapply conf_segs with (segs := [([a_node], [emit_snode n0]); ([a_node], map emit_snode ns)]); shape.
    - attrs.
    - segs.
      + destruct (conf_node_top HL n0 (Hn n0 (or_introl eq_refl))). apply seg_one; assumption.
      + apply seg_map. intros n Hin. apply (conf_node_top HL). apply Hn. right; assumption.
  Qed.

  (* a library: present only when it has members *)
  Lemma conf_lib : forall A (f : A -> xml) tl rl t r l,
    rule_of rl emit_rules = Some (GRule idname (GKids [one t r; star t r])) ->
    (forall v, In v l -> has_tag [t] (f v) = true /\ picked G C [(t, r)] (f v) = true) ->
    forall x, In x (emit_lib tl (map f l)) -> xtag x = tl /\ xns x = tns /\ C rl x = true.
  Proof.
    intros A f tl rl t r [|a l] Hr Hf x Hx; [contradiction|]. destruct Hx as [<-|[]].
    split; [reflexivity | split; [reflexivity|]].
    eapply conf_segs with (segs := [([t], [f a]); ([t], map f l)]);
      [exact Hr | reflexivity | reflexivity | unfold flat; cbn [xkids el map concat snd app]; now rewrite app_nil_r | | ].
    - reflexivity.
    - segs.
      + destruct (Hf a (or_introl eq_refl)). apply seg_one; assumption.
      + apply seg_map. intros v Hv. apply Hf. right; assumption.
  Qed.

  Definition lib_alts := [(a_library_cameras, rLibCameras); (a_library_effects, rLibEffects);
                          (a_library_geometries, rLibGeometries); (a_library_images, rLibImages);
                          (a_library_lights, rLibLights); (a_library_materials, rLibMaterials);
                          (a_library_nodes, rLibNodes); (a_library_visual_scenes, rLibScenes)].
  Definition lib_tags := map fst lib_alts.

  Lemma lib_picked : forall tl rl x, In (tl, rl) lib_alts -> xtag x = tl /\ xns x = tns /\ C rl x = true ->
    has_tag lib_tags x = true /\ picked G C lib_alts x = true.
  Proof.
    intros tl rl x Hin [Ht [Hn Hc]]. split.
    - unfold has_tag. rewrite Ht. apply existsb_exists. exists tl. split; [|apply N.eqb_refl].
      unfold lib_tags. apply in_map_iff. exists (tl, rl). auto.
    - eapply pk with (a := (tl, rl)); [exact Hin | | exact Hc].
      unfold tag_is. cbn [fst]. rewrite Hn, Ht. change (gg_ns G) with tns. now rewrite !N.eqb_refl.
  Qed.

  Ltac tagpick t r Hc := split; [reflexivity | eapply pk with (a := (t, r)); [left; reflexivity | reflexivity | apply Hc]].

  Theorem emit_conforms_content : forall d, wf_content lex d = true -> conforms emit_grammar lex (emit d) = true.
  Proof.
    intros d H. unfold wf_content in H. splitb H.
    assert (HL : wf_lex lex = true) by assumption.
    repeat match goal with Hf : forallb _ _ = true |- _ => rewrite forallb_forall in Hf end.
    rewrite conforms_confh. change (N.eqb (xns (emit d)) (gg_ns G) && N.eqb (xtag (emit d)) (gg_root G)) with true.
    cbn [andb]. change (gg_rootrule G) with rCOLLADA.
    eapply conf_segs with (segs := [([a_asset], [emit_asset (d_asset d)]); (lib_tags, emit_libs d);
                                    ([a_scene], [el a_scene [] None (opt_el (emit_url a_instance_visual_scene) (d_scene d))])]); shape.
    segs.
      + apply seg_one; [reflexivity|].
        eapply pk with (a := (a_asset, rAsset)); [left; reflexivity | reflexivity | apply conf_asset; assumption].
      + apply seg_list. intros x Hx. unfold emit_libs in Hx.
        repeat (apply in_app_or in Hx; destruct Hx as [Hx|Hx]).
        * eapply lib_picked with (rl := rLibCameras); [|eapply conf_lib with (rl := rLibCameras) (t := a_camera) (r := rCamera); [reflexivity | | exact Hx]]; [simpl; tauto|].
          intros v Hv. tagpick a_camera rCamera conf_camera. auto.
        * eapply lib_picked with (rl := rLibEffects); [|eapply conf_lib with (rl := rLibEffects) (t := a_effect) (r := rEffect); [reflexivity | | exact Hx]]; [simpl; tauto|].
          intros v Hv. tagpick a_effect rEffect conf_effect; auto.
        * eapply lib_picked with (rl := rLibGeometries); [|eapply conf_lib with (rl := rLibGeometries) (t := a_geometry) (r := rGeometry); [reflexivity | | exact Hx]]; [simpl; tauto|].
          intros v Hv. tagpick a_geometry rGeometry conf_geometry; auto.
        * eapply lib_picked with (rl := rLibImages); [|eapply conf_lib with (rl := rLibImages) (t := a_image) (r := rImage); [reflexivity | | exact Hx]]; [simpl; tauto|].
          intros v Hv. tagpick a_image rImage conf_image. auto.
        * eapply lib_picked with (rl := rLibLights); [|eapply conf_lib with (rl := rLibLights) (t := a_light) (r := rLight); [reflexivity | | exact Hx]]; [simpl; tauto|].
          intros v Hv. tagpick a_light rLight conf_light. auto.
        * eapply lib_picked with (rl := rLibMaterials); [|eapply conf_lib with (rl := rLibMaterials) (t := a_material) (r := rMaterial); [reflexivity | | exact Hx]]; [simpl; tauto|].
          intros v Hv. tagpick a_material rMaterial conf_material. auto.
        * eapply lib_picked with (rl := rLibNodes); [|eapply conf_lib with (rl := rLibNodes) (t := a_node) (r := rNode); [reflexivity | | exact Hx]]; [simpl; tauto|].
          intros v Hv. apply (conf_node_top HL). auto.
        * eapply lib_picked with (rl := rLibScenes); [|eapply conf_lib with (rl := rLibScenes) (t := a_visual_scene) (r := rVisualScene); [reflexivity | | exact Hx]]; [simpl; tauto|].
          intros v Hv. tagpick a_visual_scene rVisualScene (conf_vscene HL). auto.
      + apply seg_opt_one; [reflexivity|].
        eapply pk with (a := (a_scene, rScene)); [left; reflexivity | reflexivity |].
        eapply conf_segs with (segs := [([a_instance_visual_scene], opt_el (emit_url a_instance_visual_scene) (d_scene d))]); shape.
        segs. apply seg_opt. intros u Hu. split; [reflexivity|].
        eapply pk with (a := (a_instance_visual_scene, rInstanceURL)); [left; reflexivity | reflexivity |].
        apply conf_url. match goal with Hs : oall (ref_ok lex) (d_scene d) = true |- _ => rewrite Hu in Hs; exact Hs end.
  Qed.
End Conf.
