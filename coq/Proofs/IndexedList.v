From Coq Require Import List Bool ZArith NArith Lia.
From PC Require Import Base.Outcome Base.Py Base.IlProg Gen.IndexedList Model.IndexedList.
Import ListNotations.

Lemma iget_iset d k v k' :
  iget (iset d k v) k' = if N.eqb k' k then Some v else iget d k'.
Proof.
  unfold iget, iset. induction d as [|[k0 v0] d IH]; simpl.
  - reflexivity.
  - destruct (N.eqb k k0) eqn:Hk.
    + apply N.eqb_eq in Hk. subst k0. simpl.
      destruct (N.eqb k' k); reflexivity.
    + simpl. destruct (N.eqb k' k0) eqn:Hk'.
      * apply N.eqb_eq in Hk'. subst k0.
        destruct (N.eqb k' k) eqn:E; [|reflexivity].
        apply N.eqb_eq in E. subst. rewrite N.eqb_refl in Hk. discriminate.
      * exact IH.
Qed.

Lemma iget_fold_addindex xs : forall d a,
  iget (fold_left addindex xs d) a =
  match spec_lookup xs a with Some u => Some u | None => iget d a end.
Proof.
  induction xs as [|x xs IH]; intros d a; simpl.
  - reflexivity.
  - rewrite IH. destruct (spec_lookup xs a); [reflexivity|].
    unfold addindex. rewrite iget_iset. destruct (N.eqb a (oid x)); reflexivity.
Qed.

Lemma iget_reindex l a : iget (reindex l) a = spec_lookup l a.
Proof.
  unfold reindex. rewrite iget_fold_addindex. destruct (spec_lookup l a); reflexivity.
Qed.

Lemma spec_lookup_app l xs a :
  spec_lookup (l ++ xs) a =
  match spec_lookup xs a with Some u => Some u | None => spec_lookup l a end.
Proof.
  induction l as [|x l IH]; simpl.
  - destruct (spec_lookup xs a); reflexivity.
  - rewrite IH. destruct (spec_lookup xs a); reflexivity.
Qed.

Lemma Inv_of_list l : Inv (of_list l).
Proof. intro a. simpl. apply iget_reindex. Qed.

Lemma Inv_init : Inv init.
Proof. intro a. reflexivity. Qed.

Lemma position_spec s k : Inv s -> position s k = spec_position (items s) k.
Proof.
  intros H. destruct k as [z|a|o]; simpl; try reflexivity.
  rewrite (H a). reflexivity.
Qed.

(* one step keeps the invariant *)
Lemma step_ref_inv s o : Inv s -> Inv (fst (step_ref s o)).
Proof.
  intros H. destruct o as [x|xs|xs|k x|k x|k|k|k| |xs| | | | ]; simpl.
  - intro a. simpl. unfold addindex. rewrite iget_iset, spec_lookup_app. simpl.
    rewrite (H a). destruct (N.eqb a (oid x)); reflexivity.
  - intro a. simpl. rewrite iget_fold_addindex, spec_lookup_app, (H a). reflexivity.
  - intro a. simpl. rewrite iget_fold_addindex, spec_lookup_app, (H a). reflexivity.
  - destruct (position s k); simpl; [|exact H]. intro b. apply iget_reindex.
  - destruct (position s k); simpl; [|exact H].
    destruct (norm_index _ _); simpl; [|exact H]. intro b. apply iget_reindex.
  - destruct (position s k); simpl; [|exact H].
    destruct (norm_index _ _); simpl; [|exact H]. intro b. apply iget_reindex.
  - destruct (position s _); simpl; [|exact H].
    destruct (norm_index _ _); simpl; [|exact H].
    destruct (nth_error _ _); simpl; [|exact H]. intro b. apply iget_reindex.
  - destruct (match k with KInt _ => None | KId a => iget (index s) a | KObj x => Some (ouid x) end);
      simpl; [|exact H].
    destruct (pos_of_uid _ _); simpl; [|exact H]. intro b. apply iget_reindex.
  - intro a. reflexivity.
  - apply Inv_of_list.
  - intro b. apply iget_reindex.
  - exact H.
  - intro b. simpl. rewrite iget_fold_addindex, spec_lookup_app, (H b). reflexivity.
  - apply Inv_of_list.
Qed.

(* the list component behaves as a plain list and the same outcome is reported *)
Lemma step_ref_refines_list s o :
  Inv s -> items (fst (step_ref s o)) = fst (list_step (items s) o)
           /\ snd (step_ref s o) = snd (list_step (items s) o).
Proof.
  intros H. destruct o as [x|xs|xs|k x|k x|k|k|k| |xs| | | | ]; simpl; try (split; reflexivity).
  - rewrite (position_spec s k H). destruct (spec_position _ _); simpl; split; reflexivity.
  - rewrite (position_spec s k H). destruct (spec_position _ _); simpl; [|split; reflexivity].
    destruct (norm_index _ _); simpl; split; reflexivity.
  - rewrite (position_spec s k H). destruct (spec_position _ _); simpl; [|split; reflexivity].
    destruct (norm_index _ _); simpl; split; reflexivity.
  - rewrite (position_spec s _ H). destruct (spec_position _ _); simpl; [|split; reflexivity].
    destruct (norm_index _ _); simpl; [|split; reflexivity].
    destruct (nth_error _ _); simpl; split; reflexivity.
  - assert (E : match k with KInt _ => None | KId a => iget (index s) a | KObj x => Some (ouid x) end
              = match k with KInt _ => None | KId a => spec_lookup (items s) a | KObj x => Some (ouid x) end).
    { destruct k; try reflexivity. apply H. }
    rewrite E. destruct (match k with KInt _ => None | KId a => spec_lookup (items s) a | KObj x => Some (ouid x) end);
      simpl; [|split; reflexivity].
    destruct (pos_of_uid _ _); simpl; split; reflexivity.
Qed.

(* an operation that raises leaves list and dict exactly as they were *)
Lemma step_ref_failed_noop s o e : snd (step_ref s o) = Raise e -> fst (step_ref s o) = s.
Proof.
  destruct o as [x|xs|xs|k x|k x|k|k|k| |xs| | | | ]; simpl; try discriminate.
  - destruct (position s k); simpl; [discriminate|reflexivity].
  - destruct (position s k); simpl; [|reflexivity].
    destruct (norm_index _ _); simpl; [discriminate|reflexivity].
  - destruct (position s k); simpl; [|reflexivity].
    destruct (norm_index _ _); simpl; [discriminate|reflexivity].
  - destruct (position s _); simpl; [|reflexivity].
    destruct (norm_index _ _); simpl; [|reflexivity].
    destruct (nth_error _ _); simpl; [discriminate|reflexivity].
  - destruct (match k with KInt _ => None | KId a => iget (index s) a | KObj x => Some (ouid x) end);
      simpl; [|reflexivity].
    destruct (pos_of_uid _ _); simpl; [discriminate|reflexivity].
  - intros _. reflexivity.
Qed.

(* ------------------------------------------------------------------------- *)
(* the interpreter of the generated programs computes the hand-written reading *)

Lemma find_index_bound {A} (p : A -> bool) l : forall n, find_index p l = Some n -> (n < length l)%nat.
Proof.
  induction l as [|x l IH]; intros n H; simpl in H; [discriminate|].
  destruct (p x).
  - injection H as <-. simpl. lia.
  - destruct (find_index p l) as [m|]; simpl in H; [|discriminate].
    injection H as <-. simpl. specialize (IH m eq_refl). lia.
Qed.

Lemma norm_index_of_nat len n : (n < len)%nat -> norm_index len (Z.of_nat n) = Some n.
Proof.
  intro H. unfold norm_index.
  destruct (0 <=? Z.of_nat n) eqn:E1; [|lia].
  destruct (Z.of_nat n <? Z.of_nat len) eqn:E2; [|lia].
  f_equal. lia.
Qed.

Ltac il_cbn :=
  cbn [run_list exec exec_list finish with_key with_it regs0 consume set_pos set_it set_tgt set_ret
       r_key r_pos r_obj r_it r_tgt r_ret it_content it_oneshot it_fails items index init
       step_ref caught_b existsb exn_eqb orb fold_left app].

Theorem step_eq s o : step s o = step_ref s o.
Proof.
  destruct s as [l d].
  destruct o as [x|xs|xs|k x|k x|k|k|k| |xs| | | | ]; unfold step, reassign, run_prog;
    cbv [prog_init prog_reindex prog_append prog_extend prog_iadd prog_insert prog_pop prog_remove
         prog_setitem prog_delitem prog_clear prog_reverse];
    il_cbn.
  - reflexivity.
  - reflexivity.
  - reflexivity.
  - destruct (position (IL l d) k); il_cbn; reflexivity.
  - destruct (position (IL l d) k) as [z|e]; il_cbn; [|reflexivity].
    destruct (norm_index (length l) z); il_cbn; reflexivity.
  - destruct (position (IL l d) k) as [z|e]; il_cbn; [|reflexivity].
    destruct (norm_index (length l) z); il_cbn; reflexivity.
  - destruct (position (IL l d) _) as [z|e]; il_cbn; [|reflexivity].
    destruct (norm_index (length l) z) as [n|]; il_cbn; [|reflexivity].
    destruct (nth_error l n); il_cbn; reflexivity.
  - destruct k as [z|a|x]; il_cbn.
    + reflexivity.
    + destruct (iget d a) as [u|]; il_cbn; [|reflexivity].
      destruct (pos_of_uid l u) as [n|] eqn:E; il_cbn; [|reflexivity].
      rewrite norm_index_of_nat by (eapply find_index_bound; exact E). il_cbn. reflexivity.
    + destruct (pos_of_uid l (ouid x)) as [n|] eqn:E; il_cbn; [|reflexivity].
      rewrite norm_index_of_nat by (eapply find_index_bound; exact E). il_cbn. reflexivity.
  - reflexivity.
  - reflexivity.
  - reflexivity.
  - reflexivity.
  - reflexivity.
  - reflexivity.
Qed.

Lemma step_inv s o : Inv s -> Inv (fst (step s o)).
Proof. rewrite step_eq. apply step_ref_inv. Qed.

Lemma step_refines_list s o :
  Inv s -> items (fst (step s o)) = fst (list_step (items s) o)
           /\ snd (step s o) = snd (list_step (items s) o).
Proof. rewrite step_eq. apply step_ref_refines_list. Qed.

Lemma step_failed_noop s o e : snd (step s o) = Raise e -> fst (step s o) = s.
Proof. rewrite step_eq. apply step_ref_failed_noop. Qed.

Lemma run_inv ops : forall s, Inv s -> Inv (run s ops).
Proof.
  induction ops as [|o ops IH]; intros s H; simpl.
  - exact H.
  - apply IH. apply step_inv. exact H.
Qed.

(* what the invariant means for a user: look-up by id finds an object of the list that
   carries this id, and finds one whenever there is one *)
Lemma spec_lookup_sound l a u : spec_lookup l a = Some u -> In (u, a) l.
Proof.
  induction l as [|[u0 a0] l IH]; simpl; [discriminate|].
  destruct (spec_lookup l a) eqn:E.
  - intros H. right. apply IH. exact H.
  - unfold oid, ouid. simpl. destruct (N.eqb a a0) eqn:Ea; [|discriminate].
    apply N.eqb_eq in Ea. subst. intros H. injection H as ->. left. reflexivity.
Qed.

Lemma spec_lookup_complete l a u : In (u, a) l -> spec_lookup l a <> None.
Proof.
  induction l as [|[u0 a0] l IH]; simpl; [tauto|].
  intros [H|H].
  - injection H as -> ->. destruct (spec_lookup l a); [discriminate|].
    unfold oid. simpl. rewrite N.eqb_refl. discriminate.
  - specialize (IH H). destruct (spec_lookup l a); [discriminate|]. contradiction.
Qed.

Lemma lookup_agrees s a :
  Inv s ->
  (forall u, iget (index s) a = Some u -> In (u, a) (items s)) /\
  ((exists u, In (u, a) (items s)) -> iget (index s) a <> None).
Proof.
  intros H. rewrite (H a). split.
  - intros u. apply spec_lookup_sound.
  - intros [u Hu]. eapply spec_lookup_complete. exact Hu.
Qed.

(* the whole list behaviour of a history is that of the plain-list history *)
Definition list_run (l : list obj) (ops : list op) : list obj :=
  fold_left (fun l o => fst (list_step l o)) ops l.

Lemma run_items ops : forall s, Inv s -> items (run s ops) = list_run (items s) ops.
Proof.
  induction ops as [|o ops IH]; intros s H; simpl.
  - reflexivity.
  - rewrite IH by (apply step_inv; exact H).
    destruct (step_refines_list s o H) as [E _]. rewrite E. reflexivity.
Qed.

(* the id maps to the LAST object of the list that carries it *)
Lemma spec_lookup_last l a u : spec_lookup l a = Some u ->
  exists l1 l2, l = l1 ++ (u, a) :: l2 /\ (forall u', ~ In (u', a) l2).
Proof.
  induction l as [|[u0 a0] l IH]; simpl; [discriminate|].
  destruct (spec_lookup l a) as [u1|] eqn:E.
  - intro H. injection H as ->. destruct (IH eq_refl) as [l1 [l2 [Hl Hn]]].
    exists ((u0, a0) :: l1), l2. split; [rewrite Hl; reflexivity | exact Hn].
  - unfold oid, ouid. simpl. destruct (N.eqb a a0) eqn:Ea; [|discriminate].
    apply N.eqb_eq in Ea. subst a0. intro H. injection H as ->.
    exists [], l. split; [reflexivity|].
    intros u' Hin. apply (spec_lookup_complete l a u') in Hin. contradiction.
Qed.

Lemma lookup_is_last s a u : Inv s -> iget (index s) a = Some u ->
  exists l1 l2, items s = l1 ++ (u, a) :: l2 /\ (forall u', ~ In (u', a) l2).
Proof. intros H E. rewrite (H a) in E. apply spec_lookup_last. exact E. Qed.

Lemma index_function_of_items ops a :
  iget (index (run init ops)) a = iget (reindex (items (run init ops))) a.
Proof. rewrite iget_reindex. apply (run_inv ops init Inv_init). Qed.

Lemma get_model_total s a : get_model s a = Ok (iget (index s) a).
Proof. unfold get_model. destruct (iget (index s) a); reflexivity. Qed.
