(* Names shared by the load-path models (C07, C08) and the generated Gen/Params.v:
   the DaeError classes of collada/common.py and the load steps of Collada.__init__.
   Only the NAMES are fixed here; which class derives from which, and the order in which the
   steps run, are regenerated from the Python source into Gen/Params.v. *)
From Coq Require Import List Bool.
Import ListNotations.

Inductive dcls :=
  | K_DaeError | K_DaeIncompleteError | K_DaeBrokenRefError | K_DaeMalformedError
  | K_DaeUnsupportedError | K_DaeSaveValidationError.

Definition dcls_eqb (a b : dcls) : bool :=
  match a, b with
  | K_DaeError, K_DaeError | K_DaeIncompleteError, K_DaeIncompleteError
  | K_DaeBrokenRefError, K_DaeBrokenRefError | K_DaeMalformedError, K_DaeMalformedError
  | K_DaeUnsupportedError, K_DaeUnsupportedError
  | K_DaeSaveValidationError, K_DaeSaveValidationError => true
  | _, _ => false
  end.

Lemma dcls_eqb_eq a b : dcls_eqb a b = true <-> a = b.
Proof. destruct a, b; simpl; split; intro H; try reflexivity; try discriminate. Qed.

Lemma dcls_eqb_refl a : dcls_eqb a a = true.
Proof. destruct a; reflexivity. Qed.

Definition all_dcls : list dcls :=
  [K_DaeError; K_DaeIncompleteError; K_DaeBrokenRefError; K_DaeMalformedError;
   K_DaeUnsupportedError; K_DaeSaveValidationError].

(* the load steps: one per _load* method called by Collada.__init__ *)
Inductive lib :=
  | LAsset | LImages | LEffects | LMaterials | LAnimations | LGeometry | LControllers
  | LLights | LCameras | LNodes | LScenes | LDefaultScene.

Definition lib_code (l : lib) : nat :=
  match l with
  | LAsset => 0 | LImages => 1 | LEffects => 2 | LMaterials => 3 | LAnimations => 4
  | LGeometry => 5 | LControllers => 6 | LLights => 7 | LCameras => 8 | LNodes => 9
  | LScenes => 10 | LDefaultScene => 11
  end.

Definition lib_eqb (a b : lib) : bool := Nat.eqb (lib_code a) (lib_code b).

Lemma lib_eqb_eq a b : lib_eqb a b = true <-> a = b.
Proof. destruct a, b; unfold lib_eqb; simpl; split; intro H; try reflexivity; try discriminate. Qed.

Lemma lib_eqb_refl a : lib_eqb a a = true.
Proof. destruct a; reflexivity. Qed.

Definition all_libs : list lib :=
  [LAsset; LImages; LEffects; LMaterials; LAnimations; LGeometry; LControllers; LLights;
   LCameras; LNodes; LScenes; LDefaultScene].

(* built-in exception classes that may be named in common.DaeRawLoadErrors *)
Inductive pycls :=
  | PC_ValueError | PC_TypeError | PC_AttributeError | PC_LookupError | PC_IndexError | PC_KeyError
  | PC_ArithmeticError | PC_Exception.
