(* The numeric-token oracle of the round-trip properties.

   Floats never enter Coq.  The writer's '%.7g' formatting and the loader's parse to
   binary32 are runtime behaviour: they are Section variables here, with the one property of
   them that C01 needs as a hypothesis.  The hypothesis is exercised on every run of
   ./check C01 (sampled float32/float64 values, the runtime's own '%.7g' and numpy.float32),
   and per case inside Coq on the finite tables of the values that occur in the case.

   Why the statement is about  parse32 o fmt7  and not about  fmt7 o parse32 : where binary32
   is finer than seven decimal digits, fmt7 recovers the decimal and parse32 maps it back to
   the same float; where it is coarser ([2^-10,1e-3), [2^-30,1e-9), above 2^33 - hence the
   property's bound 1e9) a seven-digit decimal is NOT recovered from its float
   (fmt7 (parse32 t) <> t for 14 % of the 7-digit decimals in [2^-10,1e-3)), but the float is
   recovered from its decimal.  So generation 0 of the text may differ from generation 1;
   from generation 1 on nothing changes. *)
From Coq Require Import List.
Import ListNotations.

Section Num.
  Variable X : Type.     (* the numbers a model holds (binary64 / binary32 values) *)
  Variable T : Type.     (* numeric tokens of the written text *)
  Variable fmt7 : X -> T.          (* '%.7g' % x *)
  Variable parse32 : T -> X.       (* numpy.fromstring(..., dtype=float32) of one token *)

  Definition norm (x : X) : X := parse32 (fmt7 x).

  Hypothesis H_num_stable : forall x, parse32 (fmt7 (parse32 (fmt7 x))) = parse32 (fmt7 x).

  Lemma norm_idem : forall x, norm (norm x) = norm x.
  Proof. intro x. unfold norm. apply H_num_stable. Qed.

  Lemma map_norm_idem : forall l, map norm (map norm l) = map norm l.
  Proof.
    induction l as [|x l IH]; [reflexivity|]. simpl. rewrite norm_idem, IH. reflexivity.
  Qed.

  (* a value that has been loaded once is a fixed point of write-then-load *)
  Lemma norm_fixes_loaded : forall t, norm (parse32 t) = parse32 t -> 
    fmt7 (norm (parse32 t)) = fmt7 (parse32 t).
  Proof. intros t H. rewrite H. reflexivity. Qed.
End Num.
