(* 4x4 matrices and 3/4-vectors over an abstract commutative ring (Leibniz equality),
   instantiated at Z for computation.  Shared by C13 (transforms), C12 (traversal), C18/C19.
   Column-vector convention: [mapply A v] is A.v ; [mmul A B] is A.B, so
   mapply (mmul A B) v = mapply A (mapply B v)  (B acts first). *)
From Coq Require Import List ZArith Ring Bool Lia.
Import ListNotations.

Section MatRing.
  Variable R : Type.
  Variables (rO rI : R) (radd rmul rsub : R -> R -> R) (ropp : R -> R).
  Hypothesis Rth : ring_theory rO rI radd rmul rsub ropp (@eq R).
  Add Ring MatRring : Rth.

  Notation "0" := rO.
  Notation "1" := rI.
  Infix "+" := radd.
  Infix "*" := rmul.
  Infix "-" := rsub.
  Notation "- x" := (ropp x).

  Definition vec3 : Type := (R * R * R)%type.
  Definition vec4 : Type := (R * R * R * R)%type.

  Record mat : Type := Mat { m00 : R; m01 : R; m02 : R; m03 : R; m10 : R; m11 : R; m12 : R; m13 : R; m20 : R; m21 : R; m22 : R; m23 : R; m30 : R; m31 : R; m32 : R; m33 : R }.
  Definition mid : mat := Mat 1 0 0 0 0 1 0 0 0 0 1 0 0 0 0 1.
  Definition mzero : mat := Mat 0 0 0 0 0 0 0 0 0 0 0 0 0 0 0 0.
  Definition mmul (A B : mat) : mat :=
    Mat
      (m00 A * m00 B + m01 A * m10 B + m02 A * m20 B + m03 A * m30 B)
      (m00 A * m01 B + m01 A * m11 B + m02 A * m21 B + m03 A * m31 B)
      (m00 A * m02 B + m01 A * m12 B + m02 A * m22 B + m03 A * m32 B)
      (m00 A * m03 B + m01 A * m13 B + m02 A * m23 B + m03 A * m33 B)
      (m10 A * m00 B + m11 A * m10 B + m12 A * m20 B + m13 A * m30 B)
      (m10 A * m01 B + m11 A * m11 B + m12 A * m21 B + m13 A * m31 B)
      (m10 A * m02 B + m11 A * m12 B + m12 A * m22 B + m13 A * m32 B)
      (m10 A * m03 B + m11 A * m13 B + m12 A * m23 B + m13 A * m33 B)
      (m20 A * m00 B + m21 A * m10 B + m22 A * m20 B + m23 A * m30 B)
      (m20 A * m01 B + m21 A * m11 B + m22 A * m21 B + m23 A * m31 B)
      (m20 A * m02 B + m21 A * m12 B + m22 A * m22 B + m23 A * m32 B)
      (m20 A * m03 B + m21 A * m13 B + m22 A * m23 B + m23 A * m33 B)
      (m30 A * m00 B + m31 A * m10 B + m32 A * m20 B + m33 A * m30 B)
      (m30 A * m01 B + m31 A * m11 B + m32 A * m21 B + m33 A * m31 B)
      (m30 A * m02 B + m31 A * m12 B + m32 A * m22 B + m33 A * m32 B)
      (m30 A * m03 B + m31 A * m13 B + m32 A * m23 B + m33 A * m33 B).
  Definition mtrans (A : mat) : mat :=
    Mat (m00 A) (m10 A) (m20 A) (m30 A) (m01 A) (m11 A) (m21 A) (m31 A) (m02 A) (m12 A) (m22 A) (m32 A) (m03 A) (m13 A) (m23 A) (m33 A).
  Definition mapply (A : mat) (v : vec4) : vec4 :=
    let '(x, y, z, w) := v in
    (m00 A * x + m01 A * y + m02 A * z + m03 A * w,
     m10 A * x + m11 A * y + m12 A * z + m13 A * w,
     m20 A * x + m21 A * y + m22 A * z + m23 A * w,
     m30 A * x + m31 A * y + m32 A * z + m33 A * w).
  Definition mget (A : mat) (i j : nat) : R :=
    match i, j with
    | 0, 0 => m00 A
    | 0, 1 => m01 A
    | 0, 2 => m02 A
    | 0, 3 => m03 A
    | 1, 0 => m10 A
    | 1, 1 => m11 A
    | 1, 2 => m12 A
    | 1, 3 => m13 A
    | 2, 0 => m20 A
    | 2, 1 => m21 A
    | 2, 2 => m22 A
    | 2, 3 => m23 A
    | 3, 0 => m30 A
    | 3, 1 => m31 A
    | 3, 2 => m32 A
    | 3, 3 => m33 A
    | _, _ => 0
    end.
  Definition mset (A : mat) (i j : nat) (v : R) : mat :=
    match i, j with
    | 0, 0 => Mat v (m01 A) (m02 A) (m03 A) (m10 A) (m11 A) (m12 A) (m13 A) (m20 A) (m21 A) (m22 A) (m23 A) (m30 A) (m31 A) (m32 A) (m33 A)
    | 0, 1 => Mat (m00 A) v (m02 A) (m03 A) (m10 A) (m11 A) (m12 A) (m13 A) (m20 A) (m21 A) (m22 A) (m23 A) (m30 A) (m31 A) (m32 A) (m33 A)
    | 0, 2 => Mat (m00 A) (m01 A) v (m03 A) (m10 A) (m11 A) (m12 A) (m13 A) (m20 A) (m21 A) (m22 A) (m23 A) (m30 A) (m31 A) (m32 A) (m33 A)
    | 0, 3 => Mat (m00 A) (m01 A) (m02 A) v (m10 A) (m11 A) (m12 A) (m13 A) (m20 A) (m21 A) (m22 A) (m23 A) (m30 A) (m31 A) (m32 A) (m33 A)
    | 1, 0 => Mat (m00 A) (m01 A) (m02 A) (m03 A) v (m11 A) (m12 A) (m13 A) (m20 A) (m21 A) (m22 A) (m23 A) (m30 A) (m31 A) (m32 A) (m33 A)
    | 1, 1 => Mat (m00 A) (m01 A) (m02 A) (m03 A) (m10 A) v (m12 A) (m13 A) (m20 A) (m21 A) (m22 A) (m23 A) (m30 A) (m31 A) (m32 A) (m33 A)
    | 1, 2 => Mat (m00 A) (m01 A) (m02 A) (m03 A) (m10 A) (m11 A) v (m13 A) (m20 A) (m21 A) (m22 A) (m23 A) (m30 A) (m31 A) (m32 A) (m33 A)
    | 1, 3 => Mat (m00 A) (m01 A) (m02 A) (m03 A) (m10 A) (m11 A) (m12 A) v (m20 A) (m21 A) (m22 A) (m23 A) (m30 A) (m31 A) (m32 A) (m33 A)
    | 2, 0 => Mat (m00 A) (m01 A) (m02 A) (m03 A) (m10 A) (m11 A) (m12 A) (m13 A) v (m21 A) (m22 A) (m23 A) (m30 A) (m31 A) (m32 A) (m33 A)
    | 2, 1 => Mat (m00 A) (m01 A) (m02 A) (m03 A) (m10 A) (m11 A) (m12 A) (m13 A) (m20 A) v (m22 A) (m23 A) (m30 A) (m31 A) (m32 A) (m33 A)
    | 2, 2 => Mat (m00 A) (m01 A) (m02 A) (m03 A) (m10 A) (m11 A) (m12 A) (m13 A) (m20 A) (m21 A) v (m23 A) (m30 A) (m31 A) (m32 A) (m33 A)
    | 2, 3 => Mat (m00 A) (m01 A) (m02 A) (m03 A) (m10 A) (m11 A) (m12 A) (m13 A) (m20 A) (m21 A) (m22 A) v (m30 A) (m31 A) (m32 A) (m33 A)
    | 3, 0 => Mat (m00 A) (m01 A) (m02 A) (m03 A) (m10 A) (m11 A) (m12 A) (m13 A) (m20 A) (m21 A) (m22 A) (m23 A) v (m31 A) (m32 A) (m33 A)
    | 3, 1 => Mat (m00 A) (m01 A) (m02 A) (m03 A) (m10 A) (m11 A) (m12 A) (m13 A) (m20 A) (m21 A) (m22 A) (m23 A) (m30 A) v (m32 A) (m33 A)
    | 3, 2 => Mat (m00 A) (m01 A) (m02 A) (m03 A) (m10 A) (m11 A) (m12 A) (m13 A) (m20 A) (m21 A) (m22 A) (m23 A) (m30 A) (m31 A) v (m33 A)
    | 3, 3 => Mat (m00 A) (m01 A) (m02 A) (m03 A) (m10 A) (m11 A) (m12 A) (m13 A) (m20 A) (m21 A) (m22 A) (m23 A) (m30 A) (m31 A) (m32 A) v
    | _, _ => A
    end.
  Definition mat_to_list (A : mat) : list R :=
    [m00 A; m01 A; m02 A; m03 A; m10 A; m11 A; m12 A; m13 A; m20 A; m21 A; m22 A; m23 A; m30 A; m31 A; m32 A; m33 A].
  Definition mat_of_list (l : list R) : mat :=
    Mat (nth 0 l 0) (nth 1 l 0) (nth 2 l 0) (nth 3 l 0) (nth 4 l 0) (nth 5 l 0) (nth 6 l 0) (nth 7 l 0) (nth 8 l 0) (nth 9 l 0) (nth 10 l 0) (nth 11 l 0) (nth 12 l 0) (nth 13 l 0) (nth 14 l 0) (nth 15 l 0).

  (* ---- vectors *)
  Definition vadd (a b : vec3) : vec3 :=
    let '(a0, a1, a2) := a in let '(b0, b1, b2) := b in (a0 + b0, a1 + b1, a2 + b2).
  Definition vsub (a b : vec3) : vec3 :=
    let '(a0, a1, a2) := a in let '(b0, b1, b2) := b in (a0 - b0, a1 - b1, a2 - b2).
  Definition vscale (k : R) (a : vec3) : vec3 :=
    let '(a0, a1, a2) := a in (k * a0, k * a1, k * a2).
  (* numpy: vec / k, componentwise with a division supplied by the instance *)
  Definition vdivs (rdiv : R -> R -> R) (a : vec3) (k : R) : vec3 :=
    let '(a0, a1, a2) := a in (rdiv a0 k, rdiv a1 k, rdiv a2 k).
  Definition vdot (a b : vec3) : R :=
    let '(a0, a1, a2) := a in let '(b0, b1, b2) := b in a0 * b0 + a1 * b1 + a2 * b2.
  (* numpy.cross *)
  Definition vcross (a b : vec3) : vec3 :=
    let '(a0, a1, a2) := a in let '(b0, b1, b2) := b in
    (a1 * b2 - a2 * b1, a2 * b0 - a0 * b2, a0 * b1 - a1 * b0).
  Definition vnth (a : vec3) (i : nat) : R :=
    let '(a0, a1, a2) := a in match i with 0%nat => a0 | 1%nat => a1 | 2%nat => a2 | _ => 0 end.
  Definition point (a : vec3) : vec4 := let '(a0, a1, a2) := a in (a0, a1, a2, 1).
  Definition direction (a : vec3) : vec4 := let '(a0, a1, a2) := a in (a0, a1, a2, 0).
  Definition xyz (v : vec4) : vec3 := let '(x, y, z, _) := v in (x, y, z).

  (* the rotation/scale block R and the translation column t of an affine matrix *)
  Definition lin_apply (A : mat) (a : vec3) : vec3 :=
    let '(a0, a1, a2) := a in
    (m00 A * a0 + m01 A * a1 + m02 A * a2,
     m10 A * a0 + m11 A * a1 + m12 A * a2,
     m20 A * a0 + m21 A * a1 + m22 A * a2).
  Definition mcol3 (A : mat) (j : nat) : vec3 := (mget A 0 j, mget A 1 j, mget A 2 j).
  Definition mrow3 (A : mat) (i : nat) : vec3 := (mget A i 0, mget A i 1, mget A i 2).
  Definition translation (A : mat) : vec3 := mcol3 A 3.

  Definition det3 (A : mat) : R :=
    m00 A * (m11 A * m22 A - m12 A * m21 A)
    - m01 A * (m10 A * m22 A - m12 A * m20 A)
    + m02 A * (m10 A * m21 A - m11 A * m20 A).
  Definition trace3 (A : mat) : R := m00 A + m11 A + m22 A.
  (* an affine matrix has last row (0,0,0,1) *)
  Definition affine (A : mat) : Prop := m30 A = 0 /\ m31 A = 0 /\ m32 A = 0 /\ m33 A = 1.

  (* ---- algebra *)
  Ltac mred := cbv [mmul mid mzero mtrans mapply mget mset m00 m01 m02 m03 m10 m11 m12 m13 m20 m21 m22 m23
                    m30 m31 m32 m33 point direction xyz lin_apply translation mcol3 mrow3 vadd vsub vscale
                    vdivs vdot vcross affine] in *.
  Ltac vec_eq := repeat match goal with |- (_, _) = (_, _) => apply f_equal2 end.
  Lemma mat_ext : forall A B : mat,
    m00 A = m00 B -> m01 A = m01 B -> m02 A = m02 B -> m03 A = m03 B ->
    m10 A = m10 B -> m11 A = m11 B -> m12 A = m12 B -> m13 A = m13 B ->
    m20 A = m20 B -> m21 A = m21 B -> m22 A = m22 B -> m23 A = m23 B ->
    m30 A = m30 B -> m31 A = m31 B -> m32 A = m32 B -> m33 A = m33 B -> A = B.
  Proof. intros [] []; simpl; intros; subst; reflexivity. Qed.

  Lemma mmul_assoc : forall A B C, mmul (mmul A B) C = mmul A (mmul B C).
  Proof. intros [] [] []; apply mat_ext; mred; ring. Qed.
  Lemma mmul_id_l : forall A, mmul mid A = A.
  Proof. intros []; apply mat_ext; mred; ring. Qed.
  Lemma mmul_id_r : forall A, mmul A mid = A.
  Proof. intros []; apply mat_ext; mred; ring. Qed.
  Lemma mapply_mmul : forall A B v, mapply (mmul A B) v = mapply A (mapply B v).
  Proof. intros [] [] [[[x y] z] w]; mred; vec_eq; ring. Qed.
  Lemma mapply_id : forall v, mapply mid v = v.
  Proof. intros [[[x y] z] w]; mred; vec_eq; ring. Qed.
  Lemma mtrans_mmul : forall A B, mtrans (mmul A B) = mmul (mtrans B) (mtrans A).
  Proof. intros [] []; apply mat_ext; mred; ring. Qed.
  Lemma mtrans_involutive : forall A, mtrans (mtrans A) = A.
  Proof. intros []; reflexivity. Qed.

  (* applying an affine matrix to a point / a direction is R.v + t / R.v *)
  Lemma mapply_point : forall A a, affine A ->
    mapply A (point a) = point (vadd (lin_apply A a) (translation A)).
  Proof.
    intros [] [[a0 a1] a2] (H0 & H1 & H2 & H3); mred; subst; vec_eq; ring.
  Qed.
  Lemma mapply_direction : forall A a, affine A ->
    mapply A (direction a) = direction (lin_apply A a).
  Proof.
    intros [] [[a0 a1] a2] (H0 & H1 & H2 & H3); mred; subst; vec_eq; ring.
  Qed.
  (* ... and without the affinity hypothesis for the first three coordinates *)
  Lemma xyz_mapply_point : forall A a, xyz (mapply A (point a)) = vadd (lin_apply A a) (translation A).
  Proof. intros [] [[a0 a1] a2]; mred; vec_eq; ring. Qed.
  Lemma xyz_mapply_direction : forall A a, xyz (mapply A (direction a)) = lin_apply A a.
  Proof. intros [] [[a0 a1] a2]; mred; vec_eq; ring. Qed.

  Lemma affine_mid : affine mid.
  Proof. repeat split. Qed.
  Lemma affine_mmul : forall A B, affine A -> affine B -> affine (mmul A B).
  Proof.
    intros [] [] (H0 & H1 & H2 & H3) (K0 & K1 & K2 & K3); mred; subst; repeat split; ring.
  Qed.

  Lemma mget_mset_same : forall A i j v, (i < 4)%nat -> (j < 4)%nat -> mget (mset A i j v) i j = v.
  Proof.
    intros A i j v Hi Hj.
    destruct i as [|[|[|[|i]]]]; destruct j as [|[|[|[|j]]]]; try reflexivity; exfalso; lia.
  Qed.
  Lemma mat_of_to_list : forall A, mat_of_list (mat_to_list A) = A.
  Proof. intros []; reflexivity. Qed.

  (* products of a list of matrices, left to right *)
  Fixpoint mprod (l : list mat) : mat :=
    match l with
    | [] => mid
    | A :: r => mmul A (mprod r)
    end.
  Lemma mprod_app : forall l1 l2, mprod (l1 ++ l2) = mmul (mprod l1) (mprod l2).
  Proof.
    induction l1 as [|A l1 IH]; intro l2; simpl.
    - symmetry; apply mmul_id_l.
    - rewrite IH. symmetry; apply mmul_assoc.
  Qed.
  (* the accumulating loop  acc = dot(acc, t)  computes the same product *)
  Lemma fold_left_mmul : forall l acc, fold_left mmul l acc = mmul acc (mprod l).
  Proof.
    induction l as [|A l IH]; intro acc; simpl.
    - symmetry; apply mmul_id_r.
    - rewrite IH. apply mmul_assoc.
  Qed.
End MatRing.

Arguments Mat {R}.
Arguments m00 {R}. Arguments m01 {R}. Arguments m02 {R}. Arguments m03 {R}.
Arguments m10 {R}. Arguments m11 {R}. Arguments m12 {R}. Arguments m13 {R}.
Arguments m20 {R}. Arguments m21 {R}. Arguments m22 {R}. Arguments m23 {R}.
Arguments m30 {R}. Arguments m31 {R}. Arguments m32 {R}. Arguments m33 {R}.
Arguments mid {R}. Arguments mzero {R}. Arguments mmul {R}. Arguments mtrans {R}.
Arguments mapply {R}. Arguments mget {R}. Arguments mset {R}.
Arguments mat_to_list {R}. Arguments mat_of_list {R}.
Arguments vadd {R}. Arguments vsub {R}. Arguments vscale {R}. Arguments vdot {R}.
Arguments vdivs {R}. Arguments vcross {R}. Arguments vnth {R}. Arguments point {R}. Arguments direction {R}.
Arguments xyz {R}. Arguments lin_apply {R}. Arguments mcol3 {R}. Arguments mrow3 {R}.
Arguments translation {R}. Arguments det3 {R}. Arguments trace3 {R}. Arguments affine {R}.
Arguments mprod {R}.

(* ---- the instance used for computation: integer matrices *)
Definition Zth_mat : ring_theory 0%Z 1%Z Z.add Z.mul Z.sub Z.opp (@eq Z) := InitialRing.Zth.
Definition matZ : Type := mat Z.
Definition zmid : matZ := mid 0%Z 1%Z.
Definition zmmul : matZ -> matZ -> matZ := mmul Z.add Z.mul.
Definition zmapply : matZ -> vec4 Z -> vec4 Z := mapply Z.add Z.mul.
Definition zmprod : list matZ -> matZ := mprod 0%Z 1%Z Z.add Z.mul.
Definition zlin_apply : matZ -> vec3 Z -> vec3 Z := lin_apply Z.add Z.mul.
Definition zmat_of_list : list Z -> matZ := mat_of_list 0%Z.

Definition list_eqbZ (a b : list Z) : bool := if list_eq_dec Z.eq_dec a b then true else false.
Definition mat_eqbZ (A B : matZ) : bool := list_eqbZ (mat_to_list A) (mat_to_list B).
Definition vec3_eqbZ (a b : vec3 Z) : bool :=
  let '(a0, a1, a2) := a in let '(b0, b1, b2) := b in Z.eqb a0 b0 && Z.eqb a1 b1 && Z.eqb a2 b2.
Lemma mat_eqbZ_eq : forall A B, mat_eqbZ A B = true <-> A = B.
Proof.
  intros A B; unfold mat_eqbZ, list_eqbZ.
  destruct (list_eq_dec Z.eq_dec (mat_to_list A) (mat_to_list B)) as [e|n]; split; intro H; try reflexivity.
  - rewrite <- (mat_of_to_list Z 0%Z A), <- (mat_of_to_list Z 0%Z B), e; reflexivity.
  - discriminate.
  - subst; elim n; reflexivity.
Qed.
