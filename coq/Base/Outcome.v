(* Exceptions as data.  Every model function that can fail returns an [outcome]. *)
From Coq Require Import List Bool.
Import ListNotations.

Inductive exn :=
  | DaeIncomplete | DaeBrokenRef | DaeMalformed | DaeUnsupported | DaeSaveValidation
  | DaeOther            (* DaeError itself / any other subclass *)
  | PyIndexError | PyKeyError | PyTypeError | PyValueError | PyAttributeError
  | PyOther | OutOfFuel.

Definition exn_eqb (a b : exn) : bool :=
  match a, b with
  | DaeIncomplete, DaeIncomplete | DaeBrokenRef, DaeBrokenRef | DaeMalformed, DaeMalformed
  | DaeUnsupported, DaeUnsupported | DaeSaveValidation, DaeSaveValidation | DaeOther, DaeOther
  | PyIndexError, PyIndexError | PyKeyError, PyKeyError | PyTypeError, PyTypeError
  | PyValueError, PyValueError | PyAttributeError, PyAttributeError | PyOther, PyOther
  | OutOfFuel, OutOfFuel => true
  | _, _ => false
  end.

Lemma exn_eqb_eq a b : exn_eqb a b = true <-> a = b.
Proof. destruct a, b; simpl; split; intro H; try reflexivity; try discriminate. Qed.

Definition is_dae (e : exn) : bool :=
  match e with
  | DaeIncomplete | DaeBrokenRef | DaeMalformed | DaeUnsupported | DaeSaveValidation | DaeOther => true
  | _ => false
  end.

(* numeric code used by the harness when it records the implementation's exception class *)
Definition exn_code (e : exn) : nat :=
  match e with
  | DaeIncomplete => 1 | DaeBrokenRef => 2 | DaeMalformed => 3 | DaeUnsupported => 4
  | DaeSaveValidation => 5 | DaeOther => 6 | PyIndexError => 7 | PyKeyError => 8
  | PyTypeError => 9 | PyValueError => 10 | PyAttributeError => 11 | PyOther => 12
  | OutOfFuel => 13
  end.

Inductive outcome (A : Type) := Ok (a : A) | Raise (e : exn).
Arguments Ok {A} a.
Arguments Raise {A} e.

Definition obind {A B} (o : outcome A) (f : A -> outcome B) : outcome B :=
  match o with Ok a => f a | Raise e => Raise e end.
Definition omap {A B} (f : A -> B) (o : outcome A) : outcome B :=
  match o with Ok a => Ok (f a) | Raise e => Raise e end.

Declare Scope outcome_scope.
Delimit Scope outcome_scope with outcome.
Notation "x <- c1 ;; c2" := (obind c1 (fun x => c2))
  (at level 61, c1 at next level, right associativity) : outcome_scope.

Definition of_option {A} (e : exn) (o : option A) : outcome A :=
  match o with Some a => Ok a | None => Raise e end.

Fixpoint omapM {A B} (f : A -> outcome B) (l : list A) : outcome (list B) :=
  match l with
  | [] => Ok []
  | x :: xs => match f x with
               | Raise e => Raise e
               | Ok y => match omapM f xs with Raise e => Raise e | Ok ys => Ok (y :: ys) end
               end
  end.

(* code of an outcome: 0 for success, the exception code otherwise *)
Definition ocode {A} (o : outcome A) : nat :=
  match o with Ok _ => 0 | Raise e => exn_code e end.
