(* Vocabulary of the fragments that harness/translate/triangulate.py regenerates from
   collada/polylist.py and collada/triangleset.py into Gen/Triangulate.v (C11). *)
From Coq Require Import List ZArith.
Import ListNotations.

(* index expression of a gather  self.index[...]  in Polylist.triangleset:
   indexselector - firstpolyindex   or   indexselector + k *)
Inductive gexpr := GSelMinusFirst | GSelPlus (k : Z).

(* mask[polyends[vcounts >= g] - d] = False *)
Definition clear_spec := (nat * Z)%type.

(* subscript inside the loop  for i in range(npts - K)  of Polygon.triangles: a constant or i + k *)
Inductive iexpr := IConst (z : Z) | ILoop (k : Z).
Definition corners := (iexpr * iexpr * iexpr)%type.

Definition iexpr_eqb (a b : iexpr) : bool :=
  match a, b with
  | IConst x, IConst y => Z.eqb x y
  | ILoop x, ILoop y => Z.eqb x y
  | _, _ => false
  end.
Definition corners_eqb (a b : corners) : bool :=
  let '(a1, a2, a3) := a in let '(b1, b2, b3) := b in
  iexpr_eqb a1 b1 && iexpr_eqb a2 b2 && iexpr_eqb a3 b3.

(* attributes of a (Bound)TriangleSet that carry index rows or views of them *)
Inductive tsfield := FIndex | FVertexIndex | FNormalIndex | FTexcoordIndexset
                   | FTextangentIndexset | FTexbinormalIndexset.
Definition tsfield_eqb (a b : tsfield) : bool :=
  match a, b with
  | FIndex, FIndex | FVertexIndex, FVertexIndex | FNormalIndex, FNormalIndex
  | FTexcoordIndexset, FTexcoordIndexset | FTextangentIndexset, FTextangentIndexset
  | FTexbinormalIndexset, FTexbinormalIndexset => true
  | _, _ => false
  end.

(* value of _indexExtendFunctions[tag] *)
Inductive ext_fn := EStrip | EFan | ENone.
