(* Vocabulary of the per-method programs that harness/translate/indexedlist.py regenerates from
   class IndexedList (collada/util.py) into Gen/IndexedList.v (C14).  One instruction per
   statement of a mutator, in source order. *)
From Coq Require Import List.
From PC Require Import Base.Outcome.
Import ListNotations.

(* the plain-list operation a statement performs: list.X(self, ...) / super().__init__(items) *)
Inductive listop := LInsert | LPop | LDelItem | LSetItem | LExtend | LAppend | LClear | LReverse
                  | LSort | LInit.

Inductive instr :=
  | IPosition                      (* ind = self._position(ind) *)
  | IMaterialise                   (* newList = list(newList) *)
  | IMaterialiseIfSlice            (* if isinstance(ind, slice): new_obj = list(new_obj) *)
  | ILookupOrSelf (caught : list exn)  (* try: obj = self._index[x]  except (...): obj = x *)
  | IListIndex                     (* ind = list.index(self, obj) *)
  | IList (o : listop)             (* the list operation *)
  | IAddIndexArg                   (* self._addindex(obj) *)
  | IAddIndexEach                  (* for obj in newList: _add(obj) *)
  | IAddIndexSelfEach              (* for obj in self: _add(obj) *)
  | IIndexClear                    (* self._index = {} *)
  | IReindex                       (* self._reindex() *)
  | ICallExtend.                   (* self.extend(newList) *)

Definition caught_b (e : exn) (l : list exn) : bool := existsb (exn_eqb e) l.
