(* Python / numpy basic slicing  l[a:b:s]  for a positive step, and numpy's integer-array
   ("fancy") indexing with negative wrap-around, on the first axis.

   [pyslice] is CPython's own definition (PySlice_AdjustIndices + the copy loop that every
   sequence type and numpy's basic indexing share):
       start, stop are clamped into [0, len] after the negative adjustment,
       slicelength = 0 if start >= stop else (stop - start - 1) / step + 1,
       result[i] = src[start + i*step]  for i < slicelength.
   The correspondence check of C11 compares it with the Python runtime on random bounds. *)
From Coq Require Import List Bool ZArith Lia Arith ZifyNat.
From PC Require Import Base.Outcome Base.Py.
Import ListNotations.
Local Open Scope nat_scope.

Ltac Zify.zify_post_hook ::= Z.div_mod_to_equations.

(* a slice bound: None = omitted *)
Definition slice_bound (len dflt : nat) (b : option Z) : nat :=
  match b with None => dflt | Some z => clamp_index len z end.

Definition slice_len (lo hi s : nat) : nat :=
  if lo <? hi then (hi - lo - 1) / s + 1 else 0.

Definition pick {A} (l : list A) (i : nat) : list A :=
  match nth_error l i with Some x => [x] | None => [] end.

Definition slice_lo (n : nat) (a : option Z) : nat := slice_bound n 0 a.
Definition slice_hi (n : nat) (b : option Z) : nat := slice_bound n n b.

Definition pyslice {A} (a b : option Z) (s : nat) (l : list A) : list A :=
  let n := length l in
  flat_map (fun i => pick l (slice_lo n a + i * s))
           (seq 0 (slice_len (slice_lo n a) (slice_hi n b) s)).

(* slices as data (the form emitted by harness/translate/strips.py) *)
Definition slice1 := (option Z * option Z * nat)%type.
Definition slice3 := (slice1 * slice1 * slice1)%type.
Definition pyslice1 {A} (sl : slice1) (l : list A) : list A :=
  let '(a, b, s) := sl in pyslice a b s l.

(* ---- numpy integer-array indexing on axis 0: every index must lie in [-len, len) *)
Definition np_take {A} (l : list A) (idx : list Z) : outcome (list A) :=
  omapM (fun z => match norm_index (length l) z with
                  | Some k => match nth_error l k with Some x => Ok x | None => Raise PyIndexError end
                  | None => Raise PyIndexError
                  end) idx.

(* mask[idx] = v  for an integer index array: all indices are bounds-checked (wrapping
   negatives) and then every addressed position is overwritten *)
Fixpoint set_all {A} (v : A) (ks : list nat) (l : list A) : list A :=
  match ks with
  | [] => l
  | k :: r => set_all v r (replace_at k v l)
  end.

Definition np_put {A} (l : list A) (idx : list Z) (v : A) : outcome (list A) :=
  obind (omapM (fun z => of_option PyIndexError (norm_index (length l) z)) idx)
        (fun ks => Ok (set_all v ks l)).

(* arr[boolmask] on axis 0 (the mask must have the array's length) *)
Fixpoint np_compress {A} (mask : list bool) (l : list A) : list A :=
  match mask, l with
  | m :: mr, x :: xr => if m then x :: np_compress mr xr else np_compress mr xr
  | _, _ => []
  end.
Definition np_mask {A} (l : list A) (mask : list bool) : outcome (list A) :=
  if Nat.eqb (length mask) (length l) then Ok (np_compress mask l) else Raise PyIndexError.

(* numpy.repeat(arr, c, 0) with one integer count: a negative count is an error unless
   there is nothing to repeat *)
Definition np_repeat_scalar {A} (l : list A) (c : Z) : outcome (list A) :=
  match l with
  | [] => Ok []
  | _ => if (c <? 0)%Z then Raise PyValueError else Ok (flat_map (fun x => repeat x (Z.to_nat c)) l)
  end.

(* numpy.repeat(arr, counts) with one count per element *)
Fixpoint np_repeat_each {A} (l : list A) (cs : list nat) : list A :=
  match l, cs with
  | x :: xr, c :: cr => repeat x c ++ np_repeat_each xr cr
  | _, _ => []
  end.

(* ------------------------------------------------------------------ lemmas *)

Lemma slice_lo_le n a : slice_lo n a <= n.
Proof. unfold slice_lo, slice_bound, clamp_index. destruct a as [z|]; [|lia]. destruct (0 <=? z)%Z eqn:E; lia. Qed.
Lemma slice_hi_le n b : slice_hi n b <= n.
Proof. unfold slice_hi, slice_bound, clamp_index. destruct b as [z|]; [|lia]. destruct (0 <=? z)%Z eqn:E; lia. Qed.

Lemma slice_len_in_range lo hi s i : s > 0 -> i < slice_len lo hi s -> lo + i * s < hi.
Proof.
  unfold slice_len. intros Hs Hi. destruct (lo <? hi) eqn:E; [|lia].
  apply Nat.ltb_lt in E.
  assert (i <= (hi - lo - 1) / s) by lia.
  pose proof (Nat.mul_div_le (hi - lo - 1) s). nia.
Qed.

Lemma pick_map {A B} (f : A -> B) l i : pick (map f l) i = map f (pick l i).
Proof. unfold pick. rewrite nth_error_map. destruct (nth_error l i); reflexivity. Qed.

Lemma map_flat_map {A B C} (f : B -> C) (g : A -> list B) xs :
  map f (flat_map g xs) = flat_map (fun x => map f (g x)) xs.
Proof. induction xs as [|x xs IH]; simpl; [reflexivity|]. rewrite map_app, IH. reflexivity. Qed.

(* naturality: slicing only moves elements *)
Lemma pyslice_map {A B} (f : A -> B) a b s l : pyslice a b s (map f l) = map f (pyslice a b s l).
Proof.
  unfold pyslice. rewrite map_length, map_flat_map.
  apply flat_map_ext. intro i. apply pick_map.
Qed.

Lemma flat_map_single {A B} (f : A -> B) xs : flat_map (fun x => [f x]) xs = map f xs.
Proof. induction xs as [|x xs IH]; simpl; [reflexivity|]. rewrite IH. reflexivity. Qed.

Lemma flat_map_ext_in {A B} (f g : A -> list B) xs :
  (forall x, In x xs -> f x = g x) -> flat_map f xs = flat_map g xs.
Proof.
  induction xs as [|x xs IH]; simpl; intro H; [reflexivity|].
  rewrite H by (left; reflexivity). rewrite IH; [reflexivity|]. intros y Hy. apply H. right. exact Hy.
Qed.

(* a slice is the list of the addressed elements *)
Lemma pyslice_nth {A} (d : A) a b s l : s > 0 ->
  pyslice a b s l =
  map (fun i => nth (slice_lo (length l) a + i * s) l d)
      (seq 0 (slice_len (slice_lo (length l) a) (slice_hi (length l) b) s)).
Proof.
  intro Hs. unfold pyslice. rewrite <- flat_map_single.
  apply flat_map_ext_in. intros i Hi. apply in_seq in Hi.
  assert (Hr : slice_lo (length l) a + i * s < slice_hi (length l) b)
    by (apply slice_len_in_range; lia).
  pose proof (slice_hi_le (length l) b) as Hh.
  unfold pick. rewrite (nth_error_nth' l d) by lia. reflexivity.
Qed.

Lemma pyslice_seq a b s n : s > 0 ->
  pyslice a b s (seq 0 n) =
  map (fun i => slice_lo n a + i * s) (seq 0 (slice_len (slice_lo n a) (slice_hi n b) s)).
Proof.
  intro Hs. rewrite (pyslice_nth 0) by exact Hs. rewrite seq_length.
  apply map_ext_in. intros i Hi. apply in_seq in Hi.
  assert (Hr : slice_lo n a + i * s < slice_hi n b) by (apply slice_len_in_range; lia).
  pose proof (slice_hi_le n b). rewrite seq_nth by lia. reflexivity.
Qed.

Lemma pyslice_length {A} a b s (l : list A) : s > 0 ->
  length (pyslice a b s l) = slice_len (slice_lo (length l) a) (slice_hi (length l) b) s.
Proof.
  intro Hs. destruct l as [|d l'].
  - unfold pyslice. simpl length.
    assert (E : slice_len (slice_lo 0 a) (slice_hi 0 b) s = 0).
    { pose proof (slice_lo_le 0 a). pose proof (slice_hi_le 0 b). unfold slice_len.
      destruct (slice_lo 0 a <? slice_hi 0 b) eqn:E; [apply Nat.ltb_lt in E; lia | reflexivity]. }
    rewrite E. reflexivity.
  - rewrite (pyslice_nth d) by exact Hs. rewrite map_length, seq_length. reflexivity.
Qed.

Lemma repeat_as_map {A} (x : A) c : repeat x c = map (fun _ => x) (seq 0 c).
Proof.
  induction c as [|c IH]; [reflexivity|].
  rewrite seq_S, map_app, <- IH. simpl. apply repeat_cons.
Qed.

(* sanity: a few concrete slices *)
Example pyslice_ex1 : pyslice (Some 0%Z) (Some (-2)%Z) 2 [0;1;2;3;4;5;6] = [0;2;4]. Proof. reflexivity. Qed.
Example pyslice_ex2 : pyslice (Some 3%Z) None 2 [0;1;2;3;4;5;6] = [3;5]. Proof. reflexivity. Qed.
Example pyslice_ex3 : pyslice (Some (-9)%Z) (Some 9%Z) 3 [0;1;2;3;4;5;6] = [0;3;6]. Proof. reflexivity. Qed.
Example pyslice_ex4 : pyslice (Some 1%Z) (Some (-1)%Z) 1 [0] = []. Proof. reflexivity. Qed.
